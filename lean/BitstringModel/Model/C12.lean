/-
  Model/C12.lean — LSB0 mode as an index mirror of MSB0 mode.

  SPEC: `mirror op := reverse ∘ op_msb0 ∘ reverse` on the bit operands, same position arguments.  Every
        operation below takes the bit-numbering mode as a parameter exactly where the code consults the
        rebound methods, so "the msb0 operation" is the same function at `Mode.msb0`.
  ALG (line numbers of /repo at c59055f): bitstore.py `offset_slice_indices_lsb0` (21-35), `BitStore.find/rfind/
        findall_msb0` (136-180), `*_msb0/*_lsb0` accessors and mutators (209-292); bits.py `__lshift__/__rshift__`
        (337-365), `_slice/_absolute_slice` (1046-1061), `_truncateleft/right/_insert/_overwrite/_delete/_reversebytes/
        _invert/_ilshift/_irshift` (1089-1161), `_validate_slice` (1180), `unpack/_read_dtype_list` (1188-1262),
        `find/_find_lsb0/_find_msb0` (1264-1311), `findall/_findall_msb0/_findall_lsb0` (1313-1375, the reverse chunk
        scan), `rfind/_rfind_msb0/_rfind_lsb0` (1377-1420), `cut` (1422), `startswith/endswith` (1554-1576), `all/any`
        (1578-1610); bitarray_.py `_setitem_int/_setitem_slice/__delitem__` (163-220), `_replace/replace` (278-341),
        `insert/overwrite/append/prepend/_append_msb0/_append_lsb0` (343-404), `reverse` (406-424), `set` (426-455),
        `invert` (457-478), `ror/_ror_msb0/rol/_rol_msb0` (480-532), `byteswap` (534-596); bitstream.py `read/readlist/
        peek` (265-400); methods.py `pack` (token list reversal, 86-93); bitstring_options.py `set_lsb0` (46-73, the
        two method tables).
  bitarray's own slicing / searching is modelled by its Python-list meaning (`Py.*` in Model/Basic.lean and the
  `py*` / `search` primitives below).
-/
import BitstringModel.Model.Basic
namespace BM.C12
open BM

deriving instance DecidableEq for Except

/-- `bitstring.options.lsb0`. -/
inductive Mode where
  | msb0 | lsb0
  deriving DecidableEq, Repr, Inhabited

/-- A Python `slice(start, stop, step)`. -/
structure Key where
  start : Option Int
  stop : Option Int
  step : Option Int
  deriving DecidableEq, Repr

/-! ## bitarray primitives (Python list meaning) -/

/-- `l[a:b]` (no step): `drop`/`take` on the clamped bounds (`= Py.getSlice l a b none`, theorem `sliceStep1_eq`). -/
def sliceStep1 {α} (l : List α) (start stop : Option Int) : List α :=
  let r := Py.sliceIndices start stop 1 l.length
  (l.drop r.1.toNat).take (r.2.1 - r.1).toNat

/-- `bitarray.__getitem__(slice)`. -/
def pyGet (l : Bits) (k : Key) : Except Err Bits := Py.getSlice l k.start k.stop k.step

/-- Pointwise meaning of an extended-slice assignment: position `idx[j]` receives `v[j]`. -/
def assignAt {α} (l : List α) (idx : List Int) (v : List α) : List α :=
  (List.range l.length).filterMap fun (i : Nat) =>
    match (idx.zip v).lookup (i : Int) with
    | some x => some x
    | none => l[i]?

/-- `bitarray.__setitem__(slice, bitarray)`: step 1 resizes (`l[a:b] = v`, with `b < a` meaning `b = a`),
    any other step needs equal lengths (ValueError otherwise). -/
def pySet (l : Bits) (k : Key) (v : Bits) : Except Err Bits :=
  let st := k.step.getD 1
  if st = 0 then .error .value else
  let r := Py.sliceIndices k.start k.stop st l.length
  if st = 1 then
    let e := max r.2.1 r.1
    .ok (l.take r.1.toNat ++ v ++ l.drop e.toNat)
  else
    let idx := Py.rangeList r.1 r.2.1 st
    if v.length ≠ idx.length then .error .value else .ok (assignAt l idx v)

/-- `bitarray.__setitem__(slice, 0|1)`: every visited position receives the bit. -/
def pySetBit (l : Bits) (k : Key) (b : Bool) : Except Err Bits :=
  let st := k.step.getD 1
  if st = 0 then .error .value else
  let r := Py.sliceIndices k.start k.stop st l.length
  let idx := Py.rangeList r.1 r.2.1 st
  .ok (assignAt l idx (List.replicate idx.length b))

/-- `bitarray.__delitem__(slice)`: the visited positions are removed. -/
def pyDel (l : Bits) (k : Key) : Except Err Bits :=
  let st := k.step.getD 1
  if st = 0 then .error .value else
  let r := Py.sliceIndices k.start k.stop st l.length
  let idx := Py.rangeList r.1 r.2.1 st
  .ok ((List.range l.length).filterMap fun (i : Nat) => if (i : Int) ∈ idx then none else l[i]?)

/-- normalise an index as CPython does for `seq[i]`; IndexError outside. -/
def pyIndex (n : Nat) (i : Int) : Except Err Nat :=
  let j := if i < 0 then i + n else i
  if j < 0 ∨ (n : Int) ≤ j then .error .index else .ok j.toNat

def pyGetIdx (l : Bits) (i : Int) : Except Err Bool := Py.getIndex l i

def pySetIdx (l : Bits) (i : Int) (b : Bool) : Except Err Bits := do
  let j ← pyIndex l.length i
  pure (l.set j b)

def pyDelIdx (l : Bits) (i : Int) : Except Err Bits := do
  let j ← pyIndex l.length i
  pure (l.eraseIdx j)

/-- `bitarray.invert(i)`. -/
def pyInvertIdx (l : Bits) (i : Int) : Except Err Bits := do
  let j ← pyIndex l.length i
  pure (l.modify j not)

/-- One pass over `rest = l.drop p`: every `q ≥ p` with `q + |t| ≤ e` at which `t` occurs in `l`. -/
def searchAux (t : Bits) (e : Nat) : Bits → Nat → List Nat
  | [], p => if t.isEmpty ∧ p ≤ e then [p] else []
  | x :: xs, p =>
    (if p + t.length ≤ e ∧ t.isPrefixOf (x :: xs) then [p] else []) ++ searchAux t e xs (p + 1)

/-- `list(bitarray.search(t, a, b))` for `0 ≤ a ≤ b ≤ len`: all match positions, ascending. -/
def search (l t : Bits) (a b : Nat) : List Nat := searchAux t b (l.drop a) a

/-- `t` occurs in `l` at position `p`. -/
def matchAt (l t : Bits) (p : Nat) : Bool := (l.drop p).take t.length == t

/-! ## bitstore.py: the index arithmetic -/

/-- `offset_slice_indices_lsb0(key, length)`, line by line: the slice that visits, in stored
    order, the mirror images of the positions `key` visits.  `key.indices` raises ValueError for a zero step. -/
def offsetSliceLsb0 (k : Key) (n : Nat) : Except Err Key :=
  let st := k.step.getD 1
  if st = 0 then .error .value else
  let r := Py.sliceIndices k.start k.stop st n               -- start, stop, step = key.indices(length)
  let count := Py.rangeLen r.1 r.2.1 st                        -- count = len(range(start, stop, step))
  if count = 0 then
    -- an empty slice stays empty; for an assignment it marks the insertion point, the mirror image of start
    if st > 0 then .ok ⟨some ((n : Int) - r.1), some ((n : Int) - r.1), k.step⟩
    else .ok ⟨some 0, some 0, k.step⟩
  else
    let first := r.1
    let last := r.1 + ((count : Int) - 1) * st
    if st > 0 then .ok ⟨some ((n : Int) - last - 1), some ((n : Int) - first), k.step⟩
    else
      let newStop := (n : Int) - first - 2
      .ok ⟨some ((n : Int) - last - 1), if newStop ≥ 0 then some newStop else none, k.step⟩

/-! ## BitStore accessors and mutators, by mode (the attributes rebound by `set_lsb0`) -/

/-- `BitStore.getslice_withstep`. -/
def getsliceWithstep (m : Mode) (l : Bits) (k : Key) : Except Err Bits :=
  match m with
  | .msb0 => pyGet l k
  | .lsb0 => match offsetSliceLsb0 k l.length with
    | .error e => .error e
    | .ok k' => pyGet l k'

/-- `BitStore.getslice_msb0(start, stop)`: `self._bitarray[start:stop]`. -/
def getsliceMsb0 (l : Bits) (start stop : Option Int) : Bits := sliceStep1 l start stop

/-- `BitStore.getslice`. -/
def getslice (m : Mode) (l : Bits) (start stop : Option Int) : Except Err Bits :=
  match m with
  | .msb0 => .ok (getsliceMsb0 l start stop)
  | .lsb0 => match offsetSliceLsb0 ⟨start, stop, none⟩ l.length with
    | .error e => .error e
    | .ok k' => .ok (sliceStep1 l k'.start k'.stop)

/-- `BitStore.getindex`. -/
def getindex (m : Mode) (l : Bits) (i : Int) : Except Err Bool :=
  match m with
  | .msb0 => pyGetIdx l i
  | .lsb0 => pyGetIdx l (-i - 1)

/-- `BitStore.__setitem__(slice, BitStore)`. -/
def setitemSlice (m : Mode) (l : Bits) (k : Key) (v : Bits) : Except Err Bits :=
  match m with
  | .msb0 => pySet l k v
  | .lsb0 => match offsetSliceLsb0 k l.length with
    | .error e => .error e
    | .ok k' => pySet l k' v

/-- `BitStore.__setitem__(slice, 0|1)`: the int is handed to bitarray, which writes it to every visited position. -/
def setitemSliceBit (m : Mode) (l : Bits) (k : Key) (b : Bool) : Except Err Bits :=
  match m with
  | .msb0 => pySetBit l k b
  | .lsb0 => match offsetSliceLsb0 k l.length with
    | .error e => .error e
    | .ok k' => pySetBit l k' b

/-- `BitStore.__setitem__(int, 0|1)`. -/
def setitemIdx (m : Mode) (l : Bits) (i : Int) (b : Bool) : Except Err Bits :=
  match m with
  | .msb0 => pySetIdx l i b
  | .lsb0 => pySetIdx l (-i - 1) b

/-- `BitStore.__delitem__`. -/
def delitemSlice (m : Mode) (l : Bits) (k : Key) : Except Err Bits :=
  match m with
  | .msb0 => pyDel l k
  | .lsb0 => match offsetSliceLsb0 k l.length with
    | .error e => .error e
    | .ok k' => pyDel l k'

def delitemIdx (m : Mode) (l : Bits) (i : Int) : Except Err Bits :=
  match m with
  | .msb0 => pyDelIdx l i
  | .lsb0 => pyDelIdx l (-i - 1)

/-- `BitStore.invert(index)`. -/
def invertIdx (m : Mode) (l : Bits) (i : Int) : Except Err Bits :=
  match m with
  | .msb0 => pyInvertIdx l i
  | .lsb0 => pyInvertIdx l (-i - 1)

/-! ## Bits / BitArray internals -/

/-- `_validate_slice`. -/
def validateSlice (n : Nat) (start stop : Option Int) : Except Err (Nat × Nat) :=
  let s : Int := match start with | none => 0 | some x => if x < 0 then x + n else x
  let e : Int := match stop with | none => n | some x => if x < 0 then x + n else x
  if 0 ≤ s ∧ s ≤ e ∧ e ≤ n then .ok (s.toNat, e.toNat) else .error .value

/-- `_slice(start, end)`. -/
def slice_ (m : Mode) (l : Bits) (a b : Int) : Except Err Bits := getslice m l (some a) (some b)

/-- `_insert(bs, pos)`: `self._bitstore[pos:pos] = bs`. -/
def insert_ (m : Mode) (l v : Bits) (pos : Int) : Except Err Bits := setitemSlice m l ⟨some pos, some pos, none⟩ v

/-- `_overwrite(bs, pos)`: `self._bitstore[pos:pos + len(bs)] = bs`. -/
def overwrite_ (m : Mode) (l v : Bits) (pos : Int) : Except Err Bits :=
  setitemSlice m l ⟨some pos, some (pos + v.length), none⟩ v

/-- `_delete(bits, pos)`: `del self._bitstore[pos:pos + bits]`. -/
def delete_ (m : Mode) (l : Bits) (bits pos : Int) : Except Err Bits :=
  delitemSlice m l ⟨some pos, some (pos + bits), none⟩

/-! ### `[]`, `del`, `set`, `invert`, `all`, `any` -/

/-- `Bits.__getitem__(int)`. -/
def getItem (m : Mode) (l : Bits) (i : Int) : Except Err Bool := getindex m l i

/-- `Bits.__getitem__(slice)`. -/
def getSliceOp (m : Mode) (l : Bits) (k : Key) : Except Err Bits := getsliceWithstep m l k

/-- `BitArray._setitem_int` with an integer value. -/
def setItemInt (m : Mode) (l : Bits) (i : Int) (v : Int) : Except Err Bits :=
  if v = 0 then setitemIdx m l i false
  else if v = 1 ∨ v = -1 then setitemIdx m l i true
  else .error .value

/-- `BitArray._setitem_int` with a bitstring value: `self._bitstore[k:k+1] = value`. -/
def setItemBits (m : Mode) (l : Bits) (i : Int) (v : Bits) : Except Err Bits :=
  let k := if i < 0 then i + l.length else i
  if k < 0 ∨ (l.length : Int) ≤ k then .error .index
  else setitemSlice m l ⟨some k, some (k + 1), none⟩ v

/-- `BitArray._setitem_slice` with a bitstring value. -/
def setSliceBits (m : Mode) (l : Bits) (k : Key) (v : Bits) : Except Err Bits := setitemSlice m l k v

/-- `BitArray.set(value, pos)`; `pos` as in the wire format. -/
inductive PosSpec where
  | all
  | one (i : Int)
  | many (l : List Int)
  | range (a b c : Int)
  deriving Repr

def setMany (m : Mode) (b : Bool) : Bits → List Int → Except Err Bits
  | l, [] => .ok l
  | l, p :: ps => match setitemIdx m l p b with
    | .error e => .error e
    | .ok l' => setMany m b l' ps

def setOp (m : Mode) (l : Bits) (b : Bool) : PosSpec → Except Err Bits
  | .all =>
    -- `if len(self) != 0: self._setint(-1 if value else 0)`
    if l.length = 0 then .ok l else .ok (List.replicate l.length b)
  | .one i => setMany m b l [i]
  | .many ps => setMany m b l ps
  | .range a b' c =>
    if c = 0 then .error .value else            -- `range()` itself refuses a zero step
    let idx := Py.rangeList a b' c
    -- a non-empty range whose first and last element are valid non-negative indices is written as ONE slice
    match idx.head?, idx.getLast? with
    | some first, some last =>
      if 0 ≤ first ∧ first < l.length ∧ 0 ≤ last ∧ last < l.length then
        let stop : Option Int := if c > 0 then some (last + 1) else (if last > 0 then some (last - 1) else none)
        setitemSliceBit m l ⟨some first, stop, some c⟩ b
      else setMany m b l idx
    | _, _ => setMany m b l idx

/-- `BitArray._setitem_slice` with an integer value. -/
def setSliceInt (m : Mode) (l : Bits) (k : Key) (v : Int) : Except Err Bits :=
  if k.step ≠ none ∧ k.step ≠ some (-1) ∧ k.step ≠ some 1 then
    if v = 0 ∨ v = 1 then
      -- `self.set(value, range(*key.indices(len(self))))`
      match k.step with
      | some 0 => .error .value
      | _ =>
        let r := Py.sliceIndices k.start k.stop (k.step.getD 1) l.length
        setOp m l (v = 1) (.range r.1 r.2.1 r.2.2)
    else .error .value
  else
    -- `length = len(range(*key.indices(len(self))))` (the step is None, 1 or -1 here)
    let r := Py.sliceIndices k.start k.stop (k.step.getD 1) l.length
    let len := Py.rangeLen r.1 r.2.1 r.2.2
    if len = 0 then .error .value else            -- uint/int initialiser needs a non-zero length
    if v ≥ 0 then
      if v ≥ (2 : Int) ^ len then .error .value else setitemSlice m l k (natToBits len v.toNat)
    else
      if v < -((2 : Int) ^ (len - 1)) then .error .value else setitemSlice m l k (intToBits len v)

/-- SPEC: the bit operand an integer stands for in `x[a:b] = n` / `x[a:b:±1] = n`: `n` written as a uint (n ≥ 0)
    or two's-complement int (n < 0) exactly as wide as the slice; it depends on the length only, not on the mode. -/
def intOperand (n : Nat) (k : Key) (v : Int) : Except Err Bits :=
  let r := Py.sliceIndices k.start k.stop (k.step.getD 1) n
  let len := Py.rangeLen r.1 r.2.1 r.2.2
  if len = 0 then .error .value else
  if v ≥ 0 then
    if v ≥ (2 : Int) ^ len then .error .value else .ok (natToBits len v.toNat)
  else
    if v < -((2 : Int) ^ (len - 1)) then .error .value else .ok (intToBits len v)

def delItem (m : Mode) (l : Bits) (i : Int) : Except Err Bits := delitemIdx m l i
def delSliceOp (m : Mode) (l : Bits) (k : Key) : Except Err Bits := delitemSlice m l k

def invertMany (m : Mode) : Bits → List Int → Except Err Bits
  | l, [] => .ok l
  | l, p :: ps =>
    let q := if p < 0 then p + l.length else p
    if q < 0 ∨ (l.length : Int) ≤ q then .error .index else
    match invertIdx m l q with
    | .error e => .error e
    | .ok l' => invertMany m l' ps

/-- `BitArray.invert(pos)`. -/
def invertOp (m : Mode) (l : Bits) : PosSpec → Except Err Bits
  | .all => .ok (l.map not)
  | .one i => invertMany m l [i]
  | .many ps => invertMany m l ps
  | .range a b c => if c = 0 then .error .value else invertMany m l (Py.rangeList a b c)

/-- `Bits.all(value, pos)`: stops at the first position whose bit differs. -/
def allAt (m : Mode) (l : Bits) (b : Bool) : List Int → Except Err Bool
  | [] => .ok true
  | p :: ps => match getindex m l p with
    | .error e => .error e
    | .ok x => if x != b then .ok false else allAt m l b ps

def anyAt (m : Mode) (l : Bits) (b : Bool) : List Int → Except Err Bool
  | [] => .ok false
  | p :: ps => match getindex m l p with
    | .error e => .error e
    | .ok x => if x == b then .ok true else anyAt m l b ps

def posList : PosSpec → Except Err (Option (List Int))
  | .all => .ok none
  | .one i => .ok (some [i])
  | .many ps => .ok (some ps)
  | .range a b c => if c = 0 then .error .value else .ok (some (Py.rangeList a b c))

def allOp (m : Mode) (l : Bits) (b : Bool) (P : PosSpec) : Except Err Bool :=
  match posList P with
  | .error e => .error e
  | .ok none => .ok (l.all (· == b))
  | .ok (some ps) => allAt m l b ps

def anyOp (m : Mode) (l : Bits) (b : Bool) (P : PosSpec) : Except Err Bool :=
  match posList P with
  | .error e => .error e
  | .ok none => .ok (l.any (· == b))
  | .ok (some ps) => anyAt m l b ps

/-! ### searching -/

/-- `BitStore.findall_msb0`: whole-byte special case, else `search` (+ `p % 8` filter). -/
def findallMsb0Store (l t : Bits) (a b : Nat) (ba : Bool) : List Nat :=
  if ba ∧ t.length % 8 = 0 then
    let startByte := (a + 7) / 8
    let endByte := b / 8
    (search l t (startByte * 8) (endByte * 8)).filter (· % 8 = 0)
  else if ba then (search l t a b).filter (· % 8 = 0)
  else search l t a b

/-- `BitStore.find`: `-1` is `none`. -/
def findStore (l t : Bits) (a b : Nat) (ba : Bool) : Option Nat :=
  if ¬ ba then (search l t a b).head? else (findallMsb0Store l t a b true).head?

/-- `BitStore.rfind`: `find(right=True)` / first of `rfindall_msb0`. -/
def rfindStore (l t : Bits) (a b : Nat) (ba : Bool) : Option Nat :=
  if ¬ ba then (search l t a b).getLast? else ((search l t a b).filter (· % 8 = 0)).getLast?

/-- `Bits._findall_msb0`: at most `count` of them. -/
def findallMsb0 (l t : Bits) (a b : Nat) (count : Option Nat) (ba : Bool) : List Nat :=
  match count with
  | none => findallMsb0Store l t a b ba
  | some c => (findallMsb0Store l t a b ba).take c

/-- `msb0_start, msb0_end` of the three `_lsb0` searches:
    `_validate_slice(*offset_slice_indices_lsb0(slice(start, end), len))`. -/
def msb0Window (n : Nat) (a b : Nat) : Except Err (Nat × Nat) :=
  match offsetSliceLsb0 ⟨some (a : Int), some (b : Int), none⟩ n with
  | .error e => .error e
  | .ok k => validateSlice n k.start k.stop

/-- inner `while found:` loop of `_findall_lsb0`: pops from the end; a position is counted
    only when it passes the alignment filter.  Returns the positions yielded, the new counter and whether the
    generator returned. -/
def drainFound (n tl : Nat) (count : Option Nat) (ba : Bool) : List Nat → Nat → List Nat × Nat × Bool
  | [], c => ([], c, false)
  | p :: rest, c =>                                  -- `rest` is `found` reversed: `p = found.pop()`
    let q := n - p - tl
    if ¬ ba ∨ q % 8 = 0 then
      if (match count with | none => false | some k => c ≥ k) then ([], c, true)
      else
        let r := drainFound n tl count ba rest (c + 1)
        (q :: r.1, r.2.1, r.2.2)
    else drainFound n tl count ba rest c

/-- The `while True:` loop of `_findall_lsb0`, `fuel` bounding the number of chunks: every
    chunk `[pos, chunk_end)` ends `len(bs) - 1` bits after the start of the previous one, and the chunk at
    `msb0_start` is always searched. -/
def findallLsb0Loop (inc : Nat) (l t : Bits) (s0 : Nat) (count : Option Nat) (ba : Bool) :
    Nat → Nat → Nat → List Nat
  | 0, _, _ => []
  | fuel + 1, hi, c =>
    let pos := max s0 (hi - (inc + t.length))
    let found := findallMsb0 l t pos hi none false
    let r := drainFound l.length t.length count ba found.reverse c
    if r.2.2 then r.1 else
    if pos = s0 then r.1 else r.1 ++ findallLsb0Loop inc l t s0 count ba fuel (pos + t.length - 1) r.2.1

/-- `_findall_lsb0` with the chunk increment as a parameter (the code: `max(8192, 80 * len(bs))`). -/
def findallLsb0 (inc : Nat) (l t : Bits) (a b : Nat) (count : Option Nat) (ba : Bool) : Except Err (List Nat) :=
  match msb0Window l.length a b with
  | .error e => .error e
  | .ok (s0, e0) => .ok (findallLsb0Loop inc l t s0 count ba (l.length + 2) e0 0)

def chunkIncrement (t : Bits) : Nat := max 8192 (t.length * 80)

/-- `Bits._find` for validated `start ≤ end`.  `_find_lsb0`: with `bytealigned` the first position yielded by
    `_findall_lsb0(bs, start, end, 1, True)`, otherwise the mirrored `_rfind_msb0(…, False)`. -/
def find_ (m : Mode) (l t : Bits) (a b : Nat) (ba : Bool) : Except Err (Option Nat) :=
  match m with
  | .msb0 => .ok (findStore l t a b ba)
  | .lsb0 =>
    if ba then
      match findallLsb0 (chunkIncrement t) l t a b (some 1) true with
      | .error e => .error e
      | .ok ps => .ok ps.head?
    else
      match msb0Window l.length a b with
      | .error e => .error e
      | .ok (s, e) => .ok ((rfindStore l t s e false).map fun p => l.length - p - t.length)

/-- `Bits._rfind`.  `_rfind_lsb0`: with `bytealigned` the first match in stored order whose lsb0 position is a
    multiple of 8, otherwise the mirrored `_find_msb0(…, False)`. -/
def rfind_ (m : Mode) (l t : Bits) (a b : Nat) (ba : Bool) : Except Err (Option Nat) :=
  match m with
  | .msb0 => .ok (rfindStore l t a b ba)
  | .lsb0 => match msb0Window l.length a b with
    | .error e => .error e
    | .ok (s, e) =>
      if ba then
        .ok (((findallMsb0Store l t s e false).find? fun p => (l.length - p - t.length) % 8 = 0).map
          fun p => l.length - p - t.length)
      else .ok ((findStore l t s e false).map fun p => l.length - p - t.length)


/-- `Bits._findall` by mode. -/
def findall_ (m : Mode) (l t : Bits) (a b : Nat) (count : Option Nat) (ba : Bool) : Except Err (List Nat) :=
  match m with
  | .msb0 => .ok (findallMsb0 l t a b count ba)
  | .lsb0 => findallLsb0 (chunkIncrement t) l t a b count ba

def countNeg : Option Int → Bool
  | some c => decide (c < 0)
  | none => false

/-- `Bits.find`. -/
def findOp (m : Mode) (l t : Bits) (start stop : Option Int) (ba : Bool) : Except Err (Option Nat) :=
  if t.length = 0 then .error .value else
  match validateSlice l.length start stop with
  | .error e => .error e
  | .ok (a, b) => find_ m l t a b ba

/-- `Bits.rfind`. -/
def rfindOp (m : Mode) (l t : Bits) (start stop : Option Int) (ba : Bool) : Except Err (Option Nat) :=
  match validateSlice l.length start stop with
  | .error e => .error e
  | .ok (a, b) => if t.length = 0 then .error .value else rfind_ m l t a b ba

/-- `Bits.findall`. -/
def findallOp (m : Mode) (l t : Bits) (start stop : Option Int) (count : Option Int) (ba : Bool) :
    Except Err (List Nat) :=
  if countNeg count then .error .value else
  if t.length = 0 then .error .value else
  match validateSlice l.length start stop with
  | .error e => .error e
  | .ok (a, b) => findall_ m l t a b (count.map Int.toNat) ba

/-- `Bits.startswith`. -/
def startswithOp (m : Mode) (l t : Bits) (start stop : Option Int) : Except Err Bool :=
  match validateSlice l.length start stop with
  | .error e => .error e
  | .ok (a, b) =>
    if b ≥ a + t.length then
      match slice_ m l a (a + t.length) with
      | .error e => .error e
      | .ok s => .ok (s == t)
    else .ok false

/-- `Bits.endswith`. -/
def endswithOp (m : Mode) (l t : Bits) (start stop : Option Int) : Except Err Bool :=
  match validateSlice l.length start stop with
  | .error e => .error e
  | .ok (a, b) =>
    if a + t.length ≤ b then
      match slice_ m l ((b : Int) - t.length) b with
      | .error e => .error e
      | .ok s => .ok (s == t)
    else .ok false

/-- the `while` loop of `cut`. -/
def cutLoop (m : Mode) (l : Bits) (bits : Nat) (e : Nat) (count : Option Nat) : Nat → Nat → Nat → Except Err (List Bits)
  | 0, _, _ => .ok []
  | fuel + 1, a, c =>
    if (match count with | none => false | some k => c ≥ k) then .ok [] else
    match slice_ m l a (min (a + bits) e) with
    | .error err => .error err
    | .ok chunk =>
      if chunk.length = 0 then .ok [] else
      if chunk.length ≠ bits then .ok [chunk] else
      match cutLoop m l bits e count fuel (a + bits) (c + 1) with
      | .error err => .error err
      | .ok rest => .ok (chunk :: rest)

/-- `Bits.cut`, the generator run to its end. -/
def cutOp (m : Mode) (l : Bits) (bits : Int) (start stop : Option Int) (count : Option Int) : Except Err (List Bits) :=
  match validateSlice l.length start stop with
  | .error e => .error e
  | .ok (a, b) =>
    if countNeg count then .error .value else
    if bits ≤ 0 then .error .value else
    cutLoop m l bits.toNat b (count.map Int.toNat) (l.length + 1) a 0

/-! ### replace -/

/-- the `for x in self.findall(...)` loop of `_replace`: non-overlapping starting points, at most `count`. -/
def startingPoints (oldLen : Nat) (count : Nat) : List Nat → List Nat → List Nat
  | [], acc => acc.reverse
  | x :: xs, acc =>
    let acc' := match acc with
      | [] => [x]
      | last :: _ => if x ≥ last + oldLen then x :: acc else acc
    if count ≠ 0 ∧ acc'.length = count then acc'.reverse else startingPoints oldLen count xs acc'

/-- the middle pieces `new, self[p_i + len(old) : p_{i+1}]`. -/
def middlePieces (m : Mode) (l new : Bits) (oldLen : Nat) : List Nat → Except Err (List Bits)
  | p :: q :: rest =>
    match getslice m l (some ((p : Int) + oldLen)) (some (q : Int)), middlePieces m l new oldLen (q :: rest) with
    | .ok s, .ok more => .ok (new :: s :: more)
    | .error e, _ => .error e
    | _, .error e => .error e
  | _ => .ok []

/-- `BitArray._replace`. -/
def replace_ (m : Mode) (l old new : Bits) (a b : Nat) (count : Nat) (ba : Bool) : Except Err (Nat × Bits) :=
  match findall_ m l old a b none ba with
  | .error e => .error e
  | .ok found =>
    let pts := startingPoints old.length count found []
    match pts with
    | [] => .ok (0, l)
    | p0 :: _ =>
      match getslice m l (some 0) (some (p0 : Int)), middlePieces m l new old.length pts,
            getslice m l (some ((pts.getLast?.getD 0 : Nat) + (old.length : Int))) none with
      | .ok first, .ok mid, .ok last =>
        let pieces := [first] ++ mid ++ [new, last]
        let pieces := if m = .lsb0 then pieces.reverse else pieces
        .ok (pts.length, pieces.flatten)
      | .error e, _, _ => .error e
      | _, .error e, _ => .error e
      | _, _, .error e => .error e

/-- `BitArray.replace`. -/
def replaceOp (m : Mode) (l old new : Bits) (start stop : Option Int) (count : Option Int) (ba : Bool) :
    Except Err (Nat × Bits) :=
  if old.length = 0 then .error .value else
  match validateSlice l.length start stop with
  | .error e => .error e
  | .ok (a, b) =>
    if count = some 0 then .ok (0, l) else
    -- a negative count never equals `len(starting_points)`: every occurrence is replaced
    let c : Nat := match count with | none => 0 | some c => if c < 0 then l.length + 1 else c.toNat
    replace_ m l old new a b c ba

/-! ### insert, overwrite, append, prepend, reverse, byteswap, rotations -/

/-- `BitArray.insert`. -/
def insertOp (m : Mode) (l v : Bits) (pos : Int) : Except Err Bits :=
  let p := if pos < 0 then pos + l.length else pos
  if ¬ (0 ≤ p ∧ p ≤ l.length) then .error .value else
  if v.length = 0 then .ok l else insert_ m l v p

/-- `BitArray.overwrite`. -/
def overwriteOp (m : Mode) (l v : Bits) (pos : Int) : Except Err Bits :=
  let p := if pos < 0 then pos + l.length else pos
  if p < 0 ∨ p > l.length then .error .value else
  if v.length = 0 then .ok l else overwrite_ m l v p

/-- `_append_msb0` = `_addright`, `_append_lsb0` = `_addleft`. -/
def appendMsb0 (l v : Bits) : Bits := l ++ v
def appendLsb0 (l v : Bits) : Bits := v ++ l

/-- `BitArray.append` → `self._append`, bound to `_append_msb0` / `_append_lsb0` by the method table. -/
def appendOp (m : Mode) (l v : Bits) : Bits := match m with | .msb0 => appendMsb0 l v | .lsb0 => appendLsb0 l v
/-- `BitArray.prepend` → `self._prepend`, bound to `_append_lsb0` / `_append_msb0`. -/
def prependOp (m : Mode) (l v : Bits) : Bits := match m with | .msb0 => appendLsb0 l v | .lsb0 => appendMsb0 l v

/-- `BitArray.reverse`. -/
def reverseOp (m : Mode) (l : Bits) (start stop : Option Int) : Except Err Bits :=
  match validateSlice l.length start stop with
  | .error e => .error e
  | .ok (a, b) =>
    if a = 0 ∧ b = l.length then .ok l.reverse else
    match slice_ m l a b with
    | .error e => .error e
    | .ok s => setitemSlice m l ⟨some (a : Int), some (b : Int), none⟩ s.reverse

/-- `x.tobytes()[::-1]` read back with `frombytes`: pad to whole bytes with zeros, reverse the byte order. -/
def byteGroups : Nat → Bits → List Bits
  | 0, _ => []
  | fuel + 1, x => if x.length = 0 then [] else x.take 8 :: byteGroups fuel (x.drop 8)

def reverseBytesOf (x : Bits) : Bits :=
  let padded := x ++ List.replicate ((8 - x.length % 8) % 8) false
  (byteGroups (padded.length + 1) padded).reverse.flatten

/-- `_reversebytes(start, end)`. -/
def reversebytes_ (m : Mode) (l : Bits) (a b : Int) : Except Err Bits :=
  match getslice m l (some a) (some b) with
  | .error e => .error e
  | .ok s => setitemSlice m l ⟨some a, some b, none⟩ (reverseBytesOf s)

/-- inner `for bytesize in bytesizes` loop. -/
def byteswapPattern (m : Mode) : Bits → Int → List Nat → Except Err Bits
  | l, _, [] => .ok l
  | l, bytestart, z :: zs =>
    match reversebytes_ m l bytestart (bytestart + z * 8) with
    | .error e => .error e
    | .ok l' => byteswapPattern m l' (bytestart + z * 8) zs

/-- outer `for patternend in range(start_v + total, finalbit + 1, total)` loop; returns (bits, repeats). -/
def byteswapLoop (m : Mode) (sizes : List Nat) (total : Nat) : Nat → Bits → Int → Nat → Except Err (Bits × Nat)
  | 0, l, _, reps => .ok (l, reps)
  | k + 1, l, patternend, reps =>
    match byteswapPattern m l (patternend - total) sizes with
    | .error e => .error e
    | .ok l' => byteswapLoop m sizes total k l' (patternend + total) (reps + 1)

/-- `BitArray.byteswap` for `fmt` None/0, an int or a list of ints. -/
def byteswapOp (m : Mode) (l : Bits) (fmt : Option (List Int)) (start stop : Option Int) (repeat_ : Bool) :
    Except Err (Nat × Bits) :=
  match validateSlice l.length start stop with
  | .error e => .error e
  | .ok (a, b) =>
    let sizes? : Except Err (List Nat) := match fmt with
      | none => .ok [(b - a) / 8]
      | some zs => if zs.any (· < 0) then .error .value else .ok (zs.map Int.toNat)
    match sizes? with
    | .error e => .error e
    | .ok sizes =>
      let total := 8 * sizes.sum
      if total = 0 then .ok (0, l) else
      let finalbit := if repeat_ then b else min (a + total) b      -- one pattern, and only if it fits before `end`
      let iters := Py.rangeLen ((a : Int) + total) ((finalbit : Int) + 1) total
      match byteswapLoop m sizes total iters l ((a : Int) + total) 0 with
      | .error e => .error e
      | .ok (l', reps) => .ok (reps, l')

/-- `_rol_msb0`: the body is written with `_slice/_delete/_insert`, which follow the mode. -/
def rolBody (m : Mode) (l : Bits) (bits : Nat) (start stop : Option Int) : Except Err Bits :=
  match validateSlice l.length start stop with
  | .error e => .error e
  | .ok (a, b) =>
    if b - a = 0 then .ok l else                       -- `if start == end: return`
    let k := bits % (b - a)
    if k = 0 then .ok l else
    match slice_ m l a (a + k) with
    | .error e => .error e
    | .ok lhs => match delete_ m l k a with
      | .error e => .error e
      | .ok l1 => insert_ m l1 lhs ((b : Int) - k)

/-- `_ror_msb0`. -/
def rorBody (m : Mode) (l : Bits) (bits : Nat) (start stop : Option Int) : Except Err Bits :=
  match validateSlice l.length start stop with
  | .error e => .error e
  | .ok (a, b) =>
    if b - a = 0 then .ok l else                       -- `if start == end: return`
    let k := bits % (b - a)
    if k = 0 then .ok l else
    match slice_ m l ((b : Int) - k) b with
    | .error e => .error e
    | .ok rhs => match delete_ m l k ((b : Int) - k) with
      | .error e => .error e
      | .ok l1 => insert_ m l1 rhs a

/-- `BitArray.rol`: `self._rol` is `_rol_msb0` under msb0 and `_ror_msb0` under lsb0 (the table swaps them). -/
def rolOp (m : Mode) (l : Bits) (bits : Int) (start stop : Option Int) : Except Err Bits :=
  if l.length = 0 then .error .bitstring else
  if bits < 0 then .error .value else
  match m with
  | .msb0 => rolBody m l bits.toNat start stop
  | .lsb0 => rorBody m l bits.toNat start stop

def rorOp (m : Mode) (l : Bits) (bits : Int) (start stop : Option Int) : Except Err Bits :=
  if l.length = 0 then .error .bitstring else
  if bits < 0 then .error .value else
  match m with
  | .msb0 => rorBody m l bits.toNat start stop
  | .lsb0 => rolBody m l bits.toNat start stop

/-! ### shifts: written with `_absolute_slice` / `getslice_msb0`, the mode is never consulted -/

/-- `_absolute_slice(start, end)` for `start ≤ end`. -/
def absoluteSlice (l : Bits) (a b : Nat) : Bits :=
  if b = a then [] else getsliceMsb0 l (some (a : Int)) (some (b : Int))

/-- `Bits.__lshift__`. -/
def shlOp (_m : Mode) (l : Bits) (n : Int) : Except Err Bits :=
  if n < 0 then .error .value else
  if l.length = 0 then .error .value else
  let k := min n.toNat l.length
  .ok (absoluteSlice l k l.length ++ List.replicate k false)

/-- `Bits.__rshift__`. -/
def shrOp (_m : Mode) (l : Bits) (n : Int) : Except Err Bits :=
  if n < 0 then .error .value else
  if l.length = 0 then .error .value else
  if n = 0 then .ok l else
  let k := min n.toNat l.length
  .ok (List.replicate k false ++ absoluteSlice l 0 (l.length - k))

/-- `BitArray.__ilshift__` → `_ilshift`: `_addright(Bits(n))`, `_truncateleft(n)` (`getslice_msb0(n, None)`). -/
def ishlOp (_m : Mode) (l : Bits) (n : Int) : Except Err Bits :=
  if n < 0 then .error .value else
  if l.length = 0 then .error .value else
  if n = 0 then .ok l else
  let k := min n.toNat l.length
  let grown := l ++ List.replicate k false
  .ok (getsliceMsb0 grown (some (k : Int)) none)

/-- `BitArray.__irshift__` → `_irshift`: `_addleft(Bits(n))`, `_truncateright(n)` (`getslice_msb0(None, -n)`). -/
def ishrOp (_m : Mode) (l : Bits) (n : Int) : Except Err Bits :=
  if n < 0 then .error .value else
  if l.length = 0 then .error .value else
  if n = 0 then .ok l else
  let k := min n.toNat l.length
  let grown := List.replicate k false ++ l
  .ok (getsliceMsb0 grown none (some (-(k : Int))))

/-! ### reading -/

/-- token kinds on the wire: `n` = integer / `bits:k`, `b` = `bin:k`, `u` = `uint:k`, `i` = `int:k`. -/
inductive Tok where
  | n | b | u | i
  deriving DecidableEq, Repr

/-- `dtype.read_fn(bs, start)` for a fixed-length dtype: `get_fn(bs[start:start+length])`. -/
def readFn (m : Mode) (l : Bits) (pos : Nat) (k : Nat) : Except Err Bits :=
  if l.length < pos + k then .error .read
  else getsliceWithstep m l ⟨some (pos : Int), some ((pos : Int) + k), none⟩

/-- `ConstBitStream.read`: the bits read and the new position. -/
def readOp (m : Mode) (l : Bits) (pos : Nat) (tk : Tok) (k : Nat) : Except Err (Bits × Nat) :=
  match tk with
  | .n =>
    if (k : Int) > (l.length : Int) - pos then .error .read else
    match slice_ m l pos ((pos : Int) + k) with
    | .error e => .error e
    | .ok s => .ok (s, pos + k)
  | _ =>
    if k = 0 ∧ (tk = .u ∨ tk = .i) then .error .value else
    match readFn m l pos k with
    | .error e => .error e
    | .ok s => if pos + k > l.length then .error .read else .ok (s, pos + k)

/-- `_read_dtype_list` for fixed-length tokens. -/
def readList (m : Mode) (l : Bits) : Nat → List (Tok × Nat) → Except Err (List (Tok × Bits) × Nat)
  | pos, [] => .ok ([], pos)
  | pos, (tk, k) :: rest =>
    if k = 0 ∧ (tk = .u ∨ tk = .i) then .error .value else
    match readFn m l pos k with
    | .error e => .error e
    | .ok s => match readList m l (pos + k) rest with
      | .error e => .error e
      | .ok (vs, p) => .ok ((tk, s) :: vs, p)

/-- `pack`: the token bitstores are joined, in reverse order under lsb0. -/
def packOp (m : Mode) (toks : List Bits) : Bits :=
  (match m with | .msb0 => toks | .lsb0 => toks.reverse).flatten

/-! ### whole-value interpretations: `slice_to_uint()` etc. call `self.getslice(None, None)` -/

def wholeBits (m : Mode) (l : Bits) : Except Err Bits := getslice m l none none
def uintOf (m : Mode) (l : Bits) : Except Err Nat := (wholeBits m l).map bitsToNat
def intOf (m : Mode) (l : Bits) : Except Err Int := (wholeBits m l).map bitsToInt

/-! ## Options.set_lsb0: the two method tables (bitstring_options.py:54-69) -/

/-- (class, attribute, class of the bound function, name of the bound function) -/
abbrev Binding := String × String × String × String

def lsb0Table : List Binding := [
  ("Bits", "_find", "Bits", "_find_lsb0"), ("Bits", "_rfind", "Bits", "_rfind_lsb0"), ("Bits", "_findall", "Bits", "_findall_lsb0"),
  ("BitArray", "_ror", "BitArray", "_rol_msb0"), ("BitArray", "_rol", "BitArray", "_ror_msb0"),
  ("BitArray", "_append", "BitArray", "_append_lsb0"), ("BitArray", "_prepend", "BitArray", "_append_msb0"),
  ("BitStore", "__setitem__", "BitStore", "setitem_lsb0"), ("BitStore", "__delitem__", "BitStore", "delitem_lsb0"),
  ("BitStore", "getindex", "BitStore", "getindex_lsb0"), ("BitStore", "getslice", "BitStore", "getslice_lsb0"),
  ("BitStore", "getslice_withstep", "BitStore", "getslice_withstep_lsb0"), ("BitStore", "invert", "BitStore", "invert_lsb0")]

def msb0Table : List Binding := [
  ("Bits", "_find", "Bits", "_find_msb0"), ("Bits", "_rfind", "Bits", "_rfind_msb0"), ("Bits", "_findall", "Bits", "_findall_msb0"),
  ("BitArray", "_ror", "BitArray", "_ror_msb0"), ("BitArray", "_rol", "BitArray", "_rol_msb0"),
  ("BitArray", "_append", "BitArray", "_append_msb0"), ("BitArray", "_prepend", "BitArray", "_append_lsb0"),
  ("BitStore", "__setitem__", "BitStore", "setitem_msb0"), ("BitStore", "__delitem__", "BitStore", "delitem_msb0"),
  ("BitStore", "getindex", "BitStore", "getindex_msb0"), ("BitStore", "getslice", "BitStore", "getslice_msb0"),
  ("BitStore", "getslice_withstep", "BitStore", "getslice_withstep_msb0"), ("BitStore", "invert", "BitStore", "invert_msb0")]

/-- The class attributes as an association list (class, attribute) ↦ function. -/
abbrev Attrs := List ((String × String) × (String × String))

/-- `setattr(cls, attr, method)`. -/
def setAttr (env : Attrs) (b : Binding) : Attrs :=
  ((b.1, b.2.1), (b.2.2.1, b.2.2.2)) :: env.filter (fun e => e.1 ≠ (b.1, b.2.1))

def lookupAttr (env : Attrs) (c a : String) : Option (String × String) := env.lookup (c, a)

/-- `Options.set_lsb0(value)`: rebind every entry of the chosen table. -/
def setLsb0 (env : Attrs) (value : Bool) : Attrs :=
  (if value then lsb0Table else msb0Table).foldl setAttr env

def bindingToStr (b : Binding) : String := s!"{b.1}.{b.2.1}={b.2.2.1}.{b.2.2.2}"

/-! ## driver -/

def trimS (s : String) : String := s.trimAscii.toString

def modeOf? : String → Option Mode
  | "M" => some .msb0 | "L" => some .lsb0 | _ => none

def boolOf? : String → Option Bool
  | "1" => some true | "0" => some false | _ => none

def intList? (s : String) : Option (List Int) :=
  if s = "" then some [] else (s.splitOn ",").mapM String.toInt?

def posSpecOf? (s : String) : Option PosSpec :=
  if s = "None" then some .all else
  match s.toList with
  | 'i' :: r => (String.ofList r).toInt?.map .one
  | 'l' :: r => (intList? (String.ofList r)).map .many
  | 'r' :: r => match intList? (String.ofList r) with
    | some [a, b, c] => some (.range a b c)
    | _ => none
  | _ => none

def tokOf? (s : String) : Option (Tok × Nat) :=
  match s.toList with
  | c :: r =>
    let k? := (String.ofList r).toNat?
    let t? : Option Tok := if c = 'n' then some .n else if c = 'b' then some .b else if c = 'u' then some .u
      else if c = 'i' then some .i else none
    match t?, k? with
    | some t, some k => some (t, k)
    | _, _ => none
  | [] => none

def toksOf? (s : String) : Option (List (Tok × Nat)) :=
  if s = "-" then some [] else (s.splitOn ",").mapM tokOf?

def packToksOf? (s : String) : Option (List Bits) :=
  if s = "-" then some [] else
  (s.splitOn ",").mapM fun t => match t.toList with
    | _ :: r => if r.isEmpty then some [] else bitsOfStr? (String.ofList r)
    | [] => none

def fmtOf? (s : String) : Option (Option (List Int)) :=
  if s = "None" ∨ s = "0" then some none else (intList? s).map some

def tokVal (t : Tok × Bits) : String :=
  match t.1 with
  | .n | .b => bitsToWire t.2
  | .u => toString (bitsToNat t.2)
  | .i => toString (bitsToInt t.2)

def boolStr (b : Bool) : String := if b then "True" else "False"
def joinOr (l : List String) : String := if l.isEmpty then "-" else ",".intercalate l
def resStr {α} (f : α → String) : Except Err α → String
  | .ok a => "ok " ++ f a
  | .error _ => "err"

/-- one operation in mode `m`; `none` = malformed line. -/
def runOp (m : Mode) (op : String) (l : Bits) (a : List String) : Option String :=
  match op, a with
  | "getitem", [i] => do
    let i ← i.toInt?
    pure (resStr (fun (b : Bool) => if b then "1" else "0") (getItem m l i))
  | "getslice", [x, y, z] => do
    let k : Key := ⟨← optIntOfStr? x, ← optIntOfStr? y, ← optIntOfStr? z⟩
    pure (resStr bitsToWire (getSliceOp m l k))
  | "setslice", [x, y, z, v] => do
    let k : Key := ⟨← optIntOfStr? x, ← optIntOfStr? y, ← optIntOfStr? z⟩
    pure (resStr bitsToWire (setSliceBits m l k (← bitsOfStr? v)))
  | "setsliceint", [x, y, z, v] => do
    let k : Key := ⟨← optIntOfStr? x, ← optIntOfStr? y, ← optIntOfStr? z⟩
    pure (resStr bitsToWire (setSliceInt m l k (← v.toInt?)))
  | "delslice", [x, y, z] => do
    let k : Key := ⟨← optIntOfStr? x, ← optIntOfStr? y, ← optIntOfStr? z⟩
    pure (resStr bitsToWire (delSliceOp m l k))
  | "setitem", [i, v] => do pure (resStr bitsToWire (setItemInt m l (← i.toInt?) (← v.toInt?)))
  | "setitemb", [i, v] => do pure (resStr bitsToWire (setItemBits m l (← i.toInt?) (← bitsOfStr? v)))
  | "delitem", [i] => do pure (resStr bitsToWire (delItem m l (← i.toInt?)))
  | "invert", [p] => do pure (resStr bitsToWire (invertOp m l (← posSpecOf? p)))
  | "set", [v, p] => do pure (resStr bitsToWire (setOp m l ((← v.toInt?) ≠ 0) (← posSpecOf? p)))
  | "allany", [v, p] => do
    let b := (← v.toInt?) ≠ 0
    let P ← posSpecOf? p
    pure (match allOp m l b P, anyOp m l b P with
      | .ok x, .ok y => s!"ok {boolStr x} {boolStr y}"
      | _, _ => "err")
  | "find", [t, x, y, ba] => do
    pure (resStr (fun (r : Option Nat) => match r with | some p => toString p | none => "-")
      (findOp m l (← bitsOfStr? t) (← optIntOfStr? x) (← optIntOfStr? y) (← boolOf? ba)))
  | "rfind", [t, x, y, ba] => do
    pure (resStr (fun (r : Option Nat) => match r with | some p => toString p | none => "-")
      (rfindOp m l (← bitsOfStr? t) (← optIntOfStr? x) (← optIntOfStr? y) (← boolOf? ba)))
  | "findall", [t, x, y, c, ba] => do
    pure (resStr (fun (r : List Nat) => joinOr (r.map toString))
      (findallOp m l (← bitsOfStr? t) (← optIntOfStr? x) (← optIntOfStr? y) (← optIntOfStr? c) (← boolOf? ba)))
  | "startswith", [t, x, y] => do
    pure (resStr boolStr (startswithOp m l (← bitsOfStr? t) (← optIntOfStr? x) (← optIntOfStr? y)))
  | "endswith", [t, x, y] => do
    pure (resStr boolStr (endswithOp m l (← bitsOfStr? t) (← optIntOfStr? x) (← optIntOfStr? y)))
  | "cut", [k, x, y, c] => do
    pure (resStr (fun (r : List Bits) => joinOr (r.map bitsToWire))
      (cutOp m l (← k.toInt?) (← optIntOfStr? x) (← optIntOfStr? y) (← optIntOfStr? c)))
  | "replace", [o, n, x, y, c, ba] => do
    pure (resStr (fun (r : Nat × Bits) => s!"{r.1} {bitsToWire r.2}")
      (replaceOp m l (← bitsOfStr? o) (← bitsOfStr? n) (← optIntOfStr? x) (← optIntOfStr? y) (← optIntOfStr? c) (← boolOf? ba)))
  | "insert", [v, p] => do pure (resStr bitsToWire (insertOp m l (← bitsOfStr? v) (← p.toInt?)))
  | "overwrite", [v, p] => do pure (resStr bitsToWire (overwriteOp m l (← bitsOfStr? v) (← p.toInt?)))
  | "append", [v] => do pure ("ok " ++ bitsToWire (appendOp m l (← bitsOfStr? v)))
  | "prepend", [v] => do pure ("ok " ++ bitsToWire (prependOp m l (← bitsOfStr? v)))
  | "reverse", [x, y] => do pure (resStr bitsToWire (reverseOp m l (← optIntOfStr? x) (← optIntOfStr? y)))
  | "byteswap", [f, x, y, r] => do
    pure (resStr (fun (r : Nat × Bits) => s!"{r.1} {bitsToWire r.2}")
      (byteswapOp m l (← fmtOf? f) (← optIntOfStr? x) (← optIntOfStr? y) (← boolOf? r)))
  | "rol", [k, x, y] => do pure (resStr bitsToWire (rolOp m l (← k.toInt?) (← optIntOfStr? x) (← optIntOfStr? y)))
  | "ror", [k, x, y] => do pure (resStr bitsToWire (rorOp m l (← k.toInt?) (← optIntOfStr? x) (← optIntOfStr? y)))
  | "shl", [k] => do pure (resStr bitsToWire (shlOp m l (← k.toInt?)))
  | "shr", [k] => do pure (resStr bitsToWire (shrOp m l (← k.toInt?)))
  | "ishl", [k] => do pure (resStr bitsToWire (ishlOp m l (← k.toInt?)))
  | "ishr", [k] => do pure (resStr bitsToWire (ishrOp m l (← k.toInt?)))
  | "read", [p, t] => do
    let (tk, k) ← tokOf? t
    pure (resStr (fun (r : Bits × Nat) => s!"{tokVal (tk, r.1)} {r.2}") (readOp m l (← p.toNat?) tk k))
  | "peek", [p, t] => do
    let (tk, k) ← tokOf? t
    let pos ← p.toNat?
    pure (resStr (fun (r : Bits × Nat) => s!"{tokVal (tk, r.1)} {pos}") (readOp m l pos tk k))
  | "unpack", [ts] => do
    pure (resStr (fun (r : List (Tok × Bits) × Nat) => joinOr (r.1.map tokVal)) (readList m l 0 (← toksOf? ts)))
  | "readlist", [p, ts] => do
    pure (resStr (fun (r : List (Tok × Bits) × Nat) => s!"{joinOr (r.1.map tokVal)} {r.2}")
      (readList m l (← p.toNat?) (← toksOf? ts)))
  | "pack", [ts] => do pure ("ok " ++ bitsToWire (packOp m (← packToksOf? ts)))
  | "value", [] =>
    pure (match wholeBits m l, uintOf m l, intOf m l with
      | .ok w, .ok u, .ok i =>
        if l.isEmpty then s!"ok 0 - - -" else s!"ok {l.length} {u} {i} {bitsToWire w}"
      | _, _, _ => "err")
  | _, _ => none

/-- one step `<M|L>:<op>:<args…>` of a history; returns the observation and the new state. -/
def seqStep (l : Bits) (step : String) : Option (String × Bits) :=
  match (step.splitOn ":").map trimS with
  | md :: op :: a => do
    let m ← modeOf? md
    let (full, args, mutates) ← (match op, a with
      | "ins", [v, p] => some ("insert", [v, p], true)
      | "ovw", [v, p] => some ("overwrite", [v, p], true)
      | "app", [v] => some ("append", [v], true)
      | "pre", [v] => some ("prepend", [v], true)
      | "del", [x, y, z] => some ("delslice", [x, y, z], true)
      | "set", [x, y, z, v] => some ("setslice", [x, y, z, v], true)
      | "inv", [p] => some ("invert", ["i" ++ p], true)
      | "rol", [k, x, y] => some ("rol", [k, x, y], true)
      | "ror", [k, x, y] => some ("ror", [k, x, y], true)
      | "rev", [x, y] => some ("reverse", [x, y], true)
      | "get", [x, y, z] => some ("getslice", [x, y, z], false)
      | "idx", [i] => some ("getitem", [i], false)
      | "find", [t] => some ("find", [t, "None", "None", "0"], false)
      | _, _ => none : Option (String × List String × Bool))
    let r ← runOp m full l args
    if r.startsWith "ok " then
      let body := (r.drop 3).toString
      if mutates then do
        let l' ← bitsOfStr? body
        pure (body, l')
      else pure (body, l)
    else pure ("E", l)
  | _ => none

def seqRun : Bits → List String → List String → Option (List String × Bits)
  | l, [], acc => some (acc.reverse, l)
  | l, s :: ss, acc => match seqStep l s with
    | none => none
    | some (o, l') => seqRun l' ss (o :: acc)

def handle (args : List String) : String :=
  match args with
  | ["tables"] =>
    "ok " ++ ",".intercalate (lsb0Table.map bindingToStr) ++ " " ++ ",".intercalate (msb0Table.map bindingToStr)
  | "seq" :: _cls :: bits :: [steps] =>
    match bitsOfStr? bits with
    | none => "bad-op"
    | some l =>
      let ss := ((steps.splitOn ";").map trimS).filter (· ≠ "")
      match seqRun l ss [] with
      | none => "bad-op"
      | some (obs, l') => "ok " ++ "|".intercalate obs ++ "|" ++ bitsToWire l'
  | op :: _cls :: bits :: a =>
    match bitsOfStr? bits with
    | none => "bad-op"
    | some l => (runOp .lsb0 op l a).getD "bad-op"
  | _ => "bad-op"

end BM.C12
