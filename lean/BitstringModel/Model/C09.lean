/-
  Model/C09.lean — purity of construction and parsing: the memo state of the package and the options it reads.
  (file:line references are to /repo at commit a428504)

  All cross-call state that can influence the RESULT of constructing a bitstring from a string, parsing a
  format / token string or creating a Dtype is
    * eight `functools.lru_cache(CACHE_SIZE)` objects
        bitstore_helpers.py:27-28  str_to_bitstore(s)
        utils.py:81-82             parse_name_length_token(fmt, **kwargs)
        utils.py:102-103           parse_single_struct_token(fmt)
        utils.py:119-120           parse_single_token(token)
        utils.py:142-143           preprocess_tokens(fmt)
        utils.py:169-170           tokenparser(fmt, keys)
        dtypes.py:137-139          Dtype._new_from_token(cls, token, scale)
        dtypes.py:146-148          Dtype._create(cls, definition, length, scale)     (typed=True since e6496ea)
      with `CACHE_SIZE = 256` (bitstore_helpers.py:15, utils.py:14, dtypes.py:9),
    * the `Options` singleton (bitstring_options.py:7-86): `_lsb0`, `_bytealigned`, `_mxfp_overflow`, and the
      thirteen class attributes `set_lsb0` re-binds (bitstring_options.py:46-73),
    * `Array._largest_values` (array_.py:95-112), built once, by nine string constructions.

  SPEC layer: `pureRun` — every call is evaluated directly, under the options in force at that moment.
  ALG layer:  `cachedCall` (functools.lru_cache), the single-cache machine `step`/`run` (calls, option assignments,
              cache_clear) and the eight-cache system `sysStep`/`sysRun` with the method bindings.
  Which computation reads which option:
    * `str_to_bitstore` → `bitstore_from_token` (bitstore_helpers.py:261) → `Dtype.build` →
      `_setue/_setse/_setuie/_setsie` raise CreationError when `options.lsb0` (bits.py:856, 913, 936, 963);
      `e4m3mxfp2bitstore` / `e5m2mxfp2bitstore` choose the saturate or the overflow table from
      `options.mxfp_overflow` (bitstore_helpers.py:132-148) — the result differs exactly for values beyond the
      largest finite one;
    * the other seven cached functions read no option (string processing; a Dtype holds references to set/get
      functions that read the options when they are CALLED, not when the Dtype is created).
  The cache key of `str_to_bitstore` is the string alone.  Since a428504 both setters clear that cache
  (bitstring_options.py:31-32, 48-49); before, no setter touched a cache and a string parsed under one setting was
  served under another.  `Cfg.inval` / `SysCfg.inval` say which assignments clear which cache, so the same
  definitions describe both shapes; the driver takes the shape of the working tree from two evaluated facts
  (`Gen.staleAfterMxfp`, `Gen.staleAfterLsb0`), and `Props.head_setters_invalidate` makes "the setters
  invalidate" a generated obligation of every run.
  Cached results are immutable VALUES here; that a cached store is never written through an alias is C04.
-/
import BitstringModel.Model.Basic
import BitstringModel.Gen.Lsb0Tables
namespace BM.C09

/-! ## Options (bitstring_options.py:12-15: lsb0 False, bytealigned False, mxfp_overflow 'saturate') -/

structure Opts where
  lsb0 : Bool
  bytealigned : Bool
  mxfpOverflow : Bool        -- false = 'saturate', true = 'overflow'
  deriving DecidableEq, Repr

inductive OptName where
  | lsb0 | bytealigned | mxfp
  deriving DecidableEq, Repr

def Opts.init : Opts := ⟨false, false, false⟩

def Opts.get (o : Opts) : OptName → Bool
  | .lsb0 => o.lsb0
  | .bytealigned => o.bytealigned
  | .mxfp => o.mxfpOverflow

def Opts.set (o : Opts) : OptName → Bool → Opts
  | .lsb0, v => { o with lsb0 := v }
  | .bytealigned, v => { o with bytealigned := v }
  | .mxfp, v => { o with mxfpOverflow := v }

/-- Results (`ok v` / `error e`) can be compared. -/
def exceptDecEq {ν : Type} [DecidableEq ν] (a b : Except Err ν) : Decidable (a = b) :=
  match a, b with
  | .ok x, .ok y => if h : x = y then isTrue (by rw [h]) else isFalse (fun e => by cases e; exact h rfl)
  | .error x, .error y => if h : x = y then isTrue (by rw [h]) else isFalse (fun e => by cases e; exact h rfl)
  | .ok _, .error _ => isFalse (fun e => by cases e)
  | .error _, .ok _ => isFalse (fun e => by cases e)

instance {ν : Type} [DecidableEq ν] : DecidableEq (Except Err ν) := exceptDecEq

/-! ## `functools.lru_cache(maxsize)`: most recently used entry first -/

abbrev Cache (κ ν : Type) := List (κ × ν)

section lru
variable {κ ν : Type} [DecidableEq κ]

def lruFind : Cache κ ν → κ → Option ν
  | [], _ => none
  | (k', v) :: t, k => if k' = k then some v else lruFind t k

def lruRemove (c : Cache κ ν) (k : κ) : Cache κ ν := c.filter fun e => decide (e.1 ≠ k)

/-- One call of a memoised function with key `k`; `r` is what the wrapped function returns (or raises) when it
    is run NOW.  Hit: the stored value, entry moved to the front.  Miss: the function runs; an exception
    propagates and nothing is stored; a result is stored in front and the oldest entry beyond `cap` is dropped. -/
def cachedCall (cap : Nat) (c : Cache κ ν) (k : κ) (r : Except Err ν) : Cache κ ν × Except Err ν :=
  match lruFind c k with
  | some v => ((k, v) :: lruRemove c k, .ok v)
  | none =>
    match r with
    | .ok v => (((k, v) :: c).take cap, .ok v)
    | .error e => (c, .error e)

end lru

/-! ## One memoised function under changing options -/

inductive Op (α : Type) where
  | call (a : α)                          -- the memoised function is called with argument `a`
  | setOpt (n : OptName) (v : Bool)       -- `bitstring.options.<n> = v`
  | clear                                 -- `cache_clear()`
  deriving Repr

/-- `cap` = maxsize; `key` = what the cache compares (the arguments, by `==`); `f` = the wrapped function, which may
    read the options; `inval n` = does assigning option `n` clear this cache. -/
structure Cfg (α κ ν : Type) where
  cap : Nat
  key : α → κ
  f : Opts → α → Except Err ν
  inval : OptName → Bool

structure St (κ ν : Type) where
  opts : Opts
  cache : Cache κ ν

abbrev Out (ν : Type) := Option (Except Err ν)      -- `none` for steps that are not calls

section machine
variable {α κ ν : Type} [DecidableEq κ]

def St.init : St κ ν := ⟨Opts.init, []⟩

def step (m : Cfg α κ ν) (s : St κ ν) : Op α → St κ ν × Out ν
  | .call a =>
    let p := cachedCall m.cap s.cache (m.key a) (m.f s.opts a)
    (⟨s.opts, p.1⟩, some p.2)
  | .setOpt n v => (⟨s.opts.set n v, if m.inval n then [] else s.cache⟩, none)
  | .clear => (⟨s.opts, []⟩, none)

def run (m : Cfg α κ ν) (s : St κ ν) : List (Op α) → St κ ν × List (Out ν)
  | [] => (s, [])
  | op :: ops =>
    let p := step m s op
    let q := run m p.1 ops
    (q.1, p.2 :: q.2)

/-- SPEC: the options evolve, every call is evaluated on the spot. -/
def optsStep (o : Opts) : Op α → Opts
  | .setOpt n v => o.set n v
  | _ => o

def optsAfter (o : Opts) (ops : List (Op α)) : Opts := ops.foldl optsStep o

def pureOut (f : Opts → α → Except Err ν) (o : Opts) : Op α → Out ν
  | .call a => some (f o a)
  | _ => none

def pureRun (f : Opts → α → Except Err ν) (o : Opts) : List (Op α) → List (Out ν)
  | [] => []
  | op :: ops => pureOut f o op :: pureRun f (optsStep o op) ops

/-- The calls of a history, each with the options in force when it is made. -/
def callTrace (o : Opts) : List (Op α) → List (Opts × α)
  | [] => []
  | .call a :: ops => (o, a) :: callTrace o ops
  | op :: ops => callTrace (optsStep o op) ops

/-- REGION where a cache that no setter clears can serve a stale entry: some key is used twice, under options for which the wrapped function gives
    different results (an option it reads was changed between a parse and a re-use). -/
def reuse_after_option_change [DecidableEq ν] (m : Cfg α κ ν) (o : Opts) (ops : List (Op α)) : Bool :=
  let t := callTrace o ops
  t.any fun p => t.any fun q => decide (m.key p.2 = m.key q.2) && !decide (m.f p.1 p.2 = m.f q.1 q.2)

end machine

/-! ## The eight caches -/

inductive CacheId where
  | strToBitstore | parseNameLength | parseSingleStruct | parseSingleToken
  | preprocessTokens | tokenparser | newFromToken | create
  deriving DecidableEq, Repr

def CacheId.pyName : CacheId → String
  | .strToBitstore => "str_to_bitstore"
  | .parseNameLength => "parse_name_length_token"
  | .parseSingleStruct => "parse_single_struct_token"
  | .parseSingleToken => "parse_single_token"
  | .preprocessTokens => "preprocess_tokens"
  | .tokenparser => "tokenparser"
  | .newFromToken => "Dtype._new_from_token"
  | .create => "Dtype._create"

/-- The arguments of a call, as far as the property is concerned: the text the cache compares, and what the
    computation behind it reads.  `readsLsb0`: the string has an exp-Golomb token (raises in lsb0 mode);
    `readsMxfp`: it has an e4m3mxfp/e5m2mxfp token whose value is beyond the largest finite one (saturate and
    overflow tables differ); `raises`: it is malformed (raises under every option setting). -/
structure Call where
  text : String
  readsLsb0 : Bool
  readsMxfp : Bool
  raises : Bool
  deriving DecidableEq, Repr

/-- An abstract result: which call it is the result of, and — when the computation consulted
    `options.mxfp_overflow` — the value it saw. -/
structure Val where
  of : Call
  mxfp : Option Bool
  deriving DecidableEq, Repr

/-- What each wrapped function computes when run under options `o`. -/
def sem (cid : CacheId) (o : Opts) (a : Call) : Except Err Val :=
  if a.raises then .error .value else
  match cid with
  | .strToBitstore =>
    if a.readsLsb0 && o.lsb0 then .error .value                          -- bits.py:856-857 (CreationError)
    else .ok ⟨a, if a.readsMxfp then some o.mxfpOverflow else none⟩      -- bitstore_helpers.py:132-148
  | _ => .ok ⟨a, none⟩

abbrev Table := List ((String × String) × String)

def tableFind : Table → String × String → Option String
  | [], _ => none
  | (k', v) :: t, k => if k' = k then some v else tableFind t k

/-- `for cls, d in methods.items(): for attr, method in d.items(): setattr(cls, attr, method)`
    (bitstring_options.py:70-73); the binding made last is found first. -/
def applyTable (b : Table) (t : Table) : Table := t.reverse ++ b

/-- The method a table names for an attribute (a later entry for the same attribute wins, as in a dict literal). -/
def tableLast (t : Table) (k : String × String) : Option String := tableFind t.reverse k

structure SysCfg where
  cap : CacheId → Nat
  inval : CacheId → OptName → Bool
  tblLsb0 : Table
  tblMsb0 : Table

def SysCfg.table (cfg : SysCfg) (lsb0 : Bool) : Table := if lsb0 then cfg.tblLsb0 else cfg.tblMsb0

structure Sys where
  opts : Opts
  bindings : Table
  cStr : Cache Call Val
  cNameLength : Cache Call Val
  cSingleStruct : Cache Call Val
  cSingleToken : Cache Call Val
  cPreprocess : Cache Call Val
  cTokenparser : Cache Call Val
  cNewFromToken : Cache Call Val
  cCreate : Cache Call Val
  deriving Repr

def Sys.get (s : Sys) : CacheId → Cache Call Val
  | .strToBitstore => s.cStr
  | .parseNameLength => s.cNameLength
  | .parseSingleStruct => s.cSingleStruct
  | .parseSingleToken => s.cSingleToken
  | .preprocessTokens => s.cPreprocess
  | .tokenparser => s.cTokenparser
  | .newFromToken => s.cNewFromToken
  | .create => s.cCreate

def Sys.put (s : Sys) (cid : CacheId) (c : Cache Call Val) : Sys :=
  match cid with
  | .strToBitstore => { s with cStr := c }
  | .parseNameLength => { s with cNameLength := c }
  | .parseSingleStruct => { s with cSingleStruct := c }
  | .parseSingleToken => { s with cSingleToken := c }
  | .preprocessTokens => { s with cPreprocess := c }
  | .tokenparser => { s with cTokenparser := c }
  | .newFromToken => { s with cNewFromToken := c }
  | .create => { s with cCreate := c }

def allCaches : List CacheId :=
  [.strToBitstore, .parseNameLength, .parseSingleStruct, .parseSingleToken,
   .preprocessTokens, .tokenparser, .newFromToken, .create]

/-- `Options.__init__` (bitstring_options.py:12-15): `set_lsb0(False)`, all caches empty. -/
def Sys.init (cfg : SysCfg) : Sys :=
  { opts := Opts.init, bindings := applyTable [] cfg.tblMsb0,
    cStr := [], cNameLength := [], cSingleStruct := [], cSingleToken := [],
    cPreprocess := [], cTokenparser := [], cNewFromToken := [], cCreate := [] }

inductive SysOp where
  | call (cid : CacheId) (a : Call)         -- the cached function `cid` is called (from anywhere) with `a`
  | setOpt (n : OptName) (v : Bool)         -- `bitstring.options.<n> = v`
  | clear (cid : CacheId)                   -- `cache_clear()`
  | useMethod (attr : String × String)      -- a call dispatched through a class attribute `set_lsb0` re-binds
  | other                                   -- mutation of / derivation from an earlier result: touches no cache
  deriving Repr

inductive SysOut where
  | none
  | called (cid : CacheId) (o : Opts) (a : Call) (r : Except Err Val)   -- the call, the options in force, what it returned
  | method (bound : Option String) (o : Opts) (attr : String × String)  -- which method the attribute dispatched to
  deriving Repr

def sysStep (cfg : SysCfg) (s : Sys) : SysOp → Sys × SysOut
  | .call cid a =>
    let p := cachedCall (cfg.cap cid) (s.get cid) a (sem cid s.opts a)
    (s.put cid p.1, .called cid s.opts a p.2)
  | .setOpt n v =>
    -- the property setters (bitstring_options.py:25-32, 42-49, 79-81); `lsb0` also re-binds the methods;
    -- `cfg.inval` = which caches the setter clears (a428504: str_to_bitstore, for lsb0 and mxfp_overflow)
    let s1 := { s with opts := s.opts.set n v }
    let s2 := match n with
      | .lsb0 => { s1 with bindings := applyTable s1.bindings (cfg.table v) }
      | _ => s1
    (allCaches.foldl (fun acc cid => if cfg.inval cid n then acc.put cid [] else acc) s2, .none)
  | .clear cid => (s.put cid [], .none)
  | .useMethod attr => (s, .method (tableFind s.bindings attr) s.opts attr)
  | .other => (s, .none)

def sysRun (cfg : SysCfg) (s : Sys) : List SysOp → Sys × List SysOut
  | [] => (s, [])
  | op :: ops =>
    let p := sysStep cfg s op
    let q := sysRun cfg p.1 ops
    (q.1, p.2 :: q.2)

/-- SPEC for the system: every call returns what its function computes under the options in force; every
    re-bindable attribute dispatches to the method the table of the current mode names. -/
def SysOut.pure (cfg : SysCfg) : SysOut → Bool
  | .none => true
  | .called cid o a r => decide (r = sem cid o a)
  | .method bound o attr => decide (bound = tableLast (cfg.table o.lsb0) attr)

/-- The calls of a system history, each with the options in force when it is made. -/
def sysCallTrace (o : Opts) : List SysOp → List (Opts × CacheId × Call)
  | [] => []
  | .call cid a :: ops => (o, cid, a) :: sysCallTrace o ops
  | .setOpt n v :: ops => sysCallTrace (o.set n v) ops
  | _ :: ops => sysCallTrace o ops

def strCalls (ops : List SysOp) : List (Opts × CacheId × Call) :=
  (sysCallTrace Opts.init ops).filter fun p => decide (p.2.1 = CacheId.strToBitstore)

/-- REGION of deviation 2 (tree before a428504; setters that do not clear): a string with an exp-Golomb token is constructed under both lsb0 values. -/
def reuse_after_lsb0_change (ops : List SysOp) : Bool :=
  let t := strCalls ops
  t.any fun p => t.any fun q =>
    decide (p.2.2 = q.2.2) && p.2.2.readsLsb0 && !p.2.2.raises && (p.1.lsb0 != q.1.lsb0)

/-- REGION of deviation 1 (tree before a428504; setters that do not clear): a string with an overflowing e4m3mxfp/e5m2mxfp token is constructed (without
    raising) under both mxfp_overflow values. -/
def reuse_after_mxfp_overflow_change (ops : List SysOp) : Bool :=
  let t := strCalls ops
  t.any fun p => t.any fun q =>
    decide (p.2.2 = q.2.2) && p.2.2.readsMxfp && !p.2.2.raises && (p.1.mxfpOverflow != q.1.mxfpOverflow)
      && !(p.2.2.readsLsb0 && p.1.lsb0) && !(q.2.2.readsLsb0 && q.1.lsb0)

/-! ## Invariants -/

section invariants
variable {α κ ν : Type}

/-- Never more than `cap` entries, no key twice. -/
def Bounded (cap : Nat) (c : Cache κ ν) : Prop := c.length ≤ cap ∧ (c.map Prod.fst).Nodup

/-- Every entry is what the wrapped function returned for SOME call with that key under SOME options. -/
def Computed (m : Cfg α κ ν) (c : Cache κ ν) : Prop :=
  ∀ e ∈ c, ∃ o a, m.key a = e.1 ∧ m.f o a = .ok e.2

/-- Every entry is what the wrapped function returns for its key under the options `o`. -/
def Fresh (m : Cfg α κ ν) (o : Opts) (c : Cache κ ν) : Prop :=
  ∀ e ∈ c, ∃ a, m.key a = e.1 ∧ m.f o a = .ok e.2

/-- Calls the cache cannot tell apart compute the same thing (the key contains everything the function reads
    from its arguments). -/
def KeyDetermines (m : Cfg α κ ν) : Prop := ∀ o a a', m.key a = m.key a' → m.f o a = m.f o a'

/-- Every option whose assignment does not clear the cache is not read by the wrapped function. -/
def ReadsOnlyInvalidating (m : Cfg α κ ν) : Prop :=
  ∀ n, m.inval n = false → ∀ o v a, m.f (o.set n v) a = m.f o a

end invariants

/-- All eight caches bounded. -/
def SysBounded (cfg : SysCfg) (s : Sys) : Prop := ∀ cid, Bounded (cfg.cap cid) (s.get cid)

/-- The two tables re-bind the same attributes. -/
def SameKeys (cfg : SysCfg) : Prop :=
  ∀ k, (tableLast cfg.tblLsb0 k).isSome = (tableLast cfg.tblMsb0 k).isSome

def tableKeysSubset (t t' : Table) : Bool := t.all fun e => (t'.map (·.1)).contains e.1

/-- `str_to_bitstore` alone, as one memoised function: keyed on the string, reading lsb0 and mxfp_overflow;
    `inv` = do the option setters clear it (before a428504: no; since: yes). -/
def strCfg (cap : Nat) (inv : Bool) : Cfg Call Call Val :=
  { cap := cap, key := id, f := sem .strToBitstore,
    inval := fun n => match n with | .bytealigned => false | _ => inv }

/-! ## `Dtype._create` / `Dtype._new_from_token`: the key is `(definition, length, scale)`.  `functools.lru_cache`
    compares keys with `==` unless `typed=True`; with `==`, `2`, `2.0` and `True`-like scales share an entry and the
    Dtype that is served carries the scale OBJECT of the first caller.  Since e6496ea both caches are `typed=True`
    (dtypes.py:137-138, 146-147): the type of every argument is part of the key. -/

inductive ScaleKind where
  | int | float | bool
  deriving DecidableEq, Repr

/-- A scale argument: its numeric value (numerator, positive denominator, in lowest terms) and the Python type. -/
structure Scale where
  num : Int
  den : Nat
  kind : ScaleKind
  deriving DecidableEq, Repr

structure DtypeArg where
  name : String
  length : Option Nat
  scale : Option Scale
  deriving DecidableEq, Repr

/-- What `==`/`hash` of the argument tuple see. -/
def DtypeArg.key (a : DtypeArg) : String × Option Nat × Option (Int × Nat) :=
  (a.name, a.length, a.scale.map fun s => (s.num, s.den))

/-- The cache key: the `==`-key, plus the argument types when the cache is `typed`. -/
def DtypeArg.tkey (typed : Bool) (a : DtypeArg) : (String × Option Nat × Option (Int × Nat)) × Option ScaleKind :=
  (a.key, if typed then a.scale.map (·.kind) else none)

/-- `Dtype._create`: raises for a zero scale (dtypes.py:128-129), else a Dtype holding the scale object given. -/
def dtypeCreate (_ : Opts) (a : DtypeArg) : Except Err DtypeArg :=
  match a.scale with
  | some s => if s.num = 0 then .error .value else .ok a
  | none => .ok a

/-- Equality "by value": same name, same length, numerically equal scale. -/
def DtypeArg.valueEq (a b : DtypeArg) : Prop := a.key = b.key

instance (a b : DtypeArg) : Decidable (a.valueEq b) := by unfold DtypeArg.valueEq; infer_instance

def dtypeCfg (cap : Nat) (typed : Bool) :
    Cfg DtypeArg ((String × Option Nat × Option (Int × Nat)) × Option ScaleKind) DtypeArg :=
  { cap := cap, key := DtypeArg.tkey typed, f := dtypeCreate, inval := fun _ => false }

/-! ## Driver: one history per line -/

def capOfGen (cid : CacheId) : Option Nat := (Gen.cacheSizes.find? fun e => e.1 = cid.pyName).map (·.2)

/-- The configuration of the working tree: capacities as the caches report them, tables as `set_lsb0` has them,
    and `inval` from the evaluated facts (an option assignment after which the stale entry is no longer served
    is modelled as clearing `str_to_bitstore`; for purity that is indistinguishable from keying on the option). -/
def genCfg : Option SysCfg :=
  if allCaches.all fun cid => (capOfGen cid).isSome then
    some { cap := fun cid => match capOfGen cid with | some n => n | none => 0,
           inval := fun cid n => match cid, n with
             | .strToBitstore, .mxfp => !Gen.staleAfterMxfp
             | .strToBitstore, .lsb0 => !Gen.staleAfterLsb0
             | _, _ => false,
           tblLsb0 := Gen.lsb0Table, tblMsb0 := Gen.msb0Table }
  else none

def parseDep (text dep : String) : Call :=
  ⟨text, dep.contains 'l', dep.contains 'm', dep.contains 'e'⟩

def cacheIdOfFn : String → Option CacheId
  | "str_to_bitstore" => some .strToBitstore
  | "parse_name_length_token" => some .parseNameLength
  | "parse_single_struct_token" => some .parseSingleStruct
  | "parse_single_token" => some .parseSingleToken
  | "preprocess_tokens" => some .preprocessTokens
  | "tokenparser" => some .tokenparser
  | "_new_from_token" => some .newFromToken
  | "_create" => some .create
  | _ => none

/-- The nine constructions of `Array._calculate_auto_scale` (array_.py:101-112), in source order. -/
def largestValuesLiterals : List String :=
  ["0b01111111", "0b0111", "0b011111", "0b011111", "0b01111110", "0b01111011", "0b01111110", "0b01111110", "0x7bff"]

def plainCall (text : String) : Call := ⟨text, false, false, false⟩

/-- One wire op → the primitive steps it performs in state `s` (`built` = `Array._largest_values is not None`).
    Returns the primitive ops, the index of the step whose output is the observation, and the new `built`. -/
def expand (s : Sys) (built : Bool) (fields : List String) : Option (List SysOp × Bool) :=
  match fields with
  | ["O", n, v] =>
    let name := match n with
      | "lsb0" => some OptName.lsb0 | "bytealigned" => some OptName.bytealigned | "mxfp" => some OptName.mxfp
      | _ => none
    match name, v with
    | some nm, "1" => some ([.setOpt nm true], built)
    | some nm, "0" => some ([.setOpt nm false], built)
    | _, _ => none
  | "S" :: _cls :: dep :: text :: nested =>
    -- cls(text) → str_to_bitstore(text) (bits.py:501-502, 1824).  On a miss the function body runs and every
    -- `bits=<string>` token converts its value with Bits(<string>) → str_to_bitstore again (bits.py:604), before the
    -- outer result is stored.
    let a := parseDep text dep
    match lruFind s.cStr a with
    | some _ => some ([.call .strToBitstore a], built)
    | none => some (nested.map (fun t => SysOp.call .strToBitstore (plainCall t)) ++ [.call .strToBitstore a], built)
  | ["K", fn, dep, text] =>
    match cacheIdOfFn fn with
    | some cid => some ([.call cid (parseDep text dep)], built)
    | none => none
  | "P" :: dep :: text :: _ => some ([.call .tokenparser (parseDep text dep)], built)        -- pack: methods.py:52
  | "U" :: dep :: text :: _ => some ([.call .preprocessTokens (parseDep text dep)], built)   -- unpack/readlist: bits.py:1217
  | "D" :: dep :: text :: _ => some ([.call .create (parseDep text dep)], built)             -- Dtype(...): dtypes.py:323-337
  | "N" :: dep :: text :: _ => some ([.call .create (parseDep text dep)], built)             -- cls(name=value), a.name = value,
                                                                                             -- pack(name, value), Dtype.build: Dtype(name, length)
  | "E" :: dep :: _ :: _ :: text :: _ => some ([.call .create (parseDep text dep)], built)   -- Dtype(argB), compared with an
                                                                                             -- earlier Dtype object
  | "A" :: dep :: text :: _ =>
    -- Array(Dtype(name, scale='auto'), values): the table is built on first use (array_.py:98-112)
    let pre := if built then [] else largestValuesLiterals.map fun t => SysOp.call .strToBitstore (plainCall t)
    some (pre ++ [.call .create (parseDep text dep)], true)
  | "B" :: cls :: attr :: _ => some ([.useMethod (cls, attr)], built)
  | "M" :: _ => some ([.other], built)
  | _ => none

/-- One character per step: `.` no observation; `=` pure; for a stale `str_to_bitstore` result, which option
    would have to be flipped back for it to be right: `m` (mxfp_overflow), `l` (lsb0), `b` (both); `x` otherwise. -/
def classify (cfg : SysCfg) : SysOut → Char
  | .none => '.'
  | .called cid o a r =>
    if r = sem cid o a then '='
    else if r = sem cid (o.set .mxfp (!o.mxfpOverflow)) a then 'm'
    else if r = sem cid (o.set .lsb0 (!o.lsb0)) a then 'l'
    else if r = sem cid ((o.set .lsb0 (!o.lsb0)).set .mxfp (!o.mxfpOverflow)) a then 'b'
    else 'x'
  | .method bound o attr => if bound = tableLast (cfg.table o.lsb0) attr then '=' else 'x'

def handle (args : List String) : String :=
  match args, genCfg with
  | "hist" :: ops, some cfg =>
    let r := ops.foldl (fun (acc : Option (Sys × Bool × List Char)) (w : String) =>
      match acc with
      | none => none
      | some (s, built, out) =>
        match expand s built (w.splitOn "|") with
        | none => none
        | some (prims, built') =>
          let q := sysRun cfg s prims
          match q.2.getLast? with
          | some o => some (q.1, built', classify cfg o :: out)
          | none => none) (some (Sys.init cfg, false, []))
    match r with
    | some (_, _, out) => "ok " ++ String.ofList out.reverse
    | none => "bad-op"
  | _, none => "bad-gen"
  | _, _ => "bad-op"

end BM.C09
