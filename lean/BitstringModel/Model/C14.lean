/-
  Model/C14.lean — `bitstring.Array`: a list of fixed-width items over one contiguous bit buffer.

  SPEC layer: Python list operations on `List α` (`PyL.*`, next to `Py.getSlice`/`Py.getIndex` of Model/Basic),
              `chunks`/`trailing`/`items` ("item i occupies bits [i*w, (i+1)*w)"), the documented promotion rules.
  ALG  layer: `bitstring/array_.py` transcribed method by method over the list-of-bits meaning of the
              `BitArray` primitives it calls (slice get / slice assign / slice delete / overwrite / insert / append).
              Widths and offsets are `dtype.bitlength` (`c.w = L * mult`); `dtype.length` (`c.L`, in units of
              `bits_per_item`) only takes part in dtype identity (`extend`, `equals`, `_promotetype`).
              The item codec (`Dtype.build` / `Dtype.read_fn`) is a parameter `Codec V`; theorems hold for every
              codec that satisfies the stated hypotheses, the driver instantiates it for the registered dtypes.

  `_set_dtype` refuses a dtype of bit length 0 (`Codec.valid`), so every Array has `0 < w`: the hypothesis `0 < c.w` of
  the theorems is an invariant of the code.  msb0 mode.
-/
import BitstringModel.Model.Basic
namespace BM.C14

/-! ## SPEC: Python list operations -/
namespace PyL

/-- `l[i] = v`. -/
def setIndex {α} (l : List α) (i : Int) (v : α) : Except Err (List α) :=
  let j := if i < 0 then i + l.length else i
  if j < 0 ∨ (l.length : Int) ≤ j then .error .index else .ok (l.set j.toNat v)

/-- `del l[i]`. -/
def delIndex {α} (l : List α) (i : Int) : Except Err (List α) :=
  let j := if i < 0 then i + l.length else i
  if j < 0 ∨ (l.length : Int) ≤ j then .error .index else .ok (l.eraseIdx j.toNat)

/-- `l.insert(i, v)`: negative `i` counts from the end, everything is clamped to `[0, len]`. -/
def insert {α} (l : List α) (i : Int) (v : α) : List α :=
  let j := if i < 0 then max (i + l.length) 0 else min i l.length
  l.take j.toNat ++ v :: l.drop j.toNat

/-- `l.pop(i)`. -/
def pop {α} (l : List α) (i : Int) : Except Err (α × List α) :=
  match Py.getIndex l i, delIndex l i with
  | .ok x, .ok l' => .ok (x, l')
  | .error e, _ => .error e
  | _, .error e => .error e

/-- `l[start:stop:step] = vals`.  Step 1: splice (any number of values).  Extended slice: the number of values
    must equal the number of indices, then `for i, v in zip(range(..), vals): l[i] = v`. -/
def setSlice {α} (l : List α) (start stop step : Option Int) (vals : List α) : Except Err (List α) :=
  let st := step.getD 1
  if st = 0 then .error .value else
  let (s, e, st) := Py.sliceIndices start stop st l.length
  if st = 1 then .ok (l.take s.toNat ++ vals ++ l.drop (max s e).toNat)
  else
    let idx := Py.rangeList s e st
    if vals.length ≠ idx.length then .error .value
    else .ok ((idx.zip vals).foldl (fun acc p => acc.set p.1.toNat p.2) l)

/-- `del l[start:stop:step]`: the elements whose index the slice visits disappear, the others keep their order. -/
def delSlice {α} (l : List α) (start stop step : Option Int) : Except Err (List α) :=
  let st := step.getD 1
  if st = 0 then .error .value else
  let (s, e, st) := Py.sliceIndices start stop st l.length
  let idx := Py.rangeList s e st
  .ok ((l.zipIdx.filter fun p => !(idx.contains (p.2 : Int))).map Prod.fst)

end PyL

/-! ## Item codec and the item view of a bit buffer -/

/-- What `_promotetype` looks at: `return_type is float`, `return_type is int or bool`, anything else. -/
inductive RT where
  | int | bool | float | other
  deriving Repr, DecidableEq, Inhabited

/-- A fixed-length dtype as far as `Array` uses it.
    `L` = `dtype.length` (in units of `bits_per_item`), `mult` = `dtype.bits_per_item` (8 for `bytes`, else 1),
    so `w = L * mult` = `dtype.bitlength`.  `enc` = `Dtype.build` (dtypes.py:174-183: `set_fn` then the
    `bitlength` check), `dec` = `get_fn` on exactly the item's bits. -/
structure Codec (V : Type) where
  name : String
  L : Nat
  mult : Nat
  rt : RT
  signed : Bool
  enc : V → Except Err Bits
  dec : Bits → V

/-- `dtype.bitlength`. -/
def Codec.w {V} (c : Codec V) : Nat := c.L * c.mult

/-- SPEC: item `k` occupies bits `[k*w, (k+1)*w)`. -/
def chunks (w : Nat) (d : Bits) : List Bits :=
  (List.range (d.length / w)).map fun k => (d.drop (k * w)).take w

/-- SPEC: what is left after the last whole item. -/
def trailing (w : Nat) (d : Bits) : Bits := d.drop (w * (d.length / w))

/-- SPEC: the decoded items. -/
def items {V} (c : Codec V) (d : Bits) : List V := (chunks c.w d).map c.dec

/-- The hypotheses on a codec under which the theorems hold: what `enc` produces has the dtype's bit length and
    decodes back to the value (true of every registered fixed-length dtype for the values it accepts). -/
structure Codec.WF {V} (c : Codec V) : Prop where
  len_enc : ∀ v b, c.enc v = .ok b → b.length = c.w
  dec_enc : ∀ v b, c.enc v = .ok b → c.dec b = v

/-- Every item pattern is the encoding of its own decoded value (ints, hex/bin/oct, bytes, bits, bool — not the
    floats, whose NaN payloads decode to one value). -/
def Codec.Canonical {V} (c : Codec V) : Prop := ∀ b : Bits, b.length = c.w → c.enc (c.dec b) = .ok b

/-- An Array object: dtype and data. -/
structure Arr (V : Type) where
  c : Codec V
  d : Bits

/-- `_set_dtype` (array_.py:153-172) accepts only a fixed, non-zero bit length. -/
def Codec.valid {V} (c : Codec V) : Bool := c.w != 0

/-- `a.dtype = new` (array_.py:149-172): only `_dtype` is replaced (after the checks of `_set_dtype`: see
    `Arr.setDtype?`). -/
def Arr.setDtype {V} (a : Arr V) (c2 : Codec V) : Arr V := ⟨c2, a.d⟩

/-- The setter with its check: a refused dtype leaves the Array as it was. -/
def Arr.setDtype? {V} (a : Arr V) (c2 : Codec V) : Arr V × Except Err Unit :=
  if c2.valid then (a.setDtype c2, .ok ()) else (a, .error .value)

/-! ## ALG: `BitArray` primitives by their list-of-bits meaning -/

/-- `d[a:b]` (bitarray slicing = Python slicing, C01). -/
def bslice (d : Bits) (a b : Option Int) : Bits :=
  let r := Py.sliceIndices a b 1 d.length
  (d.drop r.1.toNat).take (r.2.1 - r.1).toNat

/-- `d[a:b] = new` (step 1; an empty or inverted range inserts at `a`). -/
def bsetSlice (d : Bits) (a b : Int) (new : Bits) : Bits :=
  let r := Py.sliceIndices (some a) (some b) 1 d.length
  d.take r.1.toNat ++ new ++ d.drop (max r.1 r.2.1).toNat

/-- `del d[a:b]`. -/
def bdelSlice (d : Bits) (a b : Int) : Bits :=
  let r := Py.sliceIndices (some a) (some b) 1 d.length
  d.take r.1.toNat ++ d.drop (max r.1 r.2.1).toNat

/-- `BitArray.overwrite(bs, pos)` (bitarray_.py:356-372, bits.py:1082-1089). -/
def bOverwrite (d bs : Bits) (pos : Int) : Except Err Bits :=
  if bs.length = 0 then .ok d else
  let p := if pos < 0 then pos + d.length else pos
  if p < 0 ∨ p > d.length then .error .value else
  .ok (bsetSlice d p (p + bs.length) bs)

/-- `BitArray.insert(bs, pos)` (bitarray_.py:336-354, bits.py:1076-1080). -/
def bInsert (d bs : Bits) (pos : Int) : Except Err Bits :=
  if bs.length = 0 then .ok d else
  let p := if pos < 0 then pos + d.length else pos
  if p < 0 ∨ p > d.length then .error .value else
  .ok (bsetSlice d p p bs)

/-- Result of a mutating method: the data afterwards (also when it raised) and what it returned / raised. -/
structure Step (α : Type) where
  data : Bits
  res : Except Err α

/-- What the list model sees of a mutating call: the returned value and the items afterwards, or the exception. -/
def Step.view {V α} (c : Codec V) (s : Step α) : Except Err (α × List V) :=
  match s.res with
  | .ok x => .ok (x, items c s.data)
  | .error e => .error e

/-! ## ALG: `Array` methods (array_.py) -/

section
variable {V : Type}

/-- `_create_element` (array_.py:171-176): build, then compare `len(b)` with `dtype.bitlength`. -/
def createElement (c : Codec V) (v : V) : Except Err Bits :=
  match c.enc v with
  | .error e => .error e
  | .ok b => if b.length ≠ c.w then .error .value else .ok b

/-- `__len__` (array_.py:178-179): `len(self.data) // self._dtype.bitlength`. -/
def len (c : Codec V) (d : Bits) : Nat := d.length / c.w

/-- `trailing_bits` (array_.py:140-143). -/
def trailingBits (c : Codec V) (d : Bits) : Bits :=
  let n := d.length % c.w
  if n = 0 then [] else bslice d (some (-(n : Int))) none

/-- `dtype.read_fn(data, start=…)` (dtypes.py:291-301): needs `bitlength` bits from `start`. -/
def readAt (c : Codec V) (d : Bits) (start : Nat) : Except Err V :=
  if d.length < start + c.w then .error .read else .ok (c.dec ((d.drop start).take c.w))

/-- Index normalisation shared by `__getitem__`/`__setitem__`/`__delitem__` (array_.py:204-207, 238-241, 257-260). -/
def normIndex (n : Nat) (key : Int) : Except Err Nat :=
  let k := if key < 0 then key + n else key
  if k < 0 ∨ k ≥ n then .error .index else .ok k.toNat

/-- `a[key]` for an int key (array_.py:204-208). -/
def getItem (c : Codec V) (d : Bits) (key : Int) : Except Err V :=
  match normIndex (len c d) key with
  | .error e => .error e
  | .ok k => readAt c d (c.w * k)

/-- `a[start:stop:step]` (array_.py:190-202); the result is the data of the new Array (same dtype). -/
def getSlice (c : Codec V) (d : Bits) (start stop step : Option Int) : Except Err Bits :=
  let st := step.getD 1
  if st = 0 then .error .value else
  let r := Py.sliceIndices start stop st (len c d)
  if st ≠ 1 then
    .ok ((Py.rangeList (r.1 * c.w) (r.2.1 * c.w) (st * c.w)).foldl
          (fun acc p => acc ++ bslice d (some p) (some (p + c.w))) [])
  else
    .ok (bslice d (some (r.1 * c.w)) (some (r.2.1 * c.w)))

/-- `a[key] = value` for an int key (array_.py:238-244). -/
def setItem (c : Codec V) (d : Bits) (key : Int) (v : V) : Step Unit :=
  match normIndex (len c d) key with
  | .error e => ⟨d, .error e⟩
  | .ok k =>
    match createElement c v with
    | .error e => ⟨d, .error e⟩
    | .ok b =>
      match bOverwrite d b ((c.w * k : Nat) : Int) with
      | .error e => ⟨d, .error e⟩
      | .ok d' => ⟨d', .ok ()⟩

/-- `new_data = BitArray(); for x in value: new_data += self._create_element(x)` (array_.py:224-226). -/
def createAll (c : Codec V) : List V → Except Err Bits
  | [] => .ok []
  | v :: vs =>
    match createElement c v with
    | .error e => .error e
    | .ok b =>
      match createAll c vs with
      | .error e => .error e
      | .ok rest => .ok (b ++ rest)

/-- `for s, v in zip(range(start, stop, step), value): self.data.overwrite(self._create_element(v), s * L)`
    (array_.py:233-234) — an element that does not fit stops the loop with the earlier ones already written. -/
def overwriteLoop (c : Codec V) : List (Int × V) → Bits → Step Unit
  | [], d => ⟨d, .ok ()⟩
  | (s, v) :: rest, d =>
    match createElement c v with
    | .error e => ⟨d, .error e⟩
    | .ok b =>
      match bOverwrite d b (s * c.w) with
      | .error e => ⟨d, .error e⟩
      | .ok d' => overwriteLoop c rest d'

/-- `a[start:stop:step] = values` (array_.py:219-236). -/
def setSlice (c : Codec V) (d : Bits) (start stop step : Option Int) (vals : List V) : Step Unit :=
  let st := step.getD 1
  if st = 0 then ⟨d, .error .value⟩ else
  let r := Py.sliceIndices start stop st (len c d)
  if st = 1 then
    match createAll c vals with
    | .error e => ⟨d, .error e⟩
    | .ok nd => ⟨bsetSlice d (r.1 * c.w) (r.2.1 * c.w) nd, .ok ()⟩
  else
    if vals.length = Py.rangeLen r.1 r.2.1 st then
      overwriteLoop c ((Py.rangeList r.1 r.2.1 st).zip vals) d
    else ⟨d, .error .value⟩

/-- `del a[key]` for an int key (array_.py:257-262). -/
def delItem (c : Codec V) (d : Bits) (key : Int) : Step Unit :=
  match normIndex (len c d) key with
  | .error e => ⟨d, .error e⟩
  | .ok k => ⟨bdelSlice d ((c.w * k : Nat) : Int) ((c.w * k : Nat) + c.w), .ok ()⟩

/-- `del a[start:stop:step]` (array_.py:247-255): extended slices delete from the end. -/
def delSlice (c : Codec V) (d : Bits) (start stop step : Option Int) : Step Unit :=
  let st := step.getD 1
  if st = 0 then ⟨d, .error .value⟩ else
  let r := Py.sliceIndices start stop st (len c d)
  if st = 1 then ⟨bdelSlice d (r.1 * c.w) (r.2.1 * c.w), .ok ()⟩
  else
    let idx := Py.rangeList r.1 r.2.1 st
    let order := if st > 0 then idx.reverse else idx
    ⟨order.foldl (fun acc s => bdelSlice acc (s * c.w) ((s + 1) * c.w)) d, .ok ()⟩

/-- `tolist` (array_.py:276-278): `range(0, len(data) - L + 1, L)`. -/
def tolist (c : Codec V) (d : Bits) : Except Err (List V) :=
  (Py.rangeList 0 ((d.length : Int) - c.w + 1) c.w).mapM fun s => readAt c d s.toNat

/-- `append` (array_.py:280-283). -/
def append (c : Codec V) (d : Bits) (v : V) : Step Unit :=
  if d.length % c.w ≠ 0 then ⟨d, .error .value⟩ else
  match createElement c v with
  | .error e => ⟨d, .error e⟩
  | .ok b => ⟨d ++ b, .ok ()⟩

/-- `for item in iterable: self.data += self._create_element(item)` (array_.py:307-308). -/
def extendLoop (c : Codec V) : List V → Bits → Step Unit
  | [], d => ⟨d, .ok ()⟩
  | v :: vs, d =>
    match createElement c v with
    | .error e => ⟨d, .error e⟩
    | .ok b => extendLoop c vs (d ++ b)

/-- `extend(iterable)` for a plain iterable (array_.py:285-287, 304-308). -/
def extendIter (c : Codec V) (d : Bits) (vals : List V) : Step Unit :=
  if d.length % c.w ≠ 0 then ⟨d, .error .value⟩ else extendLoop c vals d

/-- `extend(other_Array)` (array_.py:288-293): same name and length, then the other's *data* is appended. -/
def extendArr (c : Codec V) (d : Bits) (c2 : Codec V) (d2 : Bits) : Step Unit :=
  if d.length % c.w ≠ 0 then ⟨d, .error .value⟩ else
  if c.name ≠ c2.name ∨ c.L ≠ c2.L then ⟨d, .error .type⟩ else ⟨d ++ d2, .ok ()⟩

/-- `extend(array.array)` (array_.py:294-305): the kind comes from the typecode (`kind` = the dtype name of
    `'=' + typecode`, `none` = no such struct code), the width is the array's own item size (`native` bits);
    the bytes appended are `iterable.tobytes()` (`raw`). -/
def extendBuf (c : Codec V) (d : Bits) (kind : Option String) (native : Nat) (raw : Bits) : Step Unit :=
  if d.length % c.w ≠ 0 then ⟨d, .error .value⟩ else
  match kind with
  | none => ⟨d, .error .value⟩
  | some name2 =>
    if c.name ≠ name2 ∨ c.L ≠ native then ⟨d, .error .value⟩ else ⟨d ++ raw, .ok ()⟩

/-- `insert(i, x)` (array_.py:312-320): a negative `i` counts from the end of the items, everything is clamped to
    `[0, len]`, then `BitArray.insert` at bit position `i * bitlength`. -/
def insert (c : Codec V) (d : Bits) (i : Int) (v : V) : Step Unit :=
  let i1 : Int := if i < 0 then max (i + (len c d : Nat)) 0 else i
  let i' := min i1 (len c d)
  match createElement c v with
  | .error e => ⟨d, .error e⟩
  | .ok b =>
    match bInsert d b (i' * c.w) with
    | .error e => ⟨d, .error e⟩
    | .ok d' => ⟨d', .ok ()⟩

/-- `pop(i)` (array_.py:317-327). -/
def pop (c : Codec V) (d : Bits) (i : Int) : Step V :=
  if len c d = 0 then ⟨d, .error .index⟩ else
  match getItem c d i with
  | .error e => ⟨d, .error e⟩
  | .ok x =>
    let s := delItem c d i
    ⟨s.data, match s.res with | .ok _ => .ok x | .error e => .error e⟩

/-- `reverse` (array_.py:381-390): the swap loop. -/
def reverse (c : Codec V) (d : Bits) : Step Unit :=
  if d.length % c.w ≠ 0 then ⟨d, .error .value⟩ else
  ⟨(Py.rangeList 0 ((d.length / 2 : Nat) : Int) c.w).foldl (fun acc sb =>
      let sw : Int := (acc.length : Int) - sb - c.w
      let temp := bslice acc (some sb) (some (sb + c.w))
      let acc1 := bsetSlice acc sb (sb + c.w) (bslice acc (some sw) (some (sw + c.w)))
      bsetSlice acc1 sw (sw + c.w) temp) d, .ok ()⟩

/-- `__iter__` (array_.py:472-476): `len(self)` reads at `start`, `start += L`. -/
def iterLoop (c : Codec V) (d : Bits) : Nat → Nat → List (Except Err V)
  | 0, _ => []
  | n + 1, start => readAt c d start :: iterLoop c d n (start + c.w)

def iter (c : Codec V) (d : Bits) : Except Err (List V) :=
  (iterLoop c d (len c d) 0).mapM id

/-- `a[start:stop:step] = a` (array_.py:221-249 with `value is self`).  Step 1: `for x in value` reads and builds all
    elements before the splice.  Extended slice: `value = list(value)` takes a snapshot of the items first
    (`not isinstance(value, Sized) or value is self`), then the `overwrite` loop runs on that list. -/
def setSliceSelf (c : Codec V) (d : Bits) (start stop step : Option Int) : Step Unit :=
  let st := step.getD 1
  if st = 0 then ⟨d, .error .value⟩ else
  match iter c d with
  | .error e => ⟨d, .error e⟩
  | .ok vals => setSlice c d start stop step vals

/-- What `count` needs from Python values: `math.isnan(value)` (TypeError for str/bytes/Bits) and `==`. -/
structure ValOps (V : Type) where
  isnan : V → Except Err Bool
  eq : V → V → Bool

/-- `count(value)` (array_.py:350-368): a value `math.isnan` cannot take (str, bytes, Bits) is not NaN; for a NaN
    value `sum(isinstance(i, float) and math.isnan(i) for i in self)` — an item that is not a number is never NaN. -/
def count (c : Codec V) (vo : ValOps V) (d : Bits) (value : V) : Except Err Nat :=
  let isNan : Bool := match vo.isnan value with | .ok b => b | .error _ => false
  match iter c d with
  | .error e => .error e
  | .ok l =>
    if isNan then .ok (l.countP fun i => match vo.isnan i with | .ok b => b | .error _ => false)
    else .ok (l.countP fun i => vo.eq i value)

/-- `equals(other_Array)` (array_.py:450-457). -/
def equals (c : Codec V) (d : Bits) (c2 : Codec V) (d2 : Bits) : Bool :=
  if c.L ≠ c2.L then false else if c.name ≠ c2.name then false else if d ≠ d2 then false else true

/-- `__copy__` (array_.py:478-481). -/
def copy (d : Bits) : Bits := d

/-- `Array(dtype, iterable, trailing_bits)` / `Array(dtype, n)` / `Array(dtype, bits-or-bytes)`
    (array_.py:70-93). -/
inductive Init (V : Type) where
  | none
  | list (vals : List V)
  | count (n : Nat)
  | raw (bits : Bits)

def init (c : Codec V) (ini : Init V) (trail : Option Bits) : Except Err Bits :=
  let base : Except Err Bits :=
    match ini with
    | .none => .ok []
    | .list vals => let s := extendIter c [] vals; match s.res with | .ok _ => .ok s.data | .error e => .error e
    | .count n => .ok (List.replicate (n * c.w) false)
    | .raw b => .ok b
  match base, trail with
  | .error e, _ => .error e
  | .ok d, Option.none => .ok d
  | .ok d, some t => .ok (d ++ t)

/-- `astype(dtype)` (array_.py:271-274): `Array(dtype, self.tolist())`. -/
def astype (c : Codec V) (d : Bits) (c2 : Codec V) : Except Err Bits :=
  match tolist c d with
  | .error e => .error e
  | .ok l => init c2 (.list l) Option.none

/-- `_reversebytes(start, end)` (bits.py:1098-1101) on one group. -/
def revBytes (b : Bits) : Bits := ((chunks 8 b).reverse).flatten

/-- `byteswap()` (array_.py:329-338) → `BitArray.byteswap(itemsize // 8)` with `repeat=True`
    (bitarray_.py:514-572): every complete group of `8 * (L / 8)` bits is byte-reversed. -/
def byteswap (c : Codec V) (d : Bits) : Step Unit :=
  if c.w % 8 ≠ 0 then ⟨d, .error .value⟩ else
  let total := 8 * (c.w / 8)
  if total = 0 then ⟨d, .ok ()⟩ else
  ⟨(Py.rangeList total ((d.length : Int) + 1) total).foldl (fun acc pe =>
      let bs : Int := pe - total
      bsetSlice acc bs pe (revBytes (bslice acc (some bs) (some pe)))) d, .ok ()⟩

/-- `tobytes()` (array_.py:353-359): zero-padded to a byte boundary. -/
def tobytes (d : Bits) : Bits := d ++ List.replicate ((8 - d.length % 8) % 8) false

/-- `fromfile(f, n)` (array_.py:369-379); `nb` = the bits of the rest of the file. -/
def fromfile (c : Codec V) (d : Bits) (nb : Bits) (n : Option Int) : Step Unit :=
  if d.length % c.w ≠ 0 then ⟨d, .error .value⟩ else
  let maxItems : Int := (nb.length / c.w : Nat)
  let k : Int := match n with | Option.none => maxItems | some n => min n maxItems
  let d' := d ++ bslice nb (some 0) (some (k * c.w))
  match n with
  | some n => if k < n then ⟨d', .error (.internal "EOFError")⟩ else ⟨d', .ok ()⟩
  | Option.none => ⟨d', .ok ()⟩

/-! ### element-wise operators -/

/-- `except (CreationError, ZeroDivisionError, ValueError)` (array_.py:499, 520, 567). -/
def caught : Err → Bool
  | .value => true
  | .internal n => n == "ZeroDivisionError"
  | _ => false

/-- `new_array._create_element(op(v …))`: the operator's own exception or the build's. -/
def buildResult (cr : Codec V) (r : Except Err V) : Except Err Bits :=
  match r with
  | .error e => .error e
  | .ok x => createElement cr x

/-- The element loop of `_apply_op_to_all_elements(_inplace)` (array_.py:495-503 / 516-524):
    read item `i` with the source dtype, apply, build with the result dtype, count the failures. -/
def opLoop (c cr : Codec V) (f : V → Except Err V) (d : Bits) : List Nat → Bits → Nat → Except Err (Bits × Nat)
  | [], nd, fails => .ok (nd, fails)
  | i :: is, nd, fails =>
    match readAt c d (c.w * i) with
    | .error e => .error e
    | .ok v =>
      match buildResult cr (f v) with
      | .ok b => opLoop c cr f d is (nd ++ b) fails
      | .error e => if caught e then opLoop c cr f d is nd (fails + 1) else .error e

/-- `_apply_op_to_all_elements` (array_.py:483-508): a new Array of dtype `cr` (`bool` for comparisons). -/
def applyOp (c cr : Codec V) (f : V → Except Err V) (d : Bits) : Except Err Bits :=
  match opLoop c cr f d (List.range (len c d)) [] 0 with
  | .error e => .error e
  | .ok (nd, fails) => if fails ≠ 0 then .error .value else .ok nd

/-- `_apply_op_to_all_elements_inplace` (array_.py:510-529): build everything, then assign `self.data`. -/
def applyOpInplace (c : Codec V) (f : V → Except Err V) (d : Bits) : Step Unit :=
  match applyOp c c f d with
  | .error e => ⟨d, .error e⟩
  | .ok nd => ⟨nd, .ok ()⟩

/-- `_apply_bitwise_op_to_all_elements_inplace` (array_.py:537-544). -/
def bitwiseInplace (c : Codec V) (op : Bool → Bool → Bool) (d : Bits) (value : Bits) : Step Unit :=
  if value.length ≠ c.w then ⟨d, .error .value⟩ else
  ⟨(Py.rangeList 0 ((len c d * c.w : Nat) : Int) c.w).foldl (fun acc s =>
      bsetSlice acc s (s + c.w) (List.zipWith op (bslice acc (some s) (some (s + c.w))) value)) d, .ok ()⟩

/-- `_apply_bitwise_op_to_all_elements` (array_.py:531-535): `a_copy = self[:]`, then in place on the copy. -/
def bitwise (c : Codec V) (op : Bool → Bool → Bool) (d : Bits) (value : Bits) : Except Err Bits :=
  match getSlice c d none none none with
  | .error e => .error e
  | .ok cp =>
    let s := bitwiseInplace c op cp value
    match s.res with
    | .ok _ => .ok s.data
    | .error e => .error e

/-- The element loop of `_apply_op_between_arrays` (array_.py:562-571). -/
def opLoop2 (c1 c2 cr : Codec V) (f : V → V → Except Err V) (d1 d2 : Bits) :
    List Nat → Bits → Nat → Except Err (Bits × Nat)
  | [], nd, fails => .ok (nd, fails)
  | i :: is, nd, fails =>
    match readAt c1 d1 (c1.w * i) with
    | .error e => .error e
    | .ok a =>
      match readAt c2 d2 (c2.w * i) with
      | .error e => .error e
      | .ok b =>
        match buildResult cr (f a b) with
        | .ok x => opLoop2 c1 c2 cr f d1 d2 is (nd ++ x) fails
        | .error e => if caught e then opLoop2 c1 c2 cr f d1 d2 is nd (fails + 1) else .error e

/-- `_apply_op_between_arrays` (array_.py:546-576); `cr` = the promoted dtype, or `bool`. -/
def betweenArrays (c1 c2 cr : Codec V) (f : V → V → Except Err V) (d1 d2 : Bits) : Except Err Bits :=
  if len c1 d1 ≠ len c2 d2 then .error .value else
  match opLoop2 c1 c2 cr f d1 d2 (List.range (len c1 d1)) [] 0 with
  | .error e => .error e
  | .ok (nd, fails) => if fails ≠ 0 then .error .value else .ok nd

/-- `__rsub__` (array_.py:732-736): `i - A` element by element (`frsub v = i - v`). -/
def rsub (c : Codec V) (frsub : V → Except Err V) (d : Bits) : Except Err Bits := applyOp c c frsub d

/-- `_eq_ne` with an Array operand (array_.py:771-777): straight to the element-wise comparison into `bool`. -/
def eqNeArrays (c cb : Codec V) (f : V → V → Except Err V) (d : Bits) (c2 : Codec V) (d2 : Bits) : Except Err Bits :=
  betweenArrays c c2 cb f d d2

end

/-! ## Histories: the operations of the property as data, the Array step (ALG) and the list step (SPEC) -/

inductive Op (V : Type) where
  | len | get (i : Int) | getSlice (s e st : Option Int) | set (i : Int) (v : V)
  | setSlice (s e st : Option Int) (vals : List V) | del (i : Int) | delSlice (s e st : Option Int)
  | append (v : V) | extend (vals : List V) | insert (i : Int) (v : V) | pop (i : Int) | reverse
  | count (v : V) | iter | tolist

/-- What one step lets the caller see. A returned Array (slice) is seen through its `tolist()`. -/
inductive Obs (V : Type) where
  | none | nat (n : Nat) | val (v : V) | list (l : List V)

def unitObs {V} (s : Step Unit) : Step (Obs V) :=
  ⟨s.data, match s.res with | .ok _ => .ok .none | .error e => .error e⟩

/-- ALG: one operation on the Array's data. -/
def arrStep {V} (c : Codec V) (vo : ValOps V) : Op V → Bits → Step (Obs V)
  | .len, d => ⟨d, .ok (.nat (len c d))⟩
  | .get i, d => ⟨d, match getItem c d i with | .ok v => .ok (.val v) | .error e => .error e⟩
  | .getSlice s e st, d =>
    ⟨d, match getSlice c d s e st with
        | .error e => .error e
        | .ok r => match tolist c r with | .ok l => .ok (.list l) | .error e => .error e⟩
  | .set i v, d => unitObs (setItem c d i v)
  | .setSlice s e st vals, d => unitObs (setSlice c d s e st vals)
  | .del i, d => unitObs (delItem c d i)
  | .delSlice s e st, d => unitObs (delSlice c d s e st)
  | .append v, d => unitObs (append c d v)
  | .extend vals, d => unitObs (extendIter c d vals)
  | .insert i v, d => unitObs (insert c d i v)
  | .pop i, d => let r := pop c d i; ⟨r.data, match r.res with | .ok v => .ok (.val v) | .error e => .error e⟩
  | .reverse, d => unitObs (reverse c d)
  | .count v, d => ⟨d, match count c vo d v with | .ok n => .ok (.nat n) | .error e => .error e⟩
  | .iter, d => ⟨d, match iter c d with | .ok l => .ok (.list l) | .error e => .error e⟩
  | .tolist, d => ⟨d, match tolist c d with | .ok l => .ok (.list l) | .error e => .error e⟩

/-- "The value fits the dtype". -/
def fits {V} (c : Codec V) (v : V) : Bool := match c.enc v with | .ok _ => true | .error _ => false

/-- The state of the list model: a Python list and the trailing bits. -/
structure LState (V : Type) where
  l : List V
  t : Bits

def lmut {V} (s : LState V) (r : Except Err (List V)) : LState V × Except Err (Obs V) :=
  match r with
  | .ok l' => (⟨l', s.t⟩, .ok .none)
  | .error e => (s, .error e)

/-- SPEC: the same operation on a Python list; the trailing bits never change; a value that does not fit raises
    and changes nothing; appending / extending / reversing need an empty `trailing_bits` (doc/array.rst). -/
def listStep {V} (c : Codec V) (vo : ValOps V) : Op V → LState V → LState V × Except Err (Obs V)
  | .len, s => (s, .ok (.nat s.l.length))
  | .get i, s => (s, match Py.getIndex s.l i with | .ok v => .ok (.val v) | .error e => .error e)
  | .getSlice a b st, s => (s, match Py.getSlice s.l a b st with | .ok r => .ok (.list r) | .error e => .error e)
  | .set i v, s => if fits c v then lmut s (PyL.setIndex s.l i v) else (s, .error .value)
  | .setSlice a b st vals, s => if vals.all (fits c) then lmut s (PyL.setSlice s.l a b st vals) else (s, .error .value)
  | .del i, s => lmut s (PyL.delIndex s.l i)
  | .delSlice a b st, s => lmut s (PyL.delSlice s.l a b st)
  | .append v, s => if s.t ≠ [] then (s, .error .value) else if fits c v then (⟨s.l ++ [v], s.t⟩, .ok .none) else (s, .error .value)
  | .extend vals, s => if s.t ≠ [] then (s, .error .value) else
      if vals.all (fits c) then (⟨s.l ++ vals, s.t⟩, .ok .none) else (s, .error .value)
  | .insert i v, s => if fits c v then (⟨PyL.insert s.l i v, s.t⟩, .ok .none) else (s, .error .value)
  | .pop i, s => match PyL.pop s.l i with
      | .ok (x, l') => (⟨l', s.t⟩, .ok (.val x))
      | .error e => (s, .error e)
  | .reverse, s => if s.t ≠ [] then (s, .error .value) else (⟨s.l.reverse, s.t⟩, .ok .none)
  | .count v, s => (s, .ok (.nat (s.l.countP fun i => vo.eq i v)))
  | .iter, s => (s, .ok (.list s.l))
  | .tolist, s => (s, .ok (.list s.l))

/-- Same return value, or both raise (the property names no exception classes). -/
def sameOutcome {α} (a b : Except Err α) : Prop :=
  match a, b with
  | .ok x, .ok y => x = y
  | .error _, .error _ => True
  | _, _ => False

/-- Operations on which the property fixes the behaviour: for multi-value mutators every value fits (otherwise the
    property does not say how much was stored before the exception); `count(nan)` is the documented special case
    ("counts the NaN items"), not `list.count`. -/
def admissible {V} (c : Codec V) (vo : ValOps V) : Op V → Bool
  | .count v => match vo.isnan v with | .ok true => false | _ => true
  | .setSlice _ _ _ vals => vals.all (fits c)
  | .extend vals => vals.all (fits c)
  | _ => true

/-- Run a history on the Array (ALG). -/
def arrRun {V} (c : Codec V) (vo : ValOps V) : List (Op V) → Bits → Bits × List (Except Err (Obs V))
  | [], d => (d, [])
  | op :: ops, d =>
    let r := arrStep c vo op d
    let rest := arrRun c vo ops r.data
    (rest.1, r.res :: rest.2)

/-- Run the same history on the list model (SPEC). -/
def listRun {V} (c : Codec V) (vo : ValOps V) : List (Op V) → LState V → LState V × List (Except Err (Obs V))
  | [], s => (s, [])
  | op :: ops, s =>
    let r := listStep c vo op s
    let rest := listRun c vo ops r.1
    (rest.1, r.2 :: rest.2)

/-- Every operation of the history is admissible in the state in which it runs. -/
def admissibleRun {V} (c : Codec V) (vo : ValOps V) : List (Op V) → Bits → Bool
  | [], _ => true
  | op :: ops, d => admissible c vo op && admissibleRun c vo ops (arrStep c vo op d).data

def Admissible {V} (c : Codec V) (vo : ValOps V) (ops : List (Op V)) (d : Bits) : Prop :=
  admissibleRun c vo ops d = true

/-! ### type promotion -/

/-- What `_promotetype` reads of a dtype. -/
structure DT where
  name : String
  L : Nat
  rt : RT
  signed : Bool
  deriving Repr, DecidableEq

def Codec.dt {V} (c : Codec V) : DT := ⟨c.name, c.L, c.rt, c.signed⟩

def DT.isFloat (t : DT) : Bool := t.rt == .float
def DT.isInt (t : DT) : Bool := t.rt == .int || t.rt == .bool

/-- ALG: `_promotetype` (array_.py:578-609), branch by branch. -/
def promote (t1 t2 : DT) : Except Err DT :=
  if (t1.isFloat.toNat + t1.isInt.toNat + t2.isFloat.toNat + t2.isInt.toNat) ≠ 2 then .error .value else
  if t1.name = t2.name then .ok (if t1.L > t2.L then t1 else t2) else
  if t1.isFloat ∧ t2.isInt then .ok t1 else
  if t1.isInt ∧ t2.isFloat then .ok t2 else
  if t1.isFloat ∧ t2.isFloat then .ok (if t2.L > t1.L then t2 else t1) else
  if t1.signed ∧ ¬ t2.signed then .ok t1 else
  if t2.signed ∧ ¬ t1.signed then .ok t2 else
  .ok (if t2.L > t1.L then t2 else t1)

/-- SPEC: the documented rules (doc/array.rst "Type promotion", docstring of `_promotetype`), applied in order:
    only numeric dtypes; floats beat integers; signed beats unsigned; longer beats shorter; tie → first. -/
def promoteSpec (t1 t2 : DT) : Except Err DT :=
  if ¬ ((t1.isFloat ∨ t1.isInt) ∧ (t2.isFloat ∨ t2.isInt)) then .error .value else
  if t1.isFloat ∧ ¬ t2.isFloat then .ok t1 else
  if t2.isFloat ∧ ¬ t1.isFloat then .ok t2 else
  if ¬ t1.isFloat ∧ t1.signed ∧ ¬ t2.signed then .ok t1 else
  if ¬ t1.isFloat ∧ t2.signed ∧ ¬ t1.signed then .ok t2 else
  if t2.L > t1.L then .ok t2 else .ok t1

/-! ## Driver: concrete value universe and codecs -/

/-- Values on the wire: Python ints (for the integer dtypes and `bool`), an item given by its encoding
    (floats, hex/bin/oct strings, bytes, bits — compared by their bits), or a value the dtype rejects. -/
inductive Val where
  | int (i : Int)
  | raw (b : Bits)
  | bad
  deriving Repr, DecidableEq, Inhabited

inductive Kind where
  | u | i | ule | ile | raw
  deriving Repr, DecidableEq

def encVal (k : Kind) (w : Nat) : Val → Except Err Bits
  | .int i =>
    match k with
    | .u => if 0 ≤ i ∧ i < (2 : Int) ^ w then .ok (natToBits w i.toNat) else .error .value
    | .i => if w = 0 then .error .value else
            if -((2 : Int) ^ (w - 1)) ≤ i ∧ i < (2 : Int) ^ (w - 1) then .ok (intToBits w i) else .error .value
    | .ule => if w % 8 ≠ 0 then .error .value else
              if 0 ≤ i ∧ i < (2 : Int) ^ w then .ok (revBytes (natToBits w i.toNat)) else .error .value
    | .ile => if w % 8 ≠ 0 ∨ w = 0 then .error .value else
              if -((2 : Int) ^ (w - 1)) ≤ i ∧ i < (2 : Int) ^ (w - 1) then .ok (revBytes (intToBits w i)) else .error .value
    | .raw => .error .value
  | .raw b => match k with
    | .raw => if b.length = w then .ok b else .error .value
    | _ => .error .value
  | .bad => .error .value

def decVal (k : Kind) (b : Bits) : Val :=
  match k with
  | .u => .int (bitsToNat b)
  | .i => .int (bitsToInt b)
  | .ule => .int (bitsToNat (revBytes b))
  | .ile => .int (bitsToInt (revBytes b))
  | .raw => .raw b

def mkCodec (k : Kind) (name : String) (L mult : Nat) (rt : RT) (signed : Bool) : Codec Val :=
  { name, L, mult, rt, signed, enc := encVal k (L * mult), dec := decVal k }

def boolCodec : Codec Val := mkCodec .u "bool" 1 1 .bool false

def valOps (c : Codec Val) : ValOps Val :=
  { isnan := fun _ => if c.rt == .other then .error .type else .ok false,
    eq := fun a b => a == b }

/-! ### Python arithmetic on ints -/

def zdiv : Err := .internal "ZeroDivisionError"

def pyBin (op : String) (a b : Int) : Except Err Val :=
  match op with
  | "add" => .ok (.int (a + b))
  | "sub" => .ok (.int (a - b))
  | "mul" => .ok (.int (a * b))
  | "floordiv" => if b = 0 then .error zdiv else .ok (.int (Int.fdiv a b))
  | "mod" => if b = 0 then .error zdiv else .ok (.int (Int.fmod a b))
  | "lshift" => if b < 0 then .error .value else .ok (.int (a * (2 : Int) ^ b.toNat))
  | "rshift" => if b < 0 then .error .value else .ok (.int (Int.fdiv a ((2 : Int) ^ b.toNat)))
  | "lt" => .ok (.int (if a < b then 1 else 0))
  | "le" => .ok (.int (if a ≤ b then 1 else 0))
  | "gt" => .ok (.int (if a > b then 1 else 0))
  | "ge" => .ok (.int (if a ≥ b then 1 else 0))
  | "eq" => .ok (.int (if a = b then 1 else 0))
  | "ne" => .ok (.int (if a ≠ b then 1 else 0))
  | _ => .error (.internal "bad-op")

/-- Lexicographic order on bit lists (`False < True`, a proper prefix is smaller): the order of Python `bytes`, and of
    hex / bin / oct strings of one kind, through their encodings. -/
def bitsLt : Bits → Bits → Bool
  | [], [] => false
  | [], _ :: _ => true
  | _ :: _, [] => false
  | x :: xs, y :: ys => if x = y then bitsLt xs ys else (!x && y)

def pyBinV (op : String) (a b : Val) : Except Err Val :=
  match a, b with
  | .int x, .int y => pyBin op x y
  | .raw x, .raw y =>                       -- str / bytes items of one kind: equality and lexicographic order
    match op with
    | "eq" => .ok (.int (if x = y then 1 else 0))
    | "ne" => .ok (.int (if x ≠ y then 1 else 0))
    | "lt" => .ok (.int (if bitsLt x y then 1 else 0))
    | "le" => .ok (.int (if bitsLt y x then 0 else 1))
    | "gt" => .ok (.int (if bitsLt y x then 1 else 0))
    | "ge" => .ok (.int (if bitsLt x y then 0 else 1))
    | _ => .error .type
  | .int _, .raw _ | .raw _, .int _ =>      -- a number never equals a str / bytes / Bits item; ordering raises
    match op with
    | "eq" => .ok (.int 0)
    | "ne" => .ok (.int 1)
    | _ => .error .type
  | _, _ => .error .type

def pyUn (op : String) (a : Val) : Except Err Val :=
  match a with
  | .int x => match op with
    | "neg" => .ok (.int (-x))
    | "abs" => .ok (.int (if x < 0 then -x else x))
    | _ => .error (.internal "bad-op")
  | _ => .error .type

def isCmp (op : String) : Bool := op ∈ ["lt", "le", "gt", "ge", "eq", "ne"]

/-! ### wire format -/

def splitC (s : String) (sep : String) : List String := if s = "" then [] else s.splitOn sep

def valOfStr? (s : String) : Option Val :=
  if s = "!" then some .bad
  else if s.startsWith "#" then (bitsOfStr? ((s.drop 1).toString)).map .raw
  else if s = "#" then some (.raw [])
  else s.toInt?.map .int

def valsOfStr? (s : String) : Option (List Val) := (splitC s ",").mapM valOfStr?

def valToStr : Val → String
  | .int i => toString i
  | .raw b => "#" ++ bitsToStr b
  | .bad => "!"

def valsToStr (l : List Val) : String := ",".intercalate (l.map valToStr)

def kindOfStr? : String → Option Kind
  | "u" => some .u | "i" => some .i | "ule" => some .ule | "ile" => some .ile | "raw" => some .raw | _ => none

def rtOfStr? : String → Option RT
  | "int" => some .int | "bool" => some .bool | "float" => some .float | "other" => some .other | _ => none

/-- `token/kind/name/L/mult/rt/signed`. -/
def codecOfStr? (s : String) : Option (Codec Val) :=
  match s.splitOn "/" with
  | [_, k, name, l, m, rt, sg] =>
    match kindOfStr? k, l.toNat?, m.toNat?, rtOfStr? rt with
    | some k, some l, some m, some rt => some (mkCodec k name l m rt (sg == "1"))
    | _, _, _, _ => none
  | _ => none

def dtStr (c : Codec Val) : String := c.name ++ "." ++ toString c.L

def optBitsOfStr? (s : String) : Option (Option Bits) :=
  if s = "None" then some none else (bitsOfStr? s).map some

def initOfStr? (s : String) : Option (Init Val) :=
  if s = "-" then some .none
  else if s.startsWith "L:" then (valsOfStr? ((s.drop 2).toString)).map .list
  else if s.startsWith "N:" then ((s.drop 2).toString.toNat?).map .count
  else if s.startsWith "B:" then (bitsOfStr? ((s.drop 2).toString)).map .raw
  else none

/-- One step of a history. `none` = malformed. The Bool says "stop here" (a multi-value mutator failed: the
    property does not fix the state it leaves, so it is not observed). -/
abbrev St := Arr Val

def arrTok (c : Codec Val) (r : Except Err Bits) : String :=
  match r with
  | .ok b => "a:" ++ dtStr c ++ ":" ++ bitsToWire b
  | .error _ => "e"

def unitTok (r : Except Err Unit) : String := match r with | .ok _ => "-" | .error _ => "e"

def scalarFn (op : String) (k : Val) (refl : Bool) : Val → Except Err Val :=
  fun v => if refl then pyBinV op k v else pyBinV op v k

def stepOp (s : St) (f : List String) : Option (String × St × Bool) :=
  let c := s.c
  let d := s.d
  let mut1 (r : Step Unit) : Option (String × St × Bool) := some (unitTok r.res, ⟨c, r.data⟩, false)
  let mutMulti (r : Step Unit) : Option (String × St × Bool) :=
    match r.res with
    | .ok _ => some ("-", ⟨c, r.data⟩, false)
    | .error _ => some ("e", ⟨c, r.data⟩, true)
  match f with
  | ["len"] => some ("n:" ++ toString (len c d), s, false)
  | ["get", i] => i.toInt?.map fun i =>
      ((match getItem c d i with | .ok v => "v:" ++ valToStr v | .error _ => "e"), s, false)
  | ["sl", a, b, st] =>
    match optIntOfStr? a, optIntOfStr? b, optIntOfStr? st with
    | some a, some b, some st => some (arrTok c (getSlice c d a b st), s, false)
    | _, _, _ => none
  | ["set", i, v] =>
    match i.toInt?, valOfStr? v with
    | some i, some v => mut1 (setItem c d i v)
    | _, _ => none
  | "ssl" :: a :: b :: st :: vs :: _ =>
    match optIntOfStr? a, optIntOfStr? b, optIntOfStr? st, valsOfStr? vs with
    | some a, some b, some st, some vs => mutMulti (setSlice c d a b st vs)
    | _, _, _, _ => none
  | ["ssla", a, b, st, dt, vs, tr] =>
    -- the right-hand side is another Array: its items (not its data) are assigned
    match optIntOfStr? a, optIntOfStr? b, optIntOfStr? st, codecOfStr? dt, valsOfStr? vs, optBitsOfStr? tr with
    | some a, some b, some st, some c2, some vs, some tr =>
      match init c2 (.list vs) tr with
      | .error _ => none
      | .ok d2 =>
        match tolist c2 d2 with
        | .error _ => none
        | .ok its => mutMulti (setSlice c d a b st its)
    | _, _, _, _, _, _ => none
  | ["sslself", a, b, st] =>
    match optIntOfStr? a, optIntOfStr? b, optIntOfStr? st with
    | some a, some b, some st => mutMulti (setSliceSelf c d a b st)
    | _, _, _ => none
  | ["cntv", _, mode, set] =>
    -- count(value) for a Python value given literally; the equality (mode v) / NaN-ness (mode n) of the items at hand
    -- with that value is supplied as a set of item values (float and str comparison are not modelled)
    (valsOfStr? set).map fun set =>
      let vo : ValOps Val :=
        { isnan := fun v => if v == .bad then .ok (mode == "n") else
                             if c.rt == .other then .error .type else .ok (mode == "n" && set.contains v),
          eq := fun i _ => set.contains i }
      ((match count c vo d .bad with | .ok n => "n:" ++ toString n | .error _ => "e"), s, false)
  | ["del", i] => i.toInt?.bind fun i => mut1 (delItem c d i)
  | ["dsl", a, b, st] =>
    match optIntOfStr? a, optIntOfStr? b, optIntOfStr? st with
    | some a, some b, some st => mut1 (delSlice c d a b st)
    | _, _, _ => none
  | ["app", v] => (valOfStr? v).bind fun v => mut1 (append c d v)
  | "ext" :: vs :: _ => (valsOfStr? vs).bind fun vs => mutMulti (extendIter c d vs)
  | ["exta", dt, vs, tr] =>
    match codecOfStr? dt, valsOfStr? vs, optBitsOfStr? tr with
    | some c2, some vs, some tr =>
      match init c2 (.list vs) tr with
      | .ok d2 => mut1 (extendArr c d c2 d2)
      | .error _ => none
    | _, _, _ => none
  | ["extself"] => mut1 (extendArr c d c d)
  | "extb" :: _ :: name2 :: _ :: native :: raw :: _ =>
    match bitsOfStr? raw, native.toNat? with
    | some raw, some native =>
      if name2 = "None" then mut1 (extendBuf c d none native raw)
      else mut1 (extendBuf c d (some name2) native raw)
    | _, _ => none
  | ["ins", i, v] =>
    match i.toInt?, valOfStr? v with
    | some i, some v => mut1 (insert c d i v)
    | _, _ => none
  | ["pop", i] => i.toInt?.map fun i =>
      let r := pop c d i
      ((match r.res with | .ok v => "v:" ++ valToStr v | .error _ => "e"), ⟨c, r.data⟩, false)
  | ["pop"] =>
      let r := pop c d (-1)
      some ((match r.res with | .ok v => "v:" ++ valToStr v | .error _ => "e"), ⟨c, r.data⟩, false)
  | ["rev"] => mut1 (reverse c d)
  | ["cnt", v] => (valOfStr? v).map fun v =>
      ((match count c (valOps c) d v with | .ok n => "n:" ++ toString n | .error _ => "e"), s, false)
  | ["list"] => some ((match tolist c d with | .ok l => "l:" ++ valsToStr l | .error _ => "e"), s, false)
  | ["iter"] => some ((match iter c d with | .ok l => "l:" ++ valsToStr l | .error _ => "e"), s, false)
  | ["copy"] => some (arrTok c (.ok (copy d)), s, false)
  | ["eqs", dt, vs, tr] =>
    match codecOfStr? dt, valsOfStr? vs, optBitsOfStr? tr with
    | some c2, some vs, some tr =>
      match init c2 (.list vs) tr with
      | .ok d2 => some ("b:" ++ (if equals c d c2 d2 then "1" else "0"), s, false)
      | .error _ => none
    | _, _, _ => none
  | ["dtype", dt] => (codecOfStr? dt).map fun c2 =>
      let r := s.setDtype? c2
      (unitTok r.2, r.1, false)
  | ["astype", dt] => (codecOfStr? dt).map fun c2 =>
      if c2.valid then (arrTok c2 (astype c d c2), s, false) else ("e", s, false)
  | ["bswap"] => mut1 (byteswap c d)
  | ["tobytes"] => some ("x:" ++ bitsToWire (tobytes d), s, false)
  | ["ff", nb, n] =>
    match bitsOfStr? nb, optIntOfStr? n with
    | some nb, some n => mutMulti (fromfile c d nb n)
    | _, _ => none
  -- element-wise operators with an int scalar
  | ["op", op, k] => (valOfStr? k).map fun k =>
      let cr := if isCmp op then boolCodec else c
      (arrTok cr (applyOp c cr (scalarFn op k false) d), s, false)
  | ["rop", op, k] => (valOfStr? k).map fun k =>
      if op = "sub" then
        -- __rsub__ (array_.py:732-736): k - item, element by element
        (arrTok c (rsub c (scalarFn "sub" k true) d), s, false)
      else (arrTok c (applyOp c c (scalarFn op k false) d), s, false)
  | ["iop", op, k] => (valOfStr? k).bind fun k => mut1 (applyOpInplace c (scalarFn op k false) d)
  | ["uop", op] => some (arrTok c (applyOp c c (pyUn op) d), s, false)
  | "bop" :: op :: v :: _ =>
    (bitsOfStr? v).bind fun v =>
      let f : Option (Bool → Bool → Bool) := match op with
        | "and" => some (· && ·) | "or" => some (· || ·) | "xor" => some (fun x y => x != y) | _ => none
      f.map fun f => (arrTok c (bitwise c f d v), s, false)
  | ["ibop", op, v] =>
    (bitsOfStr? v).bind fun v =>
      let f : Option (Bool → Bool → Bool) := match op with
        | "and" => some (· && ·) | "or" => some (· || ·) | "xor" => some (fun x y => x != y) | _ => none
      f.bind fun f => mut1 (bitwiseInplace c f d v)
  | ["aop", op, dt, vs, tr] =>
    match codecOfStr? dt, valsOfStr? vs, optBitsOfStr? tr with
    | some c2, some vs, some tr =>
      match init c2 (.list vs) tr with
      | .error _ => none
      | .ok d2 =>
        if op = "eq" ∨ op = "ne" then
          some (arrTok boolCodec (eqNeArrays c boolCodec (pyBinV op) d c2 d2), s, false)
        else if isCmp op then
          some (arrTok boolCodec (betweenArrays c c2 boolCodec (pyBinV op) d d2), s, false)
        else
          match promote c.dt c2.dt with
          | .error _ => some ("e", s, false)
          | .ok t =>
            let cr := if t = c.dt then c else c2
            some (arrTok cr (betweenArrays c c2 cr (pyBinV op) d d2), s, false)
    | _, _, _ => none
  | ["iaop", op, dt, vs, tr] =>
    -- `a op= b` with an Array operand: `__iadd__` returns a *new* Array, the name is rebound to it
    match codecOfStr? dt, valsOfStr? vs, optBitsOfStr? tr with
    | some c2, some vs, some tr =>
      match init c2 (.list vs) tr with
      | .error _ => none
      | .ok d2 =>
        match promote c.dt c2.dt with
        | .error _ => some ("e", s, false)
        | .ok t =>
          let cr := if t = c.dt then c else c2
          match betweenArrays c c2 cr (pyBinV op) d d2 with
          | .error _ => some ("e", s, false)
          | .ok nd => some ("-", ⟨cr, nd⟩, false)
    | _, _, _ => none
  | ["eql", op, vs] =>
    -- `a == [list]`: `Array(self.dtype, list)` (may raise), then element-wise
    (valsOfStr? vs).map fun vs =>
      match init c (.list vs) none with
      | .error _ => ("e", s, false)
      | .ok d2 => (arrTok boolCodec (betweenArrays c c boolCodec (pyBinV op) d d2), s, false)
  -- element-wise operator given by its graph on the items (float dtypes: Python float arithmetic and the
  -- IEEE rounding of the result are not modelled; the harness computes the graph with an independent encoder)
  | ["opt", _, _, dtr, tab] =>
    match codecOfStr? dtr with
    | none => none
    | some cr =>
      let entries := (splitC tab ",").mapM fun e =>
        match e.splitOn ">" with
        | [a, b] => match valOfStr? a, valOfStr? b with
          | some a, some b => some (a, b)
          | _, _ => none
        | _ => none
      entries.map fun tbl =>
        let f : Val → Except Err Val := fun v => match tbl.lookup v with
          | some .bad => .error .value
          | some r => .ok r
          | none => .error (.internal "table")
        (arrTok cr (applyOp c cr f d), s, false)
  | ["iopt", _, _, tab] =>
    let entries := (splitC tab ",").mapM fun e =>
      match e.splitOn ">" with
      | [a, b] => match valOfStr? a, valOfStr? b with
        | some a, some b => some (a, b)
        | _, _ => none
      | _ => none
    entries.bind fun tbl =>
      let f : Val → Except Err Val := fun v => match tbl.lookup v with
        | some .bad => .error .value
        | some r => .ok r
        | none => .error (.internal "table")
      mut1 (applyOpInplace c f d)
  | _ => none

def finalTok (s : St) : String :=
  "F:" ++ (match tolist s.c s.d with | .ok l => valsToStr l | .error _ => "e") ++ "|" ++ toString (len s.c s.d)
    ++ "|" ++ bitsToWire (trailingBits s.c s.d) ++ "|" ++ dtStr s.c

def runOps : List String → St → List String → Option (List String)
  | [], s, acc => some ((finalTok s :: acc).reverse)
  | o :: os, s, acc =>
    match stepOp s (o.splitOn ":") with
    | none => none
    | some (tok, s', stop) =>
      if stop then some ((tok :: acc).reverse)
      else runOps os s' ((tok ++ "|" ++ bitsToWire s'.d) :: acc)

def dtOfStr? (s : String) : Option DT := (codecOfStr? s).map Codec.dt

def handle (args : List String) : String :=
  match args with
  | "hist" :: dt :: ini :: tr :: ops =>
    match codecOfStr? dt, initOfStr? ini, optBitsOfStr? tr with
    | some c, some ini, some tr =>
      if !c.valid then "err" else
      match init c ini tr with
      | .error _ => "err"
      | .ok d =>
        match runOps ops ⟨c, d⟩ ["I|" ++ bitsToWire d] with
        | some toks => "ok " ++ " ".intercalate toks
        | none => "bad-op"
    | _, _, _ => "bad-op"
  | "promo" :: a :: b :: _ =>
    match dtOfStr? a, dtOfStr? b with
    | some t1, some t2 =>
      match promote t1 t2 with
      | .ok t => "ok " ++ t.name ++ "." ++ toString t.L
      | .error _ => "err"
    | _, _ => "bad-op"
  | _ => "bad-op"

end BM.C14
