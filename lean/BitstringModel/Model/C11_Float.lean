/-
  Model/C11_Float.lean — the table-free part of C11: the float runtime and the codecs that use no table
  (e8m0mxfp, mxint8, bfloat).  Imports no generated file, so the kernel enumerations over these codecs
  (Proofs/C11_Num_*.lean) are independent of bitstring/luts.py.

  ALG  * the float runtime the code relies on — `struct.pack('>e'/'>f')`, `struct.unpack`, float64 `*`, `/`, `+`, `-`,
         comparisons, `int()`, `float(int)` — modelled by its IEEE-754 meaning: exact result, then `roundBits`
         (round to nearest, ties to even).  That part is trusted (CPython/C runtime), not verified;
       * `e8m0Enc`/`e8m0Dec` (bitstore_helpers.py:174-185, bits.py:800-804), `mxintEnc`/`mxintDec`
         (bitstore_helpers.py:188-200, bits.py:806-808), `bfloatEnc`/`bfloatDec` (bitstore_helpers.py:109-117, bits.py:833-849).
  SPEC * `e8m0Spec`, `mxintDecSpec`, `IsNearestEvenInt`/`rneDiv`/`mxintCodeSpec`, `ieeeNarrow` (IEEE conversion).
-/
import BitstringModel.Model.Basic
import BitstringModel.Model.C11_Spec
namespace BM.C11

deriving instance DecidableEq for Except

/-! ## IEEE rounding of an exact value (round to nearest, ties to even) — the float runtime -/

/-- Binary search for the bit length: `log2b k n acc = acc + ⌊log₂ n⌋` for `0 < n < 2^(2^k)`. -/
def log2b : Nat → Nat → Nat → Nat
  | 0, _, acc => acc
  | k + 1, n, acc => if 2 ^ (2 ^ k) ≤ n then log2b k (n / 2 ^ (2 ^ k)) (acc + 2 ^ k) else log2b k n acc

/-- `⌊log₂ n⌋` (`= Nat.log2 n`; computed in 13 big-number steps below 2^8192, which covers every product,
    quotient and sum of two float64 values — `Nat.log2` itself is evaluated bit by bit by the Lean kernel). -/
def ilog2 (n : Nat) : Nat := if n < 2 ^ 8192 then log2b 13 n 0 else Nat.log2 n

/-- `⌊log₂ (num/den)⌋` for `num, den > 0`. -/
def ratLog2 (num den : Nat) : Int :=
  let e0 : Int := (ilog2 num : Int) - (ilog2 den : Int)
  let ge : Bool := if e0 ≥ 0 then decide (den * 2 ^ e0.toNat ≤ num) else decide (den ≤ num * 2 ^ (-e0).toNat)
  if ge then e0 else e0 - 1

/-- Round `num/den > 0` to nearest-even in the format; the result is the magnitude bit pattern (exponent and
    mantissa fields together); a result `≥ (2^ebits − 1)·2^mbits` means the rounded value is out of range. -/
def roundMag (ebits mbits num den : Nat) : Nat :=
  let bias : Int := 2 ^ (ebits - 1) - 1
  let emin : Int := 1 - bias
  let e := ratLog2 num den
  let ex := if e < emin then emin else e
  let sh : Int := (mbits : Int) - ex                 -- the quantum is 2^(ex − mbits)
  let n := if sh ≥ 0 then num * 2 ^ sh.toNat else num
  let d := if sh ≥ 0 then den else den * 2 ^ (-sh).toNat
  let q := n / d
  let r := n % d
  let q' := if 2 * r < d then q else if d < 2 * r then q + 1 else q + q % 2
  (ex - emin).toNat * 2 ^ mbits + q'

/-- Bit pattern of the correctly rounded `(−1)^neg · num/den`; the flag says the magnitude overflowed (→ ±inf). -/
def roundBits (ebits mbits : Nat) (neg : Bool) (num den : Nat) : Nat × Bool :=
  let sgn := if neg then 2 ^ (ebits + mbits) else 0
  if num = 0 then (sgn, false) else
  let mag := roundMag ebits mbits num den
  let infp := (2 ^ ebits - 1) * 2 ^ mbits
  if infp ≤ mag then (sgn + infp, true) else (sgn + mag, false)

/-- `(−1)^neg · m · 2^e` as a fraction. -/
def dyadicNum (m : Nat) (e : Int) : Nat := if e ≥ 0 then m * 2 ^ e.toNat else m
def dyadicDen (e : Int) : Nat := if e ≥ 0 then 1 else 2 ^ (-e).toNat

def f64NaN : Nat := 0x7ff8000000000000
def f64Inf (neg : Bool) : Nat := (if neg then 2 ^ 63 else 0) + 0x7ff0000000000000
def f64OfRat (neg : Bool) (num den : Nat) : Nat := (roundBits 11 52 neg num den).1
def f64OfDyadic (neg : Bool) (m : Nat) (e : Int) : Nat := f64OfRat neg (dyadicNum m e) (dyadicDen e)
/-- `float(i)` for a Python int (correctly rounded; no OverflowError below 2^1024). -/
def f64OfInt (i : Int) : Nat := f64OfRat (decide (i < 0)) i.natAbs 1

def isNaN64 (b : Nat) : Bool := f64Val b == .nan

/-- float64 `a * b`. -/
def f64Mul (a b : Nat) : Nat :=
  match f64Val a, f64Val b with
  | .nan, _ => f64NaN
  | _, .nan => f64NaN
  | .inf s, .inf t => f64Inf (s != t)
  | .inf s, .fin t n _ => if n = 0 then f64NaN else f64Inf (s != t)
  | .fin s m _, .inf t => if m = 0 then f64NaN else f64Inf (s != t)
  | .fin s m e, .fin t n k => f64OfDyadic (s != t) (m * n) (e + k)

/-- float64 `a / b`; `none` = ZeroDivisionError. -/
def f64Div (a b : Nat) : Option Nat :=
  match f64Val a, f64Val b with
  | .nan, .fin _ 0 _ => none
  | .nan, _ => some f64NaN
  | _, .nan => some f64NaN
  | .inf _, .inf _ => some f64NaN
  | .inf s, .fin t n _ => if n = 0 then none else some (f64Inf (s != t))
  | .fin s _ _, .inf t => some (if s != t then 2 ^ 63 else 0)
  | .fin s m e, .fin t n k =>
    if n = 0 then none else
    let d := e - k
    some (if d ≥ 0 then f64OfRat (s != t) (m * 2 ^ d.toNat) n else f64OfRat (s != t) m (n * 2 ^ (-d).toNat))

def sgnMant (neg : Bool) (m : Nat) : Int := if neg then -(m : Int) else (m : Int)

/-- float64 `a + b`. -/
def f64Add (a b : Nat) : Nat :=
  match f64Val a, f64Val b with
  | .nan, _ => f64NaN
  | _, .nan => f64NaN
  | .inf s, .inf t => if s = t then f64Inf s else f64NaN
  | .inf s, .fin _ _ _ => f64Inf s
  | .fin _ _ _, .inf t => f64Inf t
  | .fin s m e, .fin t n k =>
    let x := if e ≤ k then e else k
    let sum : Int := sgnMant s (m * 2 ^ (e - x).toNat) + sgnMant t (n * 2 ^ (k - x).toNat)
    if sum = 0 then (if s && t then 2 ^ 63 else 0)
    else f64OfDyadic (decide (sum < 0)) sum.natAbs x

/-- float64 `a - b`. -/
def f64Sub (a b : Nat) : Nat :=
  f64Add a (if b / 2 ^ 63 % 2 = 1 then b - 2 ^ 63 else b + 2 ^ 63)

/-- Order of two exact values (`none` when either is NaN): python `<`, `==`, `>` on floats. -/
def FVal.cmp : FVal → FVal → Option Ordering
  | .nan, _ => none
  | _, .nan => none
  | .inf s, .inf t => some (if s = t then .eq else if s then .lt else .gt)
  | .inf s, .fin _ _ _ => some (if s then .lt else .gt)
  | .fin _ _ _, .inf t => some (if t then .gt else .lt)
  | .fin s m e, .fin t n k =>
    let x := if e ≤ k then e else k
    let a := sgnMant s (m * 2 ^ (e - x).toNat)
    let b := sgnMant t (n * 2 ^ (k - x).toNat)
    some (if a < b then .lt else if a = b then .eq else .gt)

def f64Gt (a b : Nat) : Bool := (f64Val a).cmp (f64Val b) == some .gt
def f64Ge (a b : Nat) : Bool := let c := (f64Val a).cmp (f64Val b); c == some .gt || c == some .eq
def f64Le (a b : Nat) : Bool := let c := (f64Val a).cmp (f64Val b); c == some .lt || c == some .eq
def f64Eq (a b : Nat) : Bool := (f64Val a).cmp (f64Val b) == some .eq

/-- `int(f)` for a finite float: truncation toward zero. -/
def f64Trunc (a : Nat) : Int :=
  match f64Val a with
  | .fin s m e => sgnMant s (if e ≥ 0 then m * 2 ^ e.toNat else m / 2 ^ (-e).toNat)
  | _ => 0

/-- `struct.pack('>e' | '>f', f)` (CPython `PyFloat_Pack2/4`): the binary16/binary32 pattern of the float64 `f`,
    `none` = OverflowError (a finite value that rounds out of range).  NaN keeps its sign and becomes a quiet NaN
    (the payload is not part of any observation). -/
def packIEEE (ebits mbits f : Nat) : Option Nat :=
  match f64Val f with
  | .nan => some ((if f / 2 ^ 63 % 2 = 1 then 2 ^ (ebits + mbits) else 0) + (2 ^ ebits - 1) * 2 ^ mbits + 2 ^ (mbits - 1))
  | .inf s => some ((if s then 2 ^ (ebits + mbits) else 0) + (2 ^ ebits - 1) * 2 ^ mbits)
  | .fin s m e =>
    let r := roundBits ebits mbits s (dyadicNum m e) (dyadicDen e)
    if r.2 then none else some r.1

/-- SPEC: IEEE-754 conversion of a float64 to the narrower format (out of range → ±inf). -/
def ieeeNarrow (ebits mbits f : Nat) : Nat :=
  match f64Val f with
  | .nan => (if f / 2 ^ 63 % 2 = 1 then 2 ^ (ebits + mbits) else 0) + (2 ^ ebits - 1) * 2 ^ mbits + 2 ^ (mbits - 1)
  | .inf s => (if s then 2 ^ (ebits + mbits) else 0) + (2 ^ ebits - 1) * 2 ^ mbits
  | .fin s m e => (roundBits ebits mbits s (dyadicNum m e) (dyadicDen e)).1

/-- `struct.unpack('>e' | '>f', …)` (`PyFloat_Unpack2/4`, the C conversion `(double) x`): widening is exact, so the fields
    are re-biased (normal numbers), re-normalised (subnormals) or copied (zero, inf; NaN stays a NaN).  That the result
    has exactly the value of the narrow pattern is checked on every bfloat code and every half-precision pattern
    (`bfloat_decode_ok`, `half_unpack_exact`). -/
def unpackIEEE (ebits mbits b : Nat) : Nat :=
  let sgn := b / 2 ^ (ebits + mbits) % 2 * 2 ^ 63
  let e := b / 2 ^ mbits % 2 ^ ebits
  let m := b % 2 ^ mbits
  let bias := 2 ^ (ebits - 1) - 1
  if e = 2 ^ ebits - 1 then (if m = 0 then sgn + 0x7ff0000000000000 else sgn + 0x7ff8000000000000)
  else if e = 0 then
    if m = 0 then sgn
    else
      let l := ilog2 m            -- m·2^(1−bias−mbits) = (m / 2^l) · 2^(l+1−bias−mbits), 1 ≤ m / 2^l < 2
      sgn + (l + 1 + 1023 - bias - mbits) * 2 ^ 52 + (m - 2 ^ l) * 2 ^ (52 - l)
  else sgn + (e + 1023 - bias) * 2 ^ 52 + m * 2 ^ (52 - mbits)

/-! ## ALG: e8m0, mxint, bfloat -/

/-- `2.0 ** k` for `-1022 ≤ k ≤ 1023`. -/
def pow2F64 (k : Int) : Nat := (k + 1023).toNat * 2 ^ 52

/-- `e8m0mxfp2bitstore` (bitstore_helpers.py:174-185): NaN → 0xff, else the index of `f` in
    `[float(2 ** x) for x in range(-127, 128)]`, else ValueError.  `list.index` compares with `==`; every list
    element is a non-zero finite float and `f` is not NaN here, so `==` holds exactly when the patterns are equal. -/
def e8m0Enc (f : Nat) : Except Err Nat :=
  if isNaN64 f then .ok 255 else
  match (List.range 255).find? (fun (i : Nat) => pow2F64 ((i : Int) - 127) == f) with
  | some i => .ok i
  | none => .error .value

/-- `i` is the integer nearest to `num/den`, ties to even. -/
def IsNearestEvenInt (num : Int) (den : Nat) (i : Int) : Prop :=
  2 * (i * den - num).natAbs ≤ den ∧ (2 * (i * den - num).natAbs = den → i % 2 = 0)

/-- Round-half-even of `num/den` (`den > 0`), executable. -/
def rneDiv (num : Int) (den : Nat) : Int :=
  let q := num / (den : Int)
  let r := num % (den : Int)
  if 2 * r < den then q else if (den : Int) < 2 * r then q + 1 else q + q % 2

/-- `round(f)` for a finite float (CPython `float.__round__` without `ndigits`): the nearest integer, ties to even,
    computed exactly on the value of the float. -/
def f64Round (a : Nat) : Int :=
  match f64Val a with
  | .fin s m e => rneDiv (sgnMant s (dyadicNum m e)) (dyadicDen e)
  | _ => 0

/-- `mxint2bitstore` (bitstore_helpers.py:188-200), statement by statement. -/
def mxintEnc (f : Nat) : Except Err Nat :=
  if isNaN64 f then .error .value else
  let f := f64Mul f (f64OfInt 64)                       -- f *= 2 ** 6
  if f64Gt f (f64OfInt 127) then .ok 0x7f else          -- if f > 127: '01111111'
  if f64Le f (f64OfInt (-128)) then .ok 0x80 else       -- if f <= -128: '10000000'
  let i := f64Round f                                    -- i = round(f)
  -- int2bitstore(i, 8, True)
  if -128 ≤ i ∧ i ≤ 127 then .ok (i % 256).toNat else .error .value

def bswap16 (c : Nat) : Nat := c % 256 * 256 + c / 256 % 256

/-- `bfloat2bitstore` (bitstore_helpers.py:109-117): pack as float32 (OverflowError → ±inf), keep the two most
    significant bytes (`b[0:2]` of `'>f'`, `b[2:4]` of `'<f'`). -/
def bfloatEnc (bigEndian : Bool) (f : Nat) : Nat :=
  let b32 := match packIEEE 8 23 f with
    | some b => b
    | none => if f64Gt f 0 then 0x7f800000 else 0xff800000
  let top := b32 / 65536
  if bigEndian then top else bswap16 top

/-- Two's complement value of an 8-bit code (`_getint`). -/
def int8 (c : Nat) : Int := if c < 128 then (c : Int) else (c : Int) - 256

/-- `Bits._gete8m0mxfp` (bits.py:800-804): `u = uint − 127; u == 128 → nan; 2.0 ** u`. -/
def e8m0Dec (code : Nat) : Nat := if code = 255 then f64NaN else pow2F64 ((code : Int) - 127)

/-- `Bits._getmxint` (bits.py:806-808): `float(int8) * 2 ** -6`. -/
def mxintDec (code : Nat) : Nat := f64Mul (f64OfInt (int8 code)) (pow2F64 (-6))

/-- `Bits._getbfloatbe/_getbfloatle` (bits.py:833-844): `(self + Bits(16)).floatbe` / `(Bits(16) + self).floatle`. -/
def bfloatDec (bigEndian : Bool) (code : Nat) : Nat :=
  unpackIEEE 8 23 ((if bigEndian then code else bswap16 code) * 65536)

/-! ## SPEC: e8m0, mxint, bfloat -/

def e8m0Spec (c : Nat) : FVal := if c = 255 then .nan else .fin false 1 ((c : Int) - 127)

def mxintDecSpec (c : Nat) : FVal := FVal.mk (decide (128 ≤ c)) (int8 c).natAbs (-6)

/-- The mxint code the property demands for the exact value `(−1)^neg · m · 2^e`: nearest-even of `64·x`,
    saturating at 127 and −128. -/
def mxintCodeSpec (neg : Bool) (m : Nat) (e : Int) : Nat :=
  let num : Int := sgnMant neg (dyadicNum m (e + 6))
  let den : Nat := dyadicDen (e + 6)
  let i := rneDiv num den
  if 127 < i then 0x7f else if i < -128 then 0x80 else (i % 256).toNat

end BM.C11
