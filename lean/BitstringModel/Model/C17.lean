/-
  Model/C17.lean — byte and file serialisation (tobytes / bytes / tofile, bytes= / BytesIO / file read-back,
  Array.tobytes / tofile / fromfile).

  SPEC layer: `toBytes` (byte k = bits 8k … 8k+7 of the zero-padded bit string), `bytesToBits`, `window`
  (drop/take), `readSpec` (the selected window of a byte source).
  ALG layer: the code, function by function — `BitStore.frombytes/frombuffer/tobytes/_copy/getslice_msb0/__len__`
  (bitstore.py), `Bits._setbytes_with_truncation`, the BytesIO branch of `_setauto`, `_setfile`,
  `BitArray.__init__`'s copy, `_getbytes`, `_absolute_slice`, `tofile` (bits.py), `Array.tobytes/tofile/fromfile` (array_.py).
  Option state: none of the transcribed functions consults `options.lsb0` any more (the window readers call
  `getslice_msb0`, `tofile` walks `_absolute_slice`); the flag stays on the wire and the model ignores it, so a
  mode-dependence creeping back in shows as a disagreement.
  bitarray primitives are list operations: `bitarray.frombytes` = `bytesToBits`, `bitarray.tobytes` =
  `baToBytes` (a byte-at-a-time loop that zero-fills the last byte), `ba[a:b]` = Python slicing.
  Bytes are `Nat`s (< 256 wherever they come from the wire or from `baToBytes`).
-/
import BitstringModel.Model.Basic
import BitstringModel.Gen.TofileChunk
namespace BM.C17

abbrev Bytes := List Nat

/-! ### SPEC -/

/-- The 0–7 bits needed to reach a byte boundary. -/
def padLen (n : Nat) : Nat := (8 - n % 8) % 8

def padded (l : Bits) : Bits := l ++ List.replicate (padLen l.length) false

/-- Byte `k` of a bit string: bits `8k … 8k+7`, MSB first. -/
def byteAt (p : Bits) (k : Nat) : Nat := bitsToNat ((p.drop (8 * k)).take 8)

/-- A whole-byte bit string as bytes. -/
def chunks8 (p : Bits) : Bytes := (List.range (p.length / 8)).map (byteAt p)

/-- `tobytes()`: the bits, zero-padded to a byte boundary, as bytes. -/
def toBytes (l : Bits) : Bytes := chunks8 (padded l)

/-- The bits of a byte string (`bitarray.frombytes`, big-endian bit order). -/
def bytesToBits (bs : Bytes) : Bits := bs.flatMap (natToBits 8)

/-- The window `[off, off+len)` of a bit string. -/
def window (src : Bits) (off len : Nat) : Bits := (src.drop off).take len

/-- `offset=None` means 0. -/
def offD (off : Option Int) : Int := off.getD 0

/-- `length=None` means "to the end of the source". -/
def lenD (nbits : Nat) (off len : Option Int) : Int := len.getD ((nbits : Int) - offD off)

/-- A valid window of a source of `nbits` bits (C15 owns what happens outside). -/
def validWindow (nbits : Nat) (off len : Option Int) : Bool :=
  decide (0 ≤ offD off) && decide (0 ≤ lenD nbits off len) && decide (offD off + lenD nbits off len ≤ nbits)

/-- What reading a byte source with `offset=off, length=len` must give. -/
def readSpec (data : Bytes) (off len : Option Int) : Bits :=
  window (bytesToBits data) (offD off).toNat (lenD (8 * data.length) off len).toNat

/-! ### ALG: Python slicing, bitarray primitives -/

/-- `l[start:stop]` (step 1) — `Py.getSlice l start stop none` is `.ok` of this (Proofs/C17 `getSlice_eq_pySlice`). -/
def pySlice {α} (l : List α) (start stop : Option Int) : List α :=
  let t := Py.sliceIndices start stop 1 l.length
  (l.drop t.1.toNat).take (t.2.1 - t.1).toNat

/-- `bitarray.tobytes()`: eight bits at a time; the last byte is filled with zero bits. -/
def baToBytesAux : Nat → Bits → Bytes
  | 0, _ => []
  | fuel + 1, l =>
    if l.isEmpty then [] else
    bitsToNat (l.take 8 ++ List.replicate (8 - (l.take 8).length) false) :: baToBytesAux fuel (l.drop 8)

def baToBytes (a : Bits) : Bytes := baToBytesAux a.length a

/-! ### ALG: BitStore (bitstore.py:41-90, 203-240, 282) -/

/-- `_bitarray`, `modified_length`, `immutable`. -/
structure Store where
  buf : Bits
  modLen : Option Nat
  immutable : Bool
  deriving Repr, DecidableEq

/-- An in-memory store (`BitStore(bitarray)`). -/
def Store.mem (b : Bits) : Store := ⟨b, none, false⟩

/-- `BitStore.frombytes` (bitstore.py:51). -/
def Store.frombytes (data : Bytes) : Store := ⟨bytesToBits data, none, false⟩

/-- `BitStore.frombuffer(buffer, length)` (bitstore.py:60): a view on the mapped buffer; a negative or too large
    length is a CreationError; a length shorter than the buffer is read into memory (`_bitarray[:length]`);
    in every case the store ends with `modified_length = None` ("the bitarray now holds exactly the bits
    that are wanted"). -/
def Store.frombuffer (data : Bytes) (length : Option Int) : Except Err Store :=
  let buf := bytesToBits data
  match length with
  | none => .ok ⟨buf, none, true⟩
  | some n =>
    if n < 0 then .error .value
    else if n > buf.length then .error .value
    else .ok ⟨if n < buf.length then pySlice buf none (some n) else buf, none, true⟩

/-- `BitStore.__len__` (bitstore.py:282). -/
def Store.len (s : Store) : Nat :=
  match s.modLen with
  | some n => n
  | none => s.buf.length

/-- `BitStore.tobytes` (bitstore.py:83): honours `modified_length`. -/
def Store.tobytes (s : Store) : Bytes :=
  match s.modLen with
  | some n => baToBytes (pySlice s.buf none (some (n : Int)))
  | none => baToBytes s.buf

/-- `BitStore._copy` (bitstore.py:203): `BitStore(self._bitarray)` — a fresh, mutable, unlimited store. -/
def Store.copy_ (s : Store) : Store := ⟨s.buf, none, false⟩

/-- `BitStore.getslice_msb0(start, stop)` (bitstore.py:226): bounds are first clamped to `modified_length`. -/
def Store.getslice (s : Store) (start stop : Option Int) : Store :=
  match s.modLen with
  | some n =>
    let t := Py.sliceIndices start stop 1 n
    ⟨pySlice s.buf (some t.1) (some t.2.1), none, false⟩
  | none => ⟨pySlice s.buf start stop, none, false⟩

/-- `s.bin` = `slice_to_bin(None, None)` = `getslice(None, None)._bitarray.to01()`. -/
def Store.bin (s : Store) : Bits := (s.getslice none none).buf

/-! ### ALG: constructors from byte sources (bits.py) -/

/-- `length is not None and length < 0`. -/
def negLen : Option Int → Bool
  | some l => decide (l < 0)
  | none => false

/-- `Bits._setbytes_with_truncation(data, length, offset)` (bits.py:640): negative offset/length and an offset
    beyond the data are CreationErrors; the window is cut with `getslice_msb0`. -/
def setBytes (data : Bytes) (length offset : Option Int) : Except Err Store :=
  match offset, length with
  | none, none => .ok (Store.frombytes data)                       -- _setbytes
  | _, _ =>
    let offset := offset.getD 0
    let nbits : Int := (data.length : Int) * 8
    if offset < 0 then .error .value else
    if negLen length then .error .value else
    if offset > nbits then .error .value else
    match length with
    | none =>
      let length := nbits - offset                                  -- "use to the end of the data"
      .ok ((Store.frombytes data).getslice (some offset) (some (offset + length)))
    | some length =>
      if length + offset > nbits then .error .value
      else .ok ((Store.frombytes data).getslice (some offset) (some (offset + length)))

/-- The `io.BytesIO` branch of `Bits._setauto(s, length, offset)` (bits.py:534-552; same three checks, the final
    cut is `getslice_msb0`); `_setauto_no_length_or_offset` (bits.py:505) when both are None. -/
def setBytesIO (data : Bytes) (length offset : Option Int) : Except Err Store :=
  match offset, length with
  | none, none => .ok (Store.frombytes data)
  | _, _ =>
    let offset := offset.getD 0
    let size : Int := data.length                                   -- s.seek(0, 2)
    if offset < 0 then .error .value else
    if negLen length then .error .value else
    if offset > size * 8 then .error .value else
    let length := length.getD (size * 8 - offset)
    let byteoffset := offset / 8                                    -- divmod(offset, 8): floor / non-negative rest
    let offset := offset % 8
    let bytelength := (length + byteoffset * 8 + offset + 7) / 8 - byteoffset
    if length + byteoffset * 8 + offset > size * 8 then .error .value
    else
      .ok ((Store.frombytes (pySlice data (some byteoffset) (some (byteoffset + bytelength)))).getslice
            (some offset) (some (offset + length)))

/-- `Bits._setfile(filename, length, offset)` (bits.py:560) on a file holding `data` (an empty file is mapped as
    the empty buffer `b''`); a negative offset and an offset beyond the file are CreationErrors; offset windows
    are cut with `getslice_msb0` whatever `options.lsb0` says. -/
def setFile (data : Bytes) (length offset : Option Int) : Except Err Store :=
  let offset := offset.getD 0
  if offset < 0 then .error .value else
  if offset = 0 then Store.frombuffer data length
  else
    -- "If offset is given then always read into memory."
    let temp : Store := ⟨bytesToBits data, none, true⟩             -- BitStore.frombuffer(m)
    if offset > temp.len then .error .value else
    match length with
    | none => .ok (temp.getslice (some offset) none)
    | some length =>
      let r := temp.getslice (some offset) (some (offset + length))
      if (r.len : Int) ≠ length then .error .value else .ok r

/-- `BitArray.__init__` / `BitStream.__init__` (bitarray_.py:115, bitstream.py:574): a mutable object never keeps
    an immutable store, it takes `_copy()` of it. -/
def finish (cls : Cls) (s : Store) : Store :=
  if cls.isMutable && s.immutable then s.copy_ else s

inductive Src where
  | bytes | bytesio | file
  deriving Repr, DecidableEq

def construct (cls : Cls) (k : Src) (data : Bytes) (length offset : Option Int) : Except Err Store :=
  (match k with
   | .bytes => setBytes data length offset
   | .bytesio => setBytesIO data length offset
   | .file => setFile data length offset).map (finish cls)

/-! ### ALG: serialisation (bits.py) -/

/-- `Bits._getbytes` (bits.py:661): the `bytes` property refuses lengths that are not whole bytes. -/
def bytesProp (s : Store) : Except Err Bytes :=
  if s.len % 8 ≠ 0 then .error .value else .ok s.tobytes

/-- `Bits._absolute_slice(start, end)` (bits.py:1052): msb0 positions whatever `options.lsb0` says;
    `end == start` gives a fresh empty object. -/
def absoluteSlice (s : Store) (start end_ : Nat) : Store :=
  if end_ = start then Store.mem [] else s.getslice (some (start : Int)) (some (end_ : Int))

/-- The loop of `Bits.tofile` (bits.py:1552): `for start in range(0, len(self), chunk_size):
    f.write(self._absolute_slice(start, min(start + chunk_size, len(self))).tobytes())` — `start` advances by the
    chunk size while it is below the length (at most `len` iterations for a positive step). -/
def tofileLoop (s : Store) (chunk : Nat) : Nat → Nat → Bytes
  | 0, _ => []
  | fuel + 1, start =>
    if start < s.len then
      (absoluteSlice s start (min (start + chunk) s.len)).tobytes ++ tofileLoop s chunk fuel (start + chunk)
    else []

/-- `Bits.tofile(f)` (bits.py:1541) with chunk size `chunk`; `range()` refuses a zero step (ValueError).
    Nothing here consults `options.lsb0`. -/
def tofile (chunk : Nat) (s : Store) : Except Err Bytes :=
  if chunk = 0 then .error .value else .ok (tofileLoop s chunk s.len 0)

/-- `tofile` as shipped: the chunk size extracted from the working tree on this run. -/
def tofileDefault (s : Store) : Except Err Bytes := tofile Gen.tofileChunk s

/-! ### ALG: Array (array_.py:366-392) — `data` is an in-memory BitArray, `isz` the item size in bits -/

def arrayTobytes (data : Bits) : Bytes := (Store.mem data).tobytes
def arrayTofile (chunk : Nat) (data : Bits) : Except Err Bytes := tofile chunk (Store.mem data)

/-- How the file object is turned into bits by `Bits(f)` in `Array.fromfile`:
    an open file goes through `_setfile(f.name)`, a BytesIO through `frombytes(getvalue())`. -/
inductive FKind where
  | handle | bytesio
  deriving Repr, DecidableEq

/-- `new_data = Bits(f)` in `Array.fromfile` (array_.py:387). -/
def fromfileSource (file : Bytes) : FKind → Except Err Store
  | .handle => setFile file none none
  | .bytesio => .ok (Store.frombytes file)

/-- `items_to_append = max_items if n is None else min(n, max_items)` (array_.py:389). -/
def itemsToAppend (n : Option Int) (maxItems : Int) : Int :=
  match n with
  | none => maxItems
  | some n => min n maxItems

/-- `Array.fromfile(f, n)` (array_.py:389) for an item of `bitlength = isz` bits: ValueError when trailing bits are
    present (nothing changes); otherwise the first `min(n, max_items)` whole items are appended to `self.data`, and
    EOFError is raised AFTERWARDS when fewer than `n` were available.  The result is the Array's data after the call
    together with whether EOFError was raised (the append has happened either way). -/
def arrayFromfile (data : Bits) (isz : Nat) (file : Bytes) (fk : FKind) (n : Option Int) :
    Except Err (Bool × Bits) :=
  if isz = 0 then .error (.internal "ZeroDivisionError") else
  if data.length % isz ≠ 0 then .error .value else
  fromfileSource file fk >>= fun newData =>
  let maxItems : Int := (newData.len / isz : Nat)
  let items := itemsToAppend n maxItems
  -- new_data[0 : items * bitlength]  (Bits.__getitem__ → getslice_withstep_msb0, same clamping as getslice)
  let piece := (newData.getslice (some 0) (some (items * isz))).buf
  match n with
  | some n => .ok (decide (items < n), data ++ piece)
  | none => .ok (false, data ++ piece)

/-- Wire form: `ok <data>` / `eof <data>` (EOFError raised, data as left behind) / `err`. -/
def fromfileOut : Except Err (Bool × Bits) → String
  | .ok (false, d) => "ok " ++ bitsToWire d
  | .ok (true, d) => "eof " ++ bitsToWire d
  | .error _ => "err"

/-! ### driver -/

def hexDigit? (c : Char) : Option Nat :=
  if '0' ≤ c ∧ c ≤ '9' then some (c.toNat - 48)
  else if 'a' ≤ c ∧ c ≤ 'f' then some (c.toNat - 87)
  else none

def bytesOfHexAux : List Char → Option Bytes
  | [] => some []
  | [_] => none
  | a :: b :: r =>
    match hexDigit? a, hexDigit? b, bytesOfHexAux r with
    | some x, some y, some t => some ((x * 16 + y) :: t)
    | _, _, _ => none

def bytesOfHex? (s : String) : Option Bytes := if s = "-" then some [] else bytesOfHexAux s.toList

def hexChar (n : Nat) : Char := if n < 10 then Char.ofNat (48 + n) else Char.ofNat (87 + n)

def hexOfBytes (b : Bytes) : String :=
  if b.isEmpty then "-" else String.ofList (b.flatMap fun x => [hexChar (x / 16 % 16), hexChar (x % 16)])

/-- No exception class is fixed by C17: every error is plain `err`. -/
def out {α} (f : α → String) : Except Err α → String
  | .ok a => "ok " ++ f a
  | .error _ => "err"

def chunkOf? (s : String) : Option Nat := if s = "-" then some Gen.tofileChunk else s.toNat?

/-- The observations made on one object: its bits, `tobytes()`, the `bytes` property (`!` = refused), `tofile`. -/
def observe (chunk : Nat) (s : Store) : Except Err String :=
  (tofile chunk s).map fun written =>
    bitsToWire s.bin ++ " " ++ hexOfBytes s.tobytes ++ " "
      ++ (match bytesProp s with | .ok b => hexOfBytes b | .error _ => "!") ++ " " ++ hexOfBytes written

def srcOf? : String → Option Src
  | "bytes" | "bytearray" | "mview" => some .bytes
  | "bio" => some .bytesio
  | "fname" | "handle" | "fpath" => some .file
  | _ => none

def fkindOf? : String → Option FKind
  | "handle" | "init" => some .handle
  | "bio" => some .bytesio
  | _ => none

def flagOf? : String → Option Bool
  | "0" => some false
  | "1" => some true
  | _ => none

def handle (args : List String) : String :=
  match args with
  -- obj <cls> <kind> <data> <off> <len> <chunk> <sink> <lsb0>
  | "obj" :: cls :: kind :: data :: off :: len :: chunk :: _sink :: lsb0 :: _ =>
    match Cls.ofStr? cls, optIntOfStr? off, optIntOfStr? len, chunkOf? chunk, flagOf? lsb0 with
    | some c, some off, some len, some ch, some _mode =>
      if kind = "bin" ∨ kind = "cat" then
        match bitsOfStr? data with
        | some b => out id (observe ch (finish c (Store.mem b)))
        | none => "bad-op"
      else if kind = "slc" then
        -- object = full[off : off+len] of an in-memory object (msb0 cases only; 0 ≤ off, off+len ≤ |full|)
        match bitsOfStr? data, off, len with
        | some b, some o, some n => out id (observe ch ((Store.mem b).getslice (some o) (some (o + n))))
        | _, _, _ => "bad-op"
      else
        match srcOf? kind, bytesOfHex? data with
        | some k, some d => out id ((construct c k d len off) >>= observe ch)
        | _, _ => "bad-op"
    | _, _, _, _, _ => "bad-op"
  -- rt <wcls> <bits> <chunk> <rcls> <rkind> <lsb0> : tofile, then read back `length = len(bits)`
  | "rt" :: _wcls :: bits :: chunk :: rcls :: rkind :: lsb0 :: _ =>
    match bitsOfStr? bits, chunkOf? chunk, Cls.ofStr? rcls, srcOf? rkind, flagOf? lsb0 with
    | some b, some ch, some rc, some k, some _mode =>
      out bitsToWire ((tofile ch (Store.mem b)) >>= fun written =>
        (construct rc k written (some (b.length : Int)) none).map Store.bin)
    | _, _, _, _, _ => "bad-op"
  -- arr <dtype> <isz> <bits> <chunk> <lsb0>
  | "arr" :: _dt :: _isz :: bits :: chunk :: lsb0 :: _ =>
    match bitsOfStr? bits, chunkOf? chunk, flagOf? lsb0 with
    | some b, some ch, some _mode =>
      out id ((arrayTofile ch b).map fun w => hexOfBytes (arrayTobytes b) ++ " " ++ hexOfBytes w)
    | _, _, _ => "bad-op"
  -- afrom <dtype> <isz> <initial bits> <file hex> <n> <fkind>            (msb0)
  | "afrom" :: _dt :: isz :: init :: file :: n :: fk :: _ =>
    match isz.toNat?, bitsOfStr? init, bytesOfHex? file, optIntOfStr? n, fkindOf? fk with
    | some isz, some b, some f, some n, some fk => fromfileOut (arrayFromfile b isz f fk n)
    | _, _, _, _, _ => "bad-op"
  -- art <dtype> <isz> <bits> <chunk> <fkind> : Array.tofile then Array(dtype).fromfile   (msb0)
  | "art" :: _dt :: isz :: bits :: chunk :: fk :: _ =>
    match isz.toNat?, bitsOfStr? bits, chunkOf? chunk, fkindOf? fk with
    | some isz, some b, some ch, some fk =>
      fromfileOut ((arrayTofile ch b) >>= fun w => arrayFromfile [] isz w fk none)
    | _, _, _, _ => "bad-op"
  | "big" :: _ => "skip"
  | _ => "bad-op"

end BM.C17
