/-
  Model/C07.lean — search, split, count (msb0).

  SPEC: `occ data pat start stop aligned` — every position p, increasing, with
        `data[p : p+|pat|] = pat`, `start ≤ p`, `p + |pat| ≤ stop` and (aligned → 8 ∣ p); everything else
        (find = first, rfind = last, findall = take count, in, startswith, endswith, count, cut, greedy
        non-overlapping selection, split, replace) is a one-line function of it.
  ALG : the code, function by function: `Bits._validate_slice` (bits.py:1152), `BitStore.find/rfind/
        findall_msb0/rfindall_msb0` (bitstore.py:139-191; byte fast path and general path),
        `Bits.find/_find_msb0/findall/_findall_msb0/rfind/_rfind_msb0/__contains__` (bits.py:466,1236-1384),
        `cut`, `split`, `startswith`, `endswith`, `count` (bits.py:1399-1476,1531-1601),
        `BitArray.replace/_replace` (bitarray_.py:279-342; `BitStream.replace`, bitstream.py:696, has the same
        order of checks).  The bitarray / bytes primitives (`bitarray.search`, `bitarray.find`, `bytes.find`,
        `bitarray.tobytes`, slicing, `bitarray.count`) are executable list programs proved equal to their
        list meaning in Props/C07.lean.
-/
import BitstringModel.Model.Basic
namespace BM.C07

/-! ## SPEC -/

/-- `data[a:b]` for `0 ≤ a`, `0 ≤ b` (Python clamps to the length; empty when `b ≤ a`). -/
def slice {α} (data : List α) (a b : Nat) : List α := (data.drop a).take (b - a)

/-- `pat` occurs in `data` at position `p`: `data[p : p+|pat|] == pat`. -/
def matchAt {α} [DecidableEq α] (data pat : List α) (p : Nat) : Bool :=
  decide ((data.drop p).take pat.length = pat)

/-- All positions of `pat` wholly inside `[s, e)`, increasing (any alphabet; used for bits and for bytes). -/
def occG {α} [DecidableEq α] (data pat : List α) (s e : Nat) : List Nat :=
  (List.range (e + 1)).filter fun p => decide (s ≤ p) && decide (p + pat.length ≤ e) && matchAt data pat p

/-- The brute-force definition of the property. -/
def occ (data pat : Bits) (s e : Nat) (aligned : Bool) : List Nat :=
  (occG data pat s e).filter fun p => !aligned || p % 8 == 0

def specFind (data pat : Bits) (s e : Nat) (al : Bool) : Option Nat := (occ data pat s e al).head?
def specRfind (data pat : Bits) (s e : Nat) (al : Bool) : Option Nat := (occ data pat s e al).getLast?
def specFindall (data pat : Bits) (s e : Nat) (al : Bool) (count : Option Nat) : List Nat :=
  match count with
  | none => occ data pat s e al
  | some n => (occ data pat s e al).take n
def specContains (data pat : Bits) : Bool := !(occ data pat 0 data.length false).isEmpty
/-- `prefix` occurs at `s` inside `[s, e)`. -/
def specStartswith (data pre : Bits) (s e : Nat) : Bool := decide (s ∈ occ data pre s e false)
/-- `suffix` occurs at `e - |suffix|` inside `[s, e)`. -/
def specEndswith (data suf : Bits) (s e : Nat) : Bool :=
  decide (suf.length ≤ e ∧ (e - suf.length) ∈ occ data suf s e false)
/-- `count(value)`: the number of bits equal to `value`. -/
def specCount (data : Bits) (v : Bool) : Nat := (data.filter (· == v)).length

/-- `cut`: the window `[s, e)` in consecutive `bits`-sized pieces (the last one may be shorter, none is empty). -/
def specCut (data : Bits) (bits s e : Nat) (count : Option Nat) : List Bits :=
  let all := (List.range ((e - s + bits - 1) / bits)).map fun i => slice data (s + i * bits) (min (s + (i + 1) * bits) e)
  match count with
  | none => all
  | some n => all.take n

/-- Successive non-overlapping matches from the left: walk the increasing list of all matches and keep a
    match iff it starts at or after `lim` (the end of the previously kept one). -/
def selectNonOverlap (m : Nat) : Nat → List Nat → List Nat
  | _, [] => []
  | lim, x :: xs => if lim ≤ x then x :: selectNonOverlap m (x + m) xs else selectNonOverlap m lim xs

/-- The pieces `data[from : p₀], data[p₀ : p₁], …, data[p_last : e]`. -/
def piecesAt (data : Bits) (e : Nat) : Nat → List Nat → List Bits
  | «from», [] => [slice data «from» e]
  | «from», p :: ps => slice data «from» p :: piecesAt data e p ps

def specSplit (data pat : Bits) (s e : Nat) (al : Bool) (count : Option Nat) : List Bits :=
  let all := piecesAt data e s (selectNonOverlap pat.length 0 (occ data pat s e al))
  match count with
  | none => all
  | some n => all.take n

/-- The matches `replace` acts on: the first `count` of the non-overlapping matches (all of them for `None`). -/
def specReplaceSel (data old : Bits) (s e : Nat) (al : Bool) (count : Option Nat) : List Nat :=
  let all := selectNonOverlap old.length 0 (occ data old s e al)
  match count with
  | none => all
  | some n => all.take n

/-- `data` with `new` in place of the `m` bits at each selected position (positions increasing,
    non-overlapping), starting to copy at `cur`. -/
def spliceFrom (data new : Bits) (m : Nat) : Nat → List Nat → Bits
  | cur, [] => data.drop cur
  | cur, p :: ps => slice data cur p ++ new ++ spliceFrom data new m (p + m) ps

/-- `replace`: number of replacements and the new content. -/
def specReplace (data old new : Bits) (s e : Nat) (al : Bool) (count : Option Nat) : Nat × Bits :=
  let sel := specReplaceSel data old s e al count
  (sel.length, spliceFrom data new old.length 0 sel)

/-- A `start` / `end` argument as a position: `None` is the default, negative values count from the end. -/
def normIdx (len : Nat) (dflt : Int) : Option Int → Int
  | none => dflt
  | some x => if x < 0 then x + len else x

/-- The window `[s, e)` named by `start`, `end`; `none` when the range is invalid
    (`start < 0`, `end > len` or `end < start` after normalisation). -/
def specWindow (len : Nat) (start stop : Option Int) : Option (Nat × Nat) :=
  let s := normIdx len 0 start
  let e := normIdx len len stop
  if 0 ≤ s ∧ s ≤ e ∧ e ≤ len then some (s.toNat, e.toNat) else none

/-- The error clause of the property: ValueError for an empty pattern (where the property says so) or an
    invalid range, otherwise the value computed on the window. -/
def specGuard {α} (emptyIsError : Bool) (len : Nat) (pat : Bits) (start stop : Option Int) (k : Nat → Nat → α) :
    Except Err α :=
  if emptyIsError && pat.isEmpty then .error .value else
  match specWindow len start stop with
  | none => .error .value
  | some (s, e) => .ok (k s e)

/-- `bytealigned` argument defaulted from `options.bytealigned`. -/
def specAligned (ba : Option Bool) (optBA : Bool) : Bool := ba.getD optBA

/-- `count=None` or a non-negative count. -/
def countNat : Option Int → Option Nat
  | none => none
  | some c => some c.toNat

/-! ## bitarray / bytes primitives as executable list programs -/

/-- Scan a suffix `l` (which starts at absolute position `p`) for `pat`, positions with `q + |pat| ≤ hi`. -/
def scan {α} [DecidableEq α] (pat : List α) (hi : Nat) : List α → Nat → List Nat
  | [], p => if p + pat.length ≤ hi ∧ pat = [] then [p] else []
  | x :: t, p =>
    if p + pat.length ≤ hi then
      if pat.isPrefixOf (x :: t) then p :: scan pat hi t (p + 1) else scan pat hi t (p + 1)
    else []

/-- `list(a.search(sub, start, stop))` (bitarray ≥ 2.9): all match positions inside `[start, stop)`, increasing;
    `right=True` yields the same positions in decreasing order. -/
def baSearch (data pat : Bits) (s e : Nat) : List Nat := scan pat e (data.drop s) s

/-- `a.find(sub, start, stop[, right=True])` with `none` for `-1`. -/
def baFind (data pat : Bits) (s e : Nat) (right : Bool) : Option Nat :=
  if right then (baSearch data pat s e).getLast? else (baSearch data pat s e).head?

/-- One byte of `bitarray.tobytes()`: up to 8 bits, MSB first, padded with zero bits on the right. -/
def byteVal (l : Bits) : Nat := bitsToNat (l ++ List.replicate (8 - l.length) false)

def toBytesAux : Nat → Bits → List Nat
  | 0, _ => []
  | fuel + 1, l => if l.isEmpty then [] else byteVal (l.take 8) :: toBytesAux fuel (l.drop 8)

/-- `bitarray.tobytes()`. -/
def toBytes (l : Bits) : List Nat := toBytesAux l.length l

/-- `b.find(sub, from)` on bytes objects (`none` for `-1`). -/
def bytesFind (b sub : List Nat) («from» : Nat) : Option Nat := (scan sub b.length (b.drop «from») «from»).head?

/-! ## ALG: bitstore.py -/

/-- The `while byte_pos < bytes_to_search` loop of `findall_msb0` (bitstore.py:166-171). -/
def fastLoop (b sub : List Nat) (startByte nSearch : Nat) : Nat → Nat → List Nat
  | 0, _ => []
  | fuel + 1, bytePos =>
    if bytePos < nSearch then
      match bytesFind b sub bytePos with
      | none => []                                          -- byte_pos == -1: break
      | some j => (j + startByte) * 8 :: fastLoop b sub startByte nSearch fuel (j + 1)
    else []

/-- Byte fast path of `BitStore.findall_msb0` (bitstore.py:156-172).  `bytes_to_search = end_byte - start_byte`
    may be negative in Python; the loop condition `byte_pos < bytes_to_search` is then false at once, as it is
    with truncated subtraction here. The loop runs at most `bytes_to_search` times (`byte_pos` grows). -/
def findallFast (data pat : Bits) (s e : Nat) : List Nat :=
  let sub := toBytes pat
  let startByte := (s + 7) / 8
  let endByte := e / 8
  let b := toBytes (slice data (startByte * 8) (endByte * 8))
  let nSearch := endByte - startByte
  fastLoop b sub startByte nSearch (nSearch + 1) 0

/-- `BitStore.findall_msb0` (bitstore.py:155-181). -/
def findallMsb0 (data pat : Bits) (s e : Nat) (aligned : Bool) : List Nat :=
  if aligned && pat.length % 8 == 0 then findallFast data pat s e
  else
    let i := baSearch data pat s e
    if !aligned then i else i.filter fun p => p % 8 == 0

/-- `BitStore.rfindall_msb0` (bitstore.py:183-191). -/
def rfindallMsb0 (data pat : Bits) (s e : Nat) (aligned : Bool) : List Nat :=
  let i := (baSearch data pat s e).reverse
  if !aligned then i else i.filter fun p => p % 8 == 0

/-- `BitStore.find` (bitstore.py:139-145); `none` is the code's `-1`. -/
def storeFind (data pat : Bits) (s e : Nat) (aligned : Bool) : Option Nat :=
  if !aligned then baFind data pat s e false else (findallMsb0 data pat s e aligned).head?

/-- `BitStore.rfind` (bitstore.py:147-153). -/
def storeRfind (data pat : Bits) (s e : Nat) (aligned : Bool) : Option Nat :=
  if !aligned then baFind data pat s e true else (rfindallMsb0 data pat s e aligned).head?

/-! ## ALG: bits.py -/

/-- `Bits._validate_slice` (bits.py:1152-1158). -/
def validateSlice (len : Nat) (start stop : Option Int) : Except Err (Nat × Nat) :=
  let s : Int := match start with
    | none => 0
    | some x => if x < 0 then x + len else x
  let e : Int := match stop with
    | none => len
    | some x => if x < 0 then x + len else x
  if 0 ≤ s ∧ s ≤ e ∧ e ≤ len then .ok (s.toNat, e.toNat) else .error .value

/-- `ba = options.bytealigned if bytealigned is None else bytealigned`. -/
def defaultBA (ba : Option Bool) (optBA : Bool) : Bool :=
  match ba with
  | none => optBA
  | some b => b

/-- `Bits.find` → `_find_msb0` (bits.py:1236-1264, 1280-1283); `none` = `()`, `some p` = `(p,)`. -/
def find (data pat : Bits) (start stop : Option Int) (ba : Option Bool) (optBA : Bool) : Except Err (Option Nat) :=
  if pat.length = 0 then .error .value else
  match validateSlice data.length start stop with
  | .error e => .error e
  | .ok (s, e) => .ok (storeFind data pat s e (defaultBA ba optBA))

/-- `Bits.rfind` → `_rfind_msb0` (bits.py:1354-1384): the range is validated before the empty check. -/
def rfind (data pat : Bits) (start stop : Option Int) (ba : Option Bool) (optBA : Bool) : Except Err (Option Nat) :=
  match validateSlice data.length start stop with
  | .error e => .error e
  | .ok (s, e) =>
    if pat.length = 0 then .error .value else
    .ok (storeRfind data pat s e (defaultBA ba optBA))

/-- The counting loop of `_findall_msb0` (bits.py:1312-1320) over the positions the store generator yields. -/
def findallCount (count : Option Nat) : List Nat → Nat → List Nat
  | [], _ => []
  | i :: rest, c =>
    match count with
    | none => i :: findallCount count rest (c + 1)
    | some n => if n ≤ c then [] else i :: findallCount count rest (c + 1)

/-- `Bits.findall` → `_findall_msb0` (bits.py:1285-1322). -/
def findall (data pat : Bits) (start stop : Option Int) (count : Option Int) (ba : Option Bool) (optBA : Bool) :
    Except Err (List Nat) :=
  if (match count with | some c => decide (c < 0) | none => false) then .error .value else
  if pat.length = 0 then .error .value else
  match validateSlice data.length start stop with
  | .error e => .error e
  | .ok (s, e) =>
    .ok (findallCount (count.map Int.toNat) (findallMsb0 data pat s e (defaultBA ba optBA)) 0)

/-- `Bits.__contains__` (bits.py:466-473): `Bits.find(self, bs, bytealigned=False)`, then `bool(found)`. -/
def contains (data pat : Bits) (optBA : Bool) : Except Err Bool :=
  match find data pat none none (some false) optBA with
  | .error e => .error e
  | .ok r => .ok r.isSome

/-- `Bits.startswith` (bits.py:1531-1541). -/
def startswith (data pre : Bits) (start stop : Option Int) : Except Err Bool :=
  match validateSlice data.length start stop with
  | .error e => .error e
  | .ok (s, e) => .ok (if s + pre.length ≤ e then decide (slice data s (s + pre.length) = pre) else false)

/-- `Bits.endswith` (bits.py:1543-1553). -/
def endswith (data suf : Bits) (start stop : Option Int) : Except Err Bool :=
  match validateSlice data.length start stop with
  | .error e => .error e
  | .ok (s, e) => .ok (if s + suf.length ≤ e then decide (slice data (e - suf.length) e = suf) else false)

/-- `bitarray.count(1)`. -/
def baCountOnes : Bits → Nat
  | [] => 0
  | b :: t => (if b then 1 else 0) + baCountOnes t

/-- `Bits.count` (bits.py:1589-1601). -/
def count (data : Bits) (value : Bool) : Nat :=
  let c := baCountOnes data
  if value then c else data.length - c

/-- The `while count is None or c < count` loop of `cut` (bits.py:1416-1426). -/
def cutLoop (data : Bits) (bits e : Nat) (count : Option Nat) : Nat → Nat → Nat → List Bits
  | 0, _, _ => []
  | fuel + 1, start_, c =>
    if (match count with | none => true | some n => decide (c < n)) then
      let nextchunk := slice data start_ (min (start_ + bits) e)
      if nextchunk.length = 0 then []
      else if nextchunk.length ≠ bits then [nextchunk]
      else nextchunk :: cutLoop data bits e count fuel (start_ + bits) (c + 1)
    else []

/-- `Bits.cut` (bits.py:1399-1426).  Each full iteration advances `start_` by `bits ≥ 1`, so `len + 1`
    iterations suffice. -/
def cut (data : Bits) (bits : Int) (start stop : Option Int) (count : Option Int) : Except Err (List Bits) :=
  match validateSlice data.length start stop with
  | .error e => .error e
  | .ok (s, e) =>
    if (match count with | some c => decide (c < 0) | none => false) then .error .value else
    if bits ≤ 0 then .error .value else
    .ok (cutLoop data bits.toNat e (count.map Int.toNat) (data.length + 1) s 0)

/-- `Bits._find_msb0` (bits.py:1280-1283). -/
def findMsb0 (data pat : Bits) (s e : Nat) (aligned : Bool) : Option Nat := storeFind data pat s e aligned

/-- The `while count is None or c < count` loop of `split` (bits.py:1465-1474). -/
def splitLoop (data pat : Bits) (e : Nat) (aligned : Bool) (count : Option Nat) : Nat → Nat → Nat → Nat → List Bits
  | 0, _, _, _ => []
  | fuel + 1, startpos, pos, c =>
    if (match count with | none => true | some n => decide (c < n)) then
      let pos := pos + pat.length
      match findMsb0 data pat pos e aligned with
      | none => [slice data startpos e]
      | some f => slice data startpos f :: splitLoop data pat e aligned count fuel f f (c + 1)
    else []

/-- `Bits.split` (bits.py:split/_split), observed as `list(s.split(...))`.  Each iteration moves `pos` forward by
    at least `|delimiter| ≥ 1`, so `len + 1` iterations suffice. -/
def split (data pat : Bits) (start stop : Option Int) (count : Option Int) (ba : Option Bool) (optBA : Bool) :
    Except Err (List Bits) :=
  if pat.length = 0 then .error .value else
  match validateSlice data.length start stop with
  | .error e => .error e
  | .ok (s, e) =>
    let aligned := defaultBA ba optBA
    if (match count with | some c => decide (c < 0) | none => false) then .error .value else
    if count = some 0 then .ok [] else
    match findMsb0 data pat s e aligned with
    | none => .ok [slice data s e]
    | some f => .ok (slice data s f :: splitLoop data pat e aligned (count.map Int.toNat) (data.length + 1) f f 1)

/-! ## ALG: bitarray_.py -/

/-- The selection loop of `_replace` (bitarray_.py:283-291) over the positions `findall` yields.
    `spRev` is `starting_points` with the most recent entry first (so `starting_points[-1]` is its head),
    `n` is `len(starting_points)`; the result is `starting_points` in the code's order. -/
def replaceSelLoop (m count : Nat) : List Nat → Nat → List Nat → List Nat
  | spRev, _, [] => spRev.reverse
  | spRev, n, x :: xs =>
    let st : List Nat × Nat :=
      match spRev with
      | [] => ([x], 1)                                       -- `if not starting_points`
      | last :: _ => if last + m ≤ x then (x :: spRev, n + 1) else (spRev, n)
    if count ≠ 0 ∧ st.2 = count then st.1.reverse else replaceSelLoop m count st.1 st.2 xs

/-- The assembly of `_replace` (bitarray_.py:294-301) for a non-empty `starting_points`. -/
def replaceAssemble (data new : Bits) (m : Nat) : List Nat → Bits
  | [] => []
  | [p] => new ++ data.drop (p + m)
  | p :: q :: rest => new ++ slice data (p + m) q ++ replaceAssemble data new m (q :: rest)

/-- `BitArray._replace` (bitarray_.py:279-308): returns the number of replacements and the new content.
    `start`, `stop` are already validated, so the inner `self.findall` validates them again to the same values. -/
def replaceCore (data old new : Bits) (s e : Nat) (count : Nat) (aligned : Bool) : Nat × Bits :=
  let sp := replaceSelLoop old.length count [] 0 (findallMsb0 data old s e aligned)
  match sp with
  | [] => (0, data)
  | p :: _ => (sp.length, slice data 0 p ++ replaceAssemble data new old.length sp)

/-- `BitArray.replace` (bitarray_.py:310-342; same order in `BitStream.replace`). -/
def replace (data old new : Bits) (start stop : Option Int) (count : Option Int) (ba : Option Bool) (optBA : Bool) :
    Except Err (Nat × Bits) :=
  if old.length = 0 then .error .value else
  match validateSlice data.length start stop with
  | .error e => .error e
  | .ok (s, e) =>
    if count = some 0 then .ok (0, data) else
    let c : Nat := match count with
      | none => 0
      | some c => c.toNat
    .ok (replaceCore data old new s e c (defaultBA ba optBA))

/-! ## when a generator-returning entry point reads `options.bytealigned`

  `optCall` is the option's value when the method is called, `optConsume` its value when the returned iterator is
  first advanced (a caller may change the option in between).  The property fixes the result by the setting of
  the call. -/

/-- `Bits.findall` is an ordinary function: it resolves `bytealigned` and returns `self._findall(...)`, so the option
    is read at the call. -/
def findallSched (data pat : Bits) (start stop : Option Int) (count : Option Int) (ba : Option Bool)
    (optCall _optConsume : Bool) : Except Err (List Nat) :=
  findall data pat start stop count ba optCall

/-- `Bits.split` resolves `bytealigned_ = options.bytealigned if bytealigned is None else bytealigned` itself and
    returns the generator `self._split(...)` (which does the validation and the searching lazily), so the option
    is read at the call. -/
def splitSched (data pat : Bits) (start stop : Option Int) (count : Option Int) (ba : Option Bool)
    (optCall _optConsume : Bool) : Except Err (List Bits) :=
  split data pat start stop count ba optCall

/-- `Bits.cut` is a generator function too but never looks at the option. -/
def cutSched (data : Bits) (bits : Int) (start stop : Option Int) (count : Option Int)
    (_optCall _optConsume : Bool) : Except Err (List Bits) :=
  cut data bits start stop count

/-! ## driver -/

def optBoolOfStr? (s : String) : Option (Option Bool) :=
  if s = "None" then some none else if s = "True" then some (some true)
  else if s = "False" then some (some false) else none

def boolOfStr? (s : String) : Option Bool :=
  if s = "True" then some true else if s = "False" then some false else none

def boolToStr (b : Bool) : String := if b then "True" else "False"

def posToStr : Option Nat → String
  | none => "none"
  | some p => toString p

def natsToStr (l : List Nat) : String :=
  if l.isEmpty then "[]" else ",".intercalate (l.map toString)

def chunksToStr (l : List Bits) : String :=
  if l.isEmpty then "[]" else ",".intercalate (l.map bitsToWire)

/-- Fields after the property id.  The class field is not interpreted: the result depends on the bits only. -/
def handle (args : List String) : String :=
  match args with
  | ["cut_sched", _cls, d, n, a, b, c, oba, oba2] =>
    match bitsOfStr? d, n.toInt?, optIntOfStr? a, optIntOfStr? b, optIntOfStr? c, boolOfStr? oba, boolOfStr? oba2 with
    | some data, some n, some s, some e, some c, some oba, some oba2 =>
      resultToStr chunksToStr (cutSched data n s e c oba oba2)
    | _, _, _, _, _, _, _ => "bad-op"
  | ["replace", _cls, d, o, n, a, b, ba, oba, c] =>
    match bitsOfStr? d, bitsOfStr? o, bitsOfStr? n, optIntOfStr? a, optIntOfStr? b, optBoolOfStr? ba, boolOfStr? oba,
        optIntOfStr? c with
    | some data, some old, some new, some s, some e, some ba, some oba, some c =>
      resultToStr (fun (r : Nat × Bits) => toString r.1 ++ " " ++ bitsToWire r.2) (replace data old new s e c ba oba)
    | _, _, _, _, _, _, _, _ => "bad-op"
  | [op, _cls, d, p, a, b, ba, oba] =>
    match bitsOfStr? d, bitsOfStr? p, optIntOfStr? a, optIntOfStr? b, optBoolOfStr? ba, boolOfStr? oba with
    | some data, some pat, some s, some e, some ba, some oba =>
      if op = "find" then resultToStr posToStr (find data pat s e ba oba)
      else if op = "rfind" then resultToStr posToStr (rfind data pat s e ba oba)
      else "bad-op"
    | _, _, _, _, _, _ => "bad-op"
  | [op, _cls, d, p, a, b, ba, oba, c] =>
    match bitsOfStr? d, bitsOfStr? p, optIntOfStr? a, optIntOfStr? b, optBoolOfStr? ba, boolOfStr? oba, optIntOfStr? c with
    | some data, some pat, some s, some e, some ba, some oba, some c =>
      if op = "findall" then resultToStr natsToStr (findall data pat s e c ba oba)
      else if op = "split" then resultToStr chunksToStr (split data pat s e c ba oba)
      else "bad-op"
    | _, _, _, _, _, _, _ => "bad-op"
  | ["in", _cls, d, p, oba] =>
    match bitsOfStr? d, bitsOfStr? p, boolOfStr? oba with
    | some data, some pat, some oba => resultToStr boolToStr (contains data pat oba)
    | _, _, _ => "bad-op"
  | [op, _cls, d, p, a, b] =>
    match bitsOfStr? d, bitsOfStr? p, optIntOfStr? a, optIntOfStr? b with
    | some data, some pat, some s, some e =>
      if op = "startswith" then resultToStr boolToStr (startswith data pat s e)
      else if op = "endswith" then resultToStr boolToStr (endswith data pat s e)
      else "bad-op"
    | _, _, _, _ => "bad-op"
  | ["count", _cls, d, v] =>
    match bitsOfStr? d, boolOfStr? v with
    | some data, some v => "ok " ++ toString (count data v)
    | _, _ => "bad-op"
  | ["cut", _cls, d, n, a, b, c] =>
    match bitsOfStr? d, n.toInt?, optIntOfStr? a, optIntOfStr? b, optIntOfStr? c with
    | some data, some n, some s, some e, some c => resultToStr chunksToStr (cut data n s e c)
    | _, _, _, _, _ => "bad-op"
  | [op, _cls, d, p, a, b, ba, oba, c, oba2] =>
    match bitsOfStr? d, bitsOfStr? p, optIntOfStr? a, optIntOfStr? b, optBoolOfStr? ba, boolOfStr? oba, optIntOfStr? c,
        boolOfStr? oba2 with
    | some data, some pat, some s, some e, some ba, some oba, some c, some oba2 =>
      if op = "findall_sched" then resultToStr natsToStr (findallSched data pat s e c ba oba oba2)
      else if op = "split_sched" then resultToStr chunksToStr (splitSched data pat s e c ba oba oba2)
      else "bad-op"
    | _, _, _, _, _, _, _, _ => "bad-op"
  | _ => "bad-op"

end BM.C07
