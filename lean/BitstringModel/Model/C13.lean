/-
  Model/C13.lean — equality and hashing.   (file:line references are to /repo at c59055f)

  SPEC layer: two bitstrings are equal when their bit lists are equal; the hash key of a bitstring is a
              function of its bit list only (`hashKey`), `toBytes` = zero-padded big-endian bytes.
  ALG layer : `Bits.__eq__` / `__ne__` (bits.py:304-323) through `Bits._create_from_bitstype`
              (bits.py:128-134) and `_setauto_no_length_or_offset` (bits.py:499-523), `BitStore.__eq__`
              (bitstore.py:112-113: compares the raw `_bitarray`), `Bits.__hash__` (bits.py:475-490: whole value up to
              T bits, otherwise `self._absolute_slice(0, A) + self._absolute_slice(len(self) - B, len(self))`
              — mode-independent since fix 42091e9; T = 2000, A = B = 800 in the source — PARAMETERS here, the
              harness extracts the literals from the source on every run), `BitStore.tobytes`, `__len__`
              honouring `modified_length`, `BitStore.frombuffer` (bitstore.py:60-78), the slicing the hash uses
              (`Bits._absolute_slice` bits.py:1052-1060, `BitStore.getslice_msb0` bitstore.py:226-231),
              `Bits.__add__` (bits.py:205-220), `BitArray.__hash__ = None` (bitarray_.py:73), the ordering
              methods (bits.py:192-203).

  A `Store` keeps what the code keeps: the raw bitarray and `modified_length`.  Every store is big-endian
  (`BitStore.__init__` converts a source bitarray with `endian='big'`, bitstore.py:43-48, fix 0aafa20; `frombytes`
  and `frombuffer` create big-endian bitarrays), so `tobytes` has one meaning.
-/
import BitstringModel.Model.Basic
namespace BM.C13

/-! ## SPEC -/

/-- One byte of `tobytes`: the chunk (≤ 8 bits) padded with zero bits on the right. -/
def padByte (c : Bits) : Bits := c ++ List.replicate (8 - c.length) false

/-- Value of a byte (big-endian bitarray: the first bit of the chunk is the most significant). -/
def byteVal (c : Bits) : Nat := bitsToNat (padByte c)

def toBytesAux : Nat → Bits → List Nat
  | 0, _ => []
  | _ + 1, [] => []
  | f + 1, x :: xs => byteVal ((x :: xs).take 8) :: toBytesAux f ((x :: xs).drop 8)

/-- `bitarray.tobytes()` of a big-endian bitarray: zero-padded bytes (fuel = length is always enough). -/
def toBytes (s : Bits) : List Nat := toBytesAux s.length s

/-- What `hash()` is applied to: `(bytes, length)`.  The Python hash of such a tuple is a function of its
    value (trusted); so hashes are equal when keys are equal, and keys are what is compared. -/
abbrev Key := List Nat × Nat

/-- The last `B` bits, as `_absolute_slice(len - B, len)` delivers them: nothing for `B = 0` (start = end), the
    last `B` bits for `B ≤ len` (always the case in the code: `len > T = 2000 ≥ 800 = B`); for `B > len` the
    negative start wraps once more as a Python index (kept so that the SPEC holds for ALL parameter values). -/
def absSuffix (B : Nat) (s : Bits) : Bits :=
  if B = 0 then [] else if B ≤ s.length then s.drop (s.length - B) else s.drop (2 * s.length - B)

/-- The bits the sampling branch reads, as a function of the bit list alone: first `A` bits then last `B` bits,
    in either bit-numbering mode. -/
def sample (A B : Nat) (s : Bits) : Bits := s.take A ++ absSuffix B s

/-- SPEC hash key: a function of the bits only (not of class, pos, route, store layout or the lsb0 option). -/
def hashKey (T A B : Nat) (s : Bits) : Key :=
  if s.length ≤ T then (toBytes s, s.length) else (toBytes (sample A B s), s.length)

/-! #### the sampling expression before fix 42091e9 (kept only for the documentation witness in Props/C13) -/

/-- `s[-B:]` on a Python sequence (`s[-0:]` is the whole sequence). -/
def pySuffix (B : Nat) (s : Bits) : Bits := if B = 0 then s else s.drop (s.length - B)

/-- What `self[:A] + self[-B:]` read: under lsb0 `self[:A]` is the LAST `A` bits and `self[-B:]` the FIRST `B`
    bits, concatenated in that order. -/
def sampleOld (lsb0 : Bool) (A B : Nat) (s : Bits) : Bits :=
  if lsb0 then s.drop (s.length - A) ++ (if B = 0 then s else s.take B)
  else s.take A ++ pySuffix B s

def hashKeyOld (T A B : Nat) (lsb0 : Bool) (s : Bits) : Key :=
  if s.length ≤ T then (toBytes s, s.length) else (toBytes (sampleOld lsb0 A B s), s.length)

/-- SPEC equality. -/
def eqSpec (a b : Bits) : Bool := decide (a = b)

/-! ## ALG: the store -/

/-- `BitStore`: `_bitarray` (bits by index) and `modified_length`. -/
structure Store where
  raw : Bits
  modLen : Option Nat := none
  deriving Repr, DecidableEq

/-- `BitStore.__len__` (bitstore.py:282-283). -/
def Store.len (s : Store) : Nat :=
  match s.modLen with
  | some m => m
  | none => s.raw.length

/-- `bitarray[start:stop]` (step None): CPython clamping, then the elements `start … stop-1`. -/
def rawSlice (l : Bits) (start stop : Option Int) : Bits :=
  (l.drop (Py.sliceIndices start stop 1 l.length).1.toNat).take
    ((Py.sliceIndices start stop 1 l.length).2.1 - (Py.sliceIndices start stop 1 l.length).1).toNat

/-- The logical content (`s.bin`): `getslice_msb0(None, None)` (bitstore.py:226-231). -/
def Store.bits (s : Store) : Bits :=
  match s.modLen with
  | some m => rawSlice s.raw (some (Py.sliceIndices none none 1 m).1) (some (Py.sliceIndices none none 1 m).2.1)
  | none => rawSlice s.raw none none

/-- `BitStore.tobytes` (bitstore.py:83-86). -/
def Store.tobytes (s : Store) : List Nat :=
  match s.modLen with
  | some m => toBytes (rawSlice s.raw none (some (m : Int)))
  | none => toBytes s.raw

/-- `BitStore.__eq__` (bitstore.py:112-113): `self._bitarray == other._bitarray`
    (bitarray equality: same length, same bit at every index). -/
def Store.eq (a b : Store) : Bool := decide (a.raw = b.raw)

/-- `BitStore(bitarray)` / `_copy()` (bitstore.py:43-48, 203-205): a fresh store around a copy of the bitarray. -/
def Store.copyRaw (s : Store) : Store := { raw := s.raw, modLen := none }

/-- `BitStore.frombytes`: big-endian bits of each byte. -/
def bytesToBits (b : List Nat) : Bits := b.flatMap (natToBits 8)

def Store.frombytes (b : List Nat) : Store := { raw := bytesToBits b }

/-- `BitStore.frombuffer(buffer, length)` (bitstore.py:60-78).  When only part of the buffer is wanted the part
    is read into memory (fix 39ce472); in every case `modified_length` is reset to None afterwards (fix ccb64df),
    so no constructor leaves a `modified_length` behind — the field and the code that honours it
    (`__len__`, `tobytes`, the msb0 slices) still exist and stay modelled. -/
def Store.frombuffer (buf : Bits) (length : Option Int) : Except Err Store :=
  match length with
  | none => .ok { raw := buf }
  | some m =>
    if m < 0 then .error .value
    else if m > (buf.length : Int) then .error .value
    else if m < (buf.length : Int) then .ok { raw := rawSlice buf none (some m), modLen := none }
    else .ok { raw := buf, modLen := none }

/-- The invariant every constructor establishes: `modified_length`, when present, is the buffer length. -/
def Store.wf (s : Store) : Prop := ∀ m, s.modLen = some m → m = s.raw.length

instance (s : Store) : Decidable s.wf := by
  unfold Store.wf
  cases h : s.modLen with
  | none => exact isTrue (by intro m hm; cases hm)
  | some k =>
    by_cases hk : k = s.raw.length
    · exact isTrue (by intro m hm; cases hm; exact hk)
    · exact isFalse (by intro hh; exact hk (hh k rfl))

/-! ### slicing as `__hash__` does it -/

/-- `BitStore.getslice_msb0(start, stop)` (bitstore.py:226-231): indices are first normalised against
    `modified_length`, then the raw bitarray is sliced. -/
def Store.getsliceMsb0 (s : Store) (start stop : Option Int) : Store :=
  match s.modLen with
  | some m =>
    { raw := rawSlice s.raw (some (Py.sliceIndices start stop 1 m).1) (some (Py.sliceIndices start stop 1 m).2.1) }
  | none => { raw := rawSlice s.raw start stop }

/-- `Bits._absolute_slice(start, end)` (bits.py:1052-1060): msb0 numbering whatever the option says; an empty
    object when `end == start`; `assert start < end` otherwise. -/
def absoluteSlice (s : Store) (start stop : Int) : Except Err Store :=
  if stop = start then .ok { raw := [] }
  else if ¬ (start < stop) then .error (.internal "AssertionError")
  else .ok (s.getsliceMsb0 (some start) (some stop))

/-- `Bits.__add__` on two objects of the same class (bits.py:205-220), store level: copy the longer operand,
    add the other on the proper side. -/
def Store.add (a b : Store) : Store :=
  if b.len ≤ a.len then
    { raw := a.copyRaw.raw ++ b.raw }                 -- s = self._copy(); s._addright(bs)
  else
    { raw := a.copyRaw.raw ++ b.copyRaw.raw }         -- s._bitstore = bs._copy(); s._addleft(self)

/-! ## ALG: objects, promotion, `==`, `!=` -/

structure Obj where
  cls : Cls
  store : Store
  pos : Nat := 0
  deriving Repr, DecidableEq

def Obj.bits (o : Obj) : Bits := o.store.bits

/-- An item of an iterable, as far as `bool(x)` sees it. -/
inductive Elem where
  | int (i : Int) | bool (b : Bool) | none | str (s : List Char) | float (isZero : Bool) | list (n : Nat)
  deriving Repr, DecidableEq

/-- `bool(x)`. -/
def Elem.truthy : Elem → Bool
  | .int i => i != 0
  | .bool b => b
  | .none => false
  | .str s => !s.isEmpty
  | .float z => !z
  | .list n => n != 0

/-- The right-hand operand of `==`, by the branch of `_setauto_no_length_or_offset` that takes it. -/
inductive Operand where
  | bitstring (o : Obj)                    -- isinstance(auto, Bits): used as it is
  | str (s : List Char)                    -- token string
  | bytes (b : List Nat)                   -- bytes, bytearray, memoryview
  | bytesIO (b : List Nat)
  | fileObj (content : List Nat)           -- io.BufferedReader: _setfile(s.name)
  | bitarray (little : Bool) (b : Bits)    -- any bit-endianness: BitStore(s) re-creates it big-endian, bits by index kept
  | array (b : List Nat)                   -- array.array: s.tobytes()
  | iterable (xs : List Elem)
  | integral                               -- numbers.Integral: TypeError
  | other                                  -- anything else: TypeError
  deriving Repr

/-! ### the token-string sub-language that is modelled: comma-separated `0b…`, `0x…`, `0o…` literals -/

def isSpace (c : Char) : Bool := c = ' ' || c = '\t' || c = '\n' || c = '\r' || c = '\x0b' || c = '\x0c'

def splitComma : List Char → List (List Char)
  | [] => [[]]
  | c :: cs =>
    match splitComma cs with
    | [] => [[]]          -- unreachable
    | t :: ts => if c = ',' then [] :: t :: ts else (c :: t) :: ts

def lowerChar (c : Char) : Char := if 'A' ≤ c ∧ c ≤ 'Z' then Char.ofNat (c.toNat + 32) else c

def hexVal? (c : Char) : Option Nat :=
  if '0' ≤ c ∧ c ≤ '9' then some (c.toNat - '0'.toNat)
  else if 'a' ≤ c ∧ c ≤ 'f' then some (c.toNat - 'a'.toNat + 10)
  else none

/-- Digits of base `2^w` (w = 1, 3, 4) to bits; `none` = a character outside the alphabet. -/
def digitsToBits (w : Nat) : List Char → Option Bits
  | [] => some []
  | c :: cs =>
    match hexVal? c, digitsToBits w cs with
    | some v, some rest => if v < 2 ^ w then some (natToBits w v ++ rest) else none
    | _, _ => none

def unmodelled : Err := .internal "unmodelled-string"

/-- One token (bitstore_helpers.py:37-67, 251-263; utils.py:21 `LITERAL_RE`): a literal `0b/0x/0o` + digits;
    the value is lower-cased and underscores are removed (`tidy_input_string`).  A wrong digit is a
    `CreationError` (= ValueError).  Every other token form (dtype tokens, factors, brackets, struct codes, and
    values containing the prefix letter again, which `str.replace` would delete) is outside the modelled
    sub-language. -/
def tokenToBits (t : List Char) : Except Err Bits :=
  match t with
  | '0' :: p :: v =>
    let p := lowerChar p
    let v := (v.map lowerChar).filter (· ≠ '_')
    if v.isEmpty ∧ t.length = 2 then .error unmodelled else
    if p = 'b' then
      (if v.contains 'b' then .error unmodelled else
       match digitsToBits 1 v with | some b => .ok b | none => .error .value)
    else if p = 'x' then
      (if v.contains 'x' then .error unmodelled else
       match digitsToBits 4 v with | some b => .ok b | none => .error .value)
    else if p = 'o' then
      (if v.contains 'o' then .error unmodelled else
       match digitsToBits 3 v with | some b => .ok b | none => .error .value)
    else .error unmodelled
  | _ => .error unmodelled

def tokensToBits : List (List Char) → Except Err Bits
  | [] => .ok []
  | t :: ts =>
    if t.isEmpty then tokensToBits ts else
    match tokenToBits t, tokensToBits ts with
    | .ok a, .ok b => .ok (a ++ b)
    | .error e, _ => .error e
    | _, .error e => .error e

/-- `str_to_bitstore` (bitstore_helpers.py:27-34) on the modelled sub-language: whitespace removed
    (`preprocess_tokens`), split at commas, empty tokens skipped, the literals concatenated. -/
def strToBits (s : List Char) : Except Err Bits :=
  let s := s.filter (fun c => !isSpace c)
  if s.contains '(' ∨ s.contains '*' then .error unmodelled else
  tokensToBits (splitComma s)

/-- `Bits._create_from_bitstype(x)._bitstore` (bits.py:128-134, 499-523). -/
def promote : Operand → Except Err Store
  | .bitstring o => .ok o.store
  | .str s => (strToBits s).map fun b => { raw := b }
  | .bytes b => .ok (Store.frombytes b)
  | .bytesIO b => .ok (Store.frombytes b)
  | .fileObj c =>
    -- _setfile(s.name): offset None → 0 → frombuffer(mmap, length=None); an empty file cannot be mapped
    if c.isEmpty then .error .value else Store.frombuffer (bytesToBits c) none
  | .bitarray _ b => .ok { raw := b }
  | .array b => .ok (Store.frombytes b)
  | .iterable xs => .ok { raw := xs.map Elem.truthy }
  | .integral => .error .type
  | .other => .error .type

/-- `Bits.__eq__` (bits.py:304-314): `TypeError → False`; any other exception propagates. -/
def eqAlg (a : Obj) (x : Operand) : Except Err Bool :=
  match promote x with
  | .ok st => .ok (a.store.eq st)
  | .error .type => .ok false
  | .error e => .error e

/-- `Bits.__ne__` (bits.py:316-323): `not self.__eq__(bs)`. -/
def neAlg (a : Obj) (x : Operand) : Except Err Bool :=
  match eqAlg a x with
  | .ok b => .ok (!b)
  | .error e => .error e

/-- `==` between two bitstring objects. -/
def eqObj (a b : Obj) : Bool := a.store.eq b.store

/-- The ordering methods (bits.py:192-203) return `NotImplemented` for every operand, so `<`, `>`, `<=`, `>=`
    between bitstrings raise TypeError (both reflections decline). -/
def orderAlg (_a _b : Obj) : Except Err Bool := .error .type

/-! ## ALG: `__hash__` -/

/-- `Bits.__hash__` (bits.py:475-490) — what the built-in `hash` is applied to; `BitArray.__hash__ = None`
    (bitarray_.py:73; `BitStream` inherits it before `Bits.__hash__` in its MRO) makes `hash()` a TypeError.
    `_lsb0` is the value of `bitstring.options.lsb0` while `hash()` runs: since fix 42091e9 nothing on this path
    (`len`, `tobytes`, `_absolute_slice` → `getslice_msb0`, `__add__`) dispatches on it, so the transcription does
    not read it; the harness evaluates `hash()` under both settings for every hashable object. -/
def hashAlg (T A B : Nat) (_lsb0 : Bool) (o : Obj) : Except Err Key :=
  if o.cls.isMutable then .error .type
  else if o.store.len ≤ T then .ok (o.store.tobytes, o.store.len)
  else
    match absoluteSlice o.store 0 (A : Int),                                        -- _absolute_slice(0, 800)
          absoluteSlice o.store ((o.store.len : Int) - (B : Int)) (o.store.len : Int) with   -- (len - 800, len)
    | .ok x, .ok y => .ok ((x.add y).tobytes, o.store.len)
    | .error e, _ => .error e
    | _, .error e => .error e

/-- `b in {a}` / `b in {a: v}`: both hashes are taken (TypeError for an unhashable object), then equal hashes
    and `a == b`. -/
def inSet (T A B : Nat) (lsb0 : Bool) (a b : Obj) : Except Err Bool :=
  match hashAlg T A B lsb0 a, hashAlg T A B lsb0 b with
  | .ok ka, .ok kb => .ok (decide (ka = kb) && eqObj a b)
  | .error e, _ => .error e
  | _, .error e => .error e

/-! ## driver -/

def splitOnChar (sep : Char) : List Char → List (List Char)
  | [] => [[]]
  | c :: cs =>
    match splitOnChar sep cs with
    | [] => [[]]
    | t :: ts => if c = sep then [] :: t :: ts else (c :: t) :: ts

def hexDigit (n : Nat) : Char := if n < 10 then Char.ofNat (48 + n) else Char.ofNat (87 + n)

def bytesToHex (b : List Nat) : String :=
  if b.isEmpty then "-" else String.ofList (b.flatMap fun v => [hexDigit (v / 16), hexDigit (v % 16)])

def hexToBytes? : List Char → Option (List Nat)
  | [] => some []
  | [_] => none
  | a :: b :: rest =>
    match hexVal? a, hexVal? b, hexToBytes? rest with
    | some x, some y, some r => some ((16 * x + y) :: r)
    | _, _, _ => none

def hexField? (s : String) : Option (List Nat) := if s = "-" then some [] else hexToBytes? s.toList

/-- How the harness built the object; the model runs the constructor the route goes through. -/
def mkStore (route : String) (bits tail : Bits) : Except Err Store :=
  if route = "file" then Store.frombuffer (bits ++ tail) none
  else if route = "filefull" || route = "filelen" then Store.frombuffer (bits ++ tail) (some (bits.length : Int))
  else .ok { raw := bits }

/-- `Cls,route,pos,bits,tail[,…]` -/
def objOfStr? (s : String) : Option Obj :=
  match s.splitOn "," with
  | c :: route :: p :: b :: t :: _ =>
    match Cls.ofStr? c, p.toNat?, bitsOfStr? b, bitsOfStr? t with
    | some k, some pos, some bits, some tail =>
      match mkStore route bits tail with
      | .ok st => some ⟨k, st, pos⟩
      | .error _ => none
    | _, _, _, _ => none
  | _ => none

def elemOfStr? (t : List Char) : Option Elem :=
  match t with
  | ['T'] => some (.bool true)
  | ['F'] => some (.bool false)
  | ['N'] => some .none
  | 'i' :: r => (String.ofList r).toInt?.map .int
  | 's' :: r => some (.str r)
  | ['f', 'z'] => some (.float true)
  | ['f', 'n'] => some (.float false)
  | 'L' :: r => (String.ofList r).toNat?.map .list
  | _ => none

def operandOfStr? (kind payload : String) : Option Operand :=
  if kind = "str" then some (.str (payload.toList.drop 1))
  else if kind = "bytes" || kind = "bytearray" || kind = "memoryview" then (hexField? payload).map .bytes
  else if kind = "bytesio" then (hexField? payload).map .bytesIO
  else if kind = "mvslice" then
    -- a memoryview slice `memoryview(data)[a:b:c]`: its content is the Python slice of the bytes
    match payload.splitOn ";" with
    | [h, sl] =>
      match hexField? h, (sl.splitOn ":").map optIntOfStr? with
      | some bs, [some a, some b, some c] =>
        match Py.getSlice bs a b c with
        | .ok r => some (.bytes r)
        | .error _ => none
      | _, _ => none
    | _ => none
  else if kind = "fileobj" then (hexField? payload).map .fileObj
  else if kind = "array" then
    match payload.splitOn ":" with
    | [_, h] => (hexField? h).map .array
    | _ => none
  else if kind = "bitarray" then (bitsOfStr? payload).map (.bitarray false)
  else if kind = "bitarrayle" then (bitsOfStr? payload).map (.bitarray true)
  else if kind = "list" || kind = "tuple" || kind = "gen" then
    if payload = "-" then some (.iterable []) else
    ((splitOnChar ',' payload.toList).mapM elemOfStr?).map .iterable
  else if kind = "range" then
    match (payload.splitOn ":").map String.toInt? with
    | [some a, some b, some c] => if c = 0 then none else some (.iterable ((Py.rangeList a b c).map .int))
    | _ => none
  else if kind = "int" || kind = "bool" then some .integral
  else if kind = "float" || kind = "none" || kind = "object" || kind = "complex" || kind = "class" ||
          kind = "func" then some .other
  else none

def tf : Except Err Bool → String
  | .ok true => "T" | .ok false => "F" | .error _ => "E"

/-- `a==x a!=x x==a x!=a` — the reflected forms fall back to `a.__eq__(x)` / `a.__ne__(x)` (Python's protocol
    for an operand whose own `__eq__` declines). -/
def fourOp (a : Obj) (x : Operand) : String :=
  tf (eqAlg a x) ++ tf (neAlg a x) ++ tf (eqAlg a x) ++ tf (neAlg a x)

def fourObj (a b : Obj) : String :=
  tf (eqAlg a (.bitstring b)) ++ tf (neAlg a (.bitstring b)) ++ tf (eqAlg b (.bitstring a)) ++ tf (neAlg b (.bitstring a))

/-- hash relation of two objects, reported only where the property fixes it: both hashable and `a == b`. -/
def hrel (T A B : Nat) (lsb0 : Bool) (a b : Obj) : String :=
  match hashAlg T A B lsb0 a, hashAlg T A B lsb0 b with
  | .ok ka, .ok kb => if eqObj a b then (if ka = kb then "=" else "!") else "-"
  | _, _ => "-"

def hable (o : Obj) : String := if o.cls.isMutable then "u" else "h"

def paramsOfStr? (s : String) : Option (Nat × Nat × Nat) :=
  match (s.splitOn ",").map String.toNat? with
  | [some t, some a, some b] => some (t, a, b)
  | _ => none

def handle (args : List String) : String :=
  match args with
  | op :: lsb :: params :: rest =>
    match paramsOfStr? params with
    | none => "bad-op"
    | some (T, A, B) =>
      let lsb0 := lsb = "1"
      match op, rest with
      | "pair", [sa, sb] =>
        match objOfStr? sa, objOfStr? sb with
        | some a, some b => s!"ok {fourObj a b} {hrel T A B lsb0 a b} {hable a}{hable b}"
        | _, _ => "bad-op"
      | "triple", [sa, sb, sc] =>
        match objOfStr? sa, objOfStr? sb, objOfStr? sc with
        | some a, some b, some c =>
          let e (x y : Obj) := tf (eqAlg x (.bitstring y))
          let m := e a a ++ e a b ++ e a c ++ e b a ++ e b b ++ e b c ++ e c a ++ e c b ++ e c c
          s!"ok {m} {hrel T A B lsb0 a b}{hrel T A B lsb0 b c}{hrel T A B lsb0 a c}"
        | _, _, _ => "bad-op"
      | "prom", [sa, kind, payload] =>
        match objOfStr? sa, operandOfStr? kind payload with
        | some a, some x => s!"ok {fourOp a x}"
        | _, _ => "bad-op"
      | "promst", [sa, _order, kind, _state, payload] =>
        -- the SAME operand object, in some earlier state (written, partly read, used before …), compared eight
        -- times (each form twice) and then used twice as an initialiser: an operand has no state in the model —
        -- promotion takes the whole content — so every evaluation is the same function of the content.
        match objOfStr? sa, operandOfStr? kind payload with
        | some a, some x =>
          let e := tf (eqAlg a x)
          let n := tf (neAlg a x)
          let built : String :=
            match promote x with
            | .ok st =>
              let b : Obj := ⟨a.cls, st, 0⟩
              let c : Obj := ⟨a.cls, st, 0⟩
              let r : Obj := ⟨a.cls, { raw := st.bits }, 0⟩
              let hs := match inSet T A B lsb0 r b, inSet T A B lsb0 b c with
                | .ok p, .ok q => (if p then "T" else "F") ++ (if q then "T" else "F")
                | _, _ => "UU"
              tf (eqAlg b (.bitstring r)) ++ tf (eqAlg c (.bitstring r)) ++ tf (eqAlg b (.bitstring c)) ++ hs
            | .error _ => "E"
          s!"ok {e}{e}{n}{n}{e}{e}{n}{n} {built}"
        | _, _ => "bad-op"
      | "nonprom", [sa, kind, payload] =>
        match objOfStr? sa, operandOfStr? kind payload with
        | some a, some x => s!"ok {fourOp a x}"
        | _, _ => "bad-op"
      | "hash", [sa] =>
        match objOfStr? sa with
        | some a => resultToStr (fun (k : Key) => s!"{bytesToHex k.1} {k.2}") (hashAlg T A B lsb0 a)
        | none => "bad-op"
      | "hashu", [sa] =>
        match objOfStr? sa with
        | some a => resultToStr (fun (_ : Key) => "h") (hashAlg T A B lsb0 a)
        | none => "bad-op"
      | "member", [sa, sb] =>
        match objOfStr? sa, objOfStr? sb with
        | some a, some b =>
          let l := tf (eqAlg a (.bitstring b))
          match inSet T A B lsb0 a b with
          | .ok r => s!"ok {l} {if r then "T" else "F"} {if r then "1" else "2"}"
          | .error _ => s!"ok {l} U U"
        | _, _ => "bad-op"
      | _, _ => "bad-op"
  | _ => "bad-op"

end BM.C13
