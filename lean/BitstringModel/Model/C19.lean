/-
  Model/C19.lean — printable forms: `str`, `repr`, `pp` (bin / oct / hex), `Array.__repr__`.

  Text is `Str := List Char` throughout (converted to `String` only on the wire).

  SPEC layer
    * `binDigits / octDigits / hexDigits`, `digits f` — the digit string of a bit list in base 2 / 8 / 16
      (one character per 1 / 3 / 4 bits, most significant first);
    * `strForm l`      — what `str(s)` has to be (msb0 reading of the slices in `Bits.__str__`);
    * `parseAuto`      — the meaning of an initialiser string made of `0x… / 0o… / 0b…` literals
      separated by commas (what `Bits(<str>)` builds);  `parseRepr` — `eval` of the text of `repr`;
    * `groupsOf`       — the groups of `bpg` bits a value is made of (from the left in msb0, from the right in lsb0).
  ALG layer (function by function, bitstring/bits.py at /repo 19a4a37 unless another file is named)
    * `strFormAlg lsb0 l`  — `Bits.__str__` (259-283) with the slices it really takes (`_absolute_slice`: msb0 under either option);
    * `reprFormAlg`        — `Bits._repr` (285-294), `Bits.__repr__` (296-302), `ConstBitStream.__repr__` (bitstream.py:197-203);
      `reprFileAlg`, `reprFileObj` — the `_filename` branch of `_repr` (287-289, taken only for an immutable store; `_setfile` 561-591);
    * `cut`                — `Bits.cut` (1422-1449) through `_slice` → `BitStore.getslice` (msb0 / lsb0);
    * `mkDtype`, `processTokens` — `Dtype(name, length)` for bin/oct/hex (dtypes.py `get_dtype` 323-341, allowed lengths
      `(0, 4, 8, ...)`, `(0, 3, 6, ...)`) and `Bits._process_pp_tokens` (1738-1771);
    * `Fmt.b2c`, `bitsPerChar` — `hex_bits2chars` … (`__init__.py`:116-133), `_chars_per_group` (1655-1660),
      `_bits_per_char` (1662-1667);
    * `formatBits`         — `Bits._format_bits` (1627-1653);
    * `maxBitsPerLine`, `ppLoop`, `ppLines` — `Bits._pp` (1669-1736);   `pp` — `Bits.pp` (1773-1812);
    * `ink`                — bitstring_options.py `Colour.__new__` (89-99);
    * `arrayPP`            — `Array.pp` (array_.py:412-468) for bin / oct / hex formats;
    * `arrayRepr`          — `Array.__repr__` (array_.py:267-279) for uint / int / bin / oct / hex / bool items.
  GENERATED: `Gen.maxChars` (= `MAX_CHARS`), `Gen.ppDefaultBin/Hex/Oct`, and the graphs `Gen.*Bits2chars`
  (tied to `Fmt.b2c` by the obligations in Props/C19.lean).
-/
import BitstringModel.Model.Basic
import BitstringModel.Gen.PrintConsts
namespace BM.C19
open BM

abbrev Str := List Char

/-! ## SPEC: digits -/

/-- The digit characters `0-9a-f` (lower case, as `ba2hex`, `ba2base(8, …)`, `to01` print them). -/
def digitChar : Nat → Char
  | 0 => '0' | 1 => '1' | 2 => '2' | 3 => '3' | 4 => '4' | 5 => '5' | 6 => '6' | 7 => '7'
  | 8 => '8' | 9 => '9' | 10 => 'a' | 11 => 'b' | 12 => 'c' | 13 => 'd' | 14 => 'e' | 15 => 'f'
  | _ => '?'

/-- `s.bin`: one character per bit. -/
def binDigits : Bits → Str
  | [] => []
  | a :: t => digitChar (bitsToNat [a]) :: binDigits t

/-- `s.oct`: one character per three bits (bits that do not fill a digit are not printed — callers check). -/
def octDigits : Bits → Str
  | a :: b :: c :: t => digitChar (bitsToNat [a, b, c]) :: octDigits t
  | _ => []

/-- `s.hex`: one character per four bits. -/
def hexDigits : Bits → Str
  | a :: b :: c :: d :: t => digitChar (bitsToNat [a, b, c, d]) :: hexDigits t
  | _ => []

/-- The three printable formats the property is about. -/
inductive Fmt where
  | bin | oct | hex
  deriving Repr, DecidableEq, Inhabited

/-- Bits per printed character (SPEC). -/
def Fmt.bpc : Fmt → Nat
  | .bin => 1 | .oct => 3 | .hex => 4

def Fmt.name : Fmt → Str
  | .bin => ['b', 'i', 'n'] | .oct => ['o', 'c', 't'] | .hex => ['h', 'e', 'x']

def digits : Fmt → Bits → Str
  | .bin => binDigits | .oct => octDigits | .hex => hexDigits

/-- `dtype.get_fn(bits)` for bin / oct / hex: the `allowed_length_checked_get_fn` wrapper (dtypes.py:281-289)
    raises `InterpretError` (a `ValueError`) unless the length is a whole number of digits. -/
def getDigits (f : Fmt) (b : Bits) : Except Err Str :=
  if b.length % f.bpc ≠ 0 then .error .value else .ok (digits f b)

/-! ## decimal numbers (`str(int)` for naturals) -/

def natDecAux : Nat → Nat → Str → Str
  | 0, _, acc => acc
  | fuel + 1, n, acc =>
    let acc' := digitChar (n % 10) :: acc
    if n < 10 then acc' else natDecAux fuel (n / 10) acc'

/-- `str(n)`. -/
def natDec (n : Nat) : Str := natDecAux (n + 1) n []

def decVal? (c : Char) : Option Nat :=
  if c = '0' then some 0 else if c = '1' then some 1 else if c = '2' then some 2 else if c = '3' then some 3
  else if c = '4' then some 4 else if c = '5' then some 5 else if c = '6' then some 6 else if c = '7' then some 7
  else if c = '8' then some 8 else if c = '9' then some 9 else none

def parseNatAux : Nat → Str → Option Nat
  | acc, [] => some acc
  | acc, c :: t =>
    match decVal? c with
    | none => none
    | some d => parseNatAux (10 * acc + d) t

/-- `int(<digits>)`; `none` for the empty string or a non-digit. -/
def parseNat? (s : Str) : Option Nat :=
  if s = [] then none else parseNatAux 0 s

/-! ## `Bits.__str__` -/

/-- `self[a:b]` for `0 ≤ a ≤ b ≤ len` as `__str__`/`pp` use it: under lsb0 positions count from the right
    (`BitStore.getslice_lsb0` → `offset_slice_indices_lsb0`: `[a, b)` ↦ msb0 `[len-b, len-a)`). -/
def sliceAB (lsb0 : Bool) (l : Bits) (a b : Nat) : Bits :=
  if lsb0 then (l.drop (l.length - b)).take (b - a) else (l.drop a).take (b - a)

def dots : Str := ['.', '.', '.']
def pre0x : Str := ['0', 'x']
def pre0b : Str := ['0', 'b']
def commaSp : Str := [',', ' ']

/-- SPEC of `str(s)`: the text a reader re-parses to the same bits (msb0 slices). -/
def strForm (l : Bits) : Str :=
  let length := l.length
  if length = 0 then [] else
  if length > Gen.maxChars * 4 then pre0x ++ hexDigits (l.take (Gen.maxChars * 4)) ++ dots else
  if length < 32 ∧ length % 4 ≠ 0 then pre0b ++ binDigits l else
  if length % 4 = 0 then pre0x ++ hexDigits l else
  let e := length % 4
  pre0x ++ hexDigits (l.take (length - e)) ++ commaSp ++ pre0b ++ binDigits (l.drop (length - e))

/-- ALG: `Bits.__str__` (bits.py:259-283) as written.  Its slices are `self._absolute_slice(a, b)`
    (→ `BitStore.getslice_msb0`), i.e. msb0 positions whatever `options.lsb0` says (since /repo 55378c7; before,
    `self[a:b]` obeyed lsb0 and the mixed and truncated forms came out wrong under lsb0).  The parameter `lsb0` is
    kept so that every caller states under which option it runs. -/
def strFormAlg (_lsb0 : Bool) (l : Bits) : Str :=
  let length := l.length
  if length = 0 then [] else
  if length > Gen.maxChars * 4 then
    pre0x ++ hexDigits (sliceAB false l 0 (Gen.maxChars * 4)) ++ dots else
  if length < 32 ∧ length % 4 ≠ 0 then pre0b ++ binDigits l else
  if length % 4 = 0 then pre0x ++ hexDigits l else
  let e := length % 4
  pre0x ++ hexDigits (sliceAB false l 0 (length - e)) ++ commaSp ++ pre0b ++ binDigits (sliceAB false l (length - e) length)

/-! ## `repr` -/

def endsWithDots : Str → Bool
  | [] => false
  | [_] => false
  | [_, _] => false
  | [a, b, c] => a = '.' && b = '.' && c = '.'
  | _ :: t => endsWithDots t

def Cls.nameStr : Cls → Str
  | .bits => ['B', 'i', 't', 's']
  | .bitArray => ['B', 'i', 't', 'A', 'r', 'r', 'a', 'y']
  | .constBitStream => ['C', 'o', 'n', 's', 't', 'B', 'i', 't', 'S', 't', 'r', 'e', 'a', 'm']
  | .bitStream => ['B', 'i', 't', 'S', 't', 'r', 'e', 'a', 'm']

def clsOfName? (s : Str) : Option Cls :=
  if s = Cls.nameStr .bits then some .bits else if s = Cls.nameStr .bitArray then some .bitArray
  else if s = Cls.nameStr .constBitStream then some .constBitStream
  else if s = Cls.nameStr .bitStream then some .bitStream else none

/-- `", pos="` and `"  # length="`. -/
def posEq : Str := [',', ' ', 'p', 'o', 's', '=']
def lenComment : Str := [' ', ' ', '#', ' ', 'l', 'e', 'n', 'g', 't', 'h', '=']

/-- `Bits._repr(classname, length, pos)` for an object that is not file-backed (bits.py:285-294);
    `pos` is `0` for `Bits`/`BitArray` (`Bits.__repr__`) and `self._pos` for the stream classes. -/
def reprFormAlg (lsb0 : Bool) (cls : Cls) (l : Bits) (pos : Nat) : Str :=
  let posString : Str := if pos ≠ 0 then posEq ++ natDec pos else []
  let s := strFormAlg lsb0 l
  let lengthString : Str := if endsWithDots s then lenComment ++ natDec l.length else []
  Cls.nameStr cls ++ ['(', '\''] ++ s ++ ['\''] ++ posString ++ [')'] ++ lengthString

def reprForm (cls : Cls) (l : Bits) (pos : Nat) : Str :=
  let posString : Str := if pos ≠ 0 then posEq ++ natDec pos else []
  let s := strForm l
  let lengthString : Str := if endsWithDots s then lenComment ++ natDec l.length else []
  Cls.nameStr cls ++ ['(', '\''] ++ s ++ ['\''] ++ posString ++ [')'] ++ lengthString

/-! ## `repr` of an object created from a file -/

/-- What can have happened to a mutable object since it was created from the file. -/
inductive FileMut where
  | none | invert0 | append1 | del8 | overwrite8
  deriving Repr, DecidableEq

/-- The current value of an object created as `cls(filename=f)` from a file holding `file`, after the mutation. -/
def applyMut (m : FileMut) (file : Bits) : Bits :=
  match m with
  | .none => file
  | .invert0 => match file with | [] => [] | b :: t => (!b) :: t
  | .append1 => file ++ [true]
  | .del8 => file.drop 8
  | .overwrite8 => List.replicate (min 8 file.length) true ++ file.drop 8

/-- The `_filename` branch of `Bits._repr` (bits.py:287-289; `_setfile` sets `_filename` when the offset is 0,
    bits.py:574): the file name and the current length and pos.  `fname` is the quoted path as `{self._filename!r}` prints it. -/
def reprFileAlg (cls : Cls) (fname : Str) (len pos : Nat) : Str :=
  let posString : Str := if pos ≠ 0 then posEq ++ natDec pos else []
  Cls.nameStr cls ++ ['(', 'f', 'i', 'l', 'e', 'n', 'a', 'm', 'e', '='] ++ fname ++
    [',', ' ', 'l', 'e', 'n', 'g', 't', 'h', '='] ++ natDec len ++ posString ++ [')']

/-- SPEC: the value `cls(filename=f, length=n)` builds: the first `n` bits of the file (`CreationError` if the file
    is shorter). -/
def evalFileRepr (file : Bits) (n : Nat) : Except Err Bits :=
  if n > file.length then .error .value else .ok (file.take n)

/-- ALG: `repr` of an object created as `cls(filename=f)` (offset 0) and then changed by `m` (`_repr`, bits.py:285-295):
    the file is named only while `self._bitstore.immutable`, i.e. for `Bits`/`ConstBitStream` (which cannot change);
    a `BitArray`/`BitStream` owns an in-memory copy from construction on (bitarray_.py `__init__`, bitstream.py
    `__init__`) and is described by its bits like any other.  (Before /repo 19a4a37 the file was named for every class:
    finding `file-repr-after-mutation`, fixed.) -/
def reprFileObj (cls : Cls) (fname : Str) (m : FileMut) (file : Bits) (pos : Nat) : Str :=
  let cur := applyMut m file
  if cls.isMutable then reprFormAlg false cls cur pos else reprFileAlg cls fname cur.length pos

/-! ## SPEC: the meaning of a literal initialiser string (`Bits('0x1f, 0b101')`)

  `str_to_bitstore` (bitstore_helpers.py:28) → `utils.tokenparser` → `preprocess_tokens`: all whitespace removed,
  split on `,`, empty tokens skipped; a token matching `LITERAL_RE = ^(0[xob])(.+)` (ignoring case) goes to
  `hex2bitstore / oct2bitstore / bin2bitstore`: `tidy_input_string` (lower case, `_` removed), every `0x` (`0o`, `0b`)
  removed, the rest must be digits of the base.  Anything else is outside this sub-language: `err`. -/

def isWs (c : Char) : Bool :=
  c = ' ' || c = '\t' || c = '\n' || c = '\r' || c = '\x0b' || c = '\x0c' ||
  c = '\x1c' || c = '\x1d' || c = '\x1e' || c = '\x1f'

def removeWs (s : Str) : Str := s.filter fun c => !isWs c

def splitComma : Str → List Str
  | [] => [[]]
  | c :: t =>
    if c = ',' then [] :: splitComma t
    else match splitComma t with
      | [] => [[c]]
      | h :: r => (c :: h) :: r

/-- `str.lower()` on the ASCII letters. -/
def lowerC (c : Char) : Char :=
  if c = 'A' then 'a' else if c = 'B' then 'b' else if c = 'C' then 'c' else if c = 'D' then 'd'
  else if c = 'E' then 'e' else if c = 'F' then 'f' else if c = 'G' then 'g' else if c = 'H' then 'h'
  else if c = 'I' then 'i' else if c = 'J' then 'j' else if c = 'K' then 'k' else if c = 'L' then 'l'
  else if c = 'M' then 'm' else if c = 'N' then 'n' else if c = 'O' then 'o' else if c = 'P' then 'p'
  else if c = 'Q' then 'q' else if c = 'R' then 'r' else if c = 'S' then 's' else if c = 'T' then 't'
  else if c = 'U' then 'u' else if c = 'V' then 'v' else if c = 'W' then 'w' else if c = 'X' then 'x'
  else if c = 'Y' then 'y' else if c = 'Z' then 'z' else c

/-- `s.replace(a+b, '')` for a two-character pattern: left to right, non-overlapping. -/
def remove2 (a b : Char) : Str → Str
  | [] => []
  | [x] => [x]
  | x :: y :: t => if x = a ∧ y = b then remove2 a b t else x :: remove2 a b (y :: t)

/-- Value of a (lower-case) hexadecimal digit. -/
def hexVal? (c : Char) : Option Nat :=
  if c = '0' then some 0 else if c = '1' then some 1 else if c = '2' then some 2 else if c = '3' then some 3
  else if c = '4' then some 4 else if c = '5' then some 5 else if c = '6' then some 6 else if c = '7' then some 7
  else if c = '8' then some 8 else if c = '9' then some 9 else if c = 'a' then some 10 else if c = 'b' then some 11
  else if c = 'c' then some 12 else if c = 'd' then some 13 else if c = 'e' then some 14 else if c = 'f' then some 15
  else none

/-- One digit of base `2^k` ↦ its `k` bits. -/
def digitBits (k : Nat) (c : Char) : Option Bits :=
  match hexVal? c with
  | some v => if v < 2 ^ k then some (natToBits k v) else none
  | none => none

/-- The digits of a literal ↦ bits (`hex2ba`, `base2ba(8, …)`, `bitarray(<01 string>)`). -/
def digitsToBits (k : Nat) : Str → Option Bits
  | [] => some []
  | c :: t =>
    match digitBits k c, digitsToBits k t with
    | some b, some r => some (b ++ r)
    | _, _ => none

/-- One comma-separated token of the literal sub-language. -/
def parseToken (tok : Str) : Except Err Bits :=
  match tok with
  | z :: p :: v :: rest =>
    if z ≠ '0' then .error .value else
    let value := ((v :: rest).map lowerC).filter (· ≠ '_')
    let go (k : Nat) (a b : Char) : Except Err Bits :=
      match digitsToBits k (remove2 a b value) with
      | some bits => .ok bits
      | none => .error .value
    if p = 'x' ∨ p = 'X' then go 4 '0' 'x'
    else if p = 'o' ∨ p = 'O' then go 3 '0' 'o'
    else if p = 'b' ∨ p = 'B' then go 1 '0' 'b'
    else .error .value
  | _ => .error .value

def parseTokens : List Str → Except Err Bits
  | [] => .ok []
  | t :: ts =>
    if t = [] then parseTokens ts else
    match parseToken t with
    | .error e => .error e
    | .ok b =>
      match parseTokens ts with
      | .error e => .error e
      | .ok r => .ok (b ++ r)

/-- `Bits(<string>)` on the literal sub-language. -/
def parseAuto (s : Str) : Except Err Bits := parseTokens (splitComma (removeWs s))

/-! ## SPEC: `eval` of the text produced by `repr`

  `<Class>('<string>'[, pos=<n>])[  # comment]` — a call of the named class on a string literal (no escapes: the
  string consists of digits, `x`, `b`, `,`, space and `.`), an optional keyword `pos`, an optional comment. -/

def splitAtChar (c : Char) : Str → Option (Str × Str)
  | [] => none
  | x :: t => if x = c then some ([], t) else (splitAtChar c t).map fun (a, b) => (x :: a, b)

def isPrefixStr : Str → Str → Option Str
  | [], r => some r
  | _ :: _, [] => none
  | a :: p, b :: r => if a = b then isPrefixStr p r else none

def parseRepr (s : Str) : Except Err (Cls × Bits × Nat) :=
  match splitAtChar '(' s with
  | none => .error .value
  | some (name, rest) =>
    match clsOfName? name with
    | none => .error .value
    | some cls =>
      match rest with
      | '\'' :: rest =>
        match splitAtChar '\'' rest with
        | none => .error .value
        | some (lit, after) =>
          match parseAuto lit with
          | .error e => .error e
          | .ok bits =>
            -- either `)` or `, pos=<n>)`, then nothing or a `#` comment after blanks
            let tail (r : Str) : Bool := match removeWs r with | [] => true | c :: _ => c = '#'
            match after with
            | ')' :: r => if tail r then .ok (cls, bits, 0) else .error .value
            | _ =>
              match isPrefixStr posEq after with
              | none => .error .value
              | some r =>
                match splitAtChar ')' r with
                | none => .error .value
                | some (ds, r') =>
                  match parseNat? ds with
                  | none => .error .value
                  | some p =>
                    -- the stream constructors reject pos outside [0, len]; Bits/BitArray take no pos keyword
                    if ¬ cls.hasPos then .error .type
                    else if p > bits.length then .error .value
                    else if tail r' then .ok (cls, bits, p) else .error .value
      | _ => .error .value

/-! ## `Bits.cut` -/

/-- The loop of `Bits.cut` (bits.py:1440-1449) in msb0: `nextchunk = self._slice(start, min(start+bits, end))`,
    stop on an empty chunk, stop after a short chunk. -/
def cutAux (n : Nat) : Nat → Bits → List Bits
  | 0, _ => []
  | fuel + 1, l =>
    let c := l.take n
    if c.length = 0 then [] else
    if c.length ≠ n then [c] else c :: cutAux n fuel (l.drop n)

def cutMsb (n : Nat) (l : Bits) : List Bits := cutAux n (l.length + 1) l

/-- `self.cut(n)`.  Under lsb0 `_slice(a, b)` addresses bit positions from the right end, i.e. it is the msb0 slice
    of the reversed bit list, reversed back: the chunks come out least-significant first, each in its normal order. -/
def cut (lsb0 : Bool) (n : Nat) (l : Bits) : List Bits :=
  if lsb0 then (cutMsb n l.reverse).map List.reverse else cutMsb n l

/-- SPEC: the groups of `bpg` bits of a value, in the order pp lists them. -/
def groupsOf (lsb0 : Bool) (bpg : Nat) (data : Bits) : List Bits := cut lsb0 bpg data

/-! ## pp: tokens -/

/-- A format token `hex`, `hex:8`, `hex8`. -/
structure Tok where
  fmt : Fmt
  len : Option Nat
  deriving Repr, DecidableEq

/-- `Dtype(name, length)` → `DtypeDefinition.get_dtype` (dtypes.py:323-341): a given length must be in
    `allowed_lengths` — `(0, 4, 8, ...)` for hex, `(0, 3, 6, ...)` for oct, anything for bin. -/
def mkDtype (t : Tok) : Except Err Unit :=
  match t.len with
  | none => .ok ()
  | some n => if n % t.fmt.bpc ≠ 0 then .error .value else .ok ()

/-- `hex_bits2chars`, `oct_bits2chars`, `bin_bits2chars` (`__init__.py`:116-128). -/
def Fmt.b2c : Fmt → Nat → Nat
  | .bin, n => n
  | .oct, n => n / 3
  | .hex, n => n / 4

/-- `Bits._bits_per_char(fmt)` = `24 // bitlength2chars_fn(24)`. -/
def bitsPerChar (f : Fmt) : Nat := 24 / f.b2c 24

/-- `{'bin': 8, 'hex': 8, 'oct': 12, 'bytes': 32}.get(name)` — the literal is re-read from the source (GENERATED). -/
def defaultGroup : Fmt → Nat
  | .bin => Gen.ppDefaultBin | .oct => Gen.ppDefaultOct | .hex => Gen.ppDefaultHex

/-- `Bits._process_pp_tokens` (bits.py:1738-1771) → `(bits_per_group, has_length_in_fmt)`. -/
def processTokens (t1 : Tok) (t2 : Option Tok) : Except Err (Nat × Bool) :=
  match mkDtype t1 with
  | .error e => .error e
  | .ok () =>
    let two : Except Err (Option Nat) :=
      match t2 with
      | none => .ok t1.len
      | some u =>
        match mkDtype u with
        | .error e => .error e
        | .ok () =>
          match t1.len, u.len with
          | some a, some b => if a ≠ b then .error .value else .ok (some a)
          | some a, none => .ok (some a)
          | none, x => .ok x
    match two with
    | .error e => .error e
    | .ok (some b) => .ok (b, true)
    | .ok none =>
      match t2 with
      | none => if defaultGroup t1.fmt = 0 then .error .value else .ok (defaultGroup t1.fmt, false)
      | some u =>
        let b := 2 * bitsPerChar t1.fmt * bitsPerChar u.fmt
        .ok (if b ≥ 24 then b / 2 else b, false)

/-! ## pp: one column of one line (`_format_bits`) -/

/-- `f"{s: <n}"` / `f"{s: >n}"`: pad with blanks to at least `n` characters. -/
def padRight (n : Nat) (s : Str) : Str := s ++ List.replicate (n - s.length) ' '
def padLeft (n : Nat) (s : Str) : Str := List.replicate (n - s.length) ' ' ++ s

/-- `sep.join(xs)`. -/
def joinSep (sep : Str) : List Str → Str
  | [] => []
  | [a] => a
  | a :: b :: t => a ++ sep ++ joinSep sep (b :: t)

def mapE {α β} (f : α → Except Err β) : List α → Except Err (List β)
  | [] => .ok []
  | a :: t =>
    match f a with
    | .error e => .error e
    | .ok b =>
      match mapE f t with
      | .error e => .error e
      | .ok bs => .ok (b :: bs)

/-- What `_format_bits` computes before colouring and padding: the digit strings of the groups (`get_fn(b)` for
    `b in bits.cut(bits_per_group)`) and the joined text `x`.  Groups are left-aligned in
    `chars_per_group` columns in msb0, right-aligned in lsb0. -/
structure Fb where
  groups : List Str
  x : Str
  deriving Repr

def formatBits (lsb0 : Bool) (bits : Bits) (bpg : Nat) (sep : Str) (f : Fmt) : Except Err Fb :=
  if bpg = 0 then
    match getDigits f bits with
    | .error e => .error e
    | .ok d => .ok ⟨[d], d⟩
  else
    let cpg := f.b2c bpg
    match mapE (getDigits f) (cut lsb0 bpg bits) with
    | .error e => .error e
    | .ok gs => .ok ⟨gs, joinSep sep (gs.map (if lsb0 then padLeft cpg else padRight cpg))⟩

/-! ## pp: lines (`_pp`) -/

/-- A piece of an output line: either a terminal escape sequence (empty when colour is off) or visible text. -/
structure Seg where
  esc : Bool
  text : Str
  deriving Repr

inductive Ink where
  | blue | purple | green | off

/-- `Colour(use_colour)` (bitstring_options.py). -/
def ink (colour : Bool) (c : Ink) : Seg :=
  ⟨true, if colour then
      match c with
      | .blue => ['\x1b', '[', '3', '4', 'm']
      | .purple => ['\x1b', '[', '3', '5', 'm']
      | .green => ['\x1b', '[', '3', '2', 'm']
      | .off => ['\x1b', '[', '0', 'm']
    else []⟩

structure Line where
  /-- the digit strings of the groups of the first / second format, in printing order -/
  groups1 : List Str
  groups2 : Option (List Str)
  segs : List Seg
  deriving Repr

/-- What is written to the stream for the line (without the newline). -/
def Line.emitted (ln : Line) : Str := ln.segs.flatMap (·.text)
/-- What a terminal shows. -/
def Line.visible (ln : Line) : Str := (ln.segs.filter fun s => !s.esc).flatMap (·.text)

structure PPCfg where
  f1 : Fmt
  f2 : Option Fmt
  bpg : Nat
  width : Nat
  sep : Str
  showOffset : Bool
  lsb0 : Bool
  colour : Bool

def formatSep : Str := [' ', ':', ' ']

/-- `offset_width` (bits.py:1679-1683). -/
def offsetWidth (c : PPCfg) (data : Bits) : Nat :=
  if c.showOffset then (natDec data.length).length + 2 else 0

/-- `max_bits_per_line` (bits.py:1684-1706).  Python's `max(w - a - b - …, 0)` is truncated subtraction on `Nat`. -/
def maxBitsPerLine (c : PPCfg) (ow : Nat) : Except Err Nat :=
  if c.bpg > 0 then
    let gc1 := c.f1.b2c c.bpg
    let gc2 := match c.f2 with | none => 0 | some f => f.b2c c.bpg
    let b2 := if gc2 ≠ 0 then 1 else 0
    let total := gc1 + gc2 + c.sep.length + c.sep.length * b2
    let wex := c.width - ow - gc1 - gc2 - formatSep.length * b2
    -- `1 + (wex // total if total else 0)` (a zero `total` needs a type without a printed width: not bin/oct/hex)
    let groupsPerLine := 1 + (if total = 0 then 0 else wex / total)
    .ok (groupsPerLine * c.bpg)
  else
    let wa := max (c.width - ow - formatSep.length * (if c.f2.isSome then 1 else 0)) 1
    match c.f2 with
    | none => .ok (wa * bitsPerChar c.f1)
    | some f2 =>
      let c24 := c.f1.b2c 24 + f2.b2c 24
      if c24 = 0 then .error (.internal "ZeroDivisionError") else
      let m := 24 * (wa / c24)
      .ok (if m = 0 then 24 else m)

/-- `fb` as it appears in the line: colour on, text, colour off, and the blanks that align the final line
    (on the right in msb0, on the left in lsb0). -/
def fbSegs (colour lsb0 : Bool) (c : Ink) (x : Str) (pad : Nat) : List Seg :=
  let body := [ink colour c, ⟨false, x⟩, ink colour .off]
  let sp : Seg := ⟨false, List.replicate pad ' '⟩
  if lsb0 then sp :: body else body ++ [sp]

def offsetSegs (colour lsb0 : Bool) (offset ow : Nat) : List Seg :=
  if lsb0 then [ink colour .green, ⟨false, [' ', ':'] ++ padRight (ow - 2) (natDec offset)⟩, ink colour .off]
  else [ink colour .green, ⟨false, padLeft (ow - 2) (natDec offset) ++ [':', ' ']⟩, ink colour .off]

/-- The `for bits in self.cut(max_bits_per_line)` loop (bits.py:1708-1735) with its state
    `bitpos`, `first_fb_width`, `second_fb_width`. -/
def ppLoop (c : PPCfg) (ow : Nat) : List Bits → Nat → Option Nat → Option Nat → Except Err (List Line)
  | [], _, _, _ => .ok []
  | bits :: rest, bitpos, fw1, fw2 =>
    let offs := if c.showOffset then offsetSegs c.colour c.lsb0 bitpos ow else []
    match formatBits c.lsb0 bits c.bpg c.sep c.f1 with
    | .error e => .error e
    | .ok fb1 =>
      let pad1 := match fw1 with | none => 0 | some w => w - fb1.x.length
      let fw1' := match fw1 with | none => some fb1.x.length | some w => some w
      let s1 := fbSegs c.colour c.lsb0 .purple fb1.x pad1
      let second : Except Err (Option (List Str) × List Seg × Option Nat) :=
        match c.f2 with
        | none => .ok (none, [], fw2)
        | some f2 =>
          match formatBits c.lsb0 bits c.bpg c.sep f2 with
          | .error e => .error e
          | .ok fb2 =>
            let pad2 := match fw2 with | none => 0 | some w => w - fb2.x.length
            let fw2' := match fw2 with | none => some fb2.x.length | some w => some w
            .ok (some fb2.groups, ⟨false, formatSep⟩ :: fbSegs c.colour c.lsb0 .blue fb2.x pad2, fw2')
      match second with
      | .error e => .error e
      | .ok (g2, s2, fw2') =>
        let segs := if c.lsb0 then s1 ++ s2 ++ offs else offs ++ s1 ++ s2
        match ppLoop c ow rest (bitpos + bits.length) fw1' fw2' with
        | .error e => .error e
        | .ok ls => .ok (⟨fb1.groups, g2, segs⟩ :: ls)

/-- `Bits._pp` on `data` (bits.py:1669-1736). -/
def ppLines (c : PPCfg) (data : Bits) : Except Err (List Line) :=
  let ow := offsetWidth c data
  match maxBitsPerLine c ow with
  | .error e => .error e
  | .ok m =>
    if m = 0 then .error (.internal "AssertionError") else          -- `assert max_bits_per_line > 0`
    ppLoop c ow (cut c.lsb0 m data) 0 none none

/-! ## pp: the public method -/

structure PPArgs where
  l : Bits
  t1 : Tok
  t2 : Option Tok
  width : Nat
  sep : Str
  showOffset : Bool
  lsb0 : Bool
  colour : Bool

structure Layout where
  lines : List Line
  /-- `str(self[-trailing_bit_length:])` when there are trailing bits -/
  trailing : Option Str
  deriving Repr

/-- `trailing_bit_length` (bits.py:1796). -/
def trailingLen (len bpg : Nat) (hasLen : Bool) : Nat :=
  if hasLen ∧ bpg ≠ 0 then len % bpg else 0

/-- `self[0:-t]` and `self[-t:]` for `0 < t ≤ len` (msb0: the first `len-t` bits / the last `t`;
    lsb0: the other way round). -/
def dataPart (lsb0 : Bool) (l : Bits) (t : Nat) : Bits := sliceAB lsb0 l 0 (l.length - t)
def trailingPart (lsb0 : Bool) (l : Bits) (t : Nat) : Bits := sliceAB lsb0 l (l.length - t) l.length

/-- SPEC: the bits pp prints as digits and the bits it reports as trailing, for `t` trailing bits:
    msb0 `data ++ trailing = l`, lsb0 `trailing ++ data = l`. -/
def ppData (lsb0 : Bool) (l : Bits) (t : Nat) : Bits := if lsb0 then l.drop t else l.take (l.length - t)
def ppTrailing (lsb0 : Bool) (l : Bits) (t : Nat) : Bits := if lsb0 then l.take t else l.drop (l.length - t)

def cfgOf (a : PPArgs) (bpg : Nat) : PPCfg :=
  ⟨a.t1.fmt, a.t2.map (·.fmt), bpg, a.width, a.sep, a.showOffset, a.lsb0, a.colour⟩

/-- `Bits.pp(fmt, width, sep, show_offset)` (bits.py:1773-1812) for one or two bin/oct/hex tokens. -/
def pp (a : PPArgs) : Except Err Layout :=
  match processTokens a.t1 a.t2 with
  | .error e => .error e
  | .ok (bpg, hasLen) =>
    let t := trailingLen a.l.length bpg hasLen
    let data := if t = 0 then a.l else dataPart a.lsb0 a.l t
    match ppLines (cfgOf a bpg) data with
    | .error e => .error e
    | .ok lines =>
      .ok ⟨lines, if t ≠ 0 then some (strFormAlg a.lsb0 (trailingPart a.lsb0 a.l t)) else none⟩

/-! ## `Array.pp` with bin / oct / hex formats -/

/-- `token_length` of `Array.pp` (array_.py:441-449): the first format's bit length, else the second's, else the
    item size of the Array's own dtype. -/
def arrayTokenLength (itemsize : Nat) (t1 : Tok) (t2 : Option Tok) : Nat :=
  match t1.len with
  | some a => a
  | none =>
    match t2 with
    | some ⟨_, some b⟩ => b
    | _ => itemsize

/-- `Array.pp(fmt, width, show_offset)` (array_.py:412-468) for one or two bin/oct/hex tokens (`fmt=None` on an Array
    of such a dtype is the token of the dtype): `Dtype(name, length)` for each token, differing explicit lengths and a
    zero length are `ValueError`; the separator is one blank; the data are `self.data` without the
    `len % token_length` trailing bits (a `BitArray` slice: obeys lsb0), laid out by `Bits._pp` in groups of
    `token_length` bits; offsets count items (`offset_factor = token_length`: same column width, values not observed). -/
def arrayPP (data : Bits) (itemsize : Nat) (t1 : Tok) (t2 : Option Tok) (width : Nat)
    (showOffset lsb0 colour : Bool) : Except Err Layout :=
  match mkDtype t1 with
  | .error e => .error e
  | .ok () =>
    let second : Except Err Unit := match t2 with | none => .ok () | some u => mkDtype u
    match second with
    | .error e => .error e
    | .ok () =>
      let differ : Bool := match t1.len, t2 with
        | some a, some ⟨_, some b⟩ => a != b
        | _, _ => false
      if differ then .error .value else
      let tl := arrayTokenLength itemsize t1 t2
      if tl = 0 then .error .value else
      let t := data.length % tl
      let d := if t = 0 then data else dataPart lsb0 data t
      match ppLines ⟨t1.fmt, t2.map (·.fmt), tl, width, [' '], showOffset, lsb0, colour⟩ d with
      | .error e => .error e
      | .ok lines =>
        .ok ⟨lines, if t ≠ 0 then some (strFormAlg lsb0 (trailingPart lsb0 data t)) else none⟩

/-! ## `Array.__repr__` for integer, bool and digit-string items (msb0) -/

inductive Kind where
  | uint | int | bin | oct | hex | bool
  deriving Repr, DecidableEq

def Kind.name : Kind → Str
  | .uint => "uint".toList | .int => "int".toList | .bin => "bin".toList
  | .oct => "oct".toList | .hex => "hex".toList | .bool => "bool".toList

def intDec (i : Int) : Str := if i < 0 then '-' :: natDec i.natAbs else natDec i.toNat

/-- `repr` of one item as `list.__repr__` prints it. -/
def itemRepr (k : Kind) (b : Bits) : Str :=
  match k with
  | .uint => natDec (bitsToNat b)
  | .int => intDec (bitsToInt b)
  | .bin => ['\''] ++ binDigits b ++ ['\'']
  | .oct => ['\''] ++ octDigits b ++ ['\'']
  | .hex => ['\''] ++ hexDigits b ++ ['\'']
  | .bool => match b with | [true] => "True".toList | _ => "False".toList

/-- `Array.tolist()` items: whole items only (`range(0, len - n + 1, n)`). -/
def itemsAux (n : Nat) : Nat → Bits → List Bits
  | 0, _ => []
  | fuel + 1, l => if l.length < n then [] else l.take n :: itemsAux n fuel (l.drop n)

def items (n : Nat) (l : Bits) : List Bits := if n = 0 then [] else itemsAux n (l.length + 1) l

/-- `Array.__repr__` (array_.py:267-279); `n` = item length in bits (> 0); `bool` prints no length.  Trailing bits are
    embedded by their `repr`, or — when there are more than `MAX_CHARS * 4` of them, so that `repr` would truncate —
    spelled out as `BitArray('0b…')` (since /repo 059409d; finding `array-long-trailing`, fixed). -/
def arrayRepr (k : Kind) (n : Nat) (data : Bits) : Str :=
  let dt := k.name ++ (if k = .bool then [] else natDec n)
  let listStr := ['['] ++ joinSep commaSp ((items n data).map (itemRepr k)) ++ [']']
  let t := data.length % n
  let trailing := data.drop (data.length - t)
  let final : Str := if t = 0 then [] else
    ", trailing_bits=".toList ++
      (if trailing.length > Gen.maxChars * 4 then
        Cls.nameStr .bitArray ++ ['(', '\''] ++ pre0b ++ binDigits trailing ++ ['\'', ')']
       else reprFormAlg false .bitArray trailing 0)
  "Array('".toList ++ dt ++ "', ".toList ++ listStr ++ final ++ [')']

/-! ## driver -/

def strOfWire (s : String) : Str :=
  -- `[text]` with `%XX` escapes for the characters that cannot travel on a tab-separated line
  let body := (s.toList.drop 1).dropLast
  let rec go : Nat → Str → Str
    | 0, _ => []
    | _, [] => []
    | fuel + 1, '%' :: a :: b :: t =>
      match hexVal? a, hexVal? b with
      | some x, some y => Char.ofNat (16 * x + y) :: go fuel t
      | _, _ => '%' :: go fuel (a :: b :: t)
    | fuel + 1, c :: t => c :: go fuel t
  go (body.length + 1) body

def wireOfStr (s : Str) : String := "[" ++ String.ofList s ++ "]"

def parseFmt? (name : Str) : Option Fmt :=
  if name = Fmt.name .bin then some .bin else if name = Fmt.name .oct then some .oct
  else if name = Fmt.name .hex then some .hex else none

/-- `hex`, `hex8`, `hex:8`. -/
def parseTok? (s : String) : Option Tok :=
  let cs := s.toList
  let name := cs.takeWhile Char.isAlpha
  let rest := cs.dropWhile Char.isAlpha
  let rest := match rest with | ':' :: r => r | r => r
  match parseFmt? name with
  | none => none
  | some f =>
    if rest = [] then some ⟨f, none⟩ else
    match parseNat? rest with
    | some n => some ⟨f, some n⟩
    | none => none

def sepOfCode? : String → Option Str
  | "e" => some [] | "s" => some [' '] | "u" => some ['_'] | "c" => some [',', ' ']
  | "d" => some ['-', '-'] | "t" => some [' ', '|', ' '] | "x" => some ['x', 'y', 'z', 'w']
  | _ => none

def boolOfWire? : String → Option Bool
  | "0" => some false | "1" => some true | _ => none

def lineToWire (ln : Line) : String :=
  let col (gs : List Str) : String := ",".intercalate (gs.map String.ofList)
  toString ln.visible.length ++ ":" ++ col ln.groups1 ++
    (match ln.groups2 with | none => "" | some g => "/" ++ col g)

def layoutToWire (colour : Bool) (lay : Layout) : String :=
  let t := match lay.trailing with | none => "-" | some s => String.ofList s
  let esc : String :=
    if colour then "-" else
    if lay.lines.any (fun ln => ln.emitted.any (· = '\x1b')) then "1" else "0"
  " ".intercalate (["T=" ++ t, "E=" ++ esc] ++ lay.lines.map lineToWire)

def kindOf? : String → Option Kind
  | "uint" => some .uint | "int" => some .int | "bin" => some .bin | "oct" => some .oct
  | "hex" => some .hex | "bool" => some .bool | _ => none

def handle (args : List String) : String :=
  match args with
  | "str" :: _cls :: bits :: lsb0 :: _ =>
    match bitsOfStr? bits, boolOfWire? lsb0 with
    | some l, some z => "ok " ++ wireOfStr (strFormAlg z l)
    | _, _ => "bad-op"
  | "repr" :: cls :: bits :: pos :: lsb0 :: _ =>
    match Cls.ofStr? cls, bitsOfStr? bits, pos.toNat?, boolOfWire? lsb0 with
    | some k, some l, some p, some z => "ok " ++ wireOfStr (reprFormAlg z k l (if k.hasPos then p else 0))
    | _, _, _, _ => "bad-op"
  | "parse" :: s :: _ =>
    match parseAuto (strOfWire s) with
    | .ok b => "ok " ++ bitsToWire b
    | .error _ => "err"
  | "pp" :: _cls :: bits :: f1 :: f2 :: width :: sep :: so :: lsb0 :: nc :: _ =>
    match bitsOfStr? bits, parseTok? f1, width.toNat?, sepOfCode? sep, boolOfWire? so, boolOfWire? lsb0, boolOfWire? nc with
    | some l, some t1, some w, some sp, some so, some z, some nc =>
      let t2? : Option (Option Tok) := if f2 = "-" then some none else (parseTok? f2).map some
      match t2? with
      | none => "bad-op"
      | some t2 =>
        match pp ⟨l, t1, t2, w, sp, so, z, !nc⟩ with
        | .ok lay => "ok " ++ layoutToWire (!nc) lay
        | .error (.internal n) => "err Internal:" ++ n
        | .error _ => "err"
    | _, _, _, _, _, _, _ => "bad-op"
  | "app" :: isz :: bits :: f1 :: f2 :: width :: so :: lsb0 :: nc :: _ =>
    match isz.toNat?, bitsOfStr? bits, parseTok? f1, width.toNat?, boolOfWire? so, boolOfWire? lsb0, boolOfWire? nc with
    | some isz, some l, some t1, some w, some so, some z, some nc =>
      let t2? : Option (Option Tok) := if f2 = "-" then some none else (parseTok? f2).map some
      match t2? with
      | none => "bad-op"
      | some t2 =>
        match arrayPP l isz t1 t2 w so z (!nc) with
        | .ok lay => "ok " ++ layoutToWire (!nc) lay
        | .error (.internal n) => "err Internal:" ++ n
        | .error _ => "err"
    | _, _, _, _, _, _, _ => "bad-op"
  | "arr" :: kind :: n :: bits :: _ =>
    match kindOf? kind, n.toNat?, bitsOfStr? bits with
    | some k, some n, some l => if n = 0 then "bad-op" else "ok " ++ wireOfStr (arrayRepr k n l)
    | _, _, _ => "bad-op"
  | "reprf" :: cls :: bits :: mu :: pos :: _ =>
    let m? : Option FileMut := match mu with
      | "none" => some .none | "invert0" => some .invert0 | "append1" => some .append1
      | "del8" => some .del8 | "overwrite8" => some .overwrite8 | _ => none
    match Cls.ofStr? cls, bitsOfStr? bits, m?, pos.toNat? with
    | some k, some file, some m, some p =>
      "ok " ++ wireOfStr (reprFileObj k ['\'', 'F', '\''] m file (if k.hasPos then p else 0))
    | _, _, _, _ => "bad-op"
  | "arrx" :: _ => "ok roundtrip"
  | _ => "bad-op"

end BM.C19
