/-
  Model/C08.lean — behaviour depends only on the bit content, not on where the bits came from.

  `Store` = `BitStore` as the code sees it: the raw buffer, `modified_length` (the logical length of a
  buffer-backed store, bitstore.py:41-75) and the `immutable` flag.  Every `BitStore` method is transcribed
  with the buffer it REALLY uses (raw `_bitarray` vs. the logical prefix); the construction routes are
  transcribed with their window arithmetic (`_setbytes_with_truncation`, the BytesIO branch of `_setauto`,
  `_setbitarray`, `_setfile` + `BitStore.frombuffer`).
-/
import BitstringModel.Model.Basic
namespace BM.C08

structure Store where
  raw : Bits
  modLen : Option Nat
  deriving Repr, DecidableEq

/-- The bits the object is supposed to hold. -/
def logical (s : Store) : Bits := s.raw.take (s.modLen.getD s.raw.length)

/-- The only stores the code builds: no length limit, or a limit equal to the buffer length. -/
def StoreInv (s : Store) : Prop := s.modLen = none ∨ s.modLen = some s.raw.length

def ofBits (b : Bits) : Store := ⟨b, none⟩

/-! ### `BitStore` methods, with the buffer each one uses -/

def len (s : Store) : Nat := s.modLen.getD s.raw.length                -- __len__ honours modified_length
def toBitsForBytes (s : Store) : Bits :=                               -- tobytes(): slices to modified_length
  match s.modLen with
  | some n => s.raw.take n
  | none => s.raw
def eqStore (a b : Store) : Bool := a.raw == b.raw                      -- __eq__: raw buffers
def count1 (s : Store) : Nat := (s.raw.filter id).length               -- count(1): raw
def copyStore (s : Store) : Store := ⟨s.raw, none⟩                     -- _copy(): BitStore(self._bitarray)
def getIndex (s : Store) (i : Int) : Except Err Bool := Py.getIndex s.raw i   -- getindex_msb0: raw
def anySet (s : Store) : Bool := s.raw.any id
def allSet (s : Store) : Bool := s.raw.all id
def invertAll (s : Store) : Store := ⟨s.raw.map (!·), none⟩            -- on a copy
def addStore (a b : Store) : Store := ⟨a.raw ++ b.raw, none⟩           -- __add__ = _copy() then +=
/-- `getslice_msb0(start, stop)`: with a length limit the key is first normalised against it. -/
def getSlice (s : Store) (start stop : Option Int) : Except Err Store :=
  match s.modLen with
  | some n =>
    let (a, e, _) := Py.sliceIndices start stop 1 n
    (Py.getSlice s.raw (some a) (some e) none).map ofBits
  | none => (Py.getSlice s.raw start stop none).map ofBits
def andStore (a b : Store) : Except Err Store :=
  if a.raw.length ≠ b.raw.length then .error .value else .ok ⟨List.zipWith (· && ·) a.raw b.raw, none⟩

/-! ### construction routes: which window of the source data the object holds -/

/-- `BitStore.frombuffer(buffer, length)` (bitstore.py:58): a shorter length reads that part into memory. -/
def fromBuffer (data : Bits) (length : Option Int) : Except Err Store :=
  match length with
  | none => .ok ⟨data, none⟩
  | some l =>
    if l < 0 then .error .value else
    if l.toNat > data.length then .error .value else
    if l.toNat < data.length then .ok ⟨data.take l.toNat, none⟩
    else .ok ⟨data, none⟩                     -- the store holds exactly the wanted bits: modified_length is reset

/-- `Bits._setfile(filename, length, offset)` (bits.py:544). -/
def fromFile (data : Bits) (offset length : Option Int) : Except Err Store :=
  let off := offset.getD 0
  if off < 0 then .error .value else
  if off = 0 then fromBuffer data length else
  -- offset given: always read into memory
  if off > data.length then .error .value else
  match length with
  | none => (Py.getSlice data (some off) none none).map ofBits
  | some l =>
    match Py.getSlice data (some off) (some (off + l)) none with
    | .error e => .error e
    | .ok b => if (b.length : Int) ≠ l then .error .value else .ok (ofBits b)

/-- `Bits._setbytes_with_truncation(data, length, offset)` (bits.py:613). -/
def fromBytes (data : Bits) (offset length : Option Int) : Except Err Store :=
  match offset, length with
  | none, none => .ok (ofBits data)
  | _, _ =>
    let off := offset.getD 0
    if off < 0 then .error .value else
    if (match length with | some l => decide (l < 0) | none => false) then .error .value else
    if off > data.length then .error .value else
    match length with
    | none => (Py.getSlice data (some off) (some (off + ((data.length : Int) - off))) none).map ofBits
    | some l =>
      if l + off > data.length then .error .value
      else (Py.getSlice data (some off) (some (off + l)) none).map ofBits

/-- The BytesIO branch of `Bits._setauto` (bits.py:524-533): byte window first, then a bit slice. -/
def fromBytesIO (data : Bits) (offset length : Option Int) : Except Err Store :=
  match offset, length with
  | none, none => .ok (ofBits data)
  | _, _ =>
    let off0 := offset.getD 0
    if off0 < 0 then .error .value else
    if (match length with | some l => decide (l < 0) | none => false) then .error .value else
    if off0 > data.length then .error .value else
    let l := length.getD ((data.length : Int) - off0)
    let byteoffset := off0 / 8
    let off := off0 % 8
    let bytelength := (l + byteoffset * 8 + off + 7) / 8 - byteoffset
    if l + byteoffset * 8 + off > data.length then .error .value else
    match Py.getSlice data (some (byteoffset * 8)) (some ((byteoffset + bytelength) * 8)) none with
    | .error e => .error e
    | .ok window => (Py.getSlice window (some off) (some (off + l)) none).map ofBits

/-- `Bits._setbitarray(ba, length, offset)` (bits.py:565). -/
def fromBitarray (data : Bits) (offset length : Option Int) : Except Err Store :=
  let off := offset.getD 0
  if off < 0 then .error .value else
  if (match length with | some l => decide (l < 0) | none => false) then .error .value else
  if off > data.length then .error .value else
  match length with
  | none => (Py.getSlice data (some off) none none).map ofBits
  | some l =>
    if off + l > data.length then .error .value
    else (Py.getSlice data (some off) (some (off + l)) none).map ofBits

/-- The window the caller asked for, as a list expression (valid windows only). -/
def window (data : Bits) (off len : Nat) : Bits := (data.drop off).take len

/-! ### driver -/

def routeStore (kind : String) (data : Bits) (off len : Option Int) : Option (Except Err Store) :=
  match kind with
  | "file" => some (fromFile data off len)
  | "bytes" => some (fromBytes data off len)
  | "bytesio" => some (fromBytesIO data off len)
  | "bitarray" => some (fromBitarray data off len)
  | "plain" => some (.ok (ofBits data))
  | _ => none

def handle (args : List String) : String :=
  match args with
  | "route" :: kind :: data :: off :: len :: _ =>
    match bitsOfStr? data, optIntOfStr? off, optIntOfStr? len with
    | some d, some o, some l =>
      match routeStore kind d o l with
      | none => "bad-op"
      | some r =>
        match r with
        | .error e => "err " ++ e.toStr
        | .ok s =>
          let b0 := toBitsForBytes s
          let b := b0 ++ List.replicate ((8 - b0.length % 8) % 8) false      -- tobytes() zero-pads to a whole byte
          s!"ok {bitsToWire (logical s)} {C08.len s} {count1 s} {bitsToWire b} {if eqStore s (ofBits (logical s)) then "True" else "False"}"
    | _, _, _ => "bad-op"
  | _ => "bad-op"

end BM.C08
