/-
  Model/C18.lean — struct-code formats (`pack('<2hq', …)`, `Array('>H')`, `Array.extend(array.array(…))`),
  the little/big/native-endian interpretations and `byteswap`.

  SPEC layer   what Python's `struct` / `array` / `int.to_bytes` / `int.from_bytes` documentation says:
               `structSpec` (standard sizes, signedness by case, byte order by prefix), base-256 digits
               (`leBytes`, `leValue`, `beValue`), `Struct.pack` / `Struct.unpack`, `swapSpec` (byte groups reversed).
  ALG layer    the code, function by function:
                 utils.py        STRUCT_PACK_RE / STRUCT_SPLIT_RE (23-31), REPLACEMENTS_* / PACK_CODE_SIZE (35-62, read
                                 from the GENERATED tables `Gen.Struct.*`), structparser (65-80),
                                 parse_name_length_token (84-101), parse_single_struct_token (104-117)
                 dtypes.py       Register.get_dtype (375), DtypeDefinition.get_dtype / allowed lengths (320-337),
                                 Dtype.build (174), read_fn (294-300)
                 bitstore_helpers.py  int2bitstore (212), intle2bitstore (233), float2bitstore (238),
                                 bitstore_from_token (258)
                 bits.py         _setuint … _getintle (647-741), _setfloat / _getfloatbe / _getfloatle (768-795),
                                 _reversebytes (1098), _validate_slice (1143), unpack / _readlist / _read_dtype_list (1151-1225)
                 methods.py      pack (12-97)
                 bitarray_.py    byteswap (521-580)
                 array_.py       _set_dtype (152-170), _create_element (172), tolist (276), extend (285-311),
                                 byteswap (329-338), tobytes
                 __init__.py     byteorder and the *ne aliases (298-313, through `Gen.Struct.definitionOf`)
  Floats are carried as IEEE bit patterns at the width of the code they are packed with (`Val.flt`); the conversion
  float64 → float16/32 done by `struct.pack` inside `float2bitstore` is C02's subject, not this property's.
-/
import BitstringModel.Model.Basic
import BitstringModel.Gen.StructTables
namespace BM.C18
open BM

/-! # SPEC -/

inductive Kind where
  | sint | uint | float
  deriving DecidableEq, Repr, Inhabited

inductive Order where
  | little | big
  deriving DecidableEq, Repr, Inhabited

/-- `sys.byteorder` of the interpreter the check runs on (recorded by the extractor). -/
def nativeOrder : Order := if Gen.Struct.sysByteorder = "little" then .little else .big

/-- What one struct code stands for: kind of number, size in bytes, byte order. -/
structure Spec where
  kind : Kind
  size : Nat
  order : Order
  deriving DecidableEq, Repr, Inhabited

/-- `struct` documentation, "Format Characters", *standard size* column; signedness by letter case. -/
def structKindSize : Char → Option (Kind × Nat)
  | 'b' => some (.sint, 1) | 'B' => some (.uint, 1)
  | 'h' => some (.sint, 2) | 'H' => some (.uint, 2)
  | 'i' => some (.sint, 4) | 'I' => some (.uint, 4)
  | 'l' => some (.sint, 4) | 'L' => some (.uint, 4)
  | 'q' => some (.sint, 8) | 'Q' => some (.uint, 8)
  | 'e' => some (.float, 2) | 'f' => some (.float, 4) | 'd' => some (.float, 8)
  | _ => none

/-- `struct` documentation, "Byte Order, Size, and Alignment": `<` little, `>` big, `=` native order with
    standard sizes.  `@` is native order too; bitstring documents it as *equivalent to `=`*
    (doc/quick_reference.rst), which is where it departs from `struct` (native sizes and alignment). -/
def structOrder : Char → Option Order
  | '<' => some .little
  | '>' => some .big
  | '=' => some nativeOrder
  | '@' => some nativeOrder
  | _ => none

def structSpec (endian code : Char) : Option Spec :=
  match structOrder endian, structKindSize code with
  | some o, some (k, n) => some ⟨k, n, o⟩
  | _, _ => none

/-- The thirteen codes and four prefixes of the property statement. -/
def specCodes : List Char := ['b', 'B', 'h', 'H', 'l', 'L', 'i', 'I', 'q', 'Q', 'e', 'f', 'd']
def specEndians : List Char := ['>', '<', '=', '@']

/-- A Python value on the wire: an integer, or a float given by its IEEE bit pattern at the width of the code
    it is packed with / read from (`nan` = any NaN; never packed). -/
inductive Val where
  | int (i : Int)
  | flt (p : Nat)
  | nan
  deriving DecidableEq, Repr, Inhabited

/-- Little-endian base-256 digits: `v.to_bytes(n, 'little')` for `0 ≤ v < 256^n`. -/
def leBytes : Nat → Nat → List Nat
  | 0, _ => []
  | n + 1, v => v % 256 :: leBytes n (v / 256)

def orderBytes (o : Order) (le : List Nat) : List Nat :=
  match o with
  | .little => le
  | .big => le.reverse

/-- `int.from_bytes(d, 'little')`. -/
def leValue : List Nat → Nat
  | [] => 0
  | x :: xs => x + 256 * leValue xs

/-- `int.from_bytes(d, 'big')`. -/
def beValue (d : List Nat) : Nat := leValue d.reverse

/-- Two's-complement reading of an unsigned value on `n` bytes (`signed=True`). -/
def toSigned (n : Nat) (u : Nat) : Int :=
  if 2 ^ (8 * n - 1) ≤ u then (u : Int) - 2 ^ (8 * n) else u

namespace Struct

/-- `v.to_bytes(size, order, signed=signed)`; `OverflowError` (here `value`) outside the range. -/
def packInt (size : Nat) (o : Order) (signed : Bool) (v : Int) : Except Err (List Nat) :=
  let lo : Int := if signed then -(2 ^ (8 * size - 1)) else 0
  let hi : Int := if signed then 2 ^ (8 * size - 1) else 2 ^ (8 * size)
  if lo ≤ v ∧ v < hi then .ok (orderBytes o (leBytes size (v % 2 ^ (8 * size)).toNat)) else .error .value

/-- `int.from_bytes(d, order, signed=signed)`. -/
def unpackInt (o : Order) (signed : Bool) (d : List Nat) : Int :=
  let u := match o with
    | .little => leValue d
    | .big => beValue d
  if signed then toSigned d.length u else u

/-- Is the pattern a NaN of the binary16/32/64 format on `size` bytes? -/
def isNaN (size : Nat) (p : Nat) : Bool :=
  let (eb, mb) := if size = 2 then (5, 10) else if size = 4 then (8, 23) else (11, 52)
  (p / 2 ^ mb) % 2 ^ eb == 2 ^ eb - 1 && p % 2 ^ mb != 0

/-- One item of `struct.pack`. -/
def pack1 (s : Spec) (v : Val) : Except Err (List Nat) :=
  match s.kind, v with
  | .sint, .int i => packInt s.size s.order true i
  | .uint, .int i => packInt s.size s.order false i
  | .float, .flt p => if p < 2 ^ (8 * s.size) then .ok (orderBytes s.order (leBytes s.size p)) else .error .value
  | _, _ => .error .type

/-- One item of `struct.unpack`. -/
def unpack1 (s : Spec) (d : List Nat) : Val :=
  match s.kind with
  | .sint => .int (unpackInt s.order true d)
  | .uint => .int (unpackInt s.order false d)
  | .float =>
    let p := match s.order with
      | .little => leValue d
      | .big => beValue d
    if isNaN s.size p then .nan else .flt p

/-- `struct.pack(endian + codes, *vals)` with standard sizes and no padding. -/
def pack (endian : Char) : List Char → List Val → Except Err (List Nat)
  | [], [] => .ok []
  | c :: cs, v :: vs =>
    match structSpec endian c with
    | none => .error .value
    | some s => do
      let x ← pack1 s v
      let r ← pack endian cs vs
      pure (x ++ r)
  | _, _ => .error .value

/-- `struct.unpack(endian + codes, d)` reading from the front of `d` (`struct.unpack_from`). -/
def unpack (endian : Char) : List Char → List Nat → Except Err (List Val)
  | [], _ => .ok []
  | c :: cs, d =>
    match structSpec endian c with
    | none => .error .value
    | some s =>
      if d.length < s.size then .error .value else do
        let r ← unpack endian cs (d.drop s.size)
        pure (unpack1 s (d.take s.size) :: r)

end Struct

/-- The value has the Python type the code expects and, for a float, a pattern that fits the code's width. -/
def valTyped (c : Char) (v : Val) : Bool :=
  match structKindSize c, v with
  | some (.float, n), .flt p => p < 2 ^ (8 * n)
  | some (.sint, _), .int _ => true
  | some (.uint, _), .int _ => true
  | _, _ => false

/-- Not a NaN pattern at the code's width (NaN payloads are outside the property: "NaN-free"). -/
def valFinite (c : Char) (v : Val) : Bool :=
  match structKindSize c, v with
  | some (.float, n), .flt p => !Struct.isNaN n p
  | _, .nan => false
  | _, _ => true

def valsTyped : List Char → List Val → Bool
  | c :: cs, v :: vs => valTyped c v && valsTyped cs vs
  | _, _ => true

def valsFinite : List Char → List Val → Bool
  | c :: cs, v :: vs => valFinite c v && valsFinite cs vs
  | _, _ => true

/-- Two specs denote the same layout: same kind and size, and the same byte order unless the size is one byte. -/
def Spec.same (a b : Spec) : Bool := a.kind = b.kind ∧ a.size = b.size ∧ (a.size = 1 ∨ a.order = b.order)

def specEquiv : Option Spec → Option Spec → Bool
  | some a, some b => a.same b
  | _, _ => false

/-! ## bits ↔ bytes -/

/-- `BitStore.frombytes(d)`: eight bits per byte, MSB first. -/
def bitsOfBytes (d : List Nat) : Bits := d.flatMap (natToBits 8)

/-- `bitarray.tobytes()` on at most `fuel` groups: groups of eight bits, the last one zero-padded on the right. -/
def toBytesAux : Nat → Bits → List Nat
  | 0, _ => []
  | f + 1, b =>
    if b.isEmpty then [] else
    bitsToNat (b.take 8 ++ List.replicate (8 - (b.take 8).length) false) :: toBytesAux f (b.drop 8)

def toBytes (b : Bits) : List Nat := toBytesAux b.length b

/-- `BitStore.frombytes(x.tobytes()[::-1])` — the expression used by `_getuintle`, `_getintle`,
    `intle2bitstore` and `_reversebytes`. -/
def bytesRev (b : Bits) : Bits := bitsOfBytes (toBytes b).reverse

/-- SPEC of one `byteswap` pattern: consecutive groups of `k` bytes, each byte-reversed. -/
def swapGroups : List Nat → Bits → Bits
  | [], b => b
  | k :: ks, b => bytesRev (b.take (8 * k)) ++ swapGroups ks (b.drop (8 * k))

/-- `n` consecutive patterns of `total` bits each, the rest untouched. -/
def swapRepeat : Nat → Nat → List Nat → Bits → Bits
  | 0, _, _, b => b
  | n + 1, total, sizes, b => swapGroups sizes (b.take total) ++ swapRepeat n total sizes (b.drop total)

/-- SPEC of `byteswap` on the validated range `[a, z)` of `l` with pattern `sizes` (bytes): the pattern is applied
    as often as it fits (once at most without `repeat`); nothing outside the swapped groups changes. -/
def swapSpec (l : Bits) (sizes : List Nat) (a z : Nat) (rep : Bool) : Nat × Bits :=
  let total := 8 * sizes.sum
  if total = 0 then (0, l) else
  let k := if rep then (z - a) / total else if a + total ≤ z then 1 else 0
  (k, l.take a ++ swapRepeat k total sizes ((l.drop a).take (k * total)) ++ l.drop (a + k * total))

/-! # ALG -/

/-! ## dtypes -/

/-- The `DtypeDefinition`s this property touches (`__init__.py` dtype_definitions). -/
inductive DefName where
  | uint | int | uintbe | intbe | uintle | intle | float | floatle
  deriving DecidableEq, Repr, Inhabited

def DefName.ofStr? : String → Option DefName
  | "uint" => some .uint | "int" => some .int
  | "uintbe" => some .uintbe | "intbe" => some .intbe
  | "uintle" => some .uintle | "intle" => some .intle
  | "float" => some .float | "floatle" => some .floatle
  | _ => none

def DefName.toStr : DefName → String
  | .uint => "uint" | .int => "int" | .uintbe => "uintbe" | .intbe => "intbe"
  | .uintle => "uintle" | .intle => "intle" | .float => "float" | .floatle => "floatle"

/-- A `Dtype` as far as `extend` compares it: `_name` (of the definition, aliases resolved) and `_length`. -/
structure DType where
  defn : DefName
  length : Nat
  deriving DecidableEq, Repr, Inhabited

/-- `dtype_register.names[name]` — aliases (`floatbe → float`, `uintne → uintle | uintbe`, …) as registered at
    import time (`__init__.py:283-313`), read from the working tree. -/
def resolve (name : String) : Option DefName :=
  (Gen.Struct.definitionOf.lookup name).bind DefName.ofStr?

/-- `length in definition.allowed_lengths` (`AllowedLengths.__contains__`, dtypes.py:240):
    `(8, 16, 24, ...)` is `(len - 8) % 8 == 0`, `(16, 32, 64)` is membership, no tuple = everything. -/
def DefName.allows (d : DefName) (len : Nat) : Bool :=
  match d with
  | .uint | .int => true
  | .uintbe | .intbe | .uintle | .intle => len % 8 = 0
  | .float | .floatle => len = 16 ∨ len = 32 ∨ len = 64

/-- `Dtype(name, length)` → `Register.get_dtype` → `DtypeDefinition.get_dtype` with a length. -/
def mkDtype (name : String) (len : Nat) : Except Err DType :=
  match resolve name with
  | none => .error .value                      -- "Unknown Dtype name"
  | some d => if d.allows len then .ok ⟨d, len⟩ else .error .value

def DefName.signed : DefName → Bool
  | .int | .intbe | .intle => true
  | _ => false

/-- What a dtype means according to bitstring's documentation of the integer / float dtypes: `uint`, `int`, `float`
    and the `…be` forms are most-significant-byte first, the `…le` forms least-significant-byte first. -/
def DType.meaning (d : DType) : Spec :=
  ⟨(match d.defn with
    | .uint | .uintbe | .uintle => .uint
    | .int | .intbe | .intle => .sint
    | .float | .floatle => .float),
   d.length / 8,
   (match d.defn with
    | .uintle | .intle | .floatle => .little
    | _ => .big)⟩

/-- SPEC: the bitstring dtype that denotes a struct layout (one-byte integers are plain `int8` / `uint8`). -/
def nativeDtype (s : Spec) : DType :=
  ⟨(match s.kind, s.order with
    | .sint, o => if s.size = 1 then .int else if o = .little then .intle else .intbe
    | .uint, o => if s.size = 1 then .uint else if o = .little then .uintle else .uintbe
    | .float, .little => .floatle
    | .float, .big => .float),
   8 * s.size⟩

/-! ## setters (value → bits) -/

/-- `int2bitstore` (bitstore_helpers.py:212): `int2ba(i, length, signed)`; `OverflowError` → `CreationError`. -/
def int2bitstore (i : Int) (len : Nat) (signed : Bool) : Except Err Bits :=
  if signed then
    if i ≥ 2 ^ (len - 1) ∨ i < -(2 ^ (len - 1)) then .error .value else .ok (intToBits len i)
  else
    if i ≥ 2 ^ len ∨ i < 0 then .error .value else .ok (natToBits len i.toNat)

/-- `intle2bitstore` (bitstore_helpers.py:233): `BitStore.frombytes(int2bitstore(…).tobytes()[::-1])`. -/
def intle2bitstore (i : Int) (len : Nat) (signed : Bool) : Except Err Bits :=
  match int2bitstore i len signed with
  | .error e => .error e
  | .ok x => .ok (bytesRev x)

/-- `struct.pack('>e' | '>f' | '>d' | '<e' | …, x)` for the float `x` whose pattern at that width is `p`:
    the pattern's bytes in the given order (documented meaning of `struct`; trusted primitive). -/
def structPackFloat (len : Nat) (big : Bool) (p : Nat) : List Nat :=
  if big then (leBytes (len / 8) p).reverse else leBytes (len / 8) p

/-- `float2bitstore` (bitstore_helpers.py:238) on a float that is exactly representable at `length` bits. -/
def float2bitstore (p : Nat) (len : Nat) (big : Bool) : Bits := bitsOfBytes (structPackFloat len big p)

/-- Exponent and fraction widths of binary16 / binary32 / binary64. -/
def fmtBits (len : Nat) : Nat × Nat := if len = 16 then (5, 10) else if len = 32 then (8, 23) else (11, 52)

/-- `struct.pack('>e' | '>f' | '>d', x)` as a bit pattern, for the Python float `x` whose float64 pattern is `p64`:
    IEEE round-to-nearest-even to the `len`-bit format (documented meaning of `struct`; trusted primitive, tied to
    CPython by the correspondence run).  `none` = `OverflowError` (a finite `x` that rounds beyond the largest finite
    value).  NaNs are outside the property. -/
def roundF64 (len : Nat) (p64 : Nat) : Option Nat :=
  let eb := (fmtBits len).1
  let mb := (fmtBits len).2
  let sgn := p64 / 2 ^ 63 % 2
  let E := p64 / 2 ^ 52 % 2 ^ 11
  let M := p64 % 2 ^ 52
  let signBit := sgn * 2 ^ (eb + mb)
  let infc := (2 ^ eb - 1) * 2 ^ mb
  if E = 2047 then some (signBit + infc + (if M = 0 then 0 else 2 ^ (mb - 1))) else
  let sig := if E = 0 then M else 2 ^ 52 + M
  if sig = 0 then some signBit else
  let ex : Int := ((if E = 0 then 1 else E : Nat) : Int) - 1075
  let ue : Int := ex + (sig.log2 : Nat)
  let B : Int := 2 ^ (eb - 1) - 1
  let q : Int := max ue (1 - B) - (mb : Nat)
  let n : Nat :=
    if q ≤ ex then sig * 2 ^ (ex - q).toNat else
    let sh := (q - ex).toNat
    let n0 := sig / 2 ^ sh
    let rem := sig % 2 ^ sh
    let half := 2 ^ (sh - 1)
    if rem > half ∨ (rem = half ∧ n0 % 2 = 1) then n0 + 1 else n0
  let code : Nat := if ue ≥ 1 - B then ((ue + B).toNat * 2 ^ mb + n) - 2 ^ mb else n
  if code ≥ infc then none else some (signBit + code)

/-- `float2bitstore` (bitstore_helpers.py:238) on an arbitrary Python float given by its float64 pattern:
    `try: struct.pack(fmt, f)  except OverflowError: struct.pack(fmt, ±inf)`. -/
def float2bitstoreD (p64 : Nat) (len : Nat) (big : Bool) : Bits :=
  match roundF64 len p64 with
  | some p => float2bitstore p len big
  | none =>
    let eb := (fmtBits len).1
    let mb := (fmtBits len).2
    float2bitstore ((p64 / 2 ^ 63 % 2) * 2 ^ (eb + mb) + (2 ^ eb - 1) * 2 ^ mb) len big

/-- The pattern at `len` bits that `float2bitstore` stores for the float64 pattern `p64` (±inf on overflow), so that
    `float2bitstoreD p64 len big = float2bitstore (storedPattern len p64) len big`. -/
def storedPattern (len : Nat) (p64 : Nat) : Nat :=
  match roundF64 len p64 with
  | some p => p
  | none => (p64 / 2 ^ 63 % 2) * 2 ^ ((fmtBits len).1 + (fmtBits len).2) + (2 ^ (fmtBits len).1 - 1) * 2 ^ (fmtBits len).2

/-- `Dtype.build(value)` (dtypes.py:174): the definition's `set_fn` with `length=`, then the length check.
    `_setuint` / `_setint` / `_setuintbe` / `_setintbe` / `_setuintle` / `_setintle` (bits.py) reject
    `length == 0`, the four endian-specific ones also a length that is not a whole number of bytes;
    `_setfloat` rejects lengths other than 16/32/64.
    A value of the wrong Python type is outside the modelled domain (`type`; never generated). -/
def build (d : DType) (v : Val) : Except Err Bits :=
  match d.defn, v with
  | .uint, .int i => if d.length = 0 then .error .value else int2bitstore i d.length false
  | .int, .int i => if d.length = 0 then .error .value else int2bitstore i d.length true
  | .uintbe, .int i =>
    if d.length = 0 then .error .value else if d.length % 8 ≠ 0 then .error .value else int2bitstore i d.length false
  | .intbe, .int i =>
    if d.length = 0 then .error .value else if d.length % 8 ≠ 0 then .error .value else int2bitstore i d.length true
  | .uintle, .int i =>
    if d.length = 0 then .error .value else if d.length % 8 ≠ 0 then .error .value else intle2bitstore i d.length false
  | .intle, .int i =>
    if d.length = 0 then .error .value else if d.length % 8 ≠ 0 then .error .value else intle2bitstore i d.length true
  | .float, .flt p =>
    if d.length = 16 ∨ d.length = 32 ∨ d.length = 64 then
      (if p < 2 ^ d.length then .ok (float2bitstore p d.length true) else .error .type)
    else .error .value
  | .floatle, .flt p =>
    if d.length = 16 ∨ d.length = 32 ∨ d.length = 64 then
      (if p < 2 ^ d.length then .ok (float2bitstore p d.length false) else .error .type)
    else .error .value
  | _, _ => .error .type

/-! ## getters (bits → value) -/

/-- `_getuint` (bits.py:655): `InterpretError` on the empty bitstring. -/
def getuint (b : Bits) : Except Err Int :=
  if b.length = 0 then .error .value else .ok (bitsToNat b)

/-- `_getint` (bits.py:670). -/
def getint (b : Bits) : Except Err Int :=
  if b.length = 0 then .error .value else .ok (bitsToInt b)

/-- `_getuintbe` (bits.py:683). -/
def getuintbe (b : Bits) : Except Err Int :=
  if b.length % 8 ≠ 0 then .error .value else getuint b

/-- `_getintbe` (bits.py:697). -/
def getintbe (b : Bits) : Except Err Int :=
  if b.length % 8 ≠ 0 then .error .value else getint b

/-- `_getuintle` (bits.py:710): `BitStore.frombytes(self._bitstore.tobytes()[::-1]).slice_to_uint()`
    (`ba2int` raises ValueError on an empty bitarray). -/
def getuintle (b : Bits) : Except Err Int :=
  if b.length % 8 ≠ 0 then .error .value else
  let bs := bytesRev b
  if bs.length = 0 then .error .value else .ok (bitsToNat bs)

/-- `_getintle` (bits.py:724). -/
def getintle (b : Bits) : Except Err Int :=
  if b.length % 8 ≠ 0 then .error .value else
  let bs := bytesRev b
  if bs.length = 0 then .error .value else .ok (bitsToInt bs)

/-- `struct.unpack(fmt, bytes)[0]` for one float, as the pattern it has at that width (trusted primitive). -/
def structUnpackFloat (big : Bool) (d : List Nat) : Val :=
  let p := if big then beValue d else leValue d
  if Struct.isNaN d.length p then .nan else .flt p

/-- `_getfloatbe` / `_getfloatle` (bits.py:779-795): `{16: '>e', 32: '>f', 64: '>d'}[len(self)]`
    (`KeyError` for other lengths), `struct.unpack(fmt, self._bitstore.tobytes())[0]`. -/
def getfloat (big : Bool) (b : Bits) : Except Err Val :=
  if b.length = 16 ∨ b.length = 32 ∨ b.length = 64 then .ok (structUnpackFloat big (toBytes b))
  else .error (.internal "KeyError")

/-- The definition's `get_fn`: `allowed_length_checked_get_fn` (dtypes.py:280) around the getter. -/
def getFn (d : DefName) (b : Bits) : Except Err Val :=
  if !d.allows b.length then .error .value else
  match d with
  | .uint => (getuint b).map .int
  | .int => (getint b).map .int
  | .uintbe => (getuintbe b).map .int
  | .intbe => (getintbe b).map .int
  | .uintle => (getuintle b).map .int
  | .intle => (getintle b).map .int
  | .float => getfloat true b
  | .floatle => getfloat false b

/-- `read_fn(bs, start, length)` (dtypes.py:297): `ReadError` when fewer than `length` bits are left. -/
def readFn (d : DType) (b : Bits) (start : Nat) : Except Err Val :=
  if b.length < start + d.length then .error .read
  else getFn d.defn ((b.drop start).take d.length)

/-! ## struct-format strings -/

def isCode (c : Char) : Bool := Gen.Struct.packCodeAlphabet.contains c
def isEndian (c : Char) : Bool := Gen.Struct.packEndianAlphabet.contains c

/-- `re.findall(STRUCT_SPLIT_RE, fmt)` and `f[-1] * int(f[:-1]) if len(f) != 1 else f` (utils.py:69-72) in one
    pass over `(?:\d*[bBhHlLiIqQefd])+`; `none` = the format does not match STRUCT_PACK_RE.
    `cnt` = digits read so far (`none` = no digit yet). -/
def expandCodes : List Char → Option Nat → Option (List Char)
  | [], none => some []
  | [], some _ => none
  | c :: cs, cnt =>
    if c.isDigit then expandCodes cs (some (cnt.getD 0 * 10 + (c.toNat - '0'.toNat)))
    else if isCode c then
      match expandCodes cs none with
      | none => none
      | some rest => some (List.replicate (cnt.getD 1) c ++ rest)
    else none

/-- `STRUCT_PACK_RE.match` (utils.py:24): endianness character, then at least one `\d*code`. -/
def matchStructFmt (s : String) : Option (Char × List Char) :=
  match s.toList with
  | e :: body => if isEndian e ∧ !body.isEmpty then (expandCodes body none).map (e, ·) else none
  | [] => none

/-- The table `structparser` / `parse_single_struct_token` pick for an endianness character
    (utils.py:73-80 and 109-116: `'@='` native, `'<'` little, else big). -/
def replacements (endian : Char) : List (Char × String × Nat) :=
  if endian = '@' ∨ endian = '=' then Gen.Struct.replacementsNE
  else if endian = '<' then Gen.Struct.replacementsLE
  else Gen.Struct.replacementsBE

/-- The meaning of the table entry the code looks up for `endian`, `code` (whole-byte dtypes only). -/
def tableSpec (endian code : Char) : Option Spec :=
  match (replacements endian).lookup code with
  | some (name, len) =>
    match mkDtype name len with
    | .ok d => if d.length % 8 = 0 ∧ d.length ≠ 0 then some d.meaning else none
    | .error _ => none
  | none => none

/-- `structparser` (utils.py:65): one `(name, length)` token per expanded code (`KeyError` if a code is missing
    from the table). -/
def structparser (endian : Char) : List Char → Except Err (List (String × Nat))
  | [] => .ok []
  | c :: cs =>
    match (replacements endian).lookup c with
    | none => .error (.internal "KeyError")
    | some t => (structparser endian cs).map (t :: ·)

/-- `parse_single_struct_token` (utils.py:104) on the two characters of its argument:
    `none` = no match of SINGLE_STRUCT_PACK_RE. -/
def singleStructToken (e c : Char) : Option (Except Err (String × Nat)) :=
  if Gen.Struct.endianAlphabet.contains e ∧ Gen.Struct.codeAlphabet.contains c then
    match (replacements e).lookup c with
    | none => some (.error (.internal "KeyError"))
    | some t => some (.ok t)
  else none

def parseSingleStructToken (s : String) : Option (Except Err (String × Nat)) :=
  match s.toList with
  | [e, c] => singleStructToken e c
  | _ => none

/-! ## pack / unpack -/

/-- The loop of `pack` (methods.py:58-81) over struct tokens: `bitstore_from_token(name, length, value)` =
    `Dtype(name, length)` then `build(value)`; `StopIteration` (too few values) and leftover values are
    `CreationError`. -/
def packTokens : List (String × Nat) → List Val → Except Err Bits
  | [], [] => .ok []
  | [], _ :: _ => .error .value                -- "Too many parameters present"
  | _ :: _, [] => .error .value                -- "Not enough parameters present"
  | (name, len) :: ts, v :: vs =>
    match mkDtype name len with
    | .error e => .error e
    | .ok d =>
      match build d v with
      | .error e => .error e
      | .ok b =>
        match packTokens ts vs with
        | .error e => .error e
        | .ok r => .ok (b ++ r)

/-- `pack(fmt, *values)` for a single compact struct format string. A string that does not match STRUCT_PACK_RE is
    an ordinary token and outside this model (`value`: every such string the harness generates is rejected by the
    code as well). -/
def pack (fmt : String) (vals : List Val) : Except Err Bits :=
  match matchStructFmt fmt with
  | none => .error .value
  | some (e, codes) =>
    match structparser e codes with
    | .error err => .error err
    | .ok toks => packTokens toks vals

/-- `pack([f1, f2, …], *values)` (methods.py:48-55): the token lists of the format strings are joined
    (`tokens.extend(tkns)`) … -/
def listTokens : List String → Except Err (List (String × Nat))
  | [] => .ok []
  | f :: fs =>
    match matchStructFmt f with
    | none => .error .value
    | some (e, codes) =>
      match structparser e codes with
      | .error err => .error err
      | .ok t =>
        match listTokens fs with
        | .error err => .error err
        | .ok r => .ok (t ++ r)

/-- … and packed by the one loop. -/
def packList (fmts : List String) (vals : List Val) : Except Err Bits :=
  match listTokens fmts with
  | .error err => .error err
  | .ok toks => packTokens toks vals

/-! ### multipliers and brackets in front of struct-style tokens (`2*<hB`, `2*(<hB,>q)`) -/

/-- Split at the commas that are outside every bracket (`cur` = the current piece, reversed). -/
def splitTop : List Char → Nat → List Char → List (List Char)
  | [], _, cur => [cur.reverse]
  | c :: cs, depth, cur =>
    if c = ',' ∧ depth = 0 then cur.reverse :: splitTop cs 0 []
    else if c = '(' then splitTop cs (depth + 1) (c :: cur)
    else if c = ')' then splitTop cs (depth - 1) (c :: cur)
    else splitTop cs depth (c :: cur)

/-- The factor in front of a token or a bracket (`MULTIPLICATIVE_RE` `^(?P<factor>.*)\*(?P<token>.+)` with
    `int(factor)`, `BRACKET_RE` `(?P<factor>\d+)\*\(`); no `*` = factor 1; `none` = `int()` fails. -/
def factorOf (item : List Char) : Option (Nat × List Char) :=
  let ds := item.takeWhile Char.isDigit
  match item.drop ds.length with
  | '*' :: rest =>
    if ds.isEmpty ∨ rest.isEmpty then none
    else some (ds.foldl (fun acc d => acc * 10 + (d.toNat - '0'.toNat)) 0, rest)
  | _ => if item.contains '*' then none else some (1, item)

/-- `expand_brackets` (utils.py) followed by the meta-token loop of `preprocess_tokens` (split at commas, empty
    pieces skipped, `tokens * factor`), for well-nested input: the plain tokens in order.  A bracket with a factor is
    its content repeated `factor` times (`','.join([content] * factor)`), a token with a factor is the token's
    expanded list repeated `factor` times (hBhB, not hhBB). -/
def expandFmtAux : Nat → List Char → Option (List String)
  | 0, _ => none
  | fuel + 1, cs =>
    ((splitTop cs 0 []).mapM fun (item : List Char) =>
      if item.isEmpty then some [] else
      match factorOf item with
      | none => none
      | some (n, rest) =>
        if rest.head? = some '(' ∧ rest.getLast? = some ')' then
          (expandFmtAux fuel ((rest.drop 1).dropLast)).map fun l => (List.replicate n l).flatten
        else some (List.replicate n (String.ofList rest))).map List.flatten

/-- `preprocess_tokens(fmt)` for formats made of struct-style tokens: whitespace removed first. -/
def expandFmt (fmt : String) : Option (List String) :=
  let cs := fmt.toList.filter fun c => !c.isWhitespace
  expandFmtAux (cs.length + 1) cs

/-- `pack(fmt, *values)` for a format with multipliers / brackets / commas around struct-style tokens. -/
def packM (fmt : String) (vals : List Val) : Except Err Bits :=
  match expandFmt fmt with
  | none => .error .value
  | some toks => packList toks vals

/-- `_read_dtype_list` (bits.py:1190) for fixed-length dtypes: read one after the other from `pos`. -/
def readTokens : List (String × Nat) → Bits → Nat → Except Err (List Val)
  | [], _, _ => .ok []
  | (name, len) :: ts, b, pos =>
    match mkDtype name len with
    | .error e => .error e
    | .ok d =>
      match readFn d b pos with
      | .error e => .error e
      | .ok v =>
        match readTokens ts b (pos + len) with
        | .error e => .error e
        | .ok r => .ok (v :: r)

/-- `Bits.unpack(fmt)` (bits.py:1151) for a single compact struct format string. -/
def unpack (fmt : String) (b : Bits) : Except Err (List Val) :=
  match matchStructFmt fmt with
  | none => .error .value
  | some (e, codes) =>
    match structparser e codes with
    | .error err => .error err
    | .ok toks => readTokens toks b 0

/-- `Bits.unpack(fmt)` for the same formats. -/
def unpackM (fmt : String) (b : Bits) : Except Err (List Val) :=
  match expandFmt fmt with
  | none => .error .value
  | some toks =>
    match listTokens toks with
    | .error err => .error err
    | .ok ts => readTokens ts b 0

/-! ## byteswap -/

/-- `Bits._validate_slice` (bits.py:1143). -/
def validateSlice (len : Nat) (s e : Option Int) : Except Err (Nat × Nat) :=
  let a : Int := match s with
    | none => 0
    | some x => if x < 0 then x + len else x
  let z : Int := match e with
    | none => len
    | some x => if x < 0 then x + len else x
  if 0 ≤ a ∧ a ≤ z ∧ z ≤ len then .ok (a.toNat, z.toNat) else .error .value

/-- The `fmt` argument of `byteswap`. -/
inductive Fmt where
  | none
  | int (n : Int)
  | sizes (ks : List Int)
  | str (s : String)
  deriving Repr, Inhabited

/-- Byte size of a code: `utils.PACK_CODE_SIZE[c]` (generated). -/
def packCodeSize (c : Char) : Option Nat := Gen.Struct.packCodeSize.lookup c

/-- `BYTESWAP_STRUCT_PACK_RE` (utils.py:26: optional endianness, then `(\d*code)+`), `re.findall(STRUCT_SPLIT_RE)`
    and the size loop of `byteswap` (bitarray_.py:545-552). -/
def swapFmtSizes (s : String) : Except Err (List Nat) :=
  let cs := s.toList
  let body := match cs with
    | c :: rest => if Gen.Struct.swapEndianAlphabet.contains c then rest else cs
    | [] => []
  if body.isEmpty then .error .value else
  match expandCodes body none with
  | none => .error .value
  | some codes =>
    codes.foldr (fun c acc => match packCodeSize c, acc with
      | some k, .ok r => .ok (k :: r)
      | none, .ok _ => .error (.internal "KeyError")
      | _, .error e => .error e) (.ok [])

/-- The `if fmt is None or fmt == 0 … elif …` chain of `byteswap` (bitarray_.py:534-558) on the validated range. -/
def fmtSizes (f : Fmt) (a z : Nat) : Except Err (List Nat) :=
  match f with
  | .none => .ok [(z - a) / 8]
  | .int k => if k = 0 then .ok [(z - a) / 8] else if k < 0 then .error .value else .ok [k.toNat]
  | .str s => swapFmtSizes s
  | .sizes ks => if ks.any (· < 0) then .error .value else .ok (ks.map Int.toNat)

/-- `Bits._reversebytes(start, end)` (bits.py:1098):
    `self._bitstore[start:end] = BitStore.frombytes(self._bitstore.getslice(start, end).tobytes()[::-1])`.
    Both the slice read and the slice assignment clamp at the end of the data (Python slice semantics). -/
def reversebytes (l : Bits) (s e : Nat) : Bits :=
  let seg := (l.take e).drop s
  let s' := min s l.length
  let e' := max s' (min e l.length)
  l.take s' ++ bytesRev seg ++ l.drop e'

/-- The inner loop `for bytesize in bytesizes` (bitarray_.py:573-576). -/
def swapOnce : Bits → List Nat → Nat → Bits
  | l, [], _ => l
  | l, k :: ks, bytestart => swapOnce (reversebytes l bytestart (bytestart + k * 8)) ks (bytestart + k * 8)

/-- The outer loop `for patternend in range(start_v + totalbitsize, finalbit + 1, totalbitsize)`
    (bitarray_.py:571-578) as a while loop with fuel (`fuel > finalbit` suffices since `total > 0`). -/
def swapLoop : Nat → Bits → List Nat → Nat → Nat → Nat → Nat → Nat × Bits
  | 0, l, _, _, _, _, reps => (reps, l)
  | fuel + 1, l, sizes, total, patternend, finalbit, reps =>
    if patternend < finalbit + 1 then
      swapLoop fuel (swapOnce l sizes (patternend - total)) sizes total (patternend + total) finalbit (reps + 1)
    else (reps, l)

/-- `BitArray.byteswap(fmt, start, end, repeat)` (bitarray_.py:521); without `repeat` the single application is
    attempted only if it fits before `end` (`finalbit = min(start_v + totalbitsize, end_v)`). -/
def byteswap (l : Bits) (f : Fmt) (s e : Option Int) (rep : Bool) : Except Err (Nat × Bits) :=
  match validateSlice l.length s e with
  | .error err => .error err
  | .ok (a, z) =>
    match fmtSizes f a z with
    | .error err => .error err
    | .ok sizes =>
      let total := 8 * sizes.sum
      if total = 0 then .ok (0, l) else
      let finalbit := if rep then z else min (a + total) z
      .ok (swapLoop (finalbit + 1) l sizes total (a + total) finalbit 0)

/-! ## Array -/

/-- `parse_name_length_token` (utils.py:84) without keyword lengths:
    `^([a-zA-Z][a-zA-Z0-9_]*?):?(\d*)$` — the longest run of trailing digits is the length. -/
def parseNameLength (s : String) : Option (String × Option Nat) :=
  let cs := s.toList
  let digits := (cs.reverse.takeWhile Char.isDigit).reverse
  let rest := cs.take (cs.length - digits.length)
  let name := if rest.getLast? = some ':' then rest.dropLast else rest
  match name with
  | [] => none
  | c :: _ =>
    if c.isAlpha ∧ name.all (fun x => x.isAlphanum ∨ x = '_') then
      some (String.ofList name,
            if digits.isEmpty then none else some (digits.foldl (fun acc d => acc * 10 + (d.toNat - '0'.toNat)) 0))
    else none

/-- `Array._set_dtype(str)` (array_.py:152): `Dtype(new_dtype)`, on ValueError the struct-code route; a fixed
    length is required.  Only the integer / float definitions are modelled: another known name is `type`
    (never generated). -/
def setDtype (s : String) : Except Err DType :=
  let nonZero (r : Except Err DType) : Except Err DType :=
    match r with
    | .ok d => if d.length = 0 then .error .value else .ok d    -- "A format with a non-zero length is needed"
    | .error e => .error e
  let viaStruct : Except Err DType :=
    match parseSingleStructToken s with
    | none => .error .value                      -- "Inappropriate Dtype for Array"
    | some (.error e) => .error e
    | some (.ok (name, len)) => nonZero (mkDtype name len)
  match parseNameLength s with
  | none => viaStruct
  | some (name, olen) =>
    match resolve name with
    | none => viaStruct                          -- unknown name: ValueError inside `Dtype(…)`
    | some d =>
      match olen with
      | none => .error .value                    -- "A fixed length format is needed" (floats too: 3 allowed lengths)
      | some len => if d.allows len then nonZero (.ok ⟨d, len⟩) else viaStruct

/-- `dtype.bitlength` of an Array dtype string, for the integer / float definitions (through `setDtype`) and for the
    other fixed-length families `Array.byteswap` can meet: `bytesN` (length in BYTES, `multiplier=8`), `hexN` (N bits,
    multiples of 4), `octN` (multiples of 3), `binN`, `bitsN`, `boolN` (only 1).  `Array.byteswap` looks at nothing else
    of the dtype. -/
def itemBits (s : String) : Except Err Nat :=
  match setDtype s with
  | .ok d => .ok d.length
  | .error e =>
    match parseNameLength s with
    | some (name, some len) =>
      if len = 0 then .error .value
      else if name = "bytes" then .ok (8 * len)
      else if name = "hex" then (if len % 4 = 0 then .ok len else .error .value)
      else if name = "oct" then (if len % 3 = 0 then .ok len else .error .value)
      else if name = "bin" ∨ name = "bits" then .ok len
      else if name = "bool" then (if len = 1 then .ok 1 else .error .value)
      else .error e
    | _ => .error e

/-- `Array._create_element` (array_.py:172) for each item of `extend(iterable)` (array_.py:306-309). -/
def arrayBuild (d : DType) : List Val → Except Err Bits
  | [] => .ok []
  | v :: vs =>
    match build d v with
    | .error e => .error e
    | .ok b =>
      match arrayBuild d vs with
      | .error e => .error e
      | .ok r => .ok (b ++ r)

/-- `Array.tolist` (array_.py:276): `read_fn(data, start)` for `start in range(0, len(data) - length + 1, length)`;
    `fuel` bounds the number of items. -/
def arrayToListAux (d : DType) (data : Bits) : Nat → Nat → Except Err (List Val)
  | 0, _ => .ok []
  | fuel + 1, start =>
    if start + d.length ≤ data.length then
      match readFn d data start with
      | .error e => .error e
      | .ok v =>
        match arrayToListAux d data fuel (start + d.length) with
        | .error e => .error e
        | .ok r => .ok (v :: r)
    else .ok []

def arrayToList (d : DType) (data : Bits) : Except Err (List Val) :=
  if d.length = 0 then .error (.internal "ValueError: range() arg 3 must not be zero")
  else arrayToListAux d data (data.length / d.length) 0

/-- `Array.byteswap` (array_.py:329): whole-byte items only, then `self.data.byteswap(self.itemsize // 8)`. -/
def arrayByteswap (d : DType) (data : Bits) : Except Err Bits :=
  if d.length % 8 ≠ 0 then .error .value else
  match byteswap data (.int (d.length / 8)) none none true with
  | .error e => .error e
  | .ok (_, b) => .ok b

/-- `array.array(tc, vals).tobytes()`: every item on `itemsize` bytes in native order, signedness by the case
    of the typecode, floats as their pattern (documented meaning of `array`; trusted primitive).
    `itemsize` is the platform's (`array.array(tc).itemsize`), supplied with the case. -/
def arrayArrayTobytes (tc : Char) (itemsize : Nat) : List Val → Except Err (List Nat)
  | [] => .ok []
  | v :: vs =>
    match structKindSize tc with
    | none => .error .type
    | some (k, _) =>
      match Struct.pack1 ⟨k, itemsize, nativeOrder⟩ v with
      | .error e => .error e
      | .ok x => (arrayArrayTobytes tc itemsize vs).map (x ++ ·)

/-- The acceptance test of `Array.extend(array.array)` (array_.py:296-305):
    `parse_single_struct_token('=' + typecode)` gives the dtype *name*, the length is the array's own
    `itemsize * 8`; `dtype_register.get_dtype(name, itemsize * 8)`, then
    `self._dtype.name != other_dtype.name or self._dtype.length != other_dtype.length`. -/
def arrayAccepts (d : DType) (tc : Char) (itemsize : Nat) : Bool :=
  match singleStructToken '=' tc with
  | some (.ok (name, _)) =>
    match mkDtype name (itemsize * 8) with
    | .ok other => d.defn = other.defn ∧ d.length = other.length
    | .error _ => false
  | _ => false

/-- `Array.extend(array.array(tc, vals))` (array_.py:285-305) on an Array with dtype `d` and data `data`:
    trailing bits → ValueError; acceptance test; `self.data += iterable.tobytes()`. -/
def arrayExtend (d : DType) (data : Bits) (tc : Char) (itemsize : Nat) (vals : List Val) : Except Err Bits :=
  if d.length = 0 then .error (.internal "ZeroDivisionError") else
  if data.length % d.length ≠ 0 then .error .value else
  if !arrayAccepts d tc itemsize then .error .value else
  match arrayArrayTobytes tc itemsize vals with
  | .error e => .error e
  | .ok bytes => .ok (data ++ bitsOfBytes bytes)

/-- What C guarantees about the item size of an `array.array` typecode: `char` is one byte, every other integer
    type more than one, `float` / `double` are IEEE binary32 / binary64 (`e` is not an array typecode). -/
def itemsizeOK (tc : Char) (itemsize : Nat) : Bool :=
  match structKindSize tc with
  | some (k, n) =>
    (if n = 1 then itemsize = 1 else 1 < itemsize) ∧ (k = .float → (itemsize = 2 ∨ itemsize = 4 ∨ itemsize = 8))
  | none => true

/-! # Region where the unchanged tree departs from `struct` (same name as in REGIONS of the harness) -/

/-- Native (`@`) layout of this platform's C compiler (LP64: `long` is 8 bytes, every type aligned to its size). -/
def nativeSize (c : Char) : Nat :=
  if c = 'l' ∨ c = 'L' then 8 else ((structKindSize c).map (·.2)).getD 0

/-- `struct.calcsize('@' + codes)`: each item padded to a multiple of its own size, no trailing padding. -/
def nativeCalcsize : List Char → Nat → Nat
  | [], off => off
  | c :: cs, off =>
    let n := nativeSize c
    nativeCalcsize cs ((if n = 0 then off else (off + n - 1) / n * n) + n)

def standardCalcsize (codes : List Char) : Nat := (codes.map fun c => ((structKindSize c).map (·.2)).getD 0).sum

/-- `'@'` prefix with codes whose native size or alignment differs from the standard one. -/
def native_at_prefix_platform_sizes (fmt : String) : Bool :=
  match matchStructFmt fmt with
  | some ('@', codes) => nativeCalcsize codes 0 != standardCalcsize codes
  | _ => false

/-! # driver -/

def hexDigit (n : Nat) : Char := if n < 10 then Char.ofNat (48 + n) else Char.ofNat (87 + n)

def hexOfBytes (d : List Nat) : String :=
  if d.isEmpty then "-" else String.ofList (d.flatMap fun x => [hexDigit (x / 16 % 16), hexDigit (x % 16)])

def hexVal? (c : Char) : Option Nat :=
  if c.isDigit then some (c.toNat - 48)
  else if 'a'.toNat ≤ c.toNat ∧ c.toNat ≤ 'f'.toNat then some (c.toNat - 87) else none

def natOfHex? (s : List Char) : Option Nat :=
  if s.isEmpty then none else s.foldlM (fun acc c => (hexVal? c).map (acc * 16 + ·)) 0

def bytesOfHex? : List Char → Option (List Nat)
  | [] => some []
  | [_] => none
  | a :: b :: r => do
    let x ← hexVal? a
    let y ← hexVal? b
    let t ← bytesOfHex? r
    pure ((x * 16 + y) :: t)

def bytesOfWire? (s : String) : Option (List Nat) := if s = "-" then some [] else bytesOfHex? s.toList

def natToHex (n : Nat) : String := String.ofList (Nat.toDigits 16 n)

def Val.toWire : Val → String
  | .int i => toString i
  | .flt p => "f" ++ natToHex p
  | .nan => "nan"

def valOfWire? (s : String) : Option Val :=
  match s.toList with
  | 'f' :: r => (natOfHex? r).map .flt
  | _ => s.toInt?.map .int

def valsOfWire? (s : String) : Option (List Val) :=
  if s = "-" then some [] else (s.splitOn ",").mapM valOfWire?

def valsToWire (vs : List Val) : String :=
  if vs.isEmpty then "-" else ",".intercalate (vs.map Val.toWire)

/-- A value token that may be a float64 pattern `d<hex>`, packed at `len` bits. -/
def valOfWireD? (len : Nat) (s : String) : Option Val :=
  match s.toList with
  | 'd' :: r => (natOfHex? r).map fun p => .flt (storedPattern len p)
  | _ => valOfWire? s

def valsOfWireD? : List Char → List String → Option (List Val)
  | c :: cs, t :: ts => do
    let v ← valOfWireD? (8 * ((structKindSize c).map (·.2)).getD 0) t
    let r ← valsOfWireD? cs ts
    pure (v :: r)
  | _, [] => some []
  | [], ts => ts.mapM valOfWire?

def fmtOfWire? (s : String) : Option Fmt :=
  if s = "None" then some .none else
  match s.splitOn ":" with
  | ["i", v] => v.toInt?.map .int
  | ["l", vs] => if vs = "" then some (.sizes []) else ((vs.splitOn ",").mapM String.toInt?).map .sizes
  | ["s", f] => some (.str f)
  | _ => none

def boolOfWire? (s : String) : Option Bool :=
  if s = "1" then some true else if s = "0" then some false else none

/-- Every exception is `err`: the property names no exception class. -/
def res {α} (f : α → String) : Except Err α → String
  | .ok a => "ok " ++ f a
  | .error _ => "err"

def getNe (signed : Bool) (b : Bits) : Except Err Val :=
  match resolve (if signed then "intne" else "uintne") with
  | some d => getFn d b
  | none => .error .value

def handle (args : List String) : String :=
  match args with
  | ["pack", fmt, vals] =>
    match valsOfWire? vals with
    | some vs => res (fun b => hexOfBytes (toBytes b)) (pack fmt vs)
    | none => "bad-op"
  | ["packd", fmt, vals] =>
    -- float values are float64 patterns `d<hex>`: `float2bitstore` rounds them with `struct.pack` (overflow → ±inf)
    match matchStructFmt fmt with
    | none => "err"
    | some (_, codes) =>
      match valsOfWireD? codes (if vals = "-" then [] else vals.splitOn ",") with
      | some vs => res (fun b => hexOfBytes (toBytes b)) (pack fmt vs)
      | none => "bad-op"
  | ["arrd", dt, vals] =>
    match setDtype dt with
    | .error _ => "err"
    | .ok d =>
      match (if vals = "-" then [] else vals.splitOn ",").mapM (valOfWireD? d.length) with
      | some vs => res (fun b => hexOfBytes (toBytes b)) (arrayBuild d vs)
      | none => "bad-op"
  | ["packl", fmts, vals] =>
    match valsOfWire? vals with
    | some vs => res (fun b => hexOfBytes (toBytes b)) (packList (fmts.splitOn ";") vs)
    | none => "bad-op"
  | ["packm", fmt, vals] =>
    match valsOfWire? vals with
    | some vs => res (fun b => hexOfBytes (toBytes b)) (packM fmt vs)
    | none => "bad-op"
  | ["unpackm", fmt, hex] =>
    match bytesOfWire? hex with
    | some d => res valsToWire (unpackM fmt (bitsOfBytes d))
    | none => "bad-op"
  | ["unpack", fmt, hex] =>
    match bytesOfWire? hex with
    | some d => res valsToWire (unpack fmt (bitsOfBytes d))
    | none => "bad-op"
  | ["interp", bits] =>
    match bitsOfStr? bits with
    | some b =>
      res valsToWire (do
        let a ← getFn .uintle b
        let c ← getFn .uintbe b
        let d ← getNe false b
        let e ← getFn .intle b
        let f ← getFn .intbe b
        let g ← getNe true b
        pure [a, c, d, e, f, g])
    | none => "bad-op"
  | ["interpf", bits] =>
    match bitsOfStr? bits with
    | some b =>
      res valsToWire (do
        let a ← getFn .floatle b
        let c ← getFn .float b
        let d ← match resolve "floatne" with
          | some d => getFn d b
          | none => .error .value
        pure [a, c, d])
    | none => "bad-op"
  | ["enc", name, len, v] =>
    match len.toNat?, valOfWire? v with
    | some n, some x =>
      res bitsToWire (match mkDtype name n with
        | .error e => .error e
        | .ok d => build d x)
    | _, _ => "bad-op"
  | ["bswap", bits, fmt, s, e, r] =>
    match bitsOfStr? bits, fmtOfWire? fmt, optIntOfStr? s, optIntOfStr? e, boolOfWire? r with
    | some b, some f, some s, some e, some r =>
      res (fun (p : Nat × Bits) => toString p.1 ++ " " ++ bitsToWire p.2) (byteswap b f s e r)
    | _, _, _, _, _ => "bad-op"
  | ["arr", dt, vals] =>
    match valsOfWire? vals with
    | some vs =>
      res (fun b => hexOfBytes (toBytes b)) (match setDtype dt with
        | .error e => .error e
        | .ok d => arrayBuild d vs)
    | none => "bad-op"
  | ["alist", dt, bits] =>
    match bitsOfStr? bits with
    | some b =>
      res valsToWire (match setDtype dt with
        | .error e => .error e
        | .ok d => arrayToList d b)
    | none => "bad-op"
  | ["aswap", dt, bits] =>
    match bitsOfStr? bits with
    | some b =>
      -- `Array.byteswap` uses only the dtype's bit length (= itemsize)
      res bitsToWire (match itemBits dt with
        | .error e => .error e
        | .ok bl => arrayByteswap ⟨.uint, bl⟩ b)
    | none => "bad-op"
  | ["aext", dt, pre, tc, isz, vals] =>
    match valsOfWire? pre, tc.toList, isz.toNat?, valsOfWire? vals with
    | some ps, [t], some n, some vs =>
      res (fun (p : Bits × List Val) => bitsToWire p.1 ++ " " ++ valsToWire p.2) (match setDtype dt with
        | .error e => .error e
        | .ok d => do
          let data ← arrayBuild d ps
          let data' ← arrayExtend d data t n vs
          let l ← arrayToList d data'
          pure (data', l))
    | _, _, _, _ => "bad-op"
  | _ => "bad-op"

end BM.C18
