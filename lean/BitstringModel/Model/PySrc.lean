/-
  Model/PySrc.lean — the Python built-ins the source-to-Lean translator (harness/translate.py) refers to.
  Import-free apart from Basic; executable.  These few definitions are the translator's trusted vocabulary:
  `slice` objects, `slice.indices`, `len(range(...))`.  `Py.sliceIndices` / `Py.rangeLen` themselves are compared
  with CPython on every C01 / C12 run (the `sl` / `slice` correspondence cases) and are the definitions every model
  uses.
-/
import BitstringModel.Model.Basic
namespace BM.Py

/-- A Python `slice(start, stop, step)` with integer-or-None fields. -/
structure Slice where
  start : Option Int
  stop : Option Int
  step : Option Int
  deriving DecidableEq, Repr

/-- `s.indices(n)` for `n ≥ 0`: ValueError for a zero step. -/
def Slice.indices (s : Slice) (n : Int) : Except Err (Int × Int × Int) :=
  let st := s.step.getD 1
  if st = 0 then .error .value else .ok (sliceIndices s.start s.stop st n.toNat)

/-- `len(range(a, b, c))` as a Python int (`c ≠ 0`). -/
def rangeLenI (a b c : Int) : Int := (rangeLen a b c : Nat)

/-- `self[i]` for an integer index: IndexError outside the data, negative indices count from the end. -/
def bitAt (b : Bits) (i : Int) : Except Err Bool := getIndex b i

/-- `a << k` / `a >> k` on Python ints: ValueError for a negative count. -/
def shlE (a k : Int) : Except Err Int := if k < 0 then .error .value else .ok (a * 2 ^ k.toNat)
def shrE (a k : Int) : Except Err Int := if k < 0 then .error .value else .ok (a / 2 ^ k.toNat)

/-- `self[a:b]._getuint()` (msb0): the unsigned value of the slice; `_getuint` rejects an empty bitstring (InterpretError = ValueError). -/
def uintOfSlice (b : Bits) (lo hi : Int) : Except Err Int :=
  match getSlice b (some lo) (some hi) none with
  | .error e => .error e
  | .ok s => if s.isEmpty then .error .value else .ok (bitsToNat s : Int)

/-- exception translation of a `try … except E: raise F` around a computation -/
def remapErr {α} (f : Err → Err) : Except Err α → Except Err α
  | .error e => .error (f e)
  | .ok a => .ok a

/-- `a // b`, `a % b` for a divisor that may be zero (ZeroDivisionError). -/
def fdivE (a b : Int) : Except Err Int := if b = 0 then .error (.internal "ZeroDivisionError") else .ok (Int.fdiv a b)
def fmodE (a b : Int) : Except Err Int := if b = 0 then .error (.internal "ZeroDivisionError") else .ok (Int.fmod a b)

/-- `sum(l)` of a list of Python ints. -/
def sumI (l : List Int) : Int := l.foldl (· + ·) 0

/-- `range(a, b, c)` as the list of its values: ValueError for a zero step. -/
def rangeE (a b c : Int) : Except Err (List Int) :=
  if c = 0 then .error .value else .ok (rangeList a b c)

/-- One effect on an object that the translator records instead of interpreting (trace mode): the source text of the
    statement with every maximal integer / Optional[int] sub-expression replaced by `_`, and the values of those
    sub-expressions in order of appearance. -/
structure Act where
  name : String
  args : List (Option Int)
  deriving DecidableEq, Repr

end BM.Py
