/-
  Model/C10.lean — exponential-Golomb codes (ue, se, uie, sie).

  ALG layer: `ue2bitstore`, `se2bitstore`, `uie2bitstore`, `sie2bitstore` (bitstore_helpers.py:73-111),
  `Bits._readue/_readse/_readuie/_readsie` (bits.py:819-941), the whole-value getters `_getue …`
  wrapped by `DtypeDefinition.length_checked_get_fn`, and the stream-level `read_fn` (dtypes.py:296-312).
  SPEC layer: the H.264 table (k zeros, then n+1 on k+1 bits, k = ⌊log₂(n+1)⌋) and the Dirac interleaved form.
-/
import BitstringModel.Model.Basic
namespace BM.C10

/-! ### encoders (ALG) -/

/-- The loop of `ue2bitstore`: `while tmp > 0: tmp >>= 1; leadingzeros += 1` — number of iterations. -/
def shiftCount : Nat → Nat → Nat
  | 0, _ => 0
  | fuel + 1, tmp => if tmp > 0 then shiftCount fuel (tmp / 2) + 1 else 0

/-- `ue2bitstore(i)` for `i ≥ 0`. -/
def ueEncodeNat (n : Nat) : Bits :=
  if n = 0 then [true] else
  let lz := shiftCount (n + 2) (n + 1) - 1          -- leadingzeros starts at -1
  let rem := n + 1 - 2 ^ lz
  List.replicate lz false ++ [true] ++ natToBits lz rem

def ueEncode (i : Int) : Except Err Bits :=
  if i < 0 then .error .value else .ok (ueEncodeNat i.toNat)

/-- `se2bitstore`: `u = 2i-1` for `i > 0`, `-2i` otherwise. -/
def seMap (i : Int) : Nat := if i > 0 then (2 * i - 1).toNat else (-2 * i).toNat
def seEncode (i : Int) : Bits := ueEncodeNat (seMap i)

/-- `uie2bitstore`: `'1' if i == 0 else '0' + '0'.join(bin(i + 1)[3:]) + '1'`.
    `bin(i+1)[3:]` = the binary digits of `i+1` after its leading 1 = its low ⌊log₂(i+1)⌋ bits. -/
def uieEncodeNat (n : Nat) : Bits :=
  if n = 0 then [true] else
  let ds := natToBits (Nat.log2 (n + 1)) (n + 1)
  (ds.flatMap fun d => [false, d]) ++ [true]

def uieEncode (i : Int) : Except Err Bits :=
  if i < 0 then .error .value else .ok (uieEncodeNat i.toNat)

/-- `sie2bitstore`: no sign bit for 0, else `uie(|i|)` followed by the sign. -/
def sieEncode (i : Int) : Bits :=
  if i = 0 then [true] else uieEncodeNat i.natAbs ++ [decide (i < 0)]

/-! ### encoders (SPEC) -/

/-- H.264 table: ⌊log₂(n+1)⌋ zeros followed by `n+1` written on ⌊log₂(n+1)⌋+1 bits. -/
def ueSpec (n : Nat) : Bits :=
  let k := Nat.log2 (n + 1)
  List.replicate k false ++ natToBits (k + 1) (n + 1)

/-! ### decoders (ALG) -/

/-- `while not self[pos]: pos += 1` — zeros before the first 1; `none` = ran off the end (IndexError). -/
def countZeros : Bits → Option Nat
  | [] => none
  | true :: _ => some 0
  | false :: t => (countZeros t).map (· + 1)

/-- `Bits._readue(pos)`: returns `(codenum, newpos)`. -/
def readUE (b : Bits) (pos : Nat) : Except Err (Nat × Nat) :=
  match countZeros (b.drop pos) with
  | none => .error .read
  | some lz =>
    let p := pos + lz                                  -- position of the terminating 1
    if lz > 0 then
      if p + lz + 1 > b.length then .error .read
      else .ok ((2 ^ lz - 1) + bitsToNat ((b.drop (p + 1)).take lz), p + lz + 1)
    else .ok (0, p + 1)

/-- `Bits._readse(pos)`. -/
def readSE (b : Bits) (pos : Nat) : Except Err (Int × Nat) :=
  match readUE b pos with
  | .error e => .error e
  | .ok (c, p) =>
    let m : Int := ((c + 1) / 2 : Nat)
    .ok (if c % 2 = 1 then m else -m, p)

/-- The loop of `_readuie` on the bits from `pos` on: `(codenum, bits consumed)`. -/
def readUIEAux : Bits → Nat → Nat → Option (Nat × Nat)
  | [], _, _ => none
  | true :: _, c, k => some (c, k + 1)
  | [false], _, _ => none
  | false :: d :: rest, c, k => readUIEAux rest (2 * c + (if d then 1 else 0)) (k + 2)

/-- `Bits._readuie(pos)`. -/
def readUIE (b : Bits) (pos : Nat) : Except Err (Nat × Nat) :=
  match readUIEAux (b.drop pos) 1 0 with
  | none => .error .read
  | some (c, k) => .ok (c - 1, pos + k)

/-- `Bits._readsie(pos)`. -/
def readSIE (b : Bits) (pos : Nat) : Except Err (Int × Nat) :=
  match readUIE b pos with
  | .error e => .error e
  | .ok (c, p) =>
    if c = 0 then .ok (0, p) else
    match b[p]? with
    | none => .error .read
    | some s => .ok (if s then -(c : Int) else (c : Int), p + 1)

/-! ### whole-value interpretation (`s.ue` etc.): `_getue` + `length_checked_get_fn` -/

def wholeOf {α} (r : Except Err (α × Nat)) (len : Nat) : Except Err α :=
  match r with
  | .error _ => .error .value                 -- ReadError → InterpretError (= ValueError)
  | .ok (v, p) => if p ≠ len then .error .value else .ok v

def getUE (b : Bits) : Except Err Nat := wholeOf (readUE b 0) b.length
def getSE (b : Bits) : Except Err Int := wholeOf (readSE b 0) b.length
def getUIE (b : Bits) : Except Err Nat := wholeOf (readUIE b 0) b.length
def getSIE (b : Bits) : Except Err Int := wholeOf (readSIE b 0) b.length

/-! ### stream-level read (`read_fn` of a variable-length dtype): `get_fn(bs[start:])`,
    InterpretError → ReadError, new position `start + length` -/

def streamRead {α} (rd : Bits → Nat → Except Err (α × Nat)) (b : Bits) (pos : Nat) : Except Err (α × Nat) :=
  match rd (b.drop pos) 0 with
  | .error _ => .error .read
  | .ok (v, l) => .ok (v, pos + l)

/-- Reading a whole list of codes one after another (`readlist`/`unpack` with `n*ue`). -/
def decodeAll {α} (rd : Bits → Nat → Except Err (α × Nat)) : Nat → Bits → Nat → Except Err (List α × Nat)
  | 0, _, pos => .ok ([], pos)
  | k + 1, b, pos =>
    match rd b pos with
    | .error e => .error e
    | .ok (v, p) =>
      match decodeAll rd k b p with
      | .error e => .error e
      | .ok (vs, q) => .ok (v :: vs, q)

/-! ### driver -/

def fmtNatPos (r : Nat × Nat) : String := s!"{r.1} {r.2}"
def fmtIntPos (r : Int × Nat) : String := s!"{r.1} {r.2}"

def handle (args : List String) : String :=
  match args with
  | "enc" :: code :: v :: _ =>
    match v.toInt? with
    | none => "bad-op"
    | some i =>
      match code with
      | "ue" => resultToStr bitsToWire (ueEncode i)
      | "se" => "ok " ++ bitsToWire (seEncode i)
      | "uie" => resultToStr bitsToWire (uieEncode i)
      | "sie" => "ok " ++ bitsToWire (sieEncode i)
      | _ => "bad-op"
  | "read" :: code :: bits :: pos :: _ =>
    match bitsOfStr? bits, pos.toNat? with
    | some b, some p =>
      match code with
      | "ue" => resultToStr fmtNatPos (streamRead readUE b p)
      | "se" => resultToStr fmtIntPos (streamRead readSE b p)
      | "uie" => resultToStr fmtNatPos (streamRead readUIE b p)
      | "sie" => resultToStr fmtIntPos (streamRead readSIE b p)
      | _ => "bad-op"
    | _, _ => "bad-op"
  | "get" :: code :: bits :: _ =>
    match bitsOfStr? bits with
    | some b =>
      match code with
      | "ue" => resultToStr toString (getUE b)
      | "se" => resultToStr toString (getSE b)
      | "uie" => resultToStr toString (getUIE b)
      | "sie" => resultToStr toString (getSIE b)
      | _ => "bad-op"
    | none => "bad-op"
  | "seq" :: codes :: vals :: _ =>
    -- the bits of a mixed sequence of codes: concatenation of the codewords
    let cs := codes.splitOn ","
    let vs := (vals.splitOn ",").map String.toInt?
    if cs.length ≠ vs.length then "bad-op" else
    let enc1 (c : String) (v : Option Int) : Option (Except Err Bits) :=
      match v with
      | none => none
      | some i =>
        match c with
        | "ue" => some (ueEncode i)
        | "se" => some (.ok (seEncode i))
        | "uie" => some (uieEncode i)
        | "sie" => some (.ok (sieEncode i))
        | _ => none
    let parts := List.zipWith enc1 cs vs
    if parts.any Option.isNone then "bad-op" else
    let r : Except Err Bits := parts.foldl (fun acc p =>
      match acc, p with
      | .error e, _ => .error e
      | .ok a, some (.ok b) => .ok (a ++ b)
      | .ok _, some (.error e) => .error e
      | .ok a, none => .ok a) (.ok [])
    resultToStr bitsToWire r
  | _ => "bad-op"

end BM.C10
