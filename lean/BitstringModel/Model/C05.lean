/-
  Model/C05.lean — pack / unpack / token strings.

  ALG layer (transcribed function by function):
    * `expand_brackets`                    utils.py:215-242   → `expandBrackets` (scan for `(`, balance, `factor*(`)
    * `preprocess_tokens`                  utils.py:141-166   → `preprocess`     (whitespace, split on `,`, `n*tok`, struct groups)
    * `structparser` + REPLACEMENTS_*      utils.py:33-78     → `matchStruct`, `structTokens`
    * `parse_single_token`                 utils.py:119-138   → `parseSingle`   (NAME_INT_RE / NAME_KWARG_RE / bare → `bits`)
    * `parse_name_length_token`            utils.py:81-99     → `parseNameLength`
    * `tokenparser`                        utils.py:169-209   → `tokenparser`
    * `Dtype.__new__`/`_new_from_token`, `Register.get_dtype`, `DtypeDefinition.get_dtype`
                                           dtypes.py:58-67,139-142,330-350,382-389 → `mkDtype`, `getDtype`
    * `Dtype.build` + the `_setxxx` setters, `int2bitstore`, `intle2bitstore`, `hex2bitstore`, `bin2bitstore`,
      `oct2bitstore`, `tidy_input_string`  dtypes.py:179-188, bits.py:581-727,946-987, bitstore_helpers.py:19-68,220-243
                                                                → `buildDT`
    * `bitstore_from_token`                bitstore_helpers.py:257-270 → `bitstoreFromToken`
    * `str_to_bitstore`                    bitstore_helpers.py:27-34   → `strToBits` (fuel = nesting of `bits=<token string>`)
    * `pack`                               methods.py:48-95   → `packLoop`, `packAlg`
    * `Bits.unpack`/`_readlist`            bits.py:1150-1187  → `unpack`, `tokenToDtype`
    * `Bits._read_dtype_list`              bits.py:1189-1224  → `pass1` (bits_after_stretchy_token), `pass2`, `readDtypeList`
    * `DtypeDefinition.read_fn` variants   dtypes.py:283-315  → `readDT`
  SPEC layer: `packT` (concatenation of per-token encodings, values consumed left to right), `arity`,
  bracket trees `BItem` with `render` / `flattenSpec`, per-kind codecs (`hexOfBits`, `binOfBits`, …).

  Scope: token kinds uint/int/uintbe/intbe/uintle/intle (+ `ne` aliases, little-endian host)/bin/hex/oct/bits/
  bool/bytes/pad/ue/se/uie/sie and the one-letter aliases u i h o b; struct codes of all 13 letters are *tokenised*,
  only the integer ones are packed.  Float kinds, negative keyword lengths in `unpack`, and a few (kind, Python
  type) combinations that have no meaning for the property return `Err.internal "unmodelled…"` — never a default.
  Option `lsb0` is off (C12's subject).  Characters: the regex classes `\d`, `[a-zA-Z]` are taken as ASCII.
-/
import BitstringModel.Model.Basic
import BitstringModel.Model.C10
namespace BM.C05
open BM

abbrev Str := List Char

/-! ## Python values that can be passed to `pack` / come out of `unpack` -/

/-- `bytes` objects are kept as their bit content (8 bits per byte, so `length % 8 = 0`). -/
inductive Val where
  | int (i : Int) | str (s : Str) | bool (b : Bool) | bytes (b : Bits) | bits (b : Bits)
  deriving Repr, DecidableEq, Inhabited

abbrev Kw := List (Str × Val)

def Kw.get? (kw : Kw) (k : Str) : Option Val := (kw.find? (·.1 = k)).map (·.2)
def Kw.has (kw : Kw) (k : Str) : Bool := kw.any (·.1 = k)

/-! ## Small string utilities (Python `str` methods) -/

/-- `str.isspace` on the characters `str.split()` splits at (ASCII + NEL + NBSP; other Unicode spaces are not generated). -/
def isPyWs (c : Char) : Bool :=
  c = ' ' || c = '\t' || c = '\n' || c = '\r' || c.toNat = 0x0b || c.toNat = 0x0c ||
  (0x1c ≤ c.toNat && c.toNat ≤ 0x1f) || c.toNat = 0x85 || c.toNat = 0xa0

/-- `''.join(s.split())` -/
def removeWs (s : Str) : Str := s.filter (fun c => !isPyWs c)

/-- `s.strip()` -/
def stripWs (s : Str) : Str := ((s.dropWhile isPyWs).reverse.dropWhile isPyWs).reverse

/-- `s.split(c)` for a single character separator. -/
def splitOnChar (c : Char) : Str → List Str
  | [] => [[]]
  | x :: xs =>
    if x = c then [] :: splitOnChar c xs
    else match splitOnChar c xs with
      | [] => [[x]]                                  -- unreachable: the result is never empty
      | h :: t => (x :: h) :: t

/-- `s.find(c)` (`none` = -1). -/
def findChar (c : Char) : Str → Option Nat
  | [] => none
  | x :: xs => if x = c then some 0 else (findChar c xs).map (· + 1)

/-- `s.replace(ab, '')` for a two-character pattern: left to right, non-overlapping. -/
def remove2 (a b : Char) : Str → Str
  | [] => []
  | [x] => [x]
  | x :: y :: rest => if x = a ∧ y = b then remove2 a b rest else x :: remove2 a b (y :: rest)

/-- decimal digits → number (`int` of a `\d+` group). -/
def parseNat (ds : Str) : Nat := ds.foldl (fun acc c => acc * 10 + (c.toNat - 48)) 0

/-- body of `int(str)`: digit groups separated by single underscores. -/
def parseDigits : Str → Nat → Bool → Option Nat
  | [], acc, prev => if prev then some acc else none
  | c :: cs, acc, prev =>
    if c.isDigit then parseDigits cs (acc * 10 + (c.toNat - 48)) true
    else if c = '_' ∧ prev then
      match cs with
      | d :: _ => if d.isDigit then parseDigits cs acc false else none
      | [] => none
    else none

/-- Python `int(s)` for a `str` in base 10 (`none` = ValueError). -/
def pyInt? (s : Str) : Option Int :=
  match stripWs s with
  | '-' :: r => (parseDigits r 0 false).map fun n => -(n : Int)
  | '+' :: r => (parseDigits r 0 false).map fun n => (n : Int)
  | r => (parseDigits r 0 false).map fun n => (n : Int)

/-! ## Bit-level codecs (bitarray primitives by their list meaning) -/

def chunksF (k : Nat) : Nat → Bits → List Bits
  | 0, _ => []
  | f + 1, b => if b.isEmpty then [] else b.take k :: chunksF k f (b.drop k)

/-- the bits cut into pieces of `k` (last piece shorter if `k ∤ length`). -/
def chunks (k : Nat) (b : Bits) : List Bits := chunksF k b.length b

/-- `tobytes()[::-1]` → `frombytes`: reverse the order of the bytes (whole-byte lengths). -/
def byteRev (b : Bits) : Bits := (chunks 8 b).reverse.flatten

def hexVal? (c : Char) : Option Nat :=
  if c.isDigit then some (c.toNat - 48)
  else if 'a'.toNat ≤ c.toNat ∧ c.toNat ≤ 'f'.toNat then some (c.toNat - 87)
  else none

def hexChar (n : Nat) : Char := if n < 10 then Char.ofNat (48 + n) else Char.ofNat (87 + n)

/-- `tidy_input_string`: whitespace and underscores removed, lower-cased (bitstore_helpers.py:19-25). -/
def tidy (s : Str) : Str := ((removeWs s).map Char.toLower).filter (· ≠ '_')

/-- `hex2bitstore` (bitstore_helpers.py:48-55). -/
def hexToBits (s : Str) : Except Err Bits :=
  match (remove2 '0' 'x' (tidy s)).mapM hexVal? with
  | none => .error .value
  | some ds => .ok (ds.flatMap (natToBits 4))

/-- `bin2bitstore` (bitstore_helpers.py:37-43). -/
def binToBits (s : Str) : Except Err Bits :=
  match (remove2 '0' 'b' (tidy s)).mapM (fun c => if c = '1' then some true else if c = '0' then some false else none) with
  | none => .error .value
  | some b => .ok b

/-- `oct2bitstore` (bitstore_helpers.py:58-65). -/
def octToBits (s : Str) : Except Err Bits :=
  match (remove2 '0' 'o' (tidy s)).mapM (fun c => if '0'.toNat ≤ c.toNat ∧ c.toNat ≤ '7'.toNat then some (c.toNat - 48) else none) with
  | none => .error .value
  | some ds => .ok (ds.flatMap (natToBits 3))

/-- `ba2hex` / `to01` / `ba2base(8, ·)` on lengths that are multiples of 4 / 1 / 3. -/
def hexOfBits (b : Bits) : Str := (chunks 4 b).map fun c => hexChar (bitsToNat c)
def binOfBits (b : Bits) : Str := b.map fun x => if x then '1' else '0'
def octOfBits (b : Bits) : Str := (chunks 3 b).map fun c => Char.ofNat (48 + bitsToNat c)

/-! ## `expand_brackets` (utils.py:215-242) -/

/-- the inner `while p < len(s)` loop: `count` hanging brackets, position `p`; `some p` = index of the closing bracket. -/
def matchClose : Str → Nat → Nat → Option Nat
  | [], _, _ => none
  | c :: rest, count, p =>
    let count' := if c = '(' then count + 1 else if c = ')' then count - 1 else count
    if count' = 0 then some p else matchClose rest count' (p + 1)

/-- at the head of the string: `\d+\*\(` → `(digits, rest after the bracket)`. -/
def bracketAt (s : Str) : Option Str :=
  let ds := s.takeWhile Char.isDigit
  if ds.isEmpty then none else
  match s.dropWhile Char.isDigit with
  | '*' :: '(' :: _ => some ds
  | _ => none

/-- `BRACKET_RE.search(s)`: leftmost match of `(\d+)\*\(` → `(start of the digits, factor)`. -/
def bracketSearch : Str → Nat → Option (Nat × Nat)
  | [], _ => none
  | c :: rest, i =>
    match bracketAt (c :: rest) with
    | some ds => some (i, parseNat ds)
    | none => bracketSearch rest (i + 1)

/-- `','.join([x] * n)` -/
def joinRepeat : Nat → Str → Str
  | 0, _ => []
  | 1, x => x
  | n + 2, x => x ++ [','] ++ joinRepeat (n + 1) x

/-- one turn of the `while True` loop: `none` = no bracket left (break). -/
def expandStep (s : Str) : Except Err (Option Str) :=
  match findChar '(' s with
  | none => .ok none
  | some start =>
    match matchClose (s.drop (start + 1)) 1 (start + 1) with
    | none => .error .value                                        -- "Unbalanced parenthesis"
    | some p =>
      let inner := (s.drop (start + 1)).take (p - (start + 1))
      let post := s.drop (p + 1)
      if start = 0 ∨ s[start - 1]? ≠ some '*' then
        .ok (some (s.take start ++ inner ++ post))
      else
        match bracketSearch s 0 with
        | none => .error .value                                    -- "Failed to parse"
        | some (ms, factor) =>
          .ok (some (s.take ms ++ joinRepeat factor inner ++ post))

def expandFuel : Nat → Str → Except Err Str
  | 0, _ => .error (.internal "fuel")
  | fuel + 1, s =>
    match expandStep s with
    | .error e => .error e
    | .ok none => .ok s
    | .ok (some s') => expandFuel fuel s'

/-- `expand_brackets(s)`; the fuel `10^len + 1` bounds the number of turns for every rendered bracket tree
    (theorem `expandBrackets_render`); running out would be reported as `Internal:fuel`, never as a result. -/
def expandBrackets (s : Str) : Except Err Str := expandFuel (10 ^ s.length + 1) s

/-! ### SPEC: bracket trees -/

/-- a format as a tree: plain token texts and (optionally multiplied) bracket groups.
    The factor is given by its digit string, its value is `parseNat`. -/
inductive BItem where
  | atom (s : Str)
  | group (factor : Option Str) (items : List BItem)

def joinComma : List Str → Str
  | [] => []
  | [x] => x
  | x :: y :: rest => x ++ [','] ++ joinComma (y :: rest)

mutual
  def BItem.render : BItem → Str
    | .atom s => s
    | .group none items => ['('] ++ joinComma (BItem.renderList items) ++ [')']
    | .group (some ds) items => ds ++ ['*', '('] ++ joinComma (BItem.renderList items) ++ [')']
  def BItem.renderList : List BItem → List Str
    | [] => []
    | x :: xs => x.render :: BItem.renderList xs
end

/-- the format written on one line -/
def renderItems (items : List BItem) : Str := joinComma (BItem.renderList items)

mutual
  /-- SPEC of bracket expansion: `n*(f)` is `f` written `n` times. -/
  def BItem.flattenSpec : BItem → List Str
    | .atom s => [s]
    | .group none items => BItem.flattenSpecList items
    | .group (some ds) items => (List.replicate (parseNat ds) (BItem.flattenSpecList items)).flatten
  def BItem.flattenSpecList : List BItem → List Str
    | [] => []
    | x :: xs => x.flattenSpec ++ BItem.flattenSpecList xs
end

mutual
  /-- the comma separated pieces of the text `expand_brackets` returns: a group with factor 0 leaves one empty
      piece behind (`a,0*(b),c` ↦ `a,,c`), which `preprocess_tokens` then skips. -/
  def BItem.flattenCode : BItem → List Str
    | .atom s => [s]
    | .group none items => BItem.flattenCodeList items
    | .group (some ds) items =>
      if parseNat ds = 0 then [[]] else (List.replicate (parseNat ds) (BItem.flattenCodeList items)).flatten
  def BItem.flattenCodeList : List BItem → List Str
    | [] => []
    | x :: xs => x.flattenCode ++ BItem.flattenCodeList xs
end

mutual
  /-- well-formed tree: atoms carry no bracket or comma and are not empty, factors are non-empty digit strings,
      groups are not empty. -/
  def BItem.wf : BItem → Bool
    | .atom s => !s.isEmpty && s.all (fun c => c ≠ '(' && c ≠ ')' && c ≠ ',')
    | .group none items => !items.isEmpty && BItem.wfList items
    | .group (some ds) items => !ds.isEmpty && ds.all Char.isDigit && !items.isEmpty && BItem.wfList items
  def BItem.wfList : List BItem → Bool
    | [] => true
    | x :: xs => x.wf && BItem.wfList xs
end

/-! ## struct-style tokens (utils.py:26-78) -/

def structCodes : Str := "bBhHlLiIqQefd".toList

/-- `REPLACEMENTS_BE / _LE / _NE` (utils.py:36-57); `e` ∈ `> < =`(native). -/
def replacement (endian : Char) (c : Char) : Str :=
  let e := if endian = '>' then "be" else if endian = '<' then "le" else "ne"
  (match c with
   | 'b' => "int8" | 'B' => "uint8"
   | 'h' => s!"int{e}16" | 'H' => s!"uint{e}16"
   | 'l' => s!"int{e}32" | 'L' => s!"uint{e}32"
   | 'i' => s!"int{e}32" | 'I' => s!"uint{e}32"
   | 'q' => s!"int{e}64" | 'Q' => s!"uint{e}64"
   | 'e' => s!"float{e}16" | 'f' => s!"float{e}32" | 'd' => s!"float{e}64"
   | _ => "?").toList

/-- `(?:\d*[bBhHlLiIqQefd])+$` split as `STRUCT_SPLIT_RE.findall` does: list of (count digits, code). -/
def splitStruct : Str → Str → Option (List (Str × Char))
  | [], acc => if acc.isEmpty then some [] else none
  | c :: cs, acc =>
    if c.isDigit then splitStruct cs (acc ++ [c])
    else if structCodes.contains c then (splitStruct cs []).map ((acc, c) :: ·)
    else none

/-- `STRUCT_PACK_RE.match(t)` → (endian, groups). -/
def matchStruct (t : Str) : Option (Char × List (Str × Char)) :=
  match t with
  | e :: rest =>
    if e = '<' ∨ e = '>' ∨ e = '@' ∨ e = '=' then
      match splitStruct rest [] with
      | some (x :: xs) => some (e, x :: xs)
      | _ => none
    else none
  | [] => none

/-- `structparser(m)` (utils.py:62-78). -/
def structTokens (e : Char) (groups : List (Str × Char)) : List Str :=
  let fmt : Str := groups.flatMap fun (ds, c) => if ds.isEmpty then [c] else List.replicate (parseNat ds) c
  fmt.map (replacement e)

/-! ## `preprocess_tokens` (utils.py:141-166) -/

/-- `MULTIPLICATIVE_RE = ^(.*)\*(.+)`: greedy — the last `*` that still has something after it. -/
def multiplicative (t : Str) : Option (Str × Str) :=
  let idx := (List.range t.length).filter fun i => t[i]? = some '*' ∧ i + 1 < t.length
  match idx.getLast? with
  | none => none
  | some i => some (t.take i, t.drop (i + 1))

def preprocessMeta (m : Str) : Except Err (List Str) :=
  if m.isEmpty then .ok [] else
  match (match multiplicative m with
         | some (f, t) => (match pyInt? f with | some n => Except.ok (n, t) | none => Except.error Err.value)
         | none => Except.ok ((1 : Int), m)) with
  | .error e => .error e
  | .ok (factor, tok) =>
    let toks := match matchStruct tok with
      | some (e, groups) => structTokens e groups
      | none => [tok]
    .ok (List.replicate factor.toNat toks).flatten             -- `tokens * factor`, empty for factor ≤ 0

def preprocess (fmt : Str) : Except Err (List Str) :=
  match expandBrackets (removeWs fmt) with
  | .error e => .error e
  | .ok s => (splitOnChar ',' s).foldlM (fun acc m => (preprocessMeta m).map (acc ++ ·)) []

/-! ## single tokens (utils.py:7-11, 81-138) -/

def isNameChar (c : Char) : Bool := c.isAlphanum || c = '_'
def validName (p : Str) : Bool :=
  match p with
  | c :: _ => c.isAlpha && p.all isNameChar
  | [] => false

def dropColon (r : Str) : Str := match r with | ':' :: t => t | _ => r

/-- `NAME_INT_RE = ^([a-zA-Z][a-zA-Z0-9_]*?):?(\d*)$` — lazy name: the shortest admissible prefix. -/
def matchNameInt (t : Str) : Option (Str × Str) :=
  (List.range' 1 t.length).findSome? fun k =>
    let p := t.take k
    let r := dropColon (t.drop k)
    if validName p ∧ r.all Char.isDigit then some (p, r) else none

/-- `NAME_KWARG_RE = ^([a-zA-Z][a-zA-Z0-9_]*?):?([a-zA-Z0-9_]+)$`. -/
def matchNameKwarg (t : Str) : Option (Str × Str) :=
  (List.range' 1 t.length).findSome? fun k =>
    let p := t.take k
    let r := dropColon (t.drop k)
    if validName p ∧ !r.isEmpty ∧ r.all isNameChar then some (p, r) else none

/-- `parse_single_token` → (name, length text, value text). -/
def parseSingle (token : Str) : Str × Option Str × Option Str :=
  let (tok, value) := match findChar '=' token with
    | none => (token, none)
    | some i => (token.take i, some (token.drop (i + 1)))
  match matchNameInt tok with
  | some (name, ds) => (name, if ds.isEmpty then none else some ds, value)
  | none =>
    match matchNameKwarg tok with
    | some (name, kwd) => (name, some kwd, value)
    | none => ("bits".toList, some tok, value)

inductive LenV where
  | int (n : Int) | key (k : Str)
  deriving Repr, DecidableEq, Inhabited

/-- one entry of `tokenparser`'s result: `(name, length, value)`. -/
structure Tok where
  name : Str
  len : Option LenV
  val : Option Str
  deriving Repr, DecidableEq, Inhabited

/-- `LITERAL_RE = ^(0[xob])(.+)` with IGNORECASE. -/
def matchLiteral (t : Str) : Option (Str × Str) :=
  match t with
  | '0' :: c :: v :: rest =>
    if c = 'x' ∨ c = 'X' ∨ c = 'o' ∨ c = 'O' ∨ c = 'b' ∨ c = 'B' then some (['0', c], v :: rest) else none
  | _ => none

/-- the loop body of `tokenparser` for one pre-processed token; `none` = skipped; the flag says whether the
    token sets `stretchy_token` (a parsed token without a length). -/
def tokenOf (keys : List Str) (token : Str) : Except Err (Option (Tok × Bool)) :=
  if !keys.isEmpty ∧ keys.contains token then .ok (some (⟨token, none, none⟩, false)) else
  if token.isEmpty then .ok none else
  match matchLiteral token with
  | some (n, v) => .ok (some (⟨n, none, some v⟩, false))
  | none =>
    let (name, length, value) := parseSingle token
    match length with
    | none => .ok (some (⟨name, none, value⟩, true))
    | some l =>
      match pyInt? l with
      | some n => .ok (some (⟨name, some (.int n), value⟩, false))
      | none =>
        if keys.isEmpty ∨ !keys.contains l then .error .value
        else .ok (some (⟨name, some (.key l), value⟩, false))

/-- `tokenparser(fmt, keys)` → `(stretchy_token, tokens)`. -/
def tokenparser (fmt : Str) (keys : List Str) : Except Err (Bool × List Tok) :=
  match preprocess fmt with
  | .error e => .error e
  | .ok pre =>
    match pre.mapM (tokenOf keys) with
    | .error e => .error e
    | .ok ts =>
      let toks := ts.filterMap id
      .ok (toks.any (·.2), toks.map (·.1))

/-! ## dtypes (dtypes.py) -/

inductive Kind where
  | uint | int | uintbe | intbe | uintle | intle | hex | bin | oct | bits | bool | bytes | pad | ue | se | uie | sie
  deriving Repr, DecidableEq, Inhabited

/-- `Register.names` incl. aliases (`__init__.py:212-319`, little-endian host for the `ne` names);
    `none` = unknown name; floats etc. are known to the library but not modelled. -/
def kindOfName (n : String) : Except Err Kind :=
  match n with
  | "uint" | "u" => .ok .uint | "int" | "i" => .ok .int
  | "uintbe" => .ok .uintbe | "intbe" => .ok .intbe
  | "uintle" | "uintne" => .ok .uintle | "intle" | "intne" => .ok .intle
  | "hex" | "h" => .ok .hex | "bin" | "b" => .ok .bin | "oct" | "o" => .ok .oct
  | "bits" => .ok .bits | "bool" => .ok .bool | "bytes" => .ok .bytes | "pad" => .ok .pad
  | "ue" => .ok .ue | "se" => .ok .se | "uie" => .ok .uie | "sie" => .ok .sie
  | "float" | "floatbe" | "f" | "floatle" | "floatne" | "bfloat" | "bfloatbe" | "bfloatle" | "bfloatne"
  | "p3binary" | "p4binary" | "e4m3mxfp" | "e5m2mxfp" | "e3m2mxfp" | "e2m3mxfp" | "e2m1mxfp" | "e8m0mxfp" | "mxint" =>
    .error (.internal "unmodelled-float")
  | _ => .error .value

def Kind.variable : Kind → Bool
  | .ue | .se | .uie | .sie => true
  | _ => false

/-- `multiplier` (bits per unit of length). -/
def Kind.mult : Kind → Nat
  | .bytes => 8
  | _ => 1

/-- `length in allowed_lengths` (`AllowedLengths.__contains__`, Python `%`). -/
def Kind.allows (k : Kind) (l : Int) : Bool :=
  match k with
  | .uintbe | .intbe | .uintle | .intle => l % 8 = 0
  | .hex => l % 4 = 0
  | .oct => l % 3 = 0
  | .bool => l = 1
  | _ => true

/-- a concrete `Dtype`: kind and length in units (`None` = not given). -/
structure DT where
  kind : Kind
  len : Option Int
  deriving Repr, DecidableEq, Inhabited

def DT.bitlen (d : DT) : Option Int := d.len.map (· * d.kind.mult)
/-- `dtype.bitlength is None and not dtype.variable_length` -/
def DT.stretchy (d : DT) : Bool := d.len.isNone && !d.kind.variable

/-- `DtypeDefinition.get_dtype(length)` (dtypes.py:333-355). -/
def getDtypeK (k : Kind) (len : Option Int) : Except Err DT :=
  match len with
  | none => .ok ⟨k, if k = .bool then some 1 else none⟩
  | some l =>
    if !k.allows l then .error .value
    else if k.variable then .error .value
    else if l < 0 then .error .value                                 -- "A negative length … was supplied"
    else .ok ⟨k, some l⟩

/-- `Register.get_dtype(name, length)`. -/
def getDtype (name : Str) (len : Option Int) : Except Err DT :=
  match kindOfName (String.ofList name) with
  | .error e => .error e
  | .ok k => getDtypeK k len

/-- `parse_name_length_token(fmt, **kwargs)` (utils.py:81-99); the keyword value goes through `int(...)`. -/
def valToInt (v : Val) : Except Err Int :=
  match v with
  | .int i => .ok i
  | .bool b => .ok (if b then 1 else 0)
  | .str s => match pyInt? s with | some i => .ok i | none => .error .value
  | .bytes b => match pyInt? ((chunks 8 b).map fun c => Char.ofNat (bitsToNat c)) with | some i => .ok i | none => .error .value
  | .bits _ => .error .type

def parseNameLength (t : Str) (kw : Kw) : Except Err (Str × Option Int) :=
  match matchNameInt t with
  | some (name, ds) => .ok (name, if ds.isEmpty then none else some (parseNat ds : Int))
  | none =>
    match matchNameKwarg t with
    | some (name, k) =>
      match kw.get? k with
      | none => .error .value
      | some v => (valToInt v).map fun l => (name, some l)
    | none => .error .value

/-- `Dtype(name, length)`: with `length is None` the name is parsed again as a `name[:]length` token
    (`_new_from_token`, so `Dtype('uint8')` is uint:8). -/
def mkDtype (name : Str) (len : Option Int) : Except Err DT :=
  match len with
  | some l => getDtype name (some l)
  | none =>
    match parseNameLength (removeWs name) [] with
    | .error e => .error e
    | .ok (n, l) => getDtype n l

/-! ## building one token's bits (`Dtype.build`, setters) -/

/-- `int2bitstore(i, length, signed)` for `length > 0` (bitstore_helpers.py:220-238). -/
def int2bits (i : Int) (len : Nat) (signed : Bool) : Except Err Bits :=
  if signed then
    if i ≥ 2 ^ (len - 1) ∨ i < -(2 ^ (len - 1) : Int) then .error .value else .ok (intToBits len i)
  else
    if i < 0 ∨ i ≥ 2 ^ len then .error .value else .ok (intToBits len i)

/-- `_setuint` … `_setintle` with the dtype's length (bits.py:647-727). -/
def buildInt (len : Option Int) (signed le : Bool) (v : Val) : Except Err Bits :=
  match len with
  | none => .error .value                                         -- "A non-zero length must be specified"
  | some l =>
    if l = 0 then .error .value else
    match valToInt v with
    | .error e => .error e
    | .ok i =>
      if l < 0 then .error .value else                             -- int2ba: "length must be > 0"
      match int2bits i l.toNat signed with
      | .error e => .error e
      | .ok b => .ok (if le then byteRev b else b)

/-- `tidy_input_string` accepts only `str` (AttributeError/TypeError → ValueError); `bytes.split()` works and the
    following `''.join` raises TypeError. -/
def strArg (v : Val) : Except Err Str :=
  match v with
  | .str s => .ok s
  | .bytes _ => .error .type
  | _ => .error .value

/-- `Bits(value)` / `BitStream(value)` with a positional initialiser (bits.py:135-146, 492-516);
    `rec` turns a token string into bits (`str_to_bitstore`). -/
def bitsCtor (rec : Str → Except Err Bits) (v : Val) : Except Err Bits :=
  match v with
  | .bits b => .ok b
  | .str s => rec s
  | .bytes b => .ok b
  | .int n => if n < 0 then .error .value else .ok (List.replicate n.toNat false)
  | .bool b => .ok (List.replicate (if b then 1 else 0) false)

/-- `Bits._create_from_bitstype(value)` (no integer initialiser: TypeError). -/
def bitsFromBitstype (rec : Str → Except Err Bits) (v : Val) : Except Err Bits :=
  match v with
  | .int _ | .bool _ => .error .type
  | _ => bitsCtor rec v

/-- `_setbool` (bits.py:946-954). -/
def buildBool (v : Val) : Except Err Bits :=
  match v with
  | .int i => if i = 1 then .ok [true] else if i = 0 then .ok [false] else .error .value
  | .bool b => .ok [b]
  | .str s =>
    if s = "True".toList ∨ s = "1".toList then .ok [true]
    else if s = "False".toList ∨ s = "0".toList then .ok [false] else .error .value
  | .bytes _ => .error .value
  | .bits _ => .error (.internal "unmodelled-bool-from-bits")

/-- `_setbytes`: `bytes(data)`. -/
def buildBytes (v : Val) : Except Err Bits :=
  match v with
  | .bytes b => .ok b
  | .int n => if n < 0 then .error .value else .ok (List.replicate (8 * n.toNat) false)
  | .bool b => .ok (List.replicate (if b then 8 else 0) false)
  | .str _ => .error .type
  | .bits b => .ok (b ++ List.replicate ((8 - b.length % 8) % 8) false)          -- `Bits.__bytes__` = tobytes()

/-- the dtype's `set_fn(b, value)` — the bits before any length check. -/
def setFn (rec : Str → Except Err Bits) (d : DT) (v : Option Val) : Except Err Bits :=
  match d.kind with
  | .pad =>
    match d.bitlen with                                              -- `BitStore(length)`; value ignored
    | none => .ok []
    | some l => if l < 0 then .error .value else .ok (List.replicate l.toNat false)
  | k =>
    match v with
    | none => .error .value
    | some v =>
      match k with
      | .uint => buildInt d.bitlen false false v
      | .int => buildInt d.bitlen true false v
      | .uintbe => buildInt d.bitlen false false v
      | .intbe => buildInt d.bitlen true false v
      | .uintle => buildInt d.bitlen false true v
      | .intle => buildInt d.bitlen true true v
      | .hex => (strArg v).bind hexToBits
      | .bin => (strArg v).bind binToBits
      | .oct => (strArg v).bind octToBits
      | .bits => bitsFromBitstype rec v
      | .bool => buildBool v
      | .bytes => buildBytes v
      | .ue => (valToInt v).bind C10.ueEncode
      | .se => (valToInt v).map C10.seEncode
      | .uie => (valToInt v).bind C10.uieEncode
      | .sie => (valToInt v).map C10.sieEncode
      | .pad => .ok []

/-- `Dtype.build(value)` (dtypes.py:179-188): set, then compare with the dtype's bit length. -/
def buildDT (rec : Str → Except Err Bits) (d : DT) (v : Option Val) : Except Err Bits :=
  match setFn rec d v with
  | .error e => .error e
  | .ok b =>
    match d.bitlen with
    | some l => if (b.length : Int) ≠ l then .error .value else .ok b
    | none => .ok b

def literalNames : List Str := ["0x", "0X", "0b", "0B", "0o", "0O"].map String.toList

/-- `bitstore_from_token(name, token_length, value)` (bitstore_helpers.py:257-270). -/
def bitstoreFromToken (rec : Str → Except Err Bits) (name : Str) (len : Option Int) (v : Option Val) : Except Err Bits :=
  if literalNames.contains name then
    match v with
    | none => .error .value
    | some v =>
      match name with
      | ['0', c] =>
        if c = 'x' ∨ c = 'X' then (strArg v).bind hexToBits
        else if c = 'b' ∨ c = 'B' then (strArg v).bind binToBits
        else (strArg v).bind octToBits
      | _ => .error .value
  else
    match mkDtype name len with
    | .error e => .error e                                           -- ValueError → CreationError
    | .ok d =>
      if v.isNone ∧ name ≠ "pad".toList then .error .value else      -- "Token … requires a value."
      match buildDT rec d v with
      | .error e => .error e
      | .ok b =>
        match len, d.bitlen with
        | some _, some l => if (b.length : Int) ≠ l then .error .value else .ok b
        | _, _ => .ok b

/-- the length field after `tokenparser` without keys is an int or absent. -/
def lenNoKeys (l : Option LenV) : Except Err (Option Int) :=
  match l with
  | none => .ok none
  | some (.int n) => .ok (some n)
  | some (.key _) => .error (.internal "key-without-keys")

/-- `str_to_bitstore(s)` with `rec` for nested token strings (bitstore_helpers.py:27-34). -/
def strToBitsWith (rec : Str → Except Err Bits) (s : Str) : Except Err Bits :=
  match tokenparser s [] with
  | .error e => .error e
  | .ok (_, toks) =>
    toks.foldlM (fun acc t =>
      match lenNoKeys t.len with
      | .error e => .error e
      | .ok l => (bitstoreFromToken rec t.name l (t.val.map Val.str)).map (acc ++ ·)) []

def strToBitsF : Nat → Str → Except Err Bits
  | 0, _ => .error (.internal "fuel")
  | f + 1, s => strToBitsWith (strToBitsF f) s

/-- `Bits(s)` for a token string: a nested `bits=<string>` value is strictly shorter, so `length + 1` levels suffice. -/
def strToBits (s : Str) : Except Err Bits := strToBitsF (s.length + 1) s

/-! ## `pack` (methods.py:48-95) -/

/-- substitution of keyword values and lengths for one token, `int(length)`. -/
def resolveLen (kw : Kw) (l : Option LenV) : Except Err (Option Int) :=
  match l with
  | none => .ok none
  | some (.int n) => .ok (some n)
  | some (.key k) =>
    match kw.get? k with
    | none => .error (.internal "key-not-in-kwargs")                 -- tokenparser only lets keys through
    | some v => (valToInt v).map some

def resolveVal (kw : Kw) (v : Option Str) : Option Val :=
  match v with
  | none => none
  | some s => match kw.get? s with | some x => some x | none => some (.str s)

/-- does this token take the next positional value? (methods.py:73-75) -/
def Tok.needsValue (kw : Kw) (t : Tok) : Bool :=
  if kw.has t.name ∧ t.len.isNone ∧ t.val.isNone then false
  else t.val.isNone && t.name ≠ "pad".toList

/-- the bits of one token, given the value it ends up with (embedded, keyword or positional). -/
def tokBits (kw : Kw) (t : Tok) (positional : Option Val) : Except Err Bits :=
  if kw.has t.name ∧ t.len.isNone ∧ t.val.isNone then
    match kw.get? t.name with
    | some v => bitsCtor strToBits v                                  -- `BitStream(kwargs[name])`
    | none => .error (.internal "has-without-get")
  else
    match resolveLen kw t.len with
    | .error e => .error e
    | .ok len =>
      let value := match resolveVal kw t.val with | some v => some v | none => positional
      if t.name = "bits".toList then
        match value with
        | none => .error (.internal "bits-without-value")
        | some v =>
          match bitsCtor strToBits v with
          | .error e => .error e
          | .ok b =>
            match len with
            | some l => if l ≠ (b.length : Int) then .error .value else .ok b
            | none => .ok b
      else bitstoreFromToken strToBits t.name len value

/-- ALG: the token loop with the value iterator and the list `bsl`. -/
def packLoop (kw : Kw) : List Tok → List Val → List Bits → Except Err (List Bits × List Val)
  | [], vs, bsl => .ok (bsl, vs)
  | t :: ts, vs, bsl =>
    if t.needsValue kw then
      -- `int(length)` comes before `next(value_iter)` in the code
      match resolveLen kw t.len with
      | .error e => .error e
      | .ok _ =>
        match vs with
        | [] => .error .value                                         -- StopIteration → CreationError
        | v :: vs' =>
          match tokBits kw t (some v) with
          | .error e => .error e
          | .ok b => packLoop kw ts vs' (bsl ++ [b])
    else
      match tokBits kw t none with
      | .error e => .error e
      | .ok b => packLoop kw ts vs (bsl ++ [b])

/-- ALG: `pack` once the tokens are known: loop, surplus check, `s._bitstore += b` for every piece. -/
def packAlg (kw : Kw) (toks : List Tok) (vs : List Val) : Except Err Bits :=
  match packLoop kw toks vs [] with
  | .error e => .error e
  | .ok (bsl, rest) =>
    if !rest.isEmpty then .error .value                               -- "Too many parameters"
    else .ok (bsl.foldl (· ++ ·) [])

/-- SPEC: the bits are the concatenation of the per-token encodings, values consumed left to right;
    too few or too many values are a `ValueError` (`CreationError`). -/
def packT (kw : Kw) : List Tok → List Val → Except Err Bits
  | [], [] => .ok []
  | [], _ :: _ => .error .value
  | t :: ts, vs =>
    if t.needsValue kw then
      match resolveLen kw t.len with
      | .error e => .error e
      | .ok _ =>
        match vs with
        | [] => .error .value
        | v :: vs' =>
          match tokBits kw t (some v) with
          | .error e => .error e
          | .ok b => (packT kw ts vs').map (b ++ ·)
    else
      match tokBits kw t none with
      | .error e => .error e
      | .ok b => (packT kw ts vs).map (b ++ ·)

/-- number of positional values a token list consumes. -/
def arity (kw : Kw) (ts : List Tok) : Nat := (ts.filter (·.needsValue kw)).length

/-- sorted keys, as `tuple(sorted(kwargs.keys()))` (order is irrelevant for `in`). -/
def Kw.keys (kw : Kw) : List Str := kw.map (·.1)

/-- `pack(fmt, *values, **kwargs)` for a single format string; `Sum.inl` = format error (class not observed). -/
def pack (fmt : Str) (kw : Kw) (vs : List Val) : Except Err Bits ⊕ Unit :=
  match tokenparser fmt kw.keys with
  | .error _ => .inr ()
  | .ok (_, toks) => .inl (packAlg kw toks vs)

/-- `pack([f1, f2], …)`: the token lists are concatenated (methods.py:51-54). -/
def packList (fmts : List Str) (kw : Kw) (vs : List Val) : Except Err Bits ⊕ Unit :=
  match fmts.mapM (fun f => (tokenparser f kw.keys).map (·.2)) with
  | .error _ => .inr ()
  | .ok tss => .inl (packAlg kw tss.flatten vs)

/-! ## `unpack` (bits.py:1150-1224) -/

/-- one format token → Dtype (bits.py:1178-1186). -/
def tokenToDtype (kw : Kw) (t : Str) : Except Err DT :=
  match parseNameLength t kw with
  | .error .value =>
    match pyInt? t with
    | some n => mkDtype "bits".toList (some n)
    | none => .error .value
  | .error e => .error e
  | .ok (name, len) => mkDtype name len

/-- first pass: `(has_stretchy_token, bits_after_stretchy_token)`. -/
def pass1 : List DT → Bool → Int → Except Err (Bool × Int)
  | [], h, a => .ok (h, a)
  | d :: ds, h, a =>
    if d.stretchy then
      if h then .error .bitstring else pass1 ds true a
    else if h then
      if d.kind.variable then .error .bitstring
      else pass1 ds h (a + (d.bitlen.getD 0))                         -- not stretchy, not variable ⇒ bitlen is some
    else pass1 ds h a

/-- what `unpack` returns for a slice of `k` bits read as `kind` (the getters `_getuint` …). -/
def getVal (k : Kind) (s : Bits) : Except Err (Option Val) :=
  match k with
  | .uint | .uintbe => if s.isEmpty then .error .value else .ok (some (.int (bitsToNat s)))
  | .int | .intbe => if s.isEmpty then .error .value else .ok (some (.int (bitsToInt s)))
  | .uintle => if s.isEmpty then .error .value else .ok (some (.int (bitsToNat (byteRev s))))
  | .intle => if s.isEmpty then .error .value else .ok (some (.int (bitsToInt (byteRev s))))
  | .hex => .ok (some (.str (hexOfBits s)))
  | .bin => .ok (some (.str (binOfBits s)))
  | .oct => .ok (some (.str (octOfBits s)))
  | .bits => .ok (some (.bits s))
  | .bytes => .ok (some (.bytes s))
  | .bool => match s with | [b] => .ok (some (.bool b)) | _ => .error .value
  | .pad => .ok none
  | _ => .error (.internal "getVal-variable")

/-- `dtype.read_fn(self, pos)` and the position update, for a dtype with a known length or a variable one. -/
def readDT (b : Bits) (d : DT) (pos : Nat) : Except Err (Option Val × Nat) :=
  match d.kind with
  | .ue => (C10.streamRead C10.readUE b pos).map fun (v, p) => (some (.int v), p)
  | .se => (C10.streamRead C10.readSE b pos).map fun (v, p) => (some (.int v), p)
  | .uie => (C10.streamRead C10.readUIE b pos).map fun (v, p) => (some (.int v), p)
  | .sie => (C10.streamRead C10.readSIE b pos).map fun (v, p) => (some (.int v), p)
  | k =>
    match d.bitlen with
    | none => .error (.internal "readDT-stretchy")
    | some l =>
      if l < 0 then .error (.internal "unmodelled-negative-length") else
      let n := l.toNat
      -- both `read_fn` variants (single allowed length / explicit length) check the available bits first
      if b.length < pos + n then .error .read
      else (getVal k ((b.drop pos).take n)).map fun v => (v, pos + n)

/-- second pass (bits.py:1204-1224). -/
def pass2 (b : Bits) (after : Int) : List DT → Nat → Except Err (List Val × Nat)
  | [], pos => .ok ([], pos)
  | d :: ds, pos =>
    match (if d.stretchy then
             let bitlength : Int := max ((b.length : Int) - pos - after) 0
             let items := bitlength / (d.kind.mult : Int)
             let remainder := bitlength % (d.kind.mult : Int)
             if remainder ≠ 0 then Except.error Err.value
             else getDtypeK d.kind (some items)                          -- `Dtype(dtype.name, items)`
           else Except.ok d) with
    | .error e => .error e
    | .ok d' =>
      match readDT b d' pos with
      | .error e => .error e
      | .ok (v, pos') =>
        match pass2 b after ds pos' with
        | .error e => .error e
        | .ok (vs, p) => .ok ((match v with | some x => x :: vs | none => vs), p)

/-- `Bits._read_dtype_list(dtypes, pos)`. -/
def readDtypeList (b : Bits) (ds : List DT) (pos : Nat) : Except Err (List Val × Nat) :=
  match pass1 ds false 0 with
  | .error e => .error e
  | .ok (_, after) => pass2 b after ds pos

/-- `Bits.unpack(fmt, **kwargs)` for a single format string. -/
def unpack (fmt : Str) (kw : Kw) (b : Bits) : Except Err (List Val) :=
  match preprocess fmt with
  | .error e => .error e
  | .ok toks =>
    match toks.mapM (tokenToDtype kw) with
    | .error e => .error e
    | .ok ds => (readDtypeList b ds 0).map (·.1)

/-- the dtype list `unpack` derives from a parsed token list (used by the round-trip theorem):
    a token of the list level corresponds to `Dtype(name, length)`. -/
def tokDtype (kw : Kw) (t : Tok) : Except Err DT :=
  match resolveLen kw t.len with
  | .error e => .error e
  | .ok l => mkDtype t.name l

/-! ## SPEC-side notions used by the theorems -/

/-- SPEC: the per-token encodings, in order (`packT` is their concatenation). -/
def packParts (kw : Kw) : List Tok → List Val → Except Err (List Bits)
  | [], [] => .ok []
  | [], _ :: _ => .error .value
  | t :: ts, vs =>
    if t.needsValue kw then
      match resolveLen kw t.len with
      | .error e => .error e
      | .ok _ =>
        match vs with
        | [] => .error .value
        | v :: vs' =>
          match tokBits kw t (some v) with
          | .error e => .error e
          | .ok b => (packParts kw ts vs').map (b :: ·)
    else
      match tokBits kw t none with
      | .error e => .error e
      | .ok b => (packParts kw ts vs).map (b :: ·)

/-- the token is the name of a keyword argument standing for a whole bitstring (methods.py:66-68). -/
def Tok.isDict (kw : Kw) (t : Tok) : Bool := kw.has t.name && t.len.isNone && t.val.isNone

/-- the number of bits a token *declares* (`name:len`, units × bits per unit); `none` for length-less,
    self-delimiting, literal and dictionary tokens. -/
def declLen (kw : Kw) (t : Tok) : Option Int :=
  if t.isDict kw ∨ literalNames.contains t.name then none else
  match resolveLen kw t.len, kindOfName (String.ofList t.name) with
  | .ok (some l), .ok k => some (l * k.mult)
  | _, _ => none

/-- a token that `unpack` can name as well: no embedded value, not a dictionary entry, not a literal. -/
def Tok.plain (kw : Kw) (t : Tok) : Bool := t.val.isNone && !kw.has t.name && !literalNames.contains t.name

/-- the dtype list `unpack` works with, for a parsed token list. -/
def tokDtypes (kw : Kw) : List Tok → Except Err (List DT)
  | [] => .ok []
  | t :: ts =>
    match tokDtype kw t with
    | .error e => .error e
    | .ok d => (tokDtypes kw ts).map (d :: ·)

def isLowerHex (c : Char) : Bool := (hexVal? c).isSome
def isBinDigit (c : Char) : Bool := c = '0' || c = '1'
def isOctDigit (c : Char) : Bool := '0'.toNat ≤ c.toNat && c.toNat ≤ '7'.toNat

/-- the value is of the Python type `unpack` returns for the kind, in canonical spelling
    (ints as `int`, hex/bin/oct strings as bare lower-case digits, whole bytes). -/
def canonical (k : Kind) (v : Val) : Bool :=
  match k, v with
  | .uint, .int _ | .int, .int _ | .uintbe, .int _ | .intbe, .int _ | .uintle, .int _ | .intle, .int _ => true
  | .ue, .int _ | .se, .int _ | .uie, .int _ | .sie, .int _ => true
  | .hex, .str s => s.all isLowerHex
  | .bin, .str s => s.all isBinDigit
  | .oct, .str s => s.all isOctDigit
  | .bits, .bits _ => true
  | .bytes, .bytes b => b.length % 8 = 0
  | .bool, .bool _ => true
  | _, _ => false

/-- `vs` are canonical values for the value-taking tokens of `ts`, one each, in order (`pad` takes none). -/
def conform (kw : Kw) : List Tok → List Val → Bool
  | [], vs => vs.isEmpty
  | t :: ts, vs =>
    if t.name = "pad".toList then conform kw ts vs
    else match vs with
      | [] => false
      | v :: vs' =>
        (match tokDtype kw t with
         | .ok d => canonical d.kind v
         | .error _ => false) && conform kw ts vs'

/-- a pre-processed token text that both `pack` and `unpack` read as a plain `name[:]length` token (or a bare length):
    not empty, no `=value`, not a keyword name, not a literal, its name is not a keyword, and a keyword length is not
    itself a number (`int('1_0')` would win in `tokenparser` but not in `parse_name_length_token`). -/
def plainText (kw : Kw) (t : Str) : Bool :=
  !t.isEmpty && !t.contains '=' && !kw.keys.contains t && (matchLiteral t).isNone && !kw.has (parseSingle t).1 &&
  (match matchNameInt t, matchNameKwarg t with
   | none, some (_, k) => (pyInt? k).isNone
   | _, _ => true)

mutual
  /-- the token texts written in a bracket tree -/
  def BItem.atoms : BItem → List Str
    | .atom s => [s]
    | .group _ items => BItem.atomsList items
  def BItem.atomsList : List BItem → List Str
    | [] => []
    | x :: xs => x.atoms ++ BItem.atomsList xs
end

/-- a token text that `preprocess_tokens` passes through unchanged: no factor, not a struct-style group -/
def simpleText (t : Str) : Bool := !t.isEmpty && !t.contains '*' && (matchStruct t).isNone

/-- abstract syntax of formats above the token level. -/
inductive Fmt where
  | tok (t : Tok)
  | rep (n : Nat) (f : Fmt)
  | seq (f g : Fmt)
  | empty

/-- SPEC: `n*(f)` is `f` written `n` times, `f, g` is `f` followed by `g`. -/
def Fmt.flatten : Fmt → List Tok
  | .tok t => [t]
  | .rep n f => (List.replicate n f.flatten).flatten
  | .seq f g => f.flatten ++ g.flatten
  | .empty => []

/-! ## line protocol -/

def hexDigitVal? (c : Char) : Option Nat := hexVal? c.toLower

/-- percent-decoding of a wire field (`%XX`). -/
def unescape : Str → Str
  | '%' :: a :: b :: rest =>
    match hexDigitVal? a, hexDigitVal? b with
    | some x, some y => Char.ofNat (16 * x + y) :: unescape rest
    | _, _ => '%' :: unescape (a :: b :: rest)
  | c :: rest => c :: unescape rest
  | [] => []

def isSafeChar (c : Char) : Bool :=
  0x21 ≤ c.toNat && c.toNat ≤ 0x7e && c ≠ '%' && c ≠ ';' && c ≠ '|' && c ≠ '~'

def escape (s : Str) : Str :=
  s.flatMap fun c => if isSafeChar c then [c] else ['%', hexChar (c.toNat / 16 % 16), hexChar (c.toNat % 16)]

def bitsOfWire? (s : Str) : Option Bits :=
  s.mapM fun c => if c = '1' then some true else if c = '0' then some false else none

/-- `i:<int>` `s:<escaped text>` `t:0|1` `y:<bits of the bytes>` `b:<bits>` -/
def valOfWire? (s : Str) : Option Val :=
  match s with
  | 'i' :: ':' :: r => (String.ofList r).toInt?.map Val.int
  | 's' :: ':' :: r => some (.str (unescape r))
  | 't' :: ':' :: r => if r = ['1'] then some (.bool true) else if r = ['0'] then some (.bool false) else none
  | 'y' :: ':' :: r => (bitsOfWire? r).map Val.bytes
  | 'b' :: ':' :: r => (bitsOfWire? r).map Val.bits
  | _ => none

def valToWire (v : Val) : Str :=
  match v with
  | .int i => "i:".toList ++ (toString i).toList
  | .str s => "s:".toList ++ escape s
  | .bool b => "t:".toList ++ [if b then '1' else '0']
  | .bytes b => "y:".toList ++ (bitsToStr b).toList
  | .bits b => "b:".toList ++ (bitsToStr b).toList

def valsOfWire? (s : Str) : Option (List Val) :=
  if s = ['-'] then some [] else (splitOnChar ';' s).mapM valOfWire?

def kwOfWire? (s : Str) : Option Kw :=
  if s = ['-'] then some [] else
  (splitOnChar ';' s).mapM fun e =>
    match findChar '=' e with
    | none => none
    | some i => (valOfWire? (e.drop (i + 1))).map fun v => (e.take i, v)

def valsToWire (vs : List Val) : String :=
  if vs.isEmpty then "-" else String.ofList (joinComma (vs.map valToWire))

def optToWire (o : Option Str) : Str := match o with | none => ['~'] | some s => escape s

def tokToWire (t : Tok) : Str :=
  escape t.name ++ ['|'] ++
  (match t.len with
   | none => ['~']
   | some (.int n) => (toString n).toList
   | some (.key k) => 'k' :: ':' :: escape k) ++ ['|'] ++ optToWire t.val

def joinWith (sep : Char) : List Str → Str
  | [] => []
  | [x] => x
  | x :: y :: rest => x ++ [sep] ++ joinWith sep (y :: rest)

def listToWire (l : List Str) : String := if l.isEmpty then "-" else String.ofList (joinWith ';' l)

/-- pack result in the observed form: format errors are plain `err`, pack-stage errors carry their class. -/
def packResToStr (r : Except Err Bits ⊕ Unit) : String :=
  match r with
  | .inr () => "err"
  | .inl (.ok b) => "ok " ++ bitsToWire b
  | .inl (.error e) => "err " ++ e.toStr

def errPlain {α} (f : α → String) : Except Err α → String
  | .ok a => "ok " ++ f a
  | .error (.internal n) => "err Internal:" ++ n
  | .error _ => "err"

def handle (args : List String) : String :=
  match args with
  | "expand" :: s :: _ =>
    errPlain (fun r => String.ofList (escape r) ++ ".") (expandBrackets (unescape s.toList))
  | "tok" :: fmt :: keys :: _ =>
    let ks := if keys = "-" then [] else splitOnChar ';' keys.toList
    let f := unescape fmt.toList
    (match preprocess f with
     | .error (.internal n) => "err Internal:" ++ n
     | .error _ => "err"
     | .ok pre =>
       match tokenparser f ks with
       | .error (.internal n) => "err Internal:" ++ n
       | .error _ => "err"
       | .ok (st, toks) => "ok " ++ listToWire (pre.map escape) ++ " " ++ (if st then "1" else "0") ++ " " ++ listToWire (toks.map tokToWire))
  | "pack" :: fmt :: kw :: vals :: u :: _ =>
    match kwOfWire? kw.toList, valsOfWire? vals.toList with
    | some kw, some vs =>
      let f := unescape fmt.toList
      let r := pack f kw vs
      (match r with
       | .inl (.ok b) =>
         packResToStr r ++ (if u = "1" then " U:" ++ errPlain valsToWire (unpack f kw b) else "")
       | _ => packResToStr r)
    | _, _ => "bad-op"
  | "comp" :: f1 :: f2 :: kw :: v1 :: v2 :: _ =>
    match kwOfWire? kw.toList, valsOfWire? v1.toList, valsOfWire? v2.toList with
    | some kw, some a, some b =>
      packResToStr (pack (unescape f1.toList ++ [','] ++ unescape f2.toList) kw (a ++ b))
    | _, _, _ => "bad-op"
  | "rep" :: n :: fmt :: kw :: vals :: _ =>
    match n.toNat?, kwOfWire? kw.toList, valsOfWire? vals.toList with
    | some n, some kw, some vs =>
      packResToStr (pack ((toString n).toList ++ "*(".toList ++ unescape fmt.toList ++ [')']) kw (List.replicate n vs).flatten)
    | _, _, _ => "bad-op"
  | "str" :: s :: _ =>
    errPlain bitsToWire (strToBits (unescape s.toList))
  | "unpack" :: fmt :: kw :: bits :: _ =>
    match kwOfWire? kw.toList, bitsOfStr? bits with
    | some kw, some b => errPlain valsToWire (unpack (unescape fmt.toList) kw b)
    | _, _ => "bad-op"
  | _ => "bad-op"

end BM.C05
