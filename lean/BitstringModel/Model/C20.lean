/-
  Model/C20.lean — well-typed misuse fails cleanly: the `assert`s (and the one division) in private helpers
  are modelled as INTERNAL errors, the public entry points with the guards they really perform.  The theorems
  (Props/C20.lean) show no public entry point can reach an internal error, for any argument values.

  Private helpers (bits.py:1011-1134): `_absolute_slice`, `_truncateleft`, `_truncateright`, `_insert`,
  `_overwrite`, `_delete`, `_reversebytes`, `_invert`, `_ilshift`, `_irshift`, `_imul`, `_validate_slice`.
  Public entry points (bits.py:329-383, bitarray_.py): `<<`, `>>`, `*`, `<<=`, `>>=`, `*=`, `insert`,
  `overwrite`, `rol`, `ror`, `invert`, `reverse`, `byteswap` (integer format), and for streams `pos=`,
  `bytealign`, `read(int)`.
-/
import BitstringModel.Model.Basic
namespace BM.C20

def assertion : Err := .internal "AssertionError"
def zeroDiv : Err := .internal "ZeroDivisionError"

def Err.isInternal : Err → Bool
  | .internal _ => true
  | _ => false

def isInternal {α} : Except Err α → Bool
  | .error e => Err.isInternal e
  | .ok _ => false

def check (c : Bool) (e : Err) : Except Err Unit := if c then .ok () else .error e

/-! ### private helpers, each with the `assert` it starts with -/

/-- `l[a:b]` for plain ints (Python slice semantics). -/
def pySlice (l : Bits) (a b : Int) : Bits :=
  match Py.getSlice l (some a) (some b) none with
  | .ok r => r
  | .error _ => []          -- step is None: cannot fail

/-- `l[a:b] = v`. -/
def pySetSlice (l : Bits) (a b : Int) (v : Bits) : Bits :=
  let (s, e, _) := Py.sliceIndices (some a) (some b) 1 l.length
  let e' := max s e
  l.take s.toNat ++ v ++ l.drop e'.toNat

def absoluteSlice (l : Bits) (s e : Int) : Except Err Bits :=
  if e = s then .ok [] else do
    check (decide (s < e)) assertion
    pure (pySlice l s e)

/-- `_truncateleft(bits)`: returns the remaining bits. -/
def truncateLeft (l : Bits) (bits : Int) : Except Err Bits := do
  check (decide (0 ≤ bits ∧ bits ≤ l.length)) assertion
  if bits = 0 then pure l else do
    let _ ← absoluteSlice l 0 bits
    if bits = l.length then pure [] else pure (l.drop bits.toNat)

def truncateRight (l : Bits) (bits : Int) : Except Err Bits := do
  check (decide (0 ≤ bits ∧ bits ≤ l.length)) assertion
  if bits = 0 then pure l else do
    let _ ← absoluteSlice l ((l.length : Int) - bits) l.length
    if bits = l.length then pure [] else pure (pySlice l 0 ((l.length : Int) - bits))

def insertH (l b : Bits) (pos : Int) : Except Err Bits := do
  check (decide (0 ≤ pos ∧ pos ≤ l.length)) assertion
  pure (pySetSlice l pos pos b)

/-- `_overwrite(bs, pos)`; `same` = `bs is self`. -/
def overwriteH (l b : Bits) (pos : Int) (same : Bool) : Except Err Bits := do
  check (decide (0 ≤ pos ∧ pos ≤ l.length)) assertion
  if same then do
    check (decide (pos = 0)) assertion
    pure l
  else pure (pySetSlice l pos (pos + b.length) b)

def deleteH (l : Bits) (bits pos : Int) : Except Err Bits := do
  check (decide (0 ≤ pos ∧ pos ≤ l.length)) assertion
  check (decide (pos + bits ≤ l.length)) assertion
  pure (pySetSlice l pos (pos + bits) [])

def bytesRev (b : Bits) : Bits :=
  -- reverse the order of the 8-bit groups (the last group may be short only if the assert was violated)
  let rec go (fuel : Nat) (x : Bits) (acc : Bits) : Bits :=
    match fuel with
    | 0 => acc
    | f + 1 => if x.isEmpty then acc else go f (x.drop 8) (x.take 8 ++ acc)
  go (b.length + 1) b []

def reverseBytesH (l : Bits) (s e : Int) : Except Err Bits := do
  check (decide ((e - s) % 8 = 0)) assertion
  -- self._bitstore[start:end] = frombytes(getslice(start, end).tobytes()[::-1])
  let seg := pySlice l s e
  let padded := seg ++ List.replicate ((8 - seg.length % 8) % 8) false
  pure (pySetSlice l s e (bytesRev padded))

def invertH (l : Bits) (pos : Int) : Except Err Bits := do
  check (decide (0 ≤ pos ∧ pos < l.length)) assertion
  pure (l.set pos.toNat (!(l.getD pos.toNat false)))

def ilshiftH (l : Bits) (n : Int) : Except Err Bits := do
  check (decide (0 < n ∧ n ≤ l.length)) assertion
  truncateLeft (l ++ List.replicate n.toNat false) n

def irshiftH (l : Bits) (n : Int) : Except Err Bits := do
  check (decide (0 < n ∧ n ≤ l.length)) assertion
  truncateRight (List.replicate n.toNat false ++ l) n

def imulH (l : Bits) (n : Int) : Except Err Bits := do
  check (decide (0 ≤ n)) assertion
  pure (List.replicate n.toNat l).flatten

/-- `_validate_slice(start, end)` (bits.py:1139). -/
def validateSlice (len : Nat) (start stop : Option Int) : Except Err (Int × Int) :=
  let s : Int := match start with | none => 0 | some x => if x < 0 then x + len else x
  let e : Int := match stop with | none => len | some x => if x < 0 then x + len else x
  if 0 ≤ s ∧ s ≤ e ∧ e ≤ len then .ok (s, e) else .error .value

/-! ### public entry points, with the guards they perform before calling a helper -/

/-- `Bits.__lshift__`. -/
def pubLshift (l : Bits) (n : Int) : Except Err Bits :=
  if n < 0 then .error .value else
  if l.length = 0 then .error .value else do
    let n := min n l.length
    let s ← absoluteSlice l n l.length
    pure (s ++ List.replicate n.toNat false)

/-- `Bits.__rshift__`. -/
def pubRshift (l : Bits) (n : Int) : Except Err Bits :=
  if n < 0 then .error .value else
  if l.length = 0 then .error .value else
  if n = 0 then .ok l else do
    let k := min n l.length
    let s ← absoluteSlice l 0 ((l.length : Int) - k)
    pure (List.replicate k.toNat false ++ s)

/-- `BitArray.__ilshift__`. -/
def pubIlshift (l : Bits) (n : Int) : Except Err Bits :=
  if n < 0 then .error .value else
  if l.length = 0 then .error .value else
  if n = 0 then .ok l else ilshiftH l (min n l.length)

def pubIrshift (l : Bits) (n : Int) : Except Err Bits :=
  if n < 0 then .error .value else
  if l.length = 0 then .error .value else
  if n = 0 then .ok l else irshiftH l (min n l.length)

/-- `BitArray.__imul__` / `Bits.__mul__`. -/
def pubImul (l : Bits) (n : Int) : Except Err Bits :=
  if n < 0 then .error .value else imulH l n

/-- `BitArray.insert(bs, pos)` (bitarray_.py): negative pos from the end, range check, then empty → no-op. -/
def pubInsert (l b : Bits) (pos : Int) : Except Err Bits :=
  let p := if pos < 0 then pos + l.length else pos
  if ¬ (0 ≤ p ∧ p ≤ l.length) then .error .value else
  if b.length = 0 then .ok l else insertH l b p

/-- `BitArray.overwrite(bs, pos)`; `same` = the argument is the object itself (it is then copied first). -/
def pubOverwrite (l b : Bits) (pos : Int) (same : Bool) : Except Err Bits :=
  let b := if same then l else b
  let p := if pos < 0 then pos + l.length else pos
  if p < 0 ∨ p > l.length then .error .value else
  if b.length = 0 then .ok l else overwriteH l b p false

/-- `BitArray.rol(bits, start, end)` → `_rol_msb0`. -/
def pubRol (l : Bits) (bits : Int) (start stop : Option Int) : Except Err Bits :=
  if l.length = 0 then .error .bitstring else
  if bits < 0 then .error .value else do
    let (s, e) ← validateSlice l.length start stop
    if s = e then pure l else do
      check (decide (e - s ≠ 0)) zeroDiv              -- bits %= (end - start)
      let k := bits % (e - s)
      if k = 0 then pure l else do
        let lhs := pySlice l s (s + k)
        let l1 ← deleteH l k s
        insertH l1 lhs (e - k)

/-- `BitArray.ror(bits, start, end)` → `_ror_msb0`. -/
def pubRor (l : Bits) (bits : Int) (start stop : Option Int) : Except Err Bits :=
  if l.length = 0 then .error .bitstring else
  if bits < 0 then .error .value else do
    let (s, e) ← validateSlice l.length start stop
    if s = e then pure l else do
      check (decide (e - s ≠ 0)) zeroDiv
      let k := bits % (e - s)
      if k = 0 then pure l else do
        let rhs := pySlice l (e - k) e
        let l1 ← deleteH l k (e - k)
        insertH l1 rhs s

/-- `BitArray.invert(pos)` for a list of positions: own bounds check (IndexError), then `_invert`. -/
def pubInvert (l : Bits) (ps : List Int) : Except Err Bits :=
  ps.foldlM (fun (acc : Bits) (p : Int) =>
    let q : Int := if p < 0 then p + (l.length : Int) else p
    if ¬ (0 ≤ q ∧ q < l.length) then .error .index else invertH acc q) l

/-- `BitArray.byteswap(fmt : int, start, end, repeat)`: integer format `fmt ≥ 0` (0 = all whole bytes). -/
def pubByteswap (l : Bits) (fmt : Int) (start stop : Option Int) (repeat_ : Bool) : Except Err (Bits × Nat) := do
  let (s, e) ← validateSlice l.length start stop
  if fmt < 0 then .error .value else
  let size : Int := if fmt = 0 then (e - s) / 8 else fmt
  let total := 8 * size
  if total = 0 then pure (l, 0) else
  let finalbit := if repeat_ then e else min (s + total) e      -- a single pattern only if it fits before `end`
  -- for patternend in range(start + total, finalbit + 1, total)
  let ends := Py.rangeList (s + total) (finalbit + 1) total
  ends.foldlM (fun (acc : Bits × Nat) pe => do
      let r ← reverseBytesH acc.1 (pe - total) pe
      pure (r, acc.2 + 1)) (l, 0)

/-! ### streams: the position stays valid -/

structure Stream where
  bits : Bits
  pos : Int
  deriving Repr

def Stream.Valid (s : Stream) : Prop := 0 ≤ s.pos ∧ s.pos ≤ s.bits.length

/-- `pos = p` (`_setbitpos`). -/
def setPos (s : Stream) (p : Int) : Except Err Stream :=
  if p < 0 then .error .value else
  if p > s.bits.length then .error .value else .ok { s with pos := p }

/-- `bytealign()`: `skipped = (8 - pos % 8) % 8; self.pos += skipped` through the validating setter. -/
def bytealign (s : Stream) : Except Err (Stream × Int) :=
  let skipped := (8 - s.pos % 8) % 8
  match setPos s (s.pos + skipped) with
  | .ok s' => .ok (s', skipped)
  | .error e => .error e

/-- `read(n : int)`. -/
def readInt (s : Stream) (n : Int) : Except Err (Stream × Bits) :=
  if n < 0 then .error .value else
  if n > s.bits.length - s.pos then .error .read else
  .ok ({ s with pos := s.pos + n }, pySlice s.bits s.pos (s.pos + n))

/-! ### driver -/

def fmtRes (r : Except Err Bits) : String :=
  match r with
  | .ok b => "ok " ++ bitsToWire b
  | .error e => if Err.isInternal e then "err internal" else "err documented"

def handle (args : List String) : String :=
  match args with
  | op :: bits :: rest =>
    match bitsOfStr? bits with
    | none => "bad-op"
    | some l =>
      let ints := rest.map optIntOfStr?
      match op, rest, ints with
      | "lshift", [_], [some (some n)] => fmtRes (pubLshift l n)
      | "rshift", [_], [some (some n)] => fmtRes (pubRshift l n)
      | "ilshift", [_], [some (some n)] => fmtRes (pubIlshift l n)
      | "irshift", [_], [some (some n)] => fmtRes (pubIrshift l n)
      | "imul", [_], [some (some n)] => fmtRes (pubImul l n)
      | "insert", [b, _], [_, some (some p)] =>
        match bitsOfStr? b with
        | some bb => fmtRes (pubInsert l bb p)
        | none => "bad-op"
      | "overwrite", [b, _, same], [_, some (some p), _] =>
        match bitsOfStr? b with
        | some bb => fmtRes (pubOverwrite l bb p (same = "1"))
        | none => "bad-op"
      | "rol", [_, _, _], [some (some k), some s, some e] => fmtRes (pubRol l k s e)
      | "ror", [_, _, _], [some (some k), some s, some e] => fmtRes (pubRor l k s e)
      | "invert", [_], [some (some p)] => fmtRes (pubInvert l [p])
      | "byteswap", [_, _, _, rep], [some (some f), some s, some e, _] =>
        match pubByteswap l f s e (rep = "1") with
        | .ok (b, n) => s!"ok {bitsToWire b} {n}"
        | .error e => if Err.isInternal e then "err internal" else "err documented"
      | _, _, _ => "bad-op"
  | _ => "bad-op"

end BM.C20
