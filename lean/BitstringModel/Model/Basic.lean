/-
  Model/Basic.lean — conventions shared by every model file.  Import-free, executable.

  * `Bits := List Bool`, index 0 = most significant / left-most bit = `s.bin[0]`.
  * Python integers are `Int`, lengths `Nat`.
  * An operation that can raise returns `Except Err α`.  `CreationError` and `InterpretError`
    *are* `ValueError` in bitstring (`exceptions.py`), so they are one constructor.
-/
namespace BM

abbrev Bits := List Bool

/-- Exception classes, as far as any property distinguishes them.
    `read` = `bitstring.ReadError` (an `IndexError` and a `bitstring.Error`);
    `bitstring` = `bitstring.Error` proper; `internal` is what C20 forbids. -/
inductive Err where
  | value | index | read | type | bitstring | byteAlign | os
  | internal (name : String)
  deriving Repr, DecidableEq, Inhabited

def Err.toStr : Err → String
  | .value => "ValueError"
  | .index => "IndexError"
  | .read => "ReadError"
  | .type => "TypeError"
  | .bitstring => "Error"
  | .byteAlign => "ByteAlignError"
  | .os => "OSError"
  | .internal n => "Internal:" ++ n

/-- The four bitstring classes. -/
inductive Cls where
  | bits | bitArray | constBitStream | bitStream
  deriving Repr, DecidableEq, Inhabited

def Cls.toStr : Cls → String
  | .bits => "Bits" | .bitArray => "BitArray"
  | .constBitStream => "ConstBitStream" | .bitStream => "BitStream"

def Cls.ofStr? : String → Option Cls
  | "Bits" => some .bits | "BitArray" => some .bitArray
  | "ConstBitStream" => some .constBitStream | "BitStream" => some .bitStream
  | _ => none

def Cls.isMutable : Cls → Bool
  | .bitArray | .bitStream => true | _ => false

def Cls.hasPos : Cls → Bool
  | .constBitStream | .bitStream => true | _ => false

/-- `isinstance(x : a, b)` for the class lattice
    BitStream ≤ ConstBitStream ≤ Bits, BitStream ≤ BitArray ≤ Bits. -/
def Cls.isInstance (a b : Cls) : Bool :=
  match a, b with
  | _, .bits => true
  | .bitArray, .bitArray => true
  | .bitStream, .bitArray => true
  | .constBitStream, .constBitStream => true
  | .bitStream, .constBitStream => true
  | .bitStream, .bitStream => true
  | _, _ => false

/-! ## Bit strings as text -/

def bitsToStr (b : Bits) : String := String.ofList (b.map fun x => if x then '1' else '0')

def bitsOfStr? (s : String) : Option Bits :=
  if s = "-" then some [] else
  s.toList.mapM fun c => if c = '1' then some true else if c = '0' then some false else none

/-- `-` stands for the empty bit string on the wire (so that every field is non-empty). -/
def bitsToWire (b : Bits) : String := if b.isEmpty then "-" else bitsToStr b

/-! ## Unsigned / two's-complement integers, MSB first -/

/-- Value of a bit list read MSB-first (`bitarray.util.ba2int(.., signed=False)`). -/
def bitsToNat (b : Bits) : Nat := b.foldl (fun acc x => 2 * acc + (if x then 1 else 0)) 0

/-- The `len` low-order bits of `n`, MSB first (`int2ba(n, length=len)` for `n < 2^len`). -/
def natToBits : (len : Nat) → Nat → Bits
  | 0, _ => []
  | len + 1, n => natToBits len (n / 2) ++ [decide (n % 2 = 1)]

/-- Two's complement reading (`ba2int(.., signed=True)`); the empty list reads as 0 here,
    callers reject it before (the code raises on zero length). -/
def bitsToInt (b : Bits) : Int :=
  match b with
  | [] => 0
  | s :: _ => if s then (bitsToNat b : Int) - (2 : Int) ^ b.length else (bitsToNat b : Int)

/-- Two's complement encoding of `i` on `len` bits (no range check). -/
def intToBits (len : Nat) (i : Int) : Bits :=
  natToBits len (i % ((2 : Int) ^ len)).toNat

/-! ## Python slice arithmetic (CPython `PySlice_AdjustIndices`, `slice.indices`, `range`) -/

namespace Py

/-- `slice.indices(n)` for a non-zero `step` (already defaulted to 1 when omitted). -/
def sliceIndices (start stop : Option Int) (step : Int) (n : Nat) : Int × Int × Int :=
  let len : Int := n
  let lower : Int := if step < 0 then -1 else 0
  let upper : Int := if step < 0 then len - 1 else len
  let clamp (x : Int) : Int :=
    if x < 0 then max (x + len) lower else min x upper
  let s := match start with
    | none => if step < 0 then upper else lower
    | some x => clamp x
  let e := match stop with
    | none => if step < 0 then lower else upper
    | some x => clamp x
  (s, e, step)

/-- `len(range(start, stop, step))`, step ≠ 0. -/
def rangeLen (start stop step : Int) : Nat :=
  if step > 0 then
    if start < stop then ((stop - start - 1) / step + 1).toNat else 0
  else
    if stop < start then ((start - stop - 1) / (-step) + 1).toNat else 0

/-- The indices visited by `range(start, stop, step)`. -/
def rangeList (start stop step : Int) : List Int :=
  (List.range (rangeLen start stop step)).map fun (k : Nat) => start + (k : Int) * step

/-- `l[start:stop:step]` with Python semantics; `step = some 0` raises ValueError. -/
def getSlice {α} (l : List α) (start stop step : Option Int) : Except Err (List α) :=
  let st := step.getD 1
  if st = 0 then .error .value else
  let (s, e, st) := sliceIndices start stop st l.length
  .ok ((rangeList s e st).filterMap fun i => l[i.toNat]?)

/-- `l[i]` with Python semantics (negative indices from the end, IndexError outside). -/
def getIndex {α} (l : List α) (i : Int) : Except Err α :=
  let j := if i < 0 then i + l.length else i
  if j < 0 then .error .index else
  match l[j.toNat]? with
  | some x => .ok x
  | none => .error .index

end Py

/-! ## Wire helpers for the driver -/

def optIntOfStr? (s : String) : Option (Option Int) :=
  if s = "None" then some none else (s.toInt?).map some

def resultToStr {α} (f : α → String) : Except Err α → String
  | .ok a => "ok " ++ f a
  | .error e => "err " ++ e.toStr

end BM

/-! ## Line-protocol driver loop (one case per line in, one canonical result per line out) -/
namespace BM

partial def driverLoop (handle : List String → String) (h out : IO.FS.Stream) : IO Unit := do
  let line ← h.getLine
  if line.isEmpty then return ()
  let l := if line.endsWith "\n" then (line.dropEnd 1).toString else line
  -- the first field is the property id (kept on the wire so a case line is self-describing)
  out.putStrLn (handle ((l.splitOn "\t").drop 1))
  driverLoop handle h out

def driverMain (handle : List String → String) : IO Unit := do
  driverLoop handle (← IO.getStdin) (← IO.getStdout)

end BM
