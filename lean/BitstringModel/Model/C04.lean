/-
  Model/C04.lean — value isolation: a heap machine for every place a bit store is shared or copied.

  Store = `BitStore` (bits + the `immutable` flag, bitstore.py:41-55); `BitStore.copy()` returns `self`
  when flagged immutable and a fresh copy otherwise; `_copy()` always copies.
  An object is (class, store id).  `step` transcribes, for each public way of obtaining an object,
  which store the result holds:
    * `cls(x)` / `_setauto_no_length_or_offset` (bits.py:489-494: `s._bitstore.copy()`), then `__init__` of the
      class (Bits/ConstBitStream: flag the store immutable, bits.py:111, bitstream.py:92;
      BitArray/BitStream: copy iff flagged, bitarray_.py:130-132, bitstream.py:550-555),
    * string construction through the `str_to_bitstore` cache (bitstore_helpers.py:30-37),
    * `fromstring` (bits.py:1777; bitarray_.py override copies for mutable classes),
    * `bits=` keyword / `bits` property / `Dtype('bits').build` (`_setbits`, bits.py:578: always `_copy()`),
    * `copy()` / `__copy__` of each class, slicing and every operator returning a new store,
      `s & s` / `s | s` (`self.copy()` shortcut), `tobitarray()` (a copy of the buffer),
    * in-place mutators (write through the object's store) and re-binding mutators
      (`clear`, `<<=`, `*=` … which give the object a new store).
-/
import BitstringModel.Model.Basic
namespace BM.C04

structure Store where
  bits : Bits
  imm : Bool
  deriving Repr, DecidableEq

structure Obj where
  cls : Cls
  sid : Nat
  deriving Repr, DecidableEq

structure Heap where
  stores : List Store := []
  objs : List Obj := []            -- user-visible objects, index = object id (never removed)
  cache : List (String × Nat) := [] -- str_to_bitstore: literal ↦ store id
  exts : List Nat := []            -- stores held by external buffers (bitarrays from tobitarray, source buffers)
  deriving Repr

inductive Op where
  | new (cls : Cls) (b : Bits)                 -- cls(bin=…), cls(uint=…), … : a fresh store
  | fromStr (cls : Cls) (key : String) (b : Bits)   -- cls('<literal>') through the string cache
  | fromstring (cls : Cls) (key : String) (b : Bits) -- cls.fromstring('<literal>')
  | fromObj (cls : Cls) (src : Nat)            -- cls(x)
  | bitsKw (cls : Cls) (src : Nat)             -- cls(bits=x)
  | assignBits (dst src : Nat)                 -- dst.bits = x     (dst of a mutable class)
  | build (src : Nat)                          -- Dtype('bits').build(x)
  | copyM (src : Nat)                          -- x.copy()
  | copyCopy (src : Nat)                       -- copy.copy(x)
  | selfOp (src : Nat)                         -- x & x, x | x  (the `bs is self → self.copy()` shortcut)
  | derive (cls : Cls) (src : Nat) (g : Bits → Bits)  -- slice, +, ~, *, <<, join, pack, unpack, read, cut … : new store
  | fromExt (cls : Cls) (b : Bits) (g : Bits → Bits)  -- cls(bytearray/bitarray/array/memoryview [, offset, length]):
                                               -- buffer `b` kept by the caller, object holds the window `g b`
  | toExt (src : Nat)                          -- x.tobitarray()
  | mutate (obj : Nat) (g : Bits → Bits)       -- in-place mutator on a mutable object
  | rebind (obj : Nat) (g : Bits → Bits)       -- mutator that gives the object a new store (clear, <<=, *= …)
  | mutateExt (k : Nat) (g : Bits → Bits)      -- the caller mutates an external buffer

/-! ### primitives -/

def alloc (h : Heap) (s : Store) : Heap × Nat :=
  ({ h with stores := h.stores ++ [s] }, h.stores.length)

def storeBits (h : Heap) (sid : Nat) : Bits := (h.stores[sid]?.map (·.bits)).getD []
def storeImm (h : Heap) (sid : Nat) : Bool := (h.stores[sid]?.map (·.imm)).getD false

def setImm (h : Heap) (sid : Nat) : Heap :=
  match h.stores[sid]? with
  | some s => { h with stores := h.stores.set sid { s with imm := true } }
  | none => h

def writeStore (h : Heap) (sid : Nat) (g : Bits → Bits) : Heap :=
  match h.stores[sid]? with
  | some s => { h with stores := h.stores.set sid { s with bits := g s.bits } }
  | none => h

def addObj (h : Heap) (o : Obj) : Heap := { h with objs := h.objs ++ [o] }

/-- `BitStore.copy()`: the store itself when flagged immutable, else a fresh unflagged copy. -/
def storeCopy (h : Heap) (sid : Nat) : Heap × Nat :=
  if storeImm h sid then (h, sid) else alloc h ⟨storeBits h sid, false⟩

/-- `BitStore._copy()`: always a fresh unflagged copy. -/
def storeCopy! (h : Heap) (sid : Nat) : Heap × Nat := alloc h ⟨storeBits h sid, false⟩

/-- `__init__` of each class applied to an object that `__new__` left holding store `sid`. -/
def initObj (h : Heap) (cls : Cls) (sid : Nat) : Heap :=
  match cls with
  | .bits | .constBitStream => addObj (setImm h sid) ⟨cls, sid⟩
  | .bitArray =>
    if storeImm h sid then
      let (h', n) := storeCopy! h sid
      addObj h' ⟨cls, n⟩
    else addObj h ⟨cls, sid⟩
  | .bitStream =>
    -- ConstBitStream.__init__ flags the store, then BitStream.__init__ copies it and clears the flag
    let h1 := setImm h sid
    let (h2, n) := storeCopy! h1 sid
    addObj h2 ⟨cls, n⟩

def cacheLookup (h : Heap) (key : String) : Option Nat := (h.cache.find? (·.1 = key)).map (·.2)

/-- `str_to_bitstore(key)`: hit → the cached store; miss → parse into a new store flagged immutable. -/
def cachedStore (h : Heap) (key : String) (b : Bits) : Heap × Nat :=
  match cacheLookup h key with
  | some sid => (h, sid)
  | none =>
    let (h', sid) := alloc h ⟨b, true⟩
    ({ h' with cache := h'.cache ++ [(key, sid)] }, sid)

/-! ### the step function -/

def step (h : Heap) : Op → Heap
  | .new cls b =>
    let (h', sid) := alloc h ⟨b, false⟩
    initObj h' cls sid
  | .fromStr cls key b =>
    let (h', sid) := cachedStore h key b
    initObj h' cls sid
  | .fromstring cls key b =>
    let (h', sid) := cachedStore h key b
    if cls.isMutable then
      let (h'', n) := storeCopy! h' sid            -- BitArray.fromstring override
      addObj h'' ⟨cls, n⟩
    else addObj h' ⟨cls, sid⟩
  | .fromObj cls src =>
    match h.objs[src]? with
    | none => h
    | some o =>
      let (h', sid) := storeCopy h o.sid
      initObj h' cls sid
  | .bitsKw cls src =>
    match h.objs[src]? with
    | none => h
    | some o =>
      let (h', sid) := storeCopy! h o.sid
      initObj h' cls sid
  | .assignBits dst src =>
    match h.objs[dst]?, h.objs[src]? with
    | some d, some o =>
      if d.cls.isMutable then
        let (h', sid) := storeCopy! h o.sid
        { h' with objs := h'.objs.set dst ⟨d.cls, sid⟩ }
      else h
    | _, _ => h
  | .build src =>
    match h.objs[src]? with
    | none => h
    | some o =>
      let (h', sid) := storeCopy! h o.sid
      addObj h' ⟨.bits, sid⟩
  | .copyM src =>
    match h.objs[src]? with
    | none => h
    | some o =>
      if o.cls.isMutable then
        let (h', sid) := storeCopy! h o.sid
        addObj h' ⟨o.cls, sid⟩
      else addObj h o                               -- `return self`
  | .copyCopy src =>
    match h.objs[src]? with
    | none => h
    | some o =>
      if o.cls.isMutable then
        let (h', sid) := storeCopy! h o.sid
        addObj h' ⟨o.cls, sid⟩
      else addObj h o                               -- Bits: self; ConstBitStream: new object, same store
  | .selfOp src =>
    match h.objs[src]? with
    | none => h
    | some o =>
      if o.cls.isMutable then
        let (h', sid) := storeCopy! h o.sid
        addObj h' ⟨o.cls, sid⟩
      else addObj h o
  | .derive cls src g =>
    match h.objs[src]? with
    | none => h
    | some o =>
      let (h', sid) := alloc h ⟨g (storeBits h o.sid), false⟩
      addObj h' ⟨cls, sid⟩
  | .fromExt cls b g =>
    let (h1, e) := alloc h ⟨b, false⟩                -- the caller's buffer
    let h2 := { h1 with exts := h1.exts ++ [e] }
    let (h3, sid) := alloc h2 ⟨g b, false⟩           -- BitStore.frombytes(bytearray(s)) / bitarray(s): a copy
    initObj h3 cls sid
  | .toExt src =>
    match h.objs[src]? with
    | none => h
    | some o =>
      let (h', sid) := storeCopy! h o.sid
      { h' with exts := h'.exts ++ [sid] }
  | .mutate obj g =>
    match h.objs[obj]? with
    | none => h
    | some o => if o.cls.isMutable then writeStore h o.sid g else h
  | .rebind obj g =>
    match h.objs[obj]? with
    | none => h
    | some o =>
      if o.cls.isMutable then
        let (h', sid) := alloc h ⟨g (storeBits h o.sid), false⟩
        { h' with objs := h'.objs.set obj ⟨o.cls, sid⟩ }
      else h
  | .mutateExt k g =>
    match h.exts[k]? with
    | none => h
    | some sid => writeStore h sid g

def run (h : Heap) (ops : List Op) : Heap := ops.foldl step h

/-! ### observation -/

def value (h : Heap) (j : Nat) : Option Bits := (h.objs[j]?).map fun o => storeBits h o.sid
def extValue (h : Heap) (k : Nat) : Option Bits := (h.exts[k]?).map fun sid => storeBits h sid
def cacheValue (h : Heap) (key : String) : Option Bits := (cacheLookup h key).map fun sid => storeBits h sid

/-! ### the isolation invariant -/

def refCountObjs (h : Heap) (sid : Nat) : Nat := (h.objs.filter (·.sid = sid)).length
def inCache (h : Heap) (sid : Nat) : Bool := h.cache.any (·.2 = sid)
def refCountExts (h : Heap) (sid : Nat) : Nat := (h.exts.filter (· = sid)).length

/-- Every store id in use exists; cached stores are flagged immutable; a store held by a mutable object is held
    by nothing else and is not flagged immutable; a store held by an external buffer is held by nothing else. -/
def Inv (h : Heap) : Prop :=
  (∀ o ∈ h.objs, o.sid < h.stores.length) ∧
  (∀ e ∈ h.cache, e.2 < h.stores.length ∧ storeImm h e.2 = true) ∧
  (∀ s ∈ h.exts, s < h.stores.length) ∧
  (∀ o ∈ h.objs, o.cls.isMutable = true →
      refCountObjs h o.sid = 1 ∧ inCache h o.sid = false ∧ refCountExts h o.sid = 0 ∧ storeImm h o.sid = false) ∧
  (∀ s ∈ h.exts, refCountObjs h s = 0 ∧ inCache h s = false ∧ refCountExts h s = 1)

/-! ### driver: one history per line -/

def mutKind (k : String) : Option (Bool × (Bits → Bits)) :=     -- (rebinding?, function)
  match k with
  | "invert" => some (false, fun b => b.map (!·))
  | "append1" => some (false, fun b => b ++ [true])
  | "set0" => some (false, fun b => match b with | [] => [] | _ :: t => true :: t)
  | "reverse" => some (false, List.reverse)
  | "clear" => some (true, fun _ => [])
  | "ilshift1" => some (true, fun b => if b.isEmpty then b else b.drop 1 ++ [false])
  | "imul2" => some (true, fun b => b ++ b)
  | "delall" => some (false, fun _ => [])
  | "overwrite1" => some (false, fun b => true :: b.drop 1)
  | "insert1" => some (false, fun b => true :: b)
  | "prepend1" => some (false, fun b => true :: b)
  | _ => none

def parseOp (h : Heap) (s : String) : Option Op :=
  match s.splitOn ":" with
  | ["new", c, b] => do some (.new (← Cls.ofStr? c) (← bitsOfStr? b))
  | ["str", c, b] => do let bb ← bitsOfStr? b; some (.fromStr (← Cls.ofStr? c) b bb)
  | ["fromstring", c, b] => do let bb ← bitsOfStr? b; some (.fromstring (← Cls.ofStr? c) b bb)
  | ["obj", c, i] => do some (.fromObj (← Cls.ofStr? c) (← i.toNat?))
  | ["bitskw", c, i] => do some (.bitsKw (← Cls.ofStr? c) (← i.toNat?))
  | ["setbits", d, i] => do some (.assignBits (← d.toNat?) (← i.toNat?))
  | ["build", i] => do some (.build (← i.toNat?))
  | ["copy", i] => do some (.copyM (← i.toNat?))
  | ["ccopy", i] => do some (.copyCopy (← i.toNat?))
  | ["selfop", i] => do some (.selfOp (← i.toNat?))
  | ["slice", i, a, b] => do
      let j ← i.toNat?; let x ← a.toNat?; let y ← b.toNat?
      let o ← h.objs[j]?
      some (.derive o.cls j (fun l => (l.drop x).take (y - x)))
  | ["same", c, i, _] => do some (.derive (← Cls.ofStr? c) (← i.toNat?) id)        -- +'' , *1, >>0, pack, unpack, join …
  | ["not", i] => do
      let j ← i.toNat?; let o ← h.objs[j]?
      some (.derive o.cls j (fun l => l.map (!·)))
  | ["cat", c, i, k, _] => do
      let j ← i.toNat?; let o2 ← h.objs[(← k.toNat?)]?
      let other := storeBits h o2.sid
      some (.derive (← Cls.ofStr? c) j (fun l => l ++ other))
  | ["ext", c, b, k] => do
      let g : Bits → Bits := match k with
        | "bytes_off8" => fun l => l.drop 8
        | "bytes_len8" => fun l => l.take 8
        | "bytes_off3" => fun l => l.drop 3
        | _ => id
      some (.fromExt (← Cls.ofStr? c) (← bitsOfStr? b) g)
  | ["setprop", d, _, b] => do
      let bb ← bitsOfStr? b
      some (.rebind (← d.toNat?) (fun _ => bb))
  | ["newkw", c, _, b] => do some (.new (← Cls.ofStr? c) (← bitsOfStr? b))
  | ["toba", i] => do some (.toExt (← i.toNat?))
  | ["mut", i, k] => do
      let (rb, g) ← mutKind k
      let j ← i.toNat?
      some (if rb then .rebind j g else .mutate j g)
  | ["mutobj", d, kind, sIdx] => do
      -- in-place mutators whose operand is another live object (its store must not end up shared)
      let j ← d.toNat?; let o2 ← h.objs[(← sIdx.toNat?)]?
      let other := storeBits h o2.sid
      match kind with
      | "append" => some (.mutate j (fun b => b ++ other))
      | "iadd" => some (.mutate j (fun b => b ++ other))
      | "prepend" => some (.rebind j (fun b => other ++ b))
      | "insert0" => some (.mutate j (fun b => other ++ b))
      | "overwrite0" => some (.mutate j (fun b => other ++ b.drop other.length))
      | "setslice01" => some (.mutate j (fun b => other ++ b.drop 1))
      | "ior" => some (.mutate j (fun b => if b.length = other.length then List.zipWith (· || ·) b other else b))
      | _ => none
  | ["mutext", i, k] => do
      let (_, g) ← mutKind k
      some (.mutateExt (← i.toNat?) g)
  | _ => none

def showState (h : Heap) (keys : List String) : String :=
  let objs := (List.range h.objs.length).map fun j => bitsToWire ((value h j).getD [])
  let exts := (List.range h.exts.length).map fun k => bitsToWire ((extValue h k).getD [])
  let cs := keys.map fun k => bitsToWire ((cacheValue h k).getD ((bitsOfStr? k).getD []))
  ",".intercalate objs ++ "|" ++ ",".intercalate exts ++ "|" ++ ",".intercalate cs

def keyOf (s : String) : Option String :=
  match s.splitOn ":" with
  | ["str", _, b] => some b
  | ["fromstring", _, b] => some b
  | _ => none

def handle (args : List String) : String :=
  match args with
  | "hist" :: rest =>
    let ops := rest
    let (_, _, outs, bad) := ops.foldl (fun (acc : Heap × List String × List String × Bool) s =>
      let (h, keys, outs, bad) := acc
      match parseOp h s with
      | none => (h, keys, outs, true)
      | some op =>
        let h' := step h op
        let keys' := match keyOf s with
          | some k => if keys.contains k then keys else keys ++ [k]
          | none => keys
        (h', keys', outs ++ [showState h' keys'], bad)) (({} : Heap), [], [], false)
    if bad then "bad-op" else "ok " ++ " ; ".intercalate outs
  | _ => "bad-op"

end BM.C04
