/-
  Model/C06.lean — the stream position of ConstBitStream / BitStream.

  SPEC layer: `Inv` (0 ≤ pos ≤ len), `occ` (the occurrences of a pattern; the search itself is C07),
              `specDecode` (what a token means on exactly the bits it consumed), Python list surgery.
  ALG layer : `step : Stream → Op → Stream × Res`, every branch transcribed from (line numbers of /repo at 92f7435)
              bitstream.py: _setbytepos/_getbytepos/_setbitpos 110-126, _clear 132-134, __copy__ 136-144 and 578-583,
              __and__/__or__/__xor__/__add__ 146-203, find/rfind 205-255, read 265-329 (rollback 326-328), readlist 331-354,
              readto 356-375, peek 385-402, peeklist 404-425, bytealign 427-436, __getitem__ 452-460,
              BitStream.__setattr__ 585-593, __iadd__ 595-604, append 606-615, overwrite 617-639, prepend 641-649,
              __setitem__ 651-656, __delitem__ 658-670, insert 672-694, replace 696-730;
              bits.py: __and__ 393-406, __or__ 418-431, _imul 1137-1149, _validate_slice 1154-1160, _readlist 1179-1199,
              _read_dtype_list 1201-1236, copy 1791-1795; dtypes.py: read_fn 291-320, get_dtype 323-342;
              bitarray_.py: __setattr__ 131-145, _setitem_int 163-179, _replace 279-308 and the in-place mutators.
  The transcription is for states that satisfy `Inv`; `run` stops at the first state that does not (the harness
  stops observing there too: the property is already broken).  `Inv` is proved to be preserved (Props/C06 `inv_run`),
  so on the code as it stands `run` never stops early.
-/
import BitstringModel.Model.Basic
import BitstringModel.Model.C10
namespace BM.C06
open BM

/-! ## state -/

/-- A stream object: `mutable = true` is BitStream, `false` ConstBitStream; `pos` is `_pos` (a Python int). -/
structure Stream where
  mutable : Bool
  bits : Bits
  pos : Int
  deriving Repr, DecidableEq

def Stream.len (s : Stream) : Int := (s.bits.length : Int)

/-- SPEC: the position is valid. -/
def Inv (s : Stream) : Prop := 0 ≤ s.pos ∧ s.pos ≤ (s.bits.length : Int)

instance (s : Stream) : Decidable (Inv s) := by unfold Inv; infer_instance

/-- SPEC of the documented rule for deletion / slice assignment / replace: pos = 0 if the length changed,
    otherwise pos is where it was. -/
def lenRule (s : Stream) (x : Stream × Res) : Prop :=
  x.1.pos = if x.1.bits.length ≠ s.bits.length then 0 else s.pos

/-! ## Python list surgery (SPEC of bitarray slicing with step 1) -/

/-- `l[a:b]` for Python ints `a`, `b` (negative = from the end, clamped). -/
def pySlice {α} (l : List α) (a b : Int) : List α :=
  let (s, e, _) := Py.sliceIndices (some a) (some b) 1 l.length
  (l.drop s.toNat).take (e - s).toNat

/-- `l[a:b] = v` (step 1): the slice `[lo, max lo hi)` is replaced by `v`. -/
def pySetSlice {α} (l : List α) (a b : Option Int) (v : List α) : List α :=
  let (s, e, _) := Py.sliceIndices a b 1 l.length
  let e := max s e
  l.take s.toNat ++ v ++ l.drop e.toNat

/-- `del l[a:b:c]`: the elements whose index is visited by the slice are removed. -/
def pyDelSlice {α} (l : List α) (a b : Option Int) (c : Int) : List α :=
  let (s, e, st) := Py.sliceIndices a b c l.length
  let idx := Py.rangeList s e st
  (l.zipIdx.filter fun (p : α × Nat) => !(idx.contains (p.2 : Int))).map Prod.fst

/-- `_validate_slice` (bits.py:1142-1148). -/
def validateSlice (len : Nat) (start stop : Option Int) : Except Err (Nat × Nat) :=
  let n : Int := len
  let s : Int := match start with | none => 0 | some x => if x < 0 then x + n else x
  let e : Int := match stop with | none => n | some x => if x < 0 then x + n else x
  if 0 ≤ s ∧ s ≤ e ∧ e ≤ n then .ok (s.toNat, e.toNat) else .error .value

/-! ## searching (SPEC; the algorithms are C07's business) -/

/-- All positions `p`, increasing, with `start ≤ p`, `p + |pat| ≤ stop`, `data[p:p+|pat|] = pat`, `aligned → 8 ∣ p`. -/
def occ (data pat : Bits) (start stop : Nat) (aligned : Bool) : List Nat :=
  (List.range (data.length + 1)).filter fun p =>
    decide (start ≤ p) && decide (p + pat.length ≤ stop) && decide (p + pat.length ≤ data.length)
      && (!aligned || p % 8 == 0) && ((data.drop p).take pat.length == pat)

/-! ## tokens and values -/

inductive Kind where
  | uint | int | bin | hex | bits | bytes | pad | bool
  deriving Repr, DecidableEq

inductive VKind where
  | ue | se | uie | sie
  deriving Repr, DecidableEq

/-- What `read` / `readlist` accept here: an integer count, `name:len`, `name` alone, a self-delimiting code. -/
inductive Tok where
  | count (n : Int)
  | fixed (k : Kind) (n : Nat)
  | stretchy (k : Kind)
  | var (v : VKind)
  deriving Repr, DecidableEq

/-- Values a read can return.  A returned stream object carries its own position. -/
inductive Val where
  | int (i : Int) | str (s : String) | stream (b : Bits) (pos : Int) | bool (b : Bool) | none | bytes (b : Bits)
  deriving Repr, DecidableEq

/-- SPEC: a returned stream object, if the value is one, starts at position 0. -/
def Val.posZero : Val → Prop
  | .stream _ p => p = 0
  | _ => True

def hexDigits : Bits → List Char
  | a :: b :: c :: d :: rest => Nat.digitChar (bitsToNat [a, b, c, d]) :: hexDigits rest
  | _ => []

def hexOf (b : Bits) : String := String.ofList (hexDigits b)

/-- `dtype.get_fn` on the slice that was cut out (bits.py `_getuint`, `_getint`, `_getbin`, `_gethex` behind
    `allowed_length_checked_get_fn`, `_getbits` = `_copy()` (a new object of the stream's class, pos 0),
    `_getbytes`, `_getpad`, `_getbool` behind the allowed-length check). -/
def decode (k : Kind) (b : Bits) : Except Err Val :=
  match k with
  | .uint => if b.isEmpty then .error .value else .ok (.int (bitsToNat b))
  | .int => if b.isEmpty then .error .value else .ok (.int (bitsToInt b))
  | .bin => .ok (.str (bitsToStr b))
  | .hex => if b.length % 4 ≠ 0 then .error .value else .ok (.str (hexOf b))
  | .bits => .ok (.stream b 0)
  | .bytes => if b.length % 8 ≠ 0 then .error .value else .ok (.bytes b)
  | .pad => .ok .none
  | .bool => match b with
    | [x] => .ok (.bool x)
    | _ => .error .value

def Kind.mult : Kind → Int
  | .bytes => 8
  | _ => 1

/-- `AllowedLengths.__contains__` for the kinds used here: hex (0, 4, 8, …), bool (1,), others unrestricted. -/
def allowed (k : Kind) (n : Int) : Bool :=
  match k with
  | .hex => n % 4 == 0
  | .bool => n == 1
  | _ => true

/-- A concrete dtype with its bit length, or a self-delimiting one. -/
inductive RDT where
  | fixed (k : Kind) (bitlen : Int)
  | var (v : VKind)
  deriving Repr, DecidableEq

/-- A dtype as `Dtype(token)` creates it: the length may still be open (a "stretchy" token). -/
inductive DT where
  | known (r : RDT)
  | stretchy (k : Kind)
  deriving Repr, DecidableEq

/-- `Dtype(name, length)` → `DtypeDefinition.get_dtype` (dtypes.py:323-342): ValueError for a length that is not
    allowed, and for a negative one. -/
def mkDtype (k : Kind) (n : Int) : Except Err RDT :=
  if !allowed k n then .error .value
  else if n < 0 then .error .value
  else .ok (.fixed k (n * k.mult))

/-- `Dtype(token)`; an integer item of a readlist becomes `Dtype('bits', n)` (bits.py:1174-1175, 1184). -/
def Tok.toDT : Tok → Except Err DT
  | .count n => (mkDtype .bits n).map .known
  | .fixed k n => (mkDtype k n).map .known
  | .stretchy .bool => (mkDtype .bool 1).map .known       -- single allowed length: filled in by get_dtype
  | .stretchy k => .ok (.stretchy k)
  | .var v => .ok (.known (.var v))

/-- `read_fn` of a fixed-length dtype (dtypes.py:293-304): both variants (one allowed length / a length argument)
    check the remaining length first (ReadError), then `get_fn(bs[start:start + length])`. -/
def readFixed (bits : Bits) (start : Int) (_k : Kind) (bitlen : Int) : Except Err Val :=
  if (bits.length : Int) < start + bitlen then .error .read
  else decode _k (pySlice bits start (start + bitlen))

/-- `l[a:]` for a Python int `a`. -/
def pyFrom {α} (l : List α) (a : Int) : List α :=
  let (s, _, _) := Py.sliceIndices (some a) none 1 l.length
  l.drop s.toNat

/-- `read_fn` of a variable-length dtype (dtypes.py:311-317): `x, length = get_fn(bs[start:])`,
    InterpretError → ReadError, returns `(x, start + length)`. -/
def readVar (bits : Bits) (start : Int) (v : VKind) : Except Err (Val × Int) :=
  let sub := pyFrom bits start
  match v with
  | .ue => match C10.readUE sub 0 with
    | .ok (n, l) => .ok (.int n, start + l)
    | .error _ => .error .read
  | .se => match C10.readSE sub 0 with
    | .ok (n, l) => .ok (.int n, start + l)
    | .error _ => .error .read
  | .uie => match C10.readUIE sub 0 with
    | .ok (n, l) => .ok (.int n, start + l)
    | .error _ => .error .read
  | .sie => match C10.readSIE sub 0 with
    | .ok (n, l) => .ok (.int n, start + l)
    | .error _ => .error .read

/-- One dtype read at `pos`: value and position after it. -/
def readRDT (bits : Bits) (pos : Int) : RDT → Except Err (Val × Int)
  | .fixed k bl => match readFixed bits pos k bl with
    | .ok v => .ok (v, pos + bl)
    | .error e => .error e
  | .var v => readVar bits pos v

/-- Give a stretchy dtype the `avail` bits that are left for it (`divmod(bitlength, bits_per_item)`, then `Dtype(name, items)`). -/
def resolve (d : DT) (avail : Int) : Except Err RDT :=
  match d with
  | .known r => .ok r
  | .stretchy k => if avail % k.mult ≠ 0 then .error .value else mkDtype k (avail / k.mult)

/-- `ConstBitStream.read` (bitstream.py:293-357): value and new position; on error the position is the old one. -/
def readTok (s : Stream) (t : Tok) : Except Err (Val × Int) :=
  match t with
  | .count n =>
    if n < 0 then .error .value
    else if n > s.len - s.pos then .error .read
    else .ok (.stream (pySlice s.bits s.pos (s.pos + n)) 0, s.pos + n)
  | t =>
    match t.toDT with
    | .error e => .error e
    | .ok d =>
      match resolve d (s.len - s.pos) with
      | .error e => .error e
      | .ok r =>
        match readRDT s.bits s.pos r with
        | .error e => .error e
        | .ok (v, np) => if np > s.len then .error .read else .ok (v, np)       -- rollback branch, 354-356

/-- First loop of `_read_dtype_list` (bits.py:1190-1201): at most one stretchy token, nothing variable after it;
    returns `bits_after_stretchy_token`. -/
def scanStretchy : List DT → Bool → Int → Except Err Int
  | [], _, after => .ok after
  | .stretchy _ :: rest, has, after => if has then .error .bitstring else scanStretchy rest true after
  | .known (.var _) :: rest, has, after => if has then .error .bitstring else scanStretchy rest has after
  | .known (.fixed _ bl) :: rest, has, after => scanStretchy rest has (if has then after + bl else after)

/-- Second loop of `_read_dtype_list` (bits.py:1204-1224). `pad` values (None) are not appended. -/
def readItems (bits : Bits) (after : Int) : List DT → Int → Except Err (List Val × Int)
  | [], pos => .ok ([], pos)
  | d :: rest, pos =>
    match resolve d (max ((bits.length : Int) - pos - after) 0) with
    | .error e => .error e
    | .ok r =>
      match readRDT bits pos r with
      | .error e => .error e
      | .ok (v, np) =>
        match readItems bits after rest np with
        | .error e => .error e
        | .ok (vs, fp) => .ok (if v = .none then vs else v :: vs, fp)

/-- The dtype list of `Bits._readlist` (bits.py:1172-1186): every dtype is created before anything is read. -/
def toDTs : List Tok → Except Err (List DT)
  | [] => .ok []
  | t :: rest =>
    match t.toDT with
    | .error e => .error e
    | .ok d =>
      match toDTs rest with
      | .error e => .error e
      | .ok ds => .ok (d :: ds)

/-- `Bits._readlist` (bits.py:1167-1187): all dtypes are created first, then `_read_dtype_list`. -/
def readList (bits : Bits) (pos : Int) (ts : List Tok) : Except Err (List Val × Int) :=
  match toDTs ts with
  | .error e => .error e
  | .ok ds =>
    match scanStretchy ds false 0 with
    | .error e => .error e
    | .ok after => readItems bits after ds pos

/-! ## SPEC of reading -/

/-- SPEC: what token `t` means on exactly the bits `b` it consumed (whole-value interpretation). -/
def specDecode (t : Tok) (b : Bits) : Except Err Val :=
  match t with
  | .count _ => .ok (.stream b 0)
  | .fixed k _ => decode k b
  | .stretchy k => decode k b
  | .var .ue => match C10.getUE b with
    | .ok n => .ok (.int n)
    | .error e => .error e
  | .var .se => match C10.getSE b with
    | .ok n => .ok (.int n)
    | .error e => .error e
  | .var .uie => match C10.getUIE b with
    | .ok n => .ok (.int n)
    | .error e => .error e
  | .var .sie => match C10.getSIE b with
    | .ok n => .ok (.int n)
    | .error e => .error e

/-- SPEC: the number of bits a token asks for when `rem` are left (`none`: the data decide). -/
def Tok.need (t : Tok) (rem : Int) : Option Int :=
  match t with
  | .count n => some n
  | .fixed k n => some (n * k.mult)
  | .stretchy .bool => some 1
  | .stretchy _ => some rem
  | .var _ => none

/-- A token whose length is still open when the dtype is created ("stretchy"). -/
def Tok.isOpen : Tok → Bool
  | .stretchy .bool => false
  | .stretchy _ => true
  | _ => false

/-- SPEC of `readlist` without a stretchy token: the single reads one after the other (`pad` values dropped). -/
def readSeq (s : Stream) : List Tok → Except Err (List Val × Int)
  | [] => .ok ([], s.pos)
  | t :: rest =>
    match readTok s t with
    | .error e => .error e
    | .ok (v, np) =>
      match readSeq { s with pos := np } rest with
      | .error e => .error e
      | .ok (vs, fp) => .ok (if v = .none then vs else v :: vs, fp)

/-- A token with a bit length of its own (integer count, `name:len`, `bool`). -/
def Tok.isFixedLen : Tok → Bool
  | .count _ => true
  | .fixed _ _ => true
  | .stretchy .bool => true
  | _ => false

/-- A self-delimiting token. -/
def Tok.isVar : Tok → Bool
  | .var _ => true
  | _ => false

/-- SPEC: the bits the fixed-length tokens `post` ask for in total (`bits_after_stretchy_token`). -/
def afterBits : List Tok → Int
  | [] => 0
  | t :: rest => (match t.need 0 with | some n => n | none => 0) + afterBits rest

/-- SPEC of `readlist` with one stretchy token `k` between `pre` (no stretchy token) and `post` (fixed-length tokens):
    the successive single reads, where the stretchy token is read as the fixed-length token `k:items` with
    `items * bits_per_item = max(remaining_at_that_point - afterBits post, 0)` (ValueError when that is not a whole
    number of items). -/
def readSeqStretchy (s : Stream) (pre : List Tok) (k : Kind) (post : List Tok) : Except Err (List Val × Int) :=
  match readSeq s pre with
  | .error e => .error e
  | .ok (vs1, p1) =>
    let avail := max (s.len - p1 - afterBits post) 0
    if avail % k.mult ≠ 0 then .error .value else
    match readSeq { s with pos := p1 } (.fixed k (avail / k.mult).toNat :: post) with
    | .error e => .error e
    | .ok (vs2, p2) => .ok (vs1 ++ vs2, p2)

/-! ## non-length-changing mutators of BitArray (contents only; their pos behaviour is "nothing") -/

inductive Mut where
  | reverse (a b : Option Int) | invertAll | invertAt (i : Int) | setAll (v : Bool) | setAt (v : Bool) (i : Int)
  | ror (n : Int) | rol (n : Int) | byteswap | ilshift (n : Int) | irshift (n : Int)
  | iand (b : Bits) | ior (b : Bits) | ixor (b : Bits)
  deriving Repr, DecidableEq

def rotLeft {α} (l : List α) (n : Nat) : List α := l.drop n ++ l.take n

def chunks8 : Nat → Bits → List Bits
  | 0, _ => []
  | k + 1, l => l.take 8 :: chunks8 k (l.drop 8)

/-- bytes of the first `8*k` bits reversed, the rest untouched (`byteswap()` with the default format). -/
def reverseBytes (k : Nat) (l : Bits) : Bits := (chunks8 k l).reverse.flatten ++ l.drop (8 * k)

/-- New contents (same length) or the error the mutator raises; also the integer it returns, if any. -/
def applyMut (l : Bits) (m : Mut) : Except Err (Bits × Option Int) :=
  let n := l.length
  match m with
  | .reverse a b =>
    match validateSlice n a b with
    | .error e => .error e
    | .ok (s, e) => .ok (l.take s ++ ((l.drop s).take (e - s)).reverse ++ l.drop e, none)
  | .invertAll => .ok (l.map (!·), none)
  | .invertAt i =>
    let j := if i < 0 then i + n else i
    if 0 ≤ j ∧ j < n then .ok (l.modify j.toNat (!·), none) else .error .index
  | .setAll v => .ok (List.replicate n v, none)                 -- `if len(self) != 0: self._setint(-1 or 0)`
  | .setAt v i =>
    let j := if i < 0 then i + n else i
    if 0 ≤ j ∧ j < n then .ok (l.set j.toNat v, none) else .error .index
  | .ror k =>
    if n = 0 then .error .bitstring else if k < 0 then .error .value
    else .ok (rotLeft l (n - (k % n).toNat), none)
  | .rol k =>
    if n = 0 then .error .bitstring else if k < 0 then .error .value
    else .ok (rotLeft l (k % n).toNat, none)
  | .byteswap => if n / 8 = 0 then .ok (l, some 0) else .ok (reverseBytes (n / 8) l, some 1)
  | .ilshift k =>
    if k < 0 then .error .value else if n = 0 then .error .value
    else let m := min k.toNat n; .ok (l.drop m ++ List.replicate m false, none)
  | .irshift k =>
    if k < 0 then .error .value else if n = 0 then .error .value
    else let m := min k.toNat n; .ok (List.replicate m false ++ l.take (n - m), none)
  | .iand b => if b.length ≠ n then .error .value else .ok (List.zipWith (· && ·) l b, none)
  | .ior b => if b.length ≠ n then .error .value else .ok (List.zipWith (· || ·) l b, none)
  | .ixor b => if b.length ≠ n then .error .value else .ok (List.zipWith (· != ·) l b, none)

/-! ## replace -/

/-- The `starting_points` loop of `BitArray._replace` (bitarray_.py:275-283): occurrences that do not overlap
    the previous chosen one, at most `limit` of them (`limit = 0`: no limit). -/
def choosePoints (m limit : Nat) : List Nat → Option Nat → Nat → List Nat
  | [], _, _ => []
  | x :: rest, last, taken =>
    let keep := match last with
      | none => true
      | some y => decide (x ≥ y + m)
    if keep then
      if limit ≠ 0 ∧ taken + 1 = limit then [x]
      else x :: choosePoints m limit rest (some x) (taken + 1)
    else choosePoints m limit rest last taken

/-- Re-assembly (bitarray_.py:286-299): untouched stretch, `new`, untouched stretch, … -/
def rebuild (data new : Bits) (m : Nat) : List Nat → Nat → Bits
  | [], cur => data.drop cur
  | p :: rest, cur => (data.drop cur).take (p - cur) ++ new ++ rebuild data new m rest (p + m)

/-! ## operations -/

/-- Non-stream queries (`==`, hash key, len, `in`, count, whole-value uint): functions of the stream object. -/
inductive Query where
  | eq (b : Bits) | hash | len | contains (pat : Bits) | count1 | uint
  deriving Repr, DecidableEq

inductive Op where
  -- reads and seeks (both classes)
  | read (t : Tok) | peek (t : Tok) | readlist (ts : List Tok) | peeklist (ts : List Tok)
  | readto (pat : Bits) (aligned : Bool) | readtoInt
  | bytealign | setPos (n : Int) | getBytePos | setBytePos (n : Int)
  | find (pat : Bits) (start stop : Option Int) (aligned : Bool)
  | rfind (pat : Bits) (start stop : Option Int) (aligned : Bool)
  -- BitStream mutators
  | append (b : Bits) | iadd (b : Bits) | appendSelf | iaddSelf
  | prepend (b : Bits) | prependSelf
  | insert (b : Bits) (p : Option Int) | insertSelf (p : Option Int)
  | overwrite (b : Bits) (p : Option Int) | overwriteSelf (p : Option Int)
  | setSlice (a b : Option Int) (v : Bits) | setIdxBits (i : Int) (v : Bits) | setIdxInt (i : Int) (v : Int)
  | delSlice (a b c : Option Int) | delIdx (i : Int)
  | replace (old new : Bits) (start stop : Option Int) (count : Option Int) (aligned : Bool)
  | replaceSelf (old : Bits) (start stop : Option Int) (count : Option Int) (aligned : Bool)
  | clear
  | setProp (newBits : Option Bits)          -- `s.<name> = value`: the bits the value encodes to, `none` = the setter raises
  | setUint (v : Int)                        -- `s.uint = v`: keeps the current length
  | mutate (m : Mut)
  | imul (n : Int)
  -- operations that return a stream object (both classes)
  | copy | copyModule | slice (a b c : Option Int)
  | add (b : Bits) | radd (b : Bits) | addSelf | mul (n : Int) | invert | lshift (n : Int) | rshift (n : Int)
  | band (b : Bits) | bor (b : Bits) | bxor (b : Bits) | andSelf | orSelf | xorSelf
  -- non-stream results
  | query (q : Query)
  deriving Repr, DecidableEq

/-- A returned stream object: a new one with its position, or the receiver itself. -/
inductive Ret where
  | new (pos : Int) | self
  deriving Repr, DecidableEq

inductive Res where
  | val (v : Val) | vals (vs : List Val) | found (p : Option Nat) | ret (r : Ret) | unit | err (e : Err)
  deriving Repr, DecidableEq

def Op.isMutator : Op → Bool
  | .append _ | .iadd _ | .appendSelf | .iaddSelf | .prepend _ | .prependSelf | .insert _ _ | .insertSelf _
  | .overwrite _ _ | .overwriteSelf _ | .setSlice _ _ _ | .setIdxBits _ _ | .setIdxInt _ _ | .delSlice _ _ _ | .delIdx _
  | .replace _ _ _ _ _ _ | .replaceSelf _ _ _ _ _ | .clear | .setProp _ | .setUint _ | .mutate _ | .imul _ => true
  | _ => false

/-- `_setbitpos` (bitstream.py:120-126). -/
def setBitPos (s : Stream) (p : Int) : Stream × Res :=
  if p < 0 then (s, .err .value) else if p > s.len then (s, .err .value) else ({ s with pos := p }, .unit)

/-- Shared tail of `BitStream.__setitem__` / `__delitem__` / `replace`: pos = 0 iff the length changed. -/
def afterLenChange (s : Stream) (nb : Bits) : Stream :=
  { s with bits := nb, pos := if nb.length ≠ s.bits.length then 0 else s.pos }

/-- First (`find`) or last (`rfind`) occurrence. -/
def pick (o : List Nat) (last : Bool) : Option Nat := if last then o.getLast? else o.head?

def findCommon (s : Stream) (pat : Bits) (start stop : Option Int) (aligned : Bool) (last : Bool) : Stream × Res :=
  if pat.isEmpty then (s, .err .value) else
  match validateSlice s.bits.length start stop with
  | .error e => (s, .err e)
  | .ok (a, b) =>
    match pick (occ s.bits pat a b aligned) last with
    | none => (s, .found none)
    | some p => ({ s with pos := p }, .found (some p))

def insertAt (s : Stream) (b : Bits) (p : Option Int) : Stream × Res :=
  let q := p.getD s.pos
  let q := if q < 0 then q + s.len else q
  if 0 ≤ q ∧ q ≤ s.len then
    if b.isEmpty then (s, .unit) else                           -- nothing written: nothing moves
    ({ s with bits := s.bits.take q.toNat ++ b ++ s.bits.drop q.toNat, pos := q + b.length }, .unit)
  else (s, .err .value)

/-- `BitStream.overwrite`: the slice `[q, q + len(bs))` is assigned (the bitstring grows when that runs past the end). -/
def overwriteAt (s : Stream) (b : Bits) (p : Option Int) : Stream × Res :=
  let q := p.getD s.pos
  let q := if q < 0 then q + s.len else q
  if q < 0 ∨ q > s.len then (s, .err .value) else
  if b.isEmpty then (s, .unit) else
  ({ s with bits := s.bits.take q.toNat ++ b ++ s.bits.drop (q.toNat + b.length), pos := q + b.length }, .unit)

def replaceWith (s : Stream) (old new : Bits) (start stop : Option Int) (count : Option Int) (aligned : Bool) : Stream × Res :=
  if old.isEmpty then (s, .err .value) else
  match validateSlice s.bits.length start stop with
  | .error e => (s, .err e)
  | .ok (a, b) =>
    if count = some 0 then (s, .val (.int 0)) else
    let limit : Nat := match count with
      | some c => if c > 0 then c.toNat else 0
      | none => 0
    let pts := choosePoints old.length limit (occ s.bits old a b aligned) none 0
    if pts.isEmpty then (s, .val (.int 0)) else
    (afterLenChange s (rebuild s.bits new old.length pts 0), .val (.int pts.length))

def hashPad (b : Bits) : Bits := b ++ List.replicate ((8 - b.length % 8) % 8) false

def runQuery (s : Stream) (q : Query) : Res :=
  match q with
  | .eq b => .val (.bool (s.bits == b))
  | .hash => if s.mutable then .err .type else .val (.bytes (hashPad s.bits))      -- key = (tobytes(), len) for len ≤ 2000
  | .len => .val (.int s.bits.length)
  | .contains pat => if pat.isEmpty then .err .value else .val (.bool (!(occ s.bits pat 0 s.bits.length false).isEmpty))
  | .count1 => .val (.int (s.bits.count true))
  | .uint => if s.bits.isEmpty then .err .value else .val (.int (bitsToNat s.bits))

/-- One operation on a stream that has it: the new state of the stream and what the call returned / raised. -/
def stepCore (s : Stream) (op : Op) : Stream × Res :=
  match op with
  | .read t =>
    match readTok s t with
    | .ok (v, np) => ({ s with pos := np }, .val v)
    | .error e => (s, .err e)
  | .peek t =>                                                  -- pos_before; read; restore (413-430)
    match readTok s t with
    | .ok (v, _) => (s, .val v)
    | .error e => (s, .err e)
  | .readlist ts =>                                             -- value, self._pos = self._readlist(fmt, self._pos)
    match readList s.bits s.pos ts with
    | .ok (vs, np) => ({ s with pos := np }, .vals vs)
    | .error e => (s, .err e)
  | .peeklist ts =>
    match readList s.bits s.pos ts with
    | .ok (vs, _) => (s, .vals vs)
    | .error e => (s, .err e)
  | .readtoInt => (s, .err .value)
  | .readto pat aligned =>                                      -- find from pos; pos = p + len(bs); slice(oldpos, pos)
    match findCommon s pat (some s.pos) none aligned false with
    | (_, .err e) => (s, .err e)
    | (_, .found (some p)) =>
      let np : Int := (p : Int) + pat.length
      ({ s with pos := np }, .val (.stream (pySlice s.bits s.pos np) 0))
    | _ => (s, .err .read)
  | .bytealign =>
    let skipped := (8 - s.pos % 8) % 8
    let p := s.pos + skipped                                    -- `self.pos += skipped` goes through _setbitpos
    if p < 0 then (s, .err .value) else if p > s.len then (s, .err .value)
    else ({ s with pos := p }, .val (.int skipped))
  | .setPos n => setBitPos s n
  | .getBytePos => if s.pos % 8 ≠ 0 then (s, .err .byteAlign) else (s, .val (.int (s.pos / 8)))
  | .setBytePos n => setBitPos s (n * 8)
  | .find pat a b al => findCommon s pat a b al false
  | .rfind pat a b al => findCommon s pat a b al true
  -- mutators -------------------------------------------------------------------------------------------
  | .append b | .iadd b => let nb := s.bits ++ b; ({ s with bits := nb, pos := nb.length }, .unit)
  | .appendSelf | .iaddSelf => let nb := s.bits ++ s.bits; ({ s with bits := nb, pos := nb.length }, .unit)
  | .prepend b => ({ s with bits := b ++ s.bits, pos := 0 }, .unit)
  | .prependSelf => ({ s with bits := s.bits ++ s.bits, pos := 0 }, .unit)
  | .insert b p => insertAt s b p
  | .insertSelf p => insertAt s s.bits p
  | .overwrite b p => overwriteAt s b p
  | .overwriteSelf p => overwriteAt s s.bits p               -- `bs is self → bs = self._copy()`
  | .setSlice a b v => (afterLenChange s (pySetSlice s.bits a b v), .unit)
  | .setIdxBits i v =>
    let j := if i < 0 then i + s.len else i
    if j < 0 ∨ j ≥ s.len then (s, .err .index) else
    (afterLenChange s (s.bits.take j.toNat ++ v ++ s.bits.drop (j.toNat + 1)), .unit)
  | .setIdxInt i v =>
    if v ≠ 0 ∧ v ≠ 1 ∧ v ≠ -1 then (s, .err .value) else
    let j := if i < 0 then i + s.len else i
    if j < 0 ∨ j ≥ s.len then (s, .err .index) else
    ({ s with bits := s.bits.set j.toNat (decide (v ≠ 0)) }, .unit)
  | .delSlice a b c =>
    if c = some 0 then (s, .err .value) else
    (afterLenChange s (pyDelSlice s.bits a b (c.getD 1)), .unit)
  | .delIdx i =>
    let j := if i < 0 then i + s.len else i
    if j < 0 ∨ j ≥ s.len then (s, .err .index) else
    (afterLenChange s (s.bits.eraseIdx j.toNat), .unit)
  | .replace old new a b c al => replaceWith s old new a b c al
  | .replaceSelf old a b c al => replaceWith s old s.bits a b c al
  | .clear => ({ s with bits := [], pos := 0 }, .unit)
  | .setProp none => (s, .err .value)
  | .setProp (some nb) => (afterLenChange s nb, .unit)          -- BitStream.__setattr__: pos = 0 iff the length changed
  | .setUint v =>
    let n := s.bits.length
    if n = 0 then (s, .err .value) else
    if v < 0 ∨ v ≥ (2 : Int) ^ n then (s, .err .value) else
    ({ s with bits := natToBits n v.toNat }, .unit)
  | .mutate m =>
    match applyMut s.bits m with
    | .error e => (s, .err e)
    | .ok (nb, none) => ({ s with bits := nb }, .unit)
    | .ok (nb, some r) => ({ s with bits := nb }, .val (.int r))
  | .imul n =>
    if n < 0 then (s, .err .value) else
    if n = 0 then ({ s with bits := [], pos := 0 }, .unit)                 -- _imul(0) → _clear()
    else ({ s with bits := (List.replicate n.toNat s.bits).flatten }, .unit)
  -- returned stream objects ------------------------------------------------------------------------------
  | .copy => if s.mutable then (s, .ret (.new 0)) else (s, .ret .self)          -- Bits.copy returns self
  | .copyModule => (s, .ret (.new 0))
  | .slice _ _ c => if c = some 0 then (s, .err .value) else (s, .ret (.new 0))
  | .add _ | .radd _ | .addSelf => (s, .ret (.new 0))
  | .mul n => if n < 0 then (s, .err .value) else (s, .ret (.new 0))
  | .invert => if s.bits.isEmpty then (s, .err .bitstring) else (s, .ret (.new 0))
  | .lshift n | .rshift n => if n < 0 ∨ s.bits.isEmpty then (s, .err .value) else (s, .ret (.new 0))
  | .band b | .bor b | .bxor b => if b.length ≠ s.bits.length then (s, .err .value) else (s, .ret (.new 0))
  | .andSelf | .orSelf =>
    -- Bits.__and__: `if bs is self: return self.copy()` (= self for ConstBitStream); ConstBitStream.__and__ then
    -- takes `copy.copy(self)` (a new object) when it got `self` back, and sets `_pos = 0` on the result
    (s, .ret (.new 0))
  | .xorSelf => (s, .ret (.new 0))
  | .query q => (s, runQuery s q)

/-- One operation.  ConstBitStream has none of the mutators (not generated by the harness). -/
def step (s : Stream) (op : Op) : Stream × Res :=
  if op.isMutator && !s.mutable then (s, .err .type) else stepCore s op

/-- `ConstBitStream.__init__` (bitstream.py:103-107): a negative `pos` counts from the end; outside 0..len → CreationError. -/
def initPos (len : Nat) (p : Int) : Except Err Int :=
  let q := if p < 0 then p + len else p
  if q < 0 ∨ q > len then .error .value else .ok q

/-! ## histories -/

/-- Run a history; observation stops after the first state that leaves `Inv`. -/
def run : Stream → List Op → List (Stream × Res)
  | _, [] => []
  | s, op :: rest =>
    let (s', r) := step s op
    if Inv s' then (s', r) :: run s' rest else [(s', r)]

/-! ## driver -/

def Val.toStr : Val → String
  | .int i => toString i
  | .str s => "s:" ++ s
  | .stream b p => "b:" ++ bitsToWire b ++ "@" ++ toString p
  | .bool b => if b then "True" else "False"
  | .none => "None"
  | .bytes b => "x:" ++ hexOf b

def errStr : Err → String
  | .read => "ReadError"
  | _ => "err"

def Res.toStr : Res → String
  | .val v => v.toStr
  | .vals vs => "[" ++ ",".intercalate (vs.map Val.toStr) ++ "]"
  | .found none => "()"
  | .found (some p) => "(" ++ toString p ++ ")"
  | .ret (.new p) => "new@" ++ toString p
  | .ret .self => "self"
  | .unit => "None"
  | .err e => errStr e

def kindOfStr? : String → Option Kind
  | "uint" => some .uint | "int" => some .int | "bin" => some .bin | "hex" => some .hex
  | "bits" => some .bits | "bytes" => some .bytes | "pad" => some .pad | "bool" => some .bool
  | _ => none

def tokOfStr? (t : String) : Option Tok :=
  match t.toInt? with
  | some n => some (.count n)
  | none =>
    match t with
    | "ue" => some (.var .ue) | "se" => some (.var .se) | "uie" => some (.var .uie) | "sie" => some (.var .sie)
    | _ =>
      match t.splitOn ":" with
      | [k] => (kindOfStr? k).map .stretchy
      | [k, n] => match kindOfStr? k, n.toNat? with
        | some k, some n => some (.fixed k n)
        | _, _ => none
      | _ => none

def toksOfStr? (s : String) : Option (List Tok) :=
  if s = "-" then some [] else (s.splitOn ",").mapM tokOfStr?

def boolOfStr? : String → Option Bool
  | "1" => some true | "0" => some false | _ => none

def opOfStr? (f : String) : Option Op :=
  match f.splitOn " " with
  | ["read", t] => (tokOfStr? t).map .read
  | ["peek", t] => (tokOfStr? t).map .peek
  | ["readlist", ts] | ["readlistS", ts] => (toksOfStr? ts).map .readlist
  | ["peeklist", ts] | ["peeklistS", ts] => (toksOfStr? ts).map .peeklist
  | ["readto", p, al] => do some (.readto (← bitsOfStr? p) (← boolOfStr? al))
  | ["readtoint"] => some .readtoInt
  | ["bytealign"] => some .bytealign
  | ["pos", n] | ["bitpos", n] => n.toInt?.map .setPos
  | ["bytepos"] => some .getBytePos
  | ["setbytepos", n] => n.toInt?.map .setBytePos
  | ["find", p, a, b, al] => do some (.find (← bitsOfStr? p) (← optIntOfStr? a) (← optIntOfStr? b) (← boolOfStr? al))
  | ["rfind", p, a, b, al] => do some (.rfind (← bitsOfStr? p) (← optIntOfStr? a) (← optIntOfStr? b) (← boolOfStr? al))
  | ["append", b] => (bitsOfStr? b).map .append
  | ["iadd", b] => (bitsOfStr? b).map .iadd
  | ["appendself"] => some .appendSelf
  | ["iaddself"] => some .iaddSelf
  | ["prepend", b] => (bitsOfStr? b).map .prepend
  | ["prependself"] => some .prependSelf
  | ["insert", b, p] => do some (.insert (← bitsOfStr? b) (← optIntOfStr? p))
  | ["insertself", p] => (optIntOfStr? p).map .insertSelf
  | ["overwrite", b, p] => do some (.overwrite (← bitsOfStr? b) (← optIntOfStr? p))
  | ["overwriteself", p] => (optIntOfStr? p).map .overwriteSelf
  | ["setslice", a, b, v] => do some (.setSlice (← optIntOfStr? a) (← optIntOfStr? b) (← bitsOfStr? v))
  | ["setidx", i, v] => do some (.setIdxBits (← i.toInt?) (← bitsOfStr? v))
  | ["setidxint", i, v] => do some (.setIdxInt (← i.toInt?) (← v.toInt?))
  | ["delslice", a, b, c] => do some (.delSlice (← optIntOfStr? a) (← optIntOfStr? b) (← optIntOfStr? c))
  | ["delidx", i] => i.toInt?.map .delIdx
  | ["replace", o, n, a, b, c, al] =>
    do some (.replace (← bitsOfStr? o) (← bitsOfStr? n) (← optIntOfStr? a) (← optIntOfStr? b) (← optIntOfStr? c) (← boolOfStr? al))
  | ["replaceself", o, a, b, c, al] =>
    do some (.replaceSelf (← bitsOfStr? o) (← optIntOfStr? a) (← optIntOfStr? b) (← optIntOfStr? c) (← boolOfStr? al))
  | ["clear"] => some .clear
  | ["setprop", _, _, enc] => if enc = "ERR" then some (.setProp none) else (bitsOfStr? enc).map fun b => .setProp (some b)
  | ["setuint", v] => v.toInt?.map .setUint
  | ["reverse", a, b] => do some (.mutate (.reverse (← optIntOfStr? a) (← optIntOfStr? b)))
  | ["invertall"] => some (.mutate .invertAll)
  | ["invertat", i] => i.toInt?.map fun i => .mutate (.invertAt i)
  | ["setall", v] => (boolOfStr? v).map fun v => .mutate (.setAll v)
  | ["setat", v, i] => do some (.mutate (.setAt (← boolOfStr? v) (← i.toInt?)))
  | ["ror", n] => n.toInt?.map fun n => .mutate (.ror n)
  | ["rol", n] => n.toInt?.map fun n => .mutate (.rol n)
  | ["byteswap"] => some (.mutate .byteswap)
  | ["ilshift", n] => n.toInt?.map fun n => .mutate (.ilshift n)
  | ["irshift", n] => n.toInt?.map fun n => .mutate (.irshift n)
  | ["iand", b] => (bitsOfStr? b).map fun b => .mutate (.iand b)
  | ["ior", b] => (bitsOfStr? b).map fun b => .mutate (.ior b)
  | ["ixor", b] => (bitsOfStr? b).map fun b => .mutate (.ixor b)
  | ["imul", n] => n.toInt?.map .imul
  | ["copy"] => some .copy
  | ["copymod"] => some .copyModule
  | ["slice", a, b, c] => do some (.slice (← optIntOfStr? a) (← optIntOfStr? b) (← optIntOfStr? c))
  | ["add", b] => (bitsOfStr? b).map .add
  | ["radd", b] => (bitsOfStr? b).map .radd
  | ["addself"] => some .addSelf
  | ["mul", n] | ["rmul", n] => n.toInt?.map .mul
  | ["inv"] => some .invert
  | ["lshift", n] => n.toInt?.map .lshift
  | ["rshift", n] => n.toInt?.map .rshift
  | ["and", b] => (bitsOfStr? b).map .band
  | ["or", b] => (bitsOfStr? b).map .bor
  | ["xor", b] => (bitsOfStr? b).map .bxor
  | ["andself"] => some .andSelf
  | ["orself"] => some .orSelf
  | ["xorself"] => some .xorSelf
  | ["q", "eq", b] => (bitsOfStr? b).map fun b => .query (.eq b)
  | ["q", "hash"] => some (.query .hash)
  | ["q", "len"] => some (.query .len)
  | ["q", "contains", p] => (bitsOfStr? p).map fun p => .query (.contains p)
  | ["q", "count"] => some (.query .count1)
  | ["q", "uint"] => some (.query .uint)
  | _ => none

/-- One observation: result, pos, contents (`=` when the step left them as they were). -/
def obsStr (before : Bits) (o : Stream × Res) : String :=
  o.2.toStr ++ " " ++ toString o.1.pos ++ " " ++ (if o.1.bits = before then "=" else bitsToWire o.1.bits)

def obsAll : Bits → List (Stream × Res) → List String
  | _, [] => []
  | b, o :: rest => obsStr b o :: obsAll o.1.bits rest

/-- `hist <cls> <bits> <pos> <route> op op …` -/
def handle (args : List String) : String :=
  match args with
  | "hist" :: cls :: bits :: pos :: _route :: ops =>
    match Cls.ofStr? cls, bitsOfStr? bits, pos.toInt?, ops.mapM opOfStr? with
    | some c, some b, some p, some os =>
      if !c.hasPos then "bad-op" else
      let s : Stream := ⟨c.isMutable, b, p⟩
      if ¬ Inv s then "bad-op" else
      if os.any (fun o => o.isMutator) && !s.mutable then "bad-op" else
      let tr := run s os
      let halted := match tr.getLast? with
        | some (s', _) => decide (¬ Inv s')
        | none => false
      "ok " ++ "|".intercalate (obsAll b tr) ++ (if halted then "|!" else "")
    | _, _, _, _ => "bad-op"
  | "init" :: cls :: bits :: pos :: _ =>
    match Cls.ofStr? cls, bitsOfStr? bits, pos.toInt? with
    | some c, some b, some p =>
      if !c.hasPos then "bad-op" else
      match initPos b.length p with
      | .ok q => "ok " ++ toString q
      | .error _ => "err"
    | _, _, _ => "bad-op"
  | _ => "bad-op"

end BM.C06
