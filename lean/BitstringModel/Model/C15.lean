/-
  Model/C15.lean — out-of-range or mis-sized values are rejected, never wrapped or truncated.

  SPEC layer (what the property says):
    `inRange`, `valid : DT → Option Int → Val → Bool` (the total classification of (dtype, length, value)),
    `encode` (the bits a valid triple must produce), `effLen` (the length a plain property assignment uses),
    `windowSpec` (a window `offset, length` over `n` source bits: `0 ≤ off ∧ 0 ≤ len ∧ off + len ≤ n`).
  ALG layer (the code, function by function; line numbers of /repo at c59055f):
    bitstore_helpers.py  tidy_input_string (18), bin2bitstore (37), hex2bitstore (50), oct2bitstore (60),
                         ue/se/uie/sie2bitstore (70-106, from Model/C10), bfloat2bitstore (109),
                         p4binary2bitstore … mxint2bitstore (120-209: the LUT code crosses the wire, see `Val.code`),
                         int2bitstore (212-232) on top of bitarray.util.int2ba, intle2bitstore (235-237),
                         float2bitstore (240-249), bitstore_from_token (261-274)
    bits.py              __new__ (114-126), _initialise keyword route (136-171), _setauto BytesIO branch (525-551),
                         _setfile (560-585), _setbitarray (587-602), _setbits (604), _setbytes (636),
                         _setbytes_with_truncation (640-659), _setuint … _setintle (677-762),
                         _setfloat (809-814), _setbfloatbe/le (836-848), _setue/se/uie/sie (850-965),
                         _setbool (984-992), _setbin_safe/_setoct/_sethex (1003-1025)
    bitstore.py          BitStore.frombuffer (60-78), tobytes (83), getslice_msb0 (226-231)
    dtypes.py            Dtype.__new__ (58-67), Dtype._create (148-172), Dtype.build (174-183),
                         AllowedLengths.__contains__ / only_one_value (240-248), get_dtype (323-342)
    bitarray_.py         BitArray.__setattr__ (131-145), overwrite (364-382)
    methods.py           pack (61-79: the 'bits' special case, then bitstore_from_token)
    array_.py            _create_element (174-179), __setitem__ integer key (240-247)
    __init__.py          dtype_definitions (212-281)
  Modelled, not verified: bitarray's `int2ba` ("ValueError if length ≤ 0, OverflowError iff the value is outside
  the range, else the two's complement bits"), `hex2ba`/`base2ba`/`bitarray(str)` (one digit per 4/3/1 bits,
  ValueError on any other character), `frombytes`/`tobytes` (8 bits per byte, last byte zero padded), Python slicing
  (`Py.sliceIndices`), `divmod`, `mmap`.

  Wire conventions (stated, not hidden): a string that Python's `int()` / `float()` accepts crosses as the
  number it denotes (`Val.int` / `Val.float`), a string they reject crosses as `Val.str`; floats cross as their
  three IEEE encodings (binary16/32/64 patterns, computed by `struct`, overflow → ±inf as the library does);
  the value of an 8/6/4-bit float format crosses as its code (the codecs are C11's); `True`/`False` are the ints 1/0.
  lsb0 mode is off (exp-Golomb creation is refused there; not part of this property).
-/
import BitstringModel.Model.Basic
import BitstringModel.Model.C10
namespace BM.C15

/-! ## 1. Integers: `bitarray.util.int2ba`, `int2bitstore`, `intle2bitstore` -/

/-- SPEC: the documented range of an `n`-bit integer: `[0, 2^n)` unsigned, `[-2^(n-1), 2^(n-1))` signed. -/
def inRange (signed : Bool) (n : Nat) (i : Int) : Bool :=
  if signed then decide (-((2 : Int) ^ (n - 1)) ≤ i ∧ i < (2 : Int) ^ (n - 1))
  else decide (0 ≤ i ∧ i < (2 : Int) ^ n)

/-- What `int2ba` can raise. -/
inductive BaErr where
  | value | overflow
  deriving DecidableEq, Repr

/-- `bitarray.util.int2ba(i, length=length, endian='big', signed=signed)`:
    ValueError("length must be > 0"); OverflowError iff `i` is outside the range; else two's complement bits. -/
def int2ba (i length : Int) (signed : Bool) : Except BaErr Bits :=
  if length ≤ 0 then .error .value
  else if inRange signed length.toNat i then .ok (intToBits length.toNat i)
  else .error .overflow

/-- Python `1 << k` (only evaluated with `k ≥ 0` here: `length ≥ 1` whenever `int2ba` overflowed). -/
def shl1 (k : Int) : Int := (2 : Int) ^ k.toNat

/-- `int2bitstore` (bitstore_helpers.py:212) over a primitive `ba` standing for `bitarray.util.int2ba`: the
    range diagnosis on top of `OverflowError`; an `OverflowError` that the diagnosis does not explain is
    re-raised (`raise e`, line 231).  (`int(i)` of an infinite float is turned into a CreationError at line 215;
    floats in an integer slot are outside this line protocol.) -/
def int2bitsWith (ba : Int → Int → Bool → Except BaErr Bits) (i length : Int) (signed : Bool) : Except Err Bits :=
  match ba i length signed with
  | .ok x => .ok x
  | .error .value => .error .value
  | .error .overflow =>
    if signed then
      if i ≥ shl1 (length - 1) ∨ i < -(shl1 (length - 1)) then .error .value
      else .error (.internal "OverflowError")
    else
      if i ≥ shl1 length then .error .value
      else if i < 0 then .error .value
      else .error (.internal "OverflowError")

def int2bits (i length : Int) (signed : Bool) : Except Err Bits := int2bitsWith int2ba i length signed

/-- `n` successive groups of 8 bits. -/
def groups8 : Nat → Bits → List Bits
  | 0, _ => []
  | n + 1, b => b.take 8 :: groups8 n (b.drop 8)

def padRight8 (g : Bits) : Bits := g ++ List.replicate (8 - g.length) false

/-- `BitStore.frombytes(x.tobytes()[::-1])`: ⌈len/8⌉ byte groups (last one zero padded), order reversed. -/
def bytesRev (b : Bits) : Bits := ((groups8 ((b.length + 7) / 8) b).map padRight8).reverse.flatten

/-- `intle2bitstore` (bitstore_helpers.py:235). -/
def intle2bits (i length : Int) (signed : Bool) : Except Err Bits :=
  match int2bits i length signed with
  | .error e => .error e
  | .ok x => .ok (bytesRev x)

/-! ## 2. Digit strings -/

def hexVal? (c : Char) : Option Nat :=
  let n := c.toNat
  if 48 ≤ n ∧ n ≤ 57 then some (n - 48)
  else if 97 ≤ n ∧ n ≤ 102 then some (n - 87)
  else if 65 ≤ n ∧ n ≤ 70 then some (n - 55)
  else none

def octVal? (c : Char) : Option Nat :=
  let n := c.toNat
  if 48 ≤ n ∧ n ≤ 55 then some (n - 48) else none

def binVal? (c : Char) : Option Nat :=
  if c = '0' then some 0 else if c = '1' then some 1 else none

/-- Python `str.isspace()` for code points < 256 (what `str.split()` splits on). -/
def isPySpace (c : Char) : Bool :=
  let n := c.toNat
  n = 32 || (9 ≤ n && n ≤ 13) || (28 ≤ n && n ≤ 31) || n = 0x85 || n = 0xa0

def asciiLower (c : Char) : Char :=
  if 65 ≤ c.toNat ∧ c.toNat ≤ 90 then Char.ofNat (c.toNat + 32) else c

/-- `tidy_input_string` (bitstore_helpers.py:18): `''.join(s.split()).lower().replace('_', '')`. -/
def tidy (s : List Char) : List Char :=
  ((s.filter fun c => !isPySpace c).map asciiLower).filter fun c => c ≠ '_'

/-- `str.replace(c₁c₂, '')`: every occurrence, left to right, non-overlapping (the test-suite fixes that a
    prefix marker is dropped wherever it stands: `BitStream(hex='ff0xee').hex == 'ffee'`). -/
def removeAll2 (c1 c2 : Char) : List Char → List Char
  | [] => []
  | [a] => [a]
  | a :: b :: t => if a = c1 ∧ b = c2 then removeAll2 c1 c2 t else a :: removeAll2 c1 c2 (b :: t)

inductive DigitKind where
  | hex | oct | bin
  deriving DecidableEq, Repr

def DigitKind.width : DigitKind → Nat
  | .hex => 4 | .oct => 3 | .bin => 1
def DigitKind.marker : DigitKind → Char
  | .hex => 'x' | .oct => 'o' | .bin => 'b'
def DigitKind.val? : DigitKind → Char → Option Nat
  | .hex => hexVal? | .oct => octVal? | .bin => binVal?

/-- The characters that must all be digits: the tidied string without its `0x`/`0o`/`0b` markers. -/
def cleaned (k : DigitKind) (s : List Char) : List Char := removeAll2 '0' k.marker (tidy s)

/-- `hex2bitstore` (50) / `oct2bitstore` (60) / `bin2bitstore` (37): `hex2ba` / `base2ba(8,·)` / `bitarray(str)`,
    `w` bits per digit, ValueError (re-raised as CreationError) on any other character. -/
def digits2bits (k : DigitKind) (s : List Char) : Except Err Bits :=
  match (cleaned k s).mapM k.val? with
  | none => .error .value
  | some ds => .ok (ds.flatMap (natToBits k.width))

/-! ## 3. The dtype table (`__init__.py:213-277`, compared with the live register on every run) -/

inductive DT where
  | uint | int | uintbe | intbe | uintle | intle
  | hex | oct | bin
  | float | floatle | bfloat | bfloatle
  | bits | bool | bytes
  | ue | se | uie | sie
  | fx8 | fx6 | fx4      -- p3binary p4binary e4m3mxfp e5m2mxfp e8m0mxfp mxint | e3m2mxfp e2m3mxfp | e2m1mxfp
  deriving DecidableEq, Repr

/-- `AllowedLengths.values`: `()`, `(a, b, ...)`, or an explicit tuple. -/
inductive Allowed where
  | any
  | step (first second : Int)
  | oneOf (l : List Int)
  deriving DecidableEq, Repr

/-- `AllowedLengths.__contains__` (dtypes.py:240): Python `%` is floor-mod; the divisor is positive here. -/
def Allowed.contains : Allowed → Int → Bool
  | .any, _ => true
  | .step a b, n => (n - a) % (b - a) == 0
  | .oneOf l, n => l.contains n

/-- `only_one_value()` (dtypes.py:247) together with `values[0]`. -/
def Allowed.onlyOne : Allowed → Option Int
  | .oneOf [x] => some x
  | _ => none

structure Def where
  mult : Nat            -- `multiplier`: bits per unit of length
  allowed : Allowed
  needsLen : Bool       -- 'length' in the set function's signature
  varLen : Bool
  deriving Repr

def defOf : DT → Def
  | .uint | .int => ⟨1, .any, true, false⟩
  | .uintbe | .intbe | .uintle | .intle => ⟨1, .step 8 16, true, false⟩
  | .hex => ⟨1, .step 0 4, true, false⟩
  | .oct => ⟨1, .step 0 3, true, false⟩
  | .bin => ⟨1, .any, true, false⟩
  | .float | .floatle => ⟨1, .oneOf [16, 32, 64], true, false⟩
  | .bfloat | .bfloatle => ⟨1, .oneOf [16], true, false⟩
  | .bits => ⟨1, .any, true, false⟩
  | .bool => ⟨1, .oneOf [1], false, false⟩
  | .bytes => ⟨8, .any, true, false⟩
  | .ue | .se | .uie | .sie => ⟨1, .any, false, true⟩
  | .fx8 => ⟨1, .oneOf [8], false, false⟩
  | .fx6 => ⟨1, .oneOf [6], false, false⟩
  | .fx4 => ⟨1, .oneOf [4], false, false⟩

/-- `DtypeDefinition.get_dtype(length)` (dtypes.py:323): the dtype's `length` (in items), or ValueError.
    (`if self.allowed_lengths:` is always true — the class defines neither `__bool__` nor `__len__`.) -/
def getDtype (d : DT) (len : Option Int) : Except Err (Option Int) :=
  let df := defOf d
  match len with
  | none =>
    match df.allowed.onlyOne with
    | none => .ok none                              -- Dtype._create(self, None, scale)
    | some x => if df.varLen then .error .value else .ok (some x)
  | some n =>
    if !df.allowed.contains n then .error .value
    else if df.varLen then .error .value
    else if n < 0 then .error .value                -- "A negative length … was supplied" (dtypes.py:338)
    else .ok (some n)

/-- `Dtype.bitlength` (dtypes.py:152-155). -/
def bitLen (d : DT) (dl : Option Int) : Option Int := dl.map (· * (defOf d).mult)

/-! ## 4. Values -/

inductive Val where
  | int (i : Int)                       -- an int, or a string `int()` accepts
  | str (s : List Char)                 -- any other string
  | bytes (d : List Nat)                -- a bytes object (each entry taken mod 256 by `natToBits 8`)
  | bits (b : Bits)                     -- a bitstring (or a string that parses to these bits)
  | float (c16 c32 c64 : Nat)           -- a float (or a string `float()` accepts): its three IEEE patterns
  | code (c : Nat)                      -- the LUT code of a float in an 8/6/4-bit format
  deriving DecidableEq, Repr

def fromBytes (d : List Nat) : Bits := d.flatMap (natToBits 8)

/-! ## 5. The set functions (bits.py) -/

/-- `if length is None and hasattr(self, 'len') and len(self) != 0: length = len(self)` (bits.py:680).
    `cur = none`: the object has no `_bitstore` yet (`hasattr` is False). -/
def lenOrCur (len : Option Int) (cur : Option Nat) : Option Int :=
  match len, cur with
  | none, some c => if c ≠ 0 then some (c : Int) else none
  | l, _ => l

/-- `int(i)` at the head of `int2bitstore`. -/
def asInt : Val → Except Err Int
  | .int i => .ok i
  | .str _ => .error .value              -- int('abc')
  | _ => .error .type                    -- outside the generated domain

/-- `_setuint/_setint/_setuintbe/_setintbe/_setuintle/_setintle` (bits.py:677-774); the byte-order setters
    (`endian`) refuse a length that is not whole bytes (`if length % 8: raise CreationError`, Python floor `%`). -/
def setInt (signed le endian : Bool) (v : Val) (len : Option Int) (cur : Option Nat) : Except Err Bits :=
  match lenOrCur len cur with
  | none => .error .value
  | some n =>
    if n = 0 then .error .value else
    if endian ∧ n % 8 ≠ 0 then .error .value else
    match asInt v with
    | .error e => .error e
    | .ok i => if le then intle2bits i n signed else int2bits i n signed

/-- `float2bitstore` (240) / `bfloat2bitstore` (109) after `float(f)`. -/
def floatBits (le : Bool) (n : Nat) (c : Nat) : Bits :=
  if le then bytesRev (natToBits n c) else natToBits n c

/-- `_setfloat` (bits.py:809). -/
def setFloat (le : Bool) (v : Val) (len : Option Int) (cur : Option Nat) : Except Err Bits :=
  match lenOrCur len cur with
  | none => .error .value
  | some n =>
    if n = 16 ∨ n = 32 ∨ n = 64 then
      match v with
      | .float c16 c32 c64 => .ok (floatBits le n.toNat (if n = 16 then c16 else if n = 32 then c32 else c64))
      | .str _ => .error .value          -- float('abc')
      | _ => .error .type
    else .error .value

/-- `_setbfloatbe/_setbfloatle` (bits.py:836-848): the two most significant bytes of the binary32 pattern. -/
def setBfloat (le : Bool) (v : Val) (len : Option Int) : Except Err Bits :=
  match len with
  | some n => if n ≠ 16 then .error .value else body
  | none => body
where body : Except Err Bits :=
  match v with
  | .float _ c32 _ => .ok (floatBits le 16 (c32 / 65536))
  | .str _ => .error .value
  | _ => .error .type

/-- `_setbool` (bits.py:984): `value in (1, 'True', '1')` / `(0, 'False', '0')`, else CreationError. -/
def setBool (v : Val) : Except Err Bits :=
  match v with
  | .int i => if i = 1 then .ok [true] else if i = 0 then .ok [false] else .error .value
  | .str s =>
    if s = "True".toList ∨ s = "1".toList then .ok [true]
    else if s = "False".toList ∨ s = "0".toList then .ok [false] else .error .value
  | _ => .error .value

/-- The exp-Golomb setters (lsb0 off). -/
def setGolomb (d : DT) (v : Val) : Except Err Bits :=
  match asInt v with
  | .error e => .error e
  | .ok i =>
    match d with
    | .ue => C10.ueEncode i
    | .se => .ok (C10.seEncode i)
    | .uie => C10.uieEncode i
    | _ => .ok (C10.sieEncode i)

/-- `p4binary2bitstore` … `mxint2bitstore`: `int2bitstore(u, w, False)` of the LUT code. -/
def setFx (w : Nat) (v : Val) : Except Err Bits :=
  match v with
  | .code c => int2bits c w false
  | .str _ => .error .value
  | _ => .error .type

/-- `definition.set_fn(self, value, length=len)`; `len` is ignored by the setters that take it only for
    uniformity (`_sethex(self, hexstring, length=None)` …). -/
def setFn (d : DT) (v : Val) (len : Option Int) (cur : Option Nat) : Except Err Bits :=
  match d with
  | .uint => setInt false false false v len cur
  | .int => setInt true false false v len cur
  | .uintbe => setInt false false true v len cur
  | .intbe => setInt true false true v len cur
  | .uintle => setInt false true true v len cur
  | .intle => setInt true true true v len cur
  | .hex => match v with | .str s => digits2bits .hex s | _ => .error .type
  | .oct => match v with | .str s => digits2bits .oct s | _ => .error .type
  | .bin => match v with | .str s => digits2bits .bin s | _ => .error .type
  | .float => setFloat false v len cur
  | .floatle => setFloat true v len cur
  | .bfloat => setBfloat false v len
  | .bfloatle => setBfloat true v len
  | .bits => match v with | .bits b => .ok b | _ => .error .type
  | .bool => setBool v
  | .bytes => match v with | .bytes ds => .ok (fromBytes ds) | _ => .error .type
  | .ue | .se | .uie | .sie => setGolomb d v
  | .fx8 => setFx 8 v
  | .fx6 => setFx 6 v
  | .fx4 => setFx 4 v

/-- `Dtype.set_fn` as built by `Dtype._create` (dtypes.py:162-168): `length=bitlength` is bound only if the
    definition's set function has a `length` parameter. -/
def callSet (d : DT) (dl : Option Int) (v : Val) (cur : Option Nat) : Except Err Bits :=
  setFn d v (if (defOf d).needsLen then bitLen d dl else none) cur

/-! ## 6. Creation routes -/

/-- `Dtype(name, len).build(v)` (dtypes.py:174); `len = none` is `Dtype(name)`. -/
def build (d : DT) (len : Option Int) (v : Val) : Except Err Bits :=
  match getDtype d len with
  | .error e => .error e
  | .ok dl =>
    match callSet d dl v (some 0) with            -- b = Bits(): it has an (empty) store
    | .error e => .error e
    | .ok b =>
      match bitLen d dl with
      | some n => if (b.length : Int) ≠ n then .error .value else .ok b
      | none => .ok b

/-- `bitstore_from_token(name, len, value)` (bitstore_helpers.py:261): token strings and `pack`. -/
def fromToken (d : DT) (len : Option Int) (v : Val) : Except Err Bits :=
  match getDtype d len with
  | .error e => .error e                          -- "Can't parse token"
  | .ok dl =>
    match build d len v with
    | .error e => .error e
    | .ok bs =>
      match len, bitLen d dl with
      | some _, some n => if (bs.length : Int) ≠ n then .error .value else .ok bs
      | _, _ => .ok bs

/-- `pack(f'{name}:{len}', v)` (methods.py:61-79): `bits` is checked in `pack` itself. -/
def packRoute (d : DT) (len : Option Int) (v : Val) : Except Err Bits :=
  match d, v with
  | .bits, .bits b =>
    match len with
    | some n => if n ≠ (b.length : Int) then .error .value else .ok b
    | none => .ok b
  | _, _ => fromToken d len v

/-! ### windows over bytes / bitarray / BytesIO / file sources -/

/-- Python `l[a:b]` (step 1) by CPython's index adjustment. -/
def pySlice {α} (l : List α) (a b : Option Int) : List α :=
  let r := Py.sliceIndices a b 1 l.length
  (l.drop r.1.toNat).take (r.2.1 - r.1).toNat

/-- `length is not None and length < 0`. -/
def negLen : Option Int → Bool
  | some l => decide (l < 0)
  | none => false

/-- `_setbytes_with_truncation` (bits.py:640) once `offset` is defaulted (at least one of the two was given). -/
def bytesGeneral (data : List Nat) (offset : Int) (len : Option Int) : Except Err Bits :=
  let n : Int := data.length * 8
  if offset < 0 then .error .value else
  if negLen len then .error .value else
  if offset > n then .error .value else
  match len with
  | none =>
    let length := n - offset
    .ok (pySlice (fromBytes data) (some offset) (some (offset + length)))
  | some length =>
    if length + offset > n then .error .value
    else .ok (pySlice (fromBytes data) (some offset) (some (offset + length)))

def bytesWin (data : List Nat) (off len : Option Int) : Except Err Bits :=
  match off, len with
  | none, none => .ok (fromBytes data)               -- self._setbytes(data)
  | _, _ => bytesGeneral data (off.getD 0) len

/-- `_setbitarray` (bits.py:587). -/
def bitarrayWin (ba : Bits) (off len : Option Int) : Except Err Bits :=
  let offset := off.getD 0
  if offset < 0 then .error .value else
  if negLen len then .error .value else
  if offset > ba.length then .error .value else
  match len with
  | none => .ok (pySlice ba (some offset) none)
  | some length =>
    if offset + length > ba.length then .error .value
    else .ok (pySlice ba (some offset) (some (offset + length)))

/-- The `io.BytesIO` branch of `_setauto` (bits.py:529-551) once `offset` is defaulted. -/
def bytesioGeneral (data : List Nat) (offset0 : Int) (len : Option Int) : Except Err Bits :=
  let n : Int := data.length * 8                     -- s.seek(0, 2) * 8
  if offset0 < 0 then .error .value else
  if negLen len then .error .value else
  if offset0 > n then .error .value else
  let length := match len with | none => n - offset0 | some l => l
  let byteoffset := offset0 / 8                      -- divmod(offset, 8): floor division, divisor 8 > 0
  let offset := offset0 % 8
  let bytelength := (length + byteoffset * 8 + offset + 7) / 8 - byteoffset
  if length + byteoffset * 8 + offset > n then .error .value
  else
    let chunk := pySlice data (some byteoffset) (some (byteoffset + bytelength))
    .ok (pySlice (fromBytes chunk) (some offset) (some (offset + length)))

def bytesioWin (data : List Nat) (off len : Option Int) : Except Err Bits :=
  match off, len with
  | none, none => .ok (fromBytes data)               -- _setauto_no_length_or_offset
  | _, _ => bytesioGeneral data (off.getD 0) len

/-- `_setfile` (bits.py:560) with `BitStore.frombuffer` (bitstore.py:60); a file handle takes the same path
    (`_setauto`, bits.py:553: `self._setfile(s.name, length, offset)`). -/
def fileWin (data : List Nat) (off len : Option Int) : Except Err Bits :=
  let all := fromBytes data                              -- an empty file is read as b''
  let offset := off.getD 0
  if offset < 0 then .error .value else
  if offset = 0 then
    match len with
    | none => .ok all
    | some l =>
      if l < 0 then .error .value
      else if l > all.length then .error .value
      else .ok (all.take l.toNat)
  else
    if offset > all.length then .error .value else
    match len with
    | none => .ok (pySlice all (some offset) none)
    | some l =>
      let r := pySlice all (some offset) (some (offset + l))
      if (r.length : Int) ≠ l then .error .value else .ok r

/-- `if d.bitlength is not None and len(self) != d.bitlength: raise CreationError` (bits.py:169). -/
def checkLen (d : DT) (dl : Option Int) (b : Bits) : Except Err Bits :=
  match bitLen d dl with
  | some n => if (b.length : Int) ≠ n then .error .value else .ok b
  | none => .ok b

/-- `Cls(name=v, length=len, offset=off)` (bits.py:146-171).  `bytes=` is the window route; every other
    keyword refuses `offset`; the resulting length is compared with the dtype's. -/
def kwRoute (d : DT) (v : Val) (len off : Option Int) : Except Err Bits :=
  match d, v with
  | .bytes, .bytes ds => bytesWin ds off len
  | _, _ =>
    if off.isSome then .error .value else
    match getDtype d len with
    | .error e => .error e
    | .ok dl =>
      match callSet d dl v none with                -- the new object has no store yet
      | .error e => .error e
      | .ok b => checkLen d dl b

/-- `Cls(**{f'{name}{n}': v})`: `Dtype(k)` parses name and length (dtypes.py:61, 133), then as above.
    A negative `n` cannot be written (`'uint-8'` is no dtype name). -/
def kwnRoute (d : DT) (n : Int) (v : Val) : Except Err Bits :=
  if n < 0 then .error .value else
  match getDtype d (some n) with
  | .error e => .error e
  | .ok dl =>
    match callSet d dl v none with
    | .error e => .error e
    | .ok b => checkLen d dl b

/-- `a.<name> = v` through the class property (fset = the definition's raw set function): no `length`
    argument, the object's current length is used by the int and float setters (and must be whole bytes for
    the byte-order ones). -/
def propSet (d : DT) (cur : Bits) (v : Val) : Except Err Bits :=
  setFn d v none (some cur.length)

/-- `a.<name><n> = v` through `BitArray.__setattr__` (bitarray_.py:131). -/
def propnSet (d : DT) (n : Int) (v : Val) : Except Err Bits :=
  if n < 0 then .error .value else
  match getDtype d (some n) with
  | .error e => .error e
  | .ok dl =>
    match callSet d dl v none with                  -- x = object.__new__(Bits)
    | .error e => .error e
    | .ok x => if some (x.length : Int) ≠ bitLen d dl then .error .value else .ok x

/-- The object after an assignment, and the exception if it was rejected: a rejected assignment returns
    before `self._bitstore = …`. -/
structure Outcome where
  bits : Bits
  err : Option Err
  deriving Repr, DecidableEq

def assign (d : DT) (len : Option Int) (cur : Bits) (v : Val) : Outcome :=
  match (match len with | none => propSet d cur v | some n => propnSet d n v) with
  | .ok b => ⟨b, none⟩
  | .error e => ⟨cur, some e⟩

/-- `Array._create_element` (array_.py:174): `dtype.build(value)` then `len(b) != dtype.bitlength`. -/
def createElement (d : DT) (n : Int) (v : Val) : Except Err Bits :=
  match build d (some n) v with
  | .error e => .error e
  | .ok b => if (b.length : Int) ≠ n * (defOf d).mult then .error .value else .ok b

/-- `Array(f'{name}{n}', …)[key] = v` (array_.py:240-247); `n ≥ 1`, `data` = the array's bits,
    `w = dtype.bitlength` the size of an item. -/
def arrSet (d : DT) (n : Nat) (data : Bits) (key : Int) (v : Val) : Outcome :=
  let w : Nat := n * (defOf d).mult
  let count : Int := data.length / w
  let k := if key < 0 then key + count else key
  if k < 0 ∨ k ≥ count then ⟨data, some .index⟩ else
  match createElement d n v with
  | .error e => ⟨data, some e⟩
  | .ok b =>
    -- data.overwrite(b, start): self._bitstore[pos: pos + len(bs)] = bs (an empty bs returns at once)
    let start := (w * k).toNat
    ⟨data.take start ++ b ++ data.drop (start + b.length), none⟩

/-! ## 7. SPEC: the total classification -/

def isInt : DT → Bool
  | .uint | .int | .uintbe | .intbe | .uintle | .intle => true
  | _ => false
def isSigned : DT → Bool
  | .int | .intbe | .intle => true
  | _ => false
def isEndian : DT → Bool
  | .uintbe | .intbe | .uintle | .intle => true
  | _ => false
def isLE : DT → Bool
  | .uintle | .intle | .floatle | .bfloatle => true
  | _ => false
def digitKind? : DT → Option DigitKind
  | .hex => some .hex | .oct => some .oct | .bin => some .bin | _ => none
def fxWidth? : DT → Option Nat
  | .fx8 => some 8 | .fx6 => some 6 | .fx4 => some 4 | _ => none

/-- `len` absent, or equal to `n`. -/
def lenIs (len : Option Int) (n : Nat) : Bool :=
  match len with
  | none => true
  | some l => l == (n : Int)

/-- SPEC: little-endian = the big-endian bytes in reverse order (whole bytes only). -/
def leBits (b : Bits) : Bits := (groups8 (b.length / 8) b).reverse.flatten

/-- SPEC: the bits a valid `(d, len, v)` denotes. -/
def encode (d : DT) (len : Option Int) (v : Val) : Bits :=
  match d, v with
  | .uint, .int i | .int, .int i | .uintbe, .int i | .intbe, .int i => intToBits (len.getD 0).toNat i
  | .uintle, .int i | .intle, .int i => leBits (intToBits (len.getD 0).toNat i)
  | .hex, .str s => ((cleaned .hex s).filterMap hexVal?).flatMap (natToBits 4)
  | .oct, .str s => ((cleaned .oct s).filterMap octVal?).flatMap (natToBits 3)
  | .bin, .str s => ((cleaned .bin s).filterMap binVal?).flatMap (natToBits 1)
  | .float, .float c16 c32 c64 =>
    natToBits (len.getD 0).toNat (if len = some 16 then c16 else if len = some 32 then c32 else c64)
  | .floatle, .float c16 c32 c64 =>
    leBits (natToBits (len.getD 0).toNat (if len = some 16 then c16 else if len = some 32 then c32 else c64))
  | .bfloat, .float _ c32 _ => natToBits 16 (c32 / 65536)
  | .bfloatle, .float _ c32 _ => leBits (natToBits 16 (c32 / 65536))
  | .bits, .bits b => b
  | .bool, .int i => [decide (i = 1)]
  | .bool, .str s => [decide (s = "True".toList ∨ s = "1".toList)]
  | .bytes, .bytes ds => fromBytes ds
  | .ue, .int i => C10.ueEncodeNat i.toNat
  | .se, .int i => C10.seEncode i
  | .uie, .int i => C10.uieEncodeNat i.toNat
  | .sie, .int i => C10.sieEncode i
  | .fx8, .code c => natToBits 8 c
  | .fx6, .code c => natToBits 6 c
  | .fx4, .code c => natToBits 4 c
  | _, _ => []

/-- SPEC: which `(dtype, length, value)` triples fit.  `len` is in the dtype's units (bytes for `bytes`). -/
def valid (d : DT) (len : Option Int) (v : Val) : Bool :=
  match d, v with
  | .uint, .int i | .int, .int i | .uintbe, .int i | .intbe, .int i | .uintle, .int i | .intle, .int i =>
    match len with
    | some n => decide (1 ≤ n) && (!isEndian d || n % 8 == 0) && inRange (isSigned d) n.toNat i
    | none => false
  | .hex, .str s => ((cleaned .hex s).all fun c => (hexVal? c).isSome) && lenIs len (4 * (cleaned .hex s).length)
  | .oct, .str s => ((cleaned .oct s).all fun c => (octVal? c).isSome) && lenIs len (3 * (cleaned .oct s).length)
  | .bin, .str s => ((cleaned .bin s).all fun c => (binVal? c).isSome) && lenIs len (cleaned .bin s).length
  | .float, .float .. | .floatle, .float .. => len == some 16 || len == some 32 || len == some 64
  | .bfloat, .float .. | .bfloatle, .float .. => lenIs len 16
  | .bits, .bits b => lenIs len b.length
  | .bool, .int i => (i == 1 || i == 0) && lenIs len 1
  | .bool, .str s =>
    (s == "True".toList || s == "1".toList || s == "False".toList || s == "0".toList) && lenIs len 1
  | .bytes, .bytes ds => lenIs len ds.length
  | .ue, .int i | .uie, .int i => len == none && decide (0 ≤ i)
  | .se, .int _ | .sie, .int _ => len == none
  | .fx8, .code c => lenIs len 8 && decide (c < 256)
  | .fx6, .code c => lenIs len 6 && decide (c < 64)
  | .fx4, .code c => lenIs len 4 && decide (c < 16)
  | _, _ => false

/-- The values the line protocol pairs with each dtype (a `.str` in a numeric slot is a malformed numeral). -/
def wellTyped (d : DT) (v : Val) : Bool :=
  match d, v with
  | .uint, .int _ | .int, .int _ | .uintbe, .int _ | .intbe, .int _ | .uintle, .int _ | .intle, .int _ => true
  | .uint, .str _ | .int, .str _ | .uintbe, .str _ | .intbe, .str _ | .uintle, .str _ | .intle, .str _ => true
  | .hex, .str _ | .oct, .str _ | .bin, .str _ => true
  | .float, .float .. | .floatle, .float .. | .bfloat, .float .. | .bfloatle, .float .. => true
  | .float, .str _ | .floatle, .str _ | .bfloat, .str _ | .bfloatle, .str _ => true
  | .bits, .bits _ => true
  | .bool, .int _ | .bool, .str _ => true
  | .bytes, .bytes _ => true
  | .ue, .int _ | .se, .int _ | .uie, .int _ | .sie, .int _ => true
  | .ue, .str _ | .se, .str _ | .uie, .str _ | .sie, .str _ => true
  | .fx8, .code _ | .fx6, .code _ | .fx4, .code _ => true
  | .fx8, .str _ | .fx6, .str _ | .fx4, .str _ => true
  | _, _ => false

/-- SPEC: the length a plain property assignment `a.<name> = v` means: the object's own length for the
    int and float setters (none if it is empty), unspecified for everything else. -/
def effLen (d : DT) (cur : Bits) : Option Int :=
  match d with
  | .uint | .int | .uintbe | .intbe | .uintle | .intle | .float | .floatle =>
    if cur.length ≠ 0 then some (cur.length : Int) else none
  | _ => none

/-- SPEC: a window of `len` bits at `off` over `src`: `0 ≤ off ∧ 0 ≤ len ∧ off + len ≤ n`
    (defaults: `off = 0`, `len = n - off`). -/
def windowSpec (src : Bits) (off len : Option Int) : Except Err Bits :=
  let o := off.getD 0
  let l := len.getD ((src.length : Int) - o)
  if 0 ≤ o ∧ 0 ≤ l ∧ o + l ≤ src.length then .ok ((src.drop o.toNat).take l.toNat) else .error .value

/-! ## 8. Driver -/

def DT.ofStr? : String → Option DT
  | "uint" => some .uint | "int" => some .int | "uintbe" => some .uintbe | "intbe" => some .intbe
  | "uintle" => some .uintle | "intle" => some .intle
  | "hex" => some .hex | "oct" => some .oct | "bin" => some .bin
  | "float" => some .float | "floatle" => some .floatle | "bfloat" => some .bfloat | "bfloatle" => some .bfloatle
  | "bits" => some .bits | "bool" => some .bool | "bytes" => some .bytes
  | "ue" => some .ue | "se" => some .se | "uie" => some .uie | "sie" => some .sie
  | "fx8" => some .fx8 | "fx6" => some .fx6 | "fx4" => some .fx4
  | _ => none

def natOfHex? (s : List Char) : Option Nat :=
  s.foldlM (fun acc c => (hexVal? c).map (acc * 16 + ·)) 0

/-- Pairs of hex digits → byte values. -/
def bytesOfHex? : List Char → Option (List Nat)
  | [] => some []
  | a :: b :: t =>
    match hexVal? a, hexVal? b, bytesOfHex? t with
    | some x, some y, some r => some ((x * 16 + y) :: r)
    | _, _, _ => none
  | _ => none

/-- `i<int>` | `s<hex of the code points>` | `x<hex of the bytes>` | `b<bits>` | `f<c16>,<c32>,<c64>` | `c<code>`. -/
def Val.ofStr? (s : String) : Option Val :=
  match s.toList with
  | 'i' :: t => (String.ofList t).toInt?.map .int
  | 's' :: t => (bytesOfHex? t).map fun l => .str (l.map Char.ofNat)
  | 'x' :: t => (bytesOfHex? t).map .bytes
  | 'b' :: t => (bitsOfStr? (String.ofList t)).map .bits
  | 'f' :: t =>
    match (String.ofList t).splitOn "," with
    | [a, b, c] =>
      match a.toNat?, b.toNat?, c.toNat? with
      | some x, some y, some z => some (.float x y z)
      | _, _, _ => none
    | _ => none
  | 'c' :: t => (String.ofList t).toNat?.map .code
  | _ => none

def Allowed.toStr : Allowed → String
  | .any => "()"
  | .step a b => s!"({a},{b},...)"
  | .oneOf l => "(" ++ ",".intercalate (l.map toString) ++ ")"

def bstr (b : Bool) : String := if b then "True" else "False"

def outcomeToStr (o : Outcome) : String :=
  match o.err with
  | none => "ok " ++ bitsToWire o.bits
  | some e => "err " ++ e.toStr ++ " " ++ bitsToWire o.bits

def res (r : Except Err Bits) : String := resultToStr bitsToWire r

def handle (args : List String) : String :=
  match args with
  | ["table", _, m] =>
    match DT.ofStr? m with
    | some d => let df := defOf d
      s!"ok {df.mult} {df.allowed.toStr} {bstr df.needsLen} {bstr df.varLen}"
    | none => "bad-op"
  | ["i2b", i, len, sg] =>
    match i.toInt?, len.toInt? with
    | some i, some l => res (int2bits i l (sg == "1"))
    | _, _ => "bad-op"
  | ["i2ble", i, len, sg] =>
    match i.toInt?, len.toInt? with
    | some i, some l => res (intle2bits i l (sg == "1"))
    | _, _ => "bad-op"
  | ["dig", k, _, s] =>
    match (match k with | "hex" => some DigitKind.hex | "oct" => some .oct | "bin" => some .bin | _ => none),
          bytesOfHex? (s.toList.drop 1) with
    | some k, some l => res (digits2bits k (l.map Char.ofNat))
    | _, _ => "bad-op"
  | ["enc", route, _, m, _, len, val, off] =>
    match DT.ofStr? m, optIntOfStr? len, Val.ofStr? val, optIntOfStr? off with
    | some d, some len, some v, some off =>
      match route with
      | "kw" => res (kwRoute d v len off)
      | "kwn" => match len with | some n => res (kwnRoute d n v) | none => "bad-op"
      | "tok" | "tokn" => res (fromToken d len v)
      | "pack" | "packk" => res (packRoute d len v)
      | "build" | "buildn" => res (build d len v)
      | _ => "bad-op"
    | _, _, _, _ => "bad-op"
  | ["asg", _, m, _, len, cur, val] =>
    match DT.ofStr? m, optIntOfStr? len, bitsOfStr? cur, Val.ofStr? val with
    | some d, some len, some cur, some v => outcomeToStr (assign d len cur v)
    | _, _, _, _ => "bad-op"
  | ["arr", m, _, n, data, key, val] =>
    match DT.ofStr? m, n.toNat?, bitsOfStr? data, key.toInt?, Val.ofStr? val with
    | some d, some n, some data, some key, some v =>
      if n = 0 then "bad-op" else outcomeToStr (arrSet d n data key v)
    | _, _, _, _, _ => "bad-op"
  | ["win", src, _, data, off, len] =>
    match optIntOfStr? off, optIntOfStr? len with
    | some off, some len =>
      match src, data.toList with
      | "bitarray", 'b' :: t =>
        match bitsOfStr? (String.ofList t) with
        | some ba => res (bitarrayWin ba off len)
        | none => "bad-op"
      | "bytes", 'x' :: t => match bytesOfHex? t with | some d => res (bytesWin d off len) | none => "bad-op"
      | "bytesio", 'x' :: t => match bytesOfHex? t with | some d => res (bytesioWin d off len) | none => "bad-op"
      | "fname", 'x' :: t | "fhandle", 'x' :: t =>
        match bytesOfHex? t with | some d => res (fileWin d off len) | none => "bad-op"
      | _, _ => "bad-op"
    | _, _ => "bad-op"
  | _ => "bad-op"

end BM.C15
