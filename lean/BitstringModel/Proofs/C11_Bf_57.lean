/- Kernel obligation: `bfChk` (Proofs/C11_NumDefs.lean) on the 16-bit patterns 0xe400..0xe7ff. -/
import BitstringModel.Proofs.C11_NumDefs
namespace BM.C11
theorem bfChunk_57 : bfChunkOk 57 = true := by decide +kernel
end BM.C11
