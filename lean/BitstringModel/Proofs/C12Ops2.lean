/-
  Proofs/C12Ops2.lean — helper lemmas for Props/C12_Ops.lean: replace, byteswap, whole-string rotation.
-/
import BitstringModel.Model.C12
import BitstringModel.Proofs.C12
import BitstringModel.Proofs.C12Search
import BitstringModel.Proofs.C12Ops
import Mathlib.Tactic.Ring
import Mathlib.Tactic.Linarith
import Mathlib.Data.List.Basic
namespace BM.C12
open BM

end BM.C12
