/-
  Proofs/C12Ops2.lean — helper lemmas for Props/C12_Ops.lean: replace, byteswap, whole-string rotation.
-/
import BitstringModel.Model.C12
import BitstringModel.Proofs.C12
import BitstringModel.Proofs.C12Search
import BitstringModel.Proofs.C12Ops
import Mathlib.Tactic.Ring
import Mathlib.Tactic.Linarith
import Mathlib.Data.List.Basic
namespace BM.C12
open BM

theorem getslice_msb0_ok (l : Bits) (a b : Option Int) : getslice .msb0 l a b = .ok (getsliceMsb0 l a b) := rfl

theorem getslice_lsb0_ok (l : Bits) (a b : Option Int) :
    getslice .lsb0 l a b = .ok (getsliceMsb0 l.reverse a b).reverse := by
  rw [getslice2_mirror, getslice_msb0_ok]; rfl

theorem middlePieces_msb0_ok (l new : Bits) (k : Nat) (ps : List Nat) :
    ∃ r, middlePieces .msb0 l new k ps = .ok r := by
  induction ps with
  | nil => exact ⟨[], rfl⟩
  | cons p qs ih =>
    cases qs with
    | nil => exact ⟨[], rfl⟩
    | cons q rest =>
      obtain ⟨r, hr⟩ := ih
      refine ⟨new :: getsliceMsb0 l (some ((p : Int) + k)) (some (q : Int)) :: r, ?_⟩
      simp only [middlePieces, getslice_msb0_ok, hr]

theorem middlePieces_mirror (l new : Bits) (k : Nat) (ps : List Nat) :
    middlePieces .lsb0 l new k ps = (middlePieces .msb0 l.reverse new.reverse k ps).map (List.map List.reverse) := by
  induction ps with
  | nil => rfl
  | cons p qs ih =>
    cases qs with
    | nil => rfl
    | cons q rest =>
      obtain ⟨r, hr⟩ := middlePieces_msb0_ok l.reverse new.reverse k (q :: rest)
      rw [hr] at ih
      simp only [middlePieces, getslice_msb0_ok, getslice_lsb0_ok, hr, ih, Except.map]
      simp

theorem replace_mirror (l old new : Bits) (a b : Nat) (count : Nat) (ba : Bool)
    (hab : a ≤ b) (hb : b ≤ l.length) (hold : old ≠ []) :
    replace_ .lsb0 l old new a b count ba
      = (replace_ .msb0 l.reverse old.reverse new.reverse a b count ba).map fun r => (r.1, r.2.reverse) := by
  have hf : findall_ .lsb0 l old a b none ba = .ok (findallMsb0 l.reverse old.reverse a b none ba) := by
    unfold findall_; dsimp only
    exact findall_fixed_chunks_eq_s _ (chunkIncrement_pos_s old) l old a b none ba hab hb hold
  have hf' : findall_ .msb0 l.reverse old.reverse a b none ba = .ok (findallMsb0 l.reverse old.reverse a b none ba) := rfl
  unfold replace_
  rw [hf, hf']
  simp only [List.length_reverse]
  generalize startingPoints old.length count (findallMsb0 l.reverse old.reverse a b none ba) [] = pts
  cases pts with
  | nil => simp [Except.map]
  | cons p0 rest =>
    obtain ⟨mid, hmid⟩ := middlePieces_msb0_ok l.reverse new.reverse old.length (p0 :: rest)
    simp only [getslice_msb0_ok, getslice_lsb0_ok, middlePieces_mirror, hmid, Except.map]
    simp only [reduceCtorEq, if_false, if_true]
    congr 2
    rw [List.reverse_flatten]
    congr 1
    simp

theorem replaceOp_mirror (l old new : Bits) (start stop : Option Int) (count : Option Int) (ba : Bool) :
    replaceOp .lsb0 l old new start stop count ba
      = (replaceOp .msb0 l.reverse old.reverse new.reverse start stop count ba).map fun r => (r.1, r.2.reverse) := by
  unfold replaceOp
  simp only [List.length_reverse]
  by_cases hold : old.length = 0
  · simp only [hold, if_true]; rfl
  · simp only [hold, if_false]
    cases h : validateSlice l.length start stop with
    | error e => rfl
    | ok ab =>
      obtain ⟨a, b⟩ := ab
      have hb := validateSlice_bounds _ _ _ _ _ h
      simp only []
      by_cases hc : count = some 0
      · simp [hc, Except.map]
      · simp only [hc, if_false]
        have hold' : old ≠ [] := by
          intro hh; apply hold; rw [hh]; rfl
        exact replace_mirror l old new a b _ ba hb.1 hb.2 hold'

/-- the `i`-th byte of `x`. -/
def byteAt (x : Bits) (i : Nat) : Bits := (x.drop (8 * i)).take 8

theorem byteGroups_eq (m : Nat) : ∀ (fuel : Nat) (x : Bits), x.length = 8 * m → m < fuel →
    byteGroups fuel x = (List.range m).map (byteAt x) := by
  induction m with
  | zero =>
    intro fuel x hx hf
    have : x = [] := List.length_eq_zero_iff.mp (by omega)
    subst this
    cases fuel with
    | zero => omega
    | succ f => simp [byteGroups]
  | succ m ih =>
    intro fuel x hx hf
    cases fuel with
    | zero => omega
    | succ f =>
      have hne : x.length ≠ 0 := by omega
      simp only [byteGroups, hne, if_false]
      rw [ih f (x.drop 8) (by simp; omega) (by omega), List.range_succ_eq_map, List.map_cons, List.map_map]
      congr 1
      apply List.map_congr_left
      intro i _
      simp only [Function.comp, byteAt, List.drop_drop]
      congr 2
      omega

theorem byteAt_reverse (x : Bits) (m i : Nat) (hx : x.length = 8 * m) (hi : i < m) :
    byteAt x.reverse i = (byteAt x (m - 1 - i)).reverse := by
  unfold byteAt
  rw [List.drop_reverse, List.take_reverse, List.length_take, List.drop_take]
  have e1 : min (x.length - 8 * i) x.length - 8 = 8 * (m - 1 - i) := by omega
  have e2 : x.length - 8 * i - 8 * (m - 1 - i) = 8 := by omega
  rw [e1, e2]

theorem reverseBytesOf_whole (x : Bits) (m : Nat) (hx : x.length = 8 * m) :
    reverseBytesOf x = ((List.range m).map (byteAt x)).reverse.flatten := by
  unfold reverseBytesOf
  have hpad : (8 - x.length % 8) % 8 = 0 := by omega
  simp only [hpad, List.replicate_zero, List.append_nil]
  rw [byteGroups_eq m _ x hx (by omega)]

theorem byteGroups_reverse (x : Bits) (m : Nat) (hm : x.length = 8 * m) :
    (List.range m).map (byteAt x.reverse) = (((List.range m).map (byteAt x)).map List.reverse).reverse := by
  rw [List.map_map, ← List.map_reverse, reverse_range_map, List.map_map]
  apply List.map_congr_left
  intro i hi
  simp only [List.mem_range] at hi
  simp only [Function.comp]
  exact byteAt_reverse x m i hm hi

theorem reverseBytesOf_reverse (x : Bits) (hx : x.length % 8 = 0) :
    reverseBytesOf x.reverse = (reverseBytesOf x).reverse := by
  obtain ⟨m, hm⟩ : ∃ m, x.length = 8 * m := ⟨x.length / 8, by omega⟩
  rw [reverseBytesOf_whole x m hm, reverseBytesOf_whole x.reverse m (by simpa using hm)]
  rw [List.reverse_flatten, byteGroups_reverse x m hm, List.reverse_reverse, List.map_reverse, List.reverse_reverse]

theorem reverseBytesOf_length (x : Bits) (hx : x.length % 8 = 0) : (reverseBytesOf x).length = x.length := by
  obtain ⟨m, hm⟩ : ∃ m, x.length = 8 * m := ⟨x.length / 8, by omega⟩
  rw [reverseBytesOf_whole x m hm, List.length_flatten, List.map_reverse, List.sum_reverse, List.map_map]
  have : ∀ i ∈ List.range m, (List.length ∘ byteAt x) i = 8 := by
    intro i hi
    simp only [List.mem_range] at hi
    simp only [Function.comp, byteAt, List.length_take, List.length_drop]
    omega
  rw [List.map_congr_left this]
  simp [hm]
  omega


theorem pySet_contig (l : Bits) (a b : Nat) (hab : a ≤ b) (hb : b ≤ l.length) (v : Bits) :
    pySet l ⟨some (a : Int), some (b : Int), none⟩ v = .ok (l.take a ++ v ++ l.drop b) := by
  have h1 : ¬ ((1 : Int) < 0) := by omega
  have h2 : ¬ ((a : Int) < 0) := by omega
  have h3 : ¬ ((b : Int) < 0) := by omega
  simp only [pySet, Option.getD_none, Py.sliceIndices, h1, h2, h3, if_false, if_true]
  have e1 : (min (a : Int) (l.length : Int)).toNat = a := by omega
  have e2 : (max (min (b : Int) (l.length : Int)) (min (a : Int) (l.length : Int))).toNat = b := by omega
  simp [e1, e2]

theorem reversebytes_msb0 (l : Bits) (a b : Nat) (hab : a ≤ b) (hb : b ≤ l.length) :
    reversebytes_ .msb0 l (a : Int) (b : Int)
      = .ok (l.take a ++ reverseBytesOf ((l.drop a).take (b - a)) ++ l.drop b) := by
  unfold reversebytes_
  rw [getslice_msb0_ok]
  simp only [getsliceMsb0, setitemSlice]
  rw [sliceStep1_some_some l a b hab hb, pySet_contig l a b hab hb]

theorem reversebytes_msb0_length (l r : Bits) (a b : Nat) (hab : a ≤ b) (hb : b ≤ l.length) (h8 : (b - a) % 8 = 0)
    (h : reversebytes_ .msb0 l (a : Int) (b : Int) = .ok r) : r.length = l.length := by
  rw [reversebytes_msb0 l a b hab hb] at h
  injection h with h
  subst h
  have : ((l.drop a).take (b - a)).length = b - a := by simp; omega
  simp only [List.length_append, List.length_take, List.length_drop, reverseBytesOf_length _ (by rw [this]; exact h8), this]
  omega

theorem reversebytes_mirror (l : Bits) (a b : Nat) (hab : a ≤ b) (hb : b ≤ l.length) (h8 : (b - a) % 8 = 0) :
    reversebytes_ .lsb0 l (a : Int) (b : Int) = (reversebytes_ .msb0 l.reverse (a : Int) (b : Int)).map List.reverse := by
  unfold reversebytes_
  rw [getslice_lsb0_ok, getslice_msb0_ok]
  simp only []
  have hlen : (getsliceMsb0 l.reverse (some (a : Int)) (some (b : Int))).length % 8 = 0 := by
    simp only [getsliceMsb0]
    rw [sliceStep1_some_some l.reverse a b hab (by simpa using hb)]
    simp only [List.length_take, List.length_drop, List.length_reverse]
    have : min (b - a) (l.length - a) = b - a := by omega
    rw [this]; exact h8
  rw [setvalid_mirror l _ a b, reverseBytesOf_reverse _ hlen, List.reverse_reverse]


theorem byteswapPattern_msb0_len (sizes : List Nat) : ∀ (L : Bits) (x : Nat), x + 8 * sizes.sum ≤ L.length →
    ∃ r, byteswapPattern .msb0 L (x : Int) sizes = .ok r ∧ r.length = L.length := by
  induction sizes with
  | nil => intro L x _; exact ⟨L, rfl, rfl⟩
  | cons z zs ih =>
    intro L x hfit
    simp only [List.sum_cons] at hfit
    have hc : ((x : Int) + (z : Int) * 8) = ((x + z * 8 : Nat) : Int) := by push_cast; ring
    simp only [byteswapPattern, hc]
    have hrb := reversebytes_msb0 L x (x + z * 8) (by omega) (by omega)
    have hlen := reversebytes_msb0_length L _ x (x + z * 8) (by omega) (by omega) (by omega) hrb
    rw [hrb]
    simp only []
    obtain ⟨r, hr, hrl⟩ := ih _ (x + z * 8) (by rw [hlen]; omega)
    exact ⟨r, hr, by rw [hrl, hlen]⟩

theorem byteswapPattern_mirror (sizes : List Nat) : ∀ (l : Bits) (x : Nat), x + 8 * sizes.sum ≤ l.length →
    byteswapPattern .lsb0 l (x : Int) sizes = (byteswapPattern .msb0 l.reverse (x : Int) sizes).map List.reverse := by
  induction sizes with
  | nil => intro l x _; simp [byteswapPattern, Except.map]
  | cons z zs ih =>
    intro l x hfit
    simp only [List.sum_cons] at hfit
    have hc : ((x : Int) + (z : Int) * 8) = ((x + z * 8 : Nat) : Int) := by push_cast; ring
    simp only [byteswapPattern, hc]
    rw [reversebytes_mirror l x (x + z * 8) (by omega) (by omega) (by omega)]
    have hrb := reversebytes_msb0 l.reverse x (x + z * 8) (by omega) (by simp; omega)
    have hlen := reversebytes_msb0_length l.reverse _ x (x + z * 8) (by omega) (by simp; omega) (by omega) hrb
    rw [hrb]
    simp only [Except.map]
    rw [List.length_reverse] at hlen
    have := ih (l.reverse.take x ++ reverseBytesOf ((l.reverse.drop x).take (x + z * 8 - x)) ++ l.reverse.drop (x + z * 8)).reverse
      (x + z * 8) (by rw [List.length_reverse, hlen]; omega)
    rw [List.reverse_reverse] at this
    rw [this]
    rfl

theorem byteswapLoop_msb0_len (sizes : List Nat) (total : Nat) (htot : total = 8 * sizes.sum) :
    ∀ (k : Nat) (L : Bits) (pe reps : Nat), (k = 0 ∨ (total ≤ pe ∧ pe + (k - 1) * total ≤ L.length)) →
    ∃ r, byteswapLoop .msb0 sizes total k L (pe : Int) reps = .ok r ∧ r.1.length = L.length := by
  intro k
  induction k with
  | zero => intro L pe reps _; exact ⟨(L, reps), rfl, rfl⟩
  | succ k ih =>
    intro L pe reps h
    have h : total ≤ pe ∧ pe + k * total ≤ L.length := by
      rcases h with h | h
      · omega
      · simpa using h
    have hc : ((pe : Int) - (total : Int)) = ((pe - total : Nat) : Int) := by omega
    have hc2 : ((pe : Int) + (total : Int)) = ((pe + total : Nat) : Int) := by omega
    simp only [byteswapLoop, hc, hc2]
    have hk : k * total ≥ 0 := Nat.zero_le _
    obtain ⟨r, hr, hrl⟩ := byteswapPattern_msb0_len sizes L (pe - total) (by rw [← htot]; omega)
    rw [hr]
    simp only []
    obtain ⟨r2, hr2, hr2l⟩ := ih r (pe + total) (reps + 1) (by
      rcases Nat.eq_zero_or_pos k with hk0 | hkpos
      · exact Or.inl hk0
      · right
        refine ⟨by omega, ?_⟩
        rw [hrl]
        have : (k - 1) * total + total = k * total := by
          rw [← Nat.succ_mul]; congr 1; omega
        omega)
    exact ⟨r2, hr2, by rw [hr2l, hrl]⟩

theorem byteswapLoop_mirror (sizes : List Nat) (total : Nat) (htot : total = 8 * sizes.sum) :
    ∀ (k : Nat) (l : Bits) (pe reps : Nat), (k = 0 ∨ (total ≤ pe ∧ pe + (k - 1) * total ≤ l.length)) →
    byteswapLoop .lsb0 sizes total k l (pe : Int) reps
      = (byteswapLoop .msb0 sizes total k l.reverse (pe : Int) reps).map fun r => (r.1.reverse, r.2) := by
  intro k
  induction k with
  | zero => intro l pe reps _; simp [byteswapLoop, Except.map]
  | succ k ih =>
    intro l pe reps h
    have h : total ≤ pe ∧ pe + k * total ≤ l.length := by
      rcases h with h | h
      · omega
      · simpa using h
    have hc : ((pe : Int) - (total : Int)) = ((pe - total : Nat) : Int) := by omega
    have hc2 : ((pe : Int) + (total : Int)) = ((pe + total : Nat) : Int) := by omega
    simp only [byteswapLoop, hc, hc2]
    have hk : k * total ≥ 0 := Nat.zero_le _
    rw [byteswapPattern_mirror sizes l (pe - total) (by rw [← htot]; omega)]
    obtain ⟨r, hr, hrl⟩ := byteswapPattern_msb0_len sizes l.reverse (pe - total) (by rw [← htot, List.length_reverse]; omega)
    rw [hr]
    simp only [Except.map]
    have := ih r.reverse (pe + total) (reps + 1) (by
      rcases Nat.eq_zero_or_pos k with hk0 | hkpos
      · exact Or.inl hk0
      · right
        refine ⟨by omega, ?_⟩
        rw [List.length_reverse, hrl, List.length_reverse]
        have : (k - 1) * total + total = k * total := by
          rw [← Nat.succ_mul]; congr 1; omega
        omega)
    rw [List.reverse_reverse] at this
    rw [this]
    rfl


theorem byteswap_core (l : Bits) (sizes : List Nat) (a b : Nat) (repeat_ : Bool) (hb : b ≤ l.length)
    (h0 : 8 * sizes.sum ≠ 0) :
    byteswapLoop .lsb0 sizes (8 * sizes.sum)
        (Py.rangeLen ((a : Int) + (8 * sizes.sum : Nat)) (((if repeat_ then b else min (a + 8 * sizes.sum) b : Nat) : Int) + 1) (8 * sizes.sum : Nat))
        l ((a : Int) + (8 * sizes.sum : Nat)) 0
    = (byteswapLoop .msb0 sizes (8 * sizes.sum)
        (Py.rangeLen ((a : Int) + (8 * sizes.sum : Nat)) (((if repeat_ then b else min (a + 8 * sizes.sum) b : Nat) : Int) + 1) (8 * sizes.sum : Nat))
        l.reverse ((a : Int) + (8 * sizes.sum : Nat)) 0).map fun r => (r.1.reverse, r.2) := by
  generalize htot : 8 * sizes.sum = total at *
  generalize hfin : (if repeat_ then b else min (a + total) b : Nat) = finalbit
  have hfinle : finalbit ≤ l.length := by
    rw [← hfin]
    cases repeat_ with
    | true => simpa using hb
    | false => simp only [Bool.false_eq_true, if_false]; omega
  have hc : ((a : Int) + (total : Int)) = ((a + total : Nat) : Int) := by omega
  rw [hc]
  generalize hit : Py.rangeLen ((a + total : Nat) : Int) ((finalbit : Int) + 1) (total : Int) = iters
  have hcond : iters = 0 ∨ (total ≤ a + total ∧ (a + total) + (iters - 1) * total ≤ l.length) := by
    rcases Nat.eq_zero_or_pos iters with hz | hp
    · exact Or.inl hz
    · right
      refine ⟨by omega, ?_⟩
      have := C01.rangeLen_pos_bounds ((a + total : Nat) : Int) ((finalbit : Int) + 1) (total : Int) (by omega) (iters - 1)
        (by rw [hit]; omega)
      have h2 := this.2
      have hcast : (((iters - 1 : Nat) : Int) * (total : Int)) = (((iters - 1) * total : Nat) : Int) := by push_cast; ring
      rw [hcast] at h2
      omega
  exact byteswapLoop_mirror sizes total htot.symm iters l (a + total) 0 hcond

theorem byteswapOp_mirror (l : Bits) (fmt : Option (List Int)) (start stop : Option Int) (repeat_ : Bool) :
    byteswapOp .lsb0 l fmt start stop repeat_
      = (byteswapOp .msb0 l.reverse fmt start stop repeat_).map fun r => (r.1, r.2.reverse) := by
  unfold byteswapOp
  simp only [List.length_reverse]
  cases h : validateSlice l.length start stop with
  | error e => rfl
  | ok ab =>
    obtain ⟨a, b⟩ := ab
    have hb := validateSlice_bounds _ _ _ _ _ h
    simp only []
    have main : ∀ sizes : List Nat,
        (if 8 * sizes.sum = 0 then (Except.ok (0, l) : Except Err (Nat × Bits)) else
          match byteswapLoop .lsb0 sizes (8 * sizes.sum)
              (Py.rangeLen ((a : Int) + (8 * sizes.sum : Nat)) (((if repeat_ then b else min (a + 8 * sizes.sum) b : Nat) : Int) + 1) (8 * sizes.sum : Nat))
              l ((a : Int) + (8 * sizes.sum : Nat)) 0 with
          | .error e => .error e
          | .ok (l', reps) => .ok (reps, l'))
        = (if 8 * sizes.sum = 0 then (Except.ok (0, l.reverse) : Except Err (Nat × Bits)) else
          match byteswapLoop .msb0 sizes (8 * sizes.sum)
              (Py.rangeLen ((a : Int) + (8 * sizes.sum : Nat)) (((if repeat_ then b else min (a + 8 * sizes.sum) b : Nat) : Int) + 1) (8 * sizes.sum : Nat))
              l.reverse ((a : Int) + (8 * sizes.sum : Nat)) 0 with
          | .error e => .error e
          | .ok (l', reps) => .ok (reps, l')).map fun r => (r.1, r.2.reverse) := by
      intro sizes
      by_cases h0 : 8 * sizes.sum = 0
      · simp only [h0, if_true, Except.map, List.reverse_reverse]
      · simp only [h0, if_false]
        rw [byteswap_core l sizes a b repeat_ hb.2 h0]
        cases byteswapLoop .msb0 sizes (8 * sizes.sum)
              (Py.rangeLen ((a : Int) + (8 * sizes.sum : Nat)) (((if repeat_ then b else min (a + 8 * sizes.sum) b : Nat) : Int) + 1) (8 * sizes.sum : Nat))
              l.reverse ((a : Int) + (8 * sizes.sum : Nat)) 0 with
        | error e => rfl
        | ok r => rfl
    cases fmt with
    | none => exact main [(b - a) / 8]
    | some zs =>
      by_cases hneg : (zs.any (· < 0)) = true
      · simp only [hneg, if_true]; rfl
      · simp only [hneg]
        apply main

theorem fm_range_take {α} (l : List α) (a : Nat) (ha : a ≤ l.length) :
    (List.range a).filterMap (fun i => l[i]?) = l.take a := by
  apply List.ext_getElem?
  intro k
  by_cases hk : k < a
  · rw [C01.fm_range_getElem? l (fun i => i) a (fun i hi => by omega) k hk, List.getElem?_take, if_pos hk]
  · rw [List.getElem?_eq_none (by rw [C01.fm_range_length l (fun i => i) a (fun i hi => by omega)]; omega),
      List.getElem?_eq_none (by simp; omega)]

theorem fm_range_drop {α} (l : List α) (b : Nat) (hb : b ≤ l.length) :
    (List.range (l.length - b)).filterMap (fun i => l[b + i]?) = l.drop b := by
  apply List.ext_getElem?
  intro k
  by_cases hk : k < l.length - b
  · rw [C01.fm_range_getElem? l (fun i => b + i) _ (fun i hi => by omega) k hk, List.getElem?_drop]
  · rw [List.getElem?_eq_none (by rw [C01.fm_range_length l (fun i => b + i) _ (fun i hi => by omega)]; omega),
      List.getElem?_eq_none (by simp; omega)]

theorem mem_rangeList_one (a b : Nat) (i : Nat) : ((i : Int) ∈ Py.rangeList (a : Int) (b : Int) 1) ↔ (a ≤ i ∧ i < b) := by
  simp only [Py.rangeList, List.mem_map, List.mem_range, C01.rangeLen_one]
  constructor
  · rintro ⟨k, hk, h⟩; omega
  · intro h; exact ⟨i - a, by omega, by omega⟩

theorem pyDel_contig (l : Bits) (a b : Nat) (hab : a ≤ b) (hb : b ≤ l.length) :
    pyDel l ⟨some (a : Int), some (b : Int), none⟩ = .ok (l.take a ++ l.drop b) := by
  have h1 : ¬ ((1 : Int) < 0) := by omega
  have h2 : ¬ ((a : Int) < 0) := by omega
  have h3 : ¬ ((b : Int) < 0) := by omega
  simp only [pyDel, Option.getD_none, Py.sliceIndices, h1, h2, h3, if_false]
  have e1 : min (a : Int) (l.length : Int) = (a : Int) := by omega
  have e2 : min (b : Int) (l.length : Int) = (b : Int) := by omega
  simp only [e1, e2, show ((1 : Int) = 0) = False by simp, if_false]
  congr 1
  have hn : l.length = a + ((b - a) + (l.length - b)) := by omega
  conv => lhs; rw [hn]
  rw [List.range_add, List.filterMap_append, List.range_add, List.map_append, List.filterMap_append]
  have p1 : (List.range a).filterMap (fun (i : Nat) => if (i : Int) ∈ Py.rangeList (a : Int) (b : Int) 1 then none else l[i]?)
      = l.take a := by
    rw [← fm_range_take l a (by omega)]
    apply List.filterMap_congr
    intro i hi
    simp only [List.mem_range] at hi
    have : ¬ ((i : Int) ∈ Py.rangeList (a : Int) (b : Int) 1) := by rw [mem_rangeList_one]; omega
    simp only [this, if_false]
  have p2 : ((List.range (b - a)).map (a + ·)).filterMap (fun (i : Nat) => if (i : Int) ∈ Py.rangeList (a : Int) (b : Int) 1 then none else l[i]?)
      = [] := by
    rw [List.filterMap_eq_nil_iff]
    intro i hi
    simp only [List.mem_map, List.mem_range] at hi
    obtain ⟨k, hk, rfl⟩ := hi
    have : ((a + k : Nat) : Int) ∈ Py.rangeList (a : Int) (b : Int) 1 := by rw [mem_rangeList_one]; omega
    simp only [this, if_true]
  have p3 : (((List.range (l.length - b)).map ((b - a) + ·)).map (a + ·)).filterMap
      (fun (i : Nat) => if (i : Int) ∈ Py.rangeList (a : Int) (b : Int) 1 then none else l[i]?) = l.drop b := by
    rw [← fm_range_drop l b hb, List.map_map, List.filterMap_map]
    apply List.filterMap_congr
    intro i hi
    simp only [List.mem_range] at hi
    simp only [Function.comp]
    have e : a + (b - a + i) = b + i := by omega
    rw [e]
    have : ¬ (((b + i : Nat) : Int) ∈ Py.rangeList (a : Int) (b : Int) 1) := by rw [mem_rangeList_one]; omega
    simp only [this, if_false]
  rw [p1, p2, p3, List.nil_append]


theorem validateSlice_none (n : Nat) : validateSlice n none none = .ok (0, n) := by
  simp [validateSlice]

theorem slice_msb0_valid (l : Bits) (a b : Nat) (hab : a ≤ b) (hb : b ≤ l.length) :
    slice_ .msb0 l (a : Int) (b : Int) = .ok ((l.drop a).take (b - a)) := by
  simp only [slice_, getslice, getsliceMsb0, sliceStep1_some_some l a b hab hb]

theorem delete_msb0_valid (l : Bits) (k a : Nat) (hb : a + k ≤ l.length) :
    delete_ .msb0 l (k : Int) (a : Int) = .ok (l.take a ++ l.drop (a + k)) := by
  have hc : ((a : Int) + (k : Int)) = ((a + k : Nat) : Int) := by omega
  simp only [delete_, delitemSlice, hc]
  exact pyDel_contig l a (a + k) (by omega) hb

theorem insert_msb0_valid (l v : Bits) (a : Nat) (ha : a ≤ l.length) :
    insert_ .msb0 l v (a : Int) = .ok (l.take a ++ v ++ l.drop a) := by
  simp only [insert_, setitemSlice]
  exact pySet_contig l a a (by omega) ha v

theorem rolBody_msb0_whole (l : Bits) (bits : Nat) (h : l ≠ []) :
    rolBody .msb0 l bits none none = .ok (l.drop (bits % l.length) ++ l.take (bits % l.length)) := by
  have hlen : l.length ≠ 0 := fun hh => h (List.length_eq_zero_iff.mp hh)
  have hk : bits % l.length < l.length := Nat.mod_lt _ (by omega)
  unfold rolBody
  rw [validateSlice_none]
  simp only [Nat.sub_zero, hlen, if_false]
  by_cases h0 : bits % l.length = 0
  · simp [h0]
  · simp only [h0, if_false]
    have c1 : ((0 : Nat) : Int) + ((bits % l.length : Nat) : Int) = ((bits % l.length : Nat) : Int) := by omega
    have c2 : ((l.length : Nat) : Int) - ((bits % l.length : Nat) : Int) = ((l.length - bits % l.length : Nat) : Int) := by omega
    rw [c1, c2, slice_msb0_valid l 0 _ (by omega) (by omega)]
    simp only []
    rw [delete_msb0_valid l _ 0 (by omega)]
    simp only []
    rw [insert_msb0_valid _ _ _ (by simp)]
    have e : bits % l.length + (l.length - bits % l.length) = l.length := by omega
    simp only [List.take_zero, List.nil_append, Nat.zero_add, List.drop_drop, e, List.drop_length, List.append_nil]
    rw [List.take_of_length_le (by simp)]
    simp

theorem rorBody_msb0_whole (l : Bits) (bits : Nat) (h : l ≠ []) :
    rorBody .msb0 l bits none none
      = .ok (l.drop (l.length - bits % l.length) ++ l.take (l.length - bits % l.length)) := by
  have hlen : l.length ≠ 0 := fun hh => h (List.length_eq_zero_iff.mp hh)
  have hk : bits % l.length < l.length := Nat.mod_lt _ (by omega)
  unfold rorBody
  rw [validateSlice_none]
  simp only [Nat.sub_zero, hlen, if_false]
  by_cases h0 : bits % l.length = 0
  · simp [h0]
  · simp only [h0, if_false]
    have c2 : ((l.length : Nat) : Int) - ((bits % l.length : Nat) : Int) = ((l.length - bits % l.length : Nat) : Int) := by omega
    rw [c2, slice_msb0_valid l _ _ (by omega) (by omega)]
    simp only []
    rw [delete_msb0_valid l _ _ (by omega)]
    simp only []
    rw [insert_msb0_valid _ _ 0 (by omega)]
    have e : l.length - bits % l.length + bits % l.length = l.length := by omega
    simp only [List.take_zero, List.nil_append, List.drop_zero, e, List.drop_length, List.append_nil]
    rw [List.take_of_length_le (by simp)]

theorem rotateLeft_eq (l : Bits) (bits : Nat) (h : l ≠ []) :
    l.rotateLeft bits = l.drop (bits % l.length) ++ l.take (bits % l.length) := by
  unfold List.rotateLeft
  simp only []
  by_cases h1 : l.length ≤ 1
  · have hlen : l.length = 1 := by
      have : l.length ≠ 0 := fun hh => h (List.length_eq_zero_iff.mp hh)
      omega
    simp [hlen, Nat.mod_one]
  · simp only [h1, if_false]

theorem rol_whole (l : Bits) (bits : Nat) (h : l ≠ []) :
    rolOp .lsb0 l bits none none = .ok (l.rotateLeft bits) ∧ rolOp .msb0 l bits none none = .ok (l.rotateLeft bits) := by
  have hlen : l.length ≠ 0 := fun hh => h (List.length_eq_zero_iff.mp hh)
  have hk : bits % l.length < l.length := Nat.mod_lt _ (by omega)
  have hneg : ¬ ((bits : Int) < 0) := by omega
  rw [rotateLeft_eq l bits h]
  constructor
  · simp only [rolOp, hlen, hneg, if_false, Int.toNat_natCast]
    rw [rorBody_mirror, rorBody_msb0_whole l.reverse bits (by simpa using h)]
    simp only [Except.map, List.length_reverse, List.reverse_append, List.reverse_take, List.reverse_drop,
      List.reverse_reverse]
    congr 2
    · congr 1; omega
    · congr 1; omega
  · simp only [rolOp, hlen, hneg, if_false, Int.toNat_natCast]
    exact rolBody_msb0_whole l bits h


end BM.C12
