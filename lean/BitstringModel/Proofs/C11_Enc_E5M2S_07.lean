/- Kernel obligation: entries 0x7000..0x7fff of the live float16->code table `Gen.encE5M2S` pass `encChk`
   (one sixteenth of the table per file so that lake checks them in parallel; depends only on the specification and on
   this table; assembled in Proofs/C11_Tables.lean). -/
import BitstringModel.Model.C11_Spec
import BitstringModel.Gen.LutEncE5M2S
namespace BM.C11
theorem encChunk_E5M2S_07 : encChunkOkT Gen.encE5M2S Fmt.e5m2 .saturate 7 = true := by decide +kernel
end BM.C11
