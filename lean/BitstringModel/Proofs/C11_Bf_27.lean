/- Kernel obligation: `bfChk` (Proofs/C11_NumDefs.lean) on the 16-bit patterns 0x6c00..0x6fff. -/
import BitstringModel.Proofs.C11_NumDefs
namespace BM.C11
theorem bfChunk_27 : bfChunkOk 27 = true := by decide +kernel
end BM.C11
