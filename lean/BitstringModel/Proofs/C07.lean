/-
  Proofs/C07.lean — helper lemmas for Props/C07.lean (scan = brute force, bytes ↔ bits, fast-path loop).
-/
import BitstringModel.Model.C07
import BitstringModel.Proofs.Basic
import BitstringModel.Proofs.C01
import Mathlib.Data.List.Basic
namespace BM.C07
open BM

/-- Two strictly increasing lists with the same members are equal. -/
theorem sorted_ext : ∀ (l₁ l₂ : List Nat), l₁.Pairwise (· < ·) → l₂.Pairwise (· < ·) →
    (∀ a, a ∈ l₁ ↔ a ∈ l₂) → l₁ = l₂
  | [], [], _, _, _ => rfl
  | [], b :: l₂, _, _, h => by have := (h b).2 (by simp); simp at this
  | a :: l₁, [], _, _, h => by have := (h a).1 (by simp); simp at this
  | a :: l₁, b :: l₂, h1, h2, h => by
    rw [List.pairwise_cons] at h1 h2
    have hab : a = b := by
      have ha := (h a).1 (by simp)
      have hb := (h b).2 (by simp)
      rw [List.mem_cons] at ha hb
      rcases ha with ha | ha
      · exact ha
      · rcases hb with hb | hb
        · exact hb.symm
        · have := h1.1 b hb; have := h2.1 a ha; omega
    subst hab
    congr 1
    apply sorted_ext l₁ l₂ h1.2 h2.2
    intro x
    constructor
    · intro hx
      have := (h x).1 (List.mem_cons_of_mem _ hx)
      rw [List.mem_cons] at this
      rcases this with rfl | this
      · have := h1.1 x hx; omega
      · exact this
    · intro hx
      have := (h x).2 (List.mem_cons_of_mem _ hx)
      rw [List.mem_cons] at this
      rcases this with rfl | this
      · have := h2.1 x hx; omega
      · exact this

theorem mem_occG {α} [DecidableEq α] (data pat : List α) (s e p : Nat) :
    p ∈ occG data pat s e ↔ s ≤ p ∧ p + pat.length ≤ e ∧ (data.drop p).take pat.length = pat := by
  simp only [occG, matchAt, List.mem_filter, List.mem_range, Bool.and_eq_true, decide_eq_true_eq]
  constructor
  · rintro ⟨_, ⟨h1, h2⟩, h3⟩; exact ⟨h1, h2, h3⟩
  · rintro ⟨h1, h2, h3⟩; exact ⟨by omega, ⟨h1, h2⟩, h3⟩

theorem occG_sorted {α} [DecidableEq α] (data pat : List α) (s e : Nat) :
    (occG data pat s e).Pairwise (· < ·) :=
  List.Pairwise.filter _ List.pairwise_lt_range

theorem mem_occ (data pat : Bits) (s e : Nat) (al : Bool) (p : Nat) :
    p ∈ occ data pat s e al ↔
      s ≤ p ∧ p + pat.length ≤ e ∧ (data.drop p).take pat.length = pat ∧ (al = true → p % 8 = 0) := by
  simp only [occ, List.mem_filter, mem_occG, Bool.or_eq_true, Bool.not_eq_true', beq_iff_eq]
  constructor
  · rintro ⟨⟨h1, h2, h3⟩, h4⟩
    refine ⟨h1, h2, h3, ?_⟩
    intro hal; rcases h4 with h4 | h4
    · simp [hal] at h4
    · exact h4
  · rintro ⟨h1, h2, h3, h4⟩
    refine ⟨⟨h1, h2, h3⟩, ?_⟩
    cases al
    · left; rfl
    · right; exact h4 rfl

theorem occ_sorted' (data pat : Bits) (s e : Nat) (al : Bool) : (occ data pat s e al).Pairwise (· < ·) :=
  List.Pairwise.filter _ (occG_sorted data pat s e)

theorem occ_false (data pat : Bits) (s e : Nat) : occ data pat s e false = occG data pat s e := by
  simp [occ]

/-! scan -/
theorem isPrefixOf_iff_take {α} [DecidableEq α] (pat l : List α) :
    pat.isPrefixOf l = true ↔ l.take pat.length = pat := by
  rw [List.isPrefixOf_iff_prefix, List.prefix_iff_eq_take]
  exact eq_comm

theorem scan_ge {α} [DecidableEq α] (pat : List α) (hi : Nat) : ∀ (l : List α) (p q : Nat),
    q ∈ scan pat hi l p → p ≤ q
  | [], p, q, h => by
    simp only [scan] at h
    split at h
    · simp at h; omega
    · simp at h
  | x :: t, p, q, h => by
    simp only [scan] at h
    split at h
    · split at h
      · rw [List.mem_cons] at h
        rcases h with h | h
        · omega
        · have := scan_ge pat hi t (p + 1) q h; omega
      · have := scan_ge pat hi t (p + 1) q h; omega
    · simp at h

theorem scan_sorted {α} [DecidableEq α] (pat : List α) (hi : Nat) : ∀ (l : List α) (p : Nat),
    (scan pat hi l p).Pairwise (· < ·)
  | [], p => by
    simp only [scan]; split <;> simp
  | x :: t, p => by
    simp only [scan]
    split
    · split
      · rw [List.pairwise_cons]
        refine ⟨?_, scan_sorted pat hi t (p + 1)⟩
        intro q hq
        have := scan_ge pat hi t (p + 1) q hq; omega
      · exact scan_sorted pat hi t (p + 1)
    · simp

theorem scan_mem {α} [DecidableEq α] (pat : List α) (hi : Nat) : ∀ (l : List α) (p q : Nat),
    q ∈ scan pat hi l p ↔
      p ≤ q ∧ q + pat.length ≤ hi ∧ q ≤ p + l.length ∧ (l.drop (q - p)).take pat.length = pat
  | [], p, q => by
    simp only [scan]
    split
    · rename_i h
      simp only [List.mem_singleton, List.length_nil, List.drop_nil, List.take_nil]
      constructor
      · rintro rfl; exact ⟨by omega, h.1, by omega, h.2.symm⟩
      · rintro ⟨h1, _, h3, _⟩; omega
    · rename_i h
      simp only [List.not_mem_nil, List.length_nil, List.drop_nil, List.take_nil, false_iff]
      rintro ⟨h1, h2, h3, h4⟩
      apply h
      have : q = p := by omega
      subst this
      exact ⟨h2, h4.symm⟩
  | x :: t, p, q => by
    have ih := scan_mem pat hi t (p + 1) q
    simp only [scan]
    by_cases hhi : p + pat.length ≤ hi
    · simp only [hhi, if_true]
      have key : (q ∈ scan pat hi t (p + 1) ↔
          p + 1 ≤ q ∧ q + pat.length ≤ hi ∧ q ≤ p + (x :: t).length ∧
            ((x :: t).drop (q - p)).take pat.length = pat) := by
        rw [ih]
        constructor
        · rintro ⟨h1, h2, h3, h4⟩
          refine ⟨h1, h2, by simp; omega, ?_⟩
          have : q - p = (q - (p + 1)) + 1 := by omega
          rw [this, List.drop_succ_cons]; exact h4
        · rintro ⟨h1, h2, h3, h4⟩
          refine ⟨h1, h2, by simp at h3; omega, ?_⟩
          have : q - p = (q - (p + 1)) + 1 := by omega
          rw [this, List.drop_succ_cons] at h4; exact h4
      by_cases hpre : pat.isPrefixOf (x :: t) = true
      · simp only [hpre, if_true, List.mem_cons, key]
        rw [isPrefixOf_iff_take] at hpre
        constructor
        · rintro (rfl | ⟨h1, h2, h3, h4⟩)
          · refine ⟨by omega, hhi, by omega, ?_⟩
            simpa using hpre
          · exact ⟨by omega, h2, h3, h4⟩
        · rintro ⟨h1, h2, h3, h4⟩
          by_cases hq : q = p
          · left; exact hq
          · right; exact ⟨by omega, h2, h3, h4⟩
      · simp only [hpre, if_false, Bool.false_eq_true, key]
        rw [isPrefixOf_iff_take] at hpre
        constructor
        · rintro ⟨h1, h2, h3, h4⟩; exact ⟨by omega, h2, h3, h4⟩
        · rintro ⟨h1, h2, h3, h4⟩
          by_cases hq : q = p
          · subst hq; simp at h4; exact absurd h4 hpre
          · exact ⟨by omega, h2, h3, h4⟩
    · simp only [hhi, if_false, List.not_mem_nil, false_iff]
      rintro ⟨h1, h2, _, _⟩; omega

theorem scan_eq_occG' {α} [DecidableEq α] (data pat : List α) (s e : Nat) (he : e ≤ data.length) :
    scan pat e (data.drop s) s = occG data pat s e := by
  apply sorted_ext _ _ (scan_sorted _ _ _ _) (occG_sorted _ _ _ _)
  intro q
  rw [scan_mem, mem_occG, List.drop_drop, List.length_drop]
  constructor
  · rintro ⟨h1, h2, h3, h4⟩
    refine ⟨h1, h2, ?_⟩
    have : s + (q - s) = q := by omega
    rw [this] at h4; exact h4
  · rintro ⟨h1, h2, h3⟩
    refine ⟨h1, h2, by omega, ?_⟩
    have : s + (q - s) = q := by omega
    rw [this]; exact h3

/-! toBytes -/
theorem toBytesAux_fuel : ∀ (f1 f2 : Nat) (l : Bits), l.length ≤ f1 → l.length ≤ f2 →
    toBytesAux f1 l = toBytesAux f2 l
  | 0, f2, l, h1, _ => by
    have : l = [] := List.length_eq_zero_iff.mp (by omega)
    subst this
    cases f2 <;> simp [toBytesAux]
  | f1 + 1, 0, l, _, h2 => by
    have : l = [] := List.length_eq_zero_iff.mp (by omega)
    subst this
    simp [toBytesAux]
  | f1 + 1, f2 + 1, l, h1, h2 => by
    simp only [toBytesAux]
    split
    · rfl
    · rename_i hne
      congr 1
      have hl : l.length ≠ 0 := by
        intro h0; apply hne; simp [List.length_eq_zero_iff.mp h0]
      apply toBytesAux_fuel f1 f2
      · rw [List.length_drop]; omega
      · rw [List.length_drop]; omega

theorem byteVal_eight (x : Bits) (h : x.length = 8) : byteVal x = bitsToNat x := by
  simp [byteVal, h]

theorem toBytes_nil : toBytes [] = [] := rfl

theorem toBytes_cons8 (x r : Bits) (h : x.length = 8) : toBytes (x ++ r) = bitsToNat x :: toBytes r := by
  unfold toBytes
  have hl : (x ++ r).length = (7 + r.length) + 1 := by simp [h]; omega
  rw [hl]
  simp only [toBytesAux]
  have hne : (x ++ r).isEmpty = false := by
    cases x with
    | nil => simp at h
    | cons a t => rfl
  simp only [hne, Bool.false_eq_true, if_false]
  have ht : (x ++ r).take 8 = x := by rw [← h]; exact List.take_left' rfl
  have hd : (x ++ r).drop 8 = r := by rw [← h]; exact List.drop_left' rfl
  rw [ht, hd, byteVal_eight x h]
  congr 1
  exact toBytesAux_fuel _ _ r (by omega) (by omega)

/-- decomposition of a list of 8(k+1) bits -/
theorem split8 (l : Bits) (k : Nat) (h : l.length = 8 * (k + 1)) :
    l = l.take 8 ++ l.drop 8 ∧ (l.take 8).length = 8 ∧ (l.drop 8).length = 8 * k := by
  refine ⟨(List.take_append_drop 8 l).symm, ?_, ?_⟩
  · rw [List.length_take]; omega
  · rw [List.length_drop]; omega

theorem toBytes_length : ∀ (k : Nat) (l : Bits), l.length = 8 * k → (toBytes l).length = k
  | 0, l, h => by
    have : l = [] := List.length_eq_zero_iff.mp (by omega)
    subst this; rfl
  | k + 1, l, h => by
    obtain ⟨h1, h2, h3⟩ := split8 l k h
    rw [h1, toBytes_cons8 _ _ h2, List.length_cons, toBytes_length k _ h3]

theorem toBytes_drop : ∀ (j k : Nat) (l : Bits), l.length = 8 * k →
    (toBytes l).drop j = toBytes (l.drop (8 * j))
  | 0, _, l, _ => by simp
  | j + 1, 0, l, h => by
    have : l = [] := List.length_eq_zero_iff.mp (by omega)
    subst this; simp [toBytes_nil]
  | j + 1, k + 1, l, h => by
    obtain ⟨h1, h2, h3⟩ := split8 l k h
    have hd : l.drop (8 * (j + 1)) = (l.drop 8).drop (8 * j) := by
      rw [List.drop_drop]; congr 1; omega
    rw [hd]
    conv => lhs; rw [h1, toBytes_cons8 _ _ h2]
    rw [List.drop_succ_cons]
    exact toBytes_drop j k _ h3

theorem toBytes_take : ∀ (m k : Nat) (l : Bits), l.length = 8 * k →
    (toBytes l).take m = toBytes (l.take (8 * m))
  | 0, _, l, _ => by simp [toBytes_nil]
  | m + 1, 0, l, h => by
    have : l = [] := List.length_eq_zero_iff.mp (by omega)
    subst this; simp [toBytes_nil]
  | m + 1, k + 1, l, h => by
    obtain ⟨h1, h2, h3⟩ := split8 l k h
    have ht : l.take (8 * (m + 1)) = l.take 8 ++ (l.drop 8).take (8 * m) := by
      conv => lhs; rw [h1]
      rw [List.take_append, h2]
      have : 8 * (m + 1) - 8 = 8 * m := by omega
      rw [this]
      congr 1
      rw [List.take_take]
      congr 1
      omega
    rw [ht, toBytes_cons8 _ _ h2]
    conv => lhs; rw [h1, toBytes_cons8 _ _ h2]
    rw [List.take_succ_cons]
    congr 1
    exact toBytes_take m k _ h3

theorem bitsToNat_inj (x y : Bits) (h : x.length = y.length) (hv : bitsToNat x = bitsToNat y) : x = y := by
  rw [← natToBits_bitsToNat x, ← natToBits_bitsToNat y, h, hv]

theorem toBytes_inj : ∀ (k : Nat) (a b : Bits), a.length = 8 * k → b.length = 8 * k →
    toBytes a = toBytes b → a = b
  | 0, a, b, ha, hb, _ => by
    have h1 : a = [] := List.length_eq_zero_iff.mp (by omega)
    have h2 : b = [] := List.length_eq_zero_iff.mp (by omega)
    rw [h1, h2]
  | k + 1, a, b, ha, hb, h => by
    obtain ⟨a1, a2, a3⟩ := split8 a k ha
    obtain ⟨b1, b2, b3⟩ := split8 b k hb
    rw [a1, b1, toBytes_cons8 _ _ a2, toBytes_cons8 _ _ b2] at h
    injection h with hh ht
    rw [a1, b1, bitsToNat_inj _ _ (by rw [a2, b2]) hh, toBytes_inj k _ _ a3 b3 ht]

theorem toBytes_whole' : ∀ (k : Nat) (l : Bits), l.length = 8 * k →
    toBytes l = (List.range k).map fun j => bitsToNat (slice l (8 * j) (8 * j + 8))
  | 0, l, h => by
    have : l = [] := List.length_eq_zero_iff.mp (by omega)
    subst this; rfl
  | k + 1, l, h => by
    obtain ⟨h1, h2, h3⟩ := split8 l k h
    rw [List.range_succ_eq_map, List.map_cons, List.map_map]
    conv => lhs; rw [h1, toBytes_cons8 _ _ h2, toBytes_whole' k _ h3]
    congr 1
    apply List.map_congr_left
    intro j _
    simp only [Function.comp, slice, List.drop_drop]
    have e1 : 8 + 8 * j = 8 * (j + 1) := by omega
    have e2 : 8 * j + 8 - 8 * j = 8 * (j + 1) + 8 - 8 * (j + 1) := by omega
    rw [e1, e2]

theorem chunk8_match_iff' (w pat : Bits) (j : Nat) (hw : 8 ∣ w.length) (hp : 8 ∣ pat.length) :
    matchAt (toBytes w) (toBytes pat) j = matchAt w pat (8 * j) := by
  obtain ⟨n, hn⟩ := hw
  obtain ⟨m, hm⟩ := hp
  unfold matchAt
  rw [toBytes_length m pat hm, toBytes_drop j n w hn]
  have hdl : (w.drop (8 * j)).length = 8 * (n - j) := by rw [List.length_drop]; omega
  rw [toBytes_take m (n - j) _ hdl, hm]
  have htl : ((w.drop (8 * j)).take (8 * m)).length = 8 * (min m (n - j)) := by
    rw [List.length_take, hdl]; omega
  by_cases hle : m ≤ n - j
  · have : min m (n - j) = m := by omega
    rw [this] at htl
    congr 1
    apply propext
    constructor
    · exact toBytes_inj m _ _ htl hm
    · intro h; rw [h]
  · -- the window is too short on both sides
    have h1 : ¬ (toBytes ((w.drop (8 * j)).take (8 * m)) = toBytes pat) := by
      intro h
      have := congrArg List.length h
      rw [toBytes_length _ _ htl, toBytes_length m pat hm] at this
      omega
    have h2 : ¬ ((w.drop (8 * j)).take (8 * m) = pat) := by
      intro h
      have := congrArg List.length h
      rw [htl, hm] at this
      omega
    simp [h1, h2]

theorem window_lemma' (s e p m : Nat) (hp : 8 ∣ p) (hm : 8 ∣ m) :
    (s ≤ p ∧ p + m ≤ e) ↔ (8 * ((s + 7) / 8) ≤ p ∧ p + m ≤ 8 * (e / 8)) := by
  omega

theorem head?_le_of_sorted (l : List Nat) (hs : l.Pairwise (· < ·)) (j : Nat) (h : l.head? = some j) :
    j ∈ l ∧ ∀ q ∈ l, j ≤ q := by
  cases l with
  | nil => simp at h
  | cons a t =>
    simp only [List.head?_cons, Option.some.injEq] at h
    subst h
    rw [List.pairwise_cons] at hs
    refine ⟨by simp, ?_⟩
    intro q hq
    rw [List.mem_cons] at hq
    rcases hq with rfl | hq
    · omega
    · have := hs.1 q hq; omega

theorem occG_head_cons {α} [DecidableEq α] (data pat : List α) (s e j : Nat)
    (h : (occG data pat s e).head? = some j) :
    occG data pat s e = j :: occG data pat (j + 1) e := by
  obtain ⟨hj, hmin⟩ := head?_le_of_sorted _ (occG_sorted data pat s e) j h
  have hj' := (mem_occG data pat s e j).1 hj
  apply sorted_ext _ _ (occG_sorted _ _ _ _)
  · rw [List.pairwise_cons]
    refine ⟨?_, occG_sorted _ _ _ _⟩
    intro q hq
    have := (mem_occG data pat (j + 1) e q).1 hq
    omega
  · intro q
    rw [List.mem_cons, mem_occG, mem_occG]
    constructor
    · rintro ⟨h1, h2, h3⟩
      have := hmin q ((mem_occG data pat s e q).2 ⟨h1, h2, h3⟩)
      by_cases hq : q = j
      · left; exact hq
      · right; exact ⟨by omega, h2, h3⟩
    · rintro (rfl | ⟨h1, h2, h3⟩)
      · exact hj'
      · exact ⟨by omega, h2, h3⟩

theorem bytesFind_spec' (b sub : List Nat) (k : Nat) :
    bytesFind b sub k = (occG b sub k b.length).head? := by
  unfold bytesFind
  rw [scan_eq_occG' b sub k b.length (Nat.le_refl _)]

/-- the fast-path loop enumerates the byte-level occurrences from `bytePos` on -/
theorem fastLoop_eq (b sub : List Nat) (sb : Nat) (hsub : sub ≠ []) :
    ∀ (fuel bytePos : Nat), b.length - bytePos < fuel →
      fastLoop b sub sb b.length fuel bytePos = (occG b sub bytePos b.length).map fun j => (j + sb) * 8
  | 0, _, h => by omega
  | fuel + 1, bytePos, h => by
    simp only [fastLoop]
    have hlen : 0 < sub.length := List.length_pos_iff.mpr hsub
    by_cases hlt : bytePos < b.length
    · simp only [hlt, if_true]
      rw [bytesFind_spec']
      cases hh : (occG b sub bytePos b.length).head? with
      | none =>
        rw [List.head?_eq_none_iff] at hh
        simp [hh]
      | some j =>
        have hc := occG_head_cons b sub bytePos b.length j hh
        have hj := (mem_occG b sub bytePos b.length j).1 (by rw [hc]; simp)
        simp only
        rw [hc, List.map_cons]
        congr 1
        exact fastLoop_eq b sub sb hsub fuel (j + 1) (by omega)
    · simp only [hlt, if_false]
      symm
      rw [List.map_eq_nil_iff, List.eq_nil_iff_forall_not_mem]
      intro q hq
      have := (mem_occG b sub bytePos b.length q).1 hq
      omega

theorem slice_length {α} (data : List α) (a b : Nat) (hb : b ≤ data.length) :
    (slice data a b).length = b - a := by
  simp only [slice, List.length_take, List.length_drop]; omega

/-- matching inside a window = matching in the data, shifted -/
theorem matchAt_slice {α} [DecidableEq α] (data pat : List α) (a b t : Nat) (h : t + pat.length ≤ b - a) :
    matchAt (slice data a b) pat t = matchAt data pat (a + t) := by
  unfold matchAt slice
  rw [List.drop_take, List.take_take, List.drop_drop]
  have : min pat.length (b - a - t) = pat.length := by omega
  rw [this]

theorem matchAt_iff {α} [DecidableEq α] (data pat : List α) (p : Nat) :
    matchAt data pat p = true ↔ (data.drop p).take pat.length = pat := by
  simp [matchAt]

theorem fastpath_eq_occ' (data pat : Bits) (s e : Nat) (hne : pat ≠ []) (h8 : 8 ∣ pat.length)
    (he : e ≤ data.length) :
    findallFast data pat s e = occ data pat s e true := by
  obtain ⟨m, hm⟩ := h8
  have hm0 : 0 < m := by
    have := List.length_pos_iff.mpr hne; omega
  unfold findallFast
  simp only
  generalize hsb : (s + 7) / 8 = sb
  generalize heb : e / 8 = eb
  have hwl : (slice data (sb * 8) (eb * 8)).length = 8 * (eb - sb) := by
    rw [slice_length _ _ _ (by omega)]; omega
  have hbl : (toBytes (slice data (sb * 8) (eb * 8))).length = eb - sb := toBytes_length _ _ hwl
  have hsubl : (toBytes pat).length = m := toBytes_length _ _ hm
  have hsub : toBytes pat ≠ [] := by
    intro h; rw [h] at hsubl; simp at hsubl; omega
  have hloop := fastLoop_eq (toBytes (slice data (sb * 8) (eb * 8))) (toBytes pat) sb hsub (eb - sb + 1) 0
    (by rw [hbl]; omega)
  rw [hbl] at hloop
  rw [hloop]
  apply sorted_ext _ _ _ (occ_sorted' _ _ _ _ _)
  · intro x
    rw [List.mem_map, mem_occ]
    constructor
    · rintro ⟨j, hj, rfl⟩
      rw [mem_occG, hsubl] at hj
      obtain ⟨_, hj2, hj3⟩ := hj
      have hmatch : matchAt (toBytes (slice data (sb * 8) (eb * 8))) (toBytes pat) j = true := by
        rw [matchAt_iff, hsubl]; exact hj3
      rw [chunk8_match_iff' _ _ _ ⟨_, hwl⟩ ⟨_, hm⟩, matchAt_slice _ _ _ _ _ (by omega), matchAt_iff] at hmatch
      have hx : sb * 8 + 8 * j = (j + sb) * 8 := by omega
      rw [hx] at hmatch
      refine ⟨by omega, by omega, hmatch, ?_⟩
      intro _; omega
    · rintro ⟨h1, h2, h3, h4⟩
      have h4 := h4 rfl
      refine ⟨x / 8 - sb, ?_, by omega⟩
      rw [mem_occG, hsubl]
      refine ⟨by omega, by omega, ?_⟩
      have hmatch : matchAt (toBytes (slice data (sb * 8) (eb * 8))) (toBytes pat) (x / 8 - sb) = true := by
        rw [chunk8_match_iff' _ _ _ ⟨_, hwl⟩ ⟨_, hm⟩, matchAt_slice _ _ _ _ _ (by omega), matchAt_iff]
        have hx : sb * 8 + 8 * (x / 8 - sb) = x := by omega
        rw [hx]; exact h3
      rw [matchAt_iff, hsubl] at hmatch
      exact hmatch
  · rw [List.pairwise_map]
    exact List.Pairwise.imp (fun {a b} (h : a < b) => by omega) (occG_sorted _ _ _ _)

theorem baSearch_eq_occ' (data pat : Bits) (s e : Nat) (he : e ≤ data.length) :
    baSearch data pat s e = occ data pat s e false := by
  rw [occ_false]; exact scan_eq_occG' data pat s e he

theorem occ_true_filter (data pat : Bits) (s e : Nat) :
    occ data pat s e true = (occ data pat s e false).filter fun p => p % 8 == 0 := by
  simp [occ]

theorem general_eq_occ' (data pat : Bits) (s e : Nat) (al : Bool) (he : e ≤ data.length)
    (hgen : al = false ∨ pat.length % 8 ≠ 0) :
    findallMsb0 data pat s e al = occ data pat s e al := by
  unfold findallMsb0
  have hc : (al && pat.length % 8 == 0) = false := by
    rcases hgen with h | h
    · simp [h]
    · simp [h]
  rw [hc]
  simp only [Bool.false_eq_true, if_false, baSearch_eq_occ' data pat s e he]
  cases al
  · simp
  · simp [occ_true_filter]

theorem findallMsb0_eq_occ' (data pat : Bits) (s e : Nat) (al : Bool) (hne : pat ≠ []) (he : e ≤ data.length) :
    findallMsb0 data pat s e al = occ data pat s e al := by
  by_cases hgen : al = false ∨ pat.length % 8 ≠ 0
  · exact general_eq_occ' data pat s e al he hgen
  · have hal : al = true := by cases al <;> simp_all
    have h8 : pat.length % 8 = 0 := by
      by_contra h; exact hgen (Or.inr h)
    subst hal
    unfold findallMsb0
    simp only [Bool.true_and, h8, beq_self_eq_true, if_true]
    exact fastpath_eq_occ' data pat s e hne (Nat.dvd_of_mod_eq_zero h8) he

theorem rfindallMsb0_eq_occ' (data pat : Bits) (s e : Nat) (al : Bool) (he : e ≤ data.length) :
    rfindallMsb0 data pat s e al = (occ data pat s e al).reverse := by
  unfold rfindallMsb0
  simp only [baSearch_eq_occ' data pat s e he]
  cases al
  · simp
  · simp [occ_true_filter, List.filter_reverse]

theorem storeFind_eq' (data pat : Bits) (s e : Nat) (al : Bool) (hne : pat ≠ []) (he : e ≤ data.length) :
    storeFind data pat s e al = specFind data pat s e al := by
  unfold storeFind specFind
  cases al
  · simp [baFind, baSearch_eq_occ' data pat s e he]
  · simp [findallMsb0_eq_occ' data pat s e true hne he]

theorem storeRfind_eq' (data pat : Bits) (s e : Nat) (al : Bool) (he : e ≤ data.length) :
    storeRfind data pat s e al = specRfind data pat s e al := by
  unfold storeRfind specRfind
  cases al
  · simp [baFind, baSearch_eq_occ' data pat s e he]
  · simp [rfindallMsb0_eq_occ' data pat s e true he, List.head?_reverse]

theorem head?_some_iff_sorted (l : List Nat) (hs : l.Pairwise (· < ·)) (p : Nat) :
    l.head? = some p ↔ (p ∈ l ∧ ∀ q ∈ l, p ≤ q) := by
  constructor
  · exact head?_le_of_sorted l hs p
  · rintro ⟨hp, hmin⟩
    cases l with
    | nil => simp at hp
    | cons a t =>
      rw [List.pairwise_cons] at hs
      simp only [List.head?_cons, Option.some.injEq]
      rw [List.mem_cons] at hp
      rcases hp with rfl | hp
      · rfl
      · have h1 := hs.1 p hp
        have h2 := hmin a (by simp)
        omega

theorem getLast?_some_iff_sorted (l : List Nat) (hs : l.Pairwise (· < ·)) (p : Nat) :
    l.getLast? = some p ↔ (p ∈ l ∧ ∀ q ∈ l, q ≤ p) := by
  rw [← List.head?_reverse]
  have hs' : l.reverse.Pairwise (· > ·) := by
    rw [List.pairwise_reverse]; exact hs
  generalize hr : l.reverse = r at hs'
  have hmem : ∀ x, x ∈ l ↔ x ∈ r := by intro x; rw [← hr, List.mem_reverse]
  simp only [hmem]
  cases r with
  | nil => simp
  | cons a t =>
    rw [List.pairwise_cons] at hs'
    simp only [List.head?_cons, Option.some.injEq]
    constructor
    · rintro rfl
      refine ⟨by simp, ?_⟩
      intro q hq
      rw [List.mem_cons] at hq
      rcases hq with rfl | hq
      · omega
      · have := hs'.1 q hq; omega
    · rintro ⟨hp, hmax⟩
      rw [List.mem_cons] at hp
      rcases hp with rfl | hp
      · rfl
      · have h1 := hs'.1 p hp
        have h2 := hmax a (by simp)
        omega

/-! validate -/
theorem validate_slice_spec' (len : Nat) (start stop : Option Int) :
    validateSlice len start stop =
      match specWindow len start stop with
      | none => .error .value
      | some w => .ok w := by
  unfold validateSlice specWindow normIdx
  cases start <;> cases stop <;> simp only [] <;> split_ifs <;> rfl

theorem specWindow_some (len : Nat) (start stop : Option Int) (s e : Nat)
    (h : specWindow len start stop = some (s, e)) :
    (s : Int) = normIdx len 0 start ∧ (e : Int) = normIdx len len stop ∧ s ≤ e ∧ e ≤ len := by
  unfold specWindow at h
  simp only [] at h
  split_ifs at h with hc
  injection h with h
  injection h with h1 h2
  omega

theorem validate_slice_bounds' (len : Nat) (start stop : Option Int) (s e : Nat)
    (h : validateSlice len start stop = .ok (s, e)) : s ≤ e ∧ e ≤ len := by
  rw [validate_slice_spec'] at h
  cases hw : specWindow len start stop with
  | none => rw [hw] at h; cases h
  | some w =>
    rw [hw] at h
    injection h with h
    subst h
    have := specWindow_some len start stop s e hw
    omega

theorem validate_slice_window' {α} (l : List α) (start stop : Option Int) (s e : Nat)
    (h : validateSlice l.length start stop = .ok (s, e)) :
    Py.getSlice l start stop none = .ok (slice l s e) := by
  rw [validate_slice_spec'] at h
  cases hw : specWindow l.length start stop with
  | none => rw [hw] at h; cases h
  | some w =>
    rw [hw] at h
    injection h with h
    subst h
    obtain ⟨h1, h2, h3, h4⟩ := specWindow_some l.length start stop s e hw
    rw [C01.getSlice_step1]
    have hne : ¬ ((1 : Int) < 0) := by omega
    have hidx : Py.sliceIndices start stop 1 l.length = ((s : Int), (e : Int), 1) := by
      unfold normIdx at h1 h2
      cases start <;> cases stop <;> simp only [Py.sliceIndices, hne, if_false] <;> simp only [] at h1 h2
      · congr 1
        · omega
        · congr 1; omega
      · rename_i y
        congr 1
        · omega
        · congr 1; split at h2 <;> split <;> omega
      · rename_i x
        congr 1
        · split at h1 <;> split <;> omega
        · congr 1; omega
      · rename_i x y
        congr 1
        · split at h1 <;> split <;> omega
        · congr 1; split at h2 <;> split <;> omega
    rw [hidx]
    simp only [Int.toNat_natCast, slice]
    congr 2
    omega

theorem defaultBA_eq' (ba : Option Bool) (o : Bool) : defaultBA ba o = specAligned ba o := by
  cases ba <;> rfl

theorem findallCount_take (count : Option Nat) : ∀ (l : List Nat) (c : Nat),
    findallCount count l c = match count with
      | none => l
      | some n => l.take (n - c)
  | [], c => by cases count <;> simp [findallCount]
  | i :: rest, c => by
    cases count with
    | none =>
      simp only [findallCount]
      rw [findallCount_take none rest (c + 1)]
    | some n =>
      simp only [findallCount]
      by_cases h : n ≤ c
      · simp only [h, if_true]
        have : n - c = 0 := by omega
        rw [this]; rfl
      · simp only [h, if_false]
        rw [findallCount_take (some n) rest (c + 1)]
        have : n - c = (n - (c + 1)) + 1 := by omega
        simp only [this, List.take_succ_cons]

theorem baCountOnes_eq (data : Bits) : baCountOnes data = (data.filter (· == true)).length := by
  induction data with
  | nil => rfl
  | cons b t ih =>
    cases b
    · simp [baCountOnes, ih]
    · simp [baCountOnes, ih]; omega

theorem count_split (data : Bits) :
    (data.filter (· == true)).length + (data.filter (· == false)).length = data.length := by
  induction data with
  | nil => rfl
  | cons b t ih =>
    cases b
    · simp at ih ⊢; omega
    · simp at ih ⊢; omega

theorem negCount_false (count : Option Int) :
    (∀ c, count = some c → 0 ≤ c) →
    (match count with | some c => decide (c < 0) | none => false) = false := by
  intro hc
  cases count with
  | none => rfl
  | some c => have := hc c rfl; simp; omega

theorem findall_unfold (data pat : Bits) (start stop : Option Int) (count : Option Int) (ba : Option Bool) (optBA : Bool)
    (hc : ∀ c, count = some c → 0 ≤ c) :
    findall data pat start stop count ba optBA =
      if pat.length = 0 then .error .value else
      match validateSlice data.length start stop with
      | .error e => .error e
      | .ok (s, e) => .ok (findallCount (countNat count) (findallMsb0 data pat s e (defaultBA ba optBA)) 0) := by
  unfold findall
  cases count with
  | none =>
    simp [countNat]
    split
    · rfl
    · cases validateSlice data.length start stop <;> rfl
  | some c =>
    have := hc c rfl
    have h : ¬ c < 0 := by omega
    simp [h, countNat]
    split
    · rfl
    · cases validateSlice data.length start stop <;> rfl

end BM.C07
