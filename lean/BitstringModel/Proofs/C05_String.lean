/-
  Proofs/C05_String.lean — lifting `unpack_pack` from token lists to format strings:
  the two single-token parsers agree on plain token texts; `preprocess` of a rendered bracket tree.
-/
import BitstringModel.Model.C05
import BitstringModel.Proofs.C05_Unpack
import BitstringModel.Proofs.C05_Brackets
import BitstringModel.Props.C05

namespace BM.C05
open BM

theorem parseDigits_digits (ds : Str) (hd : ds.all Char.isDigit = true) (acc : Nat) (prev : Bool) (h : ds ≠ [] ∨ prev = true) :
    parseDigits ds acc prev = some (ds.foldl (fun a c => a * 10 + (c.toNat - 48)) acc) := by
  induction ds generalizing acc prev with
  | nil => rcases h with h | h; exact absurd rfl h; simp [parseDigits, h]
  | cons d ds ih =>
    simp only [List.all_cons, Bool.and_eq_true] at hd
    rw [parseDigits.eq_def]
    simp only [hd.1, if_true, List.foldl_cons]
    exact ih hd.2 _ true (Or.inr rfl)

theorem dropWhile_id (p : Char → Bool) (s : Str) (h : ∀ c, s.head? = some c → p c = false) : s.dropWhile p = s := by
  cases s with
  | nil => rfl
  | cons c s => simp [List.dropWhile_cons, h c rfl]

theorem stripWs_id (s : Str) (h1 : ∀ c, s.head? = some c → isPyWs c = false) (h2 : ∀ c, s.getLast? = some c → isPyWs c = false) :
    stripWs s = s := by
  unfold stripWs
  rw [dropWhile_id _ s h1, dropWhile_id _ s.reverse (by simpa using h2), List.reverse_reverse]

theorem digit_not_ws (c : Char) (h : c.isDigit = true) : isPyWs c = false := by
  obtain ⟨a, b⟩ := isDigit_toNat c h
  obtain ⟨n, h1, h2, rfl⟩ := char_cases c 48 57 a b
  interval_cases n <;> decide

/-- `int('123')` -/
theorem pyInt_digits (ds : Str) (hne : ds ≠ []) (hd : ds.all Char.isDigit = true) : pyInt? ds = some (parseNat ds : Int) := by
  have hmem : ∀ c ∈ ds, c.isDigit = true := fun c hc => List.all_eq_true.mp hd c hc
  have hs : stripWs ds = ds := stripWs_id ds
    (fun c hc => digit_not_ws c (hmem c (List.mem_of_mem_head? hc)))
    (fun c hc => digit_not_ws c (hmem c (List.mem_of_mem_getLast? hc)))
  unfold pyInt?
  rw [hs]
  cases ds with
  | nil => exact absurd rfl hne
  | cons d ds' =>
    have hd1 := hmem d (by simp)
    have h1 : d ≠ '-' := by intro e; subst e; exact absurd hd1 (by decide)
    have h2 : d ≠ '+' := by intro e; subst e; exact absurd hd1 (by decide)
    split
    · rename_i heq; simp at heq; exact absurd heq.1 h1
    · rename_i heq; simp at heq; exact absurd heq.1 h2
    · rw [parseDigits_digits _ hd 0 false (Or.inl (by simp))]; rfl

theorem keys_contains_get (kw : Kw) (k : Str) (h : (Kw.keys kw).contains k = true) : ∃ v, Kw.get? kw k = some v := by
  induction kw with
  | nil => simp [Kw.keys] at h
  | cons e kw ih =>
    by_cases he : e.1 = k
    · exact ⟨e.2, by simp [Kw.get?, List.find?_cons, he]⟩
    · have : (Kw.keys kw).contains k = true := by
        simp only [Kw.keys, List.map_cons, List.contains_cons, Bool.or_eq_true] at h ⊢
        rcases h with h | h
        · exact absurd (by simpa using h) (fun e' : k = e.1 => he e'.symm)
        · exact h
      obtain ⟨v, hv⟩ := ih this
      refine ⟨v, ?_⟩
      simp only [Kw.get?, List.find?_cons] at hv ⊢
      simp [he, hv]

theorem matchNameInt_digits (t name ds : Str) (h : matchNameInt t = some (name, ds)) : ds.all Char.isDigit = true := by
  unfold matchNameInt at h
  obtain ⟨k, -, hk⟩ := List.exists_of_findSome?_eq_some h
  simp only at hk
  split at hk
  · rename_i hc; cases hk; exact hc.2
  · cases hk

/-- the two single-token parsers agree: what `unpack` makes of a token text is the dtype of what `pack` makes of it -/
theorem tokenOf_bridge (kw : Kw) (t : Str) (tok : Tok) (s : Bool) (d : DT)
    (heq : '=' ∉ t) (hkey : kw.keys.contains t = false) (hlit : matchLiteral t = none)
    (hkwnum : ∀ name k, matchNameInt t = none → matchNameKwarg t = some (name, k) → pyInt? k = none)
    (h : tokenOf kw.keys t = .ok (some (tok, s))) (hd : tokDtype kw tok = .ok d) :
    tokenToDtype kw t = .ok d := by
  unfold tokenOf at h
  simp only [hkey, Bool.false_eq_true, and_false, if_false, hlit] at h
  split at h
  · cases h
  · unfold parseSingle at h
    rw [findChar_none _ _ heq] at h
    simp only at h
    unfold tokenToDtype parseNameLength
    cases hmi : matchNameInt t with
    | some r =>
      obtain ⟨name, ds⟩ := r
      simp only [hmi] at h ⊢
      by_cases hds : ds.isEmpty = true
      · simp only [hds, if_true, Except.ok.injEq, Option.some.injEq, Prod.mk.injEq] at h
        obtain ⟨rfl, -⟩ := h
        have hds' : ds = [] := by simpa using hds
        simpa [tokDtype, resolveLen, hds'] using hd
      · simp only [hds, Bool.false_eq_true, if_false] at h ⊢
        have hne : ds ≠ [] := by intro e; subst e; simp at hds
        rw [pyInt_digits ds hne (matchNameInt_digits t name ds hmi)] at h
        simp only [Except.ok.injEq, Option.some.injEq, Prod.mk.injEq] at h
        obtain ⟨rfl, -⟩ := h
        simpa [tokDtype, resolveLen] using hd
    | none =>
      simp only [hmi] at h ⊢
      cases hmk : matchNameKwarg t with
      | some r =>
        obtain ⟨name, k⟩ := r
        simp only [hmk] at h ⊢
        rw [hkwnum name k hmi hmk] at h
        simp only at h
        split at h
        · cases h
        · rename_i hkeys
          simp only [Except.ok.injEq, Option.some.injEq, Prod.mk.injEq] at h
          obtain ⟨rfl, -⟩ := h
          have hc : kw.keys.contains k = true := by
            by_contra hc'
            exact hkeys (Or.inr (by simpa using hc'))
          obtain ⟨v, hv⟩ := keys_contains_get kw k hc
          simp only [tokDtype, resolveLen, hv] at hd
          simp only [hv]
          cases hvi : valToInt v with
          | error e => simp [hvi, Except.map] at hd
          | ok l => simpa [hvi, Except.map] using hd
      | none =>
        simp only [hmk] at h ⊢
        cases hpi : pyInt? t with
        | none =>
          simp only [hpi] at h
          split at h
          · cases h
          · rename_i hk2
            exfalso; apply hk2; right; rw [hkey]; rfl
        | some n =>
          simp only [hpi, Except.ok.injEq, Option.some.injEq, Prod.mk.injEq] at h
          obtain ⟨rfl, -⟩ := h
          simpa [tokDtype, resolveLen] using hd

theorem mapM_cons_except {α β} (f : α → Except Err β) (a : α) (l : List α) :
    (a :: l).mapM f = match f a with
      | .error e => .error e
      | .ok b => match l.mapM f with
        | .error e => .error e
        | .ok bs => .ok (b :: bs) := by
  rw [List.mapM_cons]
  cases f a with
  | error e => rfl
  | ok b =>
    cases l.mapM f with
    | error e => rfl
    | ok bs => rfl

theorem literal_not_valid (name : Str) (h : validName name = true) : literalNames.contains name = false := by
  cases hc : literalNames.contains name with
  | false => rfl
  | true =>
    have hm : name ∈ literalNames := by simpa using hc
    simp only [literalNames, List.map_cons, List.map_nil, List.mem_cons, List.not_mem_nil, or_false] at hm
    rcases hm with rfl | rfl | rfl | rfl | rfl | rfl <;> exact absurd h (by decide)

theorem matchNameInt_valid (t name ds : Str) (h : matchNameInt t = some (name, ds)) : validName name = true := by
  unfold matchNameInt at h
  obtain ⟨k, -, hk⟩ := List.exists_of_findSome?_eq_some h
  simp only at hk
  split at hk
  · rename_i hc; cases hk; exact hc.1
  · cases hk

theorem matchNameKwarg_valid (t name k : Str) (h : matchNameKwarg t = some (name, k)) : validName name = true := by
  unfold matchNameKwarg at h
  obtain ⟨j, -, hk⟩ := List.exists_of_findSome?_eq_some h
  simp only at hk
  split at hk
  · rename_i hc; cases hk; exact hc.1
  · cases hk

/-- a plain token text is parsed by `tokenparser` into a plain token (never skipped) -/
theorem tokenOf_plain (kw : Kw) (t : Str) (r : Option (Tok × Bool)) (hpt : plainText kw t = true)
    (h : tokenOf kw.keys t = .ok r) : ∃ tok s, r = some (tok, s) ∧ tok.plain kw = true := by
  simp only [plainText, Bool.and_eq_true, Bool.not_eq_true', Option.isNone_iff_eq_none] at hpt
  obtain ⟨⟨⟨⟨⟨hne, heq⟩, hkey⟩, hlit⟩, hname⟩, -⟩ := hpt
  have heq' : '=' ∉ t := by simpa using heq
  unfold tokenOf at h
  simp only [hkey, Bool.false_eq_true, and_false, if_false, hlit, hne] at h
  unfold parseSingle at h hname
  rw [findChar_none _ _ heq'] at h hname
  simp only at h hname
  cases hmi : matchNameInt t with
  | some r' =>
    obtain ⟨name, ds⟩ := r'
    simp only [hmi] at h hname
    have hv := literal_not_valid name (matchNameInt_valid t name ds hmi)
    split at h
    · cases h; exact ⟨_, _, rfl, by simp only [Tok.plain, hname, hv]; rfl⟩
    · split at h
      · cases h; exact ⟨_, _, rfl, by simp only [Tok.plain, hname, hv]; rfl⟩
      · split at h
        · cases h
        · cases h; exact ⟨_, _, rfl, by simp only [Tok.plain, hname, hv]; rfl⟩
  | none =>
    simp only [hmi] at h hname
    cases hmk : matchNameKwarg t with
    | some r' =>
      obtain ⟨name, k⟩ := r'
      simp only [hmk] at h hname
      have hv := literal_not_valid name (matchNameKwarg_valid t name k hmk)
      split at h
      · cases h; exact ⟨_, _, rfl, by simp only [Tok.plain, hname, hv]; rfl⟩
      · split at h
        · cases h
        · cases h; exact ⟨_, _, rfl, by simp only [Tok.plain, hname, hv]; rfl⟩
    | none =>
      simp only [hmk] at h hname
      have hv : literalNames.contains "bits".toList = false := by decide
      split at h
      · cases h; exact ⟨_, _, rfl, by simp only [Tok.plain, hname, hv]; rfl⟩
      · split at h
        · cases h
        · cases h; exact ⟨_, _, rfl, by simp only [Tok.plain, hname, hv]; rfl⟩

/-- list level: the dtype list `unpack` derives from the texts is the dtype list of the tokens `pack` derives -/
theorem texts_bridge (kw : Kw) (pre : List Str) (ts : List (Option (Tok × Bool))) (ds : List DT)
    (hpt : ∀ t ∈ pre, plainText kw t = true)
    (h : pre.mapM (tokenOf kw.keys) = .ok ts)
    (hd : tokDtypes kw ((ts.filterMap id).map (·.1)) = .ok ds) :
    pre.mapM (tokenToDtype kw) = .ok ds ∧ ∀ tok ∈ (ts.filterMap id).map (·.1), tok.plain kw = true := by
  induction pre generalizing ts ds with
  | nil =>
    have h' : ts = [] := by
      have : (Except.ok [] : Except Err (List (Option (Tok × Bool)))) = .ok ts := h
      cases this; rfl
    subst h'
    simp [tokDtypes] at hd; subst hd
    exact ⟨rfl, by simp⟩
  | cons t pre ih =>
    rw [mapM_cons_except] at h
    cases h1 : tokenOf kw.keys t with
    | error e => simp [h1] at h
    | ok r =>
      simp only [h1] at h
      cases h2 : pre.mapM (tokenOf kw.keys) with
      | error e => simp [h2] at h
      | ok rs =>
        simp only [h2, Except.ok.injEq] at h
        subst h
        have hp := hpt t (by simp)
        obtain ⟨tok, s, rfl, hplain⟩ := tokenOf_plain kw t r hp h1
        simp only [List.filterMap_cons, id, List.map_cons] at hd ⊢
        rw [tokDtypes.eq_def] at hd
        simp only at hd
        cases hdt : tokDtype kw tok with
        | error e => simp [hdt] at hd
        | ok d =>
          simp only [hdt] at hd
          cases hdr : tokDtypes kw (List.map (·.1) (List.filterMap id rs)) with
          | error e => simp [hdr, Except.map] at hd
          | ok dr =>
            simp only [hdr, Except.map, Except.ok.injEq] at hd
            subst hd
            obtain ⟨ih1, ih2⟩ := ih rs dr (fun t' h' => hpt t' (by simp [h'])) h2 hdr
            simp only [plainText, Bool.and_eq_true, Bool.not_eq_true', Option.isNone_iff_eq_none] at hp
            obtain ⟨⟨⟨⟨⟨hne, heq⟩, hkey⟩, hlit⟩, hname⟩, hnum⟩ := hp
            have hb := tokenOf_bridge kw t tok s d (by simpa using heq) hkey hlit
              (by intro name k hmi hmk; simp only [hmi, hmk] at hnum; simpa using hnum) h1 hdt
            refine ⟨?_, ?_⟩
            · rw [mapM_cons_except, hb, ih1]
            · intro tk htk
              rcases List.mem_cons.mp htk with rfl | htk
              · exact hplain
              · exact ih2 tk htk

theorem unpack_pack_string' (fmt : Str) (kw : Kw) (vs : List Val) (b : Bits) (pre : List Str) (st : Bool) (toks : List Tok)
    (ds : List DT) (st' : Bool) (after : Int)
    (hpre : preprocess fmt = .ok pre) (hpt : ∀ t ∈ pre, plainText kw t = true)
    (htp : tokenparser fmt kw.keys = .ok (st, toks))
    (hd : tokDtypes kw toks = .ok ds) (hwf : pass1 ds false 0 = .ok (st', after))
    (hc : conform kw toks vs = true) (hp : pack fmt kw vs = .inl (.ok b)) :
    unpack fmt kw b = .ok vs := by
  unfold tokenparser at htp
  simp only [hpre] at htp
  cases hm : pre.mapM (tokenOf kw.keys) with
  | error e => simp [hm] at htp
  | ok ts =>
    simp only [hm, Except.ok.injEq, Prod.mk.injEq] at htp
    obtain ⟨-, rfl⟩ := htp
    have htp' : tokenparser fmt kw.keys = .ok ((ts.filterMap id).any (·.2), (ts.filterMap id).map (·.1)) := by
      unfold tokenparser; simp only [hpre, hm]
    obtain ⟨hb, hplain⟩ := texts_bridge kw pre ts ds hpt hm hd
    unfold pack at hp
    simp only [htp'] at hp
    have hp' : packAlg kw ((ts.filterMap id).map (·.1)) vs = .ok b := by
      cases hpa : packAlg kw ((ts.filterMap id).map (·.1)) vs with
      | error e => simp [hpa] at hp
      | ok b' => simp only [hpa, Sum.inl.injEq, Except.ok.injEq] at hp; rw [hp]
    rw [pack_alg_eq_spec] at hp'
    have := unpack_pack kw _ vs b ds st' after hplain hd hwf hc hp'
    unfold unpack
    simp only [hpre, hb, this, Except.map]


/-! ### preprocess of a rendered tree -/

theorem foldlM_meta (l : List Str) (g : Str → List Str) (h : ∀ m ∈ l, preprocessMeta m = .ok (g m)) (acc : List Str) :
    l.foldlM (fun acc m => (preprocessMeta m).map (acc ++ ·)) acc = .ok (acc ++ l.flatMap g) := by
  induction l generalizing acc with
  | nil => simp [pure, Except.pure]
  | cons m l ih =>
    rw [List.foldlM_cons, h m (by simp)]
    show l.foldlM (fun acc m => (preprocessMeta m).map (acc ++ ·)) (acc ++ g m) = _
    rw [ih (fun m' h' => h m' (by simp [h']))]
    simp [List.append_assoc]

theorem flatMap_filter_nonempty (l : List Str) (g : Str → List Str) :
    l.flatMap (fun m => if m.isEmpty then [] else g m) = (l.filter (fun s => !s.isEmpty)).flatMap g := by
  induction l with
  | nil => rfl
  | cons m l ih =>
    rw [List.flatMap_cons, List.filter_cons, ih]
    cases hm : m.isEmpty <;> simp

mutual
  theorem flattenSpec_mem_atoms : ∀ (x : BItem), ∀ s ∈ x.flattenSpec, s ∈ x.atoms
    | .atom a => by intro s hs; simpa [BItem.flattenSpec, BItem.atoms] using hs
    | .group none items => by
      intro s hs; simp only [BItem.flattenSpec, BItem.atoms] at hs ⊢
      exact flattenSpecList_mem_atoms items s hs
    | .group (some ds) items => by
      intro s hs; simp only [BItem.flattenSpec, BItem.atoms, List.mem_flatten, List.mem_replicate] at hs ⊢
      obtain ⟨l, ⟨-, rfl⟩, hs⟩ := hs
      exact flattenSpecList_mem_atoms items s hs
  theorem flattenSpecList_mem_atoms : ∀ (xs : List BItem), ∀ s ∈ BItem.flattenSpecList xs, s ∈ BItem.atomsList xs
    | [] => by simp [BItem.flattenSpecList]
    | x :: xs => by
      intro s hs
      simp only [BItem.flattenSpecList, BItem.atomsList, List.mem_append] at hs ⊢
      rcases hs with hs | hs
      · exact Or.inl (flattenSpec_mem_atoms x s hs)
      · exact Or.inr (flattenSpecList_mem_atoms xs s hs)
end

theorem preprocessMeta_nil : preprocessMeta [] = .ok [] := by simp [preprocessMeta]

theorem multiplicative_none (t : Str) (h : '*' ∉ t) : multiplicative t = none := by
  unfold multiplicative
  have : (List.range t.length).filter (fun i => t[i]? = some '*' ∧ i + 1 < t.length) = [] := by
    rw [List.filter_eq_nil_iff]
    intro i _ hi
    simp only [decide_eq_true_eq] at hi
    exact h (List.mem_of_getElem? hi.1)
  rw [this]; rfl

/-- an ordinary token text goes through `preprocess_tokens` unchanged -/
theorem preprocessMeta_simple (t : Str) (h : simpleText t = true) : preprocessMeta t = .ok [t] := by
  simp only [simpleText, Bool.and_eq_true, Bool.not_eq_true', Option.isNone_iff_eq_none] at h
  obtain ⟨⟨hne, hstar⟩, hstruct⟩ := h
  unfold preprocessMeta
  rw [multiplicative_none t (by simpa using hstar)]
  simp [hne, hstruct]

/-- a struct-style token is replaced by the tokens of its codes -/
theorem preprocessMeta_struct (t : Str) (e : Char) (groups : List (Str × Char)) (hstar : '*' ∉ t)
    (h : matchStruct t = some (e, groups)) : preprocessMeta t = .ok (structTokens e groups) := by
  have hne : t.isEmpty = false := by cases t <;> simp_all [matchStruct]
  unfold preprocessMeta
  rw [multiplicative_none t hstar]
  simp [hne, h]

/-- `preprocess_tokens` of any text that is a rendered bracket tree up to whitespace: every written token text is
    expanded by `preprocessMeta` (identity / `n*tok` / struct group), in the order of the specified flattening -/
theorem preprocess_render_gen (items : List BItem) (hne : items ≠ []) (hwf : BItem.wfList items = true)
    (g : Str → List Str) (hg : ∀ a ∈ BItem.atomsList items, preprocessMeta a = .ok (g a))
    (fmt : Str) (hfmt : removeWs fmt = renderItems items) :
    preprocess fmt = .ok ((BItem.flattenSpecList items).flatMap g) := by
  unfold preprocess
  rw [hfmt, expandBrackets_render' items hne hwf]
  simp only
  rw [splitOnChar_joinComma _ (flattenCodeList_atoms items hwf hne).1 (flattenCode_nocomma_list items hwf)]
  have hfil := flattenCode_filter_list items hwf
  rw [foldlM_meta _ (fun m => if m.isEmpty then [] else g m)]
  · rw [List.nil_append, flatMap_filter_nonempty, hfil]
  · intro m hm
    by_cases hme : m.isEmpty = true
    · have : m = [] := by simpa using hme
      subst this; simp [preprocessMeta_nil]
    · simp only [hme, Bool.false_eq_true, if_false]
      apply hg
      apply flattenSpecList_mem_atoms
      rw [← hfil]
      exact List.mem_filter.mpr ⟨hm, by simpa using hme⟩


theorem filter_range_single (P : Nat → Bool) (j n : Nat) (h : ∀ i, i < n → P i = (i == j)) :
    (List.range n).filter P = if j < n then [j] else [] := by
  induction n with
  | zero => simp
  | succ n ih =>
    rw [List.range_succ, List.filter_append, ih (fun i hi => h i (by omega))]
    have hn := h n (by omega)
    by_cases h1 : j < n
    · have : (n == j) = false := by simp; omega
      simp [h1, hn, this, show j < n + 1 by omega]
    · by_cases h2 : j = n
      · subst h2; simp [hn]
      · have : (n == j) = false := by simp; omega
        simp [h1, hn, this, show ¬ j < n + 1 by omega]

theorem multiplicative_factor (ds a : Str) (hd : ds.all Char.isDigit = true) (ha : a ≠ []) (hstar : '*' ∉ a) :
    multiplicative (ds ++ '*' :: a) = some (ds, a) := by
  unfold multiplicative
  have hP : ∀ i, i < (ds ++ '*' :: a).length →
      decide ((ds ++ '*' :: a)[i]? = some '*' ∧ i + 1 < (ds ++ '*' :: a).length) = (i == ds.length) := by
    intro i hi
    have hapos : 0 < a.length := List.length_pos_iff.mpr ha
    by_cases h1 : i < ds.length
    · have hne : (i == ds.length) = false := by simp; omega
      rw [hne, List.getElem?_append_left h1]
      have hdig := List.all_eq_true.mp hd _ (List.getElem_mem h1)
      have : ds[i]? ≠ some '*' := by
        rw [List.getElem?_eq_getElem h1]; intro e; simp at e; rw [e] at hdig; exact absurd hdig (by decide)
      simp [this]
    · by_cases h2 : i = ds.length
      · subst h2; simp; omega
      · have hne : (i == ds.length) = false := by simp; omega
        rw [hne, List.getElem?_append_right (by omega)]
        obtain ⟨k, hk⟩ : ∃ k, i - ds.length = k + 1 := ⟨i - ds.length - 1, by omega⟩
        rw [hk, List.getElem?_cons_succ]
        have : a[k]? ≠ some '*' := fun e => hstar (List.mem_of_getElem? e)
        simp [this]
  rw [filter_range_single _ ds.length _ hP]
  have hlt : ds.length < (ds ++ '*' :: a).length := by simp
  simp only [hlt, if_true, List.getLast?_singleton]
  rw [List.take_left' rfl, show ds ++ '*' :: a = (ds ++ ['*']) ++ a by simp, List.drop_left' (by simp)]

/-- `n*tok` is `tok` written `n` times -/
theorem preprocessMeta_factor (ds a : Str) (hne : ds ≠ []) (hd : ds.all Char.isDigit = true) (ha : simpleText a = true) :
    preprocessMeta (ds ++ '*' :: a) = .ok (List.replicate (parseNat ds) a) := by
  simp only [simpleText, Bool.and_eq_true, Bool.not_eq_true', Option.isNone_iff_eq_none] at ha
  obtain ⟨⟨hane, hstar⟩, hstruct⟩ := ha
  have hane' : a ≠ [] := by intro e; subst e; simp at hane
  unfold preprocessMeta
  rw [multiplicative_factor ds a hd hane' (by simpa using hstar)]
  have : (ds ++ '*' :: a).isEmpty = false := by simp
  simp [this, hstruct, pyInt_digits ds hne hd]


end BM.C05
