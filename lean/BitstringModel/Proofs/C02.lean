/-
  Proofs/C02.lean — helper lemmas for Props/C02.lean (two's complement, byte groups, digits, routes).
-/
import BitstringModel.Model.C02
import BitstringModel.Proofs.Basic
import Mathlib.Tactic.Ring
import Mathlib.Tactic.Linarith

namespace BM.C02
open BM

end BM.C02
