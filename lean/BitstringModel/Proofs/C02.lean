/-
  Proofs/C02.lean — helper lemmas for Props/C02.lean (two's complement, byte groups, digits, routes).
-/
import BitstringModel.Model.C02
import BitstringModel.Proofs.Basic
import BitstringModel.Proofs.C02Ieee
import Mathlib.Tactic.Ring
import Mathlib.Tactic.Linarith

namespace BM.C02
open BM

/-! ### natToBits: head bit, reduction mod 2^len -/

theorem natToBits_succ_head (k n : Nat) :
    natToBits (k + 1) n = decide (n / 2 ^ k % 2 = 1) :: natToBits k n := by
  induction k generalizing n with
  | zero => simp [natToBits]
  | succ k ih =>
    rw [natToBits, ih (n / 2)]
    rw [Nat.div_div_eq_div_mul, ← Nat.pow_succ']
    simp [natToBits]

theorem natToBits_mod (len n : Nat) : natToBits len (n % 2 ^ len) = natToBits len n := by
  have h := natToBits_bitsToNat (natToBits len n)
  rw [natToBits_length, bitsToNat_natToBits_mod] at h
  exact h

theorem bitsToInt_cons (s : Bool) (t : Bits) :
    bitsToInt (s :: t) = if s then (bitsToNat (s :: t) : Int) - (2 : Int) ^ (t.length + 1) else (bitsToNat (s :: t) : Int) := by
  simp [bitsToInt]

theorem pow_cast (k : Nat) : ((2 ^ k : Nat) : Int) = (2 : Int) ^ k := by
  simp

theorem bitsToInt_intToBits' (k : Nat) (i : Int)
    (h : -((2 : Int) ^ k) ≤ i ∧ i < (2 : Int) ^ k) :
    bitsToInt (intToBits (k + 1) i) = i := by
  obtain ⟨P, hP⟩ : ∃ P : Nat, P = 2 ^ k := ⟨_, rfl⟩
  have hPpos : 0 < P := by rw [hP]; exact Nat.pos_of_ne_zero (by simp)
  have hPi : ((2 : Int) ^ k) = (P : Int) := by rw [hP]; simp
  have h2 : ((2 : Int) ^ (k + 1)) = 2 * (P : Int) := by rw [pow_succ, hPi]; ring
  have h2n : 2 ^ (k + 1) = 2 * P := by rw [hP, Nat.pow_succ]; ring
  rw [hPi] at h
  unfold intToBits
  rw [h2]
  by_cases hi : 0 ≤ i
  · have hm : i % (2 * (P : Int)) = i := Int.emod_eq_of_lt hi (by omega)
    rw [hm]
    obtain ⟨n, rfl⟩ := Int.eq_ofNat_of_zero_le hi
    simp only [Int.toNat_natCast]
    rw [natToBits_succ_head, bitsToInt_cons, ← natToBits_succ_head, bitsToNat_natToBits_mod, ← hP, h2n]
    have hn : n < P := by omega
    rw [Nat.div_eq_of_lt hn, Nat.mod_eq_of_lt (by omega : n < 2 * P)]
    simp
  · have hm : i % (2 * (P : Int)) = i + 2 * P := by
      rw [← Int.add_mul_emod_self_left i (2 * (P : Int)) 1, Int.mul_one]
      exact Int.emod_eq_of_lt (by omega) (by omega)
    rw [hm]
    obtain ⟨n, hn⟩ := Int.eq_ofNat_of_zero_le (by omega : 0 ≤ i + 2 * (P : Int))
    rw [hn]
    simp only [Int.toNat_natCast]
    rw [natToBits_succ_head, bitsToInt_cons, ← natToBits_succ_head, bitsToNat_natToBits_mod, ← hP, h2n]
    have hn1 : P ≤ n := by omega
    have hn2 : n < 2 * P := by omega
    have hd : n / P = 1 := Nat.div_eq_of_lt_le (by omega) (by omega)
    rw [hd, Nat.mod_eq_of_lt hn2]
    simp only [natToBits_length]
    have : ((2 : Int) ^ (k + 1)) = 2 * (P : Int) := h2
    simp only [decide_true, if_true]
    rw [this]; omega


theorem intToBits_bitsToInt' (b : Bits) (hb : b ≠ []) : intToBits b.length (bitsToInt b) = b := by
  cases b with
  | nil => exact absurd rfl hb
  | cons s t =>
    have hlt := bitsToNat_lt (s :: t)
    rw [bitsToInt_cons]
    unfold intToBits
    have hc : ((2 : Int) ^ (s :: t).length) = ((2 ^ (s :: t).length : Nat) : Int) := by simp
    have hmod : ∀ x : Int, x = (bitsToNat (s :: t) : Int) ∨ x = (bitsToNat (s :: t) : Int) - (2 : Int) ^ (s :: t).length →
        (x % (2 : Int) ^ (s :: t).length).toNat = bitsToNat (s :: t) := by
      intro x hx
      rcases hx with rfl | rfl
      · rw [hc, ← Int.natCast_mod, Int.toNat_natCast, Nat.mod_eq_of_lt hlt]
      · have := Int.add_mul_emod_self_left ((bitsToNat (s :: t) : Int)) ((2 : Int) ^ (s :: t).length) (-1)
        rw [show (bitsToNat (s :: t) : Int) + (2 : Int) ^ (s :: t).length * -1
              = (bitsToNat (s :: t) : Int) - (2 : Int) ^ (s :: t).length by ring] at this
        rw [this, hc, ← Int.natCast_mod, Int.toNat_natCast, Nat.mod_eq_of_lt hlt]
    have key := hmod (if s = true then (bitsToNat (s :: t) : Int) - (2 : Int) ^ (t.length + 1) else (bitsToNat (s :: t) : Int))
      (by cases s <;> simp)
    rw [key]
    exact natToBits_bitsToNat (s :: t)

theorem bitsToInt_range' (b : Bits) (hb : b ≠ []) :
    -((2 : Int) ^ (b.length - 1)) ≤ bitsToInt b ∧ bitsToInt b < (2 : Int) ^ (b.length - 1) := by
  cases b with
  | nil => exact absurd rfl hb
  | cons s t =>
    rw [bitsToInt_cons, bitsToNat_cons]
    have hlt := bitsToNat_lt t
    simp only [List.length_cons, Nat.add_sub_cancel]
    have hc : ((2 : Int) ^ t.length) = ((2 ^ t.length : Nat) : Int) := by simp
    have h2 : ((2 : Int) ^ (t.length + 1)) = 2 * ((2 ^ t.length : Nat) : Int) := by rw [pow_succ, hc]; ring
    rw [h2, hc]
    cases s <;> simp <;> omega

theorem intToBits_nonneg' (len : Nat) (i : Int) (h : 0 ≤ i) : intToBits len i = natToBits len i.toNat := by
  obtain ⟨n, rfl⟩ := Int.eq_ofNat_of_zero_le h
  unfold intToBits
  have hc : ((2 : Int) ^ len) = ((2 ^ len : Nat) : Int) := by simp
  rw [hc, ← Int.natCast_mod, Int.toNat_natCast, Int.toNat_natCast, natToBits_mod]

theorem intToBits_neg' (len : Nat) (i : Int) (h : i < 0) (hr : -((2 : Int) ^ len) ≤ i) :
    intToBits len i = natToBits len ((2 : Int) ^ len + i).toNat := by
  unfold intToBits
  have hpos : (0 : Int) < (2 : Int) ^ len := by positivity
  have hm : i % (2 : Int) ^ len = (2 : Int) ^ len + i := by
    rw [← Int.add_mul_emod_self_left i ((2 : Int) ^ len) 1, Int.mul_one, Int.add_comm]
    exact Int.emod_eq_of_lt (by omega) (by omega)
  rw [hm]


/-! ### groups -/

theorem groupsOf_append (w m : Nat) (g b : Bits) (hg : g.length = w) :
    groupsOf w (m + 1) (g ++ b) = g :: groupsOf w m b := by
  simp only [groupsOf]
  rw [List.take_left' hg, List.drop_left' hg]

/-- Induction over patterns whose length is a multiple of `w`: peel one full group at a time. -/
theorem chunk_induction (w : Nat) (hw : 0 < w) (P : Bits → Prop) (hnil : P [])
    (hstep : ∀ g rest : Bits, g.length = w → w ∣ rest.length → P rest → P (g ++ rest)) :
    ∀ b : Bits, w ∣ b.length → P b := by
  intro b
  induction hn : b.length using Nat.strong_induction_on generalizing b with
  | _ n ih =>
    intro hd
    by_cases h0 : n = 0
    · have : b = [] := List.eq_nil_of_length_eq_zero (by omega)
      subst this; exact hnil
    · subst hn
      obtain ⟨c, hc⟩ := hd
      have hcpos : 0 < c := by
        rcases Nat.eq_zero_or_pos c with rfl | h
        · rw [Nat.mul_zero] at hc; omega
        · exact h
      have hwle : w ≤ b.length := by rw [hc]; exact Nat.le_mul_of_pos_right w hcpos
      have hsplit : b = b.take w ++ b.drop w := (List.take_append_drop w b).symm
      rw [hsplit]
      have htl : (b.take w).length = w := by rw [List.length_take]; omega
      have hdl : (b.drop w).length = w * (c - 1) := by
        rw [List.length_drop, hc, Nat.mul_sub, Nat.mul_one]
      apply hstep _ _ htl ⟨c - 1, hdl⟩
      exact ih (b.drop w).length (by rw [List.length_drop]; omega) (b.drop w) rfl ⟨c - 1, hdl⟩

theorem padRight_full (k : Nat) (g : Bits) (h : g.length = k) : padRight k g = g := by
  simp [padRight, h]

theorem toByteGroups_nil : toByteGroups [] = [] := by
  simp [toByteGroups, groupsOf]

theorem toByteGroups_append (g rest : Bits) (hg : g.length = 8) :
    toByteGroups (g ++ rest) = g :: toByteGroups rest := by
  unfold toByteGroups
  have hl : ((g ++ rest).length + 7) / 8 = (rest.length + 7) / 8 + 1 := by
    rw [List.length_append, hg]; omega
  rw [hl, groupsOf_append 8 _ g rest hg, List.map_cons, padRight_full 8 g hg]

theorem bytesRev_nil : bytesRev [] = [] := by
  simp [bytesRev, toByteGroups_nil]

theorem bytesRev_group_append (g rest : Bits) (hg : g.length = 8) :
    bytesRev (g ++ rest) = bytesRev rest ++ g := by
  unfold bytesRev
  rw [toByteGroups_append g rest hg]
  simp

theorem bytesRev_append (a b : Bits) (ha : 8 ∣ a.length) :
    bytesRev (a ++ b) = bytesRev b ++ bytesRev a := by
  revert ha
  refine chunk_induction 8 (by omega) (fun a => bytesRev (a ++ b) = bytesRev b ++ bytesRev a) ?_ ?_ a
  · simp [bytesRev_nil]
  · intro g rest hg _ ih
    rw [List.append_assoc, bytesRev_group_append g (rest ++ b) hg, ih, bytesRev_group_append g rest hg,
      List.append_assoc]

theorem bytesRev_length' (b : Bits) (h : 8 ∣ b.length) : (bytesRev b).length = b.length := by
  revert h
  refine chunk_induction 8 (by omega) (fun b => (bytesRev b).length = b.length) ?_ ?_ b
  · simp [bytesRev_nil]
  · intro g rest hg _ ih
    rw [bytesRev_group_append g rest hg, List.length_append, List.length_append, ih, Nat.add_comm]

theorem bytesRev_single (g : Bits) (hg : g.length = 8) : bytesRev g = g := by
  have := bytesRev_group_append g [] hg
  simpa [bytesRev_nil] using this

theorem bytesRev_involutive' (b : Bits) (h : 8 ∣ b.length) : bytesRev (bytesRev b) = b := by
  revert h
  refine chunk_induction 8 (by omega) (fun b => bytesRev (bytesRev b) = b) ?_ ?_ b
  · simp [bytesRev_nil]
  · intro g rest hg hr ih
    rw [bytesRev_group_append g rest hg,
      bytesRev_append (bytesRev rest) g (by rw [bytesRev_length' rest hr]; exact hr),
      bytesRev_single g hg, ih]

theorem toBytes_append (g rest : Bits) (hg : g.length = 8) :
    toBytes (g ++ rest) = bitsToNat g :: toBytes rest := by
  unfold toBytes; rw [toByteGroups_append g rest hg]; rfl

theorem bytesRev_value' (b : Bits) (h : 8 ∣ b.length) : bitsToNat (bytesRev b) = leValue (toBytes b) := by
  revert h
  refine chunk_induction 8 (by omega) (fun b => bitsToNat (bytesRev b) = leValue (toBytes b)) ?_ ?_ b
  · simp [bytesRev_nil, toBytes, toByteGroups_nil, leValue]
  · intro g rest hg _ ih
    rw [bytesRev_group_append g rest hg, bitsToNat_append, ih, toBytes_append g rest hg, leValue, hg]
    ring

theorem fromBytes_toBytes' (b : Bits) (h : 8 ∣ b.length) : fromBytes (toBytes b) = b := by
  revert h
  refine chunk_induction 8 (by omega) (fun b => fromBytes (toBytes b) = b) ?_ ?_ b
  · simp [toBytes, toByteGroups_nil, fromBytes]
  · intro g rest hg _ ih
    rw [toBytes_append g rest hg]
    unfold fromBytes at *
    rw [List.flatMap_cons, ih]
    have := natToBits_bitsToNat g
    rw [hg] at this
    rw [this]

theorem fromBytes_length (d : List Nat) : (fromBytes d).length = d.length * 8 := by
  induction d with
  | nil => simp [fromBytes]
  | cons x t ih =>
    unfold fromBytes at *
    rw [List.flatMap_cons, List.length_append, ih, natToBits_length, List.length_cons]; ring

theorem toBytes_fromBytes' (d : List Nat) (h : ∀ x ∈ d, x < 256) : toBytes (fromBytes d) = d := by
  induction d with
  | nil => simp [fromBytes, toBytes, toByteGroups_nil]
  | cons x t ih =>
    have hx : x < 2 ^ 8 := by have := h x (by simp); omega
    have : fromBytes (x :: t) = natToBits 8 x ++ fromBytes t := by simp [fromBytes]
    rw [this, toBytes_append _ _ (natToBits_length 8 x), bitsToNat_natToBits 8 x hx,
      ih (fun y hy => h y (by simp [hy]))]

theorem toBytes_length (b : Bits) (h : 8 ∣ b.length) : (toBytes b).length = b.length / 8 := by
  revert h
  refine chunk_induction 8 (by omega) (fun b => (toBytes b).length = b.length / 8) ?_ ?_ b
  · simp [toBytes, toByteGroups_nil]
  · intro g rest hg _ ih
    rw [toBytes_append g rest hg, List.length_cons, ih, List.length_append, hg]; omega

theorem toBytes_lt (b : Bits) (h : 8 ∣ b.length) : ∀ x ∈ toBytes b, x < 256 := by
  revert h
  refine chunk_induction 8 (by omega) (fun b => ∀ x ∈ toBytes b, x < 256) ?_ ?_ b
  · simp [toBytes, toByteGroups_nil]
  · intro g rest hg _ ih x hx
    rw [toBytes_append g rest hg] at hx
    rcases List.mem_cons.mp hx with rfl | hx
    · have := bitsToNat_lt g; rw [hg] at this; omega
    · exact ih x hx


/-! ### digits -/

theorem hexVal_digitChar : ∀ n, n < 16 → hexVal? (digitChar n) = some n := by decide
theorem octVal_digitChar : ∀ n, n < 8 → octVal? (digitChar n) = some n := by decide
theorem binVal_digitChar : ∀ n, n < 2 → binVal? (digitChar n) = some n := by decide

/-- `mapM` into `Option` succeeds with the list of values when every element has one. -/
theorem mapM_option_cons {α β} (f : α → Option β) (a : α) (l : List α) :
    (a :: l).mapM f = (match f a with | none => none | some b => match l.mapM f with | none => none | some bs => some (b :: bs)) := by
  rw [List.mapM_cons]
  cases f a <;> simp
  cases l.mapM f <;> simp

theorem digitsToBits_cons (w : Nat) (val? : Char → Option Nat) (c : Char) (s : List Char) (n : Nat) (b : Bits)
    (hc : val? c = some n) (hs : digitsToBits w val? s = .ok b) :
    digitsToBits w val? (c :: s) = .ok (natToBits w n ++ b) := by
  unfold digitsToBits at *
  rw [mapM_option_cons, hc]
  cases h : s.mapM val? with
  | none => rw [h] at hs; cases hs
  | some ds =>
    rw [h] at hs
    simp only at hs ⊢
    cases hs
    simp

theorem bitsToDigits_nil (w : Nat) : bitsToDigits w [] = .ok [] := by
  simp [bitsToDigits, groupsOf]

theorem bitsToDigits_append (w : Nat) (hw : 0 < w) (g b : Bits) (hg : g.length = w) (s : List Char)
    (hb : bitsToDigits w b = .ok s) :
    bitsToDigits w (g ++ b) = .ok (digitChar (bitsToNat g) :: s) := by
  unfold bitsToDigits at *
  rw [List.length_append, hg]
  by_cases hm : b.length % w ≠ 0
  · rw [if_pos hm] at hb; cases hb
  · rw [if_neg hm] at hb
    have hm' : ¬ ((w + b.length) % w ≠ 0) := by rw [Nat.add_mod_left]; exact hm
    rw [if_neg hm', Nat.add_div_left _ hw, groupsOf_append w _ g b hg]
    cases hb
    simp

theorem bitsToDigits_ok (w : Nat) (_hw : 0 < w) (b : Bits) (h : w ∣ b.length) :
    ∃ s, bitsToDigits w b = .ok s := by
  unfold bitsToDigits
  rw [if_neg (by rw [Nat.mod_eq_zero_of_dvd h]; simp)]
  exact ⟨_, rfl⟩

/-- Parsing the printed digits gives the pattern back, for any digit alphabet that inverts `digitChar` below `2^w`. -/
theorem parse_print (w : Nat) (hw : 0 < w) (val? : Char → Option Nat)
    (hval : ∀ n, n < 2 ^ w → val? (digitChar n) = some n) (b : Bits) (h : w ∣ b.length) :
    ∃ s, bitsToDigits w b = .ok s ∧ digitsToBits w val? s = .ok b ∧
      (∀ c ∈ s, ∃ n, n < 2 ^ w ∧ c = digitChar n) := by
  revert h
  refine chunk_induction w hw (fun b => ∃ s, bitsToDigits w b = .ok s ∧ digitsToBits w val? s = .ok b ∧
      (∀ c ∈ s, ∃ n, n < 2 ^ w ∧ c = digitChar n)) ?_ ?_ b
  · exact ⟨[], bitsToDigits_nil w, by simp [digitsToBits], by simp⟩
  · intro g rest hg _ ⟨s, h1, h2, h3⟩
    have hlt : bitsToNat g < 2 ^ w := by have := bitsToNat_lt g; rwa [hg] at this
    refine ⟨digitChar (bitsToNat g) :: s, bitsToDigits_append w hw g rest hg s h1, ?_, ?_⟩
    · rw [digitsToBits_cons w val? _ s _ rest (hval _ hlt) h2]
      have := natToBits_bitsToNat g
      rw [hg] at this; rw [this]
    · intro c hc
      rcases List.mem_cons.mp hc with rfl | hc
      · exact ⟨_, hlt, rfl⟩
      · exact h3 c hc


theorem digitChar_plain : ∀ n, n < 16 →
    isPySpace (digitChar n) = false ∧ asciiLower (digitChar n) = digitChar n ∧ digitChar n ≠ '_' ∧
    digitChar n ≠ 'x' ∧ digitChar n ≠ 'o' ∧ (n < 2 → digitChar n ≠ 'b') := by decide

theorem tidy_fix (s : List Char) (h : ∀ c ∈ s, isPySpace c = false ∧ asciiLower c = c ∧ c ≠ '_') : tidy s = s := by
  unfold tidy
  have h1 : s.filter (fun c => !isPySpace c) = s := by
    rw [List.filter_eq_self]; intro c hc; simp [(h c hc).1]
  have h2 : s.map asciiLower = s := by
    conv => rhs; rw [← List.map_id s]
    apply List.map_congr_left; intro c hc; simp [(h c hc).2.1]
  rw [h1, h2, List.filter_eq_self]
  intro c hc; simp [(h c hc).2.2]

theorem removeAll2_fix (c1 c2 : Char) (s : List Char) (h : ∀ c ∈ s, c ≠ c2) : removeAll2 c1 c2 s = s := by
  induction s with
  | nil => rfl
  | cons a t ih =>
    cases t with
    | nil => rfl
    | cons b t' =>
      have hb : b ≠ c2 := h b (by simp)
      rw [removeAll2, if_neg (by intro hh; exact hb hh.2), ih (fun c hc => h c (by simp [hc]))]

theorem removeAll2_subset (c1 c2 : Char) (s : List Char) : ∀ c ∈ removeAll2 c1 c2 s, c ∈ s := by
  fun_induction removeAll2 c1 c2 s with
  | case1 => simp
  | case2 a => simp
  | case3 a b t h ih => intro c hc; have := ih c hc; simp [this]
  | case4 a b t h ih =>
    intro c hc
    rcases List.mem_cons.mp hc with rfl | hc
    · simp
    · have := ih c hc; simp at this ⊢; tauto

theorem toNat_ofNat_valid (n : Nat) (h : n.isValidChar) : (Char.ofNat n).toNat = n := by
  unfold Char.ofNat
  rw [dif_pos h]
  rfl

theorem asciiLower_not_upper (c : Char) : ¬ (65 ≤ (asciiLower c).toNat ∧ (asciiLower c).toNat ≤ 90) := by
  unfold asciiLower
  split
  · rename_i h
    have hv : (c.toNat + 32).isValidChar := by
      unfold Nat.isValidChar; omega
    rw [toNat_ofNat_valid _ hv]; omega
  · rename_i h; exact h

theorem tidy_not_upper (s : List Char) : ∀ c ∈ tidy s, ¬ (65 ≤ c.toNat ∧ c.toNat ≤ 90) := by
  intro c hc
  unfold tidy at hc
  have := (List.mem_filter.mp hc).1
  obtain ⟨d, _, rfl⟩ := List.mem_map.mp this
  exact asciiLower_not_upper d

theorem digitChar_of_val (c : Char) (n : Nat) (hu : ¬ (65 ≤ c.toNat ∧ c.toNat ≤ 90)) :
    (hexVal? c = some n → n < 16 ∧ digitChar n = c) ∧ (octVal? c = some n → n < 8 ∧ digitChar n = c) ∧
    (binVal? c = some n → n < 2 ∧ digitChar n = c) := by
  refine ⟨?_, ?_, ?_⟩
  · intro h
    unfold hexVal? at h
    simp only at h
    split at h
    · cases h
      refine ⟨by omega, ?_⟩
      unfold digitChar; rw [if_pos (by omega), show 48 + (c.toNat - 48) = c.toNat by omega, Char.ofNat_toNat]
    · split at h
      · cases h
        refine ⟨by omega, ?_⟩
        unfold digitChar; rw [if_neg (by omega), show 87 + (c.toNat - 87) = c.toNat by omega, Char.ofNat_toNat]
      · split at h
        · omega
        · cases h
  · intro h
    unfold octVal? at h
    simp only at h
    split at h
    · cases h
      refine ⟨by omega, ?_⟩
      unfold digitChar; rw [if_pos (by omega), show 48 + (c.toNat - 48) = c.toNat by omega, Char.ofNat_toNat]
    · cases h
  · intro h
    unfold binVal? at h
    split at h
    · cases h; rename_i h0; subst h0; exact ⟨by omega, by decide⟩
    · split at h
      · cases h; rename_i _ h1; subst h1; exact ⟨by omega, by decide⟩
      · cases h



/-! ### digit strings: parse then print -/

/-- The three digit alphabets: on a non-upper-case character `val?` inverts `digitChar` and stays below `2^w`. -/
def GoodAlphabet (w : Nat) (val? : Char → Option Nat) : Prop :=
  ∀ c n, ¬ (65 ≤ c.toNat ∧ c.toNat ≤ 90) → val? c = some n → n < 2 ^ w ∧ digitChar n = c

theorem good_hex : GoodAlphabet 4 hexVal? := fun c n hu h => ((digitChar_of_val c n hu).1 h)
theorem good_oct : GoodAlphabet 3 octVal? := fun c n hu h => ((digitChar_of_val c n hu).2.1 h)
theorem good_bin : GoodAlphabet 1 binVal? := fun c n hu h => ((digitChar_of_val c n hu).2.2 h)

theorem parse_then_print (w : Nat) (hw : 0 < w) (val? : Char → Option Nat) (hg : GoodAlphabet w val?)
    (t : List Char) (hu : ∀ c ∈ t, ¬ (65 ≤ c.toNat ∧ c.toNat ≤ 90))
    (hall : t.all (fun c => (val? c).isSome) = true) :
    digitsToBits w val? t = .ok ((t.filterMap val?).flatMap (natToBits w)) ∧
    bitsToDigits w ((t.filterMap val?).flatMap (natToBits w)) = .ok t ∧
    ((t.filterMap val?).flatMap (natToBits w)).length = t.length * w := by
  induction t with
  | nil => simp [digitsToBits, bitsToDigits_nil]
  | cons c t ih =>
    simp only [List.all_cons, Bool.and_eq_true] at hall
    obtain ⟨hc, ht⟩ := hall
    obtain ⟨n, hn⟩ := Option.isSome_iff_exists.mp hc
    obtain ⟨h1, h2, h3⟩ := ih (fun d hd => hu d (by simp [hd])) ht
    obtain ⟨hlt, hdc⟩ := hg c n (hu c (by simp)) hn
    have hfm : (c :: t).filterMap val? = n :: t.filterMap val? := by simp [hn]
    rw [hfm, List.flatMap_cons]
    refine ⟨digitsToBits_cons w val? c t n _ hn h1, ?_, ?_⟩
    · rw [bitsToDigits_append w hw _ _ (natToBits_length w n) t h2, bitsToNat_natToBits w n hlt, hdc]
    · rw [List.length_append, h3, natToBits_length, List.length_cons]; ring

theorem canon_not_upper (k : StrKind) (s : List Char) : ∀ c ∈ k.canon s, ¬ (65 ≤ c.toNat ∧ c.toNat ≤ 90) := by
  intro c hc
  cases k <;> exact tidy_not_upper s c (removeAll2_subset _ _ _ c hc)

theorem good_kind (k : StrKind) : GoodAlphabet k.width k.val? := by
  cases k
  · exact good_hex
  · exact good_oct
  · exact good_bin

theorem set_eq (k : StrKind) (s : List Char) : k.set s = digitsToBits k.width k.val? (k.canon s) := by
  cases k <;> rfl

theorem str_set_valid (k : StrKind) (s : List Char) (h : (k.canon s).all (fun c => (k.val? c).isSome) = true) :
    k.set s = .ok (((k.canon s).filterMap k.val?).flatMap (natToBits k.width)) ∧
    bitsToDigits k.width (((k.canon s).filterMap k.val?).flatMap (natToBits k.width)) = .ok (k.canon s) ∧
    (((k.canon s).filterMap k.val?).flatMap (natToBits k.width)).length = (k.canon s).length * k.width := by
  rw [set_eq]
  exact parse_then_print k.width (by cases k <;> decide) k.val? (good_kind k) _ (canon_not_upper k s) h


/-! ### creation routes -/

/-- The `Dtype` a valid request resolves to. -/
def dtOf (q : Req) (len : Option Nat) : Dt :=
  ⟨q.kind, match len with | some n => some n | none => q.kind.allowed.onlyOne⟩

theorem lengthOrCur_some (l : Nat) (cur : Option Nat) : lengthOrCur (some l) cur = some l := rfl

theorem packFloat_length (f : Ieee.Fmt) (p : Nat) : (packFloat f p).length = f.width := by
  simp [packFloat]

theorem fltFmt_width (n : Nat) (h : n = 16 ∨ n = 32 ∨ n = 64) : (fltFmt n).width = n := by
  rcases h with rfl | rfl | rfl <;> decide

theorem step8_dvd (n : Nat) (h : (Allowed.step 8 16).contains n = true) : 8 ∣ n := by
  simp [Allowed.contains] at h; omega

theorem int2bitstore_valid (k : IntKind) (v : Int) (n : Nat)
    (hr : (if k.signed then decide (-((2 : Int) ^ (n - 1)) ≤ v ∧ v < (2 : Int) ^ (n - 1)) else decide (0 ≤ v ∧ v < (2 : Int) ^ n)) = true) :
    int2bitstore v n k.signed = .ok (if k.signed then intToBits n v else natToBits n v.toNat) := by
  unfold int2bitstore
  cases hs : k.signed <;> simp [hs] at hr ⊢ <;> exact hr

theorem getDtype_valid (q : Req) (len : Option Nat) (hv : Valid q len = true) :
    getDtype q.kind len = .ok (dtOf q len) := by
  unfold getDtype dtOf
  cases len with
  | none => rfl
  | some n =>
    have : q.kind.allowed.contains n = true := by
      cases q with
      | int k v => simp [Valid] at hv; simpa [Req.kind] using hv.1.2
      | str k s =>
        simp [Valid] at hv
        cases k <;> simp [Req.kind, StrKind.kind, Kind.allowed, Allowed.contains, StrKind.width] at hv ⊢ <;> omega
      | flt k p => cases k <;> simp [Valid] at hv <;> simp [Req.kind, FltKind.kind, Kind.allowed, Allowed.contains] <;> omega
      | bool a => simp [Valid] at hv; simp [Req.kind, Kind.allowed, Allowed.contains, hv.2]
      | bytes d => simp [Req.kind, Kind.allowed, Allowed.contains]
      | bits b => simp [Req.kind, Kind.allowed, Allowed.contains]
      | pad => simp [Req.kind, Kind.allowed, Allowed.contains]
    simp [this]


theorem kind_mult_int (k : IntKind) : k.kind.multiplier = 1 := by cases k <;> rfl
theorem kind_mult_str (k : StrKind) : k.kind.multiplier = 1 := by cases k <;> rfl
theorem kind_mult_flt (k : FltKind) : k.kind.multiplier = 1 := by cases k <;> rfl
theorem kind_needs_int (k : IntKind) : k.kind.setNeedsLength = true := by cases k <;> rfl
theorem kind_needs_str (k : StrKind) : k.kind.setNeedsLength = true := by cases k <;> rfl
theorem kind_needs_flt (k : FltKind) : k.kind.setNeedsLength = true := by cases k <;> rfl

/-! inversion of `Valid` -/

theorem valid_int (k : IntKind) (v : Int) (len : Option Nat) (hv : Valid (.int k v) len = true) :
    ∃ n, len = some n ∧ n ≠ 0 ∧ k.kind.allowed.contains n = true ∧
      (if k.signed then decide (-((2 : Int) ^ (n - 1)) ≤ v ∧ v < (2 : Int) ^ (n - 1)) else decide (0 ≤ v ∧ v < (2 : Int) ^ n)) = true := by
  cases len with
  | none => simp [Valid] at hv
  | some n =>
    simp only [Valid, Bool.and_eq_true, ne_eq] at hv
    exact ⟨n, rfl, by simpa using hv.1.1, hv.1.2, hv.2⟩

theorem valid_str (k : StrKind) (s : List Char) (len : Option Nat) (hv : Valid (.str k s) len = true) :
    (k.canon s).all (fun c => (k.val? c).isSome) = true ∧ (len = none ∨ len = some ((k.canon s).length * k.width)) := by
  cases len with
  | none => exact ⟨by simpa [Valid] using hv, Or.inl rfl⟩
  | some n =>
    simp only [Valid, Bool.and_eq_true, decide_eq_true_eq] at hv
    exact ⟨hv.1, Or.inr (by rw [hv.2])⟩

theorem valid_float (k : FltKind) (hk : k = .floatbe ∨ k = .floatle) (p : Nat) (len : Option Nat)
    (hv : Valid (.flt k p) len = true) : ∃ n, len = some n ∧ (n = 16 ∨ n = 32 ∨ n = 64) := by
  rcases hk with rfl | rfl <;> cases len <;> simp [Valid] at hv <;> exact ⟨_, rfl, by omega⟩

theorem valid_bfloat (k : FltKind) (hk : k = .bfloatbe ∨ k = .bfloatle) (p : Nat) (len : Option Nat)
    (hv : Valid (.flt k p) len = true) : len = none ∨ len = some 16 := by
  rcases hk with rfl | rfl <;> cases len <;> simp [Valid] at hv <;> simp [hv]

theorem valid_bool (a : BoolArg) (len : Option Nat) (hv : Valid (.bool a) len = true) :
    a.valid = true ∧ (len = none ∨ len = some 1) := by
  cases len <;> simp [Valid] at hv <;> simp [hv]

theorem valid_bytes (d : List Nat) (len : Option Nat) (hv : Valid (.bytes d) len = true) :
    (∀ x ∈ d, x < 256) ∧ (len = none ∨ len = some d.length) := by
  cases len <;> simp [Valid] at hv
  · exact ⟨hv, Or.inl rfl⟩
  · exact ⟨hv.1, Or.inr (by rw [hv.2])⟩

theorem valid_bits (b : Bits) (len : Option Nat) (hv : Valid (.bits b) len = true) :
    len = none ∨ len = some b.length := by
  cases len <;> simp [Valid] at hv <;> simp [hv]

theorem resultLen_some (q : Req) (n : Nat) : resultLen q (some n) = n * q.kind.multiplier := rfl

theorem encode_length' (q : Req) (len : Option Nat) (hv : Valid q len = true) :
    (encode q (resultLen q len)).length = resultLen q len := by
  cases q with
  | int k v =>
    obtain ⟨n, rfl, hn, hc, _⟩ := valid_int k v len hv
    rw [resultLen_some]; simp only [Req.kind, kind_mult_int, Nat.mul_one]
    cases k <;> simp only [encode, natToBits_length, intToBits]
    all_goals
      rw [bytesRev_length' _ (by rw [natToBits_length]; exact step8_dvd n (by simpa [IntKind.kind, Kind.allowed] using hc)),
        natToBits_length]
  | str k s =>
    obtain ⟨hall, hl⟩ := valid_str k s len hv
    have h3 := (str_set_valid k s hall).2.2
    have hres : resultLen (.str k s) len = (k.canon s).length * k.width := by
      rcases hl with rfl | rfl
      · simp [resultLen, bitLen, naturalLen]
      · rw [resultLen_some]; simp [Req.kind, kind_mult_str]
    rw [hres]; simpa [encode] using h3
  | flt k p =>
    cases k
    · obtain ⟨n, rfl, hn⟩ := valid_float _ (Or.inl rfl) p len hv
      rw [resultLen_some]; simp only [Req.kind, kind_mult_flt, Nat.mul_one, encode]
      rw [packFloat_length, fltFmt_width _ hn]
    · obtain ⟨n, rfl, hn⟩ := valid_float _ (Or.inr rfl) p len hv
      rw [resultLen_some]; simp only [Req.kind, kind_mult_flt, Nat.mul_one, encode]
      rw [bytesRev_length' _ (by rw [packFloat_length, fltFmt_width _ hn]; rcases hn with rfl | rfl | rfl <;> decide),
        packFloat_length, fltFmt_width _ hn]
    · have hr : resultLen (.flt .bfloatbe p) len = 16 := by
        rcases valid_bfloat _ (Or.inl rfl) p len hv with rfl | rfl <;> rfl
      rw [hr]; simp [encode, packFloat_length, Ieee.Fmt.width, Ieee.f32]
    · have hr : resultLen (.flt .bfloatle p) len = 16 := by
        rcases valid_bfloat _ (Or.inr rfl) p len hv with rfl | rfl <;> rfl
      rw [hr]; simp only [encode]
      rw [bytesRev_length' _ (by simp [packFloat_length, Ieee.Fmt.width, Ieee.f32])]
      simp [packFloat_length, Ieee.Fmt.width, Ieee.f32]
  | bool a =>
    have hr : resultLen (.bool a) len = 1 := by
      rcases (valid_bool a len hv).2 with rfl | rfl <;> rfl
    rw [hr]; cases a <;> rfl
  | bytes d =>
    have hr : resultLen (.bytes d) len = d.length * 8 := by
      rcases (valid_bytes d len hv).2 with rfl | rfl <;> rfl
    rw [hr]; simp [encode, fromBytes_length]
  | bits b =>
    have hr : resultLen (.bits b) len = b.length := by
      rcases valid_bits b len hv with rfl | rfl
      · rfl
      · rw [resultLen_some]; simp [Req.kind, Kind.multiplier]
    rw [hr]; rfl
  | pad => simp [encode]


theorem setInt_valid (k : IntKind) (v : Int) (n : Nat) (cur : Option Nat) (hn : n ≠ 0)
    (hc : k.kind.allowed.contains n = true)
    (hr : (if k.signed then decide (-((2 : Int) ^ (n - 1)) ≤ v ∧ v < (2 : Int) ^ (n - 1)) else decide (0 ≤ v ∧ v < (2 : Int) ^ n)) = true) :
    setInt k v (some n) cur = .ok (encode (.int k v) n) := by
  unfold setInt
  rw [lengthOrCur_some]
  obtain ⟨m, rfl⟩ : ∃ m, n = m + 1 := ⟨n - 1, by omega⟩
  simp only
  have h2 := int2bitstore_valid k v (m + 1) hr
  have h8 : ¬ (k.wholeByte = true ∧ (m + 1) % 8 ≠ 0) := by
    rintro ⟨hw, h8⟩
    have : 8 ∣ m + 1 := by
      apply step8_dvd
      cases k <;> simp [IntKind.wholeByte] at hw <;> simpa [IntKind.kind, Kind.allowed] using hc
    omega
  rw [if_neg h8]
  unfold intle2bitstore
  rw [h2]
  cases k <;> simp [IntKind.little, IntKind.signed, encode]

theorem setBool_valid (a : BoolArg) (h : a.valid = true) : setBool a = .ok (encode (.bool a) 1) := by
  cases a with
  | py b => rfl
  | int i =>
    simp [BoolArg.valid] at h
    rcases h with rfl | rfl <;> simp [setBool, encode]
  | str s =>
    simp only [BoolArg.valid, decide_eq_true_eq] at h
    rcases h with rfl | rfl | rfl | rfl <;> simp [setBool, encode]

theorem dtSet_valid (q : Req) (len : Option Nat) (hv : Valid q len = true) (cur : Option Nat) :
    dtSet (dtOf q len) q cur = .ok (encode q (resultLen q len)) := by
  cases q with
  | int k v =>
    obtain ⟨n, rfl, hn, hc, hr⟩ := valid_int k v len hv
    simp only [dtSet, dtOf, Req.kind, kind_needs_int, if_true, Dt.bitlength, Option.map_some, kind_mult_int,
      Nat.mul_one, rawSet, resultLen_some]
    exact setInt_valid k v n cur hn hc hr
  | str k s =>
    obtain ⟨hall, _⟩ := valid_str k s len hv
    simp only [dtSet, dtOf, Req.kind, kind_needs_str, if_true, rawSet]
    rw [(str_set_valid k s hall).1]; rfl
  | flt k p =>
    cases k
    · obtain ⟨n, rfl, hn⟩ := valid_float _ (Or.inl rfl) p len hv
      simp only [dtSet, dtOf, Req.kind, kind_needs_flt, if_true, Dt.bitlength, Option.map_some, kind_mult_flt,
        Nat.mul_one, rawSet, resultLen_some, setFlt, lengthOrCur_some, if_pos hn, float2bitstore, FltKind.big,
        encode, fltFmt]
    · obtain ⟨n, rfl, hn⟩ := valid_float _ (Or.inr rfl) p len hv
      simp only [dtSet, dtOf, Req.kind, kind_needs_flt, if_true, Dt.bitlength, Option.map_some, kind_mult_flt,
        Nat.mul_one, rawSet, resultLen_some, setFlt, lengthOrCur_some, if_pos hn, float2bitstore, FltKind.big,
        encode, fltFmt]
      simp
    · rcases valid_bfloat _ (Or.inl rfl) p len hv with rfl | rfl <;>
        simp [dtSet, dtOf, Req.kind, FltKind.kind, Kind.setNeedsLength, Kind.allowed, Allowed.onlyOne, Dt.bitlength,
          Kind.multiplier, rawSet, setFlt, bfloat2bitstore, FltKind.big, encode]
    · rcases valid_bfloat _ (Or.inr rfl) p len hv with rfl | rfl <;>
        simp [dtSet, dtOf, Req.kind, FltKind.kind, Kind.setNeedsLength, Kind.allowed, Allowed.onlyOne, Dt.bitlength,
          Kind.multiplier, rawSet, setFlt, bfloat2bitstore, FltKind.big, encode]
  | bool a =>
    obtain ⟨ha, hl⟩ := valid_bool a len hv
    have hr : resultLen (.bool a) len = 1 := by rcases hl with rfl | rfl <;> rfl
    rw [hr]
    simp only [dtSet, dtOf, Req.kind, Kind.setNeedsLength, rawSet]
    exact setBool_valid a ha
  | bytes d => simp [dtSet, dtOf, Req.kind, Kind.setNeedsLength, rawSet, encode]
  | bits b => simp [dtSet, dtOf, Req.kind, Kind.setNeedsLength, rawSet, encode]
  | pad =>
    cases len with
    | none => rfl
    | some n => simp [dtSet, dtOf, Req.kind, Kind.setNeedsLength, rawSet, encode, Dt.bitlength, resultLen_some]

theorem dtOf_bitlength_some (q : Req) (n : Nat) : (dtOf q (some n)).bitlength = some (resultLen q (some n)) := rfl

/-- With no length given the resolved dtype either has no bit length or has the value's own. -/
theorem dtOf_bitlength_none (q : Req) (hv : Valid q none = true) :
    (dtOf q none).bitlength = none ∨ (dtOf q none).bitlength = some (resultLen q none) := by
  cases q with
  | int k v => obtain ⟨n, h, _⟩ := valid_int k v none hv; cases h
  | str k s => left; cases k <;> rfl
  | flt k p =>
    cases k
    · obtain ⟨n, h, _⟩ := valid_float _ (Or.inl rfl) p none hv; cases h
    · obtain ⟨n, h, _⟩ := valid_float _ (Or.inr rfl) p none hv; cases h
    · right; rfl
    · right; rfl
  | bool a => right; rfl
  | bytes d => left; rfl
  | bits b => left; rfl
  | pad => left; rfl


theorem check_len (q : Req) (len : Option Nat) (hv : Valid q len = true) (n : Nat)
    (h : (dtOf q len).bitlength = some n) : (encode q (resultLen q len)).length = n := by
  rw [encode_length' q len hv]
  cases len with
  | some m => rw [dtOf_bitlength_some] at h; exact Option.some.inj h
  | none =>
    rcases dtOf_bitlength_none q hv with h' | h'
    · rw [h'] at h; cases h
    · rw [h'] at h; exact Option.some.inj h

theorem dtBuild_valid (q : Req) (len : Option Nat) (hv : Valid q len = true) :
    dtBuild (dtOf q len) q = .ok (encode q (resultLen q len)) := by
  unfold dtBuild
  rw [dtSet_valid q len hv]
  simp only
  cases h : (dtOf q len).bitlength with
  | none => rfl
  | some n => simp only; rw [if_neg (by rw [check_len q len hv n h]; simp)]

theorem viaBuild_valid (q : Req) (len : Option Nat) (hv : Valid q len = true) :
    viaBuild q len = .ok (encode q (resultLen q len)) := by
  unfold viaBuild
  rw [getDtype_valid q len hv]
  exact dtBuild_valid q len hv

theorem bitstoreFromToken_valid (q : Req) (len : Option Nat) (hv : Valid q len = true) :
    bitstoreFromToken q len = .ok (encode q (resultLen q len)) := by
  unfold bitstoreFromToken
  rw [getDtype_valid q len hv]
  simp only
  rw [dtBuild_valid q len hv]
  simp only
  cases len with
  | none => rfl
  | some m =>
    simp only [dtOf_bitlength_some]
    rw [if_neg (by rw [encode_length' q (some m) hv]; simp)]

theorem initWith_valid (q : Req) (len : Option Nat) (hv : Valid q len = true) :
    initWith (dtOf q len) q = .ok (encode q (resultLen q len)) := by
  unfold initWith
  rw [dtSet_valid q len hv]
  simp only
  cases h : (dtOf q len).bitlength with
  | none => rfl
  | some n => simp only; rw [if_neg (by rw [check_len q len hv n h]; simp)]

theorem generic_kw_valid (q : Req) (len : Option Nat) (hv : Valid q len = true) :
    (match getDtype q.kind len with
      | .error e => Except.error e
      | .ok d => initWith d q) = .ok (encode q (resultLen q len)) := by
  rw [getDtype_valid q len hv]
  exact initWith_valid q len hv

theorem viaKeyword_valid (q : Req) (len : Option Nat) (hv : Valid q len = true) :
    viaKeyword q len = .ok (encode q (resultLen q len)) := by
  cases q with
  | bytes d =>
    obtain ⟨_, hl⟩ := valid_bytes d len hv
    rcases hl with rfl | rfl
    · rfl
    · simp only [viaKeyword, Option.map_some, setBytesWithTruncation]
      rw [if_neg (by omega)]
      rw [List.take_of_length_le (by rw [fromBytes_length])]
      rfl
  | int k v => exact generic_kw_valid _ len hv
  | str k s => exact generic_kw_valid _ len hv
  | flt k p => exact generic_kw_valid _ len hv
  | bool a => exact generic_kw_valid _ len hv
  | bits b => exact generic_kw_valid _ len hv
  | pad => exact generic_kw_valid _ len hv

theorem viaNameLen_valid (q : Req) (len : Option Nat) (hv : Valid q len = true) :
    viaNameLen q len = .ok (encode q (resultLen q len)) := by
  cases len with
  | none => exact viaKeyword_valid q none hv
  | some n => exact generic_kw_valid q (some n) hv

theorem viaProp_valid (q : Req) (len : Option Nat) (hv : Valid q len = true) (hp : q ≠ .pad) :
    viaProp q ((bitLen q len).getD 0) = .ok (encode q (resultLen q len)) := by
  unfold viaProp
  cases q with
  | int k v =>
    obtain ⟨n, rfl, hn, hc, hr⟩ := valid_int k v len hv
    simp only [bitLen, Req.kind, kind_mult_int, Option.map_some, Nat.mul_one, Option.getD_some, rawSet, resultLen_some]
    have := setInt_valid k v n none hn hc hr
    unfold setInt at this ⊢
    rw [lengthOrCur_some] at this
    have hl : lengthOrCur none (some n) = some n := by simp [lengthOrCur, hn]
    rw [hl]; exact this
  | str k s =>
    obtain ⟨hall, _⟩ := valid_str k s len hv
    simp only [rawSet]
    rw [(str_set_valid k s hall).1]; rfl
  | flt k p =>
    cases k
    · obtain ⟨n, rfl, hn⟩ := valid_float _ (Or.inl rfl) p len hv
      have hl : lengthOrCur none (some n) = some n := by
        have : n ≠ 0 := by omega
        simp [lengthOrCur, this]
      simp only [bitLen, Req.kind, kind_mult_flt, Option.map_some, Nat.mul_one, Option.getD_some, rawSet, setFlt, hl,
        if_pos hn, resultLen_some, float2bitstore, FltKind.big, encode, fltFmt]
      simp
    · obtain ⟨n, rfl, hn⟩ := valid_float _ (Or.inr rfl) p len hv
      have hl : lengthOrCur none (some n) = some n := by
        have : n ≠ 0 := by omega
        simp [lengthOrCur, this]
      simp only [bitLen, Req.kind, kind_mult_flt, Option.map_some, Nat.mul_one, Option.getD_some, rawSet, setFlt, hl,
        if_pos hn, resultLen_some, float2bitstore, FltKind.big, encode, fltFmt]
      simp
    · simp [rawSet, setFlt, bfloat2bitstore, FltKind.big, encode]
    · simp [rawSet, setFlt, bfloat2bitstore, FltKind.big, encode]
  | bool a =>
    obtain ⟨ha, hl⟩ := valid_bool a len hv
    have hr : resultLen (.bool a) len = 1 := by rcases hl with rfl | rfl <;> rfl
    rw [hr]; exact setBool_valid a ha
  | bytes d => simp [rawSet, encode]
  | bits b => simp [rawSet, encode]
  | pad => exact absurd rfl hp

theorem viaPropLen_valid (q : Req) (len : Option Nat) (hv : Valid q len = true) (hp : q ≠ .pad ∨ len ≠ none) :
    viaPropLen q len ((bitLen q len).getD 0) = .ok (encode q (resultLen q len)) := by
  cases len with
  | none =>
    rcases hp with hp | hp
    · exact viaProp_valid q none hv hp
    · exact absurd rfl hp
  | some n =>
    simp only [viaPropLen]
    rw [getDtype_valid q (some n) hv]
    simp only
    rw [dtSet_valid q (some n) hv]
    have hb : (dtOf q (some n)).bitlength = some (encode q (resultLen q (some n))).length := by
      rw [dtOf_bitlength_some, encode_length' q (some n) hv]
    rw [hb]; simp


theorem stripSpace_canon (k : StrKind) (s : List Char) : k.canon (stripSpace s) = k.canon s := by
  have : tidy (stripSpace s) = tidy s := by
    unfold tidy stripSpace
    rw [List.filter_filter]; simp
  cases k <;> simp [StrKind.canon, this]

theorem toString_one : (toString (1 : Int)).toList = ['1'] := by decide
theorem toString_zero : (toString (0 : Int)).toList = ['0'] := by decide

theorem tokenValue_valid (q : Req) (len : Option Nat) (hv : Valid q len = true) (hb : ∀ d, q ≠ .bytes d) :
    ∃ q', tokenValue q = .ok q' ∧ Valid q' len = true ∧
      encode q' (resultLen q' len) = encode q (resultLen q len) := by
  cases q with
  | int k v => exact ⟨_, rfl, hv, rfl⟩
  | flt k p => exact ⟨_, rfl, hv, rfl⟩
  | bits b => exact ⟨_, rfl, hv, rfl⟩
  | pad => exact ⟨_, rfl, hv, rfl⟩
  | bytes d => exact absurd rfl (hb d)
  | str k s =>
    refine ⟨.str k (stripSpace s), rfl, ?_, ?_⟩
    · cases len <;> simpa [Valid, stripSpace_canon] using hv
    · simp [encode, stripSpace_canon]
  | bool a =>
    obtain ⟨ha, hl⟩ := valid_bool a len hv
    have hres : ∀ a', resultLen (.bool a') len = 1 := by intro a'; rcases hl with rfl | rfl <;> rfl
    cases a with
    | py b =>
      refine ⟨_, rfl, ?_, ?_⟩
      · rcases hl with rfl | rfl <;> cases b <;> decide
      · rw [hres, hres]; cases b <;> decide
    | int i =>
      simp [BoolArg.valid] at ha
      refine ⟨_, rfl, ?_, ?_⟩
      · rcases hl with rfl | rfl <;> rcases ha with rfl | rfl <;> decide
      · rw [hres, hres]; rcases ha with rfl | rfl <;> decide
    | str s =>
      simp only [BoolArg.valid, decide_eq_true_eq] at ha
      refine ⟨_, rfl, ?_, ?_⟩
      · rcases hl with rfl | rfl <;> rcases ha with rfl | rfl | rfl | rfl <;> decide
      · rw [hres, hres]; rcases ha with rfl | rfl | rfl | rfl <;> decide


theorem viaToken_valid (q : Req) (len : Option Nat) (hv : Valid q len = true) (hb : ∀ d, q ≠ .bytes d) :
    viaToken q len = .ok (encode q (resultLen q len)) := by
  obtain ⟨q', h1, h2, h3⟩ := tokenValue_valid q len hv hb
  unfold viaToken
  rw [h1]; simp only
  rw [bitstoreFromToken_valid q' len h2, h3]

theorem viaPack_valid (q : Req) (len : Option Nat) (hv : Valid q len = true) :
    viaPack q len = .ok (encode q (resultLen q len)) := by
  cases q with
  | bits b =>
    rcases valid_bits b len hv with rfl | rfl
    · rfl
    · simp [viaPack, encode]
  | int k v => exact bitstoreFromToken_valid _ len hv
  | str k s => exact bitstoreFromToken_valid _ len hv
  | flt k p => exact bitstoreFromToken_valid _ len hv
  | bool a => exact bitstoreFromToken_valid _ len hv
  | bytes d => exact bitstoreFromToken_valid _ len hv
  | pad => exact bitstoreFromToken_valid _ len hv

theorem routes_agree' (q : Req) (len : Option Nat) (hv : Valid q len = true)
    (r : Route) (ha : applicable r q len = true) :
    route r q len = .ok (encode q (resultLen q len)) := by
  cases r with
  | kw => exact viaKeyword_valid q len hv
  | nameLen => exact viaNameLen_valid q len hv
  | prop =>
    refine viaProp_valid q len hv ?_
    rintro rfl; simp [applicable] at ha
  | propLen =>
    refine viaPropLen_valid q len hv ?_
    by_cases hq : q = .pad
    · subst hq; right; rintro rfl; simp [applicable] at ha
    · left; exact hq
  | token =>
    refine viaToken_valid q len hv ?_
    rintro d rfl; simp [applicable] at ha
  | build => exact viaBuild_valid q len hv
  | pack => exact viaPack_valid q len hv


/-! ### a successful creation has the requested length -/

theorem int2bitstore_length (v : Int) (l : Nat) (s : Bool) (x : Bits) (h : int2bitstore v l s = .ok x) : x.length = l := by
  unfold int2bitstore at h
  split at h <;> split at h <;> cases h <;> simp [intToBits]

theorem mapM_some_length {α β} (f : α → Option β) (l : List α) (r : List β) (h : l.mapM f = some r) : r.length = l.length := by
  induction l generalizing r with
  | nil => simp at h; subst h; rfl
  | cons a t ih =>
    rw [mapM_option_cons] at h
    cases hf : f a with
    | none => rw [hf] at h; cases h
    | some b =>
      rw [hf] at h
      cases ht : t.mapM f with
      | none => rw [ht] at h; cases h
      | some bs =>
        rw [ht] at h; cases h
        simp [ih bs ht]

theorem flatMap_natToBits_length (w : Nat) (ds : List Nat) : (ds.flatMap (natToBits w)).length = ds.length * w := by
  induction ds with
  | nil => simp
  | cons a t ih => rw [List.flatMap_cons, List.length_append, ih, natToBits_length, List.length_cons]; ring

theorem digitsToBits_length (w : Nat) (val? : Char → Option Nat) (t : List Char) (b : Bits)
    (h : digitsToBits w val? t = .ok b) : b.length = t.length * w := by
  unfold digitsToBits at h
  cases hm : t.mapM val? with
  | none => rw [hm] at h; cases h
  | some ds =>
    rw [hm] at h; cases h
    rw [flatMap_natToBits_length, mapM_some_length _ _ _ hm]

theorem setInt_length (k : IntKind) (v : Int) (m : Nat) (cur : Option Nat) (b : Bits)
    (hc : k.kind.allowed.contains m = true) (h : setInt k v (some m) cur = .ok b) : b.length = m := by
  unfold setInt at h
  rw [lengthOrCur_some] at h
  cases m with
  | zero => cases h
  | succ m =>
    simp only at h
    split at h
    · cases h
    by_cases hl : k.little = true
    · rw [if_pos hl] at h
      unfold intle2bitstore at h
      cases hx : int2bitstore v (m + 1) k.signed with
      | error e => rw [hx] at h; cases h
      | ok x =>
        rw [hx] at h; cases h
        have := int2bitstore_length _ _ _ _ hx
        have h8 : 8 ∣ m + 1 := by
          apply step8_dvd
          cases k <;> simp [IntKind.little] at hl <;> simpa [IntKind.kind, Kind.allowed] using hc
        rw [bytesRev_length' x (by rw [this]; exact h8), this]
    · rw [if_neg hl] at h
      exact int2bitstore_length _ _ _ _ h

section
attribute [local irreducible] packFloat unpackFloat

theorem float2bitstore_length (p l : Nat) (big : Bool) (hl : l = 16 ∨ l = 32 ∨ l = 64) :
    (float2bitstore p l big).length = l := by
  have hw : (packFloat (fltFmt l) p).length = l := by rw [packFloat_length]; exact fltFmt_width l hl
  have h8 : 8 ∣ l := by rcases hl with rfl | rfl | rfl <;> decide
  unfold float2bitstore
  simp only []
  change (if big = true then packFloat (fltFmt l) p else bytesRev (packFloat (fltFmt l) p)).length = l
  cases big
  · rw [if_neg (by simp), bytesRev_length' _ (by rw [hw]; exact h8), hw]
  · rw [if_pos rfl, hw]

theorem bfloat2bitstore_length (p : Nat) (big : Bool) : (bfloat2bitstore p big).length = 16 := by
  have hw : ((packFloat Ieee.f32 p).take 16).length = 16 := by
    rw [List.length_take, packFloat_length]; simp [Ieee.Fmt.width, Ieee.f32]
  unfold bfloat2bitstore
  simp only []
  cases big
  · rw [if_neg (by simp), bytesRev_length' _ (by rw [hw]; decide), hw]
  · rw [if_pos rfl, hw]

theorem setFlt_length (k : FltKind) (p m : Nat) (cur : Option Nat) (b : Bits)
    (h : setFlt k p (some m) cur = .ok b) : b.length = m := by
  cases k
  · simp only [setFlt, lengthOrCur_some] at h
    split at h
    · cases h; rename_i hm; exact float2bitstore_length p m _ hm
    · cases h
  · simp only [setFlt, lengthOrCur_some] at h
    split at h
    · cases h; rename_i hm; exact float2bitstore_length p m _ hm
    · cases h
  · simp only [setFlt] at h
    split at h
    · cases h
    · rename_i hm; cases h; rw [bfloat2bitstore_length]; omega
  · simp only [setFlt] at h
    split at h
    · cases h
    · rename_i hm; cases h; rw [bfloat2bitstore_length]; omega

end

theorem setBool_length (a : BoolArg) (b : Bits) (h : setBool a = .ok b) : b.length = 1 := by
  unfold setBool at h
  cases a with
  | py x => cases h; rfl
  | int i => simp only at h; split at h <;> [skip; split at h] <;> cases h <;> rfl
  | str s => simp only at h; split at h <;> [skip; split at h] <;> cases h <;> rfl


theorem getDtype_some (k : Kind) (m : Nat) (d : Dt) (h : getDtype k (some m) = .ok d) :
    d = ⟨k, some m⟩ ∧ k.allowed.contains m = true := by
  unfold getDtype at h
  simp only at h
  split at h
  · cases h; rename_i hc; exact ⟨rfl, hc⟩
  · cases h

theorem tokenValue_kind (q q' : Req) (h : tokenValue q = .ok q') : q'.kind = q.kind := by
  cases q with
  | bool a => cases a <;> cases h <;> rfl
  | bytes d => cases h
  | int k v => cases h; rfl
  | str k s => cases h; rfl
  | flt k p => cases h; rfl
  | bits b => cases h; rfl
  | pad => cases h; rfl

theorem dtBuild_length (d : Dt) (q : Req) (n : Nat) (b : Bits) (hd : d.bitlength = some n)
    (h : dtBuild d q = .ok b) : b.length = n := by
  unfold dtBuild at h
  cases hs : dtSet d q (some 0) with
  | error e => rw [hs] at h; cases h
  | ok x =>
    rw [hs, hd] at h
    simp only at h
    split at h
    · cases h
    · cases h; rename_i hx; simpa using hx

theorem bitstoreFromToken_length (q : Req) (m : Nat) (b : Bits)
    (h : bitstoreFromToken q (some m) = .ok b) : b.length = m * q.kind.multiplier := by
  unfold bitstoreFromToken at h
  cases hg : getDtype q.kind (some m) with
  | error e => rw [hg] at h; cases h
  | ok d =>
    rw [hg] at h
    obtain ⟨rfl, _⟩ := getDtype_some _ _ _ hg
    simp only at h
    cases hb : dtBuild ⟨q.kind, some m⟩ q with
    | error e => rw [hb] at h; cases h
    | ok x =>
      rw [hb] at h
      simp only [Dt.bitlength, Option.map_some] at h
      split at h
      · cases h
      · cases h; exact dtBuild_length _ _ _ _ rfl hb


theorem ite_ne_ok (a b : Option Nat) (x y : Bits)
    (h : (if a ≠ b then (Except.error Err.value : Except Err Bits) else Except.ok x) = Except.ok y) : a = b ∧ x = y := by
  by_cases hab : a = b
  · rw [if_neg (by simpa using hab)] at h; cases h; exact ⟨hab, rfl⟩
  · rw [if_pos hab] at h; cases h

theorem initWith_length (d : Dt) (q : Req) (n : Nat) (b : Bits) (hd : d.bitlength = some n)
    (h : initWith d q = .ok b) : b.length = n := by
  unfold initWith at h
  cases hs : dtSet d q none with
  | error e => rw [hs] at h; cases h
  | ok x =>
    rw [hs, hd] at h
    simp only at h
    split at h
    · cases h
    · cases h; rename_i hx; simpa using hx

theorem generic_kw_length (q : Req) (m : Nat) (b : Bits)
    (h : (match getDtype q.kind (some m) with
      | .error e => Except.error e
      | .ok d => initWith d q) = .ok b) : b.length = m * q.kind.multiplier := by
  cases hg : getDtype q.kind (some m) with
  | error e => rw [hg] at h; cases h
  | ok d =>
    rw [hg] at h
    obtain ⟨rfl, _⟩ := getDtype_some _ _ _ hg
    exact initWith_length _ _ _ _ rfl h

theorem route_ok_length' (r : Route) (q : Req) (len : Option Nat) (n : Nat) (b : Bits)
    (hr : r ≠ .prop) (hn : bitLen q len = some n) (h : route r q len = .ok b) : b.length = n := by
  cases len with
  | none => simp [bitLen] at hn
  | some m =>
    have hn' : n = m * q.kind.multiplier := by simpa [bitLen] using hn.symm
    subst hn'
    cases r with
    | prop => exact absurd rfl hr
    | kw =>
      cases q with
      | bytes d =>
        simp only [route, viaKeyword, Option.map_some, setBytesWithTruncation] at h
        split at h
        · cases h
        · cases h
          rename_i hle
          rw [List.length_take, fromBytes_length]
          simp only [Req.kind, Kind.multiplier]; omega
      | int k v => exact generic_kw_length _ m b h
      | str k s => exact generic_kw_length _ m b h
      | flt k p => exact generic_kw_length _ m b h
      | bool a => exact generic_kw_length _ m b h
      | bits x => exact generic_kw_length _ m b h
      | pad => exact generic_kw_length _ m b h
    | nameLen =>
      exact generic_kw_length q m b h
    | propLen =>
      simp only [route, viaPropLen] at h
      cases hg : getDtype q.kind (some m) with
      | error e => rw [hg] at h; cases h
      | ok d =>
        rw [hg] at h
        obtain ⟨rfl, _⟩ := getDtype_some _ _ _ hg
        simp only at h
        cases hs : dtSet ⟨q.kind, some m⟩ q none with
        | error e => rw [hs] at h; cases h
        | ok x =>
          rw [hs] at h
          obtain ⟨h1, rfl⟩ := ite_ne_ok _ _ _ _ h
          exact Option.some.inj h1
    | token =>
      simp only [route, viaToken] at h
      cases ht : tokenValue q with
      | error e => rw [ht] at h; cases h
      | ok q' =>
        rw [ht] at h
        simp only at h
        rw [← tokenValue_kind q q' ht]
        exact bitstoreFromToken_length q' m b h
    | build =>
      simp only [route, viaBuild] at h
      cases hg : getDtype q.kind (some m) with
      | error e => rw [hg] at h; cases h
      | ok d =>
        rw [hg] at h
        obtain ⟨rfl, _⟩ := getDtype_some _ _ _ hg
        exact dtBuild_length _ _ _ _ rfl h
    | pack =>
      cases q with
      | bits x =>
        simp only [route, viaPack] at h
        split at h
        · cases h
        · cases h; rename_i hx; simp [Req.kind, Kind.multiplier]; omega
      | int k v => exact bitstoreFromToken_length _ m b h
      | str k s => exact bitstoreFromToken_length _ m b h
      | flt k p => exact bitstoreFromToken_length _ m b h
      | bool a => exact bitstoreFromToken_length _ m b h
      | bytes d => exact bitstoreFromToken_length _ m b h
      | pad => exact bitstoreFromToken_length _ m b h


/-! ### reading -/

section
attribute [local irreducible] packFloat unpackFloat

theorem groupsOf_one (b : Bits) :
    (groupsOf 1 b.length b).map (fun g => digitChar (bitsToNat g)) = b.map fun x => if x then '1' else '0' := by
  induction b with
  | nil => rfl
  | cons x t ih =>
    simp only [List.length_cons, groupsOf, List.take_succ_cons, List.take_zero, List.drop_succ_cons, List.drop_zero,
      List.map_cons, ih]
    cases x <;> simp <;> decide

theorem bytesRev_zeros16 : bytesRev (List.replicate 16 false) = List.replicate 16 false := by decide

theorem validLen_allowed (k : Kind) (n : Nat) (h : ValidLen k n = true) : k.allowed.contains n = true := by
  cases k <;> simp [ValidLen] at h <;> simp [Kind.allowed, Allowed.contains] <;> omega

theorem getFn_valid (k : Kind) (b : Bits) (hl : ValidLen k b.length = true) :
    getFn k b = .ok (decodeSpec k b) := by
  unfold getFn
  rw [if_neg (by simp [validLen_allowed k _ hl])]
  cases k
  case uint => simp [ValidLen] at hl; simp [getRaw, decodeSpec, hl]
  case int => simp [ValidLen] at hl; simp [getRaw, decodeSpec, hl]
  case uintbe => simp [ValidLen] at hl; simp [getRaw, decodeSpec, hl]
  case intbe => simp [ValidLen] at hl; simp [getRaw, decodeSpec, hl]
  case uintle =>
    simp [ValidLen] at hl
    simp [getRaw, decodeSpec, hl, bytesRev_value' b (Nat.dvd_of_mod_eq_zero hl.2)]
  case intle => simp [ValidLen] at hl; simp [getRaw, decodeSpec, hl]
  case hex => simp [ValidLen] at hl; simp [getRaw, decodeSpec, bitsToDigits, hl]
  case oct => simp [ValidLen] at hl; simp [getRaw, decodeSpec, bitsToDigits, hl]
  case bin => simp [getRaw, decodeSpec, bitsToDigits, groupsOf_one, Nat.mod_one]
  case float =>
    have : b.length = 16 ∨ b.length = 32 ∨ b.length = 64 := by simpa [ValidLen, or_assoc] using hl
    simp [getRaw, decodeSpec, this]
  case floatle =>
    have : b.length = 16 ∨ b.length = 32 ∨ b.length = 64 := by simpa [ValidLen, or_assoc] using hl
    simp [getRaw, decodeSpec, this]
  case bfloat =>
    have h16 : b.length = 16 := by simpa [ValidLen] using hl
    simp [getRaw, decodeSpec, h16, fltFmt]
  case bfloatle =>
    have h16 : b.length = 16 := by simpa [ValidLen] using hl
    have hrev : bytesRev (List.replicate 16 false ++ b) = bytesRev b ++ List.replicate 16 false := by
      rw [bytesRev_append _ b (by simp), bytesRev_zeros16]
    simp only [getRaw, decodeSpec, List.length_append, List.length_replicate, h16, fltFmt, hrev]
    simp
  case bits => rfl
  case bool =>
    have h1 : b.length = 1 := by simpa [ValidLen] using hl
    match b, h1 with
    | [x], _ => rfl
  case bytes => simp [ValidLen] at hl; simp [getRaw, decodeSpec, hl]
  case pad => rfl

end


theorem itemsOf_mul (k : Kind) (n : Nat) (hl : ValidLen k n = true) : itemsOf k n * k.multiplier = n := by
  cases k <;> simp [ValidLen] at hl <;> simp [itemsOf, Kind.multiplier] <;> omega

theorem getDtype_items (k : Kind) (n : Nat) (hl : ValidLen k n = true) :
    getDtype k (some (itemsOf k n)) = .ok ⟨k, some (itemsOf k n)⟩ := by
  have : k.allowed.contains (itemsOf k n) = true := by
    cases k <;> first
      | (simp [Kind.allowed, Allowed.contains]; done)
      | (have := validLen_allowed _ n hl; simpa [itemsOf, Kind.multiplier] using this)
  simp [getDtype, this]

theorem readFn_at (k : Kind) (pre body post : Bits) (hl : ValidLen k body.length = true) :
    readFn ⟨k, some (itemsOf k body.length)⟩ (pre ++ body ++ post) pre.length = .ok (decodeSpec k body) := by
  have hdrop : ((pre ++ body ++ post).drop pre.length).take body.length = body := by
    rw [List.append_assoc, List.drop_left' rfl, List.take_left' rfl]
  unfold readFn
  cases ho : k.allowed.onlyOne with
  | some n' =>
    simp only
    have : n' = body.length := by
      cases k <;> simp [Kind.allowed, Allowed.onlyOne] at ho <;> simp [ValidLen] at hl <;> omega
    rw [this, if_neg (by simp [List.length_append]), hdrop]; exact getFn_valid k body hl
  | none =>
    simp only [Dt.bitlength, Option.map_some, itemsOf_mul k _ hl]
    rw [if_neg (by simp [List.length_append]), hdrop]
    exact getFn_valid k body hl

theorem readFn_whole (k : Kind) (b : Bits) (hl : ValidLen k b.length = true) :
    readFn ⟨k, some (itemsOf k b.length)⟩ b 0 = .ok (decodeSpec k b) := by
  have := readFn_at k [] b [] hl
  simpa using this

theorem stretchy_ok (k : Kind) (b : Bits) (hl : ValidLen k b.length = true) :
    ∃ d', resolveStretchy ⟨k, k.allowed.onlyOne⟩ b.length = .ok d' ∧ d'.bitlength = some b.length ∧
      readFn d' b 0 = .ok (decodeSpec k b) := by
  have hw := readFn_whole k b hl
  have hm := itemsOf_mul k _ hl
  have hg := getDtype_items k _ hl
  cases ho : k.allowed.onlyOne with
  | some n' =>
    have hn : n' = itemsOf k b.length ∧ k.multiplier = 1 := by
      cases k <;> simp [Kind.allowed, Allowed.onlyOne] at ho <;> simp [ValidLen] at hl <;>
        simp [itemsOf, Kind.multiplier] <;> omega
    refine ⟨⟨k, some n'⟩, ?_, ?_, ?_⟩
    · simp [resolveStretchy, Dt.bitlength]
    · simp [Dt.bitlength, hn.1, hm]
    · rw [hn.1]; exact hw
  | none =>
    refine ⟨⟨k, some (itemsOf k b.length)⟩, ?_, ?_, ?_⟩
    · simp only [resolveStretchy, Dt.bitlength, Option.map_none]
      have : b.length % k.multiplier = 0 := by
        rw [← hm]; exact Nat.mul_mod_left _ _
      rw [if_neg (by simp [this])]
      exact hg
    · simp [Dt.bitlength, hm]
    · exact hw

theorem readers_agree' (k : Kind) (b : Bits) (len : Option Nat) (hl : ValidLen k b.length = true)
    (hlen : len = none ∨ len = some (itemsOf k b.length)) (r : Reader) :
    reader r k len b = .ok (decodeSpec k b) := by
  have hf := getFn_valid k b hl
  have hm := itemsOf_mul k _ hl
  have hg := getDtype_items k _ hl
  obtain ⟨d', hs1, hs2, hs3⟩ := stretchy_ok k b hl
  cases r with
  | prop => exact hf
  | propLen =>
    rcases hlen with rfl | rfl
    · exact hf
    · simp only [reader, viaGetPropLen, hg, Dt.bitlength, Option.map_some, hm]
      simp [hf]
  | parse =>
    rcases hlen with rfl | rfl
    · simp only [reader, viaParse, getDtype]; exact hf
    · simp only [reader, viaParse, hg]; exact hf
  | unpack =>
    rcases hlen with rfl | rfl
    · simp only [reader, viaUnpack, getDtype, hs1, hs3]
    · simp only [reader, viaUnpack, hg, resolveStretchy, Dt.bitlength, Option.map_some]
      exact readFn_whole k b hl
  | read =>
    rcases hlen with rfl | rfl
    · simp only [reader, streamRead, getDtype, Nat.sub_zero, hs1, hs3, hs2, Option.getD_some, Nat.zero_add]
      simp
    · simp only [reader, streamRead, hg, resolveStretchy, Dt.bitlength, Option.map_some, readFn_whole k b hl,
        Option.getD_some, Nat.zero_add, hm]
      simp

theorem streamRead_at' (k : Kind) (pre body post : Bits) (hl : ValidLen k body.length = true) :
    streamRead k (some (itemsOf k body.length)) (pre ++ body ++ post) pre.length
      = .ok (decodeSpec k body, pre.length + body.length) := by
  simp only [streamRead, getDtype_items k _ hl, resolveStretchy, Dt.bitlength, Option.map_some,
    readFn_at k pre body post hl, Option.getD_some, itemsOf_mul k _ hl]
  rw [if_neg (by simp [List.length_append])]

section
attribute [local irreducible] packFloat unpackFloat

theorem bitsToInt_intToBits_n (n : Nat) (v : Int) (hn : n ≠ 0)
    (hr : -((2 : Int) ^ (n - 1)) ≤ v ∧ v < (2 : Int) ^ (n - 1)) : bitsToInt (intToBits n v) = v := by
  obtain ⟨k, rfl⟩ : ∃ k, n = k + 1 := ⟨n - 1, by omega⟩
  exact bitsToInt_intToBits' k v (by simpa using hr)

theorem validLen_of_valid (q : Req) (len : Option Nat) (hv : Valid q len = true) :
    ValidLen q.kind (resultLen q len) = true := by
  cases q with
  | int k v =>
    obtain ⟨n, rfl, hn, hc, _⟩ := valid_int k v len hv
    rw [resultLen_some]; simp only [Req.kind, kind_mult_int, Nat.mul_one]
    cases k <;> simp [IntKind.kind, ValidLen, hn]
    all_goals (have := step8_dvd n (by simpa [IntKind.kind, Kind.allowed] using hc); omega)
  | str k s =>
    obtain ⟨_, hl⟩ := valid_str k s len hv
    have hres : resultLen (.str k s) len = (k.canon s).length * k.width := by
      rcases hl with rfl | rfl
      · simp [resultLen, bitLen, naturalLen]
      · rw [resultLen_some]; simp [Req.kind, kind_mult_str]
    rw [hres]; cases k <;> simp [Req.kind, StrKind.kind, ValidLen, StrKind.width]
  | flt k p =>
    cases k
    · obtain ⟨n, rfl, hn⟩ := valid_float _ (Or.inl rfl) p len hv
      rw [resultLen_some]; simp [Req.kind, FltKind.kind, Kind.multiplier, ValidLen]; omega
    · obtain ⟨n, rfl, hn⟩ := valid_float _ (Or.inr rfl) p len hv
      rw [resultLen_some]; simp [Req.kind, FltKind.kind, Kind.multiplier, ValidLen]; omega
    · rcases valid_bfloat _ (Or.inl rfl) p len hv with rfl | rfl <;> rfl
    · rcases valid_bfloat _ (Or.inr rfl) p len hv with rfl | rfl <;> rfl
  | bool a => rcases (valid_bool a len hv).2 with rfl | rfl <;> rfl
  | bytes d =>
    rcases (valid_bytes d len hv).2 with rfl | rfl <;> simp [resultLen, bitLen, naturalLen, Req.kind, Kind.multiplier, ValidLen]
  | bits b => simp [Req.kind, ValidLen]
  | pad => simp [Req.kind, ValidLen]

theorem decode_encode' (q : Req) (len : Option Nat) (hv : Valid q len = true) :
    getFn q.kind (encode q (resultLen q len)) = .ok (valueOf q (resultLen q len)) := by
  have hlen := encode_length' q len hv
  have hvl := validLen_of_valid q len hv
  rw [getFn_valid q.kind _ (by rw [hlen]; exact hvl)]
  congr 1
  cases q with
  | int k v =>
    obtain ⟨n, rfl, hn, hc, hr⟩ := valid_int k v len hv
    rw [resultLen_some] at hlen ⊢
    simp only [Req.kind, kind_mult_int, Nat.mul_one] at hlen ⊢
    have h8 : k.little = true → 8 ∣ n := by
      intro hl; apply step8_dvd
      cases k <;> simp [IntKind.little] at hl <;> simpa [IntKind.kind, Kind.allowed] using hc
    cases k <;> simp only [IntKind.signed, Bool.false_eq_true, if_false, if_true, decide_eq_true_eq] at hr <;>
      simp only [IntKind.kind, decodeSpec, encode, valueOf, RVal.int.injEq]
    · rw [bitsToNat_natToBits n _ (by have := hr.2; zify; rw [Int.toNat_of_nonneg hr.1]; exact_mod_cast this)]
      exact Int.toNat_of_nonneg hr.1
    · exact bitsToInt_intToBits_n n v hn hr
    · rw [bitsToNat_natToBits n _ (by have := hr.2; zify; rw [Int.toNat_of_nonneg hr.1]; exact_mod_cast this)]
      exact Int.toNat_of_nonneg hr.1
    · exact bitsToInt_intToBits_n n v hn hr
    · have hd := h8 rfl
      rw [← bytesRev_value' _ (by rw [bytesRev_length' _ (by simpa using hd)]; simpa using hd),
        bytesRev_involutive' _ (by simpa using hd),
        bitsToNat_natToBits n _ (by have := hr.2; zify; rw [Int.toNat_of_nonneg hr.1]; exact_mod_cast this)]
      exact Int.toNat_of_nonneg hr.1
    · have hd := h8 rfl
      rw [bytesRev_involutive' _ (by simpa [intToBits] using hd)]
      exact bitsToInt_intToBits_n n v hn hr
  | str k s =>
    obtain ⟨hall, _⟩ := valid_str k s len hv
    obtain ⟨_, h2, h3⟩ := str_set_valid k s hall
    have hw : 0 < k.width := by cases k <;> decide
    have hdiv : (((k.canon s).filterMap k.val?).flatMap (natToBits k.width)).length / k.width = (k.canon s).length := by
      rw [h3, Nat.mul_div_cancel _ hw]
    unfold bitsToDigits at h2
    rw [if_neg (by rw [h3]; simp), hdiv] at h2
    simp only [Except.ok.injEq] at h2
    cases k
    · simp only [Req.kind, StrKind.kind, decodeSpec, encode, valueOf, RVal.str.injEq]
      simp only [StrKind.width] at h2 hdiv ⊢; rw [hdiv]; exact h2
    · simp only [Req.kind, StrKind.kind, decodeSpec, encode, valueOf, RVal.str.injEq]
      simp only [StrKind.width] at h2 hdiv ⊢; rw [hdiv]; exact h2
    · simp only [Req.kind, StrKind.kind, decodeSpec, encode, valueOf, RVal.str.injEq]
      simp only [StrKind.width] at h2 hdiv h3 ⊢
      rw [← groupsOf_one, h3, Nat.mul_one]; exact h2
  | flt k p =>
    cases k
    · simp only [Req.kind, FltKind.kind, decodeSpec, valueOf, encode, RVal.flt.injEq]
      simp only [encode] at hlen; rw [hlen]
    · obtain ⟨n, rfl, hn⟩ := valid_float _ (Or.inr rfl) p len hv
      simp only [Req.kind, FltKind.kind, decodeSpec, valueOf, encode, RVal.flt.injEq]
      simp only [encode] at hlen; rw [hlen]
      have h8 : 8 ∣ (packFloat (fltFmt (resultLen (.flt .floatle p) (some n))) p).length := by
        rw [packFloat_length, resultLen_some]; simp only [Req.kind, kind_mult_flt, Nat.mul_one]
        rw [fltFmt_width _ hn]; rcases hn with rfl | rfl | rfl <;> decide
      rw [bytesRev_involutive' _ h8]
    · simp only [Req.kind, FltKind.kind, decodeSpec, valueOf, encode, RVal.flt.injEq]
    · simp only [Req.kind, FltKind.kind, decodeSpec, valueOf, encode, RVal.flt.injEq]
      rw [bytesRev_involutive' _ (by simp [packFloat_length, Ieee.Fmt.width, Ieee.f32])]
  | bool a =>
    have hr : resultLen (.bool a) len = 1 := by rcases (valid_bool a len hv).2 with rfl | rfl <;> rfl
    rw [hr]; cases a <;> rfl
  | bytes d =>
    simp only [Req.kind, decodeSpec, valueOf, encode, RVal.bytes.injEq]
    exact toBytes_fromBytes' d (valid_bytes d len hv).1
  | bits b => rfl
  | pad => rfl

end



section
attribute [local irreducible] packFloat unpackFloat

theorem groupsOf_length (k n : Nat) (b : Bits) : (groupsOf k n b).length = n := by
  induction n generalizing b with
  | zero => rfl
  | succ n ih => simp [groupsOf, ih]

theorem digitChar_not_upper : ∀ n, n < 16 → ¬ (65 ≤ (digitChar n).toNat ∧ (digitChar n).toNat ≤ 90) := by decide

theorem fltFmt_ok (n : Nat) : (fltFmt n).ok := by
  unfold fltFmt
  split
  · exact Ieee.stdFmt_ok _ (Or.inl rfl)
  · split
    · exact Ieee.stdFmt_ok _ (Or.inr (Or.inl rfl))
    · exact Ieee.stdFmt_ok _ (Or.inr (Or.inr rfl))

/-- Digit dtypes: the printed digits form a valid request that encodes back to the pattern. -/
theorem digits_roundtrip (k : StrKind) (b : Bits) (h : k.width ∣ b.length) (s : List Char)
    (hs : bitsToDigits k.width b = .ok s) :
    Valid (.str k s) (some b.length) = true ∧ encode (.str k s) b.length = b := by
  have hw : 0 < k.width := by cases k <;> decide
  have hval : ∀ n, n < 2 ^ k.width → k.val? (digitChar n) = some n := by
    cases k
    · exact hexVal_digitChar
    · exact octVal_digitChar
    · exact binVal_digitChar
  obtain ⟨s', h1, h2, h3⟩ := parse_print k.width hw k.val? hval b h
  rw [hs] at h1; cases h1
  have h16 : ∀ c ∈ s, ∃ n, n < 16 ∧ (n < 2 → k = .bin ∨ True) ∧ c = digitChar n ∧ n < 2 ^ k.width := by
    intro c hc
    obtain ⟨n, hn, rfl⟩ := h3 c hc
    refine ⟨n, ?_, fun _ => Or.inr trivial, rfl, hn⟩
    cases k <;> simp [StrKind.width] at hn <;> omega
  have hcanon : k.canon s = s := by
    have ht : tidy s = s := tidy_fix s (fun c hc => by
      obtain ⟨n, hn, _, rfl, _⟩ := h16 c hc
      have := digitChar_plain n hn; exact ⟨this.1, this.2.1, this.2.2.1⟩)
    cases k
    · simp only [StrKind.canon, ht]
      exact removeAll2_fix _ _ s (fun c hc => by obtain ⟨n, hn, _, rfl, _⟩ := h16 c hc; exact (digitChar_plain n hn).2.2.2.1)
    · simp only [StrKind.canon, ht]
      exact removeAll2_fix _ _ s (fun c hc => by obtain ⟨n, hn, _, rfl, _⟩ := h16 c hc; exact (digitChar_plain n hn).2.2.2.2.1)
    · simp only [StrKind.canon, ht]
      exact removeAll2_fix _ _ s (fun c hc => by
        obtain ⟨n, hn, _, rfl, hn2⟩ := h16 c hc
        exact (digitChar_plain n hn).2.2.2.2.2 (by simpa [StrKind.width] using hn2))
  have hall : s.all (fun c => (k.val? c).isSome) = true := by
    rw [List.all_eq_true]; intro c hc
    obtain ⟨n, _, _, rfl, hn2⟩ := h16 c hc
    rw [hval n hn2]; rfl
  have hup : ∀ c ∈ s, ¬ (65 ≤ c.toNat ∧ c.toNat ≤ 90) := by
    intro c hc; obtain ⟨n, hn, _, rfl, _⟩ := h16 c hc; exact digitChar_not_upper n hn
  obtain ⟨p1, _, p3⟩ := parse_then_print k.width hw k.val? (good_kind k) s hup hall
  rw [h2] at p1
  simp only [Except.ok.injEq] at p1
  constructor
  · simp only [Valid, hcanon, hall, Bool.true_and, decide_eq_true_eq]
    rw [← p3, ← p1]
  · simp only [encode, hcanon]; exact p1.symm

end


section
attribute [local irreducible] packFloat unpackFloat

theorem natCast_range (N n : Nat) (h : N < 2 ^ n) : (0 : Int) ≤ (N : Int) ∧ (N : Int) < (2 : Int) ^ n := by
  constructor
  · exact Int.natCast_nonneg N
  · exact_mod_cast h

theorem step8_contains (n : Nat) (h : n % 8 = 0) : (Allowed.step 8 16).contains n = true := by
  simp [Allowed.contains]; omega

theorem encode_decode' (k : Kind) (b : Bits) (hl : ValidLen k b.length = true) (q : Req)
    (hq : reqOfValue k (decodeSpec k b) = some q) :
    Valid q (some (itemsOf k b.length)) = true ∧ encode q b.length = b := by
  have hlt := bitsToNat_lt b
  cases k
  case uint =>
    simp [ValidLen] at hl
    simp only [decodeSpec, reqOfValue, Option.some.injEq] at hq; subst hq
    have := natCast_range _ _ hlt
    simp [Valid, itemsOf, Kind.multiplier, hl, IntKind.kind, Kind.allowed, Allowed.contains, IntKind.signed, this, encode,
      natToBits_bitsToNat]
  case int =>
    simp [ValidLen] at hl
    have hne : b ≠ [] := by rintro rfl; simp at hl
    simp only [decodeSpec, reqOfValue, Option.some.injEq] at hq; subst hq
    have := bitsToInt_range' b hne
    simp [Valid, itemsOf, Kind.multiplier, hl, IntKind.kind, Kind.allowed, Allowed.contains, IntKind.signed, this, encode,
      intToBits_bitsToInt' b hne]
  case uintbe =>
    simp [ValidLen] at hl
    simp only [decodeSpec, reqOfValue, Option.some.injEq] at hq; subst hq
    have := natCast_range _ _ hlt
    have hc := step8_contains _ hl.2
    simp [Valid, itemsOf, Kind.multiplier, hl, IntKind.kind, Kind.allowed, hc, IntKind.signed, this, encode,
      natToBits_bitsToNat]
  case intbe =>
    simp [ValidLen] at hl
    have hne : b ≠ [] := by rintro rfl; simp at hl
    simp only [decodeSpec, reqOfValue, Option.some.injEq] at hq; subst hq
    have := bitsToInt_range' b hne
    have hc := step8_contains _ hl.2
    simp [Valid, itemsOf, Kind.multiplier, hl, IntKind.kind, Kind.allowed, hc, IntKind.signed, this, encode,
      intToBits_bitsToInt' b hne]
  case uintle =>
    simp [ValidLen] at hl
    have h8 : 8 ∣ b.length := Nat.dvd_of_mod_eq_zero hl.2
    simp only [decodeSpec, reqOfValue, Option.some.injEq] at hq; subst hq
    have hrl := bytesRev_length' b h8
    have hlt' := bitsToNat_lt (bytesRev b)
    rw [hrl, bytesRev_value' b h8] at hlt'
    have := natCast_range _ _ hlt'
    have hc := step8_contains _ hl.2
    have he : bytesRev (natToBits b.length (leValue (toBytes b))) = b := by
      rw [← bytesRev_value' b h8, ← hrl, natToBits_bitsToNat, bytesRev_involutive' b h8]
    simp [Valid, itemsOf, Kind.multiplier, hl, IntKind.kind, Kind.allowed, hc, IntKind.signed, this, encode, he]
  case intle =>
    simp [ValidLen] at hl
    have h8 : 8 ∣ b.length := Nat.dvd_of_mod_eq_zero hl.2
    have hrl := bytesRev_length' b h8
    have hne : bytesRev b ≠ [] := by
      intro h; rw [h] at hrl; simp only [List.length_nil] at hrl; exact hl.1 (List.eq_nil_of_length_eq_zero hrl.symm)
    simp only [decodeSpec, reqOfValue, Option.some.injEq] at hq; subst hq
    have := bitsToInt_range' _ hne
    rw [hrl] at this
    have hc := step8_contains _ hl.2
    have he : bytesRev (intToBits b.length (bitsToInt (bytesRev b))) = b := by
      rw [← hrl, intToBits_bitsToInt' _ hne, bytesRev_involutive' b h8]
    simp [Valid, itemsOf, Kind.multiplier, hl, IntKind.kind, Kind.allowed, hc, IntKind.signed, this, encode, he]
  case hex =>
    simp [ValidLen] at hl
    simp only [decodeSpec, reqOfValue, Option.some.injEq] at hq; subst hq
    have := digits_roundtrip .hex b (Nat.dvd_of_mod_eq_zero hl) _ (by simp only [bitsToDigits, StrKind.width, hl]; rfl)
    simpa [itemsOf, Kind.multiplier] using this
  case oct =>
    simp [ValidLen] at hl
    simp only [decodeSpec, reqOfValue, Option.some.injEq] at hq; subst hq
    have := digits_roundtrip .oct b (Nat.dvd_of_mod_eq_zero hl) _ (by simp only [bitsToDigits, StrKind.width, hl]; rfl)
    simpa [itemsOf, Kind.multiplier] using this
  case bin =>
    simp only [decodeSpec, reqOfValue, Option.some.injEq] at hq; subst hq
    have := digits_roundtrip .bin b (Nat.one_dvd _) (b.map fun x => if x then '1' else '0')
      (by simp [bitsToDigits, StrKind.width, Nat.mod_one, groupsOf_one])
    simpa [itemsOf, Kind.multiplier] using this
  case float =>
    have hn : b.length = 16 ∨ b.length = 32 ∨ b.length = 64 := by simpa [ValidLen, or_assoc] using hl
    simp only [decodeSpec] at hq
    cases hu : unpackFloat (fltFmt b.length) b with
    | none => rw [hu] at hq; simp [reqOfValue] at hq
    | some p =>
      rw [hu] at hq; simp only [reqOfValue, Option.some.injEq] at hq; subst hq
      have := Ieee.packFloat_unpackFloat' _ (fltFmt_ok b.length) b (fltFmt_width _ hn).symm p hu
      refine ⟨by simp [Valid, itemsOf, Kind.multiplier]; omega, ?_⟩
      simp only [encode]; exact this
  case floatle =>
    have hn : b.length = 16 ∨ b.length = 32 ∨ b.length = 64 := by simpa [ValidLen, or_assoc] using hl
    have h8 : 8 ∣ b.length := by rcases hn with h | h | h <;> rw [h] <;> decide
    have hrl := bytesRev_length' b h8
    simp only [decodeSpec] at hq
    cases hu : unpackFloat (fltFmt b.length) (bytesRev b) with
    | none => rw [hu] at hq; simp [reqOfValue] at hq
    | some p =>
      rw [hu] at hq; simp only [reqOfValue, Option.some.injEq] at hq; subst hq
      have := Ieee.packFloat_unpackFloat' _ (fltFmt_ok b.length) (bytesRev b) (by rw [hrl, fltFmt_width _ hn]) p hu
      refine ⟨by simp [Valid, itemsOf, Kind.multiplier]; omega, ?_⟩
      simp only [encode]; rw [this, bytesRev_involutive' b h8]
  case bfloat =>
    have h16 : b.length = 16 := by simpa [ValidLen] using hl
    simp only [decodeSpec] at hq
    cases hu : unpackFloat Ieee.f32 (b ++ List.replicate 16 false) with
    | none => rw [hu] at hq; simp [reqOfValue] at hq
    | some p =>
      rw [hu] at hq; simp only [reqOfValue, Option.some.injEq] at hq; subst hq
      have := Ieee.packFloat_unpackFloat' _ (Ieee.stdFmt_ok _ (Or.inr (Or.inl rfl))) (b ++ List.replicate 16 false)
        (by simp [h16, Ieee.Fmt.width, Ieee.f32]) p hu
      refine ⟨by simp [Valid, itemsOf, Kind.multiplier, h16], ?_⟩
      simp only [encode]; rw [this, List.take_left' h16]
  case bfloatle =>
    have h16 : b.length = 16 := by simpa [ValidLen] using hl
    have h8 : 8 ∣ b.length := by rw [h16]; decide
    have hrl := bytesRev_length' b h8
    simp only [decodeSpec] at hq
    cases hu : unpackFloat Ieee.f32 (bytesRev b ++ List.replicate 16 false) with
    | none => rw [hu] at hq; simp [reqOfValue] at hq
    | some p =>
      rw [hu] at hq; simp only [reqOfValue, Option.some.injEq] at hq; subst hq
      have := Ieee.packFloat_unpackFloat' _ (Ieee.stdFmt_ok _ (Or.inr (Or.inl rfl))) (bytesRev b ++ List.replicate 16 false)
        (by simp [hrl, h16, Ieee.Fmt.width, Ieee.f32]) p hu
      refine ⟨by simp [Valid, itemsOf, Kind.multiplier, h16], ?_⟩
      simp only [encode]; rw [this, List.take_left' (by rw [hrl, h16]), bytesRev_involutive' b h8]
  case bits =>
    simp only [decodeSpec, reqOfValue, Option.some.injEq] at hq; subst hq
    simp [Valid, itemsOf, Kind.multiplier, encode]
  case bool =>
    have h1 : b.length = 1 := by simpa [ValidLen] using hl
    match b, h1 with
    | [x], _ =>
      simp only [decodeSpec, reqOfValue, Option.some.injEq] at hq; subst hq
      simp [Valid, itemsOf, Kind.multiplier, encode, BoolArg.valid]
  case bytes =>
    simp [ValidLen] at hl
    have h8 : 8 ∣ b.length := Nat.dvd_of_mod_eq_zero hl
    simp only [decodeSpec, reqOfValue, Option.some.injEq] at hq; subst hq
    have h1 := toBytes_lt b h8
    have h2 := toBytes_length b h8
    have h3 := fromBytes_toBytes' b h8
    simp [Valid, itemsOf, Kind.multiplier, encode, h2, h3]
    exact h1
  case pad => simp [reqOfValue] at hq

end


theorem reqOfValue_kind (k : Kind) (v : RVal) (q : Req) (h : reqOfValue k v = some q) : q.kind = k := by
  cases v with
  | flt p =>
    cases p with
    | none => cases k <;> simp [reqOfValue] at h
    | some p => cases k <;> simp [reqOfValue] at h <;> (subst h; rfl)
  | int i => cases k <;> simp [reqOfValue] at h <;> (subst h; rfl)
  | str s => cases k <;> simp [reqOfValue] at h <;> (subst h; rfl)
  | bytes d => cases k <;> simp [reqOfValue] at h <;> (subst h; rfl)
  | bool x => cases k <;> simp [reqOfValue] at h <;> (subst h; rfl)
  | bits x => cases k <;> simp [reqOfValue] at h <;> (subst h; rfl)
  | none => cases k <;> simp [reqOfValue] at h

end BM.C02
