/-
  Proofs/C02.lean — helper lemmas for Props/C02.lean (two's complement, byte groups, digits, routes).
-/
import BitstringModel.Model.C02
import BitstringModel.Proofs.Basic
import Mathlib.Tactic.Ring
import Mathlib.Tactic.Linarith

namespace BM.C02
open BM

/-! ### natToBits: head bit, reduction mod 2^len -/

theorem natToBits_succ_head (k n : Nat) :
    natToBits (k + 1) n = decide (n / 2 ^ k % 2 = 1) :: natToBits k n := by
  induction k generalizing n with
  | zero => simp [natToBits]
  | succ k ih =>
    rw [natToBits, ih (n / 2)]
    rw [Nat.div_div_eq_div_mul, ← Nat.pow_succ']
    simp [natToBits]

theorem natToBits_mod (len n : Nat) : natToBits len (n % 2 ^ len) = natToBits len n := by
  have h := natToBits_bitsToNat (natToBits len n)
  rw [natToBits_length, bitsToNat_natToBits_mod] at h
  exact h

theorem bitsToInt_cons (s : Bool) (t : Bits) :
    bitsToInt (s :: t) = if s then (bitsToNat (s :: t) : Int) - (2 : Int) ^ (t.length + 1) else (bitsToNat (s :: t) : Int) := by
  simp [bitsToInt]

theorem pow_cast (k : Nat) : ((2 ^ k : Nat) : Int) = (2 : Int) ^ k := by
  simp

theorem bitsToInt_intToBits' (k : Nat) (i : Int)
    (h : -((2 : Int) ^ k) ≤ i ∧ i < (2 : Int) ^ k) :
    bitsToInt (intToBits (k + 1) i) = i := by
  obtain ⟨P, hP⟩ : ∃ P : Nat, P = 2 ^ k := ⟨_, rfl⟩
  have hPpos : 0 < P := by rw [hP]; exact Nat.pos_of_ne_zero (by simp)
  have hPi : ((2 : Int) ^ k) = (P : Int) := by rw [hP]; simp
  have h2 : ((2 : Int) ^ (k + 1)) = 2 * (P : Int) := by rw [pow_succ, hPi]; ring
  have h2n : 2 ^ (k + 1) = 2 * P := by rw [hP, Nat.pow_succ]; ring
  rw [hPi] at h
  unfold intToBits
  rw [h2]
  by_cases hi : 0 ≤ i
  · have hm : i % (2 * (P : Int)) = i := Int.emod_eq_of_lt hi (by omega)
    rw [hm]
    obtain ⟨n, rfl⟩ := Int.eq_ofNat_of_zero_le hi
    simp only [Int.toNat_natCast]
    rw [natToBits_succ_head, bitsToInt_cons, ← natToBits_succ_head, bitsToNat_natToBits_mod, ← hP, h2n]
    have hn : n < P := by omega
    rw [Nat.div_eq_of_lt hn, Nat.mod_eq_of_lt (by omega : n < 2 * P)]
    simp
  · have hm : i % (2 * (P : Int)) = i + 2 * P := by
      rw [← Int.add_mul_emod_self_left i (2 * (P : Int)) 1, Int.mul_one]
      exact Int.emod_eq_of_lt (by omega) (by omega)
    rw [hm]
    obtain ⟨n, hn⟩ := Int.eq_ofNat_of_zero_le (by omega : 0 ≤ i + 2 * (P : Int))
    rw [hn]
    simp only [Int.toNat_natCast]
    rw [natToBits_succ_head, bitsToInt_cons, ← natToBits_succ_head, bitsToNat_natToBits_mod, ← hP, h2n]
    have hn1 : P ≤ n := by omega
    have hn2 : n < 2 * P := by omega
    have hd : n / P = 1 := Nat.div_eq_of_lt_le (by omega) (by omega)
    rw [hd, Nat.mod_eq_of_lt hn2]
    simp only [natToBits_length]
    have : ((2 : Int) ^ (k + 1)) = 2 * (P : Int) := h2
    simp only [decide_true, if_true]
    rw [this]; omega


theorem intToBits_bitsToInt' (b : Bits) (hb : b ≠ []) : intToBits b.length (bitsToInt b) = b := by
  cases b with
  | nil => exact absurd rfl hb
  | cons s t =>
    have hlt := bitsToNat_lt (s :: t)
    rw [bitsToInt_cons]
    unfold intToBits
    have hc : ((2 : Int) ^ (s :: t).length) = ((2 ^ (s :: t).length : Nat) : Int) := by simp
    have hmod : ∀ x : Int, x = (bitsToNat (s :: t) : Int) ∨ x = (bitsToNat (s :: t) : Int) - (2 : Int) ^ (s :: t).length →
        (x % (2 : Int) ^ (s :: t).length).toNat = bitsToNat (s :: t) := by
      intro x hx
      rcases hx with rfl | rfl
      · rw [hc, ← Int.natCast_mod, Int.toNat_natCast, Nat.mod_eq_of_lt hlt]
      · have := Int.add_mul_emod_self_left ((bitsToNat (s :: t) : Int)) ((2 : Int) ^ (s :: t).length) (-1)
        rw [show (bitsToNat (s :: t) : Int) + (2 : Int) ^ (s :: t).length * -1
              = (bitsToNat (s :: t) : Int) - (2 : Int) ^ (s :: t).length by ring] at this
        rw [this, hc, ← Int.natCast_mod, Int.toNat_natCast, Nat.mod_eq_of_lt hlt]
    have key := hmod (if s = true then (bitsToNat (s :: t) : Int) - (2 : Int) ^ (t.length + 1) else (bitsToNat (s :: t) : Int))
      (by cases s <;> simp)
    rw [key]
    exact natToBits_bitsToNat (s :: t)

theorem bitsToInt_range' (b : Bits) (hb : b ≠ []) :
    -((2 : Int) ^ (b.length - 1)) ≤ bitsToInt b ∧ bitsToInt b < (2 : Int) ^ (b.length - 1) := by
  cases b with
  | nil => exact absurd rfl hb
  | cons s t =>
    rw [bitsToInt_cons, bitsToNat_cons]
    have hlt := bitsToNat_lt t
    simp only [List.length_cons, Nat.add_sub_cancel]
    have hc : ((2 : Int) ^ t.length) = ((2 ^ t.length : Nat) : Int) := by simp
    have h2 : ((2 : Int) ^ (t.length + 1)) = 2 * ((2 ^ t.length : Nat) : Int) := by rw [pow_succ, hc]; ring
    rw [h2, hc]
    cases s <;> simp <;> omega

theorem intToBits_nonneg' (len : Nat) (i : Int) (h : 0 ≤ i) : intToBits len i = natToBits len i.toNat := by
  obtain ⟨n, rfl⟩ := Int.eq_ofNat_of_zero_le h
  unfold intToBits
  have hc : ((2 : Int) ^ len) = ((2 ^ len : Nat) : Int) := by simp
  rw [hc, ← Int.natCast_mod, Int.toNat_natCast, Int.toNat_natCast, natToBits_mod]

theorem intToBits_neg' (len : Nat) (i : Int) (h : i < 0) (hr : -((2 : Int) ^ len) ≤ i) :
    intToBits len i = natToBits len ((2 : Int) ^ len + i).toNat := by
  unfold intToBits
  have hpos : (0 : Int) < (2 : Int) ^ len := by positivity
  have hm : i % (2 : Int) ^ len = (2 : Int) ^ len + i := by
    rw [← Int.add_mul_emod_self_left i ((2 : Int) ^ len) 1, Int.mul_one, Int.add_comm]
    exact Int.emod_eq_of_lt (by omega) (by omega)
  rw [hm]


/-! ### groups -/

theorem groupsOf_append (w m : Nat) (g b : Bits) (hg : g.length = w) :
    groupsOf w (m + 1) (g ++ b) = g :: groupsOf w m b := by
  simp only [groupsOf]
  rw [List.take_left' hg, List.drop_left' hg]

/-- Induction over patterns whose length is a multiple of `w`: peel one full group at a time. -/
theorem chunk_induction (w : Nat) (hw : 0 < w) (P : Bits → Prop) (hnil : P [])
    (hstep : ∀ g rest : Bits, g.length = w → w ∣ rest.length → P rest → P (g ++ rest)) :
    ∀ b : Bits, w ∣ b.length → P b := by
  intro b
  induction hn : b.length using Nat.strong_induction_on generalizing b with
  | _ n ih =>
    intro hd
    by_cases h0 : n = 0
    · have : b = [] := List.eq_nil_of_length_eq_zero (by omega)
      subst this; exact hnil
    · subst hn
      obtain ⟨c, hc⟩ := hd
      have hcpos : 0 < c := by
        rcases Nat.eq_zero_or_pos c with rfl | h
        · rw [Nat.mul_zero] at hc; omega
        · exact h
      have hwle : w ≤ b.length := by rw [hc]; exact Nat.le_mul_of_pos_right w hcpos
      have hsplit : b = b.take w ++ b.drop w := (List.take_append_drop w b).symm
      rw [hsplit]
      have htl : (b.take w).length = w := by rw [List.length_take]; omega
      have hdl : (b.drop w).length = w * (c - 1) := by
        rw [List.length_drop, hc, Nat.mul_sub, Nat.mul_one]
      apply hstep _ _ htl ⟨c - 1, hdl⟩
      exact ih (b.drop w).length (by rw [List.length_drop]; omega) (b.drop w) rfl ⟨c - 1, hdl⟩

theorem padRight_full (k : Nat) (g : Bits) (h : g.length = k) : padRight k g = g := by
  simp [padRight, h]

theorem toByteGroups_nil : toByteGroups [] = [] := by
  simp [toByteGroups, groupsOf]

theorem toByteGroups_append (g rest : Bits) (hg : g.length = 8) :
    toByteGroups (g ++ rest) = g :: toByteGroups rest := by
  unfold toByteGroups
  have hl : ((g ++ rest).length + 7) / 8 = (rest.length + 7) / 8 + 1 := by
    rw [List.length_append, hg]; omega
  rw [hl, groupsOf_append 8 _ g rest hg, List.map_cons, padRight_full 8 g hg]

theorem bytesRev_nil : bytesRev [] = [] := by
  simp [bytesRev, toByteGroups_nil]

theorem bytesRev_group_append (g rest : Bits) (hg : g.length = 8) :
    bytesRev (g ++ rest) = bytesRev rest ++ g := by
  unfold bytesRev
  rw [toByteGroups_append g rest hg]
  simp

theorem bytesRev_append (a b : Bits) (ha : 8 ∣ a.length) :
    bytesRev (a ++ b) = bytesRev b ++ bytesRev a := by
  revert ha
  refine chunk_induction 8 (by omega) (fun a => bytesRev (a ++ b) = bytesRev b ++ bytesRev a) ?_ ?_ a
  · simp [bytesRev_nil]
  · intro g rest hg _ ih
    rw [List.append_assoc, bytesRev_group_append g (rest ++ b) hg, ih, bytesRev_group_append g rest hg,
      List.append_assoc]

theorem bytesRev_length' (b : Bits) (h : 8 ∣ b.length) : (bytesRev b).length = b.length := by
  revert h
  refine chunk_induction 8 (by omega) (fun b => (bytesRev b).length = b.length) ?_ ?_ b
  · simp [bytesRev_nil]
  · intro g rest hg _ ih
    rw [bytesRev_group_append g rest hg, List.length_append, List.length_append, ih, Nat.add_comm]

theorem bytesRev_single (g : Bits) (hg : g.length = 8) : bytesRev g = g := by
  have := bytesRev_group_append g [] hg
  simpa [bytesRev_nil] using this

theorem bytesRev_involutive' (b : Bits) (h : 8 ∣ b.length) : bytesRev (bytesRev b) = b := by
  revert h
  refine chunk_induction 8 (by omega) (fun b => bytesRev (bytesRev b) = b) ?_ ?_ b
  · simp [bytesRev_nil]
  · intro g rest hg hr ih
    rw [bytesRev_group_append g rest hg,
      bytesRev_append (bytesRev rest) g (by rw [bytesRev_length' rest hr]; exact hr),
      bytesRev_single g hg, ih]

theorem toBytes_append (g rest : Bits) (hg : g.length = 8) :
    toBytes (g ++ rest) = bitsToNat g :: toBytes rest := by
  unfold toBytes; rw [toByteGroups_append g rest hg]; rfl

theorem bytesRev_value' (b : Bits) (h : 8 ∣ b.length) : bitsToNat (bytesRev b) = leValue (toBytes b) := by
  revert h
  refine chunk_induction 8 (by omega) (fun b => bitsToNat (bytesRev b) = leValue (toBytes b)) ?_ ?_ b
  · simp [bytesRev_nil, toBytes, toByteGroups_nil, leValue]
  · intro g rest hg _ ih
    rw [bytesRev_group_append g rest hg, bitsToNat_append, ih, toBytes_append g rest hg, leValue, hg]
    ring

theorem fromBytes_toBytes' (b : Bits) (h : 8 ∣ b.length) : fromBytes (toBytes b) = b := by
  revert h
  refine chunk_induction 8 (by omega) (fun b => fromBytes (toBytes b) = b) ?_ ?_ b
  · simp [toBytes, toByteGroups_nil, fromBytes]
  · intro g rest hg _ ih
    rw [toBytes_append g rest hg]
    unfold fromBytes at *
    rw [List.flatMap_cons, ih]
    have := natToBits_bitsToNat g
    rw [hg] at this
    rw [this]

theorem fromBytes_length (d : List Nat) : (fromBytes d).length = d.length * 8 := by
  induction d with
  | nil => simp [fromBytes]
  | cons x t ih =>
    unfold fromBytes at *
    rw [List.flatMap_cons, List.length_append, ih, natToBits_length, List.length_cons]; ring

theorem toBytes_fromBytes' (d : List Nat) (h : ∀ x ∈ d, x < 256) : toBytes (fromBytes d) = d := by
  induction d with
  | nil => simp [fromBytes, toBytes, toByteGroups_nil]
  | cons x t ih =>
    have hx : x < 2 ^ 8 := by have := h x (by simp); omega
    have : fromBytes (x :: t) = natToBits 8 x ++ fromBytes t := by simp [fromBytes]
    rw [this, toBytes_append _ _ (natToBits_length 8 x), bitsToNat_natToBits 8 x hx,
      ih (fun y hy => h y (by simp [hy]))]

theorem toBytes_length (b : Bits) (h : 8 ∣ b.length) : (toBytes b).length = b.length / 8 := by
  revert h
  refine chunk_induction 8 (by omega) (fun b => (toBytes b).length = b.length / 8) ?_ ?_ b
  · simp [toBytes, toByteGroups_nil]
  · intro g rest hg _ ih
    rw [toBytes_append g rest hg, List.length_cons, ih, List.length_append, hg]; omega

theorem toBytes_lt (b : Bits) (h : 8 ∣ b.length) : ∀ x ∈ toBytes b, x < 256 := by
  revert h
  refine chunk_induction 8 (by omega) (fun b => ∀ x ∈ toBytes b, x < 256) ?_ ?_ b
  · simp [toBytes, toByteGroups_nil]
  · intro g rest hg _ ih x hx
    rw [toBytes_append g rest hg] at hx
    rcases List.mem_cons.mp hx with rfl | hx
    · have := bitsToNat_lt g; rw [hg] at this; omega
    · exact ih x hx


/-! ### digits -/

theorem hexVal_digitChar : ∀ n, n < 16 → hexVal? (digitChar n) = some n := by decide
theorem octVal_digitChar : ∀ n, n < 8 → octVal? (digitChar n) = some n := by decide
theorem binVal_digitChar : ∀ n, n < 2 → binVal? (digitChar n) = some n := by decide

/-- `mapM` into `Option` succeeds with the list of values when every element has one. -/
theorem mapM_option_cons {α β} (f : α → Option β) (a : α) (l : List α) :
    (a :: l).mapM f = (match f a with | none => none | some b => match l.mapM f with | none => none | some bs => some (b :: bs)) := by
  rw [List.mapM_cons]
  cases f a <;> simp
  cases l.mapM f <;> simp

theorem digitsToBits_cons (w : Nat) (val? : Char → Option Nat) (c : Char) (s : List Char) (n : Nat) (b : Bits)
    (hc : val? c = some n) (hs : digitsToBits w val? s = .ok b) :
    digitsToBits w val? (c :: s) = .ok (natToBits w n ++ b) := by
  unfold digitsToBits at *
  rw [mapM_option_cons, hc]
  cases h : s.mapM val? with
  | none => rw [h] at hs; cases hs
  | some ds =>
    rw [h] at hs
    simp only at hs ⊢
    cases hs
    simp

theorem bitsToDigits_nil (w : Nat) : bitsToDigits w [] = .ok [] := by
  simp [bitsToDigits, groupsOf]

theorem bitsToDigits_append (w : Nat) (hw : 0 < w) (g b : Bits) (hg : g.length = w) (s : List Char)
    (hb : bitsToDigits w b = .ok s) :
    bitsToDigits w (g ++ b) = .ok (digitChar (bitsToNat g) :: s) := by
  unfold bitsToDigits at *
  rw [List.length_append, hg]
  by_cases hm : b.length % w ≠ 0
  · rw [if_pos hm] at hb; cases hb
  · rw [if_neg hm] at hb
    have hm' : ¬ ((w + b.length) % w ≠ 0) := by rw [Nat.add_mod_left]; exact hm
    rw [if_neg hm', Nat.add_div_left _ hw, groupsOf_append w _ g b hg]
    cases hb
    simp

theorem bitsToDigits_ok (w : Nat) (_hw : 0 < w) (b : Bits) (h : w ∣ b.length) :
    ∃ s, bitsToDigits w b = .ok s := by
  unfold bitsToDigits
  rw [if_neg (by rw [Nat.mod_eq_zero_of_dvd h]; simp)]
  exact ⟨_, rfl⟩

/-- Parsing the printed digits gives the pattern back, for any digit alphabet that inverts `digitChar` below `2^w`. -/
theorem parse_print (w : Nat) (hw : 0 < w) (val? : Char → Option Nat)
    (hval : ∀ n, n < 2 ^ w → val? (digitChar n) = some n) (b : Bits) (h : w ∣ b.length) :
    ∃ s, bitsToDigits w b = .ok s ∧ digitsToBits w val? s = .ok b ∧
      (∀ c ∈ s, ∃ n, n < 2 ^ w ∧ c = digitChar n) := by
  revert h
  refine chunk_induction w hw (fun b => ∃ s, bitsToDigits w b = .ok s ∧ digitsToBits w val? s = .ok b ∧
      (∀ c ∈ s, ∃ n, n < 2 ^ w ∧ c = digitChar n)) ?_ ?_ b
  · exact ⟨[], bitsToDigits_nil w, by simp [digitsToBits], by simp⟩
  · intro g rest hg _ ⟨s, h1, h2, h3⟩
    have hlt : bitsToNat g < 2 ^ w := by have := bitsToNat_lt g; rwa [hg] at this
    refine ⟨digitChar (bitsToNat g) :: s, bitsToDigits_append w hw g rest hg s h1, ?_, ?_⟩
    · rw [digitsToBits_cons w val? _ s _ rest (hval _ hlt) h2]
      have := natToBits_bitsToNat g
      rw [hg] at this; rw [this]
    · intro c hc
      rcases List.mem_cons.mp hc with rfl | hc
      · exact ⟨_, hlt, rfl⟩
      · exact h3 c hc


theorem digitChar_plain : ∀ n, n < 16 →
    isPySpace (digitChar n) = false ∧ asciiLower (digitChar n) = digitChar n ∧ digitChar n ≠ '_' ∧
    digitChar n ≠ 'x' ∧ digitChar n ≠ 'o' ∧ (n < 2 → digitChar n ≠ 'b') := by decide

theorem tidy_fix (s : List Char) (h : ∀ c ∈ s, isPySpace c = false ∧ asciiLower c = c ∧ c ≠ '_') : tidy s = s := by
  unfold tidy
  have h1 : s.filter (fun c => !isPySpace c) = s := by
    rw [List.filter_eq_self]; intro c hc; simp [(h c hc).1]
  have h2 : s.map asciiLower = s := by
    conv => rhs; rw [← List.map_id s]
    apply List.map_congr_left; intro c hc; simp [(h c hc).2.1]
  rw [h1, h2, List.filter_eq_self]
  intro c hc; simp [(h c hc).2.2]

theorem removeAll2_fix (c1 c2 : Char) (s : List Char) (h : ∀ c ∈ s, c ≠ c2) : removeAll2 c1 c2 s = s := by
  induction s with
  | nil => rfl
  | cons a t ih =>
    cases t with
    | nil => rfl
    | cons b t' =>
      have hb : b ≠ c2 := h b (by simp)
      rw [removeAll2, if_neg (by intro hh; exact hb hh.2), ih (fun c hc => h c (by simp [hc]))]

theorem removeAll2_subset (c1 c2 : Char) (s : List Char) : ∀ c ∈ removeAll2 c1 c2 s, c ∈ s := by
  fun_induction removeAll2 c1 c2 s with
  | case1 => simp
  | case2 a => simp
  | case3 a b t h ih => intro c hc; have := ih c hc; simp [this]
  | case4 a b t h ih =>
    intro c hc
    rcases List.mem_cons.mp hc with rfl | hc
    · simp
    · have := ih c hc; simp at this ⊢; tauto

theorem toNat_ofNat_valid (n : Nat) (h : n.isValidChar) : (Char.ofNat n).toNat = n := by
  unfold Char.ofNat
  rw [dif_pos h]
  rfl

theorem asciiLower_not_upper (c : Char) : ¬ (65 ≤ (asciiLower c).toNat ∧ (asciiLower c).toNat ≤ 90) := by
  unfold asciiLower
  split
  · rename_i h
    have hv : (c.toNat + 32).isValidChar := by
      unfold Nat.isValidChar; omega
    rw [toNat_ofNat_valid _ hv]; omega
  · rename_i h; exact h

theorem tidy_not_upper (s : List Char) : ∀ c ∈ tidy s, ¬ (65 ≤ c.toNat ∧ c.toNat ≤ 90) := by
  intro c hc
  unfold tidy at hc
  have := (List.mem_filter.mp hc).1
  obtain ⟨d, _, rfl⟩ := List.mem_map.mp this
  exact asciiLower_not_upper d

theorem digitChar_of_val (c : Char) (n : Nat) (hu : ¬ (65 ≤ c.toNat ∧ c.toNat ≤ 90)) :
    (hexVal? c = some n → n < 16 ∧ digitChar n = c) ∧ (octVal? c = some n → n < 8 ∧ digitChar n = c) ∧
    (binVal? c = some n → n < 2 ∧ digitChar n = c) := by
  refine ⟨?_, ?_, ?_⟩
  · intro h
    unfold hexVal? at h
    simp only at h
    split at h
    · cases h
      refine ⟨by omega, ?_⟩
      unfold digitChar; rw [if_pos (by omega), show 48 + (c.toNat - 48) = c.toNat by omega, Char.ofNat_toNat]
    · split at h
      · cases h
        refine ⟨by omega, ?_⟩
        unfold digitChar; rw [if_neg (by omega), show 87 + (c.toNat - 87) = c.toNat by omega, Char.ofNat_toNat]
      · split at h
        · omega
        · cases h
  · intro h
    unfold octVal? at h
    simp only at h
    split at h
    · cases h
      refine ⟨by omega, ?_⟩
      unfold digitChar; rw [if_pos (by omega), show 48 + (c.toNat - 48) = c.toNat by omega, Char.ofNat_toNat]
    · cases h
  · intro h
    unfold binVal? at h
    split at h
    · cases h; rename_i h0; subst h0; exact ⟨by omega, by decide⟩
    · split at h
      · cases h; rename_i _ h1; subst h1; exact ⟨by omega, by decide⟩
      · cases h


end BM.C02
