/- Kernel obligation: `bfChk` (Proofs/C11_NumDefs.lean) on the 16-bit patterns 0x9400..0x97ff. -/
import BitstringModel.Proofs.C11_NumDefs
namespace BM.C11
theorem bfChunk_37 : bfChunkOk 37 = true := by decide +kernel
end BM.C11
