/- Kernel obligation: `bfChk` (Proofs/C11_NumDefs.lean) on the 16-bit patterns 0x9000..0x93ff. -/
import BitstringModel.Proofs.C11_NumDefs
namespace BM.C11
theorem bfChunk_36 : bfChunkOk 36 = true := by decide +kernel
end BM.C11
