/- Kernel obligation: `bfChk` (Proofs/C11_NumDefs.lean) on the 16-bit patterns 0xf400..0xf7ff. -/
import BitstringModel.Proofs.C11_NumDefs
namespace BM.C11
theorem bfChunk_61 : bfChunkOk 61 = true := by decide +kernel
end BM.C11
