/- Kernel obligation: `bfChk` (Proofs/C11_NumDefs.lean) on the 16-bit patterns 0x9800..0x9bff. -/
import BitstringModel.Proofs.C11_NumDefs
namespace BM.C11
theorem bfChunk_38 : bfChunkOk 38 = true := by decide +kernel
end BM.C11
