/- Kernel obligation: entries 0xb000..0xbfff of the live float16->code table `Gen.encE5M2O` pass `encChk`
   (one sixteenth of the table per file so that lake checks them in parallel; assembled in Proofs/C11_Tables.lean). -/
import BitstringModel.Model.C11
namespace BM.C11
theorem encChunk_E5M2O_11 : encChunkOk .e5m2o 11 = true := by decide +kernel
end BM.C11
