/-
  Proofs/C17.lean — helper lemmas for Props/C17.lean: byte packing (`chunks8`, `toBytes`, `bytesToBits`),
  Python step-1 slices as drop/take, `BitStore` with `modified_length`, the `cut` loop invariant,
  the three window readers, `Array.fromfile`.
-/
import BitstringModel.Model.C17
import BitstringModel.Proofs.Basic
import BitstringModel.Proofs.C01
import Mathlib.Data.List.Basic
namespace BM.C17
open BM

/-- A store is well formed when its `modified_length`, if set, is the buffer length — all that
    `BitStore.frombuffer` leaves behind (a shorter length is read into memory, a longer one is refused). -/
def Store.WF (s : Store) : Prop := ∀ n, s.modLen = some n → n = s.buf.length

theorem padLen_lt (n : Nat) : padLen n < 8 := by unfold padLen; omega
theorem padLen_dvd (n : Nat) : (n + padLen n) % 8 = 0 := by unfold padLen; omega
theorem padLen_of_dvd (n : Nat) (h : n % 8 = 0) : padLen n = 0 := by unfold padLen; omega
theorem padLen_add_mul (n k : Nat) : padLen (8 * k + n) = padLen n := by unfold padLen; omega

@[simp] theorem padded_length (l : Bits) : (padded l).length = l.length + padLen l.length := by
  simp [padded]

theorem chunks8_short (p : Bits) (h : p.length < 8) : chunks8 p = [] := by
  have : p.length / 8 = 0 := by omega
  simp [chunks8, this]

theorem chunks8_cons (a q : Bits) (ha : a.length = 8) : chunks8 (a ++ q) = bitsToNat a :: chunks8 q := by
  unfold chunks8
  have hl : (a ++ q).length / 8 = q.length / 8 + 1 := by
    rw [List.length_append, ha]; omega
  rw [hl, List.range_succ_eq_map, List.map_cons, List.map_map]
  congr 1
  · simp [byteAt, ha]
  · apply List.map_congr_left
    intro k _
    simp only [Function.comp, byteAt]
    have : 8 * (k + 1) = a.length + 8 * k := by omega
    rw [this, List.drop_append, List.drop_of_length_le (by omega)]
    simp

theorem chunks8_cons8 (p : Bits) (h : 8 ≤ p.length) :
    chunks8 p = bitsToNat (p.take 8) :: chunks8 (p.drop 8) := by
  conv_lhs => rw [← List.take_append_drop 8 p]
  exact chunks8_cons _ _ (by simp; omega)

theorem chunks8_append (a b : Bits) (k : Nat) (h : a.length = 8 * k) :
    chunks8 (a ++ b) = chunks8 a ++ chunks8 b := by
  induction k generalizing a with
  | zero => 
    have : a = [] := List.eq_nil_of_length_eq_zero (by omega)
    subst this; simp [chunks8_short]
  | succ k ih =>
    have h8 : 8 ≤ a.length := by omega
    rw [chunks8_cons8 a h8]
    conv_lhs => rw [← List.take_append_drop 8 a, List.append_assoc]
    rw [chunks8_cons _ _ (by simp; omega), ih (a.drop 8) (by simp; omega)]
    simp

theorem bytesToBits_nil : bytesToBits [] = [] := rfl
theorem bytesToBits_cons (x : Nat) (xs : Bytes) : bytesToBits (x :: xs) = natToBits 8 x ++ bytesToBits xs := by
  simp [bytesToBits]
theorem bytesToBits_append (a b : Bytes) : bytesToBits (a ++ b) = bytesToBits a ++ bytesToBits b := by
  simp [bytesToBits]
@[simp] theorem bytesToBits_length (bs : Bytes) : (bytesToBits bs).length = 8 * bs.length := by
  induction bs with
  | nil => rfl
  | cons x xs ih => rw [bytesToBits_cons]; simp [ih]; omega

theorem bytesToBits_chunks8 (p : Bits) (k : Nat) (h : p.length = 8 * k) : bytesToBits (chunks8 p) = p := by
  induction k generalizing p with
  | zero =>
    have : p = [] := List.eq_nil_of_length_eq_zero (by omega)
    subst this; rfl
  | succ k ih =>
    rw [chunks8_cons8 p (by omega), bytesToBits_cons, ih (p.drop 8) (by simp; omega)]
    have h8 : (p.take 8).length = 8 := by simp; omega
    have := natToBits_bitsToNat (p.take 8)
    rw [h8] at this
    rw [this, List.take_append_drop]

theorem chunks8_bytesToBits (bs : Bytes) (h : ∀ b ∈ bs, b < 256) : chunks8 (bytesToBits bs) = bs := by
  induction bs with
  | nil => rfl
  | cons x xs ih =>
    rw [bytesToBits_cons, chunks8_cons _ _ (by simp), ih (fun b hb => h b (List.mem_cons_of_mem _ hb))]
    rw [bitsToNat_natToBits 8 x (by have := h x (List.mem_cons_self); omega)]


theorem toBytes_nil : toBytes [] = [] := by decide

theorem padded_dvd (l : Bits) : (padded l).length = 8 * ((l.length + 7) / 8) := by
  rw [padded_length]; unfold padLen; omega

theorem toBytes_length' (l : Bits) : (toBytes l).length = (l.length + 7) / 8 := by
  simp only [toBytes, chunks8, List.length_map, List.length_range, padded_dvd]
  omega

theorem byteAt_lt (p : Bits) (k : Nat) : byteAt p k < 256 := by
  unfold byteAt
  have h := bitsToNat_lt ((p.drop (8 * k)).take 8)
  have hl : ((p.drop (8 * k)).take 8).length ≤ 8 := List.length_take_le _ _
  calc _ < 2 ^ ((p.drop (8 * k)).take 8).length := h
    _ ≤ 2 ^ 8 := Nat.pow_le_pow_right (by omega) hl

theorem toBytes_lt_256' (l : Bits) : ∀ b ∈ toBytes l, b < 256 := by
  intro b hb
  simp only [toBytes, chunks8, List.mem_map] at hb
  obtain ⟨k, _, rfl⟩ := hb
  exact byteAt_lt _ _

theorem bytesToBits_toBytes (l : Bits) : bytesToBits (toBytes l) = padded l :=
  bytesToBits_chunks8 _ _ (padded_dvd l)

theorem padded_of_dvd (l : Bits) (h : l.length % 8 = 0) : padded l = l := by
  simp [padded, padLen_of_dvd _ h]

theorem toBytes_of_dvd (l : Bits) (h : l.length % 8 = 0) : toBytes l = chunks8 l := by
  rw [toBytes, padded_of_dvd l h]

theorem toBytes_append (a b : Bits) (h : a.length % 8 = 0) : toBytes (a ++ b) = toBytes a ++ toBytes b := by
  have hk : a.length = 8 * (a.length / 8) := by omega
  have hp : padded (a ++ b) = a ++ padded b := by
    simp only [padded, List.length_append, List.append_assoc]
    rw [hk, padLen_add_mul]
  rw [toBytes, hp, chunks8_append a _ _ hk, toBytes_of_dvd a h, toBytes]

theorem toBytes_cons8 (l : Bits) (h : 8 ≤ l.length) :
    toBytes l = bitsToNat (l.take 8) :: toBytes (l.drop 8) := by
  conv_lhs => rw [← List.take_append_drop 8 l]
  have h8 : (l.take 8).length = 8 := by simp; omega
  rw [toBytes_append _ _ (by omega), toBytes_of_dvd _ (by omega)]
  have := chunks8_cons (l.take 8) [] h8
  rw [List.append_nil] at this
  rw [this, chunks8_short [] (by simp)]
  rfl

theorem toBytes_lt8 (l : Bits) (h0 : l ≠ []) (h : l.length < 8) :
    toBytes l = [bitsToNat (l ++ List.replicate (8 - l.length) false)] := by
  have hpos : 0 < l.length := List.length_pos_iff.mpr h0
  have hp : padLen l.length = 8 - l.length := by unfold padLen; omega
  have := chunks8_cons (l ++ List.replicate (8 - l.length) false) [] (by simp; omega)
  rw [List.append_nil] at this
  rw [toBytes, padded, hp, this, chunks8_short [] (by simp)]

theorem baToBytesAux_nil (fuel : Nat) : baToBytesAux fuel [] = [] := by
  cases fuel <;> simp [baToBytesAux]

theorem baToBytesAux_eq (fuel : Nat) (l : Bits) (h : (l.length + 7) / 8 ≤ fuel) :
    baToBytesAux fuel l = toBytes l := by
  induction fuel generalizing l with
  | zero =>
    have : l = [] := List.eq_nil_of_length_eq_zero (by omega)
    subst this; rfl
  | succ fuel ih =>
    by_cases h0 : l = []
    · subst h0; rw [baToBytesAux_nil, toBytes_nil]
    · have hne : l.isEmpty = false := by cases l <;> simp_all
      simp only [baToBytesAux, hne]
      by_cases h8 : 8 ≤ l.length
      · have ht : (l.take 8).length = 8 := by simp; omega
        rw [toBytes_cons8 l h8, ih (l.drop 8) (by simp; omega), ht]
        simp
      · have hlt : l.length < 8 := by omega
        rw [List.take_of_length_le (by omega), List.drop_of_length_le (by omega), baToBytesAux_nil,
          toBytes_lt8 l h0 hlt]
        simp

theorem baToBytes_eq (l : Bits) : baToBytes l = toBytes l :=
  baToBytesAux_eq _ _ (by omega)


/-! ### Python slices -/

def clamp1 (n : Nat) (x : Int) : Int := if x < 0 then max (x + n) 0 else min x n

theorem sliceIndices_one (s e : Option Int) (n : Nat) :
    Py.sliceIndices s e 1 n =
      ((match s with | none => 0 | some x => clamp1 n x),
       (match e with | none => (n : Int) | some x => clamp1 n x), 1) := by
  have h1 : ¬ ((1 : Int) < 0) := by omega
  cases s <;> cases e <;> simp [Py.sliceIndices, clamp1, h1]

theorem getSlice_eq_pySlice {α} (l : List α) (s e : Option Int) :
    Py.getSlice l s e none = .ok (pySlice l s e) := by
  rw [BM.C01.getSlice_step1]; rfl

theorem pySlice_nat {α} (l : List α) (a b : Nat) :
    pySlice l (some (a : Int)) (some (b : Int)) = (l.drop a).take (b - a) := by
  unfold pySlice
  rw [sliceIndices_one]
  simp only [clamp1]
  have ha : ¬ ((a : Int) < 0) := by omega
  have hb : ¬ ((b : Int) < 0) := by omega
  simp only [ha, hb, if_false]
  by_cases hal : a ≤ l.length
  · have h1 : (min (a : Int) (l.length : Int)).toNat = a := by omega
    rw [h1, List.take_eq_take_iff]
    simp only [List.length_drop]
    omega
  · rw [List.drop_of_length_le (by omega), List.drop_of_length_le (by omega)]
    simp

theorem pySlice_int {α} (l : List α) (a b : Int) (ha : 0 ≤ a) (hb : 0 ≤ b) :
    pySlice l (some a) (some b) = (l.drop a.toNat).take (b.toNat - a.toNat) := by
  have := pySlice_nat l a.toNat b.toNat
  rwa [Int.toNat_of_nonneg ha, Int.toNat_of_nonneg hb] at this

theorem pySlice_none_some {α} (l : List α) (b : Nat) : pySlice l none (some (b : Int)) = l.take b := by
  unfold pySlice
  rw [sliceIndices_one]
  simp only [clamp1]
  have hb : ¬ ((b : Int) < 0) := by omega
  simp only [hb, if_false, Int.toNat_zero, List.drop_zero, Int.sub_zero]
  rw [List.take_eq_take_iff]; omega

theorem pySlice_some_none {α} (l : List α) (a : Nat) : pySlice l (some (a : Int)) none = l.drop a := by
  unfold pySlice
  rw [sliceIndices_one]
  simp only [clamp1]
  have ha : ¬ ((a : Int) < 0) := by omega
  simp only [ha, if_false]
  by_cases hal : a ≤ l.length
  · have h1 : (min (a : Int) (l.length : Int)).toNat = a := by omega
    rw [h1, List.take_of_length_le (by simp; omega)]
  · rw [List.drop_of_length_le (by omega), List.drop_of_length_le (by omega)]
    simp

theorem pySlice_none_none {α} (l : List α) : pySlice l none none = l := by
  unfold pySlice
  rw [sliceIndices_one]
  simp

theorem clamp1_bounds (n : Nat) (x : Int) : 0 ≤ clamp1 n x ∧ clamp1 n x ≤ n := by
  unfold clamp1; split <;> omega

theorem sliceIndices_one_bounds (s e : Option Int) (n : Nat) :
    0 ≤ (Py.sliceIndices s e 1 n).1 ∧ (Py.sliceIndices s e 1 n).1 ≤ n ∧
    0 ≤ (Py.sliceIndices s e 1 n).2.1 ∧ (Py.sliceIndices s e 1 n).2.1 ≤ n := by
  rw [sliceIndices_one]
  have := clamp1_bounds n
  cases s <;> cases e <;> simp <;> grind

/-- Clamping twice is clamping once. -/
theorem pySlice_clamped {α} (l : List α) (s e : Option Int) :
    pySlice l (some (Py.sliceIndices s e 1 l.length).1) (some (Py.sliceIndices s e 1 l.length).2.1) = pySlice l s e := by
  have hb := sliceIndices_one_bounds s e l.length
  generalize hx : (Py.sliceIndices s e 1 l.length) = t at hb
  obtain ⟨a, b, c⟩ := t
  simp only at hb ⊢
  conv_rhs => unfold pySlice; rw [hx]
  unfold pySlice
  rw [sliceIndices_one]
  simp only [clamp1]
  have h1 : ¬ (a < 0) := by omega
  have h2 : ¬ (b < 0) := by omega
  simp only [h1, h2, if_false]
  have h3 : min a (l.length : Int) = a := by omega
  have h4 : min b (l.length : Int) = b := by omega
  rw [h3, h4]


/-! ### stores -/

theorem wf_of_none (s : Store) (h : s.modLen = none) : s.WF := by
  intro n hn; rw [h] at hn; cases hn

theorem wf_mem (l : Bits) : (Store.mem l).WF := wf_of_none _ rfl

theorem bin_eq (s : Store) :
    s.bin = match s.modLen with
      | none => s.buf
      | some n => s.buf.take n := by
  unfold Store.bin Store.getslice
  cases h : s.modLen with
  | none => simp [pySlice_none_none]
  | some n =>
    simp only
    have h1 : (Py.sliceIndices none none 1 n) = (0, (n : Int), 1) := by
      rw [sliceIndices_one]
    rw [h1]
    have := pySlice_nat s.buf 0 n
    simpa using this

theorem bin_of_none (s : Store) (h : s.modLen = none) : s.bin = s.buf := by
  rw [bin_eq, h]

theorem wf_bin (s : Store) (h : s.WF) : s.bin = s.buf := by
  rw [bin_eq]
  cases hm : s.modLen with
  | none => rfl
  | some n => simp [h n hm]

theorem wf_len (s : Store) (h : s.WF) : s.len = s.buf.length := by
  unfold Store.len
  cases hm : s.modLen with
  | none => rfl
  | some n => simp [h n hm]

theorem wf_getslice (s : Store) (h : s.WF) (a b : Option Int) :
    s.getslice a b = ⟨pySlice s.buf a b, none, false⟩ := by
  unfold Store.getslice
  cases hm : s.modLen with
  | none => rfl
  | some n =>
    simp only
    rw [h n hm, pySlice_clamped]

theorem tobytes_eq (s : Store) : s.tobytes = toBytes s.bin := by
  rw [bin_eq]
  unfold Store.tobytes
  cases s.modLen with
  | none => simp [baToBytes_eq]
  | some n => simp [baToBytes_eq, pySlice_none_some]


/-! ### the tofile loop -/

/-- One chunk of a well-formed store: `take chunk` of what is left. -/
theorem tofile_chunk (s : Store) (h : s.WF) (chunk start : Nat) (hpos : 0 < chunk) (hlt : start < s.buf.length) :
    absoluteSlice s start (min (start + chunk) s.buf.length)
      = ⟨(s.buf.drop start).take chunk, none, false⟩ := by
  unfold absoluteSlice
  have hne : ¬ (min (start + chunk) s.buf.length = start) := by omega
  simp only [hne, if_false]
  rw [wf_getslice s h, pySlice_nat]
  congr 1
  rw [List.take_eq_take_iff]
  simp only [List.length_drop]
  omega

theorem tofileLoop_spec (s : Store) (h : s.WF) (chunk : Nat) (hpos : 0 < chunk) (h8 : chunk % 8 = 0)
    (fuel start : Nat) (hf : s.buf.length - start ≤ fuel) :
    tofileLoop s chunk fuel start = toBytes (s.buf.drop start) := by
  induction fuel generalizing start with
  | zero =>
    rw [List.drop_of_length_le (by omega), toBytes_nil]; rfl
  | succ fuel ih =>
    simp only [tofileLoop]
    rw [wf_len s h]
    by_cases hlt : start < s.buf.length
    · simp only [hlt, if_true]
      rw [tofile_chunk s h chunk start hpos hlt, tobytes_eq, bin_of_none _ rfl, ih (start + chunk) (by omega)]
      generalize hr : s.buf.drop start = r
      have hd : s.buf.drop (start + chunk) = r.drop chunk := by rw [← hr, List.drop_drop]
      rw [hd]
      by_cases hle : chunk ≤ r.length
      · rw [← toBytes_append _ _ (by rw [List.length_take]; omega), List.take_append_drop]
      · rw [List.take_of_length_le (by omega), List.drop_of_length_le (by omega), toBytes_nil, List.append_nil]
    · simp only [hlt, if_false]
      rw [List.drop_of_length_le (by omega), toBytes_nil]

theorem tofile_eq (chunk : Nat) (s : Store) (hwf : s.WF) (h8 : chunk % 8 = 0) (hpos : 0 < chunk) :
    tofile chunk s = .ok (toBytes s.bin) := by
  unfold tofile
  have hc : ¬ chunk = 0 := by omega
  simp only [hc, if_false]
  rw [wf_len s hwf, wf_bin s hwf, tofileLoop_spec s hwf chunk hpos h8 s.buf.length 0 (by omega)]
  simp

/-! ### windows -/

theorem bytesToBits_drop (data : Bytes) (a : Nat) :
    bytesToBits (data.drop a) = (bytesToBits data).drop (8 * a) := by
  induction a generalizing data with
  | zero => simp
  | succ a ih =>
    cases data with
    | nil => simp [bytesToBits_nil]
    | cons x xs =>
      rw [List.drop_succ_cons, ih, bytesToBits_cons]
      have : 8 * (a + 1) = (natToBits 8 x).length + 8 * a := by simp; omega
      have e1 : List.drop ((natToBits 8 x).length + 8 * a) (natToBits 8 x) = [] :=
        List.drop_of_length_le (by omega)
      rw [this, List.drop_append, e1]
      simp

theorem bytesToBits_take (data : Bytes) (a : Nat) :
    bytesToBits (data.take a) = (bytesToBits data).take (8 * a) := by
  induction a generalizing data with
  | zero => simp [bytesToBits_nil]
  | succ a ih =>
    cases data with
    | nil => simp [bytesToBits_nil]
    | cons x xs =>
      rw [List.take_succ_cons, bytesToBits_cons, ih, bytesToBits_cons]
      have : 8 * (a + 1) = (natToBits 8 x).length + 8 * a := by simp; omega
      have e1 : List.take ((natToBits 8 x).length + 8 * a) (natToBits 8 x) = natToBits 8 x :=
        List.take_of_length_le (by omega)
      rw [this, List.take_append, e1]
      simp

theorem validWindow_iff (n : Nat) (off len : Option Int) :
    validWindow n off len = true ↔ (0 ≤ offD off ∧ 0 ≤ lenD n off len ∧ offD off + lenD n off len ≤ n) := by
  simp [validWindow, and_assoc]

/-- A window inside a window. -/
theorem window_window (X : Bits) (a m b L : Nat) (h : b + L ≤ m) :
    (((X.drop a).take m).drop b).take L = (X.drop (a + b)).take L := by
  rw [List.drop_take, List.take_take, List.drop_drop]
  congr 1
  omega

theorem readSpec_def (data : Bytes) (off len : Option Int) :
    readSpec data off len =
      ((bytesToBits data).drop (offD off).toNat).take (lenD (8 * data.length) off len).toNat := rfl

/-- `_setbytes_with_truncation` on a valid window. -/
theorem setBytes_valid (data : Bytes) (off len : Option Int)
    (h : validWindow (8 * data.length) off len = true) :
    setBytes data len off = .ok ⟨readSpec data off len, none, false⟩ := by
  rw [validWindow_iff] at h
  obtain ⟨h1, h2, h3⟩ := h
  rw [readSpec_def]
  have key : ∀ (o L : Int), 0 ≤ o → 0 ≤ L →
      (Store.frombytes data).getslice (some o) (some (o + L))
        = ⟨((bytesToBits data).drop o.toNat).take L.toNat, none, false⟩ := by
    intro o L ho hL
    simp only [Store.getslice, Store.frombytes]
    rw [pySlice_int _ _ _ ho (by omega)]
    congr 2
    omega
  cases off with
  | none =>
    cases len with
    | none =>
      simp only [setBytes, Store.frombytes, offD, lenD, Option.getD_none, Int.toNat_zero, List.drop_zero]
      rw [List.take_of_length_le (by simp)]
    | some L =>
      simp only [offD, lenD, Option.getD_none, Option.getD_some] at h1 h2 h3
      have a1 : ¬ ((0 : Int) < 0) := by omega
      have a2 : negLen (some L) = false := by simp [negLen]; omega
      have a3 : ¬ ((0 : Int) > (data.length : Int) * 8) := by omega
      have a4 : ¬ (L + 0 > (data.length : Int) * 8) := by omega
      simp only [setBytes, offD, lenD, Option.getD_none, Option.getD_some, a1, a2, a3, a4, if_false,
        Bool.false_eq_true]
      have := key 0 L (by omega) h2
      simpa using this
  | some o =>
    cases len with
    | none =>
      simp only [offD, lenD, Option.getD_none, Option.getD_some] at h1 h2 h3
      have a1 : ¬ (o < 0) := by omega
      have a3 : ¬ (o > (data.length : Int) * 8) := by omega
      simp only [setBytes, offD, lenD, Option.getD_none, Option.getD_some, a1, a3, if_false,
        Bool.false_eq_true, negLen]
      rw [key o _ h1 (by omega)]
      congr 3
      omega
    | some L =>
      simp only [offD, lenD, Option.getD_some] at h1 h2 h3
      have a1 : ¬ (o < 0) := by omega
      have a2 : negLen (some L) = false := by simp [negLen]; omega
      have a3 : ¬ (o > (data.length : Int) * 8) := by omega
      have a4 : ¬ (L + o > (data.length : Int) * 8) := by omega
      simp only [setBytes, offD, lenD, Option.getD_some, a1, a2, a3, a4, if_false,
        Bool.false_eq_true]
      rw [key o L h1 h2]

/-- The BytesIO branch: byte range first, then the bit window inside it. -/
theorem bytesio_core (data : Bytes) (o L : Int) (ho : 0 ≤ o) (hL : 0 ≤ L) :
    (Store.frombytes (pySlice data (some (o / 8)) (some (o / 8 + ((L + o / 8 * 8 + o % 8 + 7) / 8 - o / 8))))).getslice
        (some (o % 8)) (some (o % 8 + L))
      = ⟨((bytesToBits data).drop o.toNat).take L.toNat, none, false⟩ := by
  have hbo : 0 ≤ o / 8 := by omega
  have hr : 0 ≤ o % 8 := by omega
  rw [pySlice_int _ _ _ hbo (by omega)]
  simp only [Store.getslice, Store.frombytes]
  rw [pySlice_int _ _ _ hr (by omega), bytesToBits_take, bytesToBits_drop]
  have hw : (o % 8).toNat + ((o % 8 + L).toNat - (o % 8).toNat)
      ≤ 8 * ((o / 8 + ((L + o / 8 * 8 + o % 8 + 7) / 8 - o / 8)).toNat - (o / 8).toNat) := by omega
  rw [window_window _ _ _ _ _ hw]
  have e1 : 8 * (o / 8).toNat + (o % 8).toNat = o.toNat := by omega
  have e2 : (o % 8 + L).toNat - (o % 8).toNat = L.toNat := by omega
  rw [e1, e2]

theorem setBytesIO_valid (data : Bytes) (off len : Option Int)
    (h : validWindow (8 * data.length) off len = true) :
    setBytesIO data len off = .ok ⟨readSpec data off len, none, false⟩ := by
  rw [validWindow_iff] at h
  obtain ⟨h1, h2, h3⟩ := h
  rw [readSpec_def]
  cases off with
  | none =>
    cases len with
    | none =>
      simp only [setBytesIO, Store.frombytes, offD, lenD, Option.getD_none, Int.toNat_zero, List.drop_zero]
      rw [List.take_of_length_le (by simp)]
    | some L =>
      simp only [offD, lenD, Option.getD_none, Option.getD_some] at h1 h2 h3
      have a1 : ¬ ((0 : Int) < 0) := by omega
      have a2 : negLen (some L) = false := by simp [negLen]; omega
      have a3 : ¬ ((0 : Int) > (data.length : Int) * 8) := by omega
      have a4 : ¬ (L + (0 : Int) / 8 * 8 + 0 % 8 > (data.length : Int) * 8) := by omega
      simp only [setBytesIO, offD, lenD, Option.getD_none, Option.getD_some, a1, a2, a3, a4, if_false,
        Bool.false_eq_true]
      rw [bytesio_core data 0 L (by omega) h2]
  | some o =>
    cases len with
    | none =>
      simp only [offD, lenD, Option.getD_none, Option.getD_some] at h1 h2 h3
      have a1 : ¬ (o < 0) := by omega
      have a3 : ¬ (o > (data.length : Int) * 8) := by omega
      have a4 : ¬ ((data.length : Int) * 8 - o + o / 8 * 8 + o % 8 > (data.length : Int) * 8) := by omega
      simp only [setBytesIO, offD, lenD, Option.getD_none, Option.getD_some, a1, a3, a4, if_false,
        Bool.false_eq_true, negLen]
      rw [bytesio_core data o _ h1 (by omega)]
      congr 3
      omega
    | some L =>
      simp only [offD, lenD, Option.getD_some] at h1 h2 h3
      have a1 : ¬ (o < 0) := by omega
      have a2 : negLen (some L) = false := by simp [negLen]; omega
      have a3 : ¬ (o > (data.length : Int) * 8) := by omega
      have a4 : ¬ (L + o / 8 * 8 + o % 8 > (data.length : Int) * 8) := by omega
      simp only [setBytesIO, offD, lenD, Option.getD_some, a1, a2, a3, a4, if_false,
        Bool.false_eq_true]
      rw [bytesio_core data o L h1 h2]

theorem getslice_modLen (s : Store) (a b : Option Int) : (s.getslice a b).modLen = none := by
  unfold Store.getslice; cases s.modLen <;> rfl

theorem frombuffer_wf (data : Bytes) (length : Option Int) (s : Store)
    (h : Store.frombuffer data length = .ok s) : s.WF := by
  unfold Store.frombuffer at h
  cases length with
  | none => simp only at h; injection h with h; subst h; exact wf_of_none _ rfl
  | some n =>
    simp only at h
    split at h
    · cases h
    · split at h
      · cases h
      · injection h with h; subst h; exact wf_of_none _ rfl

/-- `_setfile` on a valid window (any file size, the empty file included). -/
theorem setFile_valid (data : Bytes) (off len : Option Int)
    (h : validWindow (8 * data.length) off len = true) :
    ∃ s, setFile data len off = .ok s ∧ s.WF ∧ s.bin = readSpec data off len := by
  rw [validWindow_iff] at h
  obtain ⟨h1, h2, h3⟩ := h
  rw [readSpec_def]
  unfold setFile
  have hoff : off.getD 0 = offD off := rfl
  have hnn : ¬ (offD off < 0) := by omega
  simp only [hoff, hnn, if_false]
  by_cases ho : offD off = 0
  · simp only [ho, if_true, Int.toNat_zero, List.drop_zero]
    cases len with
    | none =>
      refine ⟨_, rfl, wf_of_none _ rfl, ?_⟩
      rw [bin_of_none _ rfl]
      simp only [lenD, Option.getD_none, ho]
      rw [List.take_of_length_le (by simp)]
    | some L =>
      simp only [lenD, Option.getD_some, ho] at h2 h3
      simp only [Store.frombuffer, lenD, Option.getD_some]
      have c1 : ¬ (L < 0) := by omega
      have c2 : ¬ (L > ((bytesToBits data).length : Int)) := by simp; omega
      simp only [c1, c2, if_false]
      refine ⟨_, rfl, wf_of_none _ rfl, ?_⟩
      rw [bin_of_none _ rfl]
      by_cases c3 : L < ((bytesToBits data).length : Int)
      · simp only [c3, if_true]
        have := pySlice_none_some (bytesToBits data) L.toNat
        rw [Int.toNat_of_nonneg (by omega)] at this
        exact this
      · simp only [c3, if_false]
        have hL : (bytesToBits data).length ≤ L.toNat := by simp at c3 ⊢; omega
        rw [List.take_of_length_le hL]
  · simp only [ho, if_false]
    have hpos : 0 < offD off := by omega
    have c1 : ¬ (offD off > ((Store.len ⟨bytesToBits data, none, true⟩ : Nat) : Int)) := by
      have := h2
      cases len <;> simp [Store.len, lenD] at this ⊢ <;> omega
    simp only [c1, if_false]
    cases len with
    | none =>
      simp only [lenD, Option.getD_none] at h2 h3 ⊢
      refine ⟨_, rfl, wf_of_none _ (getslice_modLen _ _ _), ?_⟩
      rw [bin_of_none _ (getslice_modLen _ _ _)]
      simp only [Store.getslice]
      have := pySlice_some_none (bytesToBits data) (offD off).toNat
      rw [Int.toNat_of_nonneg (by omega)] at this
      rw [this, List.take_of_length_le (by simp; omega)]
    | some L =>
      simp only [lenD, Option.getD_some] at h2 h3 ⊢
      have hg : (Store.getslice ⟨bytesToBits data, none, true⟩ (some (offD off)) (some (offD off + L)))
          = ⟨((bytesToBits data).drop (offD off).toNat).take L.toNat, none, false⟩ := by
        simp only [Store.getslice]
        rw [pySlice_int _ _ _ (by omega) (by omega)]
        congr 2
        omega
      rw [hg]
      have c1 : ¬ (((Store.len ⟨((bytesToBits data).drop (offD off).toNat).take L.toNat, none, false⟩ : Nat) : Int) ≠ L) := by
        simp [Store.len]; omega
      simp only [c1, if_false]
      exact ⟨_, rfl, wf_of_none _ rfl, bin_of_none _ rfl⟩

/-! ### classes, construct -/

theorem finish_good (cls : Cls) (s : Store) (h : s.WF) : (finish cls s).WF ∧ (finish cls s).bin = s.bin := by
  unfold finish
  split
  · exact ⟨wf_of_none _ rfl, by rw [bin_of_none _ rfl, wf_bin s h]; rfl⟩
  · exact ⟨h, rfl⟩

theorem setBytes_wf (data : Bytes) (off len : Option Int) (s : Store)
    (h : setBytes data len off = .ok s) : s.WF := by
  apply wf_of_none
  unfold setBytes at h
  simp only at h
  repeat' split at h
  all_goals (cases h <;> first | rfl | exact getslice_modLen _ _ _)

theorem setBytesIO_wf (data : Bytes) (off len : Option Int) (s : Store)
    (h : setBytesIO data len off = .ok s) : s.WF := by
  apply wf_of_none
  unfold setBytesIO at h
  simp only at h
  repeat' split at h
  all_goals (cases h <;> first | rfl | exact getslice_modLen _ _ _)

theorem setFile_wf (data : Bytes) (off len : Option Int) (s : Store)
    (h : setFile data len off = .ok s) : s.WF := by
  unfold setFile at h
  simp only at h
  split at h
  · cases h
  · split at h
    · exact frombuffer_wf _ _ _ h
    · repeat' split at h
      all_goals (cases h <;> exact wf_of_none _ (getslice_modLen _ _ _))

theorem construct_ok_iff (cls : Cls) (k : Src) (data : Bytes) (off len : Option Int) (s : Store) :
    construct cls k data len off = .ok s ↔
      ∃ s0, (match k with
             | .bytes => setBytes data len off
             | .bytesio => setBytesIO data len off
             | .file => setFile data len off) = .ok s0 ∧ s = finish cls s0 := by
  cases k
  · cases h : setBytes data len off <;> simp [construct, h, Except.map, eq_comm]
  · cases h : setBytesIO data len off <;> simp [construct, h, Except.map, eq_comm]
  · cases h : setFile data len off <;> simp [construct, h, Except.map, eq_comm]

theorem construct_wf' (cls : Cls) (k : Src) (data : Bytes) (off len : Option Int) (s : Store)
    (h : construct cls k data len off = .ok s) : s.WF := by
  rw [construct_ok_iff] at h
  obtain ⟨s0, h0, rfl⟩ := h
  refine (finish_good cls s0 ?_).1
  cases k
  · exact setBytes_wf _ _ _ _ h0
  · exact setBytesIO_wf _ _ _ _ h0
  · exact setFile_wf _ _ _ _ h0

theorem construct_valid (cls : Cls) (k : Src) (data : Bytes) (off len : Option Int)
    (h : validWindow (8 * data.length) off len = true) :
    ∃ s, construct cls k data len off = .ok s ∧ s.WF ∧ s.bin = readSpec data off len := by
  have core : ∃ s0, ((match k with
             | .bytes => setBytes data len off
             | .bytesio => setBytesIO data len off
             | .file => setFile data len off) : Except Err Store) = .ok s0 ∧ s0.WF ∧ s0.bin = readSpec data off len := by
    cases k
    · exact ⟨_, setBytes_valid data off len h, wf_of_none _ rfl, bin_of_none _ rfl⟩
    · exact ⟨_, setBytesIO_valid data off len h, wf_of_none _ rfl, bin_of_none _ rfl⟩
    · exact setFile_valid data off len h
  obtain ⟨s0, h0, hwf, hbin⟩ := core
  refine ⟨finish cls s0, ?_, (finish_good cls s0 hwf).1, ?_⟩
  · rw [construct_ok_iff]; exact ⟨s0, h0, rfl⟩
  · rw [(finish_good cls s0 hwf).2, hbin]

theorem construct_valid_bin (cls : Cls) (k : Src) (data : Bytes) (off len : Option Int)
    (h : validWindow (8 * data.length) off len = true) :
    (construct cls k data len off).map Store.bin = .ok (readSpec data off len) := by
  obtain ⟨s, hs, _, hb⟩ := construct_valid cls k data off len h
  rw [hs]; simp [Except.map, hb]


/-! ### round trips, Array -/

theorem ok_bind {α β} (a : α) (f : α → Except Err β) : (Except.ok a >>= f) = f a := rfl

theorem toBytes_ne_nil (l : Bits) (h : l ≠ []) : toBytes l ≠ [] := by
  intro h0
  have h1 := toBytes_length' l
  rw [h0] at h1
  have : 0 < l.length := List.length_pos_iff.mpr h
  simp at h1; omega

theorem readSpec_toBytes (l : Bits) : readSpec (toBytes l) none (some (l.length : Int)) = l := by
  rw [readSpec_def, bytesToBits_toBytes]
  simp [offD, lenD, padded]

theorem valid_toBytes (l : Bits) :
    validWindow (8 * (toBytes l).length) none (some (l.length : Int)) = true := by
  rw [validWindow_iff, toBytes_length']
  simp only [offD, lenD, Option.getD_none, Option.getD_some]
  omega

theorem roundtrip_eq (cls : Cls) (k : Src) (chunk : Nat) (l : Bits) (h8 : chunk % 8 = 0) (hpos : 0 < chunk) :
    (tofile chunk (Store.mem l) >>= fun w =>
      (construct cls k w (some (l.length : Int)) none).map Store.bin) = .ok l := by
  rw [tofile_eq chunk _ (wf_mem l) h8 hpos, ok_bind, bin_of_none _ rfl]
  show (construct cls k (toBytes l) (some (l.length : Int)) none).map Store.bin = .ok l
  rw [construct_valid_bin cls k (toBytes l) none (some (l.length : Int)) (valid_toBytes l), readSpec_toBytes]

theorem arrayTobytes_eq' (data : Bits) : arrayTobytes data = toBytes data := by
  unfold arrayTobytes; rw [tobytes_eq, bin_of_none _ rfl]; rfl

theorem arrayTofile_eq' (chunk : Nat) (data : Bits) (h8 : chunk % 8 = 0) (hpos : 0 < chunk) :
    arrayTofile chunk data = .ok (toBytes data) := by
  unfold arrayTofile; rw [tofile_eq chunk _ (wf_mem data) h8 hpos, bin_of_none _ rfl]; rfl

/-- What `Bits(f)` gives inside `Array.fromfile`. -/
theorem fromfile_source (file : Bytes) (fk : FKind) :
    ∃ im, fromfileSource file fk = .ok ⟨bytesToBits file, none, im⟩ := by
  cases fk with
  | bytesio => exact ⟨false, rfl⟩
  | handle => exact ⟨true, by simp [fromfileSource, setFile, Store.frombuffer]⟩

theorem take_items {α} (l : List α) (m isz : Nat) :
    pySlice l (some 0) (some ((m : Int) * (isz : Int))) = l.take (m * isz) := by
  have := pySlice_nat l 0 (m * isz)
  simpa using this

theorem arrayFromfile_eq (data : Bits) (isz : Nat) (file : Bytes) (fk : FKind) (n : Option Int)
    (hisz : 0 < isz) (htr : data.length % isz = 0)
    (hn : ∀ k, n = some k → 0 ≤ k ∧ k ≤ ((8 * file.length / isz : Nat) : Int)) :
    arrayFromfile data isz file fk n =
      .ok (false, data ++ (bytesToBits file).take ((match n with
                                              | none => 8 * file.length / isz
                                              | some k => k.toNat) * isz)) := by
  obtain ⟨im, hsrc⟩ := fromfile_source file fk
  have h0 : ¬ isz = 0 := by omega
  have h1 : ¬ (data.length % isz ≠ 0) := by omega
  cases n with
  | none =>
    simp only [arrayFromfile, h0, h1, if_false, hsrc, ok_bind, itemsToAppend, Store.len, Store.getslice,
      bytesToBits_length]
    rw [take_items]
  | some k =>
    obtain ⟨hk0, hk1⟩ := hn k rfl
    obtain ⟨m, rfl⟩ := Int.eq_ofNat_of_zero_le hk0
    have hmin : min (m : Int) ((8 * file.length / isz : Nat) : Int) = (m : Int) := by omega
    have hlt : ¬ ((m : Int) < (m : Int)) := by omega
    simp only [arrayFromfile, h0, h1, if_false, hsrc, ok_bind, itemsToAppend, Store.len, Store.getslice,
      bytesToBits_length, hmin, hlt, Int.toNat_natCast, decide_false]
    rw [take_items]

theorem arrayFromfile_trailing' (data : Bits) (isz : Nat) (file : Bytes) (fk : FKind) (n : Option Int)
    (hisz : 0 < isz) (htr : data.length % isz ≠ 0) :
    arrayFromfile data isz file fk n = .error .value := by
  have h0 : ¬ isz = 0 := by omega
  simp [arrayFromfile, h0, htr]

/-- More items requested than the file holds: every whole item is appended, nothing else, and EOFError is raised. -/
theorem arrayFromfile_short' (data : Bits) (isz : Nat) (file : Bytes) (fk : FKind) (k : Int)
    (hisz : 0 < isz) (htr : data.length % isz = 0) (hk : ((8 * file.length / isz : Nat) : Int) < k) :
    arrayFromfile data isz file fk (some k) =
      .ok (true, data ++ (bytesToBits file).take (8 * file.length / isz * isz)) := by
  obtain ⟨im, hsrc⟩ := fromfile_source file fk
  have h0 : ¬ isz = 0 := by omega
  have h1 : ¬ (data.length % isz ≠ 0) := by omega
  have hmin : min k ((8 * file.length / isz : Nat) : Int) = ((8 * file.length / isz : Nat) : Int) := by omega
  simp only [arrayFromfile, h0, h1, if_false, hsrc, ok_bind, itemsToAppend, Store.len, Store.getslice,
    bytesToBits_length, hmin, hk, decide_true]
  rw [take_items]

theorem array_roundtrip_eq (data : Bits) (isz chunk : Nat) (fk : FKind) (h8 : chunk % 8 = 0) (hpos : 0 < chunk)
    (hisz : 0 < isz) :
    (arrayTofile chunk data >>= fun w => arrayFromfile [] isz w fk none) =
      .ok (false, (padded data).take ((padded data).length / isz * isz)) := by
  rw [arrayTofile_eq' chunk data h8 hpos, ok_bind,
    arrayFromfile_eq [] isz (toBytes data) fk none hisz (by simp) (by intro k hk; cases hk)]
  simp only [List.nil_append, bytesToBits_toBytes]
  rw [toBytes_length', padded_dvd]

end BM.C17
