/-
  Proofs/C17.lean — helper lemmas for Props/C17.lean (byte packing, Python slices as drop/take, the cut loop).
-/
import BitstringModel.Model.C17
import BitstringModel.Proofs.Basic
import BitstringModel.Proofs.C01
import Mathlib.Data.List.Basic

namespace BM.C17
open BM

/-- A store is well formed when its `modified_length` (if any) does not exceed the buffer — what
    `BitStore.frombuffer` checks before it stores the value. -/
def Store.WF (s : Store) : Prop := ∀ n, s.modLen = some n → n ≤ s.buf.length

end BM.C17
