/-
  Proofs/C11_Api.lean — from the table obligations to the encoders of the public API:
  `float_to_int` returns, for every float64, the code `EncodeSpec` demands for its IEEE half-precision rounding.
-/
import BitstringModel.Proofs.C11_Tables
import BitstringModel.Proofs.C11_Dec
import BitstringModel.Proofs.C11_Mxint

namespace BM.C11
open BM

theorem halfClass_infPattern (s : Bool) : halfClass ((if s then 2 ^ (5 + 10) else 0) + (2 ^ 5 - 1) * 2 ^ 10) = .inf s := by
  cases s <;> decide

theorem isNaN64_iff (f : Nat) : isNaN64 f = true ↔ f64Val f = .nan := by
  unfold isNaN64; simp

/-- The binary16 pattern produced by the IEEE conversion is a 16-bit number, and it is a NaN pattern only for NaN. -/
theorem ieeeNarrow_half (f : Nat) :
    ieeeNarrow 5 10 f < 65536 ∧ (halfClass (ieeeNarrow 5 10 f) = .nan → f64Val f = .nan) := by
  unfold ieeeNarrow
  cases hv : f64Val f with
  | nan => simp; split <;> omega
  | inf s => simp; cases s <;> decide
  | fin s m e =>
    simp only
    generalize dyadicNum m e = num
    generalize dyadicDen e = den
    cases hb : (roundBits 5 10 s num den).2 with
    | true =>
      obtain ⟨_, h1⟩ := roundBits_ovf hb
      rw [h1]
      refine ⟨by cases s <;> decide, fun hc => ?_⟩
      rw [halfClass_infPattern] at hc
      cases hc
    | false =>
      obtain ⟨mag, h1, hmag⟩ := roundBits_lt hb
      generalize (roundBits 5 10 s num den).1 = r at h1
      have h2 : r < 65536 := by cases s <;> simp at h1 hmag <;> omega
      refine ⟨h2, ?_⟩
      intro hc
      exfalso
      by_cases he : r / 1024 % 32 = 31
      · by_cases hm : r % 1024 = 0
        · simp [halfClass, he, hm] at hc
        · cases s <;> simp at h1 hmag <;> omega
      · by_cases h0 : r / 1024 % 32 = 0
        · simp [halfClass, h0] at hc
        · simp [halfClass, he, h0] at hc

/-- Every entry of every live float16→code table is the code `EncodeSpec` demands. -/
theorem encTable_ok (t : Tbl) (h : Nat) (hh : h < 65536) :
    ∃ code, encLookup t.enc h = some code ∧ EncodeSpec t.fmt t.mode h code := by
  have hm := strictMono_all t
  cases t
  · obtain ⟨c, h1, h2⟩ := encTable_P3 h hh; exact ⟨c, h1, encChk_sound hm _ _ _ h2⟩
  · obtain ⟨c, h1, h2⟩ := encTable_P4 h hh; exact ⟨c, h1, encChk_sound hm _ _ _ h2⟩
  · obtain ⟨c, h1, h2⟩ := encTable_E5M2S h hh; exact ⟨c, h1, encChk_sound hm _ _ _ h2⟩
  · obtain ⟨c, h1, h2⟩ := encTable_E5M2O h hh; exact ⟨c, h1, encChk_sound hm _ _ _ h2⟩
  · obtain ⟨c, h1, h2⟩ := encTable_E4M3S h hh; exact ⟨c, h1, encChk_sound hm _ _ _ h2⟩
  · obtain ⟨c, h1, h2⟩ := encTable_E4M3O h hh; exact ⟨c, h1, encChk_sound hm _ _ _ h2⟩
  · obtain ⟨c, h1, h2⟩ := encTable_E3M2 h hh; exact ⟨c, h1, encChk_sound hm _ _ _ h2⟩
  · obtain ⟨c, h1, h2⟩ := encTable_E2M3 h hh; exact ⟨c, h1, encChk_sound hm _ _ _ h2⟩
  · obtain ⟨c, h1, h2⟩ := encTable_E2M1 h hh; exact ⟨c, h1, encChk_sound hm _ _ _ h2⟩

/-- `float_to_int8` / `float_to_int` on any float64: the code demanded for the IEEE binary16 rounding of `f`
    (table look-up when `struct.pack` succeeds, clamp value on OverflowError, which is the ±inf case). -/
theorem floatToInt_ok (t : Tbl) (f : Nat) :
    ∃ code, floatToInt t f = .ok code ∧ EncodeSpec t.fmt t.mode (ieeeNarrow 5 10 f) code := by
  unfold floatToInt
  cases hp : packIEEE 5 10 f with
  | none =>
    obtain ⟨s, m, e, hv, hm, hn⟩ := pack_none hp
    rw [f64Gt_zero_of_fin hv hm, hn, clamp_all t]
    refine ⟨_, rfl, ?_⟩
    unfold EncodeSpec
    rw [halfClass_infPattern]
    cases s <;> rfl
  | some h =>
    have hn := pack_some hp
    have hlt := (ieeeNarrow_half f).1
    rw [hn] at hlt
    obtain ⟨code, h1, h2⟩ := encTable_ok t h hlt
    simp only [h1]
    exact ⟨code, rfl, hn ▸ h2⟩

/-- The table object a table-driven name uses under `mode` (bitstore_helpers.py:121-176). -/
def Name.tbl? (n : Name) (mode : Mode) : Option Tbl :=
  match n with
  | .p3binary => some .p3
  | .p4binary => some .p4
  | .e5m2mxfp => some (if mode = .saturate then .e5m2s else .e5m2o)
  | .e4m3mxfp => some (if mode = .saturate then .e4m3s else .e4m3o)
  | .e3m2mxfp => some .e3m2
  | .e2m3mxfp => some .e2m3
  | .e2m1mxfp => some .e2m1
  | _ => none

theorem outCode_lt (t : Tbl) (s : Bool) : ∀ c, c ≤ t.fmt.lim → outCode t.fmt t.mode s c < 2 ^ t.fmt.width := by
  cases t <;> cases s <;> decide +kernel

theorem ovfCode_lt (t : Tbl) (s : Bool) : ovfCode t.fmt t.mode s < 2 ^ t.fmt.width := by
  cases t <;> cases s <;> decide

theorem nanCode_lt (t : Tbl) (h : t.fmt.kind ≠ .small) : nanCode t.fmt < 2 ^ t.fmt.width := by
  cases t <;> first | decide | (exfalso; exact h rfl)

/-- A code satisfying `EncodeSpec` fits the format's width (except the unconstrained NaN entries of the 6/4-bit formats). -/
theorem encodeSpec_lt (t : Tbl) (h code : Nat) (hs : EncodeSpec t.fmt t.mode h code)
    (hn : halfClass h ≠ .nan ∨ t.fmt.kind ≠ .small) : code < 2 ^ t.fmt.width := by
  unfold EncodeSpec at hs
  cases hc : halfClass h with
  | nan =>
    rw [hc] at hs
    simp only at hs
    rcases hn with hn | hn
    · exact absurd hc hn
    · rcases hs with hs | hs
      · exact absurd hs hn
      · rw [hs]; exact nanCode_lt t hn
  | inf s => rw [hc] at hs; simp only at hs; rw [hs]; exact ovfCode_lt t s
  | fin s x =>
    rw [hc] at hs
    obtain ⟨c, hne, hcode⟩ := hs
    rw [hcode]
    exact outCode_lt t s c hne.1

/-- ALG = SPEC for the seven table-driven formats, for every float64 `f` and both modes: the encoder returns the code
    `EncodeSpec` demands for the IEEE half-precision rounding of `f`; the 6/4-bit formats reject NaN with ValueError. -/
theorem encode_ok (n : Name) (mode : Mode) (t : Tbl) (ht : n.tbl? mode = some t) (f : Nat) :
    (t.fmt.kind = .small ∧ isNaN64 f = true ∧ encode n mode f = .error .value) ∨
    (¬ (t.fmt.kind = .small ∧ isNaN64 f = true) ∧
      ∃ code, encode n mode f = .ok code ∧ code < 2 ^ n.bits ∧ EncodeSpec t.fmt t.mode (ieeeNarrow 5 10 f) code) := by
  obtain ⟨code, h1, h2⟩ := floatToInt_ok t f
  have hnarrow := (ieeeNarrow_half f).2
  have key : ¬ (t.fmt.kind = .small ∧ isNaN64 f = true) → code < 2 ^ t.fmt.width := by
    intro hno
    apply encodeSpec_lt t _ _ h2
    by_cases hk : t.fmt.kind = .small
    · left
      intro hc
      have := hnarrow hc
      exact hno ⟨hk, (isNaN64_iff f).2 this⟩
    · right; exact hk
  cases n <;> simp only [Name.tbl?, Option.some.injEq, reduceCtorEq] at ht
  all_goals subst ht
  -- p3binary, p4binary, e5m2mxfp, e4m3mxfp: no NaN rejection
  case p3binary | p4binary =>
    right
    have hk := key (by simp [Tbl.fmt, Fmt.p3, Fmt.p4])
    refine ⟨by simp [Tbl.fmt, Fmt.p3, Fmt.p4], code, ?_, hk, h2⟩
    simp only [encode, h1, bind, Except.bind, uintBits]
    exact if_pos hk
  case e5m2mxfp | e4m3mxfp =>
    right
    cases mode <;> simp only [reduceIte, reduceCtorEq] at h1 h2 key ⊢
    all_goals
      have hk := key (by simp [Tbl.fmt, Fmt.e5m2, Fmt.e4m3])
      refine ⟨by simp [Tbl.fmt, Fmt.e5m2, Fmt.e4m3], code, ?_, hk, h2⟩
      simp only [encode, reduceIte, reduceCtorEq, h1, bind, Except.bind, uintBits]
      exact if_pos hk
  case e3m2mxfp | e2m3mxfp | e2m1mxfp =>
    by_cases hnan : isNaN64 f = true
    · left
      exact ⟨rfl, hnan, by simp [encode, hnan]⟩
    · right
      have hk := key (fun h => hnan h.2)
      refine ⟨fun h => hnan h.2, code, ?_, hk, h2⟩
      simp only [encode, hnan, h1, bind, Except.bind, uintBits, Bool.false_eq_true, reduceIte]
      exact if_pos hk

/-! ### e8m0: exactly the powers of two -/

theorem pow2F64_inj {i j : Nat} (hi : i < 255) (hj : j < 255)
    (h : pow2F64 ((i : Int) - 127) = pow2F64 ((j : Int) - 127)) : i = j := by
  unfold pow2F64 at h
  have e1 : ((i : Int) - 127 + 1023).toNat = i + 896 := by omega
  have e2 : ((j : Int) - 127 + 1023).toNat = j + 896 := by omega
  rw [e1, e2] at h
  omega

theorem e8m0Enc_ok_iff (f c : Nat) :
    e8m0Enc f = .ok c ↔
      (isNaN64 f = true ∧ c = 255) ∨ (isNaN64 f = false ∧ c < 255 ∧ f = pow2F64 ((c : Int) - 127)) := by
  unfold e8m0Enc
  by_cases hn : isNaN64 f = true
  · simp [hn]; exact eq_comm
  · simp only [hn, Bool.false_eq_true, ↓reduceIte, false_and, false_or]
    have hn' : isNaN64 f = false := by simpa using hn
    simp only [true_and]
    cases hf : (List.range 255).find? (fun (i : Nat) => pow2F64 ((i : Int) - 127) == f) with
    | none =>
      simp only [reduceCtorEq, false_iff]
      rintro ⟨hc, he⟩
      have := List.find?_eq_none.1 hf c (List.mem_range.2 hc)
      simp [he] at this
    | some i =>
      have hp := List.find?_some hf
      have hmem := List.mem_range.1 (List.mem_of_find?_eq_some hf)
      simp only [beq_iff_eq] at hp
      simp only [Except.ok.injEq]
      constructor
      · intro h; subst h; exact ⟨hmem, hp.symm⟩
      · rintro ⟨hc, he⟩
        exact pow2F64_inj hmem hc (hp.trans he)

theorem e8m0Enc_error_iff (f : Nat) :
    e8m0Enc f = .error .value ↔ isNaN64 f = false ∧ ∀ c : Nat, c < 255 → f ≠ pow2F64 ((c : Int) - 127) := by
  unfold e8m0Enc
  by_cases hn : isNaN64 f = true
  · simp [hn]
  · have hn' : isNaN64 f = false := by simpa using hn
    simp only [hn', Bool.false_eq_true, ↓reduceIte, true_and]
    cases hf : (List.range 255).find? (fun (i : Nat) => pow2F64 ((i : Int) - 127) == f) with
    | none =>
      simp only [true_iff]
      intro c hc he
      have := List.find?_eq_none.1 hf c (List.mem_range.2 hc)
      simp [he] at this
    | some i =>
      have hp := List.find?_some hf
      have hmem := List.mem_range.1 (List.mem_of_find?_eq_some hf)
      simp only [beq_iff_eq] at hp
      simp only [reduceCtorEq, false_iff]
      intro h
      exact h i hmem hp.symm

/-! ### bfloat: truncated float32 -/

theorem halfInfPattern32 (s : Bool) :
    ((if s then 2 ^ (8 + 23) else 0) + (2 ^ 8 - 1) * 2 ^ 23) = if s then 0xff800000 else 0x7f800000 := by
  cases s <;> rfl

/-- `bfloat2bitstore(f, big_endian=True)` is the upper half of the IEEE binary32 conversion of `f`
    (the OverflowError branch produces exactly the ±inf the IEEE conversion gives). -/
theorem bfloatEnc_be (f : Nat) : bfloatEnc true f = ieeeNarrow 8 23 f / 65536 := by
  unfold bfloatEnc
  cases hp : packIEEE 8 23 f with
  | none =>
    obtain ⟨s, m, e, hv, hm, hn⟩ := pack_none hp
    rw [hn, f64Gt_zero_of_fin hv hm, halfInfPattern32]
    cases s <;> rfl
  | some b => rw [pack_some hp]; rfl

theorem bfloatEnc_le (f : Nat) : bfloatEnc false f = bswap16 (bfloatEnc true f) := by
  unfold bfloatEnc; rfl


end BM.C11
