/-
  Proofs/C14Slices.lean — helper lemmas for Props/C14_Slices.lean.
-/
import BitstringModel.Model.C14
import BitstringModel.Proofs.C14

namespace BM.C14
open BM

end BM.C14
