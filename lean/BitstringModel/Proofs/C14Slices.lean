/-
  Proofs/C14Slices.lean — helper lemmas for Props/C14_Slices.lean: `range` arithmetic (membership test of
  `rangeLen`, ranges of bit offsets = scaled ranges of item indices), "keep the elements whose index satisfies P",
  and the loops of `getSlice` / `setSlice` / `delSlice` / `reverse` on buffers in block form.
-/
import BitstringModel.Model.C14
import BitstringModel.Proofs.C14
import BitstringModel.Proofs.C14Items
import Mathlib.Data.List.Forall2

namespace BM.C14
open BM

variable {V : Type}

/-! ### `range` arithmetic -/

/-- `k < len(range(a, b, st))` iff the `k`-th element is still before `b` (positive step). -/
theorem lt_rangeLen_pos (a b st : Int) (hst : 0 < st) (k : Nat) :
    k < Py.rangeLen a b st ↔ a + (k : Int) * st < b := by
  unfold Py.rangeLen
  simp only [gt_iff_lt, hst, if_true]
  by_cases hab : a < b
  · simp only [hab, if_true]
    have h0 : 0 ≤ (b - a - 1) / st := Int.ediv_nonneg (by omega) (by omega)
    have key : (k : Int) ≤ (b - a - 1) / st ↔ (k : Int) * st ≤ b - a - 1 := Int.le_ediv_iff_mul_le hst
    constructor
    · intro h
      have : (k : Int) ≤ (b - a - 1) / st := by omega
      have := key.mp this
      omega
    · intro h
      have : (k : Int) ≤ (b - a - 1) / st := key.mpr (by omega)
      omega
  · simp only [hab, if_false]
    constructor
    · intro h; omega
    · intro h
      have : 0 ≤ (k : Int) * st := Int.mul_nonneg (by omega) (by omega)
      omega

theorem rangeLen_neg_eq (a b st : Int) (hst : st < 0) : Py.rangeLen a b st = Py.rangeLen (-a) (-b) (-st) := by
  unfold Py.rangeLen
  have h1 : ¬ st > 0 := by omega
  have h2 : -st > 0 := by omega
  simp only [h1, h2, if_false, if_true]
  by_cases hab : b < a
  · have : -a < -b := by omega
    simp only [hab, this, if_true]
    have e : -b - -a - 1 = a - b - 1 := by ring
    rw [e]
  · have : ¬ (-a < -b) := by omega
    simp only [hab, this, if_false]

theorem lt_rangeLen_neg (a b st : Int) (hst : st < 0) (k : Nat) :
    k < Py.rangeLen a b st ↔ b < a + (k : Int) * st := by
  rw [rangeLen_neg_eq a b st hst, lt_rangeLen_pos (-a) (-b) (-st) (by omega) k]
  have e : -a + (k : Int) * -st = -(a + (k : Int) * st) := by ring
  rw [e]
  omega

theorem nat_eq_of_lt_iff (m n : Nat) (h : ∀ k : Nat, k < m ↔ k < n) : m = n := by
  have h1 := h m
  have h2 := h n
  omega

/-- A range of bit offsets is the range of item indices, scaled. -/
theorem rangeLen_scaled (s e st L : Int) (hL : 0 < L) (hst : st ≠ 0) :
    Py.rangeLen (s * L) (e * L) (st * L) = Py.rangeLen s e st := by
  apply nat_eq_of_lt_iff
  intro k
  by_cases hp : 0 < st
  · have hp' : 0 < st * L := Int.mul_pos hp hL
    rw [lt_rangeLen_pos _ _ _ hp', lt_rangeLen_pos _ _ _ hp]
    have e1 : s * L + (k : Int) * (st * L) = (s + (k : Int) * st) * L := by ring
    rw [e1]
    exact Int.mul_lt_mul_right hL
  · have hn : st < 0 := by omega
    have hn' : st * L < 0 := Int.mul_neg_of_neg_of_pos hn hL
    rw [lt_rangeLen_neg _ _ _ hn', lt_rangeLen_neg _ _ _ hn]
    have e1 : s * L + (k : Int) * (st * L) = (s + (k : Int) * st) * L := by ring
    rw [e1]
    exact Int.mul_lt_mul_right hL

theorem rangeList_scaled (s e st L : Int) (hL : 0 < L) (hst : st ≠ 0) :
    Py.rangeList (s * L) (e * L) (st * L) = (Py.rangeList s e st).map (· * L) := by
  unfold Py.rangeList
  rw [rangeLen_scaled s e st L hL hst, List.map_map]
  apply List.map_congr_left
  intro k _
  simp only [Function.comp]
  ring

theorem rangeList_length (a b st : Int) : (Py.rangeList a b st).length = Py.rangeLen a b st := by
  simp [Py.rangeList]

/-- Every index a slice visits is a valid item index. -/
theorem rangeList_slice_mem (start stop : Option Int) (st : Int) (hst : st ≠ 0) (n : Nat) (i : Int)
    (hi : i ∈ Py.rangeList (Py.sliceIndices start stop st n).1 (Py.sliceIndices start stop st n).2.1 st) :
    0 ≤ i ∧ i < n := by
  unfold Py.rangeList at hi
  simp only [List.mem_map, List.mem_range] at hi
  obtain ⟨k, hk, rfl⟩ := hi
  exact C01.sliceIndices_bounds start stop st hst n k hk

theorem sliceIndices_snd (start stop : Option Int) (st : Int) (n : Nat) :
    (Py.sliceIndices start stop st n).2.2 = st := by
  unfold Py.sliceIndices; rfl

/-- For a positive step both slice bounds are in `[0, n]`. -/
theorem sliceIndices_pos_range (start stop : Option Int) (st : Int) (hst : 0 < st) (n : Nat) :
    0 ≤ (Py.sliceIndices start stop st n).1 ∧ (Py.sliceIndices start stop st n).1 ≤ n ∧
    0 ≤ (Py.sliceIndices start stop st n).2.1 ∧ (Py.sliceIndices start stop st n).2.1 ≤ n := by
  have h : ¬ st < 0 := by omega
  unfold Py.sliceIndices
  cases start <;> cases stop <;> simp only [h, if_false] <;> (try split) <;> (try split) <;> omega

/-! ### a[start:stop:step] -/

/-- The elements of `l` at the (valid) indices `idx`, in that order — what `Py.getSlice` returns. -/
def sel {α} (l : List α) (idx : List Int) : List α := idx.filterMap fun i => l[i.toNat]?

theorem sel_cons {α} (l : List α) (i : Int) (idx : List Int) (hi : 0 ≤ i ∧ i < l.length) :
    sel l (i :: idx) = l[i.toNat]'(by omega) :: sel l idx := by
  have h : i.toNat < l.length := by omega
  simp [sel, List.filterMap_cons, List.getElem?_eq_getElem h]

theorem sel_mem {α} (l : List α) (idx : List Int) : ∀ x ∈ sel l idx, x ∈ l := by
  intro x hx
  simp only [sel, List.mem_filterMap] at hx
  obtain ⟨i, _, hi⟩ := hx
  exact List.mem_of_getElem? hi

theorem sel_map {α β} (f : α → β) (l : List α) (idx : List Int) : sel (l.map f) idx = (sel l idx).map f := by
  simp only [sel, List.map_filterMap]
  apply List.filterMap_congr
  intro i _
  simp [List.getElem?_map]

theorem pyGetSlice_eq {α} (l : List α) (start stop : Option Int) (st : Int) (hst : st ≠ 0) :
    Py.getSlice l start stop (some st) = .ok (sel l (Py.rangeList (Py.sliceIndices start stop st l.length).1
      (Py.sliceIndices start stop st l.length).2.1 st)) := by
  unfold Py.getSlice
  simp only [Option.getD_some, hst, if_false]
  rfl

theorem pyGetSlice_map {α β} (f : α → β) (l : List α) (start stop step : Option Int) :
    Py.getSlice (l.map f) start stop step = (Py.getSlice l start stop step).map (List.map f) := by
  by_cases h0 : step.getD 1 = 0
  · unfold Py.getSlice; simp [h0, Except.map]
  · have e : ∀ (m : List α), Py.getSlice m start stop step = Py.getSlice m start stop (some (step.getD 1)) := by
      intro m; unfold Py.getSlice; simp
    have e' : Py.getSlice (l.map f) start stop step = Py.getSlice (l.map f) start stop (some (step.getD 1)) := by
      unfold Py.getSlice; simp
    rw [e', e l, pyGetSlice_eq _ _ _ _ h0, pyGetSlice_eq _ _ _ _ h0, List.length_map, sel_map]
    rfl

/-- The loop `for s in range(...): d.append(self.data[s:s+L])` over the bit offsets of the items `idx`. -/
theorem getSlice_fold (L : Nat) (bs : List Bits) (t : Bits) (hbs : ∀ b ∈ bs, b.length = L)
    (idx : List Int) (hidx : ∀ i ∈ idx, 0 ≤ i ∧ i < bs.length) (acc : Bits) :
    (idx.map (· * (L : Int))).foldl (fun acc p => acc ++ bslice (bs.flatten ++ t) (some p) (some (p + (L : Int)))) acc
      = acc ++ (sel bs idx).flatten := by
  induction idx generalizing acc with
  | nil => simp [sel]
  | cons i idx ih =>
    have hi := hidx i (by simp)
    have hk : i.toNat < bs.length := by omega
    rw [List.map_cons, List.foldl_cons, ih (fun j hj => hidx j (by simp [hj])), sel_cons bs i idx hi]
    have hlen : (bs.flatten ++ t).length = bs.length * L + t.length := by
      rw [List.length_append, blocks_flatten_length L bs hbs]
    have hk' : (i.toNat + 1) * L ≤ bs.length * L := Nat.mul_le_mul_right _ hk
    have e0 : (i.toNat + 1) * L = i.toNat * L + L := by ring
    have e1 : i * (L : Int) = ((i.toNat * L : Nat) : Int) := by
      push_cast; rw [Int.toNat_of_nonneg hi.1]
    have e2 : i * (L : Int) + (L : Int) = ((i.toNat * L + L : Nat) : Int) := by
      push_cast; rw [Int.toNat_of_nonneg hi.1]
    rw [e2, e1, bslice_nat _ _ _ (by omega) (by omega)]
    have : i.toNat * L + L - i.toNat * L = L := by omega
    rw [this, block_at L bs t hbs i.toNat hk]
    simp

theorem pyGetSlice_getD {α} (l : List α) (start stop step : Option Int) :
    Py.getSlice l start stop step = Py.getSlice l start stop (some (step.getD 1)) := by
  unfold Py.getSlice; simp

/-- The step-1 branch: one bit slice. -/
theorem getSlice_step1_blocks (L : Nat) (bs : List Bits) (t : Bits) (hbs : ∀ b ∈ bs, b.length = L)
    (s e : Int) (hs : 0 ≤ s ∧ s ≤ bs.length) (he : 0 ≤ e ∧ e ≤ bs.length) :
    bslice (bs.flatten ++ t) (some (s * (L : Int))) (some (e * (L : Int)))
      = ((bs.drop s.toNat).take (e - s).toNat).flatten := by
  have hlen : (bs.flatten ++ t).length = bs.length * L + t.length := by
    rw [List.length_append, blocks_flatten_length L bs hbs]
  have e1 : s * (L : Int) = ((s.toNat * L : Nat) : Int) := by
    push_cast; rw [Int.toNat_of_nonneg hs.1]
  have e2 : e * (L : Int) = ((e.toNat * L : Nat) : Int) := by
    push_cast; rw [Int.toNat_of_nonneg he.1]
  have hs' : s.toNat * L ≤ bs.length * L := Nat.mul_le_mul_right _ (by omega)
  have he' : e.toNat * L ≤ bs.length * L := Nat.mul_le_mul_right _ (by omega)
  rw [e1, e2, bslice_nat _ _ _ (by omega) (by omega)]
  rw [drop_blocks L bs t hbs s.toNat (by omega)]
  have e3 : e.toNat * L - s.toNat * L = (e - s).toNat * L := by
    rw [← Nat.sub_mul]
    congr 1
    omega
  rw [e3]
  have hdl : ∀ b ∈ bs.drop s.toNat, b.length = L := fun b hb => hbs b (List.mem_of_mem_drop hb)
  by_cases hle : (e - s).toNat ≤ (bs.drop s.toNat).length
  · exact take_blocks L (bs.drop s.toNat) t hdl _ hle
  · exfalso
    simp only [List.length_drop] at hle
    omega

theorem pyGetSlice_mem {α} (l : List α) (start stop step : Option Int) (r : List α)
    (h : Py.getSlice l start stop step = .ok r) : ∀ x ∈ r, x ∈ l := by
  rw [pyGetSlice_getD] at h
  by_cases h0 : step.getD 1 = 0
  · rw [h0] at h; simp [Py.getSlice] at h
  · rw [pyGetSlice_eq _ _ _ _ h0] at h
    injection h with h
    subst h
    exact sel_mem l _

/-! ### a[start:stop:step] = values -/

theorem bsetSlice_nat' (d new : Bits) (a b : Nat) (ha : a ≤ d.length) (hb : b ≤ d.length) :
    bsetSlice d (a : Int) (b : Int) new = d.take a ++ new ++ d.drop (max a b) := by
  unfold bsetSlice
  rw [sliceIndices_nat a b d.length ha hb]
  simp only [Int.toNat_natCast]
  congr 2
  omega

theorem bdelSlice_nat' (d : Bits) (a b : Nat) (ha : a ≤ d.length) (hb : b ≤ d.length) :
    bdelSlice d (a : Int) (b : Int) = d.take a ++ d.drop (max a b) := by
  unfold bdelSlice
  rw [sliceIndices_nat a b d.length ha hb]
  simp only [Int.toNat_natCast]
  congr 2
  omega

/-- The `overwrite` loop of an extended-slice assignment, on a buffer in block form. -/
theorem overwriteLoop_blocks (c : Codec V) (hL : 0 < c.w) (hwf : c.WF) (t : Bits)
    (idx : List Int) (vals : List V) (bl : List Bits) (hf : List.Forall₂ (fun v b => c.enc v = .ok b) vals bl)
    (bs : List Bits) (hbs : ∀ b ∈ bs, b.length = c.w) (hidx : ∀ i ∈ idx, 0 ≤ i ∧ i < bs.length) :
    overwriteLoop c (idx.zip vals) (bs.flatten ++ t)
      = ⟨((idx.zip bl).foldl (fun acc p => acc.set p.1.toNat p.2) bs).flatten ++ t, .ok ()⟩ ∧
    (∀ b ∈ (idx.zip bl).foldl (fun acc p => acc.set p.1.toNat p.2) bs, b.length = c.w) := by
  induction idx generalizing vals bl bs with
  | nil => simp [overwriteLoop]; exact hbs
  | cons i idx ih =>
    cases hf with
    | nil => simp [overwriteLoop]; exact hbs
    | @cons v b vs bl' hb hf' =>
      have hi := hidx i (by simp)
      have hk : i.toNat < bs.length := by omega
      obtain ⟨hce, hbl, _⟩ := createElement_ok c hwf v b hb
      have e1 : i * (c.w : Int) = ((c.w * i.toNat : Nat) : Int) := by
        push_cast; rw [Int.toNat_of_nonneg hi.1]; ring
      have hbs' := set_blocks_length c.w bs b hbs hbl i.toNat
      have hidx' : ∀ j ∈ idx, 0 ≤ j ∧ j < (bs.set i.toNat b).length := by
        intro j hj
        rw [List.length_set]
        exact hidx j (by simp [hj])
      obtain ⟨h1, h2⟩ := ih vs bl' hf' (bs.set i.toNat b) hbs' hidx'
      simp only [List.zip_cons_cons, List.foldl_cons]
      refine ⟨?_, h2⟩
      unfold overwriteLoop
      simp only [hce]
      rw [e1, overwrite_block c.w hL bs t b hbs hbl i.toNat hk]
      exact h1

theorem foldl_set_map {α β} (f : α → β) (idx : List Int) (l : List α) (vs : List α) :
    (idx.zip (vs.map f)).foldl (fun acc p => acc.set p.1.toNat p.2) (l.map f)
      = ((idx.zip vs).foldl (fun acc p => acc.set p.1.toNat p.2) l).map f := by
  induction idx generalizing l vs with
  | nil => simp
  | cons i idx ih =>
    cases vs with
    | nil => simp
    | cons v vs =>
      simp only [List.map_cons, List.zip_cons_cons, List.foldl_cons]
      rw [← List.map_set]
      exact ih (l.set i.toNat v) vs

/-- `l[a:b:c] = vs` commutes with mapping a function over the list and the values. -/
theorem pySetSlice_map {α β} (f : α → β) (l : List α) (start stop step : Option Int) (vs : List α) :
    PyL.setSlice (l.map f) start stop step (vs.map f) = (PyL.setSlice l start stop step vs).map (List.map f) := by
  unfold PyL.setSlice
  simp only [List.length_map]
  by_cases h0 : step.getD 1 = 0
  · simp [h0, Except.map]
  · simp only [h0, if_false]
    by_cases h1 : (Py.sliceIndices start stop (step.getD 1) l.length).2.2 = 1
    · simp only [h1, if_true, Except.map, List.map_append, List.map_take, List.map_drop]
    · simp only [h1, if_false]
      by_cases hl : vs.length ≠ (Py.rangeList (Py.sliceIndices start stop (step.getD 1) l.length).1
          (Py.sliceIndices start stop (step.getD 1) l.length).2.1 (Py.sliceIndices start stop (step.getD 1) l.length).2.2).length
      · rw [if_pos hl, if_pos hl]; rfl
      · rw [if_neg hl, if_neg hl, foldl_set_map]; rfl

theorem max_mul_right (a b L : Nat) : max (a * L) (b * L) = (max a b) * L := by
  rcases Nat.le_total a b with h | h
  · rw [Nat.max_eq_right h, Nat.max_eq_right (Nat.mul_le_mul_right L h)]
  · rw [Nat.max_eq_left h, Nat.max_eq_left (Nat.mul_le_mul_right L h)]

/-- Slice assignment on a buffer in block form = list slice assignment on the blocks. -/
theorem setSlice_blocks (c : Codec V) (hL : 0 < c.w) (hwf : c.WF) (bs : List Bits) (t : Bits)
    (hbs : ∀ b ∈ bs, b.length = c.w) (ht : t.length < c.w) (start stop step : Option Int) (vals : List V) (bl : List Bits)
    (hf : List.Forall₂ (fun v b => c.enc v = .ok b) vals bl) (hbl : ∀ b ∈ bl, b.length = c.w)
    (hca : createAll c vals = .ok bl.flatten) :
    (setSlice c (bs.flatten ++ t) start stop step vals =
      match PyL.setSlice bs start stop step bl with
      | .ok bs' => ⟨bs'.flatten ++ t, .ok ()⟩
      | .error e => ⟨bs.flatten ++ t, .error e⟩) ∧
    (∀ bs', PyL.setSlice bs start stop step bl = .ok bs' → ∀ b ∈ bs', b.length = c.w) := by
  have hlen := (view_of_blocks c hL bs t hbs ht).2.2.2
  have hdl : (bs.flatten ++ t).length = bs.length * c.w + t.length := by
    rw [List.length_append, blocks_flatten_length c.w bs hbs]
  unfold setSlice PyL.setSlice
  rw [hlen]
  generalize hk : step.getD 1 = k
  by_cases h0 : k = 0
  · subst h0
    simp
  · simp only [h0, if_false]
    rw [sliceIndices_snd]
    by_cases h1 : k = 1
    · subst h1
      simp only [if_true, hca]
      have hr := sliceIndices_pos_range start stop 1 (by omega) bs.length
      generalize (Py.sliceIndices start stop 1 bs.length).1 = s at hr ⊢
      generalize (Py.sliceIndices start stop 1 bs.length).2.1 = e at hr ⊢
      have e1 : s * (c.w : Int) = ((s.toNat * c.w : Nat) : Int) := by
        push_cast; rw [Int.toNat_of_nonneg hr.1]
      have e2 : e * (c.w : Int) = ((e.toNat * c.w : Nat) : Int) := by
        push_cast; rw [Int.toNat_of_nonneg hr.2.2.1]
      have hs' : s.toNat * c.w ≤ bs.length * c.w := Nat.mul_le_mul_right _ (by omega)
      have he' : e.toNat * c.w ≤ bs.length * c.w := Nat.mul_le_mul_right _ (by omega)
      have hmax : (max s e).toNat = max s.toNat e.toNat := by omega
      rw [e1, e2, bsetSlice_nat' _ _ _ _ (by omega) (by omega), max_mul_right]
      rw [take_blocks c.w bs t hbs s.toNat (by omega), drop_blocks c.w bs t hbs (max s.toNat e.toNat) (by omega), hmax]
      refine ⟨by simp, ?_⟩
      intro bs' hbs'
      injection hbs' with hbs'
      subst hbs'
      intro b hb
      simp only [List.mem_append] at hb
      rcases hb with (hb | hb) | hb
      · exact hbs b (List.mem_of_mem_take hb)
      · exact hbl b hb
      · exact hbs b (List.mem_of_mem_drop hb)
    · simp only [h1, if_false]
      rw [rangeList_length, ← hf.length_eq]
      by_cases hl : vals.length = Py.rangeLen (Py.sliceIndices start stop k bs.length).1 (Py.sliceIndices start stop k bs.length).2.1 k
      · have hl' : ¬ (vals.length ≠ Py.rangeLen (Py.sliceIndices start stop k bs.length).1 (Py.sliceIndices start stop k bs.length).2.1 k) :=
          not_not.mpr hl
        rw [if_pos hl, if_neg hl']
        obtain ⟨h2, h3⟩ := overwriteLoop_blocks c hL hwf t _ vals bl hf bs hbs
          (fun i hi => rangeList_slice_mem start stop k h0 bs.length i hi)
        refine ⟨h2, ?_⟩
        intro bs' hbs'
        injection hbs' with hbs'
        subst hbs'
        exact h3
      · rw [if_neg hl, if_pos hl]
        exact ⟨rfl, fun bs' hbs' => by cases hbs'⟩

theorem createAll_err (c : Codec V) (vals : List V) (h : vals.all (fits c) = false) :
    ∃ e, createAll c vals = .error e := by
  induction vals with
  | nil => simp at h
  | cons v vs ih =>
    unfold createAll
    cases hce : createElement c v with
    | error e => exact ⟨e, rfl⟩
    | ok b =>
      have hfv : fits c v = true := (fits_iff c v).mpr ⟨b, (createElement_ok_inv c v b hce).1⟩
      simp only [List.all_cons, hfv, Bool.true_and] at h
      obtain ⟨e, he⟩ := ih h
      simp only [he]
      exact ⟨e, rfl⟩

/-! ### del a[start:stop:step] -/

/-- The elements of `l` (whose first element has index `k`) at the indices that satisfy `P`. -/
def keepFrom {α} (k : Nat) (l : List α) (P : Nat → Bool) : List α :=
  ((l.zipIdx k).filter fun p => P p.2).map Prod.fst

theorem keepFrom_append {α} (k : Nat) (l1 l2 : List α) (P : Nat → Bool) :
    keepFrom k (l1 ++ l2) P = keepFrom k l1 P ++ keepFrom (k + l1.length) l2 P := by
  simp [keepFrom, List.zipIdx_append, List.filter_append]

theorem keepFrom_all {α} (k : Nat) (l : List α) (P : Nat → Bool) (h : ∀ i, k ≤ i → i < k + l.length → P i = true) :
    keepFrom k l P = l := by
  unfold keepFrom
  rw [List.filter_eq_self.mpr]
  · exact List.zipIdx_map_fst k l
  · intro p hp
    exact h p.2 (List.le_snd_of_mem_zipIdx hp) (List.snd_lt_add_of_mem_zipIdx hp)

theorem keepFrom_none {α} (k : Nat) (l : List α) (P : Nat → Bool) (h : ∀ i, k ≤ i → i < k + l.length → P i = false) :
    keepFrom k l P = [] := by
  unfold keepFrom
  rw [List.filter_eq_nil_iff.mpr]
  · rfl
  · intro p hp
    rw [h p.2 (List.le_snd_of_mem_zipIdx hp) (List.snd_lt_add_of_mem_zipIdx hp)]
    simp

theorem keepFrom_congr {α} (k : Nat) (l : List α) (P Q : Nat → Bool) (h : ∀ i, k ≤ i → i < k + l.length → P i = Q i) :
    keepFrom k l P = keepFrom k l Q := by
  unfold keepFrom
  congr 1
  apply List.filter_congr
  intro p hp
  exact h p.2 (List.le_snd_of_mem_zipIdx hp) (List.snd_lt_add_of_mem_zipIdx hp)

theorem keepFrom_map {α β} (f : α → β) (k : Nat) (l : List α) (P : Nat → Bool) :
    keepFrom k (l.map f) P = (keepFrom k l P).map f := by
  unfold keepFrom
  rw [List.zipIdx_map, List.filter_map, List.map_map, List.map_map]
  rfl

theorem keepFrom_mem {α} (k : Nat) (l : List α) (P : Nat → Bool) : ∀ x ∈ keepFrom k l P, x ∈ l := by
  intro x hx
  unfold keepFrom at hx
  obtain ⟨p, hp, rfl⟩ := List.mem_map.mp hx
  exact List.fst_mem_of_mem_zipIdx (List.mem_of_mem_filter hp)

theorem pyDelSlice_eq {α} (l : List α) (start stop : Option Int) (st : Int) (hst : st ≠ 0) :
    PyL.delSlice l start stop (some st) = .ok (keepFrom 0 l fun j =>
      !((Py.rangeList (Py.sliceIndices start stop st l.length).1 (Py.sliceIndices start stop st l.length).2.1 st).contains (j : Int))) := by
  unfold PyL.delSlice keepFrom
  simp only [Option.getD_some, hst, if_false]
  rfl

theorem pyDelSlice_getD {α} (l : List α) (start stop step : Option Int) :
    PyL.delSlice l start stop step = PyL.delSlice l start stop (some (step.getD 1)) := by
  unfold PyL.delSlice; simp

/-- Erasing a strictly decreasing list of valid indices one after the other = keeping the other indices. -/
theorem foldl_erase_keep {α} (desc : List Int) (hd : desc.Pairwise (· > ·)) (l : List α)
    (hr : ∀ i ∈ desc, 0 ≤ i ∧ i < l.length) :
    desc.foldl (fun acc i => acc.eraseIdx i.toNat) l = keepFrom 0 l (fun j => !(desc.contains (j : Int))) := by
  induction desc generalizing l with
  | nil =>
    simp only [List.foldl_nil]
    exact (keepFrom_all 0 l _ (fun i _ _ => by simp)).symm
  | cons i rest ih =>
    rw [List.pairwise_cons] at hd
    obtain ⟨hi0, hil⟩ := hr i (by simp)
    have hk : i.toNat < l.length := by omega
    have hrest : ∀ r ∈ rest, 0 ≤ r ∧ r < i := fun r hrm => ⟨(hr r (by simp [hrm])).1, hd.1 r hrm⟩
    rw [List.foldl_cons, ih hd.2 (l.eraseIdx i.toNat) (by
      intro r hrm
      have := hrest r hrm
      rw [List.length_eraseIdx_of_lt hk]
      omega)]
    -- split both lists at position i
    have hsplit : l = l.take i.toNat ++ ([l[i.toNat]] ++ l.drop (i.toNat + 1)) := by
      rw [List.singleton_append, ← List.drop_eq_getElem_cons hk, List.take_append_drop]
    have herase : l.eraseIdx i.toNat = l.take i.toNat ++ l.drop (i.toNat + 1) := List.eraseIdx_eq_take_drop_succ _ _
    have htl : (l.take i.toNat).length = i.toNat := by rw [List.length_take]; omega
    rw [herase]
    conv_rhs => rw [hsplit]
    rw [keepFrom_append, keepFrom_append, keepFrom_append, htl]
    simp only [Nat.zero_add, List.length_singleton]
    congr 1
    · apply keepFrom_congr
      intro j _ hj
      rw [htl] at hj
      have hne : ¬ ((j : Int) = i) := by omega
      simp [hne]
    · rw [keepFrom_none i.toNat [l[i.toNat]] _ (by
        intro j hj1 hj2
        simp only [List.length_singleton] at hj2
        have : (j : Int) = i := by omega
        simp [this])]
      rw [List.nil_append]
      rw [keepFrom_all _ _ _ (by
        intro j hj1 _
        have hnm : ¬ ((j : Int) ∈ rest) := fun hm => by have := hrest _ hm; omega
        simp [hnm])]
      rw [keepFrom_all _ _ _ (by
        intro j hj1 _
        have hne : ¬ ((j : Int) = i) := by omega
        have hnm : ¬ ((j : Int) ∈ rest) := fun hm => by have := hrest _ hm; omega
        simp [hne, hnm])]

/-- The deletion loop (from the highest index down) on a buffer in block form. -/
theorem delLoop_blocks (L : Nat) (t : Bits) (desc : List Int) (hd : desc.Pairwise (· > ·)) (bs : List Bits)
    (hbs : ∀ b ∈ bs, b.length = L) (hr : ∀ i ∈ desc, 0 ≤ i ∧ i < bs.length) :
    desc.foldl (fun acc s => bdelSlice acc (s * (L : Int)) ((s + 1) * (L : Int))) (bs.flatten ++ t)
      = (desc.foldl (fun acc i => acc.eraseIdx i.toNat) bs).flatten ++ t := by
  induction desc generalizing bs with
  | nil => rfl
  | cons i rest ih =>
    rw [List.pairwise_cons] at hd
    obtain ⟨hi0, hil⟩ := hr i (by simp)
    have hk : i.toNat < bs.length := by omega
    have e1 : i * (L : Int) = ((L * i.toNat : Nat) : Int) := by
      push_cast; rw [Int.toNat_of_nonneg hi0]; ring
    have e2 : (i + 1) * (L : Int) = ((L * i.toNat : Nat) : Int) + (L : Int) := by
      push_cast; rw [Int.toNat_of_nonneg hi0]; ring
    rw [List.foldl_cons, List.foldl_cons, e2, e1, delete_block L bs t hbs i.toNat hk]
    apply ih hd.2 _ (erase_blocks_length L bs hbs i.toNat)
    intro r hrm
    have h1 := (hr r (by simp [hrm])).1
    have h2 := hd.1 r hrm
    rw [List.length_eraseIdx_of_lt hk]
    omega

theorem mem_rangeList_one (s e j : Int) : j ∈ Py.rangeList s e 1 ↔ s ≤ j ∧ j < e := by
  unfold Py.rangeList
  rw [C01.rangeLen_one]
  simp only [List.mem_map, List.mem_range]
  constructor
  · rintro ⟨k, hk, rfl⟩; omega
  · intro h
    exact ⟨(j - s).toNat, by omega, by omega⟩

/-- Keeping everything outside `[s, e)`. -/
theorem keep_interval {α} (l : List α) (s e : Nat) (hs : s ≤ l.length) (he : e ≤ l.length) :
    keepFrom 0 l (fun j => !((Py.rangeList (s : Int) (e : Int) 1).contains (j : Int))) = l.take s ++ l.drop (max s e) := by
  have hsplit : l = l.take s ++ ((l.drop s).take (max s e - s) ++ l.drop (max s e)) := by
    have h1 : (l.drop s).take (max s e - s) ++ l.drop (max s e) = l.drop s := by
      have := List.take_append_drop (max s e - s) (l.drop s)
      rw [List.drop_drop] at this
      have e1 : s + (max s e - s) = max s e := by omega
      rw [e1] at this
      exact this
    rw [h1, List.take_append_drop]
  have htl : (l.take s).length = s := by rw [List.length_take]; omega
  have hml : ((l.drop s).take (max s e - s)).length = max s e - s := by
    rw [List.length_take, List.length_drop]; omega
  conv_lhs => rw [hsplit]
  rw [keepFrom_append, keepFrom_append, htl, hml]
  rw [keepFrom_all 0 (l.take s) _ (by
    intro j _ hj
    rw [htl] at hj
    simp [mem_rangeList_one]
    omega)]
  rw [keepFrom_none _ _ _ (by
    intro j hj1 hj2
    rw [hml] at hj2
    simp [mem_rangeList_one]
    omega)]
  rw [keepFrom_all _ _ _ (by
    intro j hj1 _
    simp [mem_rangeList_one]
    omega)]
  simp

theorem rangeList_pairwise_pos (a b st : Int) (hst : 0 < st) : (Py.rangeList a b st).Pairwise (· < ·) := by
  unfold Py.rangeList
  rw [List.pairwise_map]
  apply List.Pairwise.imp _ List.pairwise_lt_range
  intro i j hij
  have : (i : Int) * st < (j : Int) * st := Int.mul_lt_mul_of_pos_right (by omega) hst
  omega

theorem rangeList_pairwise_neg (a b st : Int) (hst : st < 0) : (Py.rangeList a b st).Pairwise (· > ·) := by
  unfold Py.rangeList
  rw [List.pairwise_map]
  apply List.Pairwise.imp _ List.pairwise_lt_range
  intro i j hij
  have : (i : Int) * (-st) < (j : Int) * (-st) := Int.mul_lt_mul_of_pos_right (by omega) (by omega)
  have e1 : (i : Int) * (-st) = -((i : Int) * st) := by ring
  have e2 : (j : Int) * (-st) = -((j : Int) * st) := by ring
  omega

theorem pyDelSlice_mem {α} (l : List α) (start stop step : Option Int) (r : List α)
    (h : PyL.delSlice l start stop step = .ok r) : ∀ x ∈ r, x ∈ l := by
  rw [pyDelSlice_getD] at h
  by_cases h0 : step.getD 1 = 0
  · rw [h0] at h; simp [PyL.delSlice] at h
  · rw [pyDelSlice_eq _ _ _ _ h0] at h
    injection h with h
    subst h
    exact keepFrom_mem 0 l _

theorem pyDelSlice_map {α β} (f : α → β) (l : List α) (start stop step : Option Int) :
    PyL.delSlice (l.map f) start stop step = (PyL.delSlice l start stop step).map (List.map f) := by
  rw [pyDelSlice_getD, pyDelSlice_getD l]
  by_cases h0 : step.getD 1 = 0
  · rw [h0]; simp [PyL.delSlice, Except.map]
  · rw [pyDelSlice_eq _ _ _ _ h0, pyDelSlice_eq _ _ _ _ h0, List.length_map, keepFrom_map]
    rfl

/-- Slice deletion on a buffer in block form = list slice deletion on the blocks. -/
theorem delSlice_blocks (c : Codec V) (hL : 0 < c.w) (bs : List Bits) (t : Bits)
    (hbs : ∀ b ∈ bs, b.length = c.w) (ht : t.length < c.w) (start stop step : Option Int) :
    delSlice c (bs.flatten ++ t) start stop step =
      match PyL.delSlice bs start stop step with
      | .ok bs' => ⟨bs'.flatten ++ t, .ok ()⟩
      | .error e => ⟨bs.flatten ++ t, .error e⟩ := by
  have hlen := (view_of_blocks c hL bs t hbs ht).2.2.2
  have hdl : (bs.flatten ++ t).length = bs.length * c.w + t.length := by
    rw [List.length_append, blocks_flatten_length c.w bs hbs]
  rw [pyDelSlice_getD]
  unfold delSlice
  rw [hlen]
  generalize hk : step.getD 1 = k
  by_cases h0 : k = 0
  · subst h0
    simp [PyL.delSlice]
  · simp only [h0, if_false]
    rw [pyDelSlice_eq bs start stop k h0]
    simp only
    by_cases h1 : k = 1
    · subst h1
      simp only [if_true]
      have hr := sliceIndices_pos_range start stop 1 (by omega) bs.length
      generalize (Py.sliceIndices start stop 1 bs.length).1 = s at hr ⊢
      generalize (Py.sliceIndices start stop 1 bs.length).2.1 = e at hr ⊢
      have e1 : s * (c.w : Int) = ((s.toNat * c.w : Nat) : Int) := by
        push_cast; rw [Int.toNat_of_nonneg hr.1]
      have e2 : e * (c.w : Int) = ((e.toNat * c.w : Nat) : Int) := by
        push_cast; rw [Int.toNat_of_nonneg hr.2.2.1]
      have hs' : s.toNat * c.w ≤ bs.length * c.w := Nat.mul_le_mul_right _ (by omega)
      have he' : e.toNat * c.w ≤ bs.length * c.w := Nat.mul_le_mul_right _ (by omega)
      rw [e1, e2, bdelSlice_nat' _ _ _ (by omega) (by omega), max_mul_right]
      rw [take_blocks c.w bs t hbs s.toNat (by omega), drop_blocks c.w bs t hbs (max s.toNat e.toNat) (by omega)]
      have hs2 : s = ((s.toNat : Nat) : Int) := by omega
      have he2 : e = ((e.toNat : Nat) : Int) := by omega
      conv_rhs => rw [hs2, he2]
      rw [keep_interval bs s.toNat e.toNat (by omega) (by omega)]
      simp
    · simp only [h1, if_false]
      generalize hidx : Py.rangeList (Py.sliceIndices start stop k bs.length).1 (Py.sliceIndices start stop k bs.length).2.1 k = idx
      have hmem : ∀ i ∈ idx, 0 ≤ i ∧ i < bs.length := by
        intro i hi
        rw [← hidx] at hi
        exact rangeList_slice_mem start stop k h0 bs.length i hi
      by_cases hp : k > 0
      · simp only [hp, if_true]
        have hpw : idx.reverse.Pairwise (· > ·) := by
          rw [List.pairwise_reverse]
          rw [← hidx]
          exact rangeList_pairwise_pos _ _ _ hp
        rw [delLoop_blocks c.w t idx.reverse hpw bs hbs (fun i hi => hmem i (List.mem_reverse.mp hi))]
        rw [foldl_erase_keep idx.reverse hpw bs (fun i hi => hmem i (List.mem_reverse.mp hi))]
        have : keepFrom 0 bs (fun j => !(idx.reverse.contains (j : Int))) = keepFrom 0 bs (fun j => !(idx.contains (j : Int))) := by
          apply keepFrom_congr
          intro j _ _
          simp
        rw [this]
      · simp only [hp, if_false]
        have hpw : idx.Pairwise (· > ·) := by
          rw [← hidx]
          exact rangeList_pairwise_neg _ _ _ (by omega)
        rw [delLoop_blocks c.w t idx hpw bs hbs hmem, foldl_erase_keep idx hpw bs hmem]

/-! ### reverse -/

/-- One iteration of the swap loop: items `j` and `n-1-j` change places. -/
theorem reverse_step (L : Nat) (B : List Bits) (hB : ∀ b ∈ B, b.length = L) (j : Nat) (hj : 2 * j + 1 ≤ B.length) :
    (let acc := B.flatten ++ ([] : Bits)
     let sb : Int := (0 : Int) + (j : Int) * (L : Int)
     let sw : Int := (acc.length : Int) - sb - (L : Int)
     let temp := bslice acc (some sb) (some (sb + (L : Int)))
     let acc1 := bsetSlice acc sb (sb + (L : Int)) (bslice acc (some sw) (some (sw + (L : Int))))
     bsetSlice acc1 sw (sw + (L : Int)) temp)
    = ((B.set j (B[B.length - 1 - j]'(by omega))).set (B.length - 1 - j) (B[j]'(by omega))).flatten ++ ([] : Bits) := by
  have hj1 : j < B.length := by omega
  have hj2 : B.length - 1 - j < B.length := by omega
  have hlen : (B.flatten ++ ([] : Bits)).length = B.length * L := by
    rw [List.append_nil, blocks_flatten_length L B hB]
  have hm1 : (j + 1) * L ≤ B.length * L := Nat.mul_le_mul_right _ (by omega)
  have hm2 : (B.length - 1 - j + 1) * L ≤ B.length * L := Nat.mul_le_mul_right _ (by omega)
  have ea : (j + 1) * L = j * L + L := by ring
  have eb : (B.length - 1 - j + 1) * L = (B.length - 1 - j) * L + L := by ring
  have esb : (0 : Int) + (j : Int) * (L : Int) = ((j * L : Nat) : Int) := by push_cast; ring
  have esbL : ((j * L : Nat) : Int) + (L : Int) = ((j * L + L : Nat) : Int) := by push_cast; ring
  have hnl : B.length * L = (B.length - 1 - j) * L + L + j * L := by
    have : B.length = (B.length - 1 - j) + 1 + j := by omega
    calc B.length * L = ((B.length - 1 - j) + 1 + j) * L := by rw [← this]
      _ = (B.length - 1 - j) * L + L + j * L := by ring
  have esw : ((B.flatten ++ ([] : Bits)).length : Int) - ((j * L : Nat) : Int) - (L : Int) = (((B.length - 1 - j) * L : Nat) : Int) := by
    rw [hlen]; omega
  have eswL : (((B.length - 1 - j) * L : Nat) : Int) + (L : Int) = (((B.length - 1 - j) * L + L : Nat) : Int) := by
    push_cast; ring
  simp only
  rw [esb, esw, esbL, eswL]
  rw [bslice_nat _ (j * L) (j * L + L) (by omega) (by omega)]
  rw [bslice_nat _ ((B.length - 1 - j) * L) ((B.length - 1 - j) * L + L) (by omega) (by omega)]
  have s1 : j * L + L - j * L = L := by omega
  have s2 : (B.length - 1 - j) * L + L - (B.length - 1 - j) * L = L := by omega
  rw [s1, s2, block_at L B [] hB j hj1, block_at L B [] hB _ hj2]
  rw [bsetSlice_nat _ _ (j * L) (j * L + L) (by omega) (by omega) (by omega)]
  rw [set_block L B [] _ hB j hj1]
  have hB1 : ∀ b ∈ B.set j B[B.length - 1 - j], b.length = L :=
    set_blocks_length L B _ hB (hB _ (List.getElem_mem hj2)) j
  have hlen1 : ((B.set j B[B.length - 1 - j]).flatten ++ ([] : Bits)).length = B.length * L := by
    rw [List.append_nil, blocks_flatten_length L _ hB1, List.length_set]
  rw [bsetSlice_nat _ _ ((B.length - 1 - j) * L) ((B.length - 1 - j) * L + L) (by omega) (by omega) (by omega)]
  rw [set_block L _ [] _ hB1 (B.length - 1 - j) (by rw [List.length_set]; exact hj2)]

/-- The block list after `m` iterations of the swap loop: the first `m` and the last `m` positions are mirrored. -/
def swapped (bs : List Bits) (m : Nat) : List Bits :=
  (List.range bs.length).map fun i => if i < m ∨ bs.length - m ≤ i then bs.getD (bs.length - 1 - i) [] else bs.getD i []

theorem swapped_length (bs : List Bits) (m : Nat) : (swapped bs m).length = bs.length := by simp [swapped]

theorem swapped_getElem (bs : List Bits) (m i : Nat) (hi : i < (swapped bs m).length) :
    (swapped bs m)[i] = if i < m ∨ bs.length - m ≤ i then bs.getD (bs.length - 1 - i) [] else bs.getD i [] := by
  simp [swapped]

theorem swapped_zero (bs : List Bits) : swapped bs 0 = bs := by
  apply List.ext_getElem
  · simp [swapped_length]
  · intro i h1 h2
    rw [swapped_getElem]
    have : ¬ (i < 0 ∨ bs.length - 0 ≤ i) := by omega
    rw [if_neg this, List.getD_eq_getElem?_getD, List.getElem?_eq_getElem h2]
    rfl

theorem swapped_blocks (L : Nat) (bs : List Bits) (hbs : ∀ b ∈ bs, b.length = L) (m : Nat) :
    ∀ b ∈ swapped bs m, b.length = L := by
  intro b hb
  unfold swapped at hb
  simp only [List.mem_map, List.mem_range] at hb
  obtain ⟨i, hi, rfl⟩ := hb
  split
  · have h : bs.length - 1 - i < bs.length := by omega
    rw [List.getD_eq_getElem?_getD, List.getElem?_eq_getElem h]
    exact hbs _ (List.getElem_mem h)
  · rw [List.getD_eq_getElem?_getD, List.getElem?_eq_getElem hi]
    exact hbs _ (List.getElem_mem hi)

theorem swapped_succ (bs : List Bits) (m : Nat) (hm : 2 * m + 1 ≤ bs.length) :
    ((swapped bs m).set m ((swapped bs m)[bs.length - 1 - m]'(by rw [swapped_length]; omega))).set (bs.length - 1 - m)
      ((swapped bs m)[m]'(by rw [swapped_length]; omega)) = swapped bs (m + 1) := by
  apply List.ext_getElem
  · simp [swapped_length]
  · intro i h1 h2
    have hi : i < bs.length := by rw [swapped_length] at h2; exact h2
    simp only [List.getElem_set, swapped_getElem]
    split_ifs <;> first | rfl | (exfalso; omega) | (congr 1; omega)

/-- Once the mirrored zones meet, the list is reversed. -/
theorem swapped_full (bs : List Bits) (m : Nat) (hm : bs.length ≤ 2 * m + 1) (hm2 : 2 * m ≤ bs.length + 1) :
    swapped bs m = bs.reverse := by
  apply List.ext_getElem
  · simp [swapped_length]
  · intro i h1 h2
    have hi : i < bs.length := by rw [swapped_length] at h1; exact h1
    have hr : bs.length - 1 - i < bs.length := by omega
    rw [swapped_getElem, List.getElem_reverse]
    split
    · rw [List.getD_eq_getElem?_getD, List.getElem?_eq_getElem hr]; rfl
    · rename_i hc
      have : i = bs.length - 1 - i := by omega
      rw [List.getD_eq_getElem?_getD, List.getElem?_eq_getElem hi]
      simp only [Option.getD_some]
      congr 1

/-- The swap loop over the first `m` offsets (each with `2k+1 ≤ n`). -/
theorem swap_fold (L : Nat) (bs : List Bits) (hbs : ∀ b ∈ bs, b.length = L) (m : Nat) (hm : ∀ k < m, 2 * k + 1 ≤ bs.length) :
    (List.range m).foldl (fun acc (k : Nat) =>
      let sb : Int := (0 : Int) + (k : Int) * (L : Int)
      let sw : Int := (acc.length : Int) - sb - (L : Int)
      let temp := bslice acc (some sb) (some (sb + (L : Int)))
      let acc1 := bsetSlice acc sb (sb + (L : Int)) (bslice acc (some sw) (some (sw + (L : Int))))
      bsetSlice acc1 sw (sw + (L : Int)) temp) (bs.flatten ++ ([] : Bits))
    = (swapped bs m).flatten ++ ([] : Bits) := by
  induction m with
  | zero => simp [swapped_zero]
  | succ m ih =>
    rw [List.range_succ, List.foldl_append, ih (fun k hk => hm k (by omega))]
    simp only [List.foldl_cons, List.foldl_nil]
    have hB := swapped_blocks L bs hbs m
    have h2 : 2 * m + 1 ≤ (swapped bs m).length := by rw [swapped_length]; exact hm m (by omega)
    have := reverse_step L (swapped bs m) hB m h2
    simp only at this
    rw [this]
    congr 2
    have hl := swapped_length bs m
    have hs := swapped_succ bs m (hm m (by omega))
    rw [← hs]
    congr 1
    · congr 1
      simp only [hl]
    · exact hl ▸ rfl

end BM.C14
