/-
  Proofs/C05_Unpack.lean — per-kind codec round trips and the two-pass `_read_dtype_list` induction.
-/
import BitstringModel.Model.C05
import BitstringModel.Proofs.Basic
import BitstringModel.Proofs.C05

namespace BM.C05
open BM

end BM.C05
