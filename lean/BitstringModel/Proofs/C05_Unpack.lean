/-
  Proofs/C05_Unpack.lean — the two-pass `_read_dtype_list` induction (over "pieces": dtype, bits, returned value)
  and the per-kind read-back lemmas that make a packed token a good piece.
-/
import BitstringModel.Model.C05
import BitstringModel.Proofs.Basic
import BitstringModel.Proofs.C05
import BitstringModel.Proofs.C05_Codec
import BitstringModel.Props.C10
import BitstringModel.Props.C10_Interleaved
import Mathlib.Tactic.Ring
import Mathlib.Tactic.Linarith

namespace BM.C05
open BM

/-- one token's contribution to a round trip: its dtype, its bits, what unpack returns for it -/
structure Piece where
  d : DT
  tb : Bits
  out : Option Val

def Piece.good (p : Piece) : Prop :=
  if p.d.stretchy = true then
    (p.tb.length % p.d.kind.mult = 0) ∧
    ∃ d', getDtypeK p.d.kind (some ((p.tb.length / p.d.kind.mult : Nat) : Int)) = .ok d' ∧
      ∀ pre post, readDT (pre ++ p.tb ++ post) d' pre.length = .ok (p.out, pre.length + p.tb.length)
  else
    (∀ pre post, readDT (pre ++ p.tb ++ post) p.d pre.length = .ok (p.out, pre.length + p.tb.length)) ∧
    (p.d.kind.variable = false → p.d.bitlen = some (p.tb.length : Int))

def flat (ps : List Piece) : Bits := (ps.map (·.tb)).flatten
def outs (ps : List Piece) : List Val := ps.filterMap (·.out)
def dts (ps : List Piece) : List DT := ps.map (·.d)

theorem flat_cons (p : Piece) (ps : List Piece) : flat (p :: ps) = p.tb ++ flat ps := by simp [flat]
def consOpt (v : Option Val) (vs : List Val) : List Val := match v with | some x => x :: vs | none => vs

theorem outs_cons (p : Piece) (ps : List Piece) : outs (p :: ps) = consOpt p.out (outs ps) := by
  cases h : p.out <;> simp [outs, consOpt, h]

theorem pass2_cons_fixed (b : Bits) (after : Int) (d : DT) (ds : List DT) (pos pos' : Nat) (v : Option Val)
    (hs : d.stretchy = false) (hr : readDT b d pos = .ok (v, pos')) :
    pass2 b after (d :: ds) pos =
      match pass2 b after ds pos' with
      | .error e => .error e
      | .ok (vs, p) => .ok (consOpt v vs, p) := by
  rw [pass2.eq_def]
  simp only [hs, Bool.false_eq_true, if_false, hr]
  cases pass2 b after ds pos' with
  | error e => rfl
  | ok r => cases v <;> rfl

/-- no length-less token: every piece is read in turn, whatever follows and whatever `after` is -/
theorem pass2_fixed (ps : List Piece) (hg : ∀ p ∈ ps, p.good) (hs : ∀ p ∈ ps, p.d.stretchy = false)
    (pre post : Bits) (after : Int) :
    pass2 (pre ++ flat ps ++ post) after (dts ps) pre.length = .ok (outs ps, pre.length + (flat ps).length) := by
  induction ps generalizing pre with
  | nil => simp [flat, outs, dts, pass2]
  | cons p ps ih =>
    have hp := hg p (by simp)
    have hsp := hs p (by simp)
    unfold Piece.good at hp
    simp only [hsp, Bool.false_eq_true, if_false] at hp
    have hr := hp.1 pre (flat ps ++ post)
    have e1 : pre ++ flat (p :: ps) ++ post = pre ++ p.tb ++ (flat ps ++ post) := by simp [flat_cons, List.append_assoc]
    have e2 : pre ++ flat (p :: ps) ++ post = (pre ++ p.tb) ++ flat ps ++ post := by simp [flat_cons, List.append_assoc]
    simp only [dts, List.map_cons]
    rw [pass2_cons_fixed _ after p.d _ pre.length _ p.out hsp (e1 ▸ hr)]
    have := ih (fun q hq => hg q (by simp [hq])) (fun q hq => hs q (by simp [hq])) (pre ++ p.tb)
    rw [e2]
    simp only [List.length_append] at this
    simp only [dts] at this
    rw [this, outs_cons, flat_cons]
    simp [Nat.add_assoc]

theorem pass1_true_inv (ps : List Piece) (hg : ∀ p ∈ ps, p.good) (a : Int) (st : Bool) (a' : Int)
    (h : pass1 (dts ps) true a = .ok (st, a')) :
    st = true ∧ (∀ p ∈ ps, p.d.stretchy = false) ∧ a' = a + ((flat ps).length : Int) := by
  induction ps generalizing a with
  | nil => simp [dts, pass1] at h; simp [flat, h.1, h.2]
  | cons p ps ih =>
    simp only [dts, List.map_cons] at h
    rw [pass1.eq_def] at h
    simp only at h
    cases hsp : p.d.stretchy with
    | true => simp [hsp] at h
    | false =>
      simp only [hsp, Bool.false_eq_true, if_false, if_true] at h
      cases hv : p.d.kind.variable with
      | true => simp [hv] at h
      | false =>
        simp only [hv, Bool.false_eq_true, if_false] at h
        have hp := hg p (by simp)
        unfold Piece.good at hp
        simp only [hsp, Bool.false_eq_true, if_false] at hp
        have hbl := hp.2 hv
        rw [hbl] at h
        obtain ⟨h1, h2, h3⟩ := ih (fun q hq => hg q (by simp [hq])) _ h
        refine ⟨h1, ?_, ?_⟩
        · intro q hq
          rcases List.mem_cons.mp hq with rfl | hq
          · exact hsp
          · exact h2 q hq
        · rw [h3, flat_cons]; simp; ring

theorem pass2_cons_stretchy (b : Bits) (after : Int) (d d' : DT) (ds : List DT) (pos pos' L : Nat) (v : Option Val)
    (hs : d.stretchy = true) (hbl : max ((b.length : Int) - pos - after) 0 = (L : Int))
    (hrem : L % d.kind.mult = 0)
    (hd' : getDtypeK d.kind (some ((L / d.kind.mult : Nat) : Int)) = .ok d')
    (hr : readDT b d' pos = .ok (v, pos')) :
    pass2 b after (d :: ds) pos =
      match pass2 b after ds pos' with
      | .error e => .error e
      | .ok (vs, p) => .ok (consOpt v vs, p) := by
  rw [pass2.eq_def]
  have e1 : (L : Int) % (d.kind.mult : Int) = 0 := by
    rw [← Int.natCast_mod, hrem]; rfl
  have e2 : (L : Int) / (d.kind.mult : Int) = ((L / d.kind.mult : Nat) : Int) := (Int.natCast_div _ _).symm
  simp only [hs, if_true, hbl, e1, e2, ne_eq, not_true_eq_false, if_false, hd', hr]
  cases pass2 b after ds pos' with
  | error e => rfl
  | ok r => cases v <;> rfl

theorem pass2_main (ps : List Piece) (hg : ∀ p ∈ ps, p.good) (a a' : Int) (st : Bool)
    (h1 : pass1 (dts ps) false a = .ok (st, a')) (pre : Bits) :
    pass2 (pre ++ flat ps) (a' - a) (dts ps) pre.length = .ok (outs ps, pre.length + (flat ps).length) := by
  induction ps generalizing pre with
  | nil => simp [flat, outs, dts, pass2]
  | cons p ps ih =>
    have hp := hg p (by simp)
    have hgr : ∀ q ∈ ps, q.good := fun q hq => hg q (by simp [hq])
    simp only [dts, List.map_cons] at h1
    rw [pass1.eq_def] at h1
    simp only at h1
    cases hsp : p.d.stretchy with
    | true =>
      simp only [hsp, if_true, Bool.false_eq_true, if_false] at h1
      obtain ⟨-, hns, ha'⟩ := pass1_true_inv ps hgr a st a' h1
      unfold Piece.good at hp
      simp only [hsp, if_true] at hp
      obtain ⟨hrem, d', hd', hr⟩ := hp
      have eB : pre ++ flat (p :: ps) = pre ++ p.tb ++ flat ps := by simp [flat_cons, List.append_assoc]
      have hbl : max (((pre ++ flat (p :: ps)).length : Int) - (pre.length : Nat) - (a' - a)) 0 = (p.tb.length : Int) := by
        rw [ha', flat_cons]
        simp only [List.length_append, Nat.cast_add]
        have : (0 : Int) ≤ (p.tb.length : Int) := Int.natCast_nonneg _
        rw [max_eq_left] <;> linarith
      simp only [dts, List.map_cons]
      rw [pass2_cons_stretchy _ _ p.d d' _ pre.length (pre.length + p.tb.length) p.tb.length p.out hsp hbl hrem hd'
        (eB ▸ hr pre (flat ps))]
      have := pass2_fixed ps hgr hns (pre ++ p.tb) [] (a' - a)
      simp only [List.append_nil, List.length_append, dts] at this
      rw [eB, this, outs_cons, flat_cons]
      simp [Nat.add_assoc]
    | false =>
      simp only [hsp, Bool.false_eq_true, if_false] at h1
      unfold Piece.good at hp
      simp only [hsp, Bool.false_eq_true, if_false] at hp
      have eB : pre ++ flat (p :: ps) = pre ++ p.tb ++ flat ps := by simp [flat_cons, List.append_assoc]
      simp only [dts, List.map_cons]
      rw [pass2_cons_fixed _ _ p.d _ pre.length _ p.out hsp (eB ▸ hp.1 pre (flat ps))]
      have := ih hgr h1 (pre ++ p.tb)
      simp only [List.length_append, dts] at this
      rw [eB, this, outs_cons, flat_cons]
      simp [Nat.add_assoc]

theorem pieces_roundtrip (ps : List Piece) (hg : ∀ p ∈ ps, p.good) (st : Bool) (after : Int)
    (h1 : pass1 (dts ps) false 0 = .ok (st, after)) :
    readDtypeList (flat ps) (dts ps) 0 = .ok (outs ps, (flat ps).length) := by
  unfold readDtypeList
  rw [h1]
  have := pass2_main ps hg 0 after st h1 []
  simpa using this


end BM.C05
