/-
  Proofs/C05_Unpack.lean — the two-pass `_read_dtype_list` induction (over "pieces": dtype, bits, returned value)
  and the per-kind read-back lemmas that make a packed token a good piece.
-/
import BitstringModel.Model.C05
import BitstringModel.Proofs.Basic
import BitstringModel.Proofs.C05
import BitstringModel.Proofs.C05_Codec
import BitstringModel.Props.C10
import BitstringModel.Props.C10_Interleaved
import Mathlib.Tactic.Ring
import Mathlib.Tactic.Linarith

namespace BM.C05
open BM

/-- one token's contribution to a round trip: its dtype, its bits, what unpack returns for it -/
structure Piece where
  d : DT
  tb : Bits
  out : Option Val

def Piece.good (p : Piece) : Prop :=
  if p.d.stretchy = true then
    (p.tb.length % p.d.kind.mult = 0) ∧
    ∃ d', getDtypeK p.d.kind (some ((p.tb.length / p.d.kind.mult : Nat) : Int)) = .ok d' ∧
      ∀ pre post, readDT (pre ++ p.tb ++ post) d' pre.length = .ok (p.out, pre.length + p.tb.length)
  else
    (∀ pre post, readDT (pre ++ p.tb ++ post) p.d pre.length = .ok (p.out, pre.length + p.tb.length)) ∧
    (p.d.kind.variable = false → p.d.bitlen = some (p.tb.length : Int))

def flat (ps : List Piece) : Bits := (ps.map (·.tb)).flatten
def outs (ps : List Piece) : List Val := ps.filterMap (·.out)
def dts (ps : List Piece) : List DT := ps.map (·.d)

theorem flat_cons (p : Piece) (ps : List Piece) : flat (p :: ps) = p.tb ++ flat ps := by simp [flat]
def consOpt (v : Option Val) (vs : List Val) : List Val := match v with | some x => x :: vs | none => vs

theorem outs_cons (p : Piece) (ps : List Piece) : outs (p :: ps) = consOpt p.out (outs ps) := by
  cases h : p.out <;> simp [outs, consOpt, h]

theorem pass2_cons_fixed (b : Bits) (after : Int) (d : DT) (ds : List DT) (pos pos' : Nat) (v : Option Val)
    (hs : d.stretchy = false) (hr : readDT b d pos = .ok (v, pos')) :
    pass2 b after (d :: ds) pos =
      match pass2 b after ds pos' with
      | .error e => .error e
      | .ok (vs, p) => .ok (consOpt v vs, p) := by
  rw [pass2.eq_def]
  simp only [hs, Bool.false_eq_true, if_false, hr]
  cases pass2 b after ds pos' with
  | error e => rfl
  | ok r => cases v <;> rfl

/-- no length-less token: every piece is read in turn, whatever follows and whatever `after` is -/
theorem pass2_fixed (ps : List Piece) (hg : ∀ p ∈ ps, p.good) (hs : ∀ p ∈ ps, p.d.stretchy = false)
    (pre post : Bits) (after : Int) :
    pass2 (pre ++ flat ps ++ post) after (dts ps) pre.length = .ok (outs ps, pre.length + (flat ps).length) := by
  induction ps generalizing pre with
  | nil => simp [flat, outs, dts, pass2]
  | cons p ps ih =>
    have hp := hg p (by simp)
    have hsp := hs p (by simp)
    unfold Piece.good at hp
    simp only [hsp, Bool.false_eq_true, if_false] at hp
    have hr := hp.1 pre (flat ps ++ post)
    have e1 : pre ++ flat (p :: ps) ++ post = pre ++ p.tb ++ (flat ps ++ post) := by simp [flat_cons, List.append_assoc]
    have e2 : pre ++ flat (p :: ps) ++ post = (pre ++ p.tb) ++ flat ps ++ post := by simp [flat_cons, List.append_assoc]
    simp only [dts, List.map_cons]
    rw [pass2_cons_fixed _ after p.d _ pre.length _ p.out hsp (e1 ▸ hr)]
    have := ih (fun q hq => hg q (by simp [hq])) (fun q hq => hs q (by simp [hq])) (pre ++ p.tb)
    rw [e2]
    simp only [List.length_append] at this
    simp only [dts] at this
    rw [this, outs_cons, flat_cons]
    simp [Nat.add_assoc]

theorem pass1_true_inv (ps : List Piece) (hg : ∀ p ∈ ps, p.good) (a : Int) (st : Bool) (a' : Int)
    (h : pass1 (dts ps) true a = .ok (st, a')) :
    st = true ∧ (∀ p ∈ ps, p.d.stretchy = false) ∧ a' = a + ((flat ps).length : Int) := by
  induction ps generalizing a with
  | nil => simp [dts, pass1] at h; simp [flat, h.1, h.2]
  | cons p ps ih =>
    simp only [dts, List.map_cons] at h
    rw [pass1.eq_def] at h
    simp only at h
    cases hsp : p.d.stretchy with
    | true => simp [hsp] at h
    | false =>
      simp only [hsp, Bool.false_eq_true, if_false, if_true] at h
      cases hv : p.d.kind.variable with
      | true => simp [hv] at h
      | false =>
        simp only [hv, Bool.false_eq_true, if_false] at h
        have hp := hg p (by simp)
        unfold Piece.good at hp
        simp only [hsp, Bool.false_eq_true, if_false] at hp
        have hbl := hp.2 hv
        rw [hbl] at h
        obtain ⟨h1, h2, h3⟩ := ih (fun q hq => hg q (by simp [hq])) _ h
        refine ⟨h1, ?_, ?_⟩
        · intro q hq
          rcases List.mem_cons.mp hq with rfl | hq
          · exact hsp
          · exact h2 q hq
        · rw [h3, flat_cons]; simp; ring

theorem pass2_cons_stretchy (b : Bits) (after : Int) (d d' : DT) (ds : List DT) (pos pos' L : Nat) (v : Option Val)
    (hs : d.stretchy = true) (hbl : max ((b.length : Int) - pos - after) 0 = (L : Int))
    (hrem : L % d.kind.mult = 0)
    (hd' : getDtypeK d.kind (some ((L / d.kind.mult : Nat) : Int)) = .ok d')
    (hr : readDT b d' pos = .ok (v, pos')) :
    pass2 b after (d :: ds) pos =
      match pass2 b after ds pos' with
      | .error e => .error e
      | .ok (vs, p) => .ok (consOpt v vs, p) := by
  rw [pass2.eq_def]
  have e1 : (L : Int) % (d.kind.mult : Int) = 0 := by
    rw [← Int.natCast_mod, hrem]; rfl
  have e2 : (L : Int) / (d.kind.mult : Int) = ((L / d.kind.mult : Nat) : Int) := (Int.natCast_div _ _).symm
  simp only [hs, if_true, hbl, e1, e2, ne_eq, not_true_eq_false, if_false, hd', hr]
  cases pass2 b after ds pos' with
  | error e => rfl
  | ok r => cases v <;> rfl

theorem pass2_main (ps : List Piece) (hg : ∀ p ∈ ps, p.good) (a a' : Int) (st : Bool)
    (h1 : pass1 (dts ps) false a = .ok (st, a')) (pre : Bits) :
    pass2 (pre ++ flat ps) (a' - a) (dts ps) pre.length = .ok (outs ps, pre.length + (flat ps).length) := by
  induction ps generalizing pre with
  | nil => simp [flat, outs, dts, pass2]
  | cons p ps ih =>
    have hp := hg p (by simp)
    have hgr : ∀ q ∈ ps, q.good := fun q hq => hg q (by simp [hq])
    simp only [dts, List.map_cons] at h1
    rw [pass1.eq_def] at h1
    simp only at h1
    cases hsp : p.d.stretchy with
    | true =>
      simp only [hsp, if_true, Bool.false_eq_true, if_false] at h1
      obtain ⟨-, hns, ha'⟩ := pass1_true_inv ps hgr a st a' h1
      unfold Piece.good at hp
      simp only [hsp, if_true] at hp
      obtain ⟨hrem, d', hd', hr⟩ := hp
      have eB : pre ++ flat (p :: ps) = pre ++ p.tb ++ flat ps := by simp [flat_cons, List.append_assoc]
      have hbl : max (((pre ++ flat (p :: ps)).length : Int) - (pre.length : Nat) - (a' - a)) 0 = (p.tb.length : Int) := by
        rw [ha', flat_cons]
        simp only [List.length_append, Nat.cast_add]
        have : (0 : Int) ≤ (p.tb.length : Int) := Int.natCast_nonneg _
        rw [max_eq_left] <;> linarith
      simp only [dts, List.map_cons]
      rw [pass2_cons_stretchy _ _ p.d d' _ pre.length (pre.length + p.tb.length) p.tb.length p.out hsp hbl hrem hd'
        (eB ▸ hr pre (flat ps))]
      have := pass2_fixed ps hgr hns (pre ++ p.tb) [] (a' - a)
      simp only [List.append_nil, List.length_append, dts] at this
      rw [eB, this, outs_cons, flat_cons]
      simp [Nat.add_assoc]
    | false =>
      simp only [hsp, Bool.false_eq_true, if_false] at h1
      unfold Piece.good at hp
      simp only [hsp, Bool.false_eq_true, if_false] at hp
      have eB : pre ++ flat (p :: ps) = pre ++ p.tb ++ flat ps := by simp [flat_cons, List.append_assoc]
      simp only [dts, List.map_cons]
      rw [pass2_cons_fixed _ _ p.d _ pre.length _ p.out hsp (eB ▸ hp.1 pre (flat ps))]
      have := ih hgr h1 (pre ++ p.tb)
      simp only [List.length_append, dts] at this
      rw [eB, this, outs_cons, flat_cons]
      simp [Nat.add_assoc]

theorem pieces_roundtrip (ps : List Piece) (hg : ∀ p ∈ ps, p.good) (st : Bool) (after : Int)
    (h1 : pass1 (dts ps) false 0 = .ok (st, after)) :
    readDtypeList (flat ps) (dts ps) 0 = .ok (outs ps, (flat ps).length) := by
  unfold readDtypeList
  rw [h1]
  have := pass2_main ps hg 0 after st h1 []
  simpa using this


theorem mid_slice (pre tb post : Bits) : ((pre ++ tb ++ post).drop pre.length).take tb.length = tb := by
  rw [List.append_assoc, List.drop_left' rfl, List.take_left' rfl]

/-- reading a fixed-length, non self-delimiting dtype in the middle of a stream -/
theorem readDT_fixed (d : DT) (tb : Bits) (out : Option Val) (pre post : Bits)
    (hvar : d.kind.variable = false) (hbl : d.bitlen = some (tb.length : Int))
    (hget : getVal d.kind tb = .ok out) :
    readDT (pre ++ tb ++ post) d pre.length = .ok (out, pre.length + tb.length) := by
  have hlt : ¬ ((tb.length : Int) < 0) := by omega
  have hlen : ¬ ((pre ++ tb ++ post).length < pre.length + tb.length) := by simp
  unfold readDT
  cases hk : d.kind
  all_goals rw [hk] at hvar hget
  all_goals first | (exfalso; revert hvar; decide) | skip
  all_goals simp only [hbl, hlt, if_false, Int.toNat_natCast, mid_slice, hget, hlen, Except.map, if_true, reduceCtorEq]


theorem buildInt_ok (bl : Option Int) (signed le : Bool) (i : Int) (tb : Bits)
    (h : buildInt bl signed le (.int i) = .ok tb) :
    ∃ n : Nat, 0 < n ∧ bl = some (n : Int) ∧ tb = (if le then byteRev (intToBits n i) else intToBits n i) ∧
      (if signed then -((2 : Int) ^ (n - 1)) ≤ i ∧ i < 2 ^ (n - 1) else 0 ≤ i ∧ i < 2 ^ n) := by
  unfold buildInt at h
  cases bl with
  | none => simp at h
  | some l =>
    simp only [valToInt] at h
    split at h
    · cases h
    · rename_i hl0
      split at h
      · cases h
      · rename_i hlneg
        have hlpos : 0 < l := by omega
        refine ⟨l.toNat, by omega, by rw [Int.toNat_of_nonneg (by omega)], ?_⟩
        cases hib : int2bits i l.toNat signed with
        | error e => simp [hib] at h
        | ok b =>
          simp only [hib, Except.ok.injEq] at h
          unfold int2bits at hib
          cases signed with
          | true =>
            simp only [if_true] at hib ⊢
            by_cases hr : i ≥ 2 ^ (l.toNat - 1) ∨ i < -(2 ^ (l.toNat - 1) : Int)
            · simp [hr] at hib
            · simp only [hr, if_false, Except.ok.injEq] at hib
              subst hib
              exact ⟨h.symm, by omega⟩
          | false =>
            simp only [Bool.false_eq_true, if_false] at hib ⊢
            by_cases hr : i < 0 ∨ i ≥ 2 ^ l.toNat
            · simp [hr] at hib
            · simp only [hr, if_false, Except.ok.injEq] at hib
              subst hib
              exact ⟨h.symm, by omega⟩

/-- what was set is what is got: the getter inverts the setter on canonical values -/
theorem setFn_getVal (rec : Str → Except Err Bits) (k : Kind) (l : Option Int) (v : Val) (tb : Bits)
    (hvar : k.variable = false) (hal : ∀ x, l = some x → k.allows x = true)
    (hset : setFn rec ⟨k, l⟩ (some v) = .ok tb) (hc : canonical k v = true) :
    getVal k tb = .ok (some v) := by
  cases k <;> cases v <;> simp [canonical] at hc <;> simp only [setFn, DT.bitlen] at hset <;> rename_i x
  all_goals first | (exfalso; revert hvar; decide) | skip
  -- uint
  · obtain ⟨n, hn, -, rfl, hr⟩ := buildInt_ok _ _ _ _ _ hset
    simp only [Bool.false_eq_true, if_false] at hr ⊢
    have hne : (intToBits n x).isEmpty = false := by
      rw [List.isEmpty_eq_false_iff]; intro h0; have := congrArg List.length h0; simp [intToBits_length] at this; omega
    simp only [getVal, hne, Bool.false_eq_true, if_false]
    rw [bitsToNat_intToBits n x hr.1 hr.2]
  -- int
  · obtain ⟨n, hn, -, rfl, hr⟩ := buildInt_ok _ _ _ _ _ hset
    simp only [Bool.false_eq_true, if_false, if_true] at hr ⊢
    have hne : (intToBits n x).isEmpty = false := by
      rw [List.isEmpty_eq_false_iff]; intro h0; have := congrArg List.length h0; simp [intToBits_length] at this; omega
    simp only [getVal, hne, Bool.false_eq_true, if_false]
    rw [bitsToInt_intToBits n hn x hr.1 hr.2]
  -- uintbe
  · obtain ⟨n, hn, -, rfl, hr⟩ := buildInt_ok _ _ _ _ _ hset
    simp only [Bool.false_eq_true, if_false] at hr ⊢
    have hne : (intToBits n x).isEmpty = false := by
      rw [List.isEmpty_eq_false_iff]; intro h0; have := congrArg List.length h0; simp [intToBits_length] at this; omega
    simp only [getVal, hne, Bool.false_eq_true, if_false]
    rw [bitsToNat_intToBits n x hr.1 hr.2]
  -- intbe
  · obtain ⟨n, hn, -, rfl, hr⟩ := buildInt_ok _ _ _ _ _ hset
    simp only [Bool.false_eq_true, if_false, if_true] at hr ⊢
    have hne : (intToBits n x).isEmpty = false := by
      rw [List.isEmpty_eq_false_iff]; intro h0; have := congrArg List.length h0; simp [intToBits_length] at this; omega
    simp only [getVal, hne, Bool.false_eq_true, if_false]
    rw [bitsToInt_intToBits n hn x hr.1 hr.2]
  -- uintle
  · obtain ⟨n, hn, hl, rfl, hr⟩ := buildInt_ok _ _ _ _ _ hset
    simp only [Bool.false_eq_true, if_false, if_true] at hr ⊢
    have h8 : n % 8 = 0 := by
      cases l with
      | none => simp at hl
      | some x =>
        have := hal x rfl
        simp [Kind.allows] at this
        simp [Kind.mult] at hl
        omega
    have hne : (byteRev (intToBits n x)).isEmpty = false := by
      rw [List.isEmpty_eq_false_iff]; intro h0; have := congrArg List.length h0
      simp [byteRev_length, intToBits_length] at this; omega
    simp only [getVal, hne, Bool.false_eq_true, if_false]
    rw [byteRev_byteRev _ (by rw [intToBits_length]; exact h8), bitsToNat_intToBits n x hr.1 hr.2]
  -- intle
  · obtain ⟨n, hn, hl, rfl, hr⟩ := buildInt_ok _ _ _ _ _ hset
    simp only [Bool.false_eq_true, if_false, if_true] at hr ⊢
    have h8 : n % 8 = 0 := by
      cases l with
      | none => simp at hl
      | some x =>
        have := hal x rfl
        simp [Kind.allows] at this
        simp [Kind.mult] at hl
        omega
    have hne : (byteRev (intToBits n x)).isEmpty = false := by
      rw [List.isEmpty_eq_false_iff]; intro h0; have := congrArg List.length h0
      simp [byteRev_length, intToBits_length] at this; omega
    simp only [getVal, hne, Bool.false_eq_true, if_false]
    rw [byteRev_byteRev _ (by rw [intToBits_length]; exact h8), bitsToInt_intToBits n hn x hr.1 hr.2]
  -- hex
  · obtain ⟨tb', h1, -, h3⟩ := hex_roundtrip x (List.all_eq_true.mpr hc)
    simp only [strArg, Except.bind] at hset
    rw [h1] at hset; cases hset
    simp [getVal, h3]
  -- bin
  · obtain ⟨tb', h1, -, h3⟩ := bin_roundtrip x (List.all_eq_true.mpr hc)
    simp only [strArg, Except.bind] at hset
    rw [h1] at hset; cases hset
    simp [getVal, h3]
  -- oct
  · obtain ⟨tb', h1, -, h3⟩ := oct_roundtrip x (List.all_eq_true.mpr hc)
    simp only [strArg, Except.bind] at hset
    rw [h1] at hset; cases hset
    simp [getVal, h3]
  -- bits
  · simp only [bitsFromBitstype, bitsCtor] at hset; cases hset; rfl
  -- bool
  · simp only [buildBool] at hset; cases hset; rfl
  -- bytes
  · simp only [buildBytes] at hset; cases hset; rfl


theorem drop_mid (pre tb post : Bits) : (pre ++ tb ++ post).drop pre.length = tb ++ post := by
  rw [List.append_assoc, List.drop_left' rfl]

/-- the self-delimiting kinds read their own codeword back, wherever it stands -/
theorem readDT_var (rec : Str → Except Err Bits) (k : Kind) (l : Option Int) (v : Val) (tb : Bits)
    (hvar : k.variable = true) (hc : canonical k v = true)
    (hset : setFn rec ⟨k, l⟩ (some v) = .ok tb) (pre post : Bits) :
    readDT (pre ++ tb ++ post) ⟨k, l⟩ pre.length = .ok (some v, pre.length + tb.length) := by
  cases k <;> cases v <;> simp [canonical] at hc <;> simp only [setFn, valToInt, Except.bind, Except.map] at hset <;> rename_i i
  all_goals first | (exfalso; revert hvar; decide) | skip
  · -- ue
    unfold C10.ueEncode at hset
    split at hset
    · cases hset
    · rename_i hi
      cases hset
      have := C10.readUE_encode [] post i.toNat
      simp only [List.nil_append, List.length_nil, Nat.zero_add] at this
      simp only [readDT, C10.streamRead, drop_mid, this, Except.map]
      rw [Int.toNat_of_nonneg (by omega)]
  · -- se
    cases hset
    have := C10.readSE_encode [] post i
    simp only [List.nil_append, List.length_nil, Nat.zero_add] at this
    simp only [readDT, C10.streamRead, drop_mid, this, Except.map]
  · -- uie
    unfold C10.uieEncode at hset
    split at hset
    · cases hset
    · rename_i hi
      cases hset
      have := C10.readUIE_encode [] post i.toNat
      simp only [List.nil_append, List.length_nil, Nat.zero_add] at this
      simp only [readDT, C10.streamRead, drop_mid, this, Except.map]
      rw [Int.toNat_of_nonneg (by omega)]
  · -- sie
    cases hset
    have := C10.readSIE_encode [] post i
    simp only [List.nil_append, List.length_nil, Nat.zero_add] at this
    simp only [readDT, C10.streamRead, drop_mid, this, Except.map]

/-- for a length-less dtype the setter does not look at the length (the integer kinds refuse): the same bits come out
    with the length the stretchy computation will assign -/
theorem setFn_stretchy (rec : Str → Except Err Bits) (k : Kind) (v : Option Val) (tb : Bits)
    (hset : setFn rec ⟨k, none⟩ v = .ok tb) (x : Int) (hx : (tb.length : Int) = x * k.mult) :
    setFn rec ⟨k, some x⟩ v = .ok tb := by
  cases k <;> cases v <;> simp only [setFn, DT.bitlen, Option.map, buildInt] at hset ⊢ <;>
    first | exact hset | (cases hset; done) | skip
  -- pad
  all_goals
    cases hset
    simp [Kind.mult] at hx
    have : ¬ (x < 0) := by omega
    simp [this, ← hx]


theorem getDtypeK_inv (k : Kind) (len : Option Int) (d : DT) (h : getDtypeK k len = .ok d) :
    d.kind = k ∧ (∀ x, d.len = some x → k.allows x = true) ∧ (k.variable = true → d.len = none) := by
  unfold getDtypeK at h
  cases len with
  | none =>
    simp only [Except.ok.injEq] at h
    subst h
    refine ⟨rfl, ?_, ?_⟩
    · intro x hx
      by_cases hb : k = .bool
      · subst hb; simp at hx; subst hx; rfl
      · simp [hb] at hx
    · intro hv
      have : k ≠ .bool := by intro e; subst e; simp [Kind.variable] at hv
      simp [this]
  | some l =>
    simp only at h
    split at h
    · cases h
    · rename_i hal
      split at h
      · cases h
      · rename_i hv
        split at h
        · cases h
        · cases h
          refine ⟨rfl, ?_, ?_⟩
          · intro x hx; simp at hx; subst hx; simpa using hal
          · intro hv'; simp [hv'] at hv

theorem mkDtype_inv (name : Str) (len : Option Int) (d : DT) (h : mkDtype name len = .ok d) :
    ∃ k l, getDtypeK k l = .ok d := by
  unfold mkDtype at h
  cases len with
  | some l =>
    simp only [getDtype] at h
    cases hk : kindOfName (String.ofList name) with
    | error e => simp [hk] at h
    | ok k => simp only [hk] at h; exact ⟨k, _, h⟩
  | none =>
    simp only at h
    cases hp : parseNameLength (removeWs name) [] with
    | error e => simp [hp] at h
    | ok r =>
      obtain ⟨n, l⟩ := r
      simp only [hp, getDtype] at h
      cases hk : kindOfName (String.ofList n) with
      | error e => simp [hk] at h
      | ok k => simp only [hk] at h; exact ⟨k, _, h⟩

theorem tokDtype_inv (kw : Kw) (t : Tok) (d : DT) (h : tokDtype kw t = .ok d) :
    (∀ x, d.len = some x → d.kind.allows x = true) ∧ (d.kind.variable = true → d.len = none) := by
  unfold tokDtype at h
  cases hr : resolveLen kw t.len with
  | error e => simp [hr] at h
  | ok l =>
    simp only [hr] at h
    obtain ⟨k, l', hk⟩ := mkDtype_inv _ _ _ h
    obtain ⟨h1, h2, h3⟩ := getDtypeK_inv k l' d hk
    subst h1
    exact ⟨h2, h3⟩

theorem tokDtype_pad (kw : Kw) (len : Option LenV) (val : Option Str) (d : DT)
    (h : tokDtype kw ⟨"pad".toList, len, val⟩ = .ok d) : d.kind = .pad := by
  unfold tokDtype at h
  cases hr : resolveLen kw len with
  | error e => simp [hr] at h
  | ok l =>
    simp only [hr] at h
    cases l with
    | none =>
      have : mkDtype "pad".toList none = .ok ⟨.pad, none⟩ := by decide
      rw [this] at h; cases h; rfl
    | some x =>
      simp only [mkDtype, getDtype] at h
      have : kindOfName (String.ofList "pad".toList) = .ok .pad := by decide
      rw [this] at h
      exact (getDtypeK_inv _ _ _ h).1

/-- a plain token's bits are what the dtype's setter produces, of the dtype's length if it has one -/
theorem tokBits_setFn (kw : Kw) (t : Tok) (pv : Option Val) (tb : Bits) (d : DT)
    (hplain : t.plain kw = true) (hd : tokDtype kw t = .ok d)
    (hcanon : (t.name = "pad".toList ∧ pv = none) ∨ (∃ v, pv = some v ∧ canonical d.kind v = true))
    (h : tokBits kw t pv = .ok tb) :
    setFn strToBits d pv = .ok tb ∧ (∀ l, d.bitlen = some l → (tb.length : Int) = l) := by
  simp only [Tok.plain, Bool.and_eq_true, Option.isNone_iff_eq_none, Bool.not_eq_true'] at hplain
  obtain ⟨⟨hval, hkw⟩, hlit⟩ := hplain
  unfold tokBits at h
  unfold tokDtype at hd
  simp only [hkw, Bool.false_eq_true, false_and, if_false, hval, resolveVal] at h
  cases hr : resolveLen kw t.len with
  | error e => simp [hr] at hd
  | ok len =>
    simp only [hr] at h hd
    by_cases hbits : t.name = "bits".toList
    · simp only [hbits, if_true] at h
      rw [hbits] at hd
      have hd' : d = ⟨.bits, len⟩ := by
        cases len with
        | none =>
          have : mkDtype "bits".toList none = .ok ⟨.bits, none⟩ := by decide
          rw [this] at hd; cases hd; rfl
        | some x =>
          simp only [mkDtype, getDtype] at hd
          have : kindOfName (String.ofList "bits".toList) = .ok .bits := by decide
          rw [this] at hd
          exact getDtypeK_some _ _ _ hd
      subst hd'
      rcases hcanon with ⟨hp, -⟩ | ⟨v, rfl, hc⟩
      · rw [hbits] at hp; exact absurd hp (by decide)
      · cases v <;> simp [canonical] at hc
        rename_i x
        simp only [bitsCtor] at h
        cases len with
        | none =>
          simp only [Except.ok.injEq] at h; subst h
          exact ⟨by simp [setFn, bitsFromBitstype, bitsCtor], by intro l hl; simp [DT.bitlen] at hl⟩
        | some l =>
          simp only at h
          split at h
          · cases h
          · rename_i hne
            cases h
            refine ⟨by simp [setFn, bitsFromBitstype, bitsCtor], ?_⟩
            intro l' hl'
            simp [DT.bitlen, Kind.mult] at hl'
            simp at hne
            omega
    · simp only [hbits, if_false] at h
      unfold bitstoreFromToken at h
      simp only [hlit, Bool.false_eq_true, if_false, hd] at h
      have hnv : ¬ (pv.isNone = true ∧ t.name ≠ "pad".toList) := by
        rcases hcanon with ⟨hp, -⟩ | ⟨v, rfl, -⟩
        · intro ⟨_, b⟩; exact b hp
        · intro ⟨a, _⟩; simp at a
      simp only [hnv, if_false] at h
      unfold buildDT at h
      cases hs : setFn strToBits d pv with
      | error e => simp [hs] at h
      | ok b =>
        simp only [hs] at h
        cases hbl : d.bitlen with
        | none =>
          simp only [hbl] at h
          have : b = tb := by
            cases len <;> simpa using h
          subst this
          exact ⟨rfl, by intro l hl; cases hl⟩
        | some l =>
          simp only [hbl] at h
          by_cases hne : (b.length : Int) ≠ l
          · simp [hne] at h
          · simp only [hne, if_false] at h
            have : b = tb := by
              cases len <;> simp [hne] at h <;> exact h
            subst this
            exact ⟨rfl, by intro l' hl'; cases hl'; simpa using hne⟩

/-- a length-less token: the number of bits produced is a whole number of units and an allowed length -/
theorem stretchy_facts (rec : Str → Except Err Bits) (k : Kind) (pv : Option Val) (tb : Bits)
    (hset : setFn rec ⟨k, none⟩ pv = .ok tb)
    (hc : k = .pad ∨ ∃ v, pv = some v ∧ canonical k v = true) :
    tb.length % k.mult = 0 ∧ k.allows ((tb.length / k.mult : Nat) : Int) = true := by
  rcases hc with rfl | ⟨v, rfl, hc⟩
  · simp only [setFn, DT.bitlen, Option.map] at hset
    cases hset; simp [Kind.mult, Kind.allows]
  · cases k <;> cases v <;> simp [canonical] at hc <;>
      simp only [setFn, DT.bitlen, Option.map, buildInt] at hset <;> rename_i x
    all_goals first | (cases hset; done) | skip
    all_goals simp only [Kind.mult, Kind.allows, Nat.mod_one, Nat.div_one, true_and]
    · -- hex
      obtain ⟨tb', h1, h2, -⟩ := hex_roundtrip x (List.all_eq_true.mpr hc)
      simp only [strArg, Except.bind] at hset
      rw [h1] at hset; cases hset
      rw [h2]; simp
    · -- oct
      obtain ⟨tb', h1, h2, -⟩ := oct_roundtrip x (List.all_eq_true.mpr hc)
      simp only [strArg, Except.bind] at hset
      rw [h1] at hset; cases hset
      rw [h2]; simp
    · -- bool
      simp only [buildBool] at hset; cases hset; rfl
    · -- bytes
      simp only [buildBytes] at hset; cases hset
      exact ⟨hc, trivial⟩


theorem getVal_pad (tb : Bits) : getVal .pad tb = .ok none := rfl

/-- a packed plain token with a canonical value is a good piece -/
theorem token_piece (kw : Kw) (t : Tok) (pv : Option Val) (tb : Bits) (d : DT)
    (hplain : t.plain kw = true) (hd : tokDtype kw t = .ok d)
    (hcanon : (t.name = "pad".toList ∧ pv = none) ∨ (∃ v, pv = some v ∧ canonical d.kind v = true))
    (h : tokBits kw t pv = .ok tb) : Piece.good ⟨d, tb, pv⟩ := by
  obtain ⟨hset, hlen⟩ := tokBits_setFn kw t pv tb d hplain hd hcanon h
  obtain ⟨hallow, hvarlen⟩ := tokDtype_inv kw t d hd
  -- the kind-level form of `hcanon`
  have hck : d.kind = .pad ∧ pv = none ∨ ∃ v, pv = some v ∧ canonical d.kind v = true := by
    rcases hcanon with ⟨hp, hn⟩ | hv
    · left
      refine ⟨?_, hn⟩
      obtain ⟨n, l, v⟩ := t
      simp only at hp; subst hp
      exact tokDtype_pad kw l v d hd
    · exact Or.inr hv
  -- what the getter returns for these bits
  have hget : ∀ l, (∀ x, l = some x → d.kind.allows x = true) → d.kind.variable = false →
      setFn strToBits ⟨d.kind, l⟩ pv = .ok tb → getVal d.kind tb = .ok pv := by
    intro l hal hv hs
    rcases hck with ⟨hp, hn⟩ | ⟨v, rfl, hc⟩
    · rw [hp, hn]; rfl
    · exact setFn_getVal strToBits d.kind l v tb hv hal hs hc
  unfold Piece.good
  obtain ⟨k, len⟩ := d
  simp only at *
  cases hst : (DT.mk k len).stretchy with
  | true =>
    simp only [if_true]
    simp only [DT.stretchy, Bool.and_eq_true, Option.isNone_iff_eq_none, Bool.not_eq_true'] at hst
    obtain ⟨hln, hv⟩ := hst
    subst hln
    have hc' : k = .pad ∨ ∃ v, pv = some v ∧ canonical k v = true := by
      rcases hck with ⟨hp, -⟩ | hv
      · exact Or.inl hp
      · exact Or.inr hv
    obtain ⟨hrem, hal⟩ := stretchy_facts strToBits k pv tb hset hc'
    have hx : (tb.length : Int) = ((tb.length / k.mult : Nat) : Int) * k.mult := by
      have := Nat.div_mul_cancel (Nat.dvd_of_mod_eq_zero hrem)
      exact_mod_cast this.symm
    refine ⟨hrem, ⟨k, some ((tb.length / k.mult : Nat) : Int)⟩, ?_, ?_⟩
    · have hnn : ¬ (((tb.length / k.mult : Nat) : Int) < 0) := not_lt.mpr (Int.natCast_nonneg _)
      rw [getDtypeK]; simp only [hal, Bool.not_true, Bool.false_eq_true, if_false, hv, hnn]
    · intro pre post
      have hs' := setFn_stretchy strToBits k pv tb hset _ hx
      apply readDT_fixed ⟨k, some _⟩ tb pv pre post hv
      · simp only [DT.bitlen, Option.map]; rw [← hx]
      · exact hget _ (by intro x hx'; cases hx'; exact hal) hv hs'
  | false =>
    simp only [Bool.false_eq_true, if_false]
    cases hv : k.variable with
    | true =>
      refine ⟨?_, by intro h; cases h⟩
      intro pre post
      rcases hck with ⟨hp, -⟩ | ⟨v, rfl, hc⟩
      · subst hp; simp [Kind.variable] at hv
      · exact readDT_var strToBits k len v tb hv hc hset pre post
    | false =>
      cases len with
      | none => simp [DT.stretchy, hv] at hst
      | some l =>
        have hbl : (DT.mk k (some l)).bitlen = some (tb.length : Int) := by
          have := hlen _ rfl
          simp only [DT.bitlen, Option.map] at this ⊢
          rw [this]
        refine ⟨?_, fun _ => hbl⟩
        intro pre post
        exact readDT_fixed ⟨k, some l⟩ tb pv pre post hv hbl (hget (some l) hallow hv hset)

/-- the pieces of a packed, plain, conforming token list -/
theorem pieces_of_pack (kw : Kw) (ts : List Tok) (vs : List Val) (b : Bits) (ds : List DT)
    (hplain : ∀ t ∈ ts, t.plain kw = true)
    (hd : tokDtypes kw ts = .ok ds)
    (hc : conform kw ts vs = true)
    (hp : packT kw ts vs = .ok b) :
    ∃ ps : List Piece, dts ps = ds ∧ flat ps = b ∧ outs ps = vs ∧ ∀ p ∈ ps, p.good := by
  induction ts generalizing vs b ds with
  | nil =>
    cases vs with
    | nil =>
      simp [packT] at hp; simp [tokDtypes] at hd
      subst hp; subst hd
      exact ⟨[], rfl, rfl, rfl, by simp⟩
    | cons v vs => simp [conform] at hc
  | cons t ts ih =>
    have hpl := hplain t (by simp)
    have hplr : ∀ t' ∈ ts, t'.plain kw = true := fun t' h' => hplain t' (by simp [h'])
    rw [tokDtypes.eq_def] at hd
    simp only at hd
    cases hdt : tokDtype kw t with
    | error e => simp [hdt] at hd
    | ok d =>
      simp only [hdt] at hd
      cases hdr : tokDtypes kw ts with
      | error e => simp [hdr, Except.map] at hd
      | ok dr =>
        simp only [hdr, Except.map, Except.ok.injEq] at hd
        subst hd
        have hval : t.val = none := by
          simp only [Tok.plain, Bool.and_eq_true, Option.isNone_iff_eq_none] at hpl; exact hpl.1.1
        have hkw : kw.has t.name = false := by
          simp only [Tok.plain, Bool.and_eq_true, Bool.not_eq_true'] at hpl; exact hpl.1.2
        have hneeds : t.needsValue kw = decide (t.name ≠ "pad".toList) := by
          simp [Tok.needsValue, hkw, hval]
        rw [conform.eq_def] at hc
        simp only at hc
        by_cases hpad : t.name = "pad".toList
        · simp only [hpad, if_true] at hc
          rcases packT_ok_cons kw t ts vs b hp with ⟨hn, -⟩ | ⟨-, tb, r, htb, hpr, rfl⟩
          · rw [hneeds] at hn; exact absurd hpad (of_decide_eq_true hn)
          · obtain ⟨ps, h1, h2, h3, h4⟩ := ih vs r dr hplr hdr hc hpr
            have hg := token_piece kw t none tb d hpl hdt (Or.inl ⟨hpad, rfl⟩) htb
            refine ⟨⟨d, tb, none⟩ :: ps, ?_, ?_, ?_, ?_⟩
            · simp [dts] at h1 ⊢; exact h1
            · rw [flat_cons, h2]
            · rw [outs_cons, h3]; rfl
            · intro p hp'
              rcases List.mem_cons.mp hp' with rfl | hp'
              · exact hg
              · exact h4 p hp'
        · simp only [hpad, if_false] at hc
          rcases packT_ok_cons kw t ts vs b hp with ⟨-, v, vs', l, tb, r, rfl, -, htb, hpr, rfl⟩ | ⟨hn, -⟩
          · simp only [hdt, Bool.and_eq_true] at hc
            obtain ⟨hcv, hcr⟩ := hc
            obtain ⟨ps, h1, h2, h3, h4⟩ := ih vs' r dr hplr hdr hcr hpr
            have hg := token_piece kw t (some v) tb d hpl hdt (Or.inr ⟨v, rfl, hcv⟩) htb
            refine ⟨⟨d, tb, some v⟩ :: ps, ?_, ?_, ?_, ?_⟩
            · simp [dts] at h1 ⊢; exact h1
            · rw [flat_cons, h2]
            · rw [outs_cons, h3]; rfl
            · intro p hp'
              rcases List.mem_cons.mp hp' with rfl | hp'
              · exact hg
              · exact h4 p hp'
          · rw [hneeds] at hn; exact absurd (not_not.mp (of_decide_eq_false hn)) hpad

theorem unpack_pack' (kw : Kw) (ts : List Tok) (vs : List Val) (b : Bits) (ds : List DT) (st : Bool) (after : Int)
    (hplain : ∀ t ∈ ts, t.plain kw = true)
    (hd : tokDtypes kw ts = .ok ds)
    (hwf : pass1 ds false 0 = .ok (st, after))
    (hc : conform kw ts vs = true)
    (hp : packT kw ts vs = .ok b) :
    readDtypeList b ds 0 = .ok (vs, b.length) := by
  obtain ⟨ps, rfl, rfl, rfl, hg⟩ := pieces_of_pack kw ts vs b ds hplain hd hc hp
  exact pieces_roundtrip ps hg st after hwf

theorem tokBits_not_allowed (kw : Kw) (name : Str) (n : Int) (v : Val) (k : Kind)
    (hb : (name = "bits".toList) = False) (hlit : literalNames.contains name = false)
    (hk : kindOfName (String.ofList name) = .ok k) (hal : k.allows n = false) :
    tokBits kw ⟨name, some (.int n), none⟩ (some v) = .error .value := by
  unfold tokBits
  simp only [Option.isNone_some, Bool.false_eq_true, and_false, false_and, if_false, resolveLen, resolveVal, hb,
    bitstoreFromToken, hlit, mkDtype, getDtype, hk, getDtypeK, hal, Bool.not_false, if_true]

theorem hex_wrong_size' (kw : Kw) (n : Nat) (s : Str) (hs : s.all isLowerHex = true) (h : 4 * s.length ≠ n) :
    tokBits kw ⟨"hex".toList, some (.int n), none⟩ (some (.str s)) = .error .value := by
  obtain ⟨tb, h1, h2, -⟩ := hex_roundtrip s hs
  cases hal : Kind.hex.allows (n : Int) with
  | true =>
    rw [tokBits_plain_fixed kw _ _ _ .hex (by decide) (by decide) (by decide) hal (by rfl) (by omega)]
    have hm : Kind.hex.mult = 1 := rfl
    have : ¬ ((tb.length : Int) = n) := by omega
    simp [buildDT, setFn, DT.bitlen, strArg, Except.bind, h1, hm, this]
  | false =>
    exact tokBits_not_allowed kw _ _ _ .hex (by decide) (by decide) (by decide) hal


end BM.C05
