/- Kernel obligation: `bfChk` (Proofs/C11_NumDefs.lean) on the 16-bit patterns 0x5800..0x5bff. -/
import BitstringModel.Proofs.C11_NumDefs
namespace BM.C11
theorem bfChunk_22 : bfChunkOk 22 = true := by decide +kernel
end BM.C11
