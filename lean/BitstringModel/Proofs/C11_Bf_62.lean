/- Kernel obligation: `bfChk` (Proofs/C11_NumDefs.lean) on the 16-bit patterns 0xf800..0xfbff. -/
import BitstringModel.Proofs.C11_NumDefs
namespace BM.C11
theorem bfChunk_62 : bfChunkOk 62 = true := by decide +kernel
end BM.C11
