/- Kernel obligation: decoding any code of e5m2mxfp (table E5M2O) and encoding the value again under 'overflow' gives the code back,
   except NaN codes and (e5m2, saturate) infinities - `reencChk` in Proofs/C11_Reenc.lean states the exceptions. -/
import BitstringModel.Proofs.C11_Reenc
namespace BM.C11
theorem reencChk_E5M2O : reencChk .e5m2mxfp .overflow = true := by decide +kernel
end BM.C11
