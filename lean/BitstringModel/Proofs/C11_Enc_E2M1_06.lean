/- Kernel obligation: entries 0x6000..0x6fff of the live float16->code table `Gen.encE2M1` pass `encChk`
   (one sixteenth of the table per file so that lake checks them in parallel; depends only on the specification and on
   this table; assembled in Proofs/C11_Tables.lean). -/
import BitstringModel.Model.C11_Spec
import BitstringModel.Gen.LutEncE2M1
namespace BM.C11
theorem encChunk_E2M1_06 : encChunkOkT Gen.encE2M1 Fmt.e2m1 .saturate 6 = true := by decide +kernel
end BM.C11
