/- Kernel obligation: `bfChk` (Proofs/C11_NumDefs.lean) on the 16-bit patterns 0x2c00..0x2fff. -/
import BitstringModel.Proofs.C11_NumDefs
namespace BM.C11
theorem bfChunk_11 : bfChunkOk 11 = true := by decide +kernel
end BM.C11
