/- Kernel obligation: `bfChk` (Proofs/C11_NumDefs.lean) on the 16-bit patterns 0xb000..0xbfff. -/
import BitstringModel.Proofs.C11_NumDefs
namespace BM.C11
theorem bfChunk_11 : bfChunkOk 11 = true := by decide +kernel
end BM.C11
