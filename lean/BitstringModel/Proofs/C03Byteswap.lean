/-
  Proofs/C03Byteswap.lean — helper lemmas for Props/C03_Byteswap.lean (byte reversal, the `byteswap` loops).
  Everything lives in the sub-namespace `BM.C03.Byteswap` so that the names cannot collide with the helper files
  of the other C03 parts.
-/
import BitstringModel.Model.C03
import BitstringModel.Proofs.C03
import Mathlib.Tactic.Ring
import Mathlib.Tactic.Linarith
import Mathlib.Data.List.Basic
namespace BM.C03.Byteswap
open BM BM.C03

/-! ### `revBytesAux` / `revBytes` -/

theorem revBytesAux_nil (f : Nat) : revBytesAux f [] = [] := by
  cases f <;> simp [revBytesAux]

theorem revBytesAux_succ (f : Nat) (b : Bits) :
    revBytesAux (f + 1) b = if b.isEmpty then [] else revBytesAux f (b.drop 8) ++ b.take 8 := rfl

theorem revBytesAux_fuel (f g : Nat) (b : Bits) (hf : b.length ≤ 8 * f) (hg : b.length ≤ 8 * g) :
    revBytesAux f b = revBytesAux g b := by
  induction f generalizing g b with
  | zero =>
    have : b = [] := List.eq_nil_of_length_eq_zero (by omega)
    subst this
    rw [revBytesAux_nil, revBytesAux_nil]
  | succ f ih =>
    cases g with
    | zero =>
      have : b = [] := List.eq_nil_of_length_eq_zero (by omega)
      subst this
      rw [revBytesAux_nil, revBytesAux_nil]
    | succ g =>
      rw [revBytesAux_succ, revBytesAux_succ]
      by_cases hb : b.isEmpty
      · simp [hb]
      · rw [if_neg hb, if_neg hb]
        rw [ih g (b.drop 8) (by rw [List.length_drop]; omega) (by rw [List.length_drop]; omega)]

theorem revBytes_eq_aux (f : Nat) (b : Bits) (hf : b.length ≤ 8 * f) : revBytes b = revBytesAux f b := by
  unfold revBytes
  exact revBytesAux_fuel _ _ _ (by omega) hf

theorem revBytesAux_length (f : Nat) (b : Bits) (hf : b.length ≤ 8 * f) : (revBytesAux f b).length = b.length := by
  induction f generalizing b with
  | zero =>
    have : b = [] := List.eq_nil_of_length_eq_zero (by omega)
    subst this
    rfl
  | succ f ih =>
    rw [revBytesAux_succ]
    by_cases hb : b.isEmpty
    · simp only [hb, if_true]
      rw [List.isEmpty_iff] at hb
      subst hb
      rfl
    · rw [if_neg hb]
      rw [List.length_append, ih (b.drop 8) (by rw [List.length_drop]; omega), List.length_drop, List.length_take]
      omega

theorem revBytes_length (b : Bits) : (revBytes b).length = b.length :=
  revBytesAux_length _ _ (by omega)

theorem revBytes_nil : revBytes [] = [] := rfl

theorem revBytes_append (a b : Bits) (ha : a.length = 8) : revBytes (a ++ b) = revBytes b ++ a := by
  rw [revBytes_eq_aux (b.length + 1) (a ++ b) (by rw [List.length_append]; omega), revBytesAux_succ]
  have hne : (a ++ b).isEmpty = false := by
    cases a with
    | nil => simp at ha
    | cons x xs => rfl
  simp only [hne]
  rw [List.drop_left' ha, List.take_left' ha]
  rfl

theorem revBytes_append_right (m : Nat) (x a : Bits) (ha : a.length = 8) (hx : x.length = 8 * m) :
    revBytes (x ++ a) = a ++ revBytes x := by
  induction m generalizing x with
  | zero =>
    have : x = [] := List.eq_nil_of_length_eq_zero (by omega)
    subst this
    have := revBytes_append a [] ha
    simp only [List.append_nil] at this
    simp [this, revBytes_nil]
  | succ m ih =>
    have ht : (x.take 8).length = 8 := by rw [List.length_take]; omega
    have hd : (x.drop 8).length = 8 * m := by rw [List.length_drop]; omega
    conv_lhs => rw [← List.take_append_drop 8 x]
    rw [List.append_assoc, revBytes_append _ _ ht, ih _ hd, List.append_assoc, ← revBytes_append _ _ ht,
      List.take_append_drop]

theorem revBytes_involutive_aux (m : Nat) (b : Bits) (h : b.length = 8 * m) : revBytes (revBytes b) = b := by
  induction m generalizing b with
  | zero =>
    have : b = [] := List.eq_nil_of_length_eq_zero (by omega)
    subst this
    rfl
  | succ m ih =>
    have ht : (b.take 8).length = 8 := by rw [List.length_take]; omega
    have hd : (b.drop 8).length = 8 * m := by rw [List.length_drop]; omega
    conv_lhs => rw [← List.take_append_drop 8 b]
    rw [revBytes_append _ _ ht, revBytes_append_right m _ _ ht (by rw [revBytes_length]; exact hd), ih _ hd,
      List.take_append_drop]

theorem revBytes_involutive (b : Bits) (h : 8 ∣ b.length) : revBytes (revBytes b) = b := by
  obtain ⟨m, hm⟩ := h
  exact revBytes_involutive_aux m b hm

theorem revBytes_getElem (b : Bits) (m : Nat) (h : b.length = 8 * m) (j i : Nat) (hj : j < m) (hi : i < 8) :
    (revBytes b)[8 * (m - 1 - j) + i]? = b[8 * j + i]? := by
  induction m generalizing b j with
  | zero => omega
  | succ m ih =>
    have ht : (b.take 8).length = 8 := by rw [List.length_take]; omega
    have hd : (b.drop 8).length = 8 * m := by rw [List.length_drop]; omega
    have hb : b = b.take 8 ++ b.drop 8 := (List.take_append_drop 8 b).symm
    have hr : revBytes b = revBytes (b.drop 8) ++ b.take 8 := by
      conv_lhs => rw [hb]
      exact revBytes_append _ _ ht
    rw [hr]
    cases j with
    | zero =>
      have hl : (revBytes (b.drop 8)).length ≤ 8 * (m + 1 - 1 - 0) + i := by rw [revBytes_length, hd]; omega
      rw [List.getElem?_append_right hl, revBytes_length, hd]
      have e : 8 * (m + 1 - 1 - 0) + i - 8 * m = i := by omega
      rw [e, List.getElem?_take_of_lt hi]
      simp
    | succ j =>
      have hl : 8 * (m + 1 - 1 - (j + 1)) + i < (revBytes (b.drop 8)).length := by rw [revBytes_length, hd]; omega
      rw [List.getElem?_append_left hl]
      have e : 8 * (m + 1 - 1 - (j + 1)) + i = 8 * (m - 1 - j) + i := by congr 2; omega
      rw [e, ih _ hd j (by omega), List.getElem?_drop]
      congr 1
      omega

/-! ### `slc` arithmetic, frames -/

theorem slc_take {α} (l : List α) (a b n : Nat) (h : a + n ≤ b) : (slc l a b).take n = slc l a (a + n) := by
  unfold slc
  rw [List.take_take]
  congr 1
  omega

theorem slc_drop {α} (l : List α) (a b n : Nat) : (slc l a b).drop n = slc l (a + n) b := by
  unfold slc
  rw [List.drop_take, List.drop_drop]
  congr 1
  omega

/-- A list whose tail from `c` on is that of `l`. -/
theorem frame_take {α} (X l : List α) (c : Nat) (hX : X.length = c) : (X ++ l.drop c).take c = X :=
  List.take_left' hX

theorem frame_drop {α} (X l : List α) (c d : Nat) (hX : X.length = c) (hcd : c ≤ d) :
    (X ++ l.drop c).drop d = l.drop d := by
  have e : d = c + (d - c) := by omega
  rw [e, ← List.drop_drop, List.drop_left' hX, List.drop_drop]

theorem frame_slc {α} (X l : List α) (c d : Nat) (hX : X.length = c) :
    slc (X ++ l.drop c) c d = slc l c d := by
  unfold slc
  rw [List.drop_left' hX]

/-! ### `_reversebytes` -/

theorem reversebytes_in_range (l : Bits) (s e : Nat) (hse : s ≤ e) (he : e ≤ l.length) (h8 : 8 ∣ e - s) :
    Alg._reversebytes l s e = .ok (l.take s ++ revBytes (slc l s e) ++ l.drop e) := by
  unfold Alg._reversebytes
  simp only
  have hlen : (slc l s e).length = e - s := slc_length_of_le l s e he
  have hpad : (8 - (slc l s e).length % 8) % 8 = 0 := by
    rw [hlen]; omega
  rw [hpad, List.replicate_zero, List.append_nil, setSlice_nonneg l _ s e hse he]
  rfl

/-! ### `swapGroups`, `swapRepeat` -/

theorem swapGroups_length (sizes : List Nat) (b : Bits) : (Spec.swapGroups sizes b).length = b.length := by
  induction sizes generalizing b with
  | nil => rfl
  | cons k ks ih =>
    simp only [Spec.swapGroups, List.length_append, revBytes_length, ih, List.length_take, List.length_drop]
    omega

theorem swapGroups_involutive (sizes : List Nat) (b : Bits) (h : b.length = 8 * sizes.sum) :
    Spec.swapGroups sizes (Spec.swapGroups sizes b) = b := by
  induction sizes generalizing b with
  | nil => rfl
  | cons k ks ih =>
    rw [List.sum_cons] at h
    have ht : (b.take (8 * k)).length = 8 * k := by rw [List.length_take]; omega
    have hd : (b.drop (8 * k)).length = 8 * ks.sum := by rw [List.length_drop]; omega
    have hr : (revBytes (b.take (8 * k))).length = 8 * k := by rw [revBytes_length, ht]
    simp only [Spec.swapGroups]
    rw [List.take_left' hr, List.drop_left' hr, revBytes_involutive _ (by rw [ht]; exact ⟨k, rfl⟩), ih _ hd,
      List.take_append_drop]

theorem swapRepeat_length (k total : Nat) (sizes : List Nat) (b : Bits) :
    (Spec.swapRepeat k total sizes b).length = b.length := by
  induction k generalizing b with
  | zero => rfl
  | succ k ih =>
    simp only [Spec.swapRepeat, List.length_append, swapGroups_length, ih, List.length_take, List.length_drop]
    omega

theorem swapRepeat_involutive (k : Nat) (sizes : List Nat) (b : Bits) (h : b.length = k * (8 * sizes.sum)) :
    Spec.swapRepeat k (8 * sizes.sum) sizes (Spec.swapRepeat k (8 * sizes.sum) sizes b) = b := by
  induction k generalizing b with
  | zero => rfl
  | succ k ih =>
    rw [Nat.succ_mul k] at h
    have ht : (b.take (8 * sizes.sum)).length = 8 * sizes.sum := by rw [List.length_take]; omega
    have hd : (b.drop (8 * sizes.sum)).length = k * (8 * sizes.sum) := by rw [List.length_drop]; omega
    have hr : (Spec.swapGroups sizes (b.take (8 * sizes.sum))).length = 8 * sizes.sum := by
      rw [swapGroups_length, ht]
    simp only [Spec.swapRepeat]
    rw [List.take_left' hr, List.drop_left' hr, swapGroups_involutive _ _ ht, ih _ hd, List.take_append_drop]

/-! ### the loops of ALG -/

theorem swapOnce_eq (l : Bits) (sizes : List Nat) (bs : Nat) (h : bs + 8 * sizes.sum ≤ l.length) :
    Alg.swapOnce l sizes bs =
      .ok (l.take bs ++ Spec.swapGroups sizes (slc l bs (bs + 8 * sizes.sum)) ++ l.drop (bs + 8 * sizes.sum)) := by
  induction sizes generalizing l bs with
  | nil =>
    simp only [Alg.swapOnce, List.sum_nil, Nat.mul_zero, Nat.add_zero, Spec.swapGroups, slc_self, List.append_nil,
      List.take_append_drop]
  | cons k ks ih =>
    rw [List.sum_cons] at h ⊢
    have h1 : bs + k * 8 ≤ l.length := by omega
    have hslen : (slc l bs (bs + k * 8)).length = k * 8 := by rw [slc_length_of_le _ _ _ h1]; omega
    have hXlen : (l.take bs ++ revBytes (slc l bs (bs + k * 8))).length = bs + k * 8 := by
      rw [List.length_append, revBytes_length, hslen, List.length_take]; omega
    simp only [Alg.swapOnce]
    rw [reversebytes_in_range l bs (bs + k * 8) (by omega) h1 ⟨k, by omega⟩]
    simp only
    have hl' : bs + k * 8 + 8 * ks.sum ≤
        (l.take bs ++ revBytes (slc l bs (bs + k * 8)) ++ l.drop (bs + k * 8)).length := by
      rw [List.length_append, hXlen, List.length_drop]; omega
    rw [ih _ (bs + k * 8) hl', frame_take _ _ _ hXlen, frame_slc _ _ _ _ hXlen,
      frame_drop _ _ _ _ hXlen (by omega)]
    simp only [Spec.swapGroups]
    rw [slc_take _ _ _ _ (by omega), slc_drop]
    have e1 : 8 * k = k * 8 := Nat.mul_comm _ _
    have e2 : bs + k * 8 + 8 * ks.sum = bs + 8 * (k + ks.sum) := by omega
    rw [e1, e2]
    simp only [List.append_assoc]

theorem swapLoop_eq_aux (cnt : Nat) (l : Bits) (sizes : List Nat) (total a : Nat) (ht : total = 8 * sizes.sum)
    (h : a + cnt * total ≤ l.length) :
    Alg.swapLoop cnt l sizes total (a + total) =
      .ok (l.take a ++ Spec.swapRepeat cnt total sizes (slc l a (a + cnt * total)) ++ l.drop (a + cnt * total)) := by
  induction cnt generalizing l a with
  | zero =>
    simp only [Alg.swapLoop, Nat.zero_mul, Nat.add_zero, Spec.swapRepeat, slc_self, List.append_nil,
      List.take_append_drop]
  | succ cnt ih =>
    rw [Nat.succ_mul cnt total] at h ⊢
    have h1 : a + 8 * sizes.sum ≤ l.length := by omega
    have hXlen : (l.take a ++ Spec.swapGroups sizes (slc l a (a + total))).length = a + total := by
      rw [List.length_append, swapGroups_length, slc_length_of_le _ _ _ (by omega), List.length_take]; omega
    simp only [Alg.swapLoop, Nat.add_sub_cancel]
    have hso := swapOnce_eq l sizes a h1
    rw [← ht] at hso
    rw [hso]
    simp only
    have hl' : a + total + cnt * total ≤
        (l.take a ++ Spec.swapGroups sizes (slc l a (a + total)) ++ l.drop (a + total)).length := by
      rw [List.length_append, hXlen, List.length_drop]; omega
    rw [ih _ (a + total) hl', frame_take _ _ _ hXlen, frame_slc _ _ _ _ hXlen,
      frame_drop _ _ _ _ hXlen (by omega)]
    simp only [Spec.swapRepeat]
    rw [slc_take _ _ _ _ (by omega), slc_drop]
    have e2 : a + total + cnt * total = a + (cnt * total + total) := by omega
    rw [e2]
    simp only [List.append_assoc]

theorem swapLoop_eq (cnt : Nat) (l : Bits) (sizes : List Nat) (a : Nat)
    (h : a + cnt * (8 * sizes.sum) ≤ l.length) :
    Alg.swapLoop cnt l sizes (8 * sizes.sum) (a + 8 * sizes.sum) =
      .ok (l.take a ++ Spec.swapRepeat cnt (8 * sizes.sum) sizes (slc l a (a + cnt * (8 * sizes.sum))) ++
        l.drop (a + cnt * (8 * sizes.sum))) :=
  swapLoop_eq_aux cnt l sizes _ a rfl h

/-- The trip count of `range(a + total, fb + 1, total)`. -/
theorem rangeLen_count (a fb total : Nat) (ht : 0 < total) :
    Py.rangeLen ((a + total : Nat) : Int) ((fb + 1 : Nat) : Int) (total : Int) = (fb - a) / total := by
  unfold Py.rangeLen
  have ht' : (total : Int) > 0 := by omega
  rw [if_pos ht']
  by_cases hc : a + total ≤ fb
  · rw [if_pos (by omega)]
    obtain ⟨d, hd⟩ : ∃ d, fb = a + total + d := ⟨fb - (a + total), by omega⟩
    subst hd
    have e1 : (((a + total + d + 1 : Nat) : Int) - ((a + total : Nat) : Int) - 1) = (d : Int) := by omega
    have e2 : a + total + d - a = d + total := by omega
    rw [e1, e2, Nat.add_div_right _ ht]
    have e3 : (d : Int) / (total : Int) = ((d / total : Nat) : Int) := by simp
    rw [e3]
    generalize d / total = q
    omega
  · rw [if_neg (by omega)]
    rw [Nat.div_eq_of_lt (by omega)]

/-! ### SPEC in closed form -/

/-- The number of patterns SPEC applies. -/
def kOf (total a z : Nat) (rep : Bool) : Nat :=
  if total = 0 then 0 else if rep then (z - a) / total else if a + total ≤ z then 1 else 0

theorem kOf_mul_le (total a z : Nat) (rep : Bool) : kOf total a z rep * total ≤ z - a := by
  unfold kOf
  split
  · omega
  · split
    · exact Nat.div_mul_le_self _ _
    · split <;> omega

theorem spec_byteswap_eq (l : Bits) (f : Fmt) (s e : Option Int) (rep : Bool) (a z : Nat) (sizes : List Nat)
    (hv : validateSlice l.length s e = .ok (a, z)) (hf : fmtSizes f a z = .ok sizes) :
    Spec.byteswap l f s e rep =
      .ok (kOf (8 * sizes.sum) a z rep,
        l.take a ++ Spec.swapRepeat (kOf (8 * sizes.sum) a z rep) (8 * sizes.sum) sizes
          (slc l a (a + kOf (8 * sizes.sum) a z rep * (8 * sizes.sum))) ++
        l.drop (a + kOf (8 * sizes.sum) a z rep * (8 * sizes.sum))) := by
  unfold Spec.byteswap
  rw [hv]
  simp only
  rw [hf]
  simp only
  by_cases h0 : 8 * sizes.sum = 0
  · rw [if_pos h0]
    have hk : kOf (8 * sizes.sum) a z rep = 0 := by unfold kOf; rw [if_pos h0]
    rw [hk]
    simp only [Nat.zero_mul, Nat.add_zero, Spec.swapRepeat, slc_self, List.append_nil, List.take_append_drop]
  · rw [if_neg h0]
    have hk : kOf (8 * sizes.sum) a z rep =
        if rep = true then (z - a) / (8 * sizes.sum) else if a + 8 * sizes.sum ≤ z then 1 else 0 := by
      unfold kOf; rw [if_neg h0]
    rw [hk]

theorem alg_byteswap_eq (l : Bits) (f : Fmt) (s e : Option Int) (rep : Bool) :
    Alg.byteswap l f s e rep = Spec.byteswap l f s e rep := by
  cases hv : validateSlice l.length s e with
  | error err => unfold Alg.byteswap Spec.byteswap; rw [hv]
  | ok p =>
    obtain ⟨a, z⟩ := p
    have hz := validateSlice_ok hv
    cases hf : fmtSizes f a z with
    | error err => unfold Alg.byteswap Spec.byteswap; rw [hv]; simp only; rw [hf]
    | ok sizes =>
      rw [spec_byteswap_eq l f s e rep a z sizes hv hf]
      unfold Alg.byteswap
      rw [hv]
      simp only
      rw [hf]
      simp only
      by_cases h0 : 8 * sizes.sum = 0
      · rw [if_pos h0]
        have hk : kOf (8 * sizes.sum) a z rep = 0 := by unfold kOf; rw [if_pos h0]
        rw [hk]
        simp only [Nat.zero_mul, Nat.add_zero, Spec.swapRepeat, slc_self, List.append_nil, List.take_append_drop]
      · rw [if_neg h0]
        have hcnt : Py.rangeLen ((a + 8 * sizes.sum : Nat) : Int)
            (((if rep = true then z else min (a + 8 * sizes.sum) z) + 1 : Nat) : Int) ((8 * sizes.sum : Nat) : Int) =
            kOf (8 * sizes.sum) a z rep := by
          rw [rangeLen_count _ _ _ (by omega)]
          unfold kOf
          rw [if_neg h0]
          cases rep with
          | true => simp
          | false =>
            simp only [Bool.false_eq_true, if_false]
            by_cases hfit : a + 8 * sizes.sum ≤ z
            · rw [if_pos hfit, Nat.min_eq_left hfit, Nat.add_sub_cancel_left, Nat.div_self (by omega)]
            · rw [if_neg hfit, Nat.min_eq_right (by omega), Nat.div_eq_of_lt (by omega)]
        rw [hcnt]
        have hle := kOf_mul_le (8 * sizes.sum) a z rep
        rw [swapLoop_eq _ l sizes a (by omega)]

/-! ### properties of the closed form -/

theorem res_length (l : Bits) (a k total : Nat) (sizes : List Nat) (h : a + k * total ≤ l.length) :
    (l.take a ++ Spec.swapRepeat k total sizes (slc l a (a + k * total)) ++ l.drop (a + k * total)).length =
      l.length := by
  rw [List.length_append, List.length_append, swapRepeat_length, slc_length_of_le _ _ _ h, List.length_take,
    List.length_drop]
  omega

theorem res_prefix_length (l : Bits) (a k total : Nat) (sizes : List Nat) (h : a + k * total ≤ l.length) :
    (l.take a ++ Spec.swapRepeat k total sizes (slc l a (a + k * total))).length = a + k * total := by
  rw [List.length_append, swapRepeat_length, slc_length_of_le _ _ _ h, List.length_take]
  omega

theorem res_take (l : Bits) (a k total : Nat) (sizes : List Nat) (h : a + k * total ≤ l.length) :
    (l.take a ++ Spec.swapRepeat k total sizes (slc l a (a + k * total)) ++ l.drop (a + k * total)).take a =
      l.take a := by
  rw [List.append_assoc]
  exact List.take_left' (by rw [List.length_take]; omega)

theorem res_drop (l : Bits) (a k total z : Nat) (sizes : List Nat) (h : a + k * total ≤ l.length)
    (hz : a + k * total ≤ z) :
    (l.take a ++ Spec.swapRepeat k total sizes (slc l a (a + k * total)) ++ l.drop (a + k * total)).drop z =
      l.drop z :=
  frame_drop _ _ _ _ (res_prefix_length l a k total sizes h) hz

theorem res_slc (l : Bits) (a k total : Nat) (sizes : List Nat) (h : a + k * total ≤ l.length) :
    slc (l.take a ++ Spec.swapRepeat k total sizes (slc l a (a + k * total)) ++ l.drop (a + k * total))
      a (a + k * total) = Spec.swapRepeat k total sizes (slc l a (a + k * total)) := by
  unfold slc
  rw [List.append_assoc, List.drop_left' (by rw [List.length_take]; omega)]
  apply List.take_left'
  rw [swapRepeat_length]
  have := slc_length_of_le l a (a + k * total) h
  unfold slc at this
  rw [this]

theorem spec_byteswap_ok (l r : Bits) (f : Fmt) (s e : Option Int) (rep : Bool) (k : Nat)
    (h : Spec.byteswap l f s e rep = .ok (k, r)) :
    ∃ a z sizes, validateSlice l.length s e = .ok (a, z) ∧ fmtSizes f a z = .ok sizes ∧
      k = kOf (8 * sizes.sum) a z rep ∧
      r = l.take a ++ Spec.swapRepeat k (8 * sizes.sum) sizes (slc l a (a + k * (8 * sizes.sum))) ++
        l.drop (a + k * (8 * sizes.sum)) := by
  cases hv : validateSlice l.length s e with
  | error err =>
    unfold Spec.byteswap at h
    rw [hv] at h
    cases h
  | ok p =>
    obtain ⟨a, z⟩ := p
    cases hf : fmtSizes f a z with
    | error err =>
      unfold Spec.byteswap at h
      rw [hv] at h
      simp only at h
      rw [hf] at h
      cases h
    | ok sizes =>
      rw [spec_byteswap_eq l f s e rep a z sizes hv hf] at h
      injection h with h
      injection h with h1 h2
      subst h1
      exact ⟨a, z, sizes, rfl, hf, rfl, h2.symm⟩

theorem byteswap_length (l r : Bits) (f : Fmt) (s e : Option Int) (rep : Bool) (k : Nat)
    (h : Spec.byteswap l f s e rep = .ok (k, r)) : r.length = l.length := by
  obtain ⟨a, z, sizes, hv, hf, hk, hr⟩ := spec_byteswap_ok l r f s e rep k h
  have hz := validateSlice_ok hv
  have hle := kOf_mul_le (8 * sizes.sum) a z rep
  rw [← hk] at hle
  rw [hr]
  exact res_length l a k _ sizes (by omega)

theorem byteswap_frame (l r : Bits) (f : Fmt) (s e : Option Int) (rep : Bool) (k a z : Nat)
    (h : Spec.byteswap l f s e rep = .ok (k, r)) (hv : validateSlice l.length s e = .ok (a, z)) :
    r.take a = l.take a ∧ r.drop z = l.drop z := by
  obtain ⟨a', z', sizes, hv', hf, hk, hr⟩ := spec_byteswap_ok l r f s e rep k h
  rw [hv] at hv'
  injection hv' with hv'
  injection hv' with h1 h2
  subst h1 h2
  have hz := validateSlice_ok hv
  have hle := kOf_mul_le (8 * sizes.sum) a z rep
  rw [← hk] at hle
  rw [hr]
  exact ⟨res_take l a k _ sizes (by omega), res_drop l a k _ z sizes (by omega) (by omega)⟩

theorem byteswap_count (l r : Bits) (f : Fmt) (s e : Option Int) (rep : Bool) (k a z : Nat) (sizes : List Nat)
    (h : Spec.byteswap l f s e rep = .ok (k, r)) (hv : validateSlice l.length s e = .ok (a, z))
    (hf : fmtSizes f a z = .ok sizes) :
    k * (8 * sizes.sum) ≤ z - a ∧
    (rep = true → 8 * sizes.sum ≠ 0 → z - a < (k + 1) * (8 * sizes.sum)) ∧
    (rep = false → k ≤ 1) ∧ (8 * sizes.sum = 0 → k = 0 ∧ r = l) := by
  rw [spec_byteswap_eq l f s e rep a z sizes hv hf] at h
  injection h with h
  injection h with hk hr
  have hle := kOf_mul_le (8 * sizes.sum) a z rep
  rw [hk] at hle
  refine ⟨hle, ?_, ?_, ?_⟩
  · intro hrep h0
    rw [← hk]
    unfold kOf
    rw [if_neg h0, if_pos hrep, Nat.mul_comm]
    exact Nat.lt_mul_div_succ _ (by omega)
  · intro hrep
    rw [← hk]
    unfold kOf
    subst hrep
    split
    · omega
    · simp only [Bool.false_eq_true, if_false]
      split <;> omega
  · intro h0
    have hk0 : k = 0 := by
      rw [← hk]; unfold kOf; rw [if_pos h0]
    refine ⟨hk0, ?_⟩
    rw [← hr, hk, hk0]
    simp only [Nat.zero_mul, Nat.add_zero, Spec.swapRepeat, slc_self, List.append_nil, List.take_append_drop]

theorem byteswap_involutive (l r : Bits) (f : Fmt) (s e : Option Int) (rep : Bool) (k : Nat)
    (h : Spec.byteswap l f s e rep = .ok (k, r)) : Spec.byteswap r f s e rep = .ok (k, l) := by
  have hlen := byteswap_length l r f s e rep k h
  obtain ⟨a, z, sizes, hv, hf, hk, hr⟩ := spec_byteswap_ok l r f s e rep k h
  have hz := validateSlice_ok hv
  have hle := kOf_mul_le (8 * sizes.sum) a z rep
  rw [← hk] at hle
  have hb : a + k * (8 * sizes.sum) ≤ l.length := by omega
  rw [spec_byteswap_eq r f s e rep a z sizes (by rw [hlen]; exact hv) hf, ← hk]
  have h1 : r.take a = l.take a := by rw [hr]; exact res_take l a k _ sizes hb
  have h2 : r.drop (a + k * (8 * sizes.sum)) = l.drop (a + k * (8 * sizes.sum)) := by
    rw [hr]; exact res_drop l a k _ _ sizes hb (Nat.le_refl _)
  have h3 : slc r a (a + k * (8 * sizes.sum)) =
      Spec.swapRepeat k (8 * sizes.sum) sizes (slc l a (a + k * (8 * sizes.sum))) := by
    rw [hr]; exact res_slc l a k _ sizes hb
  rw [h1, h2, h3, swapRepeat_involutive k sizes _ (by rw [slc_length_of_le _ _ _ hb]; omega),
    take_slc_drop l a _ (by omega)]

theorem byteswap_default (l : Bits) (s e : Option Int) (a z : Nat) (hv : validateSlice l.length s e = .ok (a, z))
    (h8 : 8 ≤ z - a) :
    Spec.byteswap l .none s e true =
      .ok (1, l.take a ++ revBytes (slc l a (a + 8 * ((z - a) / 8))) ++ l.drop (a + 8 * ((z - a) / 8))) := by
  have hz := validateSlice_ok hv
  have hf : fmtSizes .none a z = .ok [(z - a) / 8] := rfl
  rw [spec_byteswap_eq l .none s e true a z _ hv hf]
  have hsum : [(z - a) / 8].sum = (z - a) / 8 := by simp
  rw [hsum]
  have hk : kOf (8 * ((z - a) / 8)) a z true = 1 := by
    unfold kOf
    rw [if_neg (by omega)]
    simp only [if_true]
    apply Nat.div_eq_of_lt_le <;> omega
  rw [hk, Nat.one_mul]
  have hb : a + 8 * ((z - a) / 8) ≤ l.length := by omega
  have hlen : (slc l a (a + 8 * ((z - a) / 8))).length = 8 * ((z - a) / 8) := by
    rw [slc_length_of_le _ _ _ hb]; omega
  simp only [Spec.swapRepeat, Spec.swapGroups]
  rw [List.take_of_length_le (Nat.le_of_eq hlen), List.drop_of_length_le (Nat.le_of_eq hlen),
    List.take_of_length_le (Nat.le_of_eq hlen)]
  simp

theorem byteswap_errors (l : Bits) (f : Fmt) (s e : Option Int) (rep : Bool) :
    (validateSlice l.length s e = .error .value → Spec.byteswap l f s e rep = .error .value) ∧
    (∀ a z, validateSlice l.length s e = .ok (a, z) → fmtSizes f a z = .error .value →
      Spec.byteswap l f s e rep = .error .value) := by
  refine ⟨?_, ?_⟩
  · intro hv
    unfold Spec.byteswap
    rw [hv]
  · intro a z hv hf
    unfold Spec.byteswap
    rw [hv]
    simp only
    rw [hf]

theorem fmtSizes_err_iff (f : Fmt) (a z : Nat) :
    fmtSizes f a z = .error .value ↔
      match f with
      | .none => False
      | .int k => k < 0
      | .sizes ks => ∃ k ∈ ks, k < 0
      | .str s => parseFmt s = none := by
  cases f with
  | none => simp [fmtSizes]
  | int k =>
    simp only [fmtSizes]
    by_cases h0 : k = 0
    · simp [h0]
    · by_cases h1 : k < 0
      · simp [h0, h1]
      · simp [h0, h1]
  | sizes ks =>
    simp only [fmtSizes]
    by_cases h : (ks.any (· < 0)) = true
    · rw [if_pos h]
      simp only [true_iff]
      rw [List.any_eq_true] at h
      obtain ⟨k, hk, hlt⟩ := h
      exact ⟨k, hk, by simpa using hlt⟩
    · rw [if_neg h]
      simp only [reduceCtorEq, false_iff]
      intro ⟨k, hk, hlt⟩
      apply h
      rw [List.any_eq_true]
      exact ⟨k, hk, by simpa using hlt⟩
  | str s =>
    simp only [fmtSizes]
    cases parseFmt s <;> simp

end BM.C03.Byteswap
