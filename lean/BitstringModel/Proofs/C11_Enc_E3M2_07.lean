/- Kernel obligation: entries 0x7000..0x7fff of the live float16->code table `Gen.encE3M2` pass `encChk`
   (one sixteenth of the table per file so that lake checks them in parallel; depends only on the specification and on
   this table; assembled in Proofs/C11_Tables.lean). -/
import BitstringModel.Model.C11_Spec
import BitstringModel.Gen.LutEncE3M2
namespace BM.C11
theorem encChunk_E3M2_07 : encChunkOkT Gen.encE3M2 Fmt.e3m2 .saturate 7 = true := by decide +kernel
end BM.C11
