/-
  Proofs/C18Array.lean — helper lemmas for Props/C18_Array.lean.
-/
import BitstringModel.Model.C18
import BitstringModel.Proofs.C18
import BitstringModel.Props.C18
import BitstringModel.Proofs.C18Swap
import BitstringModel.Props.C18_Byteswap
import BitstringModel.Props.C18_Pack
import BitstringModel.Proofs.C18Pack

namespace BM.C18
open BM


def arrayDtypeOK (e c : Char) : Bool :=
  match setDtype (String.ofList [e, c]), structSpec e c with
  | .ok d, some s => decide (d = nativeDtype s)
  | _, _ => false

theorem arrayDtypeOK_all : ∀ e ∈ specEndians, ∀ c ∈ specCodes, arrayDtypeOK e c = true := by decide +kernel

theorem setDtype_code (e c : Char) (he : e ∈ specEndians) (hc : c ∈ specCodes) :
    ∃ s, structSpec e c = some s ∧ setDtype (String.ofList [e, c]) = .ok (nativeDtype s) := by
  have h := arrayDtypeOK_all e he c hc
  unfold arrayDtypeOK at h
  split at h
  · rename_i d s hd hs
    simp only [decide_eq_true_eq] at h
    exact ⟨s, hs, by rw [hd, h]⟩
  · cases h

theorem nativeDtype_meaning (s : Spec) (hs : 0 < s.size) : (nativeDtype s).meaning.same s = true := by
  obtain ⟨k, n, o⟩ := s
  simp only at hs
  have hd : 8 * n / 8 = n := by omega
  by_cases h1 : n = 1 <;> cases k <;> cases o <;> simp [nativeDtype, DType.meaning, Spec.same, h1, hd]

theorem array_dtype_of_code' (e c : Char) (he : e ∈ specEndians) (hc : c ∈ specCodes) :
    ∃ d s, setDtype (String.ofList [e, c]) = .ok d ∧ structSpec e c = some s ∧ d.length = 8 * s.size ∧
      d.meaning.same s = true := by
  obtain ⟨s, hs, hd⟩ := setDtype_code e c he hc
  obtain ⟨hpos, _⟩ := structSpec_size e c s hs
  exact ⟨nativeDtype s, s, hd, hs, rfl, nativeDtype_meaning s hpos⟩

theorem arrayBuild_eq (e c : Char) (s : Spec) (hs : structSpec e c = some s) (vals : List Val) :
    (arrayBuild (nativeDtype s) vals).toOption
      = ((Struct.pack e (List.replicate vals.length c) vals).map bitsOfBytes).toOption := by
  obtain ⟨hpos, _, _, hf⟩ := structSpec_size e c s hs
  induction vals with
  | nil => simp [arrayBuild, Struct.pack, Except.map, Except.toOption, bitsOfBytes]
  | cons v vs ih =>
    have hb := build_nativeDtype s hpos hf v
    simp only [arrayBuild, List.length_cons, List.replicate_succ, Struct.pack, hs]
    cases hp : Struct.pack1 s v with
    | error err =>
      rw [hp] at hb
      simp only [Except.map, Except.toOption] at hb
      obtain ⟨e', he'⟩ := (toOption_none_iff _).mp hb
      simp [he', Except.map, Except.toOption, bind, Except.bind]
    | ok x =>
      rw [hp] at hb
      simp only [Except.map, Except.toOption] at hb
      rw [(toOption_ok_iff _ _).mp hb]
      cases hr : Struct.pack e (List.replicate vs.length c) vs with
      | error err =>
        rw [hr] at ih
        simp only [Except.map, Except.toOption] at ih
        obtain ⟨e', he'⟩ := (toOption_none_iff _).mp ih
        simp [he', Except.map, Except.toOption, bind, Except.bind]
      | ok r =>
        rw [hr] at ih
        simp only [Except.map, Except.toOption] at ih
        simp [(toOption_ok_iff _ _).mp ih, Except.map, Except.toOption, bind, Except.bind, pure, Except.pure,
          bitsOfBytes_append]

theorem array_tobytes_eq_struct' (e c : Char) (he : e ∈ specEndians) (hc : c ∈ specCodes) (d : DType)
    (hd : setDtype (String.ofList [e, c]) = .ok d) (vals : List Val) :
    ((arrayBuild d vals).map toBytes).toOption
      = (Struct.pack e (List.replicate vals.length c) vals).toOption := by
  obtain ⟨s, hs, hd'⟩ := setDtype_code e c he hc
  rw [hd] at hd'; injection hd' with hd'; subst hd'
  have h := arrayBuild_eq e c s hs vals
  cases hp : Struct.pack e (List.replicate vals.length c) vals with
  | error err =>
    rw [hp] at h
    simp only [Except.map, Except.toOption] at h
    obtain ⟨e', he'⟩ := (toOption_none_iff _).mp h
    simp [he', Except.map, Except.toOption]
  | ok x =>
    rw [hp] at h
    simp only [Except.map, Except.toOption] at h
    rw [(toOption_ok_iff _ _).mp h]
    simp [Except.map, Except.toOption, toBytes_bitsOfBytes' x (structPack_length e _ vals x hp).2]


/-- The dtype *name* the table gives for the native prefix and a code of a given kind and standard size. -/
def neName (k : Kind) (n : Nat) : String :=
  match k with
  | .sint => if n = 1 then "int" else "intne"
  | .uint => if n = 1 then "uint" else "uintne"
  | .float => "floatne"

def tokenNameOK (tc : Char) : Bool :=
  match singleStructToken '=' tc, structKindSize tc with
  | some (.ok (name, _)), some (k, n) => name == neName k n
  | _, _ => false

theorem tokenNameOK_all : ∀ tc ∈ specCodes, tokenNameOK tc = true := by decide +kernel

theorem singleToken_name (tc : Char) (htc : tc ∈ specCodes) :
    ∃ k n len, structKindSize tc = some (k, n) ∧ singleStructToken '=' tc = some (.ok (neName k n, len)) := by
  have h := tokenNameOK_all tc htc
  unfold tokenNameOK at h
  split at h
  · rename_i name len k n h1 h2
    simp only [beq_iff_eq] at h
    exact ⟨k, n, len, h2, by rw [h1, h]⟩
  · cases h

theorem structKindSize_none (tc : Char) (h : tc ∉ specCodes) : structKindSize tc = none := by
  unfold structKindSize
  split <;> first | rfl | (exfalso; apply h; decide)

theorem singleToken_none (tc : Char) (h : tc ∉ specCodes) : singleStructToken '=' tc = none := by
  have hm : tc ∉ Gen.Struct.codeAlphabet := fun hm => h (alphabets_match.1 tc hm)
  simp [singleStructToken, hm]

/-- `get_dtype(name, itemsize * 8)` for the name the native table gives: the dtype of the native layout with
    the array's own item size. -/
theorem mkDtype_neName (k : Kind) (n itemsize : Nat)
    (h1 : if n = 1 then itemsize = 1 else 1 < itemsize)
    (hf : k = .float → (itemsize = 2 ∨ itemsize = 4 ∨ itemsize = 8)) :
    mkDtype (neName k n) (itemsize * 8) = .ok (nativeDtype ⟨k, itemsize, nativeOrder⟩) := by
  have r1 : resolve "int" = some .int := by decide
  have r2 : resolve "uint" = some .uint := by decide
  have r3 : resolve "intne" = some (if nativeOrder = .little then .intle else .intbe) := by decide
  have r4 : resolve "uintne" = some (if nativeOrder = .little then .uintle else .uintbe) := by decide
  have r5 : resolve "floatne" = some (if nativeOrder = .little then .floatle else .float) := by decide
  have hm : itemsize * 8 = 8 * itemsize := Nat.mul_comm _ _
  have h8 : itemsize * 8 % 8 = 0 := by omega
  cases k
  · by_cases hn : n = 1
    · simp only [hn, if_true] at h1
      subst h1
      simp [neName, hn, mkDtype, r1, DefName.allows, nativeDtype]
    · simp only [hn, if_false] at h1
      have hi : itemsize ≠ 1 := by omega
      cases hno : nativeOrder <;>
        simp [neName, hn, mkDtype, r3, hno, DefName.allows, nativeDtype, hi, h8, hm]
  · by_cases hn : n = 1
    · simp only [hn, if_true] at h1
      subst h1
      simp [neName, hn, mkDtype, r2, DefName.allows, nativeDtype]
    · simp only [hn, if_false] at h1
      have hi : itemsize ≠ 1 := by omega
      cases hno : nativeOrder <;>
        simp [neName, hn, mkDtype, r4, hno, DefName.allows, nativeDtype, hi, h8, hm]
  · have hl : itemsize * 8 = 16 ∨ itemsize * 8 = 32 ∨ itemsize * 8 = 64 := by have := hf rfl; omega
    cases hno : nativeOrder <;>
      (simp [neName, mkDtype, r5, hno, DefName.allows, nativeDtype, hm]; omega)

theorem itemsizeOK_facts (tc : Char) (itemsize : Nat) (k : Kind) (n : Nat) (hk : structKindSize tc = some (k, n))
    (h : itemsizeOK tc itemsize = true) :
    (if n = 1 then itemsize = 1 else 1 < itemsize) ∧ (k = .float → (itemsize = 2 ∨ itemsize = 4 ∨ itemsize = 8)) ∧
    0 < itemsize := by
  simp only [itemsizeOK, hk, decide_eq_true_eq] at h
  refine ⟨h.1, h.2, ?_⟩
  have := h.1
  split at this <;> omega

theorem array_accept_iff' (d : DType) (tc : Char) (itemsize : Nat) (hok : itemsizeOK tc itemsize = true) :
    arrayAccepts d tc itemsize = true ↔
      ∃ k n, structKindSize tc = some (k, n) ∧ d = nativeDtype ⟨k, itemsize, nativeOrder⟩ := by
  by_cases htc : tc ∈ specCodes
  · obtain ⟨k, n, len, hk, ht⟩ := singleToken_name tc htc
    obtain ⟨h1, hf, _⟩ := itemsizeOK_facts tc itemsize k n hk hok
    simp only [arrayAccepts, ht, mkDtype_neName k n itemsize h1 hf, decide_eq_true_eq, hk, Option.some.injEq,
      Prod.mk.injEq]
    constructor
    · intro ⟨ha, hb⟩
      refine ⟨k, n, ⟨rfl, rfl⟩, ?_⟩
      cases d
      simp_all
    · rintro ⟨k', n', ⟨rfl, rfl⟩, hd⟩
      subst hd
      exact ⟨rfl, rfl⟩
  · simp [arrayAccepts, singleToken_none tc htc, structKindSize_none tc htc]

theorem array_accept_only_when_match' (d : DType) (tc : Char) (itemsize : Nat) (hok : itemsizeOK tc itemsize = true)
    (h : arrayAccepts d tc itemsize = true) :
    ∃ k n, structKindSize tc = some (k, n) ∧ d.length = 8 * itemsize ∧
      d.meaning.same ⟨k, itemsize, nativeOrder⟩ = true := by
  obtain ⟨k, n, hk, hd⟩ := (array_accept_iff' d tc itemsize hok).mp h
  obtain ⟨_, _, hpos⟩ := itemsizeOK_facts tc itemsize k n hk hok
  subst hd
  exact ⟨k, n, hk, rfl, nativeDtype_meaning ⟨k, itemsize, nativeOrder⟩ hpos⟩

theorem array_extend_appends' (d : DType) (tc : Char) (itemsize : Nat) (data data' : Bits) (vals : List Val)
    (h : arrayExtend d data tc itemsize vals = .ok data') :
    ∃ bytes, arrayArrayTobytes tc itemsize vals = .ok bytes ∧ data' = data ++ bitsOfBytes bytes := by
  unfold arrayExtend at h
  split at h
  · cases h
  · split at h
    · cases h
    · split at h
      · cases h
      · split at h
        · cases h
        · rename_i bytes hb
          injection h with h
          exact ⟨bytes, hb, h.symm⟩

theorem replacements_at : replacements '@' = replacements '=' := by decide

theorem structparser_at (codes : List Char) : structparser '@' codes = structparser '=' codes := by
  induction codes with
  | nil => rfl
  | cons c cs ih => simp only [structparser, replacements_at, ih]

theorem at_eq_equals' (codes : List Char) (vals : List Val) (b : Bits) :
    (structparser '@' codes).bind (packTokens · vals) = (structparser '=' codes).bind (packTokens · vals) ∧
    (structparser '@' codes).bind (readTokens · b 0) = (structparser '=' codes).bind (readTokens · b 0) := by
  rw [structparser_at]; exact ⟨rfl, rfl⟩

theorem at_prefix_size_partial' (fmt : String) (codes : List Char) (hc : ∀ c ∈ codes, c ∈ specCodes)
    (hm : matchStructFmt fmt = some ('@', codes)) (hreg : native_at_prefix_platform_sizes fmt = false)
    (vals : List Val) (bits : Bits) (h : pack fmt vals = .ok bits) :
    bits.length = 8 * nativeCalcsize codes 0 := by
  rw [pack_fmt_eq fmt '@' codes vals hm] at h
  have hl := pack_length '@' (by decide) codes hc vals bits h
  simp only [native_at_prefix_platform_sizes, hm, bne_eq_false_iff_eq] at hreg
  rw [hl, hreg]

theorem fmtSizes_int_nat (k a z : Nat) :
    fmtSizes (.int (k : Int)) a z = .ok [if k = 0 then (z - a) / 8 else k] := by
  unfold fmtSizes
  by_cases h0 : k = 0
  · subst h0; simp
  · have h1 : ¬ ((k : Int) = 0) := by omega
    have h2 : ¬ ((k : Int) < 0) := by omega
    simp [h0, h1, h2]

theorem validateSlice_none (n : Nat) : validateSlice n none none = .ok (0, n) := by simp [validateSlice]

theorem byteswap_int_ok (data : Bits) (k : Nat) :
    ∃ n b, byteswap data (.int (k : Int)) none none true = .ok (n, b) := by
  cases hb : byteswap data (.int (k : Int)) none none true with
  | ok r => exact ⟨r.1, r.2, rfl⟩
  | error err =>
    exfalso
    have hn : (byteswap data (.int (k : Int)) none none true).toOption = none := by rw [hb]; rfl
    rw [byteswap_error_iff] at hn
    rcases hn with hn | ⟨a, z, hv', hf⟩
    · rw [validateSlice_none] at hn; cases hn
    · rw [fmtSizes_int_nat] at hf; cases hf

theorem array_byteswap_error_iff' (d : DType) (data : Bits) :
    (arrayByteswap d data).toOption = none ↔ d.length % 8 ≠ 0 := by
  unfold arrayByteswap
  by_cases h : d.length % 8 = 0
  · obtain ⟨k, b, hb⟩ := byteswap_int_ok data (d.length / 8)
    have hc : ((d.length : Int) / 8) = ((d.length / 8 : Nat) : Int) := by omega
    rw [if_neg (by omega), hc, hb]
    simp [Except.toOption, h]
  · rw [if_pos h]
    simp [h, Except.toOption]



theorem swapRepeat_items (L k : Nat) (hL : L = 8 * k) (items : List Bits) (hitems : ∀ x ∈ items, x.length = L)
    (trail : Bits) :
    swapRepeat items.length L [k] (items.flatten ++ trail) = (items.map bytesRev).flatten ++ trail := by
  induction items with
  | nil => simp [swapRepeat]
  | cons x xs ih =>
    have hx : x.length = L := hitems x List.mem_cons_self
    simp only [List.length_cons, swapRepeat, List.flatten_cons, List.append_assoc, List.map_cons]
    rw [List.take_left' hx, List.drop_left' hx, ih (fun y hy => hitems y (List.mem_cons_of_mem _ hy))]
    simp only [swapGroups]
    rw [← hL, ← hx, List.take_length, List.drop_length]
    simp

theorem flatten_length_eq (L : Nat) (items : List Bits) (hitems : ∀ x ∈ items, x.length = L) :
    items.flatten.length = items.length * L := by
  induction items with
  | nil => simp
  | cons x xs ih =>
    simp only [List.flatten_cons, List.length_append, List.length_cons,
      hitems x List.mem_cons_self, ih (fun y hy => hitems y (List.mem_cons_of_mem _ hy))]
    rw [Nat.add_mul]; omega

theorem array_byteswap_items' (d : DType) (hd : d.length % 8 = 0) (hpos : 0 < d.length) (items : List Bits)
    (hitems : ∀ x ∈ items, x.length = d.length) (trail : Bits) (htrail : trail.length < d.length) :
    arrayByteswap d (items.flatten ++ trail) = .ok ((items.map bytesRev).flatten ++ trail) := by
  have hk : 0 < d.length / 8 := by omega
  have hL : d.length = 8 * (d.length / 8) := by omega
  have hc : ((d.length : Int) / 8) = ((d.length / 8 : Nat) : Int) := by omega
  have hfl := flatten_length_eq d.length items hitems
  have hf : fmtSizes (.int ((d.length / 8 : Nat) : Int)) 0 (items.flatten ++ trail).length = .ok [d.length / 8] := by
    rw [fmtSizes_int_nat, if_neg (by omega)]
  have hspec := byteswap_eq_spec (items.flatten ++ trail) (.int ((d.length / 8 : Nat) : Int)) none none true 0
    (items.flatten ++ trail).length [d.length / 8] (validateSlice_none _) hf
  unfold arrayByteswap
  rw [if_neg (by omega), hc, hspec]
  have htot : 8 * [d.length / 8].sum = d.length := by simp; omega
  have hcount : ((items.flatten ++ trail).length - 0) / d.length = items.length := by
    rw [List.length_append, hfl, Nat.sub_zero, Nat.add_comm, Nat.add_mul_div_right _ _ hpos,
      Nat.div_eq_of_lt htrail, Nat.zero_add]
  simp only [swapSpec, htot, if_true]
  rw [if_neg (by omega), hcount]
  simp only [List.take_zero, List.drop_zero, List.nil_append, Nat.zero_add]
  have ht : (items.flatten ++ trail).take (items.length * d.length) = items.flatten := by
    rw [← hfl]; exact List.take_left' rfl
  have hdp : (items.flatten ++ trail).drop (items.length * d.length) = trail := by
    rw [← hfl]; exact List.drop_left' rfl
  rw [ht, hdp]
  have := swapRepeat_items d.length (d.length / 8) hL items hitems []
  simp only [List.append_nil] at this
  rw [this]

theorem array_byteswap_twice' (d : DType) (hd : d.length % 8 = 0) (hpos : 0 < d.length) (data data' : Bits)
    (h : arrayByteswap d data = .ok data') : arrayByteswap d data' = .ok data := by
  have hc : ((d.length : Int) / 8) = ((d.length / 8 : Nat) : Int) := by omega
  unfold arrayByteswap at h ⊢
  rw [if_neg (by omega), hc] at h ⊢
  obtain ⟨n, b, hb⟩ := byteswap_int_ok data (d.length / 8)
  rw [hb] at h
  injection h with h
  subst h
  have hf : fmtSizes (.int ((d.length / 8 : Nat) : Int)) 0 data.length = .ok [d.length / 8] := by
    rw [fmtSizes_int_nat, if_neg (by omega)]
  have := byteswap_twice_id data (.int ((d.length / 8 : Nat) : Int)) none none true 0 data.length [d.length / 8]
    (validateSlice_none _) hf n b hb
  rw [this]



theorem arrayBuild_items (d : DType) (vals : List Val) (b : Bits) (h : arrayBuild d vals = .ok b) :
    ∃ items, b = items.flatten ∧ List.Forall₂ (fun v x => build d v = .ok x) vals items := by
  induction vals generalizing b with
  | nil => simp only [arrayBuild] at h; injection h with h; exact ⟨[], by simp [← h], List.Forall₂.nil⟩
  | cons v vs ih =>
    simp only [arrayBuild] at h
    cases hb : build d v with
    | error err => simp [hb] at h
    | ok x =>
      cases hr : arrayBuild d vs with
      | error err => simp [hb, hr] at h
      | ok r =>
        simp only [hb, hr] at h
        injection h with h
        obtain ⟨items, hi, hf⟩ := ih r hr
        exact ⟨x :: items, by simp [← h, hi], List.Forall₂.cons hb hf⟩

theorem arrayBuild_of_items (d : DType) (vals : List Val) (items : List Bits)
    (h : List.Forall₂ (fun v x => build d v = .ok x) vals items) : arrayBuild d vals = .ok items.flatten := by
  induction h with
  | nil => rfl
  | cons hb _ ih => simp [arrayBuild, hb, ih]

def beD (signed : Bool) (size : Nat) : DType := ⟨if signed then .intbe else .uintbe, 8 * size⟩
def leD (signed : Bool) (size : Nat) : DType := ⟨if signed then .intle else .uintle, 8 * size⟩

theorem build_le_of_be (signed : Bool) (size : Nat) (v : Val) (x : Bits)
    (h : build (beD signed size) v = .ok x) :
    build (leD signed size) v = .ok (bytesRev x) ∧ x.length = 8 * size := by
  cases signed <;> cases v <;> simp only [beD, leD, build, Bool.false_eq_true, if_false, if_true] at h ⊢ <;>
    try (cases h; done)
  all_goals
    split at h
    · cases h
    · rename_i h0
      split at h
      · cases h
      · rename_i h8
        rw [if_neg h0, if_neg h8]
        simp only [intle2bitstore, h]
        exact ⟨trivial, int2bitstore_length _ _ _ _ h⟩

theorem forall2_le_of_be (signed : Bool) (size : Nat) (vals : List Val) (items : List Bits)
    (hf : List.Forall₂ (fun v x => build (beD signed size) v = .ok x) vals items) :
    List.Forall₂ (fun v x => build (leD signed size) v = .ok x) vals (items.map bytesRev) ∧
    ∀ x ∈ items, x.length = 8 * size := by
  induction hf with
  | nil => exact ⟨List.Forall₂.nil, by simp⟩
  | cons hb _ ih =>
    refine ⟨List.Forall₂.cons (build_le_of_be signed size _ _ hb).1 ih.1, ?_⟩
    intro x hx
    cases hx with
    | head => exact (build_le_of_be signed size _ _ hb).2
    | tail _ hx' => exact ih.2 x hx'

theorem array_byteswap_converts' (size : Nat) (hs : 0 < size) (signed : Bool) (vals : List Val) (be : Bits)
    (h : arrayBuild ⟨if signed then .intbe else .uintbe, 8 * size⟩ vals = .ok be) :
    ∃ le, arrayBuild ⟨if signed then .intle else .uintle, 8 * size⟩ vals = .ok le ∧
      arrayByteswap ⟨if signed then .intbe else .uintbe, 8 * size⟩ be = .ok le ∧
      arrayByteswap ⟨if signed then .intle else .uintle, 8 * size⟩ le = .ok be := by
  change arrayBuild (beD signed size) vals = .ok be at h
  obtain ⟨items, hbe, hf⟩ := arrayBuild_items _ vals be h
  obtain ⟨hle, hlen⟩ := forall2_le_of_be signed size vals items hf
  refine ⟨(items.map bytesRev).flatten, arrayBuild_of_items _ vals _ hle, ?_, ?_⟩
  · have := array_byteswap_items' (beD signed size) (by simp [beD]) (by simp [beD]; omega) items
      (by simpa [beD] using hlen) [] (by simp [beD]; omega)
    simp only [List.append_nil] at this
    rw [hbe]; exact this
  · have := array_byteswap_items' (leD signed size) (by simp [leD]) (by simp [leD]; omega) (items.map bytesRev)
      (by
        intro x hx
        obtain ⟨y, hy, rfl⟩ := List.mem_map.mp hx
        simp only [leD]
        rw [bytesRev_length' y (by rw [hlen y hy]; omega)]
        exact hlen y hy) [] (by simp [leD]; omega)
    simp only [List.append_nil, List.map_map] at this
    show arrayByteswap (leD signed size) _ = _
    rw [hbe, this]
    congr 2
    calc List.map (bytesRev ∘ bytesRev) items = List.map id items := by
          apply List.map_congr_left
          intro y hy
          exact bytesRev_bytesRev' y (by rw [hlen y hy]; omega)
      _ = items := List.map_id _



/-- `array.array.tobytes()` of values accepted for a spec: the concatenation of the items' bytes. -/
theorem arrayArrayTobytes_items (tc : Char) (k : Kind) (n : Nat) (hk : structKindSize tc = some (k, n))
    (itemsize : Nat) (vals : List Val) (bytes : List Nat) (h : arrayArrayTobytes tc itemsize vals = .ok bytes) :
    ∃ items : List (List Nat), bytes = items.flatten ∧
      List.Forall₂ (fun v x => Struct.pack1 ⟨k, itemsize, nativeOrder⟩ v = .ok x) vals items := by
  induction vals generalizing bytes with
  | nil => simp only [arrayArrayTobytes] at h; injection h with h; exact ⟨[], by simp [← h], List.Forall₂.nil⟩
  | cons v vs ih =>
    simp only [arrayArrayTobytes, hk] at h
    cases hp : Struct.pack1 ⟨k, itemsize, nativeOrder⟩ v with
    | error err => simp [hp] at h
    | ok x =>
      cases hr : arrayArrayTobytes tc itemsize vs with
      | error err => simp [hp, hr, Except.map] at h
      | ok r =>
        simp only [hp, hr, Except.map] at h
        injection h with h
        obtain ⟨items, hi, hf⟩ := ih r hr
        exact ⟨x :: items, by simp [← h, hi], List.Forall₂.cons hp hf⟩

/-- Reading the items appended after `pre`. -/
theorem arrayToListAux_new (s : Spec) (hpos : 0 < s.size)
    (hf : s.kind = .float → (s.size = 2 ∨ s.size = 4 ∨ s.size = 8)) (vals : List Val) (items : List (List Nat))
    (h : List.Forall₂ (fun v x => Struct.pack1 s v = .ok x) vals items)
    (hfin : ∀ v ∈ vals, s.kind = .float → ∀ p, v = .flt p → Struct.isNaN s.size p = false) (pre : Bits) :
    arrayToListAux (nativeDtype s) (pre ++ bitsOfBytes items.flatten) vals.length pre.length = .ok vals := by
  induction h generalizing pre with
  | nil => simp [arrayToListAux]
  | @cons v x vs xs hp _ ih =>
    obtain ⟨l1, b1⟩ := pack1_length s hpos v x hp
    have hu := unpack1_pack1 s hpos v x hp (hfin v List.mem_cons_self)
    have hlen : (nativeDtype s).length = 8 * s.size := rfl
    simp only [List.length_cons, arrayToListAux, hlen, List.flatten_cons, bitsOfBytes_append, List.length_append,
      bitsOfBytes_length, l1]
    rw [if_pos (by omega)]
    simp only [readFn, hlen, List.length_append, bitsOfBytes_length, l1]
    rw [if_neg (by omega)]
    have hitem : ((pre ++ (bitsOfBytes x ++ bitsOfBytes xs.flatten)).drop pre.length).take (8 * s.size)
        = bitsOfBytes x := by
      rw [List.drop_left' rfl, List.take_left' (by simp [l1])]
    rw [hitem, getFn_nativeDtype s hpos hf x l1 b1, hu]
    have hrec := ih (fun w hw => hfin w (List.mem_cons_of_mem _ hw)) (pre ++ bitsOfBytes x)
    have e1 : pre ++ (bitsOfBytes x ++ bitsOfBytes xs.flatten) = pre ++ bitsOfBytes x ++ bitsOfBytes xs.flatten := by
      simp [List.append_assoc]
    have e2 : pre.length + 8 * s.size = (pre ++ bitsOfBytes x).length := by simp [l1]
    rw [e1, e2, hrec]

/-- Items that lie entirely inside `data` read the same after something is appended. -/
theorem readFn_append (d : DType) (data new : Bits) (start : Nat) (h : start + d.length ≤ data.length) :
    readFn d (data ++ new) start = readFn d data start := by
  simp only [readFn, List.length_append]
  rw [if_neg (by omega), if_neg (by omega)]
  congr 1
  rw [List.drop_append_of_le_length (by omega), List.take_append_of_le_length (by simp; omega)]

theorem arrayToListAux_old (d : DType) (hL : 0 < d.length) (data new : Bits) (j : Nat) (b : List Val)
    (hb : arrayToListAux d (data ++ new) j data.length = .ok b) (m start : Nat) (a : List Val)
    (hs : start + m * d.length = data.length) (ha : arrayToListAux d data m start = .ok a) :
    arrayToListAux d (data ++ new) (m + j) start = .ok (a ++ b) := by
  induction m generalizing start a with
  | zero =>
    simp only [arrayToListAux] at ha
    injection ha with ha
    have : start = data.length := by omega
    subst this; subst ha
    simpa using hb
  | succ m ih =>
    have hle : start + d.length ≤ data.length := by
      rw [Nat.succ_mul] at hs; omega
    rw [Nat.succ_add]
    simp only [arrayToListAux, List.length_append] at ha ⊢
    rw [if_pos hle] at ha
    rw [if_pos (by omega), readFn_append d data new start hle]
    cases hr : readFn d data start with
    | error err => simp [hr] at ha
    | ok v =>
      cases hrest : arrayToListAux d data m (start + d.length) with
      | error err => simp [hr, hrest] at ha
      | ok r =>
        simp only [hr, hrest] at ha
        injection ha with ha
        subst ha
        rw [ih (start + d.length) r (by rw [Nat.succ_mul] at hs; omega) hrest]
        rfl

theorem array_extend_reads_back' (d : DType) (tc : Char) (itemsize : Nat) (data data' : Bits)
    (old vals : List Val) (hok : itemsizeOK tc itemsize = true)
    (hold : arrayToList d data = .ok old)
    (hfin : ∀ v ∈ vals, ∀ p, v = .flt p → Struct.isNaN itemsize p = false)
    (h : arrayExtend d data tc itemsize vals = .ok data') :
    arrayToList d data' = .ok (old ++ vals) := by
  unfold arrayExtend at h
  split at h
  · cases h
  · rename_i hL0
    split at h
    · cases h
    · rename_i hmod
      split at h
      · cases h
      · rename_i hacc
        split at h
        · cases h
        · rename_i bytes hbytes
          injection h with h
          subst h
          simp only [Bool.not_eq_true, Bool.not_eq_false'] at hacc
          simp only [ne_eq, Decidable.not_not] at hmod
          obtain ⟨k, n, hk, hd⟩ := (array_accept_iff' d tc itemsize hok).mp (by simpa using hacc)
          subst hd
          obtain ⟨_, hf, hpos⟩ := itemsizeOK_facts tc itemsize k n hk hok
          obtain ⟨items, hflat, hitems⟩ := arrayArrayTobytes_items tc k n hk itemsize vals bytes hbytes
          generalize hs : (⟨k, itemsize, nativeOrder⟩ : Spec) = s at *
          have hsk : s.kind = k := by rw [← hs]
          have hss : s.size = itemsize := by rw [← hs]
          have hpos' : 0 < s.size := by rw [hss]; exact hpos
          have hf' : s.kind = .float → (s.size = 2 ∨ s.size = 4 ∨ s.size = 8) := by rw [hsk, hss]; exact hf
          have hfin' : ∀ v ∈ vals, s.kind = .float → ∀ p, v = .flt p → Struct.isNaN s.size p = false := by
            intro v hv _ p hp; rw [hss]; exact hfin v hv p hp
          have hnew := arrayToListAux_new s hpos' hf' vals items hitems hfin' data
          have hLpos : 0 < (nativeDtype s).length := by show 0 < 8 * s.size; omega
          have hlenL : (nativeDtype s).length = 8 * s.size := rfl
          unfold arrayToList at hold ⊢
          rw [if_neg (by omega)] at hold ⊢
          have hbl : (bitsOfBytes bytes).length = vals.length * (nativeDtype s).length := by
            rw [hflat, bitsOfBytes_length, hlenL]
            have : items.flatten.length = vals.length * s.size := by
              clear hnew hflat hbytes
              induction hitems with
              | nil => simp
              | @cons v x vs xs hp _ ih =>
                have := (pack1_length s hpos' v x hp).1
                simp only [List.flatten_cons, List.length_append, List.length_cons, this,
                  ih (fun w hw => hfin w (List.mem_cons_of_mem _ hw))
                    (fun w hw => hfin' w (List.mem_cons_of_mem _ hw))]
                rw [Nat.succ_mul]; omega
            rw [this, Nat.mul_comm 8 (vals.length * s.size), Nat.mul_assoc, Nat.mul_comm s.size 8]
          have hcount : (data ++ bitsOfBytes bytes).length / (nativeDtype s).length
              = data.length / (nativeDtype s).length + vals.length := by
            rw [List.length_append, hbl, Nat.add_mul_div_right _ _ hLpos]
          rw [hcount]
          rw [hflat] at *
          exact arrayToListAux_old (nativeDtype s) hLpos data _ vals.length vals hnew
            (data.length / (nativeDtype s).length) 0 old
            (by rw [Nat.zero_add]; exact Nat.div_mul_cancel (Nat.dvd_of_mod_eq_zero hmod)) hold

end BM.C18
