/-
  Proofs/C18Array.lean — helper lemmas for Props/C18_Array.lean.
-/
import BitstringModel.Model.C18
import BitstringModel.Proofs.C18
import BitstringModel.Props.C18
import BitstringModel.Proofs.C18Swap
import BitstringModel.Props.C18_Byteswap
import BitstringModel.Props.C18_Pack

namespace BM.C18
open BM

end BM.C18
