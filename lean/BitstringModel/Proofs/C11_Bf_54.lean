/- Kernel obligation: `bfChk` (Proofs/C11_NumDefs.lean) on the 16-bit patterns 0xd800..0xdbff. -/
import BitstringModel.Proofs.C11_NumDefs
namespace BM.C11
theorem bfChunk_54 : bfChunkOk 54 = true := by decide +kernel
end BM.C11
