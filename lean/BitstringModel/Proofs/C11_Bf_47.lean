/- Kernel obligation: `bfChk` (Proofs/C11_NumDefs.lean) on the 16-bit patterns 0xbc00..0xbfff. -/
import BitstringModel.Proofs.C11_NumDefs
namespace BM.C11
theorem bfChunk_47 : bfChunkOk 47 = true := by decide +kernel
end BM.C11
