/- Kernel obligation: `bfChk` (Proofs/C11_NumDefs.lean) on the 16-bit patterns 0xfc00..0xffff. -/
import BitstringModel.Proofs.C11_NumDefs
namespace BM.C11
theorem bfChunk_63 : bfChunkOk 63 = true := by decide +kernel
end BM.C11
