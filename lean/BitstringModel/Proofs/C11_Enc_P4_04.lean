/- Kernel obligation: entries 0x4000..0x4fff of the live float16->code table `Gen.encP4` pass `encChk`
   (one sixteenth of the table per file so that lake checks them in parallel; assembled in Proofs/C11_Tables.lean). -/
import BitstringModel.Model.C11
namespace BM.C11
theorem encChunk_P4_04 : encChunkOk .p4 4 = true := by decide +kernel
end BM.C11
