/- Kernel obligation: `bfChk` (Proofs/C11_NumDefs.lean) on the 16-bit patterns 0x2000..0x2fff. -/
import BitstringModel.Proofs.C11_NumDefs
namespace BM.C11
theorem bfChunk_02 : bfChunkOk 2 = true := by decide +kernel
end BM.C11
