/- Kernel obligation: `bfChk` (Proofs/C11_NumDefs.lean) on the 16-bit patterns 0x0800..0x0bff. -/
import BitstringModel.Proofs.C11_NumDefs
namespace BM.C11
theorem bfChunk_02 : bfChunkOk 2 = true := by decide +kernel
end BM.C11
