/- Kernel obligation: `bfChk` (Proofs/C11_NumDefs.lean) on the 16-bit patterns 0x7000..0x73ff. -/
import BitstringModel.Proofs.C11_NumDefs
namespace BM.C11
theorem bfChunk_28 : bfChunkOk 28 = true := by decide +kernel
end BM.C11
