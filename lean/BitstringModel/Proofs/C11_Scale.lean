/-
  Proofs/C11_Scale.lean — a power-of-two Dtype scale only shifts the exponent: `value * 2^k` and `value / 2^k` are exact
  in the float model whenever the result stays in the float64 range (Proofs/C11_Ieee.lean), for every code / value.
-/
import BitstringModel.Model.C11
import BitstringModel.Proofs.C11_Ieee

namespace BM.C11
open BM

/-- `2.0 ** k` really is `2^k`. -/
theorem pow2F64_val (k : Int) (hlo : -1022 ≤ k) (hhi : k ≤ 1023) : f64Val (pow2F64 k) = .fin false 1 k := by
  unfold pow2F64
  have h := f64Val_of_fields false (k + 1022).toNat (2 ^ 52) (by omega) (by decide) (fun h => absurd h (by decide))
  have e1 : (k + 1023).toNat * 2 ^ 52 = (k + 1022).toNat * 2 ^ 52 + 2 ^ 52 := by
    have : (k + 1023).toNat = (k + 1022).toNat + 1 := by omega
    rw [this, Nat.add_mul, Nat.one_mul]
  rw [e1]
  simp only [Bool.false_eq_true, if_false, Nat.zero_add] at h
  rw [h]
  have := mk_pow2 false 1 52 (((k + 1022).toNat : Int) - 1074) (by decide)
  rw [Nat.one_mul] at this
  rw [this]
  congr 1
  omega

/-- A scale that is a power of two is not zero. -/
theorem scale_pow2_nonzero (sc : Scale) (k : Int) (hk : f64Val sc.toF64 = .fin false 1 k) : sc.isZero = false := by
  cases sc with
  | int i =>
    simp only [Scale.isZero, Scale.toF64] at hk ⊢
    cases hi : (i == 0)
    · rfl
    · have : i = 0 := by simpa using hi
      subst this
      have z : f64Val (f64OfInt 0) = .fin false 0 0 := by decide +kernel
      rw [z] at hk; cases hk
  | flt b =>
    simp only [Scale.isZero, Scale.toF64] at hk ⊢
    unfold f64Eq
    rw [hk, f64Val_zero']
    simp only [FVal.cmp, sgnMant, Bool.false_eq_true, if_false, Nat.one_mul, Nat.zero_mul]
    have : (0 : Int) < ((2 ^ (k - if k ≤ 0 then k else 0).toNat : Nat) : Int) := by
      have := Nat.two_pow_pos (k - if k ≤ 0 then k else 0).toNat; omega
    generalize ((2 ^ (k - if k ≤ 0 then k else 0).toNat : Nat) : Int) = a at *
    have h1 : ¬ (a < 0) := by omega
    have h2 : ¬ (a = 0) := by omega
    simp [h1, h2]

/-- `scaled_pow2_exact`, decode direction: for every name and code whose decoded value is the finite non-zero
    `(−1)^s·m·2^e`, a scale equal to `2^k` gives exactly `(−1)^s·m·2^(e+k)` as long as that is a float64
    (exponent between the subnormal limit and the overflow limit). -/
theorem scaledDecode_pow2_exact (n : Name) (sc : Scale) (k : Int) (hk : f64Val sc.toF64 = .fin false 1 k)
    (c v : Nat) (hv : decode n c = .ok v) (s : Bool) (m : Nat) (e : Int) (hval : f64Val v = .fin s m e) (hm : m ≠ 0)
    (hlo : -1074 ≤ e + k) (hhi : (ilog2 m : Int) + (e + k) ≤ 1023) :
    ∃ w, scaledDecode n sc c = .ok w ∧ f64Val w = .fin s m (e + k) := by
  refine ⟨f64Mul v sc.toF64, ?_, f64Mul_pow2_exact v sc.toF64 s m e k hval hm hk hlo hhi⟩
  unfold scaledDecode
  rw [scale_pow2_nonzero sc k hk, hv]
  rfl

/-- float64 division by a power of two is exact while the quotient stays in range. -/
theorem f64Div_pow2_exact (f p : Nat) (s : Bool) (m : Nat) (e k : Int)
    (hf : f64Val f = .fin s m e) (hm : m ≠ 0) (hp : f64Val p = .fin false 1 k) (hlo : -1074 ≤ e - k)
    (hhi : (ilog2 m : Int) + (e - k) ≤ 1023) :
    ∃ q, f64Div f p = some q ∧ f64Val q = .fin s m (e - k) := by
  obtain ⟨hodd, h53, _, _⟩ := f64Val_fin_bounds f s m e hf hm
  refine ⟨f64OfDyadic s m (e - k), ?_, ?_⟩
  · unfold f64Div
    rw [hf, hp]
    simp only [Nat.one_ne_zero, if_false, Bool.bne_false]
    unfold f64OfDyadic dyadicNum dyadicDen
    by_cases hd : e - k ≥ 0
    · simp only [hd, if_true]
    · simp only [hd, if_false, Nat.one_mul]
  · rw [f64OfDyadic_exact s m (e - k) (by omega) h53 hlo hhi, mk_odd s m _ hodd]

/-- `scaled_pow2_exact`, encode direction: `Dtype(name, scale=2^k).build(x)` encodes exactly `x·2^(−k)`. -/
theorem scaledEncode_pow2_exact (n : Name) (mode : Mode) (sc : Scale) (k : Int)
    (hk : f64Val sc.toF64 = .fin false 1 k) (f : Nat) (s : Bool) (m : Nat) (e : Int)
    (hval : f64Val f = .fin s m e) (hm : m ≠ 0) (hlo : -1074 ≤ e - k) (hhi : (ilog2 m : Int) + (e - k) ≤ 1023) :
    ∃ q, f64Val q = .fin s m (e - k) ∧ scaledEncode n mode sc f = encode n mode q := by
  obtain ⟨q, hq, hqv⟩ := f64Div_pow2_exact f sc.toF64 s m e k hval hm hk hlo hhi
  refine ⟨q, hqv, ?_⟩
  unfold scaledEncode
  rw [scale_pow2_nonzero sc k hk, hq]
  rfl

end BM.C11
