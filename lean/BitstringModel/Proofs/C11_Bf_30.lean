/- Kernel obligation: `bfChk` (Proofs/C11_NumDefs.lean) on the 16-bit patterns 0x7800..0x7bff. -/
import BitstringModel.Proofs.C11_NumDefs
namespace BM.C11
theorem bfChunk_30 : bfChunkOk 30 = true := by decide +kernel
end BM.C11
