/-
  Proofs/C03Range.lean — helper lemmas for Props/C03_Range.lean (reverse, rol / ror, set, invert).
  Everything lives in the sub-namespace `BM.C03.Range`.
-/
import BitstringModel.Model.C03
import BitstringModel.Proofs.C03
import BitstringModel.Proofs.C03Core
import Mathlib.Tactic.Ring
import Mathlib.Tactic.Linarith
import Mathlib.Data.List.Basic
namespace BM.C03.Range
open BM BM.C03

theorem validateSlice_cases (n : Nat) (s e : Option Int) :
    (∃ a z, validateSlice n s e = .ok (a, z) ∧ a ≤ z ∧ z ≤ n) ∨ validateSlice n s e = .error .value := by
  cases h : validateSlice n s e with
  | ok p =>
    obtain ⟨a, z⟩ := p
    exact Or.inl ⟨a, z, rfl, validateSlice_ok h⟩
  | error err =>
    right
    unfold validateSlice at h
    simp only at h
    split at h
    · cases h
    · injection h with h; rw [h]

section sandwich
variable {α : Type}

theorem sw_length (l X : List α) (a z : Nat) (haz : a ≤ z) (hz : z ≤ l.length) (hX : X.length = z - a) :
    (l.take a ++ X ++ l.drop z).length = l.length := by
  simp; omega

theorem sw_outside (l X : List α) (a z : Nat) (haz : a ≤ z) (hz : z ≤ l.length) (hX : X.length = z - a)
    (i : Nat) (hi : i < a ∨ z ≤ i) : (l.take a ++ X ++ l.drop z)[i]? = l[i]? := by
  rcases hi with hi | hi
  · rw [List.append_assoc, List.getElem?_append_left (by simp; omega), List.getElem?_take, if_pos hi]
  · rw [List.getElem?_append_right (by simp; omega), List.getElem?_drop]
    congr 1
    simp
    omega

theorem sw_inside (l X : List α) (a z : Nat) (haz : a ≤ z) (hz : z ≤ l.length) (hX : X.length = z - a)
    (i : Nat) (h1 : a ≤ i) (h2 : i < z) : (l.take a ++ X ++ l.drop z)[i]? = X[i - a]? := by
  rw [List.getElem?_append_left (by simp; omega), List.getElem?_append_right (by simp; omega)]
  congr 1
  simp
  omega

theorem sw_take (l X : List α) (a z : Nat) (haz : a ≤ z) (hz : z ≤ l.length) :
    (l.take a ++ X ++ l.drop z).take a = l.take a := by
  rw [List.append_assoc, List.take_left' (by simp; omega)]

theorem sw_drop (l X : List α) (a z : Nat) (haz : a ≤ z) (hz : z ≤ l.length) (hX : X.length = z - a) :
    (l.take a ++ X ++ l.drop z).drop z = l.drop z := by
  rw [List.drop_left' (by simp; omega)]

theorem sw_slc (l X : List α) (a z : Nat) (haz : a ≤ z) (hz : z ≤ l.length) (hX : X.length = z - a) :
    slc (l.take a ++ X ++ l.drop z) a z = X := by
  unfold slc
  rw [List.append_assoc, List.drop_left' (by simp; omega), List.take_left' hX]

theorem slc_getElem? (l : List α) (a z t : Nat) (ht : t < z - a) : (slc l a z)[t]? = l[a + t]? := by
  unfold slc
  rw [List.getElem?_take, if_pos ht, List.getElem?_drop]

theorem rotl_length (mid : List α) (r : Nat) : (mid.drop r ++ mid.take r).length = mid.length := by
  simp; omega

theorem rotl_getElem? (mid : List α) (r : Nat) (hr : r ≤ mid.length) (j : Nat) (hj : j < mid.length) :
    (mid.drop r ++ mid.take r)[j]? = mid[(j + r) % mid.length]? := by
  by_cases h : j + r < mid.length
  · rw [Nat.mod_eq_of_lt h, List.getElem?_append_left (by simp; omega), List.getElem?_drop]
    congr 1; omega
  · have e : (j + r) % mid.length = j + r - mid.length := by
      rw [Nat.mod_eq_sub_mod (by omega), Nat.mod_eq_of_lt (by omega)]
    rw [e, List.getElem?_append_right (by simp; omega), List.getElem?_take, if_pos (by simp; omega)]
    congr 1; simp; omega

theorem rotr_getElem? (mid : List α) (r : Nat) (hr : r ≤ mid.length) (j : Nat) (hj : j < mid.length) :
    (mid.drop (mid.length - r) ++ mid.take (mid.length - r))[(j + r) % mid.length]? = mid[j]? := by
  by_cases h : j + r < mid.length
  · rw [Nat.mod_eq_of_lt h, List.getElem?_append_right (by simp; omega), List.getElem?_take,
      if_pos (by simp; omega)]
    congr 1; simp; omega
  · have e : (j + r) % mid.length = j + r - mid.length := by
      rw [Nat.mod_eq_sub_mod (by omega), Nat.mod_eq_of_lt (by omega)]
    rw [e, List.getElem?_append_left (by simp; omega), List.getElem?_drop]
    congr 1; omega

theorem rotl_rotr (mid : List α) (r : Nat) :
    (mid.drop r ++ mid.take r).drop (mid.length - r) ++ (mid.drop r ++ mid.take r).take (mid.length - r) = mid := by
  rw [List.drop_left' (by simp), List.take_left' (by simp), List.take_append_drop]

theorem rotr_rotl (mid : List α) (r : Nat) (hr : r ≤ mid.length) :
    (mid.drop (mid.length - r) ++ mid.take (mid.length - r)).drop r ++
      (mid.drop (mid.length - r) ++ mid.take (mid.length - r)).take r = mid := by
  rw [List.drop_left' (by simp; omega), List.take_left' (by simp; omega), List.take_append_drop]

theorem add_mod_toNat (j k m : Nat) : (j + k) % m = (j + k % m) % m := by
  rw [Nat.add_mod, Nat.add_mod j (k % m), Nat.mod_mod]

/-- list algebra of `_rol_msb0` -/
theorem rol_list (l : List α) (a z r : Nat) (haz : a ≤ z) (hz : z ≤ l.length) (hr : r ≤ z - a) :
    (l.take a ++ l.drop (a + r)).take (z - r) ++ slc l a (a + r) ++ (l.take a ++ l.drop (a + r)).drop (z - r) =
      l.take a ++ ((slc l a z).drop r ++ (slc l a z).take r) ++ l.drop z := by
  apply List.ext_getElem?
  intro i
  simp only [slc, List.getElem?_append, List.getElem?_take, List.getElem?_drop, List.length_append,
    List.length_take, List.length_drop]
  grind

theorem ror_list (l : List α) (a z r : Nat) (haz : a ≤ z) (hz : z ≤ l.length) (hr : r ≤ z - a) :
    (l.take (z - r) ++ l.drop (z - r + r)).take a ++ slc l (z - r) z ++ (l.take (z - r) ++ l.drop (z - r + r)).drop a =
      l.take a ++ ((slc l a z).drop (z - a - r) ++ (slc l a z).take (z - a - r)) ++ l.drop z := by
  apply List.ext_getElem?
  intro i
  simp only [slc, List.getElem?_append, List.getElem?_take, List.getElem?_drop, List.length_append,
    List.length_take, List.length_drop]
  grind

end sandwich

/-! ### reverse, rol, ror -/

theorem spec_reverse_ok (l : Bits) (s e : Option Int) (a z : Nat) (hv : validateSlice l.length s e = .ok (a, z)) :
    Spec.reverse l s e = .ok (l.take a ++ (slc l a z).reverse ++ l.drop z) := by
  unfold Spec.reverse; rw [hv]

theorem spec_reverse_err (l : Bits) (s e : Option Int) (hv : validateSlice l.length s e = .error .value) :
    Spec.reverse l s e = .error .value := by
  unfold Spec.reverse; rw [hv]

theorem alg_reverse_eq (l : Bits) (s e : Option Int) : Alg.reverse l s e = Spec.reverse l s e := by
  rcases validateSlice_cases l.length s e with ⟨a, z, hv, haz, hz⟩ | hv
  · rw [spec_reverse_ok l s e a z hv]
    unfold Alg.reverse
    rw [hv]
    simp only
    split
    · rename_i h
      obtain ⟨rfl, rfl⟩ := h
      simp [slc]
    · rw [setSlice_nonneg _ _ a z haz hz]
      rfl
  · rw [spec_reverse_err l s e hv]
    unfold Alg.reverse
    rw [hv]

theorem spec_rol_ok (l : Bits) (k : Int) (s e : Option Int) (a z : Nat) (hl : l ≠ []) (hk : 0 ≤ k)
    (hv : validateSlice l.length s e = .ok (a, z)) :
    Spec.rol l k s e = .ok (l.take a ++ ((slc l a z).drop (k.toNat % (z - a)) ++ (slc l a z).take (k.toNat % (z - a))) ++ l.drop z) := by
  unfold Spec.rol
  rw [if_neg (by simpa using hl), if_neg (by omega), hv]

theorem spec_ror_ok (l : Bits) (k : Int) (s e : Option Int) (a z : Nat) (hl : l ≠ []) (hk : 0 ≤ k)
    (hv : validateSlice l.length s e = .ok (a, z)) :
    Spec.ror l k s e = .ok (l.take a ++ ((slc l a z).drop (z - a - k.toNat % (z - a)) ++
      (slc l a z).take (z - a - k.toNat % (z - a))) ++ l.drop z) := by
  unfold Spec.ror
  rw [if_neg (by simpa using hl), if_neg (by omega), hv]

/-- Inversion: a successful rotation has a non-empty bitstring, a non-negative amount and a valid range. -/
theorem spec_rol_inv {l r : Bits} {k : Int} {s e : Option Int} (h : Spec.rol l k s e = .ok r) :
    l ≠ [] ∧ 0 ≤ k ∧ ∃ a z, validateSlice l.length s e = .ok (a, z) ∧ a ≤ z ∧ z ≤ l.length := by
  unfold Spec.rol at h
  split at h
  · cases h
  split at h
  · cases h
  rename_i h1 h2
  rcases validateSlice_cases l.length s e with ⟨a, z, hv, haz, hz⟩ | hv
  · exact ⟨by intro h0; apply h1; simp [h0], by omega, a, z, hv, haz, hz⟩
  · rw [hv] at h; cases h

theorem spec_ror_inv {l r : Bits} {k : Int} {s e : Option Int} (h : Spec.ror l k s e = .ok r) :
    l ≠ [] ∧ 0 ≤ k ∧ ∃ a z, validateSlice l.length s e = .ok (a, z) ∧ a ≤ z ∧ z ≤ l.length := by
  unfold Spec.ror at h
  split at h
  · cases h
  split at h
  · cases h
  rename_i h1 h2
  rcases validateSlice_cases l.length s e with ⟨a, z, hv, haz, hz⟩ | hv
  · exact ⟨by intro h0; apply h1; simp [h0], by omega, a, z, hv, haz, hz⟩
  · rw [hv] at h; cases h

theorem alg_delete (l : Bits) (r a : Nat) (h : a + r ≤ l.length) :
    Alg._delete l r a = .ok (l.take a ++ l.drop (a + r)) := by
  unfold Alg._delete
  rw [← Int.natCast_add, delSlice_nonneg l a (a + r) (by omega) h]

theorem alg_insert (l b : Bits) (p : Nat) (h : p ≤ l.length) :
    Alg._insert l b p = .ok (l.take p ++ b ++ l.drop p) := by
  unfold Alg._insert
  rw [setSlice_nonneg l b p p (le_refl _) h]
  rfl

theorem alg_rol_eq (l : Bits) (k : Int) (s e : Option Int) :
    Alg.rol l k s e = Spec.rol l k s e := by
  unfold Alg.rol Spec.rol
  split
  · rfl
  split
  · rfl
  rename_i h1 h2
  unfold Alg._rol
  rcases validateSlice_cases l.length s e with ⟨a, z, hv, haz, hz⟩ | hv
  · rw [hv]
    simp only
    by_cases hne : z - a = 0
    · rw [if_pos hne]
      have haz' : a = z := by omega
      subst haz'
      simp only [slc_self, List.drop_nil, List.take_nil, List.append_nil]
      rw [List.take_append_drop]
    rw [if_neg hne]
    have hr : k.toNat % (z - a) < z - a := Nat.mod_lt _ (by omega)
    generalize k.toNat % (z - a) = r at hr
    split
    · rename_i h0
      subst h0
      simp only [List.drop_zero, List.take_zero, List.append_nil]
      rw [take_slc_drop l a z haz]
    · rw [alg_delete l r a (by omega)]
      simp only
      rw [alg_insert _ _ _ (by simp; omega)]
      rw [rol_list l a z r haz hz (by omega)]
  · rw [hv]

theorem alg_ror_eq (l : Bits) (k : Int) (s e : Option Int) :
    Alg.ror l k s e = Spec.ror l k s e := by
  unfold Alg.ror Spec.ror
  split
  · rfl
  split
  · rfl
  rename_i h1 h2
  unfold Alg._ror
  rcases validateSlice_cases l.length s e with ⟨a, z, hv, haz, hz⟩ | hv
  · rw [hv]
    simp only
    by_cases hne : z - a = 0
    · rw [if_pos hne]
      have haz' : a = z := by omega
      subst haz'
      simp only [slc_self, List.drop_nil, List.take_nil, List.append_nil]
      rw [List.take_append_drop]
    rw [if_neg hne]
    have hr : k.toNat % (z - a) < z - a := Nat.mod_lt _ (by omega)
    generalize k.toNat % (z - a) = r at hr
    split
    · rename_i h0
      subst h0
      have hm : (slc l a z).length = z - a := slc_length_of_le l a z hz
      simp only [Nat.sub_zero]
      rw [List.drop_of_length_le (l := slc l a z) (by omega), List.take_of_length_le (l := slc l a z) (by omega),
        List.nil_append, take_slc_drop l a z haz]
    · rw [alg_delete l r (z - r) (by omega)]
      simp only
      rw [alg_insert _ _ _ (by simp; omega)]
      rw [ror_list l a z r haz hz (by omega)]
  · rw [hv]


/-! ### `applyPrefix` -/

/-- One step of the fold inside `Spec.applyPrefix`. -/
def step (n : Nat) (f : Bits → Nat → Bits) (acc : Bits) (p : Int) : Bits :=
  match PyL.normIdx n p with
  | some j => f acc j
  | none => acc

theorem step_some {n : Nat} {f : Bits → Nat → Bits} {acc : Bits} {p : Int} {j : Nat} (h : PyL.normIdx n p = some j) :
    step n f acc p = f acc j := by
  unfold step; rw [h]

theorem step_none {n : Nat} {f : Bits → Nat → Bits} {acc : Bits} {p : Int} (h : PyL.normIdx n p = none) :
    step n f acc p = acc := by
  unfold step; rw [h]

/-- The outcome of "apply the longest valid prefix" for a store of length `n`. -/
def prefixOutcome (n : Nat) (f : Bits → Nat → Bits) (l : Bits) (ps : List Int) : Outcome :=
  ⟨if (ps.takeWhile fun p => (PyL.normIdx n p).isSome).length = ps.length then .ok .none else .error .index,
   (ps.takeWhile fun p => (PyL.normIdx n p).isSome).foldl (step n f) l⟩

theorem applyPrefix_eq (f : Bits → Nat → Bits) (l : Bits) (ps : List Int) :
    Spec.applyPrefix f l ps = prefixOutcome l.length f l ps := rfl

theorem prefixOutcome_nil (n : Nat) (f : Bits → Nat → Bits) (l : Bits) :
    prefixOutcome n f l [] = ⟨.ok .none, l⟩ := by
  simp [prefixOutcome]

theorem prefixOutcome_cons_none (n : Nat) (f : Bits → Nat → Bits) (l : Bits) (p : Int) (ps : List Int)
    (h : PyL.normIdx n p = none) : prefixOutcome n f l (p :: ps) = ⟨.error .index, l⟩ := by
  simp [prefixOutcome, h]

theorem prefixOutcome_cons_some (n : Nat) (f : Bits → Nat → Bits) (l : Bits) (p : Int) (ps : List Int) (j : Nat)
    (h : PyL.normIdx n p = some j) : prefixOutcome n f l (p :: ps) = prefixOutcome n f (f l j) ps := by
  simp [prefixOutcome, h, step_some h]

theorem setLoop_eq (v : Bool) (n : Nat) (ps : List Int) (l : Bits) (hl : l.length = n) :
    Alg.setLoop v l ps = prefixOutcome n (fun acc j => acc.set j v) l ps := by
  induction ps generalizing l with
  | nil => rw [prefixOutcome_nil]; rfl
  | cons p ps ih =>
    unfold Alg.setLoop PyL.setIndex
    rw [hl]
    cases h : PyL.normIdx n p with
    | none => rw [prefixOutcome_cons_none _ _ _ _ _ h]
    | some j =>
      rw [prefixOutcome_cons_some _ _ _ _ _ j h]
      exact ih _ (by rw [List.length_set, hl])

theorem invertLoop_eq (n : Nat) (ps : List Int) (l : Bits) :
    Alg.invertLoop n l ps = prefixOutcome n (fun acc j => acc.modify j (!·)) l ps := by
  induction ps generalizing l with
  | nil => rw [prefixOutcome_nil]; rfl
  | cons p ps ih =>
    unfold Alg.invertLoop
    simp only
    by_cases hc : 0 ≤ (if p < 0 then p + (n : Int) else p) ∧ (if p < 0 then p + (n : Int) else p) < (n : Int)
    · rw [if_neg (not_not_intro hc)]
      have h : PyL.normIdx n p = some (if p < 0 then p + (n : Int) else p).toNat := by
        rw [Core.normIdx_some_iff']
        split at hc <;> omega
      rw [prefixOutcome_cons_some _ _ _ _ _ _ h]
      exact ih _
    · rw [if_pos hc]
      have h : PyL.normIdx n p = none := by
        rw [Core.normIdx_none_iff']
        split at hc <;> omega
      rw [prefixOutcome_cons_none _ _ _ _ _ h]

theorem takeWhile_valid_eq_self {n : Nat} {ps : List Int} (h : ∀ p ∈ ps, PyL.normIdx n p ≠ none) :
    (ps.takeWhile fun p => (PyL.normIdx n p).isSome) = ps := by
  induction ps with
  | nil => rfl
  | cons p ps ih =>
    have h0 := h p List.mem_cons_self
    cases hh : PyL.normIdx n p with
    | none => exact absurd hh h0
    | some j =>
      rw [List.takeWhile_cons, hh]
      simp only [Option.isSome_some, if_true]
      rw [ih (fun q hq => h q (List.mem_cons_of_mem _ hq))]

theorem prefixOutcome_ret_ok_iff (n : Nat) (f : Bits → Nat → Bits) (l : Bits) (ps : List Int) :
    (prefixOutcome n f l ps).ret = .ok .none ↔ ∀ p ∈ ps, PyL.normIdx n p ≠ none := by
  induction ps generalizing l with
  | nil => simp [prefixOutcome_nil]
  | cons p ps ih =>
    cases h : PyL.normIdx n p with
    | none =>
      rw [prefixOutcome_cons_none _ _ _ _ _ h]
      simp [h]
    | some j =>
      rw [prefixOutcome_cons_some _ _ _ _ _ j h, ih]
      simp [h]

theorem prefixOutcome_ret_cases (n : Nat) (f : Bits → Nat → Bits) (l : Bits) (ps : List Int) :
    (prefixOutcome n f l ps).ret = .ok .none ∨ (prefixOutcome n f l ps).ret = .error .index := by
  unfold prefixOutcome
  simp only
  split
  · exact Or.inl rfl
  · exact Or.inr rfl

theorem foldl_step_valid (n : Nat) (f : Bits → Nat → Bits) (ps : List Int) (l : Bits)
    (h : ∀ p ∈ ps, PyL.normIdx n p ≠ none) :
    ps.foldl (step n f) l = (ps.filterMap (PyL.normIdx n)).foldl f l := by
  induction ps generalizing l with
  | nil => rfl
  | cons p ps ih =>
    cases hh : PyL.normIdx n p with
    | none => exact absurd hh (h p List.mem_cons_self)
    | some j =>
      rw [List.foldl_cons, List.filterMap_cons_some hh, List.foldl_cons, step_some hh]
      exact ih _ (fun q hq => h q (List.mem_cons_of_mem _ hq))

theorem prefixOutcome_valid (n : Nat) (f : Bits → Nat → Bits) (l : Bits) (ps : List Int)
    (h : ∀ p ∈ ps, PyL.normIdx n p ≠ none) :
    prefixOutcome n f l ps = ⟨.ok .none, (ps.filterMap (PyL.normIdx n)).foldl f l⟩ := by
  unfold prefixOutcome
  rw [takeWhile_valid_eq_self h, foldl_step_valid n f ps l h]
  simp

theorem prefixOutcome_length (n : Nat) (f : Bits → Nat → Bits) (hf : ∀ acc j, (f acc j).length = acc.length)
    (l : Bits) (ps : List Int) : (prefixOutcome n f l ps).bits.length = l.length := by
  induction ps generalizing l with
  | nil => simp [prefixOutcome_nil]
  | cons p ps ih =>
    cases h : PyL.normIdx n p with
    | none => rw [prefixOutcome_cons_none _ _ _ _ _ h]
    | some j => rw [prefixOutcome_cons_some _ _ _ _ _ j h, ih, hf]

theorem prefixOutcome_frame (n : Nat) (f : Bits → Nat → Bits)
    (hf : ∀ acc j i, i ≠ j → (f acc j)[i]? = acc[i]?)
    (l : Bits) (ps : List Int) (i : Nat) (hi : i ∉ ps.filterMap (PyL.normIdx n)) :
    (prefixOutcome n f l ps).bits[i]? = l[i]? := by
  induction ps generalizing l with
  | nil => simp [prefixOutcome_nil]
  | cons p ps ih =>
    cases h : PyL.normIdx n p with
    | none => rw [prefixOutcome_cons_none _ _ _ _ _ h]
    | some j =>
      rw [List.filterMap_cons_some h, List.mem_cons, not_or] at hi
      rw [prefixOutcome_cons_some _ _ _ _ _ j h, ih _ hi.2, hf _ _ _ hi.1]

theorem prefixOutcome_partial (n : Nat) (f : Bits → Nat → Bits) (l : Bits) (ps : List Int) (j : Nat)
    (hj : j < ps.length)
    (hvalid : ∀ k (hk : k < j), PyL.normIdx n (ps[k]'(by omega)) ≠ none)
    (hbad : PyL.normIdx n ps[j] = none) :
    prefixOutcome n f l ps = ⟨.error .index, (prefixOutcome n f l (ps.take j)).bits⟩ ∧
    (prefixOutcome n f l (ps.take j)).ret = .ok .none := by
  induction ps generalizing l j with
  | nil => simp at hj
  | cons p ps ih =>
    cases j with
    | zero =>
      simp only [List.getElem_cons_zero] at hbad
      rw [prefixOutcome_cons_none _ _ _ _ _ hbad, List.take_zero, prefixOutcome_nil]
      exact ⟨rfl, rfl⟩
    | succ j =>
      have h0 := hvalid 0 (by omega)
      simp only [List.getElem_cons_zero] at h0
      cases h : PyL.normIdx n p with
      | none => exact absurd h h0
      | some q =>
        rw [List.take_succ_cons, prefixOutcome_cons_some _ _ _ _ _ q h, prefixOutcome_cons_some _ _ _ _ _ q h]
        apply ih _ j (by simpa using hj)
        · intro k hk
          have := hvalid (k + 1) (by omega)
          simpa using this
        · simpa using hbad


theorem natToBits_zero (n : Nat) : natToBits n 0 = List.replicate n false := by
  induction n with
  | zero => rfl
  | succ n ih =>
    rw [natToBits, Nat.zero_div, ih, List.replicate_succ']
    simp

theorem natToBits_ones (n : Nat) : natToBits n (2 ^ n - 1) = List.replicate n true := by
  induction n with
  | zero => rfl
  | succ n ih =>
    have hp : 0 < 2 ^ n := Nat.pow_pos (by omega)
    have h1 : (2 ^ (n + 1) - 1) / 2 = 2 ^ n - 1 := by rw [Nat.pow_succ]; omega
    have h2 : (2 ^ (n + 1) - 1) % 2 = 1 := by rw [Nat.pow_succ]; omega
    rw [natToBits, h1, h2, ih, List.replicate_succ']
    simp

theorem intToBits_zero (n : Nat) : intToBits n 0 = List.replicate n false := by
  unfold intToBits
  rw [Int.zero_emod, Int.toNat_zero, natToBits_zero]

theorem intToBits_neg_one (n : Nat) : intToBits n (-1) = List.replicate n true := by
  unfold intToBits
  have hp : (0 : Int) < (2 : Int) ^ n := by positivity
  have h : (-1 : Int) % (2 : Int) ^ n = (2 : Int) ^ n - 1 := by
    rw [← Int.add_mul_emod_self_left (-1) ((2 : Int) ^ n) 1, Int.mul_one]
    exact Int.emod_eq_of_lt (by omega) (by omega)
  rw [h]
  have h2 : ((2 : Int) ^ n - 1).toNat = 2 ^ n - 1 := by
    have : (2 : Int) ^ n = ((2 ^ n : Nat) : Int) := by push_cast; rfl
    rw [this]
    omega
  rw [h2, natToBits_ones]

theorem foldl_set_getElem? {α} (idx : List Nat) (x : α) (l : List α) (i : Nat) (hi : i < l.length) :
    (idx.foldl (fun acc i => acc.set i x) l)[i]? = if i ∈ idx then some x else l[i]? := by
  induction idx generalizing l with
  | nil => simp
  | cons j js ih =>
    rw [List.foldl_cons, ih _ (by rw [List.length_set]; exact hi)]
    by_cases hm : i ∈ js
    · simp [hm]
    · by_cases hji : j = i
      · subst hji
        simp [hm, List.getElem?_set_self hi]
      · have : ¬ i = j := fun h => hji h.symm
        simp [hm, this, List.getElem?_set_ne hji]

theorem foldl_modify_length {α} (idx : List Nat) (g : α → α) (l : List α) :
    (idx.foldl (fun acc i => acc.modify i g) l).length = l.length := by
  induction idx generalizing l with
  | nil => rfl
  | cons j js ih => rw [List.foldl_cons, ih, List.length_modify]

theorem foldl_modify_not_getElem? (idx : List Nat) (l : Bits) (i : Nat) :
    (idx.foldl (fun acc i => acc.modify i (!·)) l)[i]? =
      if idx.count i % 2 = 1 then l[i]?.map (!·) else l[i]? := by
  induction idx generalizing l with
  | nil => simp
  | cons j js ih =>
    rw [List.foldl_cons, ih, List.count_cons, List.getElem?_modify]
    by_cases hji : j = i
    · subst hji
      simp only [beq_self_eq_true, if_true]
      by_cases hc : List.count j js % 2 = 1
      · have : ¬ (List.count j js + 1) % 2 = 1 := by omega
        rw [if_pos hc, if_neg this]
        cases l[j]? <;> simp
      · have : (List.count j js + 1) % 2 = 1 := by omega
        rw [if_neg hc, if_pos this]
        rfl
    · have hb : (j == i) = false := by simpa using hji
      simp only [hb, hji, if_false, Bool.false_eq_true, Nat.add_zero]
      cases l[i]? <;> rfl


/-! ### the `range` fast path of `set` -/

theorem alg_set_range_zero (l : Bits) (v : Bool) (a b : Int) :
    Alg.set l v (.range a b 0) = ⟨.error .value, l⟩ := by
  simp [Alg.set]

theorem spec_set_range_zero (l : Bits) (v : Bool) (a b : Int) :
    Spec.set l v (.range a b 0) = ⟨.error .value, l⟩ := by
  simp [Spec.set, Spec.positions]

theorem spec_set_range (l : Bits) (v : Bool) (a b c : Int) (hc : c ≠ 0) :
    Spec.set l v (.range a b c) = prefixOutcome l.length (fun acc j => acc.set j v) l (Py.rangeList a b c) := by
  rw [← applyPrefix_eq]
  simp [Spec.set, Spec.positions, hc]

/-- The elements of a non-empty `range(a, b, c)`: first `a`, last `a + (m-1)·c`. -/
theorem rangeList_succ (a c : Int) (m : Nat) :
    ((List.range (m + 1)).map fun (k : Nat) => a + (k : Int) * c).head? = some a ∧
    ((List.range (m + 1)).map fun (k : Nat) => a + (k : Int) * c).getLast? = some (a + (m : Int) * c) := by
  constructor
  · rw [List.range_succ_eq_map]
    simp
  · rw [List.range_succ, List.map_append]
    simp

theorem between (a c : Int) (m k : Nat) (hk : k ≤ m) (n : Int)
    (h0 : 0 ≤ a ∧ a < n) (h1 : 0 ≤ a + (m : Int) * c ∧ a + (m : Int) * c < n) :
    0 ≤ a + (k : Int) * c ∧ a + (k : Int) * c < n := by
  by_cases hc : 0 ≤ c
  · have e1 : 0 ≤ (k : Int) * c := Int.mul_nonneg (by omega) hc
    have e2 : (k : Int) * c ≤ (m : Int) * c := Int.mul_le_mul_of_nonneg_right (by omega) hc
    omega
  · have hc' : 0 ≤ -c := by omega
    have e1 : 0 ≤ (k : Int) * (-c) := Int.mul_nonneg (by omega) hc'
    have e2 : (k : Int) * (-c) ≤ (m : Int) * (-c) := Int.mul_le_mul_of_nonneg_right (by omega) hc'
    have e3 : (k : Int) * (-c) = -((k : Int) * c) := by ring
    have e4 : (m : Int) * (-c) = -((m : Int) * c) := by ring
    omega

/-- The slice the fast path writes selects exactly the positions of the range. -/
theorem fast_positions (n : Nat) (a c : Int) (m : Nat) (hc : c ≠ 0)
    (h0 : 0 ≤ a ∧ a < (n : Int)) (h1 : 0 ≤ a + (m : Int) * c ∧ a + (m : Int) * c < (n : Int)) :
    PyL.slicePositions (some a)
      (if c > 0 then some (a + (m : Int) * c + 1) else if a + (m : Int) * c > 0 then some (a + (m : Int) * c - 1) else none)
      c n = (List.range (m + 1)).map fun (k : Nat) => (a + (k : Int) * c).toNat := by
  rw [Core.slicePositions_eq]
  by_cases hpos : c > 0
  · rw [if_pos hpos]
    have hsi : Py.sliceIndices (some a) (some (a + (m : Int) * c + 1)) c n = (a, a + (m : Int) * c + 1, c) := by
      have h1' : ¬ a < 0 := by omega
      have h2' : ¬ (a + (m : Int) * c + 1 < 0) := by omega
      have h3' : ¬ c < 0 := by omega
      simp only [Py.sliceIndices, h1', h2', h3', if_false]
      congr 1
      · omega
      · congr 1; omega
    rw [hsi]
    simp only
    have hm : 0 ≤ (m : Int) * c := Int.mul_nonneg (by omega) (by omega)
    have hlen : Py.rangeLen a (a + (m : Int) * c + 1) c = m + 1 := by
      unfold Py.rangeLen
      rw [if_pos hpos, if_pos (by omega)]
      have : a + (m : Int) * c + 1 - a - 1 = (m : Int) * c := by ring
      rw [this, Int.mul_ediv_cancel _ (by omega)]
      omega
    rw [hlen]
  · rw [if_neg hpos]
    have hneg : c < 0 := by omega
    have hsi : Py.sliceIndices (some a)
        (if a + (m : Int) * c > 0 then some (a + (m : Int) * c - 1) else none) c n = (a, a + (m : Int) * c - 1, c) := by
      have h1' : ¬ a < 0 := by omega
      by_cases hl : a + (m : Int) * c > 0
      · rw [if_pos hl]
        have h2' : ¬ (a + (m : Int) * c - 1 < 0) := by omega
        simp only [Py.sliceIndices, h1', h2', hneg, if_true, if_false]
        congr 1
        · omega
        · congr 1; omega
      · rw [if_neg hl]
        simp only [Py.sliceIndices, h1', hneg, if_true, if_false]
        congr 1
        · omega
        · congr 1; omega
    rw [hsi]
    simp only
    have hm : 0 ≤ (m : Int) * (-c) := Int.mul_nonneg (by omega) (by omega)
    have hmc : (m : Int) * (-c) = -((m : Int) * c) := by ring
    have hlen : Py.rangeLen a (a + (m : Int) * c - 1) c = m + 1 := by
      unfold Py.rangeLen
      rw [if_neg (by omega), if_pos (by omega)]
      have : a - (a + (m : Int) * c - 1) - 1 = (m : Int) * (-c) := by ring
      rw [this, Int.mul_ediv_cancel _ (by omega)]
      omega
    rw [hlen]

theorem set_range_eq (l : Bits) (v : Bool) (a b c : Int) :
    Alg.set l v (.range a b c) = Spec.set l v (.range a b c) := by
  by_cases hc : c = 0
  · subst hc
    rw [alg_set_range_zero, spec_set_range_zero]
  rw [spec_set_range l v a b c hc]
  unfold Alg.set
  simp only
  rw [if_neg hc]
  unfold Py.rangeList
  cases hm : Py.rangeLen a b c with
  | zero =>
    simp only [List.range_zero, List.map_nil, List.head?_nil]
    exact setLoop_eq v l.length [] l rfl
  | succ m =>
    obtain ⟨hh, hl⟩ := rangeList_succ a c m
    rw [hh, hl]
    simp only
    split
    · rename_i hcond
      have h0 : 0 ≤ a ∧ a < (l.length : Int) := ⟨hcond.1, hcond.2.1⟩
      have h1 : 0 ≤ a + (m : Int) * c ∧ a + (m : Int) * c < (l.length : Int) := ⟨hcond.2.2.1, hcond.2.2.2⟩
      have hvalid : ∀ p ∈ (List.range (m + 1)).map (fun (k : Nat) => a + (k : Int) * c),
          PyL.normIdx l.length p ≠ none := by
        intro p hp hn
        rw [List.mem_map] at hp
        obtain ⟨k, hk, rfl⟩ := hp
        rw [List.mem_range] at hk
        have := between a c m k (by omega) _ h0 h1
        rw [Core.normIdx_none_iff'] at hn
        omega
      rw [prefixOutcome_valid _ _ _ _ hvalid]
      have hfm : ((List.range (m + 1)).map (fun (k : Nat) => a + (k : Int) * c)).filterMap (PyL.normIdx l.length) =
          (List.range (m + 1)).map fun (k : Nat) => (a + (k : Int) * c).toNat := by
        rw [List.filterMap_map]
        rw [← List.filterMap_eq_map]
        apply List.filterMap_congr
        intro k hk
        rw [List.mem_range] at hk
        have := between a c m k (by omega) _ h0 h1
        simp only [Function.comp]
        rw [Core.normIdx_some_iff']
        left
        omega
      rw [hfm, ← fast_positions l.length a c m hc h0 h1]
      unfold Alg.setRangeFast PyL.setSliceScalar
      by_cases hpos : c > 0
      · simp [hpos, hc, atomic]
      · simp only [hpos, if_false, Option.getD_some, hc, atomic]
    · exact setLoop_eq v l.length _ l rfl

/-- `s[a:b:c] = 0 | 1` through `set(v, range(*key.indices(len)))`: every selected position is set. -/
theorem alg_set_slice_range (l : Bits) (v : Bool) (a b : Option Int) (st : Int) (hst : st ≠ 0) :
    Alg.set l v (.range (Py.sliceIndices a b st l.length).1 (Py.sliceIndices a b st l.length).2.1 st) =
      ⟨.ok .none, (PyL.slicePositions a b st l.length).foldl (fun acc i => acc.set i v) l⟩ := by
  rw [set_range_eq, spec_set_range _ _ _ _ _ hst]
  have hvalid : ∀ p ∈ Py.rangeList (Py.sliceIndices a b st l.length).1 (Py.sliceIndices a b st l.length).2.1 st,
      PyL.normIdx l.length p ≠ none := by
    intro p hp hn
    unfold Py.rangeList at hp
    rw [List.mem_map] at hp
    obtain ⟨k, hk, rfl⟩ := hp
    rw [List.mem_range] at hk
    have := C01.sliceIndices_bounds a b st hst l.length k hk
    rw [Core.normIdx_none_iff'] at hn
    omega
  rw [prefixOutcome_valid _ _ _ _ hvalid, Core.rangeList_filterMap_normIdx a b st hst]

end BM.C03.Range
