/- Kernel obligation: `bfChk` (Proofs/C11_NumDefs.lean) on the 16-bit patterns 0x5000..0x53ff. -/
import BitstringModel.Proofs.C11_NumDefs
namespace BM.C11
theorem bfChunk_20 : bfChunkOk 20 = true := by decide +kernel
end BM.C11
