/- Kernel obligation: `bfChk` (Proofs/C11_NumDefs.lean) on the 16-bit patterns 0x4800..0x4bff. -/
import BitstringModel.Proofs.C11_NumDefs
namespace BM.C11
theorem bfChunk_18 : bfChunkOk 18 = true := by decide +kernel
end BM.C11
