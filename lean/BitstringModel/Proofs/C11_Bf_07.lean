/- Kernel obligation: `bfChk` (Proofs/C11_NumDefs.lean) on the 16-bit patterns 0x1c00..0x1fff. -/
import BitstringModel.Proofs.C11_NumDefs
namespace BM.C11
theorem bfChunk_07 : bfChunkOk 7 = true := by decide +kernel
end BM.C11
