/- Kernel obligation: `bfChk` (Proofs/C11_NumDefs.lean) on the 16-bit patterns 0xa400..0xa7ff. -/
import BitstringModel.Proofs.C11_NumDefs
namespace BM.C11
theorem bfChunk_41 : bfChunkOk 41 = true := by decide +kernel
end BM.C11
