/- Kernel obligation: entries 0xd000..0xdfff of the live float16->code table `Gen.encE2M3` pass `encChk`
   (one sixteenth of the table per file so that lake checks them in parallel; depends only on the specification and on
   this table; assembled in Proofs/C11_Tables.lean). -/
import BitstringModel.Model.C11_Spec
import BitstringModel.Gen.LutEncE2M3
namespace BM.C11
theorem encChunk_E2M3_13 : encChunkOkT Gen.encE2M3 Fmt.e2m3 .saturate 13 = true := by decide +kernel
end BM.C11
