/-
  Proofs/C11_Ieee.lean — structural lemmas about the IEEE-754 runtime model of Model/C11_Float.lean:
  the bit-length search, canonical forms, and exactness of `roundBits 11 52` on float64-representable dyadic values
  (`f64OfDyadic_exact`), from which multiplication by a power of two is exact (`f64Mul_pow2_exact`).
  No enumeration: everything here is for all inputs.
-/
import BitstringModel.Model.C11_Float

namespace BM.C11
open BM

/-! ### bit length -/

theorem log2b_spec : ∀ (k n acc : Nat), 0 < n → n < 2 ^ (2 ^ k) →
    ∃ l, log2b k n acc = acc + l ∧ 2 ^ l ≤ n ∧ n < 2 ^ (l + 1) := by
  intro k
  induction k with
  | zero =>
    intro n acc h0 h1
    refine ⟨0, rfl, ?_, ?_⟩ <;> simp at h1 ⊢ <;> omega
  | succ k ih =>
    intro n acc h0 h1
    have hp : 0 < 2 ^ (2 ^ k) := Nat.two_pow_pos _
    have hsq : 2 ^ (2 ^ (k + 1)) = 2 ^ (2 ^ k) * 2 ^ (2 ^ k) := by
      rw [← Nat.pow_add]; congr 1; rw [Nat.pow_succ]; omega
    unfold log2b
    by_cases hge : 2 ^ (2 ^ k) ≤ n
    · rw [if_pos hge]
      have hq0 : 0 < n / 2 ^ (2 ^ k) := Nat.div_pos hge hp
      have hq1 : n / 2 ^ (2 ^ k) < 2 ^ (2 ^ k) := by
        apply Nat.div_lt_of_lt_mul; rw [← hsq]; exact h1
      obtain ⟨l, hl, hlo, hhi⟩ := ih (n / 2 ^ (2 ^ k)) (acc + 2 ^ k) hq0 hq1
      refine ⟨2 ^ k + l, by rw [hl]; omega, ?_, ?_⟩
      · rw [Nat.pow_add]
        calc 2 ^ (2 ^ k) * 2 ^ l ≤ 2 ^ (2 ^ k) * (n / 2 ^ (2 ^ k)) := Nat.mul_le_mul_left _ hlo
          _ ≤ n := Nat.mul_div_le _ _
      · rw [show 2 ^ k + l + 1 = 2 ^ k + (l + 1) by omega, Nat.pow_add]
        calc n < 2 ^ (2 ^ k) * (n / 2 ^ (2 ^ k) + 1) := Nat.lt_mul_div_succ _ hp
          _ ≤ 2 ^ (2 ^ k) * 2 ^ (l + 1) := Nat.mul_le_mul_left _ hhi
    · rw [if_neg hge]
      exact ih n acc h0 (by omega)

/-- `ilog2 n = ⌊log₂ n⌋`. -/
theorem ilog2_spec (n : Nat) (h0 : 0 < n) : 2 ^ ilog2 n ≤ n ∧ n < 2 ^ (ilog2 n + 1) := by
  unfold ilog2
  by_cases h : n < 2 ^ 8192
  · rw [if_pos h]
    have e13 : (2 : Nat) ^ 13 = 8192 := by decide
    obtain ⟨l, hl, hlo, hhi⟩ := log2b_spec 13 n 0 h0 (by rw [e13]; exact h)
    rw [hl, Nat.zero_add]; exact ⟨hlo, hhi⟩
  · rw [if_neg h]
    exact ⟨Nat.log2_self_le (by omega), Nat.lt_log2_self⟩

theorem ilog2_unique (n l : Nat) (hlo : 2 ^ l ≤ n) (hhi : n < 2 ^ (l + 1)) : ilog2 n = l := by
  have h0 : 0 < n := Nat.lt_of_lt_of_le (Nat.two_pow_pos l) hlo
  obtain ⟨a, b⟩ := ilog2_spec n h0
  -- 2^(ilog2 n) ≤ n < 2^(l+1) and 2^l ≤ n < 2^(ilog2 n + 1)
  have h1 : ilog2 n < l + 1 := (Nat.pow_lt_pow_iff_right (by decide : 1 < 2)).1 (Nat.lt_of_le_of_lt a hhi)
  have h2 : l < ilog2 n + 1 := (Nat.pow_lt_pow_iff_right (by decide : 1 < 2)).1 (Nat.lt_of_le_of_lt hlo b)
  omega

/-! ### canonical forms -/

/-- `M·2^E` and `m·2^e` are the same value, `m` obtained from `M` by dropping `j` trailing zeros. -/
def SameVal (M : Nat) (E : Int) (m : Nat) (e : Int) : Prop := ∃ j : Nat, M = m * 2 ^ j ∧ e = E + j

theorem stripZerosFast_rel : ∀ (k M : Nat) (E : Int),
    SameVal M E (stripZerosFast k M E).1 (stripZerosFast k M E).2 := by
  intro k
  induction k with
  | zero => intro M E; exact ⟨0, by simp [stripZerosFast], by simp [stripZerosFast]⟩
  | succ k ih =>
    intro M E
    unfold stripZerosFast
    by_cases hd : M % 2 ^ (2 ^ k) = 0
    · rw [if_pos hd]
      obtain ⟨j, h1, h2⟩ := ih (M / 2 ^ (2 ^ k)) (E + (2 ^ k : Nat))
      refine ⟨j + 2 ^ k, ?_, ?_⟩
      · have := Nat.div_mul_cancel (Nat.dvd_of_mod_eq_zero hd)
        rw [Nat.pow_add, ← Nat.mul_assoc, ← h1, this]
      · rw [h2]; simp only [Int.natCast_add]; omega
    · rw [if_neg hd]; exact ih M E

theorem stripZeros_rel : ∀ (fuel M : Nat) (E : Int),
    SameVal M E (stripZeros fuel M E).1 (stripZeros fuel M E).2 := by
  intro fuel
  induction fuel with
  | zero => intro M E; exact ⟨0, by simp [stripZeros], by simp [stripZeros]⟩
  | succ f ih =>
    intro M E
    unfold stripZeros
    by_cases hd : M % 2 = 0
    · rw [if_pos hd]
      obtain ⟨j, h1, h2⟩ := ih (M / 2) (E + 1)
      refine ⟨j + 1, ?_, ?_⟩
      · rw [Nat.pow_succ, ← Nat.mul_assoc, ← h1]; omega
      · rw [h2]; simp only [Int.natCast_add]; omega
    · rw [if_neg hd]; exact ⟨0, by simp, by simp⟩

theorem stripZeros_odd : ∀ (fuel M : Nat) (E : Int), 0 < M → M ≤ fuel → (stripZeros fuel M E).1 % 2 = 1 := by
  intro fuel
  induction fuel with
  | zero => intro M E h0 h1; omega
  | succ f ih =>
    intro M E h0 h1
    unfold stripZeros
    by_cases hd : M % 2 = 0
    · rw [if_pos hd]; exact ih (M / 2) (E + 1) (by omega) (by omega)
    · rw [if_neg hd]; simp only; omega

/-- `FVal.mk` returns the canonical form: the odd part of `M` with the exponent raised by the zeros dropped. -/
theorem mk_spec (s : Bool) (M : Nat) (E : Int) (hM : M ≠ 0) :
    ∃ (m : Nat) (e : Int) (j : Nat), FVal.mk s M E = .fin s m e ∧ M = m * 2 ^ j ∧ e = E + j ∧ m % 2 = 1 := by
  unfold FVal.mk
  rw [if_neg hM]
  simp only []
  have h1 := stripZerosFast_rel 13 M E
  generalize stripZerosFast 13 M E = q at *
  obtain ⟨M1, E1⟩ := q
  obtain ⟨j1, a1, b1⟩ := h1
  simp only [] at a1 b1 ⊢
  have hM1 : 0 < M1 := by
    rcases Nat.eq_zero_or_pos M1 with h | h
    · subst h; simp at a1; exact absurd a1 hM
    · exact h
  have h2 := stripZeros_rel M1 M1 E1
  have hodd := stripZeros_odd M1 M1 E1 hM1 (Nat.le_refl _)
  generalize stripZeros M1 M1 E1 = r at *
  obtain ⟨m, e⟩ := r
  obtain ⟨j2, a2, b2⟩ := h2
  simp only [] at a2 b2 hodd ⊢
  refine ⟨m, e, j2 + j1, rfl, ?_, ?_, hodd⟩
  · rw [a1, a2, Nat.pow_add, Nat.mul_assoc]
  · rw [b2, b1]; simp only [Int.natCast_add]; omega

theorem odd_part_unique : ∀ (j j' m m' : Nat), m % 2 = 1 → m' % 2 = 1 → m * 2 ^ j = m' * 2 ^ j' → j = j' ∧ m = m' := by
  intro j
  induction j with
  | zero =>
    intro j' m m' h1 h2 h
    cases j' with
    | zero => simp at h; exact ⟨rfl, h⟩
    | succ j' =>
      rw [Nat.pow_succ, ← Nat.mul_assoc] at h
      generalize m' * 2 ^ j' = k at h
      simp at h; omega
  | succ j ih =>
    intro j' m m' h1 h2 h
    cases j' with
    | zero =>
      rw [Nat.pow_succ, ← Nat.mul_assoc] at h
      generalize m * 2 ^ j = k at h
      simp at h; omega
    | succ j' =>
      rw [Nat.pow_succ, Nat.pow_succ, ← Nat.mul_assoc, ← Nat.mul_assoc] at h
      have := Nat.eq_of_mul_eq_mul_right (by decide : 0 < 2) h
      obtain ⟨a, b⟩ := ih j' m m' h1 h2 this
      exact ⟨by omega, b⟩

/-- For odd `m`: `m·2^j · 2^E` has canonical form `(m, E + j)`. -/
theorem mk_pow2 (s : Bool) (m j : Nat) (E : Int) (hm : m % 2 = 1) :
    FVal.mk s (m * 2 ^ j) E = .fin s m (E + j) := by
  have hne : m * 2 ^ j ≠ 0 := by
    have : 0 < m * 2 ^ j := Nat.mul_pos (by omega) (Nat.two_pow_pos j)
    omega
  obtain ⟨m', e', j', h, a, b, c⟩ := mk_spec s (m * 2 ^ j) E hne
  obtain ⟨hj, hmm⟩ := odd_part_unique j j' m m' hm c a
  rw [h, b, ← hj, ← hmm]

theorem mk_odd (s : Bool) (m : Nat) (E : Int) (hm : m % 2 = 1) : FVal.mk s m E = .fin s m E := by
  have := mk_pow2 s m 0 E hm
  simpa using this

/-! ### exactness of `roundBits 11 52` on representable dyadic values -/

theorem ilog2_mul_pow (m k : Nat) (hm : 0 < m) : ilog2 (m * 2 ^ k) = ilog2 m + k := by
  obtain ⟨a, b⟩ := ilog2_spec m hm
  apply ilog2_unique
  · rw [Nat.pow_add]; exact Nat.mul_le_mul_right _ a
  · rw [show ilog2 m + k + 1 = (ilog2 m + 1) + k by omega, Nat.pow_add]
    exact Nat.mul_lt_mul_of_lt_of_le b (Nat.le_refl _) (Nat.two_pow_pos k)

theorem ilog2_one : ilog2 1 = 0 := ilog2_unique 1 0 (by decide) (by decide)
theorem ilog2_pow (k : Nat) : ilog2 (2 ^ k) = k := by
  have := ilog2_mul_pow 1 k (by decide)
  rw [Nat.one_mul, ilog2_one, Nat.zero_add] at this; exact this

/-- `⌊log₂ (m·2^e)⌋ = ⌊log₂ m⌋ + e`. -/
theorem ratLog2_dyadic (m : Nat) (e : Int) (hm : 0 < m) :
    ratLog2 (dyadicNum m e) (dyadicDen e) = (ilog2 m : Int) + e := by
  obtain ⟨a, b⟩ := ilog2_spec m hm
  unfold ratLog2 dyadicNum dyadicDen
  by_cases he : e ≥ 0
  · simp only [he, if_true]
    rw [ilog2_mul_pow m _ hm, ilog2_one]
    have h0 : ((ilog2 m + e.toNat : Nat) : Int) - ((0 : Nat) : Int) ≥ 0 := by omega
    simp only [h0, if_true]
    have e1 : (((ilog2 m + e.toNat : Nat) : Int) - ((0 : Nat) : Int)).toNat = ilog2 m + e.toNat := by omega
    rw [e1, Nat.one_mul]
    have : 2 ^ (ilog2 m + e.toNat) ≤ m * 2 ^ e.toNat := by
      rw [Nat.pow_add]; exact Nat.mul_le_mul_right _ a
    simp only [this, decide_true, if_true]
    omega
  · simp only [he, if_false]
    rw [ilog2_pow]
    obtain ⟨k, hk⟩ : ∃ k : Nat, (-e).toNat = k ∧ e = -(k : Int) := ⟨(-e).toNat, rfl, by omega⟩
    rw [hk.1]
    generalize ilog2 m = L at *
    by_cases h0 : ((L : Nat) : Int) - ((k : Nat) : Int) ≥ 0
    · simp only [h0, if_true]
      have e1 : (((L : Nat) : Int) - ((k : Nat) : Int)).toNat = L - k := by omega
      have : 2 ^ k * 2 ^ (L - k) ≤ m := by
        rw [← Nat.pow_add, show k + (L - k) = L by omega]; exact a
      rw [e1]
      simp only [this, decide_true, if_true]
      omega
    · simp only [h0, if_false]
      have e1 : (-(((L : Nat) : Int) - ((k : Nat) : Int))).toNat = k - L := by omega
      rw [e1]
      have : 2 ^ k ≤ m * 2 ^ (k - L) := by
        have h := Nat.mul_le_mul_right (2 ^ (k - L)) a
        rwa [← Nat.pow_add, show L + (k - L) = k by omega] at h
      simp only [this, decide_true, if_true]
      omega
theorem roundMag_of_exact (num den Q : Nat) (r ex : Int) (hr : ratLog2 num den = r)
    (hex : ex = if r < -1022 then -1022 else r)
    (d : Nat) (hdd : d = if (52:Int) - ex ≥ 0 then den else den * 2 ^ (-((52:Int) - ex)).toNat)
    (hd : 0 < d) (hQ : (if (52:Int) - ex ≥ 0 then num * 2 ^ ((52:Int) - ex).toNat else num) = Q * d) :
    roundMag 11 52 num den = (ex + 1022).toNat * 2 ^ 52 + Q := by
  have hc : (1 : Int) - (2 ^ (11 - 1) - 1) = -1022 := by decide
  unfold roundMag
  have h52 : ((52 : Nat) : Int) = 52 := rfl
  simp only [hr, hc, ← hex, h52, ← hdd, hQ]
  have h1 : Q * d % d = 0 := Nat.mul_mod_left _ _
  have h2 : Q * d / d = Q := Nat.mul_div_cancel _ hd
  rw [h1, h2]
  simp only [Nat.mul_zero, hd, if_true]
  have : (ex - -1022).toNat = (ex + 1022).toNat := by omega
  rw [this]
theorem ilog2_lt_of_lt_pow (m k : Nat) (hm : 0 < m) (h : m < 2 ^ k) : ilog2 m < k := by
  obtain ⟨a, _⟩ := ilog2_spec m hm
  exact (Nat.pow_lt_pow_iff_right (by decide : 1 < 2)).1 (Nat.lt_of_le_of_lt a h)

/-- The exponent the result is rounded at: `max(⌊log₂ value⌋, −1022)`. -/
def exOf (m : Nat) (e : Int) : Int := if (ilog2 m : Int) + e < -1022 then -1022 else (ilog2 m : Int) + e

theorem roundMag_dyadic' (m L : Nat) (e ex : Int) (hr : ratLog2 (dyadicNum m e) (dyadicDen e) = (L : Int) + e)
    (hL : L < 53) (hex : ex = if (L : Int) + e < -1022 then -1022 else (L : Int) + e) (he : -1074 ≤ e) :
    roundMag 11 52 (dyadicNum m e) (dyadicDen e) = (ex + 1022).toNat * 2 ^ 52 + m * 2 ^ (e + 52 - ex).toNat := by
  have ht : 0 ≤ e + 52 - ex := by rw [hex]; split <;> omega
  apply roundMag_of_exact _ _ _ _ ex hr hex _ rfl
  · -- d > 0
    clear hr
    unfold dyadicDen
    split <;> split <;> first | exact Nat.two_pow_pos _ | exact Nat.mul_pos (by first | decide | exact Nat.two_pow_pos _) (Nat.two_pow_pos _) | decide
  · clear hr
    unfold dyadicNum dyadicDen
    by_cases hs : (52 : Int) - ex ≥ 0
    · by_cases h0 : e ≥ 0
      · rw [if_pos hs, if_pos hs, if_pos h0, if_pos h0, Nat.mul_one, Nat.mul_assoc, ← Nat.pow_add]
        congr 2; omega
      · rw [if_pos hs, if_pos hs, if_neg h0, if_neg h0, Nat.mul_assoc, ← Nat.pow_add]
        congr 2; omega
    · by_cases h0 : e ≥ 0
      · rw [if_neg hs, if_neg hs, if_pos h0, if_pos h0, Nat.one_mul, Nat.mul_assoc, ← Nat.pow_add]
        congr 2; omega
      · exfalso; rw [hex] at hs; split at hs <;> omega

theorem roundMag_dyadic (m : Nat) (e : Int) (hm : 0 < m) (hm53 : m < 2 ^ 53) (he : -1074 ≤ e) :
    roundMag 11 52 (dyadicNum m e) (dyadicDen e) =
      (exOf m e + 1022).toNat * 2 ^ 52 + m * 2 ^ (e + 52 - exOf m e).toNat :=
  roundMag_dyadic' m (ilog2 m) e (exOf m e) (ratLog2_dyadic m e hm) (ilog2_lt_of_lt_pow m 53 hm hm53)
    (by unfold exOf; rfl) he

theorem mk_shift (s : Bool) (M t : Nat) (E : Int) (hM : M ≠ 0) : FVal.mk s (M * 2 ^ t) E = FVal.mk s M (E + t) := by
  obtain ⟨m, e, j, h, a, b, c⟩ := mk_spec s M (E + t) hM
  rw [h, a, Nat.mul_assoc, ← Nat.pow_add, mk_pow2 s m (j + t) E c, b]
  congr 1
  simp only [Int.natCast_add]; omega

/-- Decoding a float64 pattern assembled from a sign, an exponent offset `A` and an integer significand `Q`. -/
theorem f64Val_of_fields (s : Bool) (A Q : Nat) (hA : A ≤ 2045) (hQ : Q < 2 ^ 53) (hsub : Q < 2 ^ 52 → A = 0) :
    f64Val ((if s then 2 ^ 63 else 0) + (A * 2 ^ 52 + Q)) = FVal.mk s Q ((A : Int) - 1074) := by
  have p52 : (2 : Nat) ^ 52 = 4503599627370496 := by decide
  have p53 : (2 : Nat) ^ 53 = 9007199254740992 := by decide
  have p63 : (2 : Nat) ^ 63 = 9223372036854775808 := by decide
  have p11 : (2 : Nat) ^ 11 = 2048 := by decide
  have hb : ((2 : Int) ^ (11 - 1) - 1) = 1023 := by decide
  unfold f64Val ieeeVal
  simp only [hb, show 11 + 52 = 63 from rfl]
  rw [p52, p53] at *
  rw [p63, p11]
  generalize hbits : ((if s = true then 9223372036854775808 else 0) + (A * 4503599627370496 + Q)) = bits
  have hsgn : decide (bits / 9223372036854775808 % 2 = 1) = s := by
    cases s <;> simp at hbits ⊢ <;> omega
  rw [hsgn]
  by_cases hn : 4503599627370496 ≤ Q
  · -- normal
    have he : bits / 4503599627370496 % 2048 = A + 1 := by cases s <;> simp at hbits <;> omega
    have hm : bits % 4503599627370496 = Q - 4503599627370496 := by cases s <;> simp at hbits <;> omega
    rw [he, hm]
    have h1 : ¬ (A + 1 = 2048 - 1) := by omega
    have h2 : ¬ (A + 1 = 0) := by omega
    rw [if_neg h1, if_neg h2]
    have a : 4503599627370496 + (Q - 4503599627370496) = Q := by omega
    have b : ((A + 1 : Nat) : Int) - 1023 - ((52 : Nat) : Int) = (A : Int) - 1074 := by
      simp only [Int.natCast_add]; omega
    rw [a, b]
  · have hA0 : A = 0 := hsub (by omega)
    have he : bits / 4503599627370496 % 2048 = 0 := by cases s <;> simp at hbits <;> omega
    have hm : bits % 4503599627370496 = Q := by cases s <;> simp at hbits <;> omega
    rw [he, hm, hA0]
    have h1 : ¬ ((0 : Nat) = 2048 - 1) := by decide
    rw [if_neg h1, if_pos rfl]
    have b : (1 : Int) - 1023 - ((52 : Nat) : Int) = ((0 : Nat) : Int) - 1074 := by decide
    rw [b]

theorem mul_pow_bounds (m L t : Nat) (a : 2 ^ L ≤ m) (b : m < 2 ^ (L + 1)) :
    2 ^ (L + t) ≤ m * 2 ^ t ∧ m * 2 ^ t < 2 ^ (L + 1 + t) := by
  constructor
  · rw [Nat.pow_add]; exact Nat.mul_le_mul_right _ a
  · rw [Nat.pow_add]; exact Nat.mul_lt_mul_of_lt_of_le b (Nat.le_refl _) (Nat.two_pow_pos t)

theorem dyadicNum_pos (m : Nat) (e : Int) (hm : 0 < m) : 0 < dyadicNum m e := by
  unfold dyadicNum; split
  · exact Nat.mul_pos hm (Nat.two_pow_pos _)
  · exact hm

theorem roundBits_fields (s : Bool) (num den A Q : Nat) (hmag : roundMag 11 52 num den = A * 2 ^ 52 + Q)
    (hnum : num ≠ 0) (hA : A ≤ 2045) (hQ : Q < 2 ^ 53) (hsub : Q < 2 ^ 52 → A = 0) :
    f64Val (roundBits 11 52 s num den).1 = FVal.mk s Q ((A : Int) - 1074) := by
  unfold roundBits
  simp only [hnum, if_false]
  rw [hmag]
  have hlt : ¬ ((2 ^ 11 - 1) * 2 ^ 52 ≤ A * 2 ^ 52 + Q) := by
    have : (2 ^ 11 - 1) * 2 ^ 52 = 2047 * 2 ^ 52 := by decide
    rw [this]
    have p52 : (2 : Nat) ^ 52 = 4503599627370496 := by decide
    have p53 : (2 : Nat) ^ 53 = 9007199254740992 := by decide
    rw [p52]; rw [p53] at hQ; omega
  rw [if_neg hlt]
  exact f64Val_of_fields s A Q hA hQ hsub

/-- `roundBits 11 52` is exact on every float64-representable dyadic value: the pattern produced decodes to that value. -/
theorem f64OfDyadic_exact (s : Bool) (m : Nat) (e : Int) (hm : 0 < m) (hm53 : m < 2 ^ 53) (he : -1074 ≤ e)
    (hr : (ilog2 m : Int) + e ≤ 1023) : f64Val (f64OfDyadic s m e) = FVal.mk s m e := by
  have hL : ilog2 m < 53 := ilog2_lt_of_lt_pow m 53 hm hm53
  obtain ⟨a, b⟩ := ilog2_spec m hm
  have hnum : dyadicNum m e ≠ 0 := by have := dyadicNum_pos m e hm; omega
  have hmag := roundMag_dyadic m e hm hm53 he
  unfold f64OfDyadic f64OfRat
  unfold exOf at hmag
  generalize ilog2 m = L at *
  by_cases hsub : (L : Int) + e < -1022
  · -- subnormal result
    rw [if_pos hsub] at hmag
    have ht : (e + 52 - -1022).toNat = (e + 1074).toNat := by clear hmag; omega
    have hA : (-1022 + 1022 : Int).toNat = 0 := by decide
    rw [ht, hA] at hmag
    obtain ⟨_, q2⟩ := mul_pow_bounds m L (e + 1074).toNat a b
    have hq : m * 2 ^ (e + 1074).toNat < 2 ^ 52 :=
      Nat.lt_of_lt_of_le q2 (Nat.pow_le_pow_right (by decide) (by clear hmag; omega))
    have hq' : m * 2 ^ (e + 1074).toNat < 2 ^ 53 := Nat.lt_trans hq (by decide)
    have hm0 : m ≠ 0 := by clear hmag; omega
    rw [roundBits_fields s _ _ 0 _ hmag hnum (by decide) hq' (fun _ => rfl), mk_shift s m _ _ hm0]
    clear hmag
    congr 1
    omega
  · rw [if_neg hsub] at hmag
    have ht : (e + 52 - ((L : Int) + e)).toNat = 52 - L := by clear hmag; omega
    rw [ht] at hmag
    obtain ⟨q1, q2⟩ := mul_pow_bounds m L (52 - L) a b
    rw [show L + (52 - L) = 52 by clear hmag; omega] at q1
    rw [show L + 1 + (52 - L) = 53 by clear hmag; omega] at q2
    have hA2 : ((L : Int) + e + 1022).toNat ≤ 2045 := by clear hmag; omega
    have hm0 : m ≠ 0 := by clear hmag; omega
    have hs2 : m * 2 ^ (52 - L) < 2 ^ 52 → ((L : Int) + e + 1022).toNat = 0 := fun h => by clear hmag; omega
    rw [roundBits_fields s _ _ _ _ hmag hnum hA2 q2 hs2, mk_shift s m _ _ hm0]
    clear hmag
    congr 1
    omega

/-! ### overflow, the range of `f64Val`, multiplication by a power of two -/

/-- A value whose binary exponent exceeds 1023 rounds to ±inf. -/
theorem f64OfDyadic_overflow (s : Bool) (m : Nat) (e : Int) (hm : 0 < m) (hm53 : m < 2 ^ 53) (he : -1074 ≤ e)
    (hr : 1024 ≤ (ilog2 m : Int) + e) : f64OfDyadic s m e = f64Inf s := by
  have hL : ilog2 m < 53 := ilog2_lt_of_lt_pow m 53 hm hm53
  obtain ⟨a, b⟩ := ilog2_spec m hm
  have hnum : dyadicNum m e ≠ 0 := by have := dyadicNum_pos m e hm; omega
  have hmag := roundMag_dyadic m e hm hm53 he
  unfold f64OfDyadic f64OfRat roundBits
  simp only [hnum, if_false]
  unfold exOf at hmag
  generalize ilog2 m = L at *
  have hsub : ¬ ((L : Int) + e < -1022) := by clear hmag; omega
  rw [if_neg hsub] at hmag
  have ht : (e + 52 - ((L : Int) + e)).toNat = 52 - L := by clear hmag; omega
  rw [ht] at hmag
  obtain ⟨q1, _⟩ := mul_pow_bounds m L (52 - L) a b
  rw [show L + (52 - L) = 52 by clear hmag; omega] at q1
  have hA : 2046 ≤ ((L : Int) + e + 1022).toNat := by clear hmag; omega
  have hge : (2 ^ 11 - 1) * 2 ^ 52 ≤ roundMag 11 52 (dyadicNum m e) (dyadicDen e) := by
    rw [hmag]
    have : (2 ^ 11 - 1) * 2 ^ 52 = 2046 * 2 ^ 52 + 2 ^ 52 := by decide
    rw [this]
    exact Nat.add_le_add (Nat.mul_le_mul_right _ hA) q1
  rw [if_pos hge]
  cases s <;> rfl

theorem f64Val_zero' : f64Val 0 = .fin false 0 0 := by decide

theorem isNaN64_iff' (f : Nat) : isNaN64 f = true ↔ f64Val f = .nan := by
  unfold isNaN64; simp

/-- What `f64Val` can return for a finite non-zero float: an odd significand below 2^53, exponent ≥ −1074,
    binary exponent ≤ 1023. -/
theorem f64Val_fin_bounds (f : Nat) (s : Bool) (m : Nat) (e : Int) (h : f64Val f = .fin s m e) (hm : m ≠ 0) :
    m % 2 = 1 ∧ m < 2 ^ 53 ∧ -1074 ≤ e ∧ (ilog2 m : Int) + e ≤ 1023 := by
  have hb : ((2 : Int) ^ (11 - 1) - 1) = 1023 := by decide
  have p11 : (2 : Nat) ^ 11 = 2048 := by decide
  unfold f64Val ieeeVal at h
  simp only [hb, p11] at h
  have hef : f / 2 ^ 52 % 2048 < 2048 := Nat.mod_lt _ (by decide)
  generalize f / 2 ^ 52 % 2048 = ef at h hef
  have hmf : f % 2 ^ 52 < 2 ^ 52 := Nat.mod_lt _ (Nat.two_pow_pos _)
  generalize f % 2 ^ 52 = mf at h hmf
  have key : ∀ (M : Nat) (E : Int), M < 2 ^ 53 → -1074 ≤ E → (M < 2 ^ 52 → E = -1074) → E ≤ 971 →
      FVal.mk (decide (f / 2 ^ (11 + 52) % 2 = 1)) M E = .fin s m e →
      m % 2 = 1 ∧ m < 2 ^ 53 ∧ -1074 ≤ e ∧ (ilog2 m : Int) + e ≤ 1023 := by
    intro M E hM hE hsubn hEu hk
    have hM0 : M ≠ 0 := by
      intro h0; subst h0
      simp [FVal.mk] at hk; exact hm hk.2.1.symm
    obtain ⟨m', e', j, h1, h2, h3, h4⟩ := mk_spec _ M E hM0
    rw [h1] at hk
    cases hk
    have hmpos : 0 < m := by omega
    obtain ⟨a, _⟩ := ilog2_spec m hmpos
    have hle : m ≤ M := by rw [h2]; exact Nat.le_mul_of_pos_right _ (Nat.two_pow_pos j)
    have hLj : 2 ^ (ilog2 m + j) ≤ M := by rw [h2, Nat.pow_add]; exact Nat.mul_le_mul_right _ a
    generalize ilog2 m = L at *
    refine ⟨h4, Nat.lt_of_le_of_lt hle hM, by omega, ?_⟩
    have hlt : L + j < 53 := (Nat.pow_lt_pow_iff_right (by decide : 1 < 2)).1 (Nat.lt_of_le_of_lt hLj hM)
    by_cases hs : M < 2 ^ 52
    · have hlt2 : L + j < 52 := (Nat.pow_lt_pow_iff_right (by decide : 1 < 2)).1 (Nat.lt_of_le_of_lt hLj hs)
      have := hsubn hs
      omega
    · omega
  split at h
  · split at h <;> cases h
  · split at h
    · exact key mf _ (Nat.lt_trans hmf (by decide)) (by decide) (fun _ => by decide) (by decide) h
    · rename_i h1 h2
      have p52 : (2 : Nat) ^ 52 = 4503599627370496 := by decide
      have p53 : (2 : Nat) ^ 53 = 9007199254740992 := by decide
      exact key (2 ^ 52 + mf) _ (by rw [p52] at *; rw [p53]; omega) (by omega)
        (fun hh => by rw [p52] at hh; omega) (by omega) h

/-- Multiplying a finite non-zero float64 by a power of two is exact as long as the result stays in range:
    only the exponent changes. -/
theorem f64Mul_pow2_exact (f p : Nat) (s : Bool) (m : Nat) (e k : Int)
    (hf : f64Val f = .fin s m e) (hm : m ≠ 0) (hp : f64Val p = .fin false 1 k) (hk : -1074 ≤ e + k)
    (hr : (ilog2 m : Int) + (e + k) ≤ 1023) : f64Val (f64Mul f p) = .fin s m (e + k) := by
  obtain ⟨hodd, h53, _, _⟩ := f64Val_fin_bounds f s m e hf hm
  unfold f64Mul
  rw [hf, hp]
  simp only [Bool.bne_false, Nat.mul_one]
  rw [f64OfDyadic_exact s m (e + k) (by omega) h53 hk hr, mk_odd s m _ hodd]

theorem f64Mul_pow2_overflow (f p : Nat) (s : Bool) (m : Nat) (e k : Int)
    (hf : f64Val f = .fin s m e) (hm : m ≠ 0) (hp : f64Val p = .fin false 1 k) (hk : -1074 ≤ e + k)
    (hr : 1024 ≤ (ilog2 m : Int) + (e + k)) : f64Mul f p = f64Inf s := by
  obtain ⟨_, h53, _, _⟩ := f64Val_fin_bounds f s m e hf hm
  unfold f64Mul
  rw [hf, hp]
  simp only [Bool.bne_false, Nat.mul_one]
  exact f64OfDyadic_overflow s m (e + k) (by omega) h53 hk hr

theorem f64Mul_zero (f p : Nat) (s : Bool) (e k : Int)
    (hf : f64Val f = .fin s 0 e) (hp : f64Val p = .fin false 1 k) : f64Val (f64Mul f p) = .fin s 0 0 := by
  unfold f64Mul
  rw [hf, hp]
  simp only [Bool.bne_false, Nat.zero_mul]
  have : dyadicNum 0 (e + k) = 0 := by unfold dyadicNum; split <;> simp
  unfold f64OfDyadic f64OfRat roundBits
  simp only [this, if_true]
  cases s <;> decide


end BM.C11
