/- Kernel obligation: `bfChk` (Proofs/C11_NumDefs.lean) on the 16-bit patterns 0x5400..0x57ff. -/
import BitstringModel.Proofs.C11_NumDefs
namespace BM.C11
theorem bfChunk_21 : bfChunkOk 21 = true := by decide +kernel
end BM.C11
