/-
  Proofs/C11_NumDefs.lean — Boolean checkers over the 65 536 sixteen-bit patterns for the table-free codecs
  (bfloat codes, half-precision inputs).  Instances: Proofs/C11_Bf_<kk>.lean
  (1024 patterns per file, built in parallel; they import no generated table).
-/
import BitstringModel.Model.C11_Float

namespace BM.C11
open BM

/-- For the 16-bit pattern `c`:
    * read as a bfloat code: the float `_getbfloatbe` returns has exactly the value of the zero-padded float32 pattern;
    * read as a half-precision pattern: `struct.unpack('>e')` widens it exactly, and the scaled-integer reading
      `halfClass` used by `EncodeSpec` is its IEEE-754 value. -/
def bfChk (c : Nat) : Bool :=
  (f64Val (bfloatDec true c) == f32Val (c * 65536))
  && (halfVal c == (halfClass c).toFVal)
  && (f64Val (unpackIEEE 5 10 c) == halfVal c)

/-- 1024 patterns per obligation (≈ 1.5 GB of kernel memory each; 4096 would need ≈ 4.6 GB, too much for 16 parallel jobs). -/
def bfChunkOk (k : Nat) : Bool := allBelow 1024 fun i => bfChk (1024 * k + i)

end BM.C11
