/- Kernel obligation: `bfChk` (Proofs/C11_NumDefs.lean) on the 16-bit patterns 0x0c00..0x0fff. -/
import BitstringModel.Proofs.C11_NumDefs
namespace BM.C11
theorem bfChunk_03 : bfChunkOk 3 = true := by decide +kernel
end BM.C11
