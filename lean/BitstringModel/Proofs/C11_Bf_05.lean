/- Kernel obligation: `bfChk` (Proofs/C11_NumDefs.lean) on the 16-bit patterns 0x1400..0x17ff. -/
import BitstringModel.Proofs.C11_NumDefs
namespace BM.C11
theorem bfChunk_05 : bfChunkOk 5 = true := by decide +kernel
end BM.C11
