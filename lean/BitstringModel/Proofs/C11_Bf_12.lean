/- Kernel obligation: `bfChk` (Proofs/C11_NumDefs.lean) on the 16-bit patterns 0x3000..0x33ff. -/
import BitstringModel.Proofs.C11_NumDefs
namespace BM.C11
theorem bfChunk_12 : bfChunkOk 12 = true := by decide +kernel
end BM.C11
