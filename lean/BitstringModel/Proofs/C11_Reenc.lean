/-
  Proofs/C11_Reenc.lean — the Boolean checker behind `reencode_fixpoint` (instances in C11_Reenc_<T>.lean).
-/
import BitstringModel.Proofs.C11

namespace BM.C11
open BM

/-- The format a table-driven name decodes with. -/
def Name.fmt? : Name → Option Fmt
  | .p3binary => some .p3 | .p4binary => some .p4 | .e5m2mxfp => some .e5m2 | .e4m3mxfp => some .e4m3
  | .e3m2mxfp => some .e3m2 | .e2m3mxfp => some .e2m3 | .e2m1mxfp => some .e2m1 | _ => none

/-- Codes exempt from the fixpoint law: NaN codes, and the e5m2 infinities when `mxfp_overflow = 'saturate'`
    (doc: "Infinities will also be set to the largest finite value"). -/
def reencExempt (f : Fmt) (mode : Mode) (c : Nat) : Bool :=
  decodeSpec f c == .nan || (f.kind == .e5m2 && mode == .saturate && c % 128 == 0x7c)

def reencChk (n : Name) (mode : Mode) : Bool :=
  match n.fmt? with
  | none => false
  | some f => allBelow (2 ^ f.width) fun c =>
      reencExempt f mode c || decide ((decode n c >>= encode n mode) = .ok c)

theorem reencChk_spec {n : Name} {mode : Mode} {f : Fmt} (hf : n.fmt? = some f) (h : reencChk n mode = true)
    (c : Nat) (hc : c < 2 ^ f.width) (hex : reencExempt f mode c = false) :
    (decode n c >>= encode n mode) = .ok c := by
  unfold reencChk at h
  rw [hf] at h
  have := allBelow_spec h c hc
  simp only [Bool.or_eq_true, hex, decide_eq_true_eq] at this
  simpa using this

end BM.C11
