/-
  Proofs/C05_Codec.lean — per-kind codec round trips used by `unpack_pack`:
  two's complement, byte reversal, hex / bin / oct text.
-/
import BitstringModel.Model.C05
import BitstringModel.Proofs.Basic
import BitstringModel.Proofs.C10
import Mathlib.Tactic.Ring
import Mathlib.Tactic.Linarith
import Mathlib.Tactic.IntervalCases

namespace BM.C05
open BM

theorem intToBits_length (n : Nat) (i : Int) : (intToBits n i).length = n := by
  simp [intToBits]

theorem bitsToNat_intToBits (n : Nat) (i : Int) (h0 : 0 ≤ i) (h1 : i < 2 ^ n) :
    (bitsToNat (intToBits n i) : Int) = i := by
  obtain ⟨m, rfl⟩ := Int.eq_ofNat_of_zero_le h0
  have hm : m < 2 ^ n := by exact_mod_cast h1
  unfold intToBits
  have : ((m : Int) % 2 ^ n).toNat = m := by
    rw [Int.emod_eq_of_lt h0 h1]; simp
  rw [this, bitsToNat_natToBits n m hm]

theorem bitsToInt_intToBits (n : Nat) (hn : 0 < n) (i : Int) (h0 : -((2 : Int) ^ (n - 1)) ≤ i) (h1 : i < 2 ^ (n - 1)) :
    bitsToInt (intToBits n i) = i := by
  obtain ⟨k, rfl⟩ : ∃ k, n = k + 1 := ⟨n - 1, by omega⟩
  simp only [Nat.add_sub_cancel] at h0 h1
  have hP : (0 : Int) < 2 ^ k := by positivity
  have hPn : (0 : Nat) < 2 ^ k := by positivity
  have hcast : ((2 ^ k : Nat) : Int) = (2 : Int) ^ k := by push_cast; rfl
  have h2 : (2 : Int) ^ (k + 1) = 2 * 2 ^ k := by ring
  unfold intToBits
  generalize hm : (i % (2 : Int) ^ (k + 1)).toNat = m
  have hmlt : m < 2 ^ (k + 1) := by
    have := Int.emod_lt_of_pos i (show (0 : Int) < 2 ^ (k + 1) by positivity)
    have h3 := Int.emod_nonneg i (show (2 : Int) ^ (k + 1) ≠ 0 by positivity)
    have : ((i % 2 ^ (k + 1)).toNat : Int) < ((2 ^ (k + 1) : Nat) : Int) := by
      rw [Int.toNat_of_nonneg h3]; push_cast; exact this
    rw [hm] at this
    exact_mod_cast this
  have hnat : bitsToNat (natToBits (k + 1) m) = m := bitsToNat_natToBits _ _ hmlt
  rw [C10.natToBits_succ_head] at hnat ⊢
  unfold bitsToInt
  simp only [List.length_cons, natToBits_length]
  rw [hnat]
  by_cases hi : 0 ≤ i
  · have hmi : (m : Int) = i := by
      rw [← hm, Int.toNat_of_nonneg (Int.emod_nonneg _ (by positivity)), Int.emod_eq_of_lt hi (by rw [h2]; linarith)]
    have hmk : m < 2 ^ k := by
      have : (m : Int) < ((2 ^ k : Nat) : Int) := by rw [hcast, hmi]; exact h1
      exact_mod_cast this
    have : m / 2 ^ k = 0 := Nat.div_eq_of_lt hmk
    simp [this, hmi]
  · have hmi : (m : Int) = i + 2 * 2 ^ k := by
      rw [← hm, Int.toNat_of_nonneg (Int.emod_nonneg _ (by positivity)), h2]
      rw [← Int.add_mul_emod_self_left i (2 * 2 ^ k) 1, Int.mul_one]
      exact Int.emod_eq_of_lt (by linarith) (by linarith)
    have hlo : 2 ^ k ≤ m := by
      have : ((2 ^ k : Nat) : Int) ≤ (m : Int) := by rw [hcast, hmi]; linarith
      exact_mod_cast this
    have hd : m / 2 ^ k = 1 := by
      apply Nat.div_eq_of_lt_le
      · simpa using hlo
      · rw [Nat.pow_succ] at hmlt; omega
    simp only [hd, Nat.one_mod, decide_true, if_true]
    rw [hmi, h2]; ring

theorem chunksF_nil (k f : Nat) : chunksF k f [] = [] := by
  cases f <;> simp [chunksF]

theorem chunksF_cons (k f : Nat) (b : Bits) (hb : b ≠ []) :
    chunksF k (f + 1) b = b.take k :: chunksF k f (b.drop k) := by
  rw [chunksF]; simp [hb]

theorem chunksF_fuel (k : Nat) (hk : 0 < k) (f1 f2 : Nat) (b : Bits) (h1 : b.length ≤ f1) (h2 : b.length ≤ f2) :
    chunksF k f1 b = chunksF k f2 b := by
  induction f1 generalizing f2 b with
  | zero =>
    have : b = [] := List.eq_nil_of_length_eq_zero (by omega)
    subst this; simp [chunksF_nil]
  | succ f1 ih =>
    by_cases hb : b = []
    · subst hb; simp [chunksF_nil]
    · have hpos : 0 < b.length := List.length_pos_iff.mpr hb
      obtain ⟨f2', rfl⟩ : ∃ f2', f2 = f2' + 1 := ⟨f2 - 1, by omega⟩
      rw [chunksF_cons k f1 b hb, chunksF_cons k f2' b hb]
      congr 1
      apply ih <;> simp <;> omega

theorem chunks_nil (k : Nat) : chunks k [] = [] := by simp [chunks, chunksF]

theorem chunks_cons (k : Nat) (hk : 0 < k) (b : Bits) (hb : b ≠ []) :
    chunks k b = b.take k :: chunks k (b.drop k) := by
  have hpos : 0 < b.length := List.length_pos_iff.mpr hb
  unfold chunks
  obtain ⟨f, hf⟩ : ∃ f, b.length = f + 1 := ⟨b.length - 1, by omega⟩
  rw [hf, chunksF_cons k f b hb]
  congr 1
  apply chunksF_fuel k hk <;> simp <;> omega

theorem chunks_append (k : Nat) (hk : 0 < k) (a rest : Bits) (ha : a.length = k) :
    chunks k (a ++ rest) = a :: chunks k rest := by
  have hne : a ++ rest ≠ [] := by
    intro h; have h' : a = [] := (List.append_eq_nil_iff.mp h).1; subst h'; simp at ha; omega
  rw [chunks_cons k hk _ hne]
  rw [List.take_left' ha, List.drop_left' ha]

theorem chunks_flatten (k : Nat) (hk : 0 < k) (b : Bits) : (chunks k b).flatten = b := by
  induction hn : b.length using Nat.strong_induction_on generalizing b with
  | _ n ih =>
    by_cases hb : b = []
    · subst hb; simp [chunks_nil]
    · have hpos : 0 < b.length := List.length_pos_iff.mpr hb
      rw [chunks_cons k hk b hb, List.flatten_cons, ih (b.drop k).length (by simp; omega) _ rfl]
      exact List.take_append_drop k b

theorem chunks_length_eq (k : Nat) (hk : 0 < k) (b : Bits) (h : b.length % k = 0) : ∀ c ∈ chunks k b, c.length = k := by
  induction hn : b.length using Nat.strong_induction_on generalizing b with
  | _ n ih =>
    by_cases hb : b = []
    · subst hb; simp [chunks_nil]
    · have hpos : 0 < b.length := List.length_pos_iff.mpr hb
      have hdvd : k ∣ b.length := Nat.dvd_of_mod_eq_zero h
      have hle : k ≤ b.length := Nat.le_of_dvd hpos hdvd
      rw [chunks_cons k hk b hb]
      intro c hc
      rcases List.mem_cons.mp hc with rfl | hc
      · simp; omega
      · refine ih (b.drop k).length (by simp; omega) (b.drop k) ?_ rfl c hc
        rw [List.length_drop]
        exact Nat.mod_eq_zero_of_dvd ((Nat.dvd_sub hdvd (Nat.dvd_refl k)))

theorem chunks_of_flatten (k : Nat) (hk : 0 < k) (cs : List Bits) (h : ∀ c ∈ cs, c.length = k) :
    chunks k cs.flatten = cs := by
  induction cs with
  | nil => simp [chunks_nil]
  | cons c cs ih =>
    rw [List.flatten_cons, chunks_append k hk c _ (h c (by simp)), ih (fun c' hc' => h c' (by simp [hc']))]

theorem byteRev_length (b : Bits) : (byteRev b).length = b.length := by
  unfold byteRev
  rw [List.length_flatten, List.map_reverse, List.sum_reverse, ← List.length_flatten, chunks_flatten 8 (by omega)]

theorem byteRev_byteRev (b : Bits) (h : b.length % 8 = 0) : byteRev (byteRev b) = b := by
  unfold byteRev
  rw [chunks_of_flatten 8 (by omega) _ (by
    intro c hc; exact chunks_length_eq 8 (by omega) b h c (List.mem_reverse.mp hc))]
  rw [List.reverse_reverse, chunks_flatten 8 (by omega)]

theorem isDigit_toNat (c : Char) (h : c.isDigit = true) : 48 ≤ c.toNat ∧ c.toNat ≤ 57 := by
  unfold Char.isDigit at h
  simp only [Bool.and_eq_true, decide_eq_true_eq, ge_iff_le] at h
  obtain ⟨a, b⟩ := h
  rw [UInt32.le_iff_toNat_le] at a b
  exact ⟨a, b⟩

theorem char_cases (c : Char) (lo hi : Nat) (h1 : lo ≤ c.toNat) (h2 : c.toNat ≤ hi) :
    ∃ n, lo ≤ n ∧ n ≤ hi ∧ c = Char.ofNat n := ⟨c.toNat, h1, h2, (Char.ofNat_toNat c).symm⟩

theorem lowerHex_mem (c : Char) (h : isLowerHex c = true) : c ∈ "0123456789abcdef".toList := by
  unfold isLowerHex hexVal? at h
  split at h
  · rename_i hd
    obtain ⟨a, b⟩ := isDigit_toNat c hd
    obtain ⟨n, h1, h2, rfl⟩ := char_cases c 48 57 a b
    interval_cases n <;> decide
  · split at h
    · rename_i hd
      obtain ⟨n, h1, h2, rfl⟩ := char_cases c 97 102 hd.1 hd.2
      interval_cases n <;> decide
    · simp at h

theorem hex_char_facts : ∀ c ∈ "0123456789abcdef".toList,
    isPyWs c = false ∧ c.toLower = c ∧ c ≠ '_' ∧ c ≠ 'x' ∧
    ∃ d, hexVal? c = some d ∧ d < 16 ∧ hexChar d = c := by
  decide
theorem mapM_option_all {α β} (f : α → Option β) (s : List α) (g : α → β) (h : ∀ c ∈ s, f c = some (g c)) :
    s.mapM f = some (s.map g) := by
  induction s with
  | nil => simp
  | cons c s ih =>
    rw [List.mapM_cons, h c (by simp), ih (fun c' hc' => h c' (by simp [hc']))]
    simp

theorem remove2_id (a b : Char) (s : Str) (h : b ∉ s) : remove2 a b s = s := by
  induction s using remove2.induct a b with
  | case1 => simp [remove2]
  | case2 x => simp [remove2]
  | case3 x y rest hxy ih => simp at h; exact absurd hxy.2.symm (by intro e; exact h.2.1 e)
  | case4 x y rest hxy ih =>
    rw [remove2]; simp only [hxy, if_false]
    rw [ih (by intro hm; exact h (by simp [List.mem_cons] at hm ⊢; tauto))]

theorem tidy_id (s : Str) (h : ∀ c ∈ s, isPyWs c = false ∧ c.toLower = c ∧ c ≠ '_') : tidy s = s := by
  unfold tidy removeWs
  have h1 : s.filter (fun c => !isPyWs c) = s := by
    apply List.filter_eq_self.mpr; intro c hc; simp [(h c hc).1]
  rw [h1]
  have h2 : s.map Char.toLower = s := by
    conv => rhs; rw [← List.map_id s]
    apply List.map_congr_left; intro c hc; simp [(h c hc).2.1]
  rw [h2]
  apply List.filter_eq_self.mpr; intro c hc; simp [(h c hc).2.2]

theorem chunks_digits (k : Nat) (hk : 0 < k) (ds : List Nat) (f : Nat → Char) (hd : ∀ d ∈ ds, d < 2 ^ k) :
    (chunks k (ds.flatMap (natToBits k))).map (fun c => f (bitsToNat c)) = ds.map f := by
  induction ds with
  | nil => simp [chunks_nil]
  | cons d ds ih =>
    rw [List.flatMap_cons, chunks_append k hk _ _ (natToBits_length k d), List.map_cons, List.map_cons,
      bitsToNat_natToBits k d (hd d (by simp)), ih (fun d' h' => hd d' (by simp [h']))]


theorem sum_map_const {α} (s : List α) (k : Nat) : (s.map fun _ => k).sum = k * s.length := by
  induction s with
  | nil => simp
  | cons x xs ih => simp [ih, Nat.mul_succ]; omega

theorem hex_roundtrip (s : Str) (hs : s.all isLowerHex = true) :
    ∃ tb, hexToBits s = .ok tb ∧ tb.length = 4 * s.length ∧ hexOfBits tb = s := by
  have hmem : ∀ c ∈ s, c ∈ "0123456789abcdef".toList := fun c hc => lowerHex_mem c (List.all_eq_true.mp hs c hc)
  have hf := fun c hc => hex_char_facts c (hmem c hc)
  have ht : tidy s = s := tidy_id s (fun c hc => ⟨(hf c hc).1, (hf c hc).2.1, (hf c hc).2.2.1⟩)
  have hr : remove2 '0' 'x' s = s := remove2_id _ _ s (fun hx => (hf 'x' hx).2.2.2.1 rfl)
  have hm : s.mapM hexVal? = some (s.map fun c => (hexVal? c).getD 0) :=
    mapM_option_all _ s _ (fun c hc => by obtain ⟨d, hd, -, -⟩ := (hf c hc).2.2.2.2; simp [hd])
  refine ⟨(s.map fun c => (hexVal? c).getD 0).flatMap (natToBits 4), ?_, ?_, ?_⟩
  · unfold hexToBits; rw [ht, hr, hm]
  · rw [List.length_flatMap]; simp [Function.comp_def, sum_map_const]
  · unfold hexOfBits
    rw [chunks_digits 4 (by omega) _ hexChar]
    · rw [List.map_map]
      conv => rhs; rw [← List.map_id s]
      apply List.map_congr_left
      intro c hc
      obtain ⟨d, hd, -, hch⟩ := (hf c hc).2.2.2.2
      simp [hd, hch]
    · intro d hd
      obtain ⟨c, hc, rfl⟩ := List.mem_map.mp hd
      obtain ⟨d', hd', hlt, -⟩ := (hf c hc).2.2.2.2
      simp [hd']; omega

theorem bin_char_facts : ∀ c ∈ "01".toList,
    isPyWs c = false ∧ c.toLower = c ∧ c ≠ '_' ∧ c ≠ 'b' := by decide

theorem bin_roundtrip (s : Str) (hs : s.all isBinDigit = true) :
    ∃ tb, binToBits s = .ok tb ∧ tb.length = s.length ∧ binOfBits tb = s := by
  have hmem : ∀ c ∈ s, c ∈ "01".toList := by
    intro c hc
    have := List.all_eq_true.mp hs c hc
    simp [isBinDigit] at this
    rcases this with rfl | rfl <;> decide
  have hf := fun c hc => bin_char_facts c (hmem c hc)
  have ht : tidy s = s := tidy_id s (fun c hc => ⟨(hf c hc).1, (hf c hc).2.1, (hf c hc).2.2.1⟩)
  have hr : remove2 '0' 'b' s = s := remove2_id _ _ s (fun hx => (hf 'b' hx).2.2.2 rfl)
  have hm : s.mapM (fun c => if c = '1' then some true else if c = '0' then some false else none)
      = some (s.map fun c => decide (c = '1')) :=
    mapM_option_all _ s _ (fun c hc => by
      have := hmem c hc
      simp at this
      rcases this with rfl | rfl <;> simp)
  refine ⟨s.map fun c => decide (c = '1'), ?_, by simp, ?_⟩
  · unfold binToBits; rw [ht, hr, hm]
  · unfold binOfBits
    rw [List.map_map]
    conv => rhs; rw [← List.map_id s]
    apply List.map_congr_left
    intro c hc
    have := hmem c hc
    simp at this
    rcases this with rfl | rfl <;> simp

theorem isOctDigit_mem (c : Char) (h : isOctDigit c = true) : c ∈ "01234567".toList := by
  simp only [isOctDigit, Bool.and_eq_true, decide_eq_true_eq] at h
  obtain ⟨n, h1, h2, rfl⟩ := char_cases c 48 55 h.1 h.2
  interval_cases n <;> decide

theorem oct_char_facts : ∀ c ∈ "01234567".toList,
    isPyWs c = false ∧ c.toLower = c ∧ c ≠ '_' ∧ c ≠ 'o' ∧
    ('0'.toNat ≤ c.toNat ∧ c.toNat ≤ '7'.toNat) ∧ c.toNat - 48 < 8 ∧ Char.ofNat (48 + (c.toNat - 48)) = c := by
  decide

theorem oct_roundtrip (s : Str) (hs : s.all isOctDigit = true) :
    ∃ tb, octToBits s = .ok tb ∧ tb.length = 3 * s.length ∧ octOfBits tb = s := by
  have hmem : ∀ c ∈ s, c ∈ "01234567".toList := fun c hc => isOctDigit_mem c (List.all_eq_true.mp hs c hc)
  have hf := fun c hc => oct_char_facts c (hmem c hc)
  have ht : tidy s = s := tidy_id s (fun c hc => ⟨(hf c hc).1, (hf c hc).2.1, (hf c hc).2.2.1⟩)
  have hr : remove2 '0' 'o' s = s := remove2_id _ _ s (fun hx => (hf 'o' hx).2.2.2.1 rfl)
  have hm : s.mapM (fun c => if '0'.toNat ≤ c.toNat ∧ c.toNat ≤ '7'.toNat then some (c.toNat - 48) else none)
      = some (s.map fun c => c.toNat - 48) :=
    mapM_option_all _ s _ (fun c hc => by rw [if_pos (hf c hc).2.2.2.2.1])
  refine ⟨(s.map fun c => c.toNat - 48).flatMap (natToBits 3), ?_, ?_, ?_⟩
  · unfold octToBits; rw [ht, hr, hm]
  · rw [List.length_flatMap]; simp [Function.comp_def, sum_map_const]
  · unfold octOfBits
    rw [chunks_digits 3 (by omega) _ (fun n => Char.ofNat (48 + n))]
    · rw [List.map_map]
      conv => rhs; rw [← List.map_id s]
      apply List.map_congr_left
      intro c hc
      simpa using (hf c hc).2.2.2.2.2.2
    · intro d hd
      obtain ⟨c, hc, rfl⟩ := List.mem_map.mp hd
      have := (hf c hc).2.2.2.2.2.1
      omega

end BM.C05
