/-
  Proofs/C15.lean — helper lemmas for Props/C15.lean: lengths of the encodings, and every creation route
  (Dtype.build, token strings, pack, keyword, name-with-length, property assignment, Array element) reduced to the
  case analysis of Proofs/C15Raw.lean.  (Integers, byte groups and digit strings are in Proofs/C15Core.lean.)
-/
import BitstringModel.Proofs.C15Raw
set_option linter.unusedSimpArgs false
set_option linter.unusedTactic false
set_option linter.unreachableTactic false
namespace BM.C15
open BM

/-! ### lengths of the encodings -/

theorem fromBytes_length (ds : List Nat) : (fromBytes ds).length = 8 * ds.length := by
  unfold fromBytes; exact flatMap_natToBits_length 8 ds

theorem intToBits_length (n : Nat) (i : Int) : (intToBits n i).length = n := by simp [intToBits]

theorem leBits_intToBits_length (n : Int) (i : Int) (h1 : 1 ≤ n) (h8 : n % 8 = 0) :
    ((leBits (intToBits n.toNat i)).length : Int) = n := by
  rw [leBits_length _ (by rw [intToBits_length]; omega), intToBits_length]; omega

theorem leBits_natToBits_length (n c : Nat) (h8 : n % 8 = 0) : (leBits (natToBits n c)).length = n := by
  rw [leBits_length _ (by simp [h8])]; simp

theorem digits_enc_length (k : DigitKind) (s : List Char)
    (h : ((cleaned k s).all fun c => (k.val? c).isSome) = true) :
    (((cleaned k s).filterMap k.val?).flatMap (natToBits k.width)).length = k.width * (cleaned k s).length := by
  rw [flatMap_natToBits_length, filterMap_length_of_all _ _ h]

theorem encode_length_aux (d : DT) (n : Int) (v : Val) (h : valid d (some n) v = true) :
    ((encode d (some n) v).length : Int) = n * (defOf d).mult := by
  cases d <;> cases v <;> simp [valid] at h
  case uint.int => simp [encode, defOf, intToBits_length]; omega
  case int.int => simp [encode, defOf, intToBits_length]; omega
  case uintbe.int => simp [encode, defOf, intToBits_length]; omega
  case intbe.int => simp [encode, defOf, intToBits_length]; omega
  case uintle.int i =>
    simp [isEndian] at h
    simp only [encode, defOf, Option.getD_some, Nat.cast_one, mul_one]
    exact leBits_intToBits_length n i h.1.1 h.1.2
  case intle.int i =>
    simp [isEndian] at h
    simp only [encode, defOf, Option.getD_some, Nat.cast_one, mul_one]
    exact leBits_intToBits_length n i h.1.1 h.1.2
  case hex.str s =>
    have := digits_enc_length .hex s (by simpa [DigitKind.val?] using h.1)
    simp only [encode, defOf, Nat.cast_one, mul_one]
    simp only [DigitKind.val?, DigitKind.width] at this
    rw [this]; simp [lenIs] at h; omega
  case oct.str s =>
    have := digits_enc_length .oct s (by simpa [DigitKind.val?] using h.1)
    simp only [encode, defOf, Nat.cast_one, mul_one]
    simp only [DigitKind.val?, DigitKind.width] at this
    rw [this]; simp [lenIs] at h; omega
  case bin.str s =>
    have := digits_enc_length .bin s (by simpa [DigitKind.val?] using h.1)
    simp only [encode, defOf, Nat.cast_one, mul_one]
    simp only [DigitKind.val?, DigitKind.width] at this
    rw [this]; simp [lenIs] at h; omega
  case float.float a b c =>
    simp only [encode, defOf, Option.getD_some, Nat.cast_one, mul_one, natToBits_length]
    omega
  case floatle.float a b c =>
    simp only [encode, defOf, Option.getD_some, Nat.cast_one, mul_one]
    rw [leBits_natToBits_length _ _ (by omega)]; omega
  case bfloat.float a b c =>
    simp [lenIs] at h
    simp [encode, defOf, h]
  case bfloatle.float a b c =>
    simp [lenIs] at h
    simp only [encode, defOf, Nat.cast_one, mul_one]
    rw [leBits_natToBits_length _ _ (by decide)]; omega
  case bits.bits b => simp [lenIs] at h; simp [encode, defOf, h]
  case bool.int i => simp [lenIs] at h; simp [encode, defOf, h]
  case bool.str s => simp [lenIs] at h; simp [encode, defOf, h]
  case bytes.bytes ds => simp [lenIs] at h; simp [encode, defOf, fromBytes_length, h]; omega
  case fx8.code c => simp [lenIs] at h; simp [encode, defOf, h]
  case fx6.code c => simp [lenIs] at h; simp [encode, defOf, h]
  case fx4.code c => simp [lenIs] at h; simp [encode, defOf, h]

theorem encode_length_none (d : DT) (v : Val) (x : Int) (h : valid d none v = true)
    (hx : (defOf d).allowed.onlyOne = some x) : ((encode d none v).length : Int) = x * (defOf d).mult := by
  cases d <;> simp [defOf, Allowed.onlyOne] at hx <;> subst hx <;> cases v <;> simp [valid] at h <;>
    simp [encode, defOf]
  case bfloatle.float a b c => rw [leBits_natToBits_length _ _ (by decide)]; rfl

theorem valid_neg (d : DT) (n : Int) (v : Val) (hn : n < 0) : valid d (some n) v = false := by
  cases hv : valid d (some n) v with
  | false => rfl
  | true =>
    have := encode_length_aux d n v hv
    have h0 : (0 : Int) ≤ ((encode d (some n) v).length : Int) := Int.natCast_nonneg _
    have hm : (1 : Int) ≤ ((defOf d).mult : Int) := by cases d <;> simp [defOf]
    nlinarith

/-- Where a route without the final length check would succeed wrongly (`kwLU0`), the value's own bits do not have the stated length. -/
theorem kwLU0_len_ne (d : DT) (n : Int) (v : Val) (h : kwLU0 d (some n) v = true) :
    ((encode d none v).length : Int) ≠ n * (defOf d).mult := by
  unfold kwLU0 at h
  simp only [Bool.and_eq_true, Bool.not_eq_true'] at h
  obtain ⟨⟨⟨⟨hk, _⟩, _⟩, hv0⟩, hv1⟩ := h
  cases d <;> simp [lenUncheckedKind] at hk <;> cases v <;> simp [valid] at hv0
  case hex.str s =>
    simp only [lenIs, Bool.and_true] at hv0
    have hall : ((cleaned .hex s).all fun c => ((DigitKind.hex).val? c).isSome) = true := by
      simpa [DigitKind.val?] using hv0
    have := digits_enc_length .hex s hall
    simp only [DigitKind.val?, DigitKind.width] at this
    simp only [encode, defOf, Nat.cast_one, mul_one, this]
    simp only [DigitKind.val?] at hall
    simp [valid, hall, lenIs] at hv1
    push_cast; omega
  case oct.str s =>
    simp only [lenIs, Bool.and_true] at hv0
    have hall : ((cleaned .oct s).all fun c => ((DigitKind.oct).val? c).isSome) = true := by
      simpa [DigitKind.val?] using hv0
    have := digits_enc_length .oct s hall
    simp only [DigitKind.val?, DigitKind.width] at this
    simp only [encode, defOf, Nat.cast_one, mul_one, this]
    simp only [DigitKind.val?] at hall
    simp [valid, hall, lenIs] at hv1
    push_cast; omega
  case bin.str s =>
    simp only [lenIs, Bool.and_true] at hv0
    have hall : ((cleaned .bin s).all fun c => ((DigitKind.bin).val? c).isSome) = true := by
      simpa [DigitKind.val?] using hv0
    have := digits_enc_length .bin s hall
    simp only [DigitKind.val?, DigitKind.width] at this
    simp only [encode, defOf, Nat.cast_one, mul_one, this]
    simp only [DigitKind.val?] at hall
    simp [valid, hall, lenIs] at hv1
    push_cast; omega
  case bits.bits b =>
    simp [valid, lenIs] at hv1
    simp only [encode, defOf, Nat.cast_one, mul_one]; omega
  case bytes.bytes ds =>
    simp [valid, lenIs] at hv1
    simp only [encode, defOf, fromBytes_length]; push_cast; omega

/-! ### the current length does not matter once a length is bound, and an empty store counts as none -/

theorem lenOrCur_none_zero (len : Option Int) : lenOrCur len none = lenOrCur len (some 0) := by
  cases len <;> simp [lenOrCur]

theorem setFn_none_zero (d : DT) (v : Val) (len : Option Int) : setFn d v len none = setFn d v len (some 0) := by
  cases d <;> simp [setFn, setInt, setFloat, lenOrCur_none_zero]

theorem callSet_none_zero (d : DT) (dl : Option Int) (v : Val) : callSet d dl v none = callSet d dl v (some 0) := by
  unfold callSet; exact setFn_none_zero d v _

theorem getDtype_some_ok (d : DT) (n : Int) (dl : Option Int) (h : getDtype d (some n) = .ok dl) : dl = some n := by
  unfold getDtype at h
  simp only at h
  split at h
  · cases h
  · split at h
    · cases h
    · split at h
      · cases h
      · injection h with h; exact h.symm

theorem getDtype_none_ok (d : DT) : getDtype d none = .ok (defOf d).allowed.onlyOne := by
  cases d <;> simp [getDtype, defOf, Allowed.onlyOne]

theorem getDtype_none0 (d : DT) : getDtype d none = getDtype0 d none := rfl

theorem getDtype_nonneg (d : DT) (n : Int) (hn : 0 ≤ n) : getDtype d (some n) = getDtype0 d (some n) := by
  unfold getDtype getDtype0
  simp only [show ¬ n < 0 by omega, if_false]

theorem getDtype_neg (d : DT) (n : Int) (hn : n < 0) : getDtype d (some n) = .error .value := by
  unfold getDtype
  simp only [hn, if_true]
  split
  · rfl
  · split <;> rfl

/-! ### every route without its final length check, with the `length < 0` refusal of `get_dtype` -/

def raw (d : DT) (len : Option Int) (v : Val) : Except Err Bits :=
  match getDtype d len with
  | .error e => .error e
  | .ok dl => callSet d dl v (some 0)

/-- Where a route without a final length check would succeed with the wrong length. -/
def kwLU (d : DT) (len : Option Int) (v : Val) : Bool := kwLU0 d len v && decide (0 ≤ len.getD 0)

def spec3 (d : DT) (len : Option Int) (v : Val) : Except Err Bits :=
  if valid d len v = true then .ok (encode d len v)
  else if kwLU d len v = true then .ok (encode d none v) else .error .value

theorem raw_raw0 (d : DT) (len : Option Int) (v : Val) (h : getDtype d len = getDtype0 d len) :
    raw d len v = raw0 d len v := by
  unfold raw raw0; rw [h]; cases getDtype0 d len <;> rfl

theorem raw_eq (d : DT) (len : Option Int) (v : Val) (hw : wellTyped d v = true) : raw d len v = spec3 d len v := by
  have h0 := raw0_eq d len v hw
  unfold spec30 at h0
  unfold spec3 kwLU
  cases len with
  | none => rw [raw_raw0 d none v (getDtype_none0 d), h0]; simp
  | some n =>
    by_cases hn : n < 0
    · unfold raw
      rw [getDtype_neg d n hn, valid_neg d n v hn]
      simp [show ¬ (0 ≤ n) by omega]
    · rw [raw_raw0 d (some n) v (getDtype_nonneg d n (by omega)), h0]
      simp [show 0 ≤ n by omega]

theorem kwLU_len_ne (d : DT) (n : Int) (v : Val) (h : kwLU d (some n) v = true) :
    ((encode d none v).length : Int) ≠ n * (defOf d).mult := by
  unfold kwLU at h
  simp only [Bool.and_eq_true] at h
  exact kwLU0_len_ne d n v h.1

/-! ### the routes -/

theorem spec3_error (d : DT) (len : Option Int) (v : Val) (e : Err) (h : spec3 d len v = .error e) :
    e = .value ∧ valid d len v = false ∧ kwLU d len v = false := by
  unfold spec3 at h
  by_cases hv : valid d len v = true
  · rw [if_pos hv] at h; cases h
  · rw [if_neg hv] at h
    by_cases hk : kwLU d len v = true
    · rw [if_pos hk] at h; cases h
    · rw [if_neg hk] at h
      injection h with h
      exact ⟨h.symm, by simpa using hv, by simpa using hk⟩

theorem kwLU_none (d : DT) (v : Val) : kwLU d none v = false := by
  unfold kwLU kwLU0; simp

theorem build_eq_aux (d : DT) (len : Option Int) (v : Val) (hw : wellTyped d v = true) :
    build d len v = if valid d len v = true then .ok (encode d len v) else .error .value := by
  have hr := raw_eq d len v hw
  unfold raw at hr
  unfold build
  cases hg : getDtype d len with
  | error e =>
    rw [hg] at hr
    obtain ⟨he, hv, _⟩ := spec3_error d len v e hr.symm
    simp only [hv, Bool.false_eq_true, if_false, he]
  | ok dl =>
    rw [hg] at hr
    simp only at hr ⊢
    rw [hr]
    unfold spec3
    by_cases hv : valid d len v = true
    · simp only [hv, if_true]
      cases len with
      | none =>
        rw [getDtype_none_ok] at hg
        injection hg with hg
        subst hg
        cases hx : (defOf d).allowed.onlyOne with
        | none => simp [bitLen]
        | some x =>
          have := encode_length_none d v x hv hx
          simp [bitLen, this]
      | some n =>
        have := getDtype_some_ok d n dl hg
        subst this
        have := encode_length_aux d n v hv
        simp [bitLen, this]
    · simp only [hv, if_false]
      by_cases hk : kwLU d len v = true
      · simp only [hk, if_true]
        cases len with
        | none => rw [kwLU_none] at hk; cases hk
        | some n =>
          have := getDtype_some_ok d n dl hg
          subst this
          have := kwLU_len_ne d n v hk
          simp [bitLen, this]
      · simp [hv, hk]

theorem fromToken_eq_aux (d : DT) (len : Option Int) (v : Val) (hw : wellTyped d v = true) :
    fromToken d len v = if valid d len v = true then .ok (encode d len v) else .error .value := by
  have hb := build_eq_aux d len v hw
  unfold fromToken
  cases hg : getDtype d len with
  | error e =>
    have : build d len v = .error e := by unfold build; rw [hg]
    rw [this] at hb
    by_cases hv : valid d len v = true
    · rw [if_pos hv] at hb; cases hb
    · rw [if_neg hv] at hb ⊢; exact hb
  | ok dl =>
    simp only
    rw [hb]
    by_cases hv : valid d len v = true
    · simp only [hv, if_true]
      cases len with
      | none => rfl
      | some n =>
        have := getDtype_some_ok d n dl hg
        subst this
        have := encode_length_aux d n v hv
        simp [bitLen, this]
    · simp [hv]

theorem packRoute_eq_aux (d : DT) (len : Option Int) (v : Val) (hw : wellTyped d v = true) :
    packRoute d len v = if valid d len v = true then .ok (encode d len v) else .error .value := by
  have hf := fromToken_eq_aux d len v hw
  cases d <;> cases v <;> simp [wellTyped] at hw <;> try (exact hf)
  case bits.bits b =>
    unfold packRoute
    cases len with
    | none => simp [valid, encode, lenIs]
    | some n =>
      by_cases h : n = (b.length : Int)
      · simp [valid, encode, lenIs, h]
      · simp [valid, encode, lenIs, h]

theorem build_some_cur (d : DT) (n : Int) (v : Val) :
    propnSet d n v = if n < 0 then .error .value else build d (some n) v := by
  unfold propnSet build
  by_cases hn : n < 0
  · simp [hn]
  · simp only [hn, if_false]
    cases hg : getDtype d (some n) with
    | error e => rfl
    | ok dl =>
      have := getDtype_some_ok d n dl hg
      subst this
      simp only [callSet_none_zero]
      cases callSet d (some n) v (some 0) with
      | error e => rfl
      | ok x => simp [bitLen]

theorem propnSet_eq_aux (d : DT) (n : Int) (v : Val) (hw : wellTyped d v = true) :
    propnSet d n v = if valid d (some n) v = true then .ok (encode d (some n) v) else .error .value := by
  rw [build_some_cur]
  by_cases hn : n < 0
  · simp [hn, valid_neg d n v hn]
  · simp only [hn, if_false]; exact build_eq_aux d (some n) v hw

theorem createElement_eq_aux (d : DT) (n : Int) (v : Val) (hw : wellTyped d v = true) :
    createElement d n v = if valid d (some n) v = true then .ok (encode d (some n) v) else .error .value := by
  unfold createElement
  rw [build_eq_aux d (some n) v hw]
  by_cases hv : valid d (some n) v = true
  · have := encode_length_aux d n v hv
    simp [hv, this]
  · simp [hv]

theorem kwRoute_core (d : DT) (len : Option Int) (v : Val) (hd : d ≠ .bytes) :
    kwRoute d v len none = build d len v := by
  unfold build
  cases d <;> simp at hd <;> simp only [kwRoute, callSet_none_zero, checkLen] <;>
    (cases getDtype _ len <;> rfl)

theorem kwRoute_eq_aux (d : DT) (len : Option Int) (v : Val) (hw : wellTyped d v = true) (hd : d ≠ .bytes) :
    kwRoute d v len none = if valid d len v = true then .ok (encode d len v) else .error .value := by
  rw [kwRoute_core d len v hd, build_eq_aux d len v hw]

theorem kwRoute_offset_aux (d : DT) (len : Option Int) (off : Int) (v : Val) (hd : d ≠ .bytes) :
    kwRoute d v len (some off) = .error .value := by
  cases d <;> simp at hd <;> simp [kwRoute]

theorem kwnRoute_eq_aux (d : DT) (n : Int) (v : Val) (hw : wellTyped d v = true) :
    kwnRoute d n v = if valid d (some n) v = true then .ok (encode d (some n) v) else .error .value := by
  by_cases hn : n < 0
  · unfold kwnRoute; simp [hn, valid_neg d n v hn]
  · have : kwnRoute d n v = build d (some n) v := by
      unfold kwnRoute build
      simp only [hn, if_false, callSet_none_zero, checkLen]
    rw [this, build_eq_aux d (some n) v hw]

/-! ### plain property assignment -/

theorem spec3_noKw (d : DT) (len : Option Int) (v : Val) (hk : kwLU d len v = false) :
    spec3 d len v = if valid d len v = true then .ok (encode d len v) else .error .value := by
  unfold spec3; rw [hk]; simp

theorem setInt_cur (sg le en : Bool) (v : Val) (c : Nat) (hc : c ≠ 0) :
    setInt sg le en v none (some c) = setInt sg le en v (some (c : Int)) (some 0) := by
  unfold setInt lenOrCur; simp [hc]

theorem setFloat_cur (le : Bool) (v : Val) (c : Nat) (hc : c ≠ 0) :
    setFloat le v none (some c) = setFloat le v (some (c : Int)) (some 0) := by
  unfold setFloat lenOrCur; simp [hc]

theorem propSet_int (d : DT) (hd : isInt d = true) (cur : Bits) (v : Val) (hw : wellTyped d v = true) :
    propSet d cur v =
      if valid d (effLen d cur) v = true then .ok (encode d (effLen d cur) v) else .error .value := by
  unfold propSet
  have hk : ∀ l, kwLU d l v = false := by
    intro l; cases d <;> simp [isInt] at hd <;> simp [kwLU, kwLU0, lenUncheckedKind]
  have heff : effLen d cur = if cur.length ≠ 0 then some (cur.length : Int) else none := by
    cases d <;> simp [isInt] at hd <;> rfl
  by_cases hc : cur.length = 0
  · have h1 : setFn d v none (some cur.length) = .error .value := by
      rw [hc]; cases d <;> simp [isInt] at hd <;> simp [setFn, setInt_none0]
    have hv : valid d none v = false := by
      cases d <;> simp [isInt] at hd <;> cases v <;> simp [valid]
    rw [h1, heff]; simp [hc, hv]
  · by_cases h8 : isEndian d = true ∧ (cur.length : Int) % 8 ≠ 0
    · -- the byte-order setters refuse a length that is not whole bytes
      have h1 : setFn d v none (some cur.length) = .error .value := by
        cases d <;> simp [isInt] at hd <;> simp [isEndian] at h8 <;>
          simp [setFn, setInt_cur _ _ _ _ _ hc, setInt_not8 _ _ _ _ _ h8]
      have hv : valid d (some (cur.length : Int)) v = false := by
        cases d <;> simp [isInt] at hd <;> simp [isEndian] at h8 <;> cases v <;> simp [valid, isEndian, h8]
      rw [h1, heff]; simp [hc, hv]
    · have h8' : isEndian d = true → (cur.length : Int) % 8 = 0 := by
        intro he
        by_contra hne
        exact h8 ⟨he, hne⟩
      have h1 : setFn d v none (some cur.length) = raw d (some (cur.length : Int)) v := by
        unfold raw
        have hnn : ¬ ((cur.length : Int) < 0) := by omega
        cases d <;> simp [isInt] at hd <;>
          simp [getDtype, defOf, Allowed.contains, callSet, bitLen, setFn, setInt_cur _ _ _ _ _ hc, hnn]
        all_goals (have := h8' rfl; simp [this])
      rw [h1, raw_eq _ _ _ hw, heff, spec3_noKw _ _ _ (hk _)]
      simp [hc]

theorem propSet_float (d : DT) (hd : d = .float ∨ d = .floatle) (cur : Bits) (v : Val) (hw : wellTyped d v = true) :
    propSet d cur v =
      if valid d (effLen d cur) v = true then .ok (encode d (effLen d cur) v) else .error .value := by
  unfold propSet
  have hk : ∀ l, kwLU d l v = false := by
    intro l; rcases hd with rfl | rfl <;> simp [kwLU, kwLU0, lenUncheckedKind]
  have heff : effLen d cur = if cur.length ≠ 0 then some (cur.length : Int) else none := by
    rcases hd with rfl | rfl <;> rfl
  by_cases hc : cur.length = 0
  · have h1 : setFn d v none (some cur.length) = .error .value := by
      rw [hc]; rcases hd with rfl | rfl <;> simp [setFn, setFloat_none0]
    have hv : valid d none v = false := by
      rcases hd with rfl | rfl <;> cases v <;> simp [valid]
    rw [h1, heff]; simp [hc, hv]
  · by_cases h : (cur.length : Int) = 16 ∨ (cur.length : Int) = 32 ∨ (cur.length : Int) = 64
    · have h1 : setFn d v none (some cur.length) = raw d (some (cur.length : Int)) v := by
        unfold raw
        rcases hd with rfl | rfl <;> rcases h with h | h | h <;>
          simp [getDtype, defOf, Allowed.contains, callSet, bitLen, setFn, setFloat_cur _ _ _ hc, h]
      rw [h1, raw_eq _ _ _ hw, heff, spec3_noKw _ _ _ (hk _)]
      simp [hc]
    · have h1 : setFn d v none (some cur.length) = .error .value := by
        rcases hd with rfl | rfl <;>
          simp [setFn, setFloat_cur _ _ _ hc] <;> (unfold setFloat lenOrCur; simp [h])
      have hv : valid d (some (cur.length : Int)) v = false := by
        have g1 : (cur.length : Int) ≠ 16 := fun e => h (Or.inl e)
        have g2 : (cur.length : Int) ≠ 32 := fun e => h (Or.inr (Or.inl e))
        have g3 : (cur.length : Int) ≠ 64 := fun e => h (Or.inr (Or.inr e))
        rcases hd with rfl | rfl <;> cases v <;> simp [valid, g1, g2, g3]
      rw [h1, heff]; simp [hc, hv]

theorem propSet_other (d : DT) (hi : isInt d = false) (hf : d ≠ .float ∧ d ≠ .floatle) (cur : Bits) (v : Val)
    (hw : wellTyped d v = true) :
    propSet d cur v =
      if valid d (effLen d cur) v = true then .ok (encode d (effLen d cur) v) else .error .value := by
  unfold propSet
  have heff : effLen d cur = none := by
    cases d <;> simp [isInt] at hi <;> simp at hf <;> rfl
  have h1 : setFn d v none (some cur.length) = raw d none v := by
    unfold raw
    rw [getDtype_none_ok]
    cases d <;> simp [isInt] at hi <;> simp at hf <;>
      simp [defOf, Allowed.onlyOne, callSet, bitLen, setFn, setBfloat]
  rw [h1, raw_eq _ _ _ hw, heff, spec3_noKw _ _ _ (kwLU_none d v)]

theorem propSet_eq_aux (d : DT) (cur : Bits) (v : Val) (hw : wellTyped d v = true) :
    propSet d cur v =
      if valid d (effLen d cur) v = true then .ok (encode d (effLen d cur) v) else .error .value := by
  by_cases hi : isInt d = true
  · exact propSet_int d hi cur v hw
  · by_cases hf : d = .float ∨ d = .floatle
    · exact propSet_float d hf cur v hw
    · exact propSet_other d (by simpa using hi) (by simpa [not_or] using hf) cur v hw

/-! ### assignment outcomes -/

theorem accepted_assignment_aux (d : DT) (n : Int) (cur : Bits) (v : Val) (hw : wellTyped d v = true)
    (h : (assign d (some n) cur v).err = none) :
    valid d (some n) v = true ∧ (assign d (some n) cur v).bits = encode d (some n) v := by
  unfold assign at h ⊢
  simp only at h ⊢
  rw [propnSet_eq_aux d n v hw] at h ⊢
  by_cases hv : valid d (some n) v = true
  · simp [hv]
  · simp [hv] at h

theorem arr_index_iff (count key : Int) (hc : 0 ≤ count) :
    ¬ ((if key < 0 then key + count else key) < 0 ∨ (if key < 0 then key + count else key) ≥ count) ↔
      (-count ≤ key ∧ key < count) := by
  by_cases hk : key < 0 <;> simp [hk] <;> omega

theorem arrSet_err_iff_aux (d : DT) (n : Nat) (data : Bits) (key : Int) (v : Val)
    (hw : wellTyped d v = true) :
    (arrSet d n data key v).err ≠ none ↔
      (¬ (-(data.length / (n * (defOf d).mult : Nat) : Int) ≤ key ∧ key < (data.length / (n * (defOf d).mult : Nat) : Int))
        ∨ valid d (some n) v = false) := by
  generalize hwd : n * (defOf d).mult = w
  have hc : (0 : Int) ≤ (data.length / w : Int) := Int.ediv_nonneg (Int.natCast_nonneg _) (Int.natCast_nonneg _)
  have hidx := arr_index_iff (data.length / w : Int) key hc
  unfold arrSet
  simp only [hwd]
  by_cases hk : (if key < 0 then key + (data.length / w : Int) else key) < 0 ∨
      (if key < 0 then key + (data.length / w : Int) else key) ≥ (data.length / w : Int)
  · rw [if_pos hk]
    have : ¬ (-(data.length / w : Int) ≤ key ∧ key < (data.length / w : Int)) := fun h => (hidx.2 h) hk
    simp [this]
  · rw [if_neg hk]
    have hin := hidx.1 hk
    rw [createElement_eq_aux d n v hw]
    by_cases hv : valid d (some (n : Int)) v = true
    · simp [hv, hin]
    · simp [hv, hin]

theorem arrSet_ok_frame_aux (d : DT) (n : Nat) (data : Bits) (key : Int) (v : Val)
    (hw : wellTyped d v = true) (hn : 0 < n)
    (h : (arrSet d n data key v).err = none) :
    ∃ k : Nat, (k : Int) = (if key < 0 then key + (data.length / (n * (defOf d).mult : Nat) : Int) else key) ∧
      k < data.length / (n * (defOf d).mult) ∧
      (arrSet d n data key v).bits = data.take (n * (defOf d).mult * k) ++ encode d (some n) v
        ++ data.drop (n * (defOf d).mult * k + n * (defOf d).mult) ∧
      (arrSet d n data key v).bits.length = data.length := by
  have hm : 1 ≤ (defOf d).mult := by cases d <;> simp [defOf]
  generalize hwd : n * (defOf d).mult = w
  have hw0 : 0 < w := by rw [← hwd]; exact Nat.mul_pos hn hm
  have hcast : ((data.length : Int) / (w : Int)) = ((data.length / w : Nat) : Int) := by norm_cast
  unfold arrSet at h ⊢
  simp only [hwd] at h ⊢
  by_cases hk : (if key < 0 then key + (data.length / w : Int) else key) < 0 ∨
      (if key < 0 then key + (data.length / w : Int) else key) ≥ (data.length / w : Int)
  · rw [if_pos hk] at h; cases h
  · rw [if_neg hk] at h ⊢
    rw [createElement_eq_aux d n v hw] at h ⊢
    by_cases hv : valid d (some (n : Int)) v = true
    · simp only [hv, if_true] at h ⊢
      have hlen := encode_length_aux d n v hv
      have hlen' : (encode d (some (n : Int)) v).length = w := by
        have : ((encode d (some (n : Int)) v).length : Int) = (w : Int) := by rw [hlen, ← hwd]; push_cast; ring
        exact_mod_cast this
      simp only [not_or, not_lt, ge_iff_le, not_le] at hk
      obtain ⟨k, hkk⟩ := Int.eq_ofNat_of_zero_le hk.1
      have hklt : k < data.length / w := by
        have := hk.2; rw [hkk, hcast] at this; exact_mod_cast this
      have hstart : ((w : Int) * (if key < 0 then key + (data.length / w : Int) else key)).toNat = w * k := by
        rw [hkk]; norm_cast
      have hfit : w * k + w ≤ data.length := by
        have h1 : k + 1 ≤ data.length / w := hklt
        have h2 : w * (k + 1) ≤ w * (data.length / w) := Nat.mul_le_mul_left w h1
        have h3 : w * (data.length / w) ≤ data.length := Nat.mul_div_le data.length w
        have : w * (k + 1) = w * k + w := by ring
        omega
      refine ⟨k, hkk.symm, hklt, ?_, ?_⟩
      · rw [hstart, hlen']
      · rw [hstart, hlen']
        simp only [List.length_append, List.length_take, List.length_drop, hlen']
        omega
    · simp [hv] at h

end BM.C15
