/-
  Proofs/C15.lean — helper lemmas for Props/C15.lean.
-/
import BitstringModel.Model.C15
import BitstringModel.Proofs.Basic
import Mathlib.Tactic.Ring
import Mathlib.Tactic.Linarith

namespace BM.C15
open BM

theorem int2bitsWith_exact_aux (ba : Int → Int → Bool → Except BaErr Bits)
    (hlen : ∀ i n s, n ≤ 0 → ba i n s = .error .value)
    (hovf : ∀ i n s, 0 < n → inRange s n.toNat i = false → ba i n s = .error .overflow)
    (hok : ∀ i n s, 0 < n → inRange s n.toNat i = true → ∃ b, ba i n s = .ok b)
    (i n : Int) (s : Bool) :
    (∃ b, int2bitsWith ba i n s = .ok b) ↔ (1 ≤ n ∧ inRange s n.toNat i = true) := by
  sorry

theorem int2bitsWith_never_internal_aux (ba : Int → Int → Bool → Except BaErr Bits)
    (hlen : ∀ i n s, n ≤ 0 → ba i n s = .error .value)
    (hovf : ∀ i n s, 0 < n → inRange s n.toNat i = false → ba i n s = .error .overflow)
    (hok : ∀ i n s, 0 < n → inRange s n.toNat i = true → ∃ b, ba i n s = .ok b)
    (i n : Int) (s : Bool) :
    (∃ b, int2bitsWith ba i n s = .ok b) ∨ int2bitsWith ba i n s = .error .value := by
  sorry

theorem int2bits_total_aux (i n : Int) (s : Bool) :
    int2bits i n s =
      if 1 ≤ n ∧ inRange s n.toNat i = true then .ok (intToBits n.toNat i) else .error .value := by
  sorry

theorem int2bits_ok_iff_aux (i n : Int) (s : Bool) (b : Bits) :
    int2bits i n s = .ok b ↔ (1 ≤ n ∧ inRange s n.toNat i = true ∧ b = intToBits n.toNat i) := by
  sorry

theorem int2bits_unsigned_value_aux (i n : Int) (b : Bits) (h : int2bits i n false = .ok b) :
    (bitsToNat b : Int) = i := by
  sorry

theorem bytesRev_whole_bytes_aux (b : Bits) (h : b.length % 8 = 0) :
    bytesRev b = leBits b ∧ (bytesRev b).length = b.length := by
  sorry

theorem digits2bits_ok_iff_aux (k : DigitKind) (s : List Char) (b : Bits) :
    digits2bits k s = .ok b ↔
      ((cleaned k s).all fun c => (k.val? c).isSome) = true ∧
      b = ((cleaned k s).filterMap k.val?).flatMap (natToBits k.width) := by
  sorry

theorem digits2bits_length_aux (k : DigitKind) (s : List Char) (b : Bits) (h : digits2bits k s = .ok b) :
    b.length = k.width * (cleaned k s).length := by
  sorry

theorem digits2bits_total_aux (k : DigitKind) (s : List Char) :
    digits2bits k s =
      if ((cleaned k s).all fun c => (k.val? c).isSome) = true
      then .ok (((cleaned k s).filterMap k.val?).flatMap (natToBits k.width)) else .error .value := by
  sorry

theorem allowed_meaning_aux (n : Int) :
    ((defOf .uintbe).allowed.contains n = true ↔ n % 8 = 0) ∧
    ((defOf .intle).allowed.contains n = true ↔ n % 8 = 0) ∧
    ((defOf .hex).allowed.contains n = true ↔ n % 4 = 0) ∧
    ((defOf .oct).allowed.contains n = true ↔ n % 3 = 0) ∧
    ((defOf .float).allowed.contains n = true ↔ (n = 16 ∨ n = 32 ∨ n = 64)) ∧
    ((defOf .bool).allowed.contains n = true ↔ n = 1) ∧
    ((defOf .bfloat).allowed.contains n = true ↔ n = 16) := by
  sorry

theorem encode_length_aux (d : DT) (n : Int) (v : Val) (h : valid d (some n) v = true) :
    ((encode d (some n) v).length : Int) = n * (defOf d).mult := by
  sorry

theorem build_eq_aux (d : DT) (len : Option Int) (v : Val) (hw : wellTyped d v = true) :
    build d len v = if valid d len v = true then .ok (encode d len v) else .error .value := by
  sorry

theorem fromToken_eq_aux (d : DT) (len : Option Int) (v : Val) (hw : wellTyped d v = true) :
    fromToken d len v = if valid d len v = true then .ok (encode d len v) else .error .value := by
  sorry

theorem packRoute_eq_aux (d : DT) (len : Option Int) (v : Val) (hw : wellTyped d v = true) :
    packRoute d len v = if valid d len v = true then .ok (encode d len v) else .error .value := by
  sorry

theorem propnSet_eq_aux (d : DT) (n : Int) (v : Val) (hw : wellTyped d v = true) :
    propnSet d n v = if valid d (some n) v = true then .ok (encode d (some n) v) else .error .value := by
  sorry

theorem createElement_eq_aux (d : DT) (n : Int) (v : Val) (hw : wellTyped d v = true) (hd : d ≠ .bytes) :
    createElement d n v = if valid d (some n) v = true then .ok (encode d (some n) v) else .error .value := by
  sorry

theorem kwRoute_eq_aux (d : DT) (len : Option Int) (v : Val) (hw : wellTyped d v = true) (hd : d ≠ .bytes) :
    kwRoute d v len none =
      if valid d len v = true then .ok (encode d len v)
      else if kwLenUnchecked d len v = true then .ok (encode d none v)
      else .error .value := by
  sorry

theorem kwRoute_offset_aux (d : DT) (len : Option Int) (off : Int) (v : Val) (hd : d ≠ .bytes) :
    kwRoute d v len (some off) = .error .value := by
  sorry

theorem kwnRoute_eq_aux (d : DT) (n : Int) (v : Val) (hw : wellTyped d v = true) (hn : 0 ≤ n) :
    kwnRoute d n v =
      if valid d (some n) v = true then .ok (encode d (some n) v)
      else if kwLenUnchecked d (some n) v = true then .ok (encode d none v)
      else .error .value := by
  sorry

theorem propSet_eq_partial_aux (d : DT) (cur : Bits) (v : Val) (hw : wellTyped d v = true)
    (hreg : propEndianNotWhole d cur = false) :
    propSet d cur v =
      if valid d (effLen d cur) v = true then .ok (encode d (effLen d cur) v) else .error .value := by
  sorry

theorem accepted_assignment_aux (d : DT) (n : Int) (cur : Bits) (v : Val) (hw : wellTyped d v = true)
    (h : (assign d (some n) cur v).err = none) :
    valid d (some n) v = true ∧ (assign d (some n) cur v).bits = encode d (some n) v := by
  sorry

theorem arrSet_err_iff_aux (d : DT) (n : Nat) (data : Bits) (key : Int) (v : Val)
    (hw : wellTyped d v = true) (hd : d ≠ .bytes) :
    (arrSet d n data key v).err ≠ none ↔
      (¬ (-(data.length / n : Int) ≤ key ∧ key < (data.length / n : Int)) ∨ valid d (some n) v = false) := by
  sorry

theorem arrSet_ok_frame_aux (d : DT) (n : Nat) (data : Bits) (key : Int) (v : Val)
    (hw : wellTyped d v = true) (hd : d ≠ .bytes) (hn : 0 < n)
    (h : (arrSet d n data key v).err = none) :
    ∃ k : Nat, (k : Int) = (if key < 0 then key + (data.length / n : Int) else key) ∧ k < data.length / n ∧
      (arrSet d n data key v).bits = data.take (n * k) ++ encode d (some n) v ++ data.drop (n * k + n) ∧
      (arrSet d n data key v).bits.length = data.length := by
  sorry

end BM.C15
