/- Kernel obligation: `bfChk` (Proofs/C11_NumDefs.lean) on the 16-bit patterns 0xb000..0xb3ff. -/
import BitstringModel.Proofs.C11_NumDefs
namespace BM.C11
theorem bfChunk_44 : bfChunkOk 44 = true := by decide +kernel
end BM.C11
