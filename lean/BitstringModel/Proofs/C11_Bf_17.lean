/- Kernel obligation: `bfChk` (Proofs/C11_NumDefs.lean) on the 16-bit patterns 0x4400..0x47ff. -/
import BitstringModel.Proofs.C11_NumDefs
namespace BM.C11
theorem bfChunk_17 : bfChunkOk 17 = true := by decide +kernel
end BM.C11
