/- Kernel obligation: `bfChk` (Proofs/C11_NumDefs.lean) on the 16-bit patterns 0x3400..0x37ff. -/
import BitstringModel.Proofs.C11_NumDefs
namespace BM.C11
theorem bfChunk_13 : bfChunkOk 13 = true := by decide +kernel
end BM.C11
