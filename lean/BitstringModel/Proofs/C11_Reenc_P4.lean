/- Kernel obligation: decoding any code of p4binary (table P4) and encoding the value again under 'saturate' gives the code back,
   except NaN codes and (e5m2, saturate) infinities - `reencChk` in Proofs/C11_Reenc.lean states the exceptions. -/
import BitstringModel.Proofs.C11_Reenc
namespace BM.C11
theorem reencChk_P4 : reencChk .p4binary .saturate = true := by decide +kernel
end BM.C11
