/- Kernel obligation: entries 0xd000..0xdfff of the live float16->code table `Gen.encE2M1` pass `encChk`
   (one sixteenth of the table per file so that lake checks them in parallel; assembled in Proofs/C11_Tables.lean). -/
import BitstringModel.Model.C11
namespace BM.C11
theorem encChunk_E2M1_13 : encChunkOk .e2m1 13 = true := by decide +kernel
end BM.C11
