/-
  Proofs/C20.lean — helper lemmas for Props/C20.lean (assert reachability).
-/
import BitstringModel.Model.C20
import BitstringModel.Proofs.Basic
import BitstringModel.Proofs.C01
namespace BM.C20
open BM

/-! ### generic facts about `isInternal`, `check`, binds and folds -/

@[simp] theorem isInternal_ok {α} (a : α) : isInternal (Except.ok a : Except Err α) = false := rfl
@[simp] theorem isInternal_pure {α} (a : α) : isInternal (pure a : Except Err α) = false := rfl
@[simp] theorem isInternal_value {α} : isInternal (Except.error Err.value : Except Err α) = false := rfl

theorem check_true (e : Err) : check true e = .ok () := rfl

theorem check_of (P : Prop) [Decidable P] (h : P) (e : Err) : check (decide P) e = .ok () := by
  simp only [check, decide_eq_true h, if_true]

theorem ok_bind {α β} (a : α) (f : α → Except Err β) : (Except.ok a >>= f) = f a := rfl

theorem isInternal_bind {α β} (x : Except Err α) (f : α → Except Err β)
    (hx : isInternal x = false) (hf : ∀ a, x = .ok a → isInternal (f a) = false) :
    isInternal (x >>= f) = false := by
  cases x with
  | error e => exact hx
  | ok a => exact hf a rfl

theorem foldlM_ni {α β} (f : β → α → Except Err β) (Inv : β → Prop) (ps : List α) :
    ∀ init, Inv init →
      (∀ acc, Inv acc → ∀ p ∈ ps, isInternal (f acc p) = false ∧ ∀ r, f acc p = .ok r → Inv r) →
      isInternal (ps.foldlM f init) = false := by
  induction ps with
  | nil => intro init _ _; rfl
  | cons p ps ih =>
    intro init hinit hstep
    rw [List.foldlM_cons]
    have h := hstep init hinit p (List.mem_cons_self)
    apply isInternal_bind _ _ h.1
    intro r hr
    exact ih r (h.2 r hr) (fun acc hacc q hq => hstep acc hacc q (List.mem_cons_of_mem _ hq))

/-! ### Python slice facts -/

theorem sliceIndices_in (a b : Int) (n : Nat) (h0 : 0 ≤ a) (hab : a ≤ b) (hb : b ≤ n) :
    Py.sliceIndices (some a) (some b) 1 n = (a, b, 1) := by
  unfold Py.sliceIndices
  have h1 : ¬ ((1 : Int) < 0) := by omega
  have ha : ¬ a < 0 := by omega
  have hb' : ¬ b < 0 := by omega
  simp only [h1, if_false, ha, hb']
  have e1 : min a (n : Int) = a := by omega
  have e2 : min b (n : Int) = b := by omega
  rw [e1, e2]

theorem pySetSlice_length (l : Bits) (a b : Int) (v : Bits) (h0 : 0 ≤ a) (hab : a ≤ b) (hb : b ≤ l.length) :
    ((pySetSlice l a b v).length : Int) = l.length - (b - a) + v.length := by
  unfold pySetSlice
  rw [sliceIndices_in a b l.length h0 hab hb]
  simp only [List.length_append, List.length_take, List.length_drop]
  omega

theorem pySlice_eq (l : Bits) (a b : Int) (h0 : 0 ≤ a) (hab : a ≤ b) (hb : b ≤ l.length) :
    pySlice l a b = (l.drop a.toNat).take (b - a).toNat := by
  unfold pySlice
  rw [BM.C01.getSlice_step1, sliceIndices_in a b l.length h0 hab hb]

theorem pySlice_length (l : Bits) (a b : Int) (h0 : 0 ≤ a) (hab : a ≤ b) (hb : b ≤ l.length) :
    ((pySlice l a b).length : Int) = b - a := by
  rw [pySlice_eq l a b h0 hab hb]
  simp only [List.length_take, List.length_drop]
  omega

/-! ### the private helpers succeed (no internal error) under their preconditions -/

theorem absoluteSlice_ni (l : Bits) (s e : Int) (h : s ≤ e) : isInternal (absoluteSlice l s e) = false := by
  unfold absoluteSlice
  split
  · rfl
  · rename_i hne
    rw [check_of _ (by omega : s < e)]
    rfl

theorem absoluteSlice_ok (l : Bits) (s e : Int) (h : s ≤ e) : ∃ r, absoluteSlice l s e = .ok r := by
  unfold absoluteSlice
  split
  · exact ⟨_, rfl⟩
  · rename_i hne
    rw [check_of _ (by omega : s < e)]
    exact ⟨_, rfl⟩

theorem truncateLeft_ni (l : Bits) (bits : Int) (h : 0 ≤ bits ∧ bits ≤ l.length) :
    isInternal (truncateLeft l bits) = false := by
  unfold truncateLeft
  rw [check_of _ h, ok_bind]
  split
  · rfl
  · obtain ⟨r, hr⟩ := absoluteSlice_ok l 0 bits h.1
    rw [hr, ok_bind]
    split <;> rfl

theorem truncateRight_ni (l : Bits) (bits : Int) (h : 0 ≤ bits ∧ bits ≤ l.length) :
    isInternal (truncateRight l bits) = false := by
  unfold truncateRight
  rw [check_of _ h, ok_bind]
  split
  · rfl
  · obtain ⟨r, hr⟩ := absoluteSlice_ok l ((l.length : Int) - bits) l.length (by omega)
    rw [hr, ok_bind]
    split <;> rfl

theorem insertH_ni (l b : Bits) (pos : Int) (h : 0 ≤ pos ∧ pos ≤ l.length) :
    isInternal (insertH l b pos) = false := by
  unfold insertH
  rw [check_of _ h]
  rfl

theorem deleteH_ok (l : Bits) (bits pos : Int) (h : 0 ≤ pos ∧ pos ≤ l.length) (h2 : pos + bits ≤ l.length) :
    deleteH l bits pos = .ok (pySetSlice l pos (pos + bits) []) := by
  unfold deleteH
  rw [check_of _ h, ok_bind, check_of _ h2]
  rfl

theorem ilshiftH_ni (l : Bits) (n : Int) (h : 0 < n ∧ n ≤ l.length) : isInternal (ilshiftH l n) = false := by
  unfold ilshiftH
  rw [check_of _ h, ok_bind]
  apply truncateLeft_ni
  simp only [List.length_append, List.length_replicate]
  omega

theorem irshiftH_ni (l : Bits) (n : Int) (h : 0 < n ∧ n ≤ l.length) : isInternal (irshiftH l n) = false := by
  unfold irshiftH
  rw [check_of _ h, ok_bind]
  apply truncateRight_ni
  simp only [List.length_append, List.length_replicate]
  omega

theorem reverseBytesH_ni (l : Bits) (s e : Int) (h : (e - s) % 8 = 0) :
    isInternal (reverseBytesH l s e) = false := by
  unfold reverseBytesH
  rw [check_of _ h]
  rfl

theorem invertH_ok (l : Bits) (pos : Int) (h : 0 ≤ pos ∧ pos < l.length) :
    invertH l pos = .ok (l.set pos.toNat (!(l.getD pos.toNat false))) := by
  unfold invertH
  rw [check_of _ h]
  rfl

theorem validateSlice_eq (len : Nat) (start stop : Option Int) :
    ∃ s' e' : Int, validateSlice len start stop =
      if 0 ≤ s' ∧ s' ≤ e' ∧ e' ≤ len then .ok (s', e') else .error .value :=
  ⟨_, _, rfl⟩

theorem validateSlice_ok (len : Nat) (start stop : Option Int) (s e : Int)
    (h : validateSlice len start stop = .ok (s, e)) : 0 ≤ s ∧ s ≤ e ∧ e ≤ len := by
  obtain ⟨s', e', heq⟩ := validateSlice_eq len start stop
  rw [heq] at h
  by_cases hc : 0 ≤ s' ∧ s' ≤ e' ∧ e' ≤ len
  · rw [if_pos hc] at h
    injection h with h
    injection h with h1 h2
    subst h1 h2
    exact hc
  · rw [if_neg hc] at h
    cases h

theorem validateSlice_err (len : Nat) (start stop : Option Int) (er : Err)
    (h : validateSlice len start stop = .error er) : er = .value := by
  obtain ⟨s', e', heq⟩ := validateSlice_eq len start stop
  rw [heq] at h
  by_cases hc : 0 ≤ s' ∧ s' ≤ e' ∧ e' ≤ len
  · rw [if_pos hc] at h
    cases h
  · rw [if_neg hc] at h
    injection h with h; exact h.symm

theorem ite_ok_iff {α} (c : Prop) [Decidable c] (a : α) (er : Err) :
    (∃ r, (if c then Except.ok a else Except.error er) = Except.ok r) ↔ c := by
  by_cases hc : c
  · rw [if_pos hc]; exact ⟨fun _ => hc, fun _ => ⟨a, rfl⟩⟩
  · rw [if_neg hc]; exact ⟨fun ⟨r, h⟩ => (by cases h), fun h => absurd h hc⟩

theorem insertH_ok (l b : Bits) (pos : Int) (h : 0 ≤ pos ∧ pos ≤ l.length) :
    insertH l b pos = .ok (pySetSlice l pos pos b) := by
  unfold insertH
  rw [check_of _ h]
  rfl

/-! ### streams -/

theorem setPos_ok (s : Stream) (p : Int) (s' : Stream) (h : setPos s p = .ok s') :
    0 ≤ p ∧ p ≤ s.bits.length ∧ s' = { s with pos := p } := by
  unfold setPos at h
  by_cases h1 : p < 0
  · rw [if_pos h1] at h; cases h
  · rw [if_neg h1] at h
    by_cases h2 : p > s.bits.length
    · rw [if_pos h2] at h; cases h
    · rw [if_neg h2] at h
      injection h with h
      exact ⟨by omega, by omega, h.symm⟩

theorem setPos_err_iff (s : Stream) (p : Int) :
    (∃ e, setPos s p = .error e) ↔ (p < 0 ∨ p > s.bits.length) := by
  unfold setPos
  by_cases h1 : p < 0
  · rw [if_pos h1]; exact ⟨fun _ => Or.inl h1, fun _ => ⟨_, rfl⟩⟩
  · rw [if_neg h1]
    by_cases h2 : p > s.bits.length
    · rw [if_pos h2]; exact ⟨fun _ => Or.inr h2, fun _ => ⟨_, rfl⟩⟩
    · rw [if_neg h2]
      exact ⟨fun ⟨e, h⟩ => (by cases h), fun h => by omega⟩

end BM.C20
