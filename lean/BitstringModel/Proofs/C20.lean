import BitstringModel.Model.C20
import BitstringModel.Proofs.Basic
import BitstringModel.Proofs.C01
namespace BM.C20
end BM.C20
