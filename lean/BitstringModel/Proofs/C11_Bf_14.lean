/- Kernel obligation: `bfChk` (Proofs/C11_NumDefs.lean) on the 16-bit patterns 0x3800..0x3bff. -/
import BitstringModel.Proofs.C11_NumDefs
namespace BM.C11
theorem bfChunk_14 : bfChunkOk 14 = true := by decide +kernel
end BM.C11
