/-
  Proofs/Basic.lean — helper lemmas about `bitsToNat`, `natToBits`, `bitsToInt`, `intToBits`.
-/
import BitstringModel.Model.Basic
import Mathlib.Data.List.Induction

namespace BM

theorem foldl_bits (b : Bits) (acc : Nat) :
    b.foldl (fun acc x => 2 * acc + (if x then 1 else 0)) acc
      = acc * 2 ^ b.length + bitsToNat b := by
  induction b generalizing acc with
  | nil => simp [bitsToNat]
  | cons x xs ih =>
    simp only [List.foldl_cons, List.length_cons, bitsToNat]
    rw [ih, ih (2 * 0 + _)]
    simp [Nat.pow_succ]
    cases x <;> simp <;> (try rw [Nat.add_mul]) <;> simp [Nat.mul_comm, Nat.mul_assoc, Nat.add_assoc]

@[simp] theorem bitsToNat_nil : bitsToNat [] = 0 := rfl

theorem bitsToNat_cons (x : Bool) (xs : Bits) :
    bitsToNat (x :: xs) = (if x then 1 else 0) * 2 ^ xs.length + bitsToNat xs := by
  simp only [bitsToNat, List.foldl_cons]
  rw [foldl_bits]; simp [bitsToNat]

theorem bitsToNat_append (a b : Bits) :
    bitsToNat (a ++ b) = bitsToNat a * 2 ^ b.length + bitsToNat b := by
  simp only [bitsToNat, List.foldl_append]
  rw [foldl_bits b]
  rfl

theorem bitsToNat_append_singleton (a : Bits) (x : Bool) :
    bitsToNat (a ++ [x]) = 2 * bitsToNat a + (if x then 1 else 0) := by
  rw [bitsToNat_append]; simp [bitsToNat_cons, Nat.mul_comm]

@[simp] theorem bitsToNat_replicate_false (n : Nat) : bitsToNat (List.replicate n false) = 0 := by
  induction n with
  | zero => rfl
  | succ n ih => rw [List.replicate_succ, bitsToNat_cons]; simp [ih]

theorem bitsToNat_lt (b : Bits) : bitsToNat b < 2 ^ b.length := by
  induction b with
  | nil => simp
  | cons x xs ih =>
    rw [bitsToNat_cons]; simp only [List.length_cons, Nat.pow_succ]
    cases x <;> simp <;> omega

theorem bitsToNat_take_drop (l : Bits) (n : Nat) :
    bitsToNat l = bitsToNat (l.take n) * 2 ^ (l.length - n) + bitsToNat (l.drop n) := by
  have := bitsToNat_append (l.take n) (l.drop n)
  rw [List.take_append_drop] at this
  rw [this]; simp

@[simp] theorem natToBits_length (len n : Nat) : (natToBits len n).length = len := by
  induction len generalizing n with
  | zero => rfl
  | succ k ih => simp [natToBits, ih]

theorem bitsToNat_natToBits_mod (len n : Nat) : bitsToNat (natToBits len n) = n % 2 ^ len := by
  induction len generalizing n with
  | zero => simp [natToBits, Nat.mod_one]
  | succ k ih =>
    simp only [natToBits]
    rw [bitsToNat_append_singleton, ih, Nat.pow_succ]
    have h2 : n % (2 ^ k * 2) = 2 * (n / 2 % 2 ^ k) + n % 2 := by
      rw [Nat.mul_comm (2 ^ k) 2, Nat.mod_mul]; omega
    rw [h2]
    by_cases h : n % 2 = 1 <;> simp [h] <;> omega

/-- Encoding an in-range unsigned value and reading it back is the identity. -/
theorem bitsToNat_natToBits (len n : Nat) (h : n < 2 ^ len) : bitsToNat (natToBits len n) = n := by
  rw [bitsToNat_natToBits_mod, Nat.mod_eq_of_lt h]

/-- Every bit pattern is the canonical encoding of the value it reads as. -/
theorem natToBits_bitsToNat (b : Bits) : natToBits b.length (bitsToNat b) = b := by
  induction b using List.reverseRecOn with
  | nil => rfl
  | append_singleton xs x ih =>
    simp only [List.length_append, List.length_cons, List.length_nil, Nat.zero_add, natToBits]
    rw [bitsToNat_append_singleton]
    have h1 : (2 * bitsToNat xs + if x = true then 1 else 0) / 2 = bitsToNat xs := by
      cases x <;> simp <;> omega
    have h2 : decide ((2 * bitsToNat xs + if x = true then 1 else 0) % 2 = 1) = x := by
      cases x <;> simp <;> omega
    rw [h1, h2, ih]

theorem natToBits_inj (len a b : Nat) (ha : a < 2 ^ len) (hb : b < 2 ^ len)
    (h : natToBits len a = natToBits len b) : a = b := by
  have := congrArg bitsToNat h
  rwa [bitsToNat_natToBits _ _ ha, bitsToNat_natToBits _ _ hb] at this

theorem bit_div2 (x : Nat) (p : Bool) : (2 * x + (if p then 1 else 0)) / 2 = x := by cases p <;> simp <;> omega
theorem bit_mod2 (x : Nat) (p : Bool) : (2 * x + (if p then 1 else 0)) % 2 = (if p then 1 else 0) := by cases p <;> simp <;> omega
theorem step_and (x y : Nat) (p q : Bool) :
    (2 * x + (if p then 1 else 0)) &&& (2 * y + (if q then 1 else 0))
      = 2 * (x &&& y) + (if (p && q) then 1 else 0) := by
  apply Nat.eq_of_testBit_eq; intro i
  cases i with
  | zero => simp only [Nat.testBit_zero, bit_mod2]; cases p <;> cases q <;> simp
  | succ i => rw [Nat.testBit_and, Nat.testBit_succ, Nat.testBit_succ, Nat.testBit_succ, bit_div2, bit_div2, bit_div2, Nat.testBit_and]
theorem step_or (x y : Nat) (p q : Bool) :
    (2 * x + (if p then 1 else 0)) ||| (2 * y + (if q then 1 else 0))
      = 2 * (x ||| y) + (if (p || q) then 1 else 0) := by
  apply Nat.eq_of_testBit_eq; intro i
  cases i with
  | zero => simp only [Nat.testBit_zero, bit_mod2]; cases p <;> cases q <;> simp
  | succ i => rw [Nat.testBit_or, Nat.testBit_succ, Nat.testBit_succ, Nat.testBit_succ, bit_div2, bit_div2, bit_div2, Nat.testBit_or]
theorem step_xor (x y : Nat) (p q : Bool) :
    (2 * x + (if p then 1 else 0)) ^^^ (2 * y + (if q then 1 else 0))
      = 2 * (x ^^^ y) + (if (p != q) then 1 else 0) := by
  apply Nat.eq_of_testBit_eq; intro i
  cases i with
  | zero => simp only [Nat.testBit_zero, bit_mod2]; cases p <;> cases q <;> simp
  | succ i => rw [Nat.testBit_xor, Nat.testBit_succ, Nat.testBit_succ, Nat.testBit_succ, bit_div2, bit_div2, bit_div2, Nat.testBit_xor]

/-- Lifting a per-bit law to the unsigned values (used for `&`, `|`, `^`). -/
theorem zipWith_uint (f : Bool → Bool → Bool) (g : Nat → Nat → Nat)
    (hstep : ∀ x y : Nat, ∀ p q : Bool,
      g (2 * x + (if p then 1 else 0)) (2 * y + (if q then 1 else 0))
        = 2 * g x y + (if f p q then 1 else 0))
    (hzero : g 0 0 = 0)
    (a b : Bits) (h : a.length = b.length) :
    bitsToNat (List.zipWith f a b) = g (bitsToNat a) (bitsToNat b) := by
  induction a using List.reverseRecOn generalizing b with
  | nil => cases b <;> simp_all
  | append_singleton xs x ih =>
    cases b using List.reverseRecOn with
    | nil => simp at h
    | append_singleton ys y =>
      have hl : xs.length = ys.length := by simpa using h
      rw [List.zipWith_append hl]
      simp only [List.zipWith_cons_cons, List.zipWith_nil_right]
      rw [bitsToNat_append_singleton, bitsToNat_append_singleton, bitsToNat_append_singleton,
        ih ys hl, hstep]

end BM
