/-
  Proofs/C03.lean — base lemmas for the C03 property files: Python slice assignment / deletion with
  non-negative bounds are `take ++ v ++ drop`, range validation, `slc` / `splice` arithmetic.
-/
import BitstringModel.Model.C03
import BitstringModel.Proofs.Basic
import BitstringModel.Proofs.C01
import Mathlib.Tactic.Ring
import Mathlib.Tactic.Linarith
import Mathlib.Data.List.Basic
namespace BM.C03
open BM

/-! ### `slc`, `splice` -/

theorem slc_length {α} (l : List α) (a b : Nat) : (slc l a b).length = min (b - a) (l.length - a) := by
  simp [slc]

theorem slc_length_of_le {α} (l : List α) (a b : Nat) (hb : b ≤ l.length) : (slc l a b).length = b - a := by
  rw [slc_length]; omega

theorem slc_zero {α} (l : List α) (b : Nat) : slc l 0 b = l.take b := by simp [slc]

theorem slc_self {α} (l : List α) (a : Nat) : slc l a a = [] := by simp [slc]

theorem take_slc_drop {α} (l : List α) (a b : Nat) (hab : a ≤ b) : l.take a ++ slc l a b ++ l.drop b = l := by
  unfold slc
  have h1 : l.drop b = (l.drop a).drop (b - a) := by rw [List.drop_drop]; congr 1; omega
  rw [h1, List.append_assoc, List.take_append_drop, List.take_append_drop]

theorem splice_length {α} (l v : List α) (a b : Nat) (hab : a ≤ b) (hb : b ≤ l.length) :
    (splice l a b v).length = l.length - (b - a) + v.length := by
  simp [splice]; omega

/-! ### range validation -/

theorem validateSlice_ok {n : Nat} {s e : Option Int} {a z : Nat} (h : validateSlice n s e = .ok (a, z)) :
    a ≤ z ∧ z ≤ n := by
  unfold validateSlice at h
  simp only at h
  by_cases hc : 0 ≤ boundOr n 0 s ∧ boundOr n 0 s ≤ boundOr n (n : Int) e ∧ boundOr n (n : Int) e ≤ (n : Int)
  · rw [if_pos hc] at h
    injection h with h
    injection h with h1 h2
    omega
  · rw [if_neg hc] at h
    cases h

theorem validateSlice_nonneg (n a z : Nat) (haz : a ≤ z) (hz : z ≤ n) :
    validateSlice n (some (a : Int)) (some (z : Int)) = .ok (a, z) := by
  unfold validateSlice boundOr
  have h1 : ¬ ((a : Int) < 0) := by omega
  have h2 : ¬ ((z : Int) < 0) := by omega
  simp only [h1, h2, if_false]
  rw [if_pos (by omega)]
  simp

theorem validateSlice_none (n : Nat) : validateSlice n none none = .ok (0, n) := by
  unfold validateSlice boundOr
  simp

/-! ### slice assignment / deletion with non-negative in-range bounds -/

theorem sliceIndices_nonneg (a b : Nat) (n : Nat) (hab : a ≤ b) (hb : b ≤ n) :
    Py.sliceIndices (some (a : Int)) (some (b : Int)) 1 n = ((a : Int), (b : Int), 1) := by
  have h1 : ¬ ((a : Int) < 0) := by omega
  have h2 : ¬ ((b : Int) < 0) := by omega
  have h3 : ¬ ((1 : Int) < 0) := by omega
  simp only [Py.sliceIndices, h1, h2, h3, if_false]
  congr 1
  · omega
  · congr 1; omega

theorem setSlice_nonneg {α} (l v : List α) (a b : Nat) (hab : a ≤ b) (hb : b ≤ l.length) :
    PyL.setSlice l (some (a : Int)) (some (b : Int)) none v = .ok (splice l a b v) := by
  unfold PyL.setSlice
  simp only [Option.getD_none, if_true]
  have h10 : ¬ ((1 : Int) = 0) := by omega
  simp only [h10, if_false]
  rw [sliceIndices_nonneg a b l.length hab hb]
  simp only [Int.toNat_natCast]
  congr 2
  omega

/-- `l[a:b] = v` for arbitrary non-negative bounds: CPython clamps both at `len` and treats `b < a` as `b = a`. -/
theorem setSlice_clamped {α} (l v : List α) (a b : Nat) :
    PyL.setSlice l (some (a : Int)) (some (b : Int)) none v =
      .ok (splice l (min a l.length) (max (min a l.length) (min b l.length)) v) := by
  unfold PyL.setSlice
  simp only [Option.getD_none, if_true]
  have h10 : ¬ ((1 : Int) = 0) := by omega
  simp only [h10, if_false]
  have h1 : ¬ ((a : Int) < 0) := by omega
  have h2 : ¬ ((b : Int) < 0) := by omega
  have h3 : ¬ ((1 : Int) < 0) := by omega
  simp only [Py.sliceIndices, h1, h2, h3, if_false]
  congr 2
  · omega
  · omega

theorem slicePositions_nonneg (a b n : Nat) (hab : a ≤ b) (hb : b ≤ n) :
    PyL.slicePositions (some (a : Int)) (some (b : Int)) 1 n = List.range' a (b - a) := by
  unfold PyL.slicePositions
  rw [sliceIndices_nonneg a b n hab hb]
  simp only [Py.rangeList]
  rw [C01.rangeLen_one]
  apply List.ext_getElem
  · simp
  · intro i h1 h2
    simp
    omega

theorem filterMap_range'_getElem? {α} (l : List α) (m s : Nat) (h : s + m ≤ l.length) :
    (List.range' s m).filterMap (fun i => l[i]?) = (l.drop s).take m := by
  induction m generalizing s with
  | zero => simp
  | succ m ih =>
    have hs : s < l.length := by omega
    rw [List.range'_succ, List.filterMap_cons, List.getElem?_eq_getElem hs]
    simp only
    rw [ih (s + 1) (by omega), List.drop_eq_getElem_cons hs, List.take_succ_cons]

theorem removeAt_range' {α} (l : List α) (a k : Nat) (h : a + k ≤ l.length) :
    PyL.removeAt l (List.range' a k) = l.take a ++ l.drop (a + k) := by
  unfold PyL.removeAt
  have hsplit : List.range l.length =
      List.range' 0 a ++ (List.range' a k ++ List.range' (a + k) (l.length - (a + k))) := by
    rw [List.range_eq_range', List.range'_append_1]
    have h0 : List.range' 0 a ++ List.range' a (k + (l.length - (a + k))) =
        List.range' 0 a ++ List.range' (0 + a) (k + (l.length - (a + k))) := by simp
    rw [h0, List.range'_append_1]
    congr 1
    omega
  rw [hsplit, List.filterMap_append, List.filterMap_append]
  have h1 : (List.range' 0 a).filterMap (fun i => if i ∈ List.range' a k then none else l[i]?) = l.take a := by
    rw [List.filterMap_congr (g := fun i => l[i]?)]
    · rw [filterMap_range'_getElem? l a 0 (by omega)]; simp
    · intro i hi
      have : i ∉ List.range' a k := by
        simp only [List.mem_range'_1] at hi ⊢
        omega
      simp [this]
  have h2 : (List.range' a k).filterMap (fun i => if i ∈ List.range' a k then none else l[i]?) = [] := by
    rw [List.filterMap_eq_nil_iff]
    intro i hi
    simp [hi]
  have h3 : (List.range' (a + k) (l.length - (a + k))).filterMap
      (fun i => if i ∈ List.range' a k then none else l[i]?) = l.drop (a + k) := by
    rw [List.filterMap_congr (g := fun i => l[i]?)]
    · rw [filterMap_range'_getElem? l _ (a + k) (by omega)]
      rw [List.take_of_length_le (by simp)]
    · intro i hi
      have : i ∉ List.range' a k := by
        simp only [List.mem_range'_1] at hi ⊢
        omega
      simp [this]
  rw [h1, h2, h3]
  simp

theorem delSlice_nonneg {α} (l : List α) (a b : Nat) (hab : a ≤ b) (hb : b ≤ l.length) :
    PyL.delSlice l (some (a : Int)) (some (b : Int)) none = .ok (l.take a ++ l.drop b) := by
  unfold PyL.delSlice
  have h10 : ¬ ((1 : Int) = 0) := by omega
  simp only [Option.getD_none, h10, if_false]
  rw [slicePositions_nonneg a b l.length hab hb, removeAt_range' l a (b - a) (by omega)]
  congr 3
  omega

end BM.C03
