/- Kernel obligation: `bfChk` (Proofs/C11_NumDefs.lean) on the 16-bit patterns 0xc400..0xc7ff. -/
import BitstringModel.Proofs.C11_NumDefs
namespace BM.C11
theorem bfChunk_49 : bfChunkOk 49 = true := by decide +kernel
end BM.C11
