/-
  Proofs/C03Core.lean — helper lemmas for the C03 property files.
-/
import BitstringModel.Model.C03
import BitstringModel.Proofs.C03
import BitstringModel.Props.C01
import Mathlib.Tactic.Ring
import Mathlib.Tactic.Linarith
import Mathlib.Data.List.Basic
import Mathlib.Data.List.Nodup
namespace BM.C03
open BM

/-! ### slice positions -/

theorem slicePositions_eq (a b : Option Int) (st : Int) (n : Nat) :
    PyL.slicePositions a b st n =
      (List.range (Py.rangeLen (Py.sliceIndices a b st n).1 (Py.sliceIndices a b st n).2.1 st)).map
        (fun (k : Nat) => ((Py.sliceIndices a b st n).1 + (k : Int) * st).toNat) := by
  simp only [PyL.slicePositions, Py.rangeList, List.map_map]
  rfl

theorem slicePositions_length (a b : Option Int) (st : Int) (n : Nat) :
    (PyL.slicePositions a b st n).length =
      Py.rangeLen (Py.sliceIndices a b st n).1 (Py.sliceIndices a b st n).2.1 st := by
  rw [slicePositions_eq]; simp

theorem slicePositions_lt' (a b : Option Int) (st : Int) (hst : st ≠ 0) (n : Nat) :
    ∀ i ∈ PyL.slicePositions a b st n, i < n := by
  intro i hi
  rw [slicePositions_eq, List.mem_map] at hi
  obtain ⟨k, hk, rfl⟩ := hi
  rw [List.mem_range] at hk
  exact C01.sliceIndices_toNat_lt a b st hst n k hk

theorem slicePositions_nodup' (a b : Option Int) (st : Int) (hst : st ≠ 0) (n : Nat) :
    (PyL.slicePositions a b st n).Nodup := by
  rw [slicePositions_eq]
  apply List.Nodup.map_on _ List.nodup_range
  intro x hx y hy hxy
  rw [List.mem_range] at hx hy
  have h1 := C01.sliceIndices_bounds a b st hst n x hx
  have h2 := C01.sliceIndices_bounds a b st hst n y hy
  have h3 : (x : Int) * st = (y : Int) * st := by omega
  have := Int.eq_of_mul_eq_mul_right hst h3
  omega

theorem assignAt_length {α} (l : List α) (idx : List Nat) (v : List α) :
    (PyL.assignAt l idx v).length = l.length := by
  induction idx generalizing l v with
  | nil => simp [PyL.assignAt]
  | cons i is ih =>
    cases v with
    | nil => simp [PyL.assignAt]
    | cons x xs => simp [PyL.assignAt, ih]

theorem assignAt_not_mem {α} (l : List α) (idx : List Nat) (v : List α) (i : Nat) (hi : i ∉ idx) :
    (PyL.assignAt l idx v)[i]? = l[i]? := by
  induction idx generalizing l v with
  | nil => simp [PyL.assignAt]
  | cons j is ih =>
    cases v with
    | nil => simp [PyL.assignAt]
    | cons x xs =>
      simp only [PyL.assignAt]
      rw [ih _ _ (fun h => hi (List.mem_cons_of_mem _ h))]
      rw [List.getElem?_set_ne]
      intro h; exact hi (h ▸ List.mem_cons_self)

theorem assignAt_getElem {α} (l : List α) (idx : List Nat) (v : List α) (hnd : idx.Nodup)
    (hlen : idx.length = v.length) (hlt : ∀ i ∈ idx, i < l.length) (k : Nat) (hk : k < idx.length) :
    (PyL.assignAt l idx v)[idx[k]]? = v[k]? := by
  induction idx generalizing l v k with
  | nil => simp at hk
  | cons j is ih =>
    cases v with
    | nil => simp at hlen
    | cons x xs =>
      simp only [PyL.assignAt]
      rw [List.nodup_cons] at hnd
      cases k with
      | zero =>
        simp only [List.getElem_cons_zero, List.getElem?_cons_zero]
        rw [assignAt_not_mem _ _ _ _ hnd.1, List.getElem?_set_self (hlt j List.mem_cons_self)]
      | succ k =>
        simp only [List.getElem_cons_succ, List.getElem?_cons_succ]
        apply ih _ _ hnd.2 (by simpa using hlen)
        intro i hi
        rw [List.length_set]
        exact hlt i (List.mem_cons_of_mem _ hi)

/-! ### removeAt -/

theorem fm_range_sublist {α} (l : List α) (p : Nat → Bool) :
    ((List.range l.length).filterMap fun i => if p i then none else l[i]?).Sublist l := by
  induction l generalizing p with
  | nil => simp
  | cons x xs ih =>
    rw [List.length_cons, List.range_succ_eq_map, List.filterMap_cons, List.filterMap_map]
    have h := ih (fun i => p (i + 1))
    have e : ((fun i => if p i = true then none else (x :: xs)[i]?) ∘ Nat.succ) =
        (fun i => if (fun i => p (i + 1)) i = true then none else xs[i]?) := by
      funext i; simp
    rw [e]
    by_cases h0 : p 0 = true
    · simp only [h0, if_true]
      exact List.Sublist.cons _ h
    · simp only [h0]
      exact List.Sublist.cons_cons _ h

theorem removeAt_sublist {α} (l : List α) (idx : List Nat) : (PyL.removeAt l idx).Sublist l := by
  have := fm_range_sublist l (fun i => decide (i ∈ idx))
  simpa [PyL.removeAt] using this

theorem fm_filter_length {α} (l : List α) (idx : List Nat) (L : List Nat) (hL : ∀ i ∈ L, i < l.length) :
    (L.filterMap fun i => if i ∈ idx then none else l[i]?).length + (L.filter (· ∈ idx)).length = L.length := by
  induction L with
  | nil => simp
  | cons j js ih =>
    have hj := hL j List.mem_cons_self
    have ih := ih (fun i hi => hL i (List.mem_cons_of_mem _ hi))
    by_cases hm : j ∈ idx
    · simp only [List.filterMap_cons, hm, if_true, List.filter_cons, decide_true, List.length_cons]
      omega
    · simp only [List.filterMap_cons, hm, if_false, List.filter_cons, decide_false, List.length_cons,
        List.getElem?_eq_getElem hj]
      simp only [Bool.false_eq_true, if_false]
      omega

theorem removeAt_length {α} (l : List α) (idx : List Nat) (hnd : idx.Nodup) (hlt : ∀ i ∈ idx, i < l.length) :
    (PyL.removeAt l idx).length + idx.length = l.length := by
  have h1 := fm_filter_length l idx (List.range l.length) (fun i hi => List.mem_range.mp hi)
  have h2 : ((List.range l.length).filter (· ∈ idx)).length = idx.length := by
    apply Nat.le_antisymm
    · apply List.Nodup.length_le_of_subset (List.nodup_range.filter _)
      intro i hi
      simpa using (List.mem_filter.mp hi).2
    · apply List.Nodup.length_le_of_subset hnd
      intro i hi
      rw [List.mem_filter]
      exact ⟨List.mem_range.mpr (hlt i hi), by simpa using hi⟩
  rw [List.length_range] at h1
  unfold PyL.removeAt
  omega

/-! bits -/

theorem bitsToInt_eq (b : Bits) (hb : b ≠ []) :
    bitsToInt b = if 2 ^ (b.length - 1) ≤ bitsToNat b then (bitsToNat b : Int) - (2 : Int) ^ b.length
      else (bitsToNat b : Int) := by
  cases b with
  | nil => exact absurd rfl hb
  | cons s rest =>
    have h1 := bitsToNat_cons s rest
    have h2 := bitsToNat_lt rest
    simp only [bitsToInt, List.length_cons, Nat.add_sub_cancel]
    cases s with
    | true =>
      have : 2 ^ rest.length ≤ bitsToNat (true :: rest) := by rw [h1]; simp
      simp [this]
    | false =>
      have : ¬ 2 ^ rest.length ≤ bitsToNat (false :: rest) := by rw [h1]; simp; omega
      simp [this]

theorem two_pow_pred (k : Nat) (hk : k ≠ 0) : (2 : Int) ^ k = 2 * (2 : Int) ^ (k - 1) := by
  obtain ⟨m, rfl⟩ := Nat.exists_eq_succ_of_ne_zero hk
  simp [pow_succ]; ring

theorem two_pow_cast (k : Nat) : (2 : Int) ^ k = ((2 ^ k : Nat) : Int) := by
  push_cast; rfl

theorem intToBits_neg (k : Nat) (v : Int) (hk : k ≠ 0) (hv : v < 0) (hlo : -((2 : Int) ^ (k - 1)) ≤ v) :
    (intToBits k v).length = k ∧ bitsToInt (intToBits k v) = v := by
  have hlen : (intToBits k v).length = k := by simp [intToBits]
  refine ⟨hlen, ?_⟩
  have hne : intToBits k v ≠ [] := by
    intro h; rw [h] at hlen; simp at hlen; omega
  have hp := two_pow_pred k hk
  have hpos : (0 : Int) < (2 : Int) ^ (k - 1) := by positivity
  have hmod : v % (2 : Int) ^ k = v + (2 : Int) ^ k := by
    rw [← Int.add_mul_emod_self_left v ((2 : Int) ^ k) 1, Int.mul_one]
    exact Int.emod_eq_of_lt (by omega) (by omega)
  have hnat : bitsToNat (intToBits k v) = (v + (2 : Int) ^ k).toNat := by
    unfold intToBits
    rw [hmod, bitsToNat_natToBits]
    have : ((v + (2 : Int) ^ k).toNat : Int) < ((2 ^ k : Nat) : Int) := by
      rw [← two_pow_cast]; omega
    exact_mod_cast this
  rw [bitsToInt_eq _ hne, hlen, hnat]
  have hc : 2 ^ (k - 1) ≤ (v + (2 : Int) ^ k).toNat := by
    have : (((2 : Nat) ^ (k - 1) : Nat) : Int) ≤ ((v + (2 : Int) ^ k).toNat : Int) := by
      rw [← two_pow_cast]; omega
    exact_mod_cast this
  rw [if_pos hc]
  omega

end BM.C03
