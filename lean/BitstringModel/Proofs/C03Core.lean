/-
  Proofs/C03Core.lean — helper lemmas for Props/C03.lean (list primitives, insert / overwrite, item and
  slice assignment).  Everything lives in the sub-namespace `BM.C03.Core` so that the names cannot collide with
  the helper files of the other C03 parts.
-/
import BitstringModel.Model.C03
import BitstringModel.Proofs.C03
import BitstringModel.Props.C01
import Mathlib.Tactic.Ring
import Mathlib.Tactic.Linarith
import Mathlib.Data.List.Basic
import Mathlib.Data.List.Nodup
namespace BM.C03.Core
open BM BM.C03

/-! ### slice positions -/

theorem slicePositions_eq (a b : Option Int) (st : Int) (n : Nat) :
    PyL.slicePositions a b st n =
      (List.range (Py.rangeLen (Py.sliceIndices a b st n).1 (Py.sliceIndices a b st n).2.1 st)).map
        (fun (k : Nat) => ((Py.sliceIndices a b st n).1 + (k : Int) * st).toNat) := by
  simp only [PyL.slicePositions, Py.rangeList, List.map_map]
  rfl

theorem slicePositions_length (a b : Option Int) (st : Int) (n : Nat) :
    (PyL.slicePositions a b st n).length =
      Py.rangeLen (Py.sliceIndices a b st n).1 (Py.sliceIndices a b st n).2.1 st := by
  rw [slicePositions_eq]; simp

theorem slicePositions_lt' (a b : Option Int) (st : Int) (hst : st ≠ 0) (n : Nat) :
    ∀ i ∈ PyL.slicePositions a b st n, i < n := by
  intro i hi
  rw [slicePositions_eq, List.mem_map] at hi
  obtain ⟨k, hk, rfl⟩ := hi
  rw [List.mem_range] at hk
  exact C01.sliceIndices_toNat_lt a b st hst n k hk

theorem slicePositions_nodup' (a b : Option Int) (st : Int) (hst : st ≠ 0) (n : Nat) :
    (PyL.slicePositions a b st n).Nodup := by
  rw [slicePositions_eq]
  apply List.Nodup.map_on _ List.nodup_range
  intro x hx y hy hxy
  rw [List.mem_range] at hx hy
  have h1 := C01.sliceIndices_bounds a b st hst n x hx
  have h2 := C01.sliceIndices_bounds a b st hst n y hy
  have h3 : (x : Int) * st = (y : Int) * st := by omega
  have := Int.eq_of_mul_eq_mul_right hst h3
  omega

theorem assignAt_length {α} (l : List α) (idx : List Nat) (v : List α) :
    (PyL.assignAt l idx v).length = l.length := by
  induction idx generalizing l v with
  | nil => simp [PyL.assignAt]
  | cons i is ih =>
    cases v with
    | nil => simp [PyL.assignAt]
    | cons x xs => simp [PyL.assignAt, ih]

theorem assignAt_not_mem {α} (l : List α) (idx : List Nat) (v : List α) (i : Nat) (hi : i ∉ idx) :
    (PyL.assignAt l idx v)[i]? = l[i]? := by
  induction idx generalizing l v with
  | nil => simp [PyL.assignAt]
  | cons j is ih =>
    cases v with
    | nil => simp [PyL.assignAt]
    | cons x xs =>
      simp only [PyL.assignAt]
      rw [ih _ _ (fun h => hi (List.mem_cons_of_mem _ h))]
      rw [List.getElem?_set_ne]
      intro h; exact hi (h ▸ List.mem_cons_self)

theorem assignAt_getElem {α} (l : List α) (idx : List Nat) (v : List α) (hnd : idx.Nodup)
    (hlen : idx.length = v.length) (hlt : ∀ i ∈ idx, i < l.length) (k : Nat) (hk : k < idx.length) :
    (PyL.assignAt l idx v)[idx[k]]? = v[k]? := by
  induction idx generalizing l v k with
  | nil => simp at hk
  | cons j is ih =>
    cases v with
    | nil => simp at hlen
    | cons x xs =>
      simp only [PyL.assignAt]
      rw [List.nodup_cons] at hnd
      cases k with
      | zero =>
        simp only [List.getElem_cons_zero, List.getElem?_cons_zero]
        rw [assignAt_not_mem _ _ _ _ hnd.1, List.getElem?_set_self (hlt j List.mem_cons_self)]
      | succ k =>
        simp only [List.getElem_cons_succ, List.getElem?_cons_succ]
        apply ih _ _ hnd.2 (by simpa using hlen)
        intro i hi
        rw [List.length_set]
        exact hlt i (List.mem_cons_of_mem _ hi)

/-! ### removeAt -/

theorem fm_range_sublist {α} (l : List α) (p : Nat → Bool) :
    ((List.range l.length).filterMap fun i => if p i then none else l[i]?).Sublist l := by
  induction l generalizing p with
  | nil => simp
  | cons x xs ih =>
    rw [List.length_cons, List.range_succ_eq_map, List.filterMap_cons, List.filterMap_map]
    have h := ih (fun i => p (i + 1))
    have e : ((fun i => if p i = true then none else (x :: xs)[i]?) ∘ Nat.succ) =
        (fun i => if (fun i => p (i + 1)) i = true then none else xs[i]?) := by
      funext i; simp
    rw [e]
    by_cases h0 : p 0 = true
    · simp only [h0, if_true]
      exact List.Sublist.cons _ h
    · simp only [h0]
      exact List.Sublist.cons_cons _ h

theorem removeAt_sublist {α} (l : List α) (idx : List Nat) : (PyL.removeAt l idx).Sublist l := by
  have := fm_range_sublist l (fun i => decide (i ∈ idx))
  simpa [PyL.removeAt] using this

theorem fm_filter_length {α} (l : List α) (idx : List Nat) (L : List Nat) (hL : ∀ i ∈ L, i < l.length) :
    (L.filterMap fun i => if i ∈ idx then none else l[i]?).length + (L.filter (· ∈ idx)).length = L.length := by
  induction L with
  | nil => simp
  | cons j js ih =>
    have hj := hL j List.mem_cons_self
    have ih := ih (fun i hi => hL i (List.mem_cons_of_mem _ hi))
    by_cases hm : j ∈ idx
    · simp only [List.filterMap_cons, hm, if_true, List.filter_cons, decide_true, List.length_cons]
      omega
    · simp only [List.filterMap_cons, hm, if_false, List.filter_cons, decide_false, List.length_cons,
        List.getElem?_eq_getElem hj]
      simp only [Bool.false_eq_true, if_false]
      omega

theorem removeAt_length {α} (l : List α) (idx : List Nat) (hnd : idx.Nodup) (hlt : ∀ i ∈ idx, i < l.length) :
    (PyL.removeAt l idx).length + idx.length = l.length := by
  have h1 := fm_filter_length l idx (List.range l.length) (fun i hi => List.mem_range.mp hi)
  have h2 : ((List.range l.length).filter (· ∈ idx)).length = idx.length := by
    apply Nat.le_antisymm
    · apply List.Nodup.length_le_of_subset (List.nodup_range.filter _)
      intro i hi
      simpa using (List.mem_filter.mp hi).2
    · apply List.Nodup.length_le_of_subset hnd
      intro i hi
      rw [List.mem_filter]
      exact ⟨List.mem_range.mpr (hlt i hi), by simpa using hi⟩
  rw [List.length_range] at h1
  unfold PyL.removeAt
  omega

/-! bits -/

theorem bitsToInt_eq (b : Bits) (hb : b ≠ []) :
    bitsToInt b = if 2 ^ (b.length - 1) ≤ bitsToNat b then (bitsToNat b : Int) - (2 : Int) ^ b.length
      else (bitsToNat b : Int) := by
  cases b with
  | nil => exact absurd rfl hb
  | cons s rest =>
    have h1 := bitsToNat_cons s rest
    have h2 := bitsToNat_lt rest
    simp only [bitsToInt, List.length_cons, Nat.add_sub_cancel]
    cases s with
    | true =>
      have : 2 ^ rest.length ≤ bitsToNat (true :: rest) := by rw [h1]; simp
      simp [this]
    | false =>
      have : ¬ 2 ^ rest.length ≤ bitsToNat (false :: rest) := by rw [h1]; simp; omega
      simp [this]

theorem two_pow_pred (k : Nat) (hk : k ≠ 0) : (2 : Int) ^ k = 2 * (2 : Int) ^ (k - 1) := by
  obtain ⟨m, rfl⟩ := Nat.exists_eq_succ_of_ne_zero hk
  simp [pow_succ]; ring

theorem two_pow_cast (k : Nat) : (2 : Int) ^ k = ((2 ^ k : Nat) : Int) := by
  push_cast; rfl

theorem intToBits_neg (k : Nat) (v : Int) (hk : k ≠ 0) (hv : v < 0) (hlo : -((2 : Int) ^ (k - 1)) ≤ v) :
    (intToBits k v).length = k ∧ bitsToInt (intToBits k v) = v := by
  have hlen : (intToBits k v).length = k := by simp [intToBits]
  refine ⟨hlen, ?_⟩
  have hne : intToBits k v ≠ [] := by
    intro h; rw [h] at hlen; simp at hlen; omega
  have hp := two_pow_pred k hk
  have hpos : (0 : Int) < (2 : Int) ^ (k - 1) := by positivity
  have hmod : v % (2 : Int) ^ k = v + (2 : Int) ^ k := by
    rw [← Int.add_mul_emod_self_left v ((2 : Int) ^ k) 1, Int.mul_one]
    exact Int.emod_eq_of_lt (by omega) (by omega)
  have hnat : bitsToNat (intToBits k v) = (v + (2 : Int) ^ k).toNat := by
    unfold intToBits
    rw [hmod, bitsToNat_natToBits]
    have : ((v + (2 : Int) ^ k).toNat : Int) < ((2 ^ k : Nat) : Int) := by
      rw [← two_pow_cast]; omega
    exact_mod_cast this
  rw [bitsToInt_eq _ hne, hlen, hnat]
  have hc : 2 ^ (k - 1) ≤ (v + (2 : Int) ^ k).toNat := by
    have : (((2 : Nat) ^ (k - 1) : Nat) : Int) ≤ ((v + (2 : Int) ^ k).toNat : Int) := by
      rw [← two_pow_cast]; omega
    exact_mod_cast this
  rw [if_pos hc]
  omega

/-! ### shapes of the operations (inversion lemmas), integer values, `s[a:b:c] = int` -/

theorem normIdx_some_iff' (n : Nat) (i : Int) (j : Nat) :
    PyL.normIdx n i = some j ↔
      ((0 ≤ i ∧ i < (n : Int) ∧ (j : Int) = i) ∨ (i < 0 ∧ -(n : Int) ≤ i ∧ (j : Int) = i + (n : Int))) := by
  unfold PyL.normIdx
  simp only
  split <;> split <;> simp only [Option.some.injEq, reduceCtorEq, false_iff] <;> omega

theorem normIdx_none_iff' (n : Nat) (i : Int) :
    PyL.normIdx n i = none ↔ (i < -(n : Int) ∨ (n : Int) ≤ i) := by
  unfold PyL.normIdx
  simp only
  split <;> split <;> simp only [reduceCtorEq, false_iff, true_iff] <;> omega

theorem intValue_eq_intBits' (k : Nat) (v : Int) : Alg.intValue k v = Spec.intBits k v := by
  unfold Alg.intValue Spec.intBits
  by_cases hk : k = 0
  · simp [hk]
  · simp only [hk, if_false]
    by_cases hv : 0 ≤ v
    · simp only [hv, if_true]
      by_cases h2 : v < (2 : Int) ^ k
      · rw [if_neg (by omega), if_pos h2]
      · rw [if_pos (by omega), if_neg h2]
    · simp only [hv, if_false]
      have hpos : (0 : Int) < (2 : Int) ^ (k - 1) := by positivity
      by_cases h2 : -((2 : Int) ^ (k - 1)) ≤ v
      · rw [if_neg (by omega), if_pos h2]
      · rw [if_pos (by omega), if_neg h2]

theorem setSlice_ext_eq {α} (l v : List α) (a b : Option Int) (st : Int) (h0 : st ≠ 0) (h1 : st ≠ 1) :
    PyL.setSlice l a b (some st) v =
      if (PyL.slicePositions a b st l.length).length ≠ v.length then .error .value
      else .ok (PyL.assignAt l (PyL.slicePositions a b st l.length) v) := by
  simp only [PyL.setSlice, Option.getD_some, h0, h1, if_false]

theorem setSlice_ext_ok {α} {l v r : List α} {a b : Option Int} {st : Int} (h0 : st ≠ 0) (h1 : st ≠ 1)
    (h : PyL.setSlice l a b (some st) v = .ok r) :
    (PyL.slicePositions a b st l.length).length = v.length ∧
      r = PyL.assignAt l (PyL.slicePositions a b st l.length) v := by
  rw [setSlice_ext_eq l v a b st h0 h1] at h
  split at h
  · cases h
  · rename_i hc
    injection h with h
    exact ⟨not_not.mp hc, h.symm⟩

theorem delSlice_ok {α} {l r : List α} {a b c : Option Int} (h : PyL.delSlice l a b c = .ok r) :
    c.getD 1 ≠ 0 ∧ r = PyL.removeAt l (PyL.slicePositions a b (c.getD 1) l.length) := by
  unfold PyL.delSlice at h
  simp only at h
  split at h
  · cases h
  · rename_i hc
    injection h with h
    exact ⟨hc, h.symm⟩

theorem insPos_some_iff (n : Nat) (pos : Int) (p : Nat) :
    Spec.insPos n pos = some p ↔
      ((0 ≤ pos ∧ pos ≤ (n : Int) ∧ (p : Int) = pos) ∨ (pos < 0 ∧ -(n : Int) ≤ pos ∧ (p : Int) = pos + (n : Int))) := by
  unfold Spec.insPos
  simp only
  split <;> split <;> simp only [Option.some.injEq, reduceCtorEq, false_iff] <;> omega

theorem insPos_none_iff (n : Nat) (pos : Int) :
    Spec.insPos n pos = none ↔ (pos < -(n : Int) ∨ (n : Int) < pos) := by
  unfold Spec.insPos
  simp only
  split <;> split <;> simp only [reduceCtorEq, false_iff, true_iff] <;> omega

theorem insPos_le {n : Nat} {pos : Int} {p : Nat} (h : Spec.insPos n pos = some p) : p ≤ n := by
  have := (insPos_some_iff n pos p).mp h
  omega

theorem insert_ok {l b r : Bits} {pos : Int} (h : Spec.insert l b pos = .ok r) :
    ∃ p, Spec.insPos l.length pos = some p ∧ p ≤ l.length ∧ r = l.take p ++ b ++ l.drop p := by
  unfold Spec.insert at h
  cases hp : Spec.insPos l.length pos with
  | none => rw [hp] at h; cases h
  | some p =>
    rw [hp] at h
    injection h with h
    exact ⟨p, rfl, insPos_le hp, h.symm⟩

theorem overwrite_ok {l b r : Bits} {pos : Int} (h : Spec.overwrite l b pos = .ok r) :
    ∃ p, Spec.insPos l.length pos = some p ∧ p ≤ l.length ∧ r = l.take p ++ b ++ l.drop (p + b.length) := by
  unfold Spec.overwrite at h
  cases hp : Spec.insPos l.length pos with
  | none => rw [hp] at h; cases h
  | some p =>
    rw [hp] at h
    injection h with h
    exact ⟨p, rfl, insPos_le hp, h.symm⟩

theorem setIndex_ok {α} {l r : List α} {i : Int} {v : α} (h : PyL.setIndex l i v = .ok r) :
    ∃ j, PyL.normIdx l.length i = some j ∧ r = l.set j v := by
  unfold PyL.setIndex at h
  split at h
  · cases h
  · rename_i j hj
    injection h with h
    exact ⟨j, hj, h.symm⟩

theorem setItemInt_ok {l r : Bits} {i v : Int} (h : Spec.setItemInt l i v = .ok r) :
    ∃ j, PyL.normIdx l.length i = some j ∧ r = l.set j (decide (v ≠ 0)) := by
  unfold Spec.setItemInt at h
  split at h
  · exact setIndex_ok h
  · cases h

theorem foldl_set_length {α} (idx : List Nat) (x : α) (l : List α) :
    (idx.foldl (fun acc i => acc.set i x) l).length = l.length := by
  induction idx generalizing l with
  | nil => rfl
  | cons j js ih => rw [List.foldl_cons, ih, List.length_set]

theorem foldl_set_not_mem {α} (idx : List Nat) (x : α) (l : List α) (i : Nat) (hi : i ∉ idx) :
    (idx.foldl (fun acc i => acc.set i x) l)[i]? = l[i]? := by
  induction idx generalizing l with
  | nil => rfl
  | cons j js ih =>
    rw [List.foldl_cons, ih _ (fun h => hi (List.mem_cons_of_mem _ h)), List.getElem?_set_ne]
    intro e; exact hi (e ▸ List.mem_cons_self)

theorem sliceIndices_one_bounds (a b : Option Int) (n : Nat) :
    0 ≤ (Py.sliceIndices a b 1 n).1 ∧ (Py.sliceIndices a b 1 n).1 ≤ n ∧
    0 ≤ (Py.sliceIndices a b 1 n).2.1 ∧ (Py.sliceIndices a b 1 n).2.1 ≤ n := by
  have h : ¬ (1 : Int) < 0 := by omega
  unfold Py.sliceIndices
  cases a <;> cases b <;> simp only [h, if_false] <;> (try split) <;> (try split) <;> omega

theorem getSlice_none_ok {α} (l : List α) (a b : Option Int) :
    ∃ s, Py.getSlice l a b none = .ok s ∧ s.length = (PyL.slicePositions a b 1 l.length).length := by
  have h0 : Py.getSlice l a b none = Py.getSlice l a b (some 1) := rfl
  rw [h0, C01.getSlice_eq l a b 1 (by omega)]
  refine ⟨_, rfl, ?_⟩
  rw [slicePositions_length]
  exact C01.getSlice_length l a b 1 (by omega) _ (C01.getSlice_eq l a b 1 (by omega))

theorem intBits_length {k : Nat} {v : Int} {b : Bits} (h : Spec.intBits k v = .ok b) : b.length = k := by
  unfold Spec.intBits at h
  split at h
  · cases h
  · split at h
    · split at h
      · injection h with h; subst h; exact natToBits_length _ _
      · cases h
    · split at h
      · injection h with h; subst h; simp [intToBits]
      · cases h

theorem alg_setSliceInt_unit (l : Bits) (a b c : Option Int) (v : Int)
    (hc : c = none ∨ c = some 1 ∨ c = some (-1)) :
    Alg.setSliceInt l a b c v =
      match Spec.intBits (PyL.slicePositions a b (c.getD 1) l.length).length v with
      | .error e => .error e
      | .ok bits => PyL.setSlice l a b c bits := by
  unfold Alg.setSliceInt
  rw [if_neg (by rcases hc with h | h | h <;> simp [h])]
  simp only [intValue_eq_intBits', slicePositions_length]
  rfl

theorem spec_setSliceInt_unit (l : Bits) (a b c : Option Int) (v : Int)
    (hc : c.getD 1 = 1 ∨ c.getD 1 = -1) :
    Spec.setSliceInt l a b c v =
      match Spec.intBits (PyL.slicePositions a b (c.getD 1) l.length).length v with
      | .error e => .error e
      | .ok bits => PyL.setSlice l a b c bits := by
  unfold Spec.setSliceInt
  simp only
  rw [if_neg (by omega), if_pos hc]
  rfl

theorem spec_setSliceInt_ext (l : Bits) (a b : Option Int) (st : Int) (v : Int)
    (h0 : st ≠ 0) (h1 : st ≠ 1) (h2 : st ≠ -1) :
    Spec.setSliceInt l a b (some st) v =
      if v = 0 ∨ v = 1 then
        .ok ((PyL.slicePositions a b st l.length).foldl (fun acc i => acc.set i (decide (v = 1))) l)
      else .error .value := by
  unfold Spec.setSliceInt
  simp only [Option.getD_some]
  rw [if_neg h0, if_neg (by omega)]

theorem rangeList_filterMap_normIdx (a b : Option Int) (st : Int) (hst : st ≠ 0) (n : Nat) :
    (Py.rangeList (Py.sliceIndices a b st n).1 (Py.sliceIndices a b st n).2.1 st).filterMap (PyL.normIdx n) =
      PyL.slicePositions a b st n := by
  unfold PyL.slicePositions
  simp only
  rw [← List.filterMap_eq_map]
  apply List.filterMap_congr
  intro x hx
  unfold Py.rangeList at hx
  rw [List.mem_map] at hx
  obtain ⟨k, hk, rfl⟩ := hx
  rw [List.mem_range] at hk
  have := C01.sliceIndices_bounds a b st hst n k hk
  simp only [Function.comp]
  rw [normIdx_some_iff']
  left
  omega

theorem setSlice_step1_frame {α} (l v r : List α) (a b : Option Int) (h : PyL.setSlice l a b none v = .ok r)
    (hv : v.length = (PyL.slicePositions a b 1 l.length).length)
    (i : Nat) (hi : i ∉ PyL.slicePositions a b 1 l.length) : r[i]? = l[i]? := by
  rw [slicePositions_length, C01.rangeLen_one] at hv
  rw [slicePositions_eq, C01.rangeLen_one] at hi
  unfold PyL.setSlice at h
  simp only [Option.getD_none, if_true, show ¬ ((1 : Int) = 0) by omega, if_false] at h
  injection h with h
  subst h
  have hb := sliceIndices_one_bounds a b l.length
  generalize (Py.sliceIndices a b 1 l.length).1 = s at *
  generalize (Py.sliceIndices a b 1 l.length).2.1 = e at *
  have hi' : i < s.toNat ∨ s.toNat + (e - s).toNat ≤ i := by
    by_contra hcon
    apply hi
    rw [List.mem_map]
    refine ⟨i - s.toNat, List.mem_range.mpr (by omega), by omega⟩
  unfold splice
  rcases hi' with hi' | hi'
  · rw [List.append_assoc, List.getElem?_append_left (by simp; omega), List.getElem?_take, if_pos hi']
  · rw [List.getElem?_append_right (by simp; omega), List.getElem?_drop]
    congr 1
    simp
    omega

end BM.C03.Core
