/- Kernel obligation: `bfChk` (Proofs/C11_NumDefs.lean) on the 16-bit patterns 0xf000..0xf3ff. -/
import BitstringModel.Proofs.C11_NumDefs
namespace BM.C11
theorem bfChunk_60 : bfChunkOk 60 = true := by decide +kernel
end BM.C11
