/-
  Proofs/C19PP.lean — helper lemmas for Props/C19_PP.lean (cut, groups, digits of the pp layout).
-/
import BitstringModel.Model.C19
import BitstringModel.Proofs.Basic

namespace BM.C19
open BM

/-! ## `cutMsb` -/

theorem cutAux_fuel (n : Nat) (hn : n ≠ 0) :
    ∀ (f1 f2 : Nat) (l : Bits), l.length < f1 → l.length < f2 → cutAux n f1 l = cutAux n f2 l := by
  have hn1 : 1 ≤ n := Nat.pos_of_ne_zero hn
  intro f1
  induction f1 with
  | zero => intro f2 l h1; omega
  | succ f1 ih =>
    intro f2 l h1 h2
    cases f2 with
    | zero => omega
    | succ f2 =>
      simp only [cutAux]
      by_cases hc0 : (l.take n).length = 0
      · simp only [if_pos hc0]
      · simp only [if_neg hc0]
        by_cases hcn : (l.take n).length ≠ n
        · simp only [if_pos hcn]
        · simp only [if_neg hcn]
          have hlen : (l.take n).length = n := by simpa using hcn
          rw [List.length_take] at hlen
          have hd : (l.drop n).length = l.length - n := List.length_drop
          rw [ih f2 (l.drop n) (by omega) (by omega)]

theorem cutAux_succ (n f : Nat) (l : Bits) :
    cutAux n (f + 1) l =
      if (l.take n).length = 0 then [] else
      if (l.take n).length ≠ n then [l.take n] else l.take n :: cutAux n f (l.drop n) := rfl

theorem cutMsb_nil (n : Nat) : cutMsb n [] = [] := by
  simp [cutMsb, cutAux]

theorem cutMsb_cons (n : Nat) (hn : n ≠ 0) (l : Bits) (hl : l ≠ []) :
    cutMsb n l = l.take n :: cutMsb n (l.drop n) := by
  have hpos : 0 < l.length := List.length_pos_iff.mpr hl
  show cutAux n (l.length + 1) l = l.take n :: cutAux n ((l.drop n).length + 1) (l.drop n)
  rw [cutAux_succ]
  have h0 : (l.take n).length ≠ 0 := by rw [List.length_take]; omega
  simp only [if_neg h0]
  by_cases hcn : (l.take n).length ≠ n
  · simp only [if_pos hcn]
    rw [List.length_take] at hcn
    have : l.drop n = [] := List.drop_eq_nil_of_le (by omega)
    rw [this]
    simp [cutAux]
  · simp only [if_neg hcn]
    have hd : (l.drop n).length = l.length - n := List.length_drop
    rw [cutAux_fuel n hn l.length ((l.drop n).length + 1) (l.drop n) (by omega) (by omega)]

/-- Strong induction principle along `cutMsb`. -/
theorem cutMsb_induct (n : Nat) (hn : n ≠ 0) (P : Bits → Prop) (h0 : P [])
    (hs : ∀ l, l ≠ [] → P (l.drop n) → P l) : ∀ l, P l := by
  intro l
  generalize hk : l.length = k
  induction k using Nat.strongRecOn generalizing l with
  | _ k ih =>
    by_cases hl : l = []
    · subst hl; exact h0
    · apply hs l hl
      have hpos : 0 < l.length := List.length_pos_iff.mpr hl
      have hd : (l.drop n).length = l.length - n := List.length_drop
      exact ih (l.drop n).length (by omega) (l.drop n) rfl

theorem cutMsb_flatten (n : Nat) (hn : n ≠ 0) (l : Bits) : (cutMsb n l).flatten = l := by
  induction l using cutMsb_induct n hn with
  | h0 => simp [cutMsb_nil]
  | hs l hl ih =>
    rw [cutMsb_cons n hn l hl, List.flatten_cons, ih, List.take_append_drop]

theorem cutMsb_sizes (n : Nat) (hn : n ≠ 0) (l : Bits) :
    (∀ g ∈ cutMsb n l, 0 < g.length ∧ g.length ≤ n) ∧ (∀ g ∈ (cutMsb n l).dropLast, g.length = n) := by
  induction l using cutMsb_induct n hn with
  | h0 => simp [cutMsb_nil]
  | hs l hl ih =>
    have hpos : 0 < l.length := List.length_pos_iff.mpr hl
    rw [cutMsb_cons n hn l hl]
    constructor
    · intro g hg
      rcases List.mem_cons.mp hg with rfl | hg
      · rw [List.length_take]; omega
      · exact ih.1 g hg
    · intro g hg
      by_cases hd : l.drop n = []
      · rw [hd, cutMsb_nil] at hg
        simp at hg
      · rw [cutMsb_cons n hn _ hd, List.dropLast_cons_cons] at hg
        rcases List.mem_cons.mp hg with rfl | hg
        · rw [List.length_take]
          have : n < l.length := by
            have := List.length_pos_iff.mpr hd
            rw [List.length_drop] at this
            omega
          omega
        · apply ih.2
          rw [cutMsb_cons n hn _ hd]
          exact hg

theorem cutMsb_append (n : Nat) (hn : n ≠ 0) (b : Bits) :
    ∀ a : Bits, a.length % n = 0 → cutMsb n (a ++ b) = cutMsb n a ++ cutMsb n b := by
  intro a
  induction a using cutMsb_induct n hn with
  | h0 => intro _; simp [cutMsb_nil]
  | hs a ha ih =>
    intro hmod
    have hpos : 0 < a.length := List.length_pos_iff.mpr ha
    have hge : n ≤ a.length := by
      rcases Nat.lt_or_ge a.length n with h | h
      · rw [Nat.mod_eq_of_lt h] at hmod; omega
      · exact h
    have hd : (a.drop n).length = a.length - n := List.length_drop
    have hmod' : (a.drop n).length % n = 0 := by
      rw [hd]
      have := Nat.mod_eq_sub_mod hge
      omega
    rw [cutMsb_cons n hn (a ++ b) (by simp [ha]), cutMsb_cons n hn a ha,
      List.take_append_of_le_length hge, List.drop_append_of_le_length hge, ih hmod', List.cons_append]

theorem cutMsb_recut (n k : Nat) (hn : n ≠ 0) (hk : k ≠ 0) (l : Bits) :
    (cutMsb (k * n) l).flatMap (cutMsb n) = cutMsb n l := by
  have hm : k * n ≠ 0 := Nat.mul_ne_zero hk hn
  induction l using cutMsb_induct (k * n) hm with
  | h0 => simp [cutMsb_nil]
  | hs l hl ih =>
    rw [cutMsb_cons (k * n) hm l hl, List.flatMap_cons, ih]
    rcases Nat.lt_or_ge l.length (k * n) with h | h
    · rw [List.take_of_length_le (Nat.le_of_lt h), List.drop_eq_nil_of_le (Nat.le_of_lt h), cutMsb_nil,
        List.append_nil]
    · rw [← cutMsb_append n hn (l.drop (k * n)) (l.take (k * n))
        (by rw [List.length_take, Nat.min_eq_left h]; exact Nat.mul_mod_left k n),
        List.take_append_drop]

theorem cutMsb_ne_nil (n : Nat) (hn : n ≠ 0) (l : Bits) (hl : l ≠ []) : cutMsb n l ≠ [] := by
  rw [cutMsb_cons n hn l hl]; simp

/-! ## `cut` (both bit orders) -/

theorem cut_flatten (lsb0 : Bool) (n : Nat) (hn : n ≠ 0) (l : Bits) :
    (if lsb0 then (cut lsb0 n l).reverse.flatten else (cut lsb0 n l).flatten) = l := by
  cases lsb0 with
  | false => simp only [cut, Bool.false_eq_true, if_false]; exact cutMsb_flatten n hn l
  | true =>
    simp only [cut, if_true]
    have h := cutMsb_flatten n hn l.reverse
    have h2 := congrArg List.reverse h
    rw [List.reverse_flatten, List.reverse_reverse] at h2
    exact h2

theorem cut_sizes (lsb0 : Bool) (n : Nat) (hn : n ≠ 0) (l : Bits) :
    (∀ g ∈ cut lsb0 n l, 0 < g.length ∧ g.length ≤ n) ∧ (∀ g ∈ (cut lsb0 n l).dropLast, g.length = n) := by
  cases lsb0 with
  | false => simp only [cut, Bool.false_eq_true, if_false]; exact cutMsb_sizes n hn l
  | true =>
    simp only [cut, if_true]
    have h := cutMsb_sizes n hn l.reverse
    constructor
    · intro g hg
      rcases List.mem_map.mp hg with ⟨g', hg', rfl⟩
      rw [List.length_reverse]; exact h.1 g' hg'
    · intro g hg
      rw [← List.map_dropLast] at hg
      rcases List.mem_map.mp hg with ⟨g', hg', rfl⟩
      rw [List.length_reverse]; exact h.2 g' hg'

theorem cut_recut (lsb0 : Bool) (n k : Nat) (hn : n ≠ 0) (hk : k ≠ 0) (l : Bits) :
    (cut lsb0 (k * n) l).flatMap (cut lsb0 n) = cut lsb0 n l := by
  cases lsb0 with
  | false => simp only [cut, Bool.false_eq_true, if_false]; exact cutMsb_recut n k hn hk l
  | true =>
    simp only [cut, if_true]
    rw [← cutMsb_recut n k hn hk l.reverse, List.flatMap_map, List.map_flatMap]
    simp only [cut, if_true, List.reverse_reverse]

theorem cut_ne_nil (lsb0 : Bool) (n : Nat) (hn : n ≠ 0) (l : Bits) (hl : l ≠ []) : cut lsb0 n l ≠ [] := by
  cases lsb0 with
  | false => simp only [cut, Bool.false_eq_true, if_false]; exact cutMsb_ne_nil n hn l hl
  | true =>
    simp only [cut, if_true]
    intro h
    exact cutMsb_ne_nil n hn l.reverse (by simpa using hl) (List.map_eq_nil_iff.mp h)

theorem cut_flatten_length_mod (lsb0 : Bool) (n : Nat) (hn : n ≠ 0) (l : Bits) (k : Nat)
    (h : ∀ g ∈ cut lsb0 n l, g.length % k = 0) : l.length % k = 0 := by
  have key : ∀ gs : List Bits, (∀ g ∈ gs, g.length % k = 0) → gs.flatten.length % k = 0 := by
    intro gs
    induction gs with
    | nil => intro _; simp
    | cons g gs ih =>
      intro hg
      rw [List.flatten_cons, List.length_append, Nat.add_mod, hg g (List.mem_cons_self ..),
        ih (fun x hx => hg x (List.mem_cons_of_mem _ hx))]
      simp
  have hf := cut_flatten lsb0 n hn l
  cases lsb0 with
  | false =>
    simp only [Bool.false_eq_true, if_false] at hf
    rw [← hf]; exact key _ h
  | true =>
    simp only [if_true] at hf
    rw [← hf]; exact key _ (fun g hg => h g (List.mem_reverse.mp hg))

/-! ## digits -/

theorem digitsL_bin_append : ∀ a b : Bits, binDigits (a ++ b) = binDigits a ++ binDigits b
  | [], b => rfl
  | x :: t, b => by simp only [List.cons_append, binDigits, digitsL_bin_append t b]

theorem digitsL_oct_append : ∀ a b : Bits, a.length % 3 = 0 → octDigits (a ++ b) = octDigits a ++ octDigits b
  | [], b, _ => by simp [octDigits]
  | [_], _, h => by simp at h
  | [_, _], _, h => by simp at h
  | x :: y :: z :: t, b, h => by
    have h' : t.length % 3 = 0 := by simp only [List.length_cons] at h; omega
    simp only [List.cons_append, octDigits, digitsL_oct_append t b h']

theorem digitsL_hex_append : ∀ a b : Bits, a.length % 4 = 0 → hexDigits (a ++ b) = hexDigits a ++ hexDigits b
  | [], b, _ => by simp [hexDigits]
  | [_], _, h => by simp at h
  | [_, _], _, h => by simp at h
  | [_, _, _], _, h => by simp at h
  | x :: y :: z :: w :: t, b, h => by
    have h' : t.length % 4 = 0 := by simp only [List.length_cons] at h; omega
    simp only [List.cons_append, hexDigits, digitsL_hex_append t b h']

theorem digitsL_append (f : Fmt) (a b : Bits) (h : a.length % f.bpc = 0) :
    digits f (a ++ b) = digits f a ++ digits f b := by
  cases f with
  | bin => exact digitsL_bin_append a b
  | oct => exact digitsL_oct_append a b h
  | hex => exact digitsL_hex_append a b h

theorem digitsL_nil (f : Fmt) : digits f [] = [] := by
  cases f <;> simp [digits, binDigits, octDigits, hexDigits]

theorem digitsL_flatten (f : Fmt) (gs : List Bits) (h : ∀ g ∈ gs, g.length % f.bpc = 0) :
    (gs.map (digits f)).flatten = digits f gs.flatten := by
  induction gs with
  | nil => simp [digitsL_nil]
  | cons g gs ih =>
    rw [List.map_cons, List.flatten_cons, List.flatten_cons, digitsL_append f g _ (h g (List.mem_cons_self ..)),
      ih (fun x hx => h x (List.mem_cons_of_mem _ hx))]

/-! ## `mapE` -/

theorem mapE_ok {α β} (f : α → Except Err β) (g : α → β) (P : α → Prop) :
    ∀ (l : List α) (r : List β), (∀ x y, f x = .ok y → y = g x ∧ P x) → mapE f l = .ok r →
      r = l.map g ∧ ∀ x ∈ l, P x := by
  intro l
  induction l with
  | nil => intro r _ h; simp only [mapE, Except.ok.injEq] at h; subst h; simp
  | cons a t ih =>
    intro r hf h
    simp only [mapE] at h
    split at h
    · exact absurd h (by simp)
    · rename_i b hb
      split at h
      · exact absurd h (by simp)
      · rename_i bs hbs
        simp only [Except.ok.injEq] at h
        subst h
        obtain ⟨hr, hP⟩ := ih bs hf hbs
        obtain ⟨hb1, hb2⟩ := hf a b hb
        refine ⟨by rw [hr, hb1, List.map_cons], ?_⟩
        intro x hx
        rcases List.mem_cons.mp hx with rfl | hx
        · exact hb2
        · exact hP x hx

theorem mapE_getDigits (f : Fmt) (l : List Bits) (r : List Str) (h : mapE (getDigits f) l = .ok r) :
    r = l.map (digits f) ∧ ∀ x ∈ l, x.length % f.bpc = 0 := by
  refine mapE_ok (getDigits f) (digits f) (fun x => x.length % f.bpc = 0) l r ?_ h
  intro x y hxy
  unfold getDigits at hxy
  split at hxy
  · exact absurd hxy (by simp)
  · rename_i hx
    simp only [Except.ok.injEq] at hxy
    exact ⟨hxy.symm, by simpa using hx⟩

/-! ## `formatBits` -/

/-- The groups one column of one line shows for the chunk `bits`. -/
def ppGroups (lsb0 : Bool) (bpg : Nat) (f : Fmt) (bits : Bits) : List Str :=
  if bpg = 0 then [digits f bits] else (cut lsb0 bpg bits).map (digits f)

/-- What a successful `formatBits` guarantees. -/
def ppFmtOk (lsb0 : Bool) (bpg : Nat) (f : Fmt) (bits : Bits) : Prop :=
  bits.length % f.bpc = 0 ∧
  (if lsb0 then (ppGroups lsb0 bpg f bits).reverse.flatten else (ppGroups lsb0 bpg f bits).flatten) = digits f bits

theorem ppGroups_formatBits (lsb0 : Bool) (bits : Bits) (bpg : Nat) (sep : Str) (f : Fmt) (fb : Fb)
    (h : formatBits lsb0 bits bpg sep f = .ok fb) :
    fb.groups = ppGroups lsb0 bpg f bits ∧ ppFmtOk lsb0 bpg f bits := by
  unfold formatBits at h
  unfold ppFmtOk ppGroups
  by_cases hb : bpg = 0
  · simp only [hb, if_true] at h ⊢
    unfold getDigits at h
    split at h
    · exact absurd h (by simp)
    · rename_i d hd
      split at hd
      · exact absurd hd (by simp)
      · rename_i hlen
        simp only [Except.ok.injEq] at hd h
        subst hd; subst h
        refine ⟨rfl, by simpa using hlen, ?_⟩
        cases lsb0 <;> simp
  · simp only [hb, if_false] at h ⊢
    split at h
    · exact absurd h (by simp)
    · rename_i gs hgs
      simp only [Except.ok.injEq] at h
      subst h
      obtain ⟨hr, hlen⟩ := mapE_getDigits f _ gs hgs
      refine ⟨hr, cut_flatten_length_mod lsb0 bpg hb bits _ hlen, ?_⟩
      have hf := cut_flatten lsb0 bpg hb bits
      cases lsb0 with
      | false =>
        simp only [Bool.false_eq_true, if_false] at hf ⊢
        rw [digitsL_flatten f _ hlen, hf]
      | true =>
        simp only [if_true] at hf ⊢
        rw [← List.map_reverse, digitsL_flatten f _ (fun g hg => hlen g (List.mem_reverse.mp hg)), hf]

/-! ## `ppLoop`, `ppLines`, `pp` -/

/-- Relation between a chunk and the line printed for it. -/
def ppRel (c : PPCfg) (bits : Bits) (ln : Line) : Prop :=
  (ln.groups1 = ppGroups c.lsb0 c.bpg c.f1 bits ∧ ppFmtOk c.lsb0 c.bpg c.f1 bits) ∧
  (match c.f2 with
   | none => ln.groups2 = none
   | some f2 => ln.groups2 = some (ppGroups c.lsb0 c.bpg f2 bits) ∧ ppFmtOk c.lsb0 c.bpg f2 bits)

theorem ppLoop_rel (c : PPCfg) (ow : Nat) :
    ∀ (chunks : List Bits) (bitpos : Nat) (fw1 fw2 : Option Nat) (lines : List Line),
      ppLoop c ow chunks bitpos fw1 fw2 = .ok lines → List.Forall₂ (ppRel c) chunks lines := by
  intro chunks
  induction chunks with
  | nil =>
    intro bitpos fw1 fw2 lines h
    simp only [ppLoop, Except.ok.injEq] at h
    subst h; exact List.Forall₂.nil
  | cons bits rest ih =>
    intro bitpos fw1 fw2 lines h
    simp only [ppLoop] at h
    split at h
    · exact absurd h (by simp)
    · rename_i fb1 hfb1
      split at h
      · exact absurd h (by simp)
      · rename_i g2 s2 fw2' hsec
        split at h
        · exact absurd h (by simp)
        · rename_i ls hls
          simp only [Except.ok.injEq] at h
          subst h
          refine List.Forall₂.cons ?_ (ih _ _ _ _ hls)
          obtain ⟨hg1, hok1⟩ := ppGroups_formatBits _ _ _ _ _ _ hfb1
          refine ⟨⟨hg1, hok1⟩, ?_⟩
          split at hsec
          · rename_i hf2
            simp only [Except.ok.injEq, Prod.mk.injEq] at hsec
            simp only [hf2]
            exact hsec.1.symm
          · rename_i f2 hf2
            split at hsec
            · exact absurd hsec (by simp)
            · rename_i fb2 hfb2
              simp only [Except.ok.injEq, Prod.mk.injEq] at hsec
              obtain ⟨hg2, hok2⟩ := ppGroups_formatBits _ _ _ _ _ _ hfb2
              simp only [hf2]
              exact ⟨by rw [← hsec.1, hg2], hok2⟩

theorem ppLines_rel (c : PPCfg) (data : Bits) (lines : List Line) (h : ppLines c data = .ok lines) :
    ∃ m, m ≠ 0 ∧ (c.bpg ≠ 0 → ∃ k, k ≠ 0 ∧ m = k * c.bpg) ∧
      List.Forall₂ (ppRel c) (cut c.lsb0 m data) lines := by
  unfold ppLines at h
  simp only at h
  split at h
  · exact absurd h (by simp)
  · rename_i m hm
    split at h
    · exact absurd h (by simp)
    · rename_i hm0
      refine ⟨m, hm0, ?_, ppLoop_rel c _ _ _ _ _ _ h⟩
      intro hb
      unfold maxBitsPerLine at hm
      have hpos : c.bpg > 0 := Nat.pos_of_ne_zero hb
      rw [if_pos hpos] at hm
      have key : ∀ (q : Nat),
          (Except.ok ((1 + q) * c.bpg) : Except Err Nat) = Except.ok m →
          ∃ k, k ≠ 0 ∧ m = k * c.bpg := by
        intro q hh
        simp only [Except.ok.injEq] at hh
        exact ⟨1 + q, by omega, hh.symm⟩
      exact key _ hm

theorem ppData_eq (lsb0 : Bool) (l : Bits) (t : Nat) (ht : t ≤ l.length) :
    (if t = 0 then l else dataPart lsb0 l t) = ppData lsb0 l t := by
  unfold ppData dataPart sliceAB
  by_cases h0 : t = 0
  · subst h0; cases lsb0 <;> simp
  · simp only [h0, if_false]
    cases lsb0 with
    | false => simp
    | true =>
      simp only [if_true]
      have : l.length - (l.length - t) = t := by omega
      rw [this, Nat.sub_zero]
      exact List.take_of_length_le (by rw [List.length_drop]; omega)

theorem ppTrailing_eq (lsb0 : Bool) (l : Bits) (t : Nat) (ht : t ≤ l.length) :
    trailingPart lsb0 l t = ppTrailing lsb0 l t := by
  unfold ppTrailing trailingPart sliceAB
  have h1 : l.length - (l.length - t) = t := by omega
  cases lsb0 with
  | false =>
    simp only [Bool.false_eq_true, if_false]
    exact List.take_of_length_le (by rw [List.length_drop]; omega)
  | true =>
    simp only [if_true, Nat.sub_self, List.drop_zero, h1]

theorem ppTrailingLen_le (len bpg : Nat) (hasLen : Bool) : trailingLen len bpg hasLen ≤ len := by
  unfold trailingLen
  split
  · exact Nat.mod_le _ _
  · omega

/-- `pp` unfolded, in terms of the SPEC data / trailing bits. -/
theorem pp_unfold (a : PPArgs) (lay : Layout) (bpg : Nat) (hasLen : Bool)
    (ht : processTokens a.t1 a.t2 = .ok (bpg, hasLen)) (h : pp a = .ok lay) :
    ppLines (cfgOf a bpg) (ppData a.lsb0 a.l (trailingLen a.l.length bpg hasLen)) = .ok lay.lines ∧
    lay.trailing =
      (if trailingLen a.l.length bpg hasLen = 0 then none
       else some (strFormAlg a.lsb0 (ppTrailing a.lsb0 a.l (trailingLen a.l.length bpg hasLen)))) := by
  unfold pp at h
  rw [ht] at h
  simp only at h
  rw [ppData_eq _ _ _ (ppTrailingLen_le ..), ppTrailing_eq _ _ _ (ppTrailingLen_le ..)] at h
  split at h
  · exact absurd h (by simp)
  · rename_i lines hl
    simp only [Except.ok.injEq] at h
    subst h
    refine ⟨hl, ?_⟩
    simp only
    by_cases h0 : trailingLen a.l.length bpg hasLen = 0
    · simp [h0]
    · simp [h0]

/-- The main structural fact: the lines correspond one by one to the chunks `cut m data`, `m` a positive multiple
    of the group size. -/
theorem pp_rel (a : PPArgs) (lay : Layout) (bpg : Nat) (hasLen : Bool)
    (ht : processTokens a.t1 a.t2 = .ok (bpg, hasLen)) (h : pp a = .ok lay) :
    ∃ m, m ≠ 0 ∧ (bpg ≠ 0 → ∃ k, k ≠ 0 ∧ m = k * bpg) ∧
      List.Forall₂ (ppRel (cfgOf a bpg))
        (cut a.lsb0 m (ppData a.lsb0 a.l (trailingLen a.l.length bpg hasLen))) lay.lines :=
  ppLines_rel (cfgOf a bpg) _ _ (pp_unfold a lay bpg hasLen ht h).1

/-! ## from the chunk/line relation to the columns -/

theorem ppForall_mem {α β} (R : α → β → Prop) :
    ∀ (l1 : List α) (l2 : List β), List.Forall₂ R l1 l2 → ∀ y ∈ l2, ∃ x ∈ l1, R x y := by
  intro l1 l2 h
  induction h with
  | nil => intro y hy; simp at hy
  | cons hxy _ ih =>
    intro y hy
    rcases List.mem_cons.mp hy with rfl | hy
    · exact ⟨_, List.mem_cons_self .., hxy⟩
    · obtain ⟨x, hx, hr⟩ := ih y hy
      exact ⟨x, List.mem_cons_of_mem _ hx, hr⟩

theorem ppForall_map {α β γ} (R : α → β → Prop) (g : α → γ) (col : β → γ) (P : α → Prop)
    (hR : ∀ x y, R x y → col y = g x ∧ P x) :
    ∀ (l1 : List α) (l2 : List β), List.Forall₂ R l1 l2 → l2.map col = l1.map g ∧ ∀ x ∈ l1, P x := by
  intro l1 l2 h
  induction h with
  | nil => simp
  | cons hxy _ ih =>
    obtain ⟨h1, h2⟩ := hR _ _ hxy
    refine ⟨by rw [List.map_cons, List.map_cons, h1, ih.1], ?_⟩
    intro x hx
    rcases List.mem_cons.mp hx with rfl | hx
    · exact h2
    · exact ih.2 x hx

/-- Both columns of every line, in terms of the chunks. -/
theorem pp_cols (a : PPArgs) (lay : Layout) (bpg : Nat) (hasLen : Bool)
    (ht : processTokens a.t1 a.t2 = .ok (bpg, hasLen)) (h : pp a = .ok lay) :
    ∃ m, m ≠ 0 ∧ (bpg ≠ 0 → ∃ k, k ≠ 0 ∧ m = k * bpg) ∧
      (lay.lines.map (·.groups1) =
          (cut a.lsb0 m (ppData a.lsb0 a.l (trailingLen a.l.length bpg hasLen))).map (ppGroups a.lsb0 bpg a.t1.fmt) ∧
        ∀ ch ∈ cut a.lsb0 m (ppData a.lsb0 a.l (trailingLen a.l.length bpg hasLen)),
          ppFmtOk a.lsb0 bpg a.t1.fmt ch) ∧
      ∀ t2, a.t2 = some t2 →
        (lay.lines.map (fun ln => ln.groups2.getD []) =
          (cut a.lsb0 m (ppData a.lsb0 a.l (trailingLen a.l.length bpg hasLen))).map (ppGroups a.lsb0 bpg t2.fmt) ∧
        ∀ ch ∈ cut a.lsb0 m (ppData a.lsb0 a.l (trailingLen a.l.length bpg hasLen)),
          ppFmtOk a.lsb0 bpg t2.fmt ch) := by
  obtain ⟨m, hm, hk, hrel⟩ := pp_rel a lay bpg hasLen ht h
  refine ⟨m, hm, hk, ?_, ?_⟩
  · refine ppForall_map _ _ _ _ ?_ _ _ hrel
    intro x y hxy
    exact hxy.1
  · intro t2 ht2
    refine ppForall_map _ _ _ _ ?_ _ _ hrel
    intro x y hxy
    have h2 := hxy.2
    have hf2 : (cfgOf a bpg).f2 = some t2.fmt := by simp [cfgOf, ht2]
    rw [hf2] at h2
    simp only at h2
    exact ⟨by rw [h2.1]; rfl, h2.2⟩

theorem groups_flatten_length_mod (k : Nat) :
    ∀ gs : List Bits, (∀ g ∈ gs, g.length % k = 0) → gs.flatten.length % k = 0 := by
  intro gs
  induction gs with
  | nil => intro _; simp
  | cons g gs ih =>
    intro hg
    rw [List.flatten_cons, List.length_append, Nat.add_mod, hg g (List.mem_cons_self ..),
      ih (fun x hx => hg x (List.mem_cons_of_mem _ hx))]
    simp

theorem ppGroups_atomic (lsb0 : Bool) (bpg k : Nat) (f : Fmt) (data : Bits) (hb : bpg ≠ 0) (hk : k ≠ 0) :
    ((cut lsb0 (k * bpg) data).map (ppGroups lsb0 bpg f)).flatten = (groupsOf lsb0 bpg data).map (digits f) := by
  have hfun : ppGroups lsb0 bpg f = fun ch => (cut lsb0 bpg ch).map (digits f) := by
    funext ch; simp only [ppGroups, if_neg hb]
  unfold groupsOf
  rw [← cut_recut lsb0 bpg k hb hk data, List.map_flatMap, ← List.flatMap_def, hfun]

theorem ppGroups_digits_msb0 (bpg : Nat) (f : Fmt) :
    ∀ chunks : List Bits, (∀ ch ∈ chunks, ppFmtOk false bpg f ch) →
      (chunks.map (ppGroups false bpg f)).flatten.flatten = digits f chunks.flatten := by
  intro chunks
  induction chunks with
  | nil => intro _; simp [digitsL_nil]
  | cons ch rest ih =>
    intro hok
    obtain ⟨hlen, hfl⟩ := hok ch (List.mem_cons_self ..)
    simp only [Bool.false_eq_true, if_false] at hfl
    rw [List.map_cons, List.flatten_cons, List.flatten_append, hfl,
      ih (fun x hx => hok x (List.mem_cons_of_mem _ hx)), List.flatten_cons, digitsL_append f ch _ hlen]

theorem ppGroups_digits_lsb0 (bpg : Nat) (f : Fmt) :
    ∀ chunks : List Bits, (∀ ch ∈ chunks, ppFmtOk true bpg f ch) →
      (chunks.map (ppGroups true bpg f)).flatten.reverse.flatten = digits f chunks.reverse.flatten := by
  intro chunks
  induction chunks with
  | nil => intro _; simp [digitsL_nil]
  | cons ch rest ih =>
    intro hok
    obtain ⟨hlen, hfl⟩ := hok ch (List.mem_cons_self ..)
    simp only [if_true] at hfl
    have hrest : ∀ x ∈ rest, ppFmtOk true bpg f x := fun x hx => hok x (List.mem_cons_of_mem _ hx)
    have hmod : rest.reverse.flatten.length % f.bpc = 0 :=
      groups_flatten_length_mod f.bpc _ (fun g hg => (hrest g (List.mem_reverse.mp hg)).1)
    rw [List.map_cons, List.flatten_cons, List.reverse_append, List.flatten_append, hfl, ih hrest,
      List.reverse_cons, List.flatten_append, List.flatten_singleton, digitsL_append f _ ch hmod]

theorem ppGroups_digits (lsb0 : Bool) (bpg m : Nat) (f : Fmt) (data : Bits) (hm : m ≠ 0)
    (hok : ∀ ch ∈ cut lsb0 m data, ppFmtOk lsb0 bpg f ch) :
    (if lsb0 then ((cut lsb0 m data).map (ppGroups lsb0 bpg f)).flatten.reverse.flatten
     else ((cut lsb0 m data).map (ppGroups lsb0 bpg f)).flatten.flatten) = digits f data := by
  have hf := cut_flatten lsb0 m hm data
  cases lsb0 with
  | false =>
    simp only [Bool.false_eq_true, if_false] at hf ⊢
    rw [ppGroups_digits_msb0 bpg f _ hok, hf]
  | true =>
    simp only [if_true] at hf ⊢
    rw [ppGroups_digits_lsb0 bpg f _ hok, hf]

theorem ppGroups_representable (lsb0 : Bool) (bpg m : Nat) (f : Fmt) (data : Bits) (hm : m ≠ 0)
    (hok : ∀ ch ∈ cut lsb0 m data, ppFmtOk lsb0 bpg f ch) : data.length % f.bpc = 0 :=
  cut_flatten_length_mod lsb0 m hm data f.bpc (fun g hg => (hok g hg).1)

theorem ppGroups_length (lsb0 : Bool) (bpg : Nat) (f f' : Fmt) (ch : Bits) :
    (ppGroups lsb0 bpg f ch).length = (ppGroups lsb0 bpg f' ch).length := by
  unfold ppGroups
  split <;> simp

theorem ppGroups_ne_nil (lsb0 : Bool) (bpg : Nat) (f : Fmt) (ch : Bits) (hch : ch ≠ []) :
    ppGroups lsb0 bpg f ch ≠ [] := by
  unfold ppGroups
  split
  · simp
  · rename_i hb
    intro h
    exact cut_ne_nil lsb0 bpg hb ch hch (List.map_eq_nil_iff.mp h)

theorem cut_mem_ne_nil (lsb0 : Bool) (n : Nat) (hn : n ≠ 0) (l : Bits) (g : Bits) (hg : g ∈ cut lsb0 n l) :
    g ≠ [] := by
  have := ((cut_sizes lsb0 n hn l).1 g hg).1
  exact List.length_pos_iff.mp this

end BM.C19
