/- Kernel obligation: `bfChk` (Proofs/C11_NumDefs.lean) on the 16-bit patterns 0xdc00..0xdfff. -/
import BitstringModel.Proofs.C11_NumDefs
namespace BM.C11
theorem bfChunk_55 : bfChunkOk 55 = true := by decide +kernel
end BM.C11
