/- Kernel obligation: `bfChk` (Proofs/C11_NumDefs.lean) on the 16-bit patterns 0x9c00..0x9fff. -/
import BitstringModel.Proofs.C11_NumDefs
namespace BM.C11
theorem bfChunk_39 : bfChunkOk 39 = true := by decide +kernel
end BM.C11
