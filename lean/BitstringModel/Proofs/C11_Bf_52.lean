/- Kernel obligation: `bfChk` (Proofs/C11_NumDefs.lean) on the 16-bit patterns 0xd000..0xd3ff. -/
import BitstringModel.Proofs.C11_NumDefs
namespace BM.C11
theorem bfChunk_52 : bfChunkOk 52 = true := by decide +kernel
end BM.C11
