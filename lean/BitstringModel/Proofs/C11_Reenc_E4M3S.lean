/- Kernel obligation: decoding any code of e4m3mxfp (table E4M3S) and encoding the value again under 'saturate' gives the code back,
   except NaN codes and (e5m2, saturate) infinities - `reencChk` in Proofs/C11_Reenc.lean states the exceptions. -/
import BitstringModel.Proofs.C11_Reenc
namespace BM.C11
theorem reencChk_E4M3S : reencChk .e4m3mxfp .saturate = true := by decide +kernel
end BM.C11
