/-
  Proofs/C10.lean — helper lemmas for the exponential-Golomb `ue` / `se` properties.
-/
import BitstringModel.Model.C10
import BitstringModel.Proofs.Basic
namespace BM.C10
open BM

theorem shiftCount_zero (fuel : Nat) : shiftCount fuel 0 = 0 := by
  cases fuel <;> simp [shiftCount]

theorem shiftCount_eq (fuel m : Nat) (h : m < fuel) (hm : 0 < m) :
    shiftCount fuel m = Nat.log2 m + 1 := by
  induction fuel generalizing m with
  | zero => omega
  | succ f ih =>
    rw [shiftCount, if_pos hm]
    by_cases h2 : 2 ≤ m
    · rw [ih (m / 2) (by omega) (by omega)]
      conv => rhs; rw [Nat.log2_def]
      simp [h2]
    · have h1 : m = 1 := by omega
      subst h1
      rw [Nat.log2_def]; simp [shiftCount_zero]

/-- low bits only depend on the value mod 2^k -/
theorem natToBits_mod (k m : Nat) : natToBits k (m % 2 ^ k) = natToBits k m := by
  have h := natToBits_bitsToNat (natToBits k m)
  rwa [natToBits_length, bitsToNat_natToBits_mod] at h

theorem natToBits_succ_head (k m : Nat) :
    natToBits (k + 1) m = decide (m / 2 ^ k % 2 = 1) :: natToBits k m := by
  induction k generalizing m with
  | zero => simp [natToBits]
  | succ k ih =>
    rw [natToBits, ih (m / 2)]
    conv => rhs; rw [natToBits]
    rw [Nat.div_div_eq_div_mul, Nat.pow_succ, Nat.mul_comm]
    simp

theorem natToBits_succ_of_range (k m : Nat) (hlo : 2 ^ k ≤ m) (hhi : m < 2 ^ (k + 1)) :
    natToBits (k + 1) m = true :: natToBits k (m - 2 ^ k) := by
  rw [natToBits_succ_head, ← natToBits_mod k m]
  rw [Nat.pow_succ] at hhi
  have hd : m / 2 ^ k = 1 := by
    apply Nat.div_eq_of_lt_le <;> omega
  have hmod : m % 2 ^ k = m - 2 ^ k := by
    rw [Nat.mod_eq_sub_mod hlo, Nat.mod_eq_of_lt (by omega)]
  rw [hd, hmod]; simp

/-- Normal form of a codeword. -/
theorem ueEncodeNat_eq (n : Nat) :
    ueEncodeNat n = List.replicate (Nat.log2 (n + 1)) false
      ++ true :: natToBits (Nat.log2 (n + 1)) (n + 1 - 2 ^ Nat.log2 (n + 1)) := by
  unfold ueEncodeNat
  by_cases hn : n = 0
  · subst hn; simp [Nat.log2_def, natToBits]
  · rw [if_neg hn, shiftCount_eq _ _ (by omega) (by omega)]
    simp

theorem countZeros_replicate (k : Nat) (rest : Bits) :
    countZeros (List.replicate k false ++ true :: rest) = some k := by
  induction k with
  | zero => rfl
  | succ k ih => simp [List.replicate_succ, countZeros, ih]

theorem countZeros_replicate_none (k : Nat) : countZeros (List.replicate k false) = none := by
  induction k with
  | zero => rfl
  | succ k ih => simp [List.replicate_succ, countZeros, ih]

theorem countZeros_some (l : Bits) (k : Nat) (h : countZeros l = some k) :
    ∃ rest, l = List.replicate k false ++ true :: rest := by
  induction l generalizing k with
  | nil => simp [countZeros] at h
  | cons x xs ih =>
    cases x with
    | true => simp [countZeros] at h; subst h; exact ⟨xs, by simp⟩
    | false =>
      simp only [countZeros, Option.map_eq_some_iff] at h
      obtain ⟨k', hk', rfl⟩ := h
      obtain ⟨rest, hr⟩ := ih k' hk'
      exact ⟨rest, by rw [hr]; simp [List.replicate_succ]⟩


theorem drop_code (pre tail post : Bits) (k : Nat) :
    List.drop (pre.length + k + 1) (pre ++ (List.replicate k false ++ true :: tail) ++ post)
      = tail ++ post := by
  rw [show pre ++ (List.replicate k false ++ true :: tail) ++ post
        = (pre ++ List.replicate k false ++ [true]) ++ (tail ++ post) by simp]
  exact List.drop_left' (by simp; omega)

theorem readUE_struct (pre tail post : Bits) (k : Nat) (hlen : tail.length = k) :
    readUE (pre ++ (List.replicate k false ++ true :: tail) ++ post) pre.length
      = .ok (2 ^ k - 1 + bitsToNat tail, pre.length + (2 * k + 1)) := by
  unfold readUE
  have hd : List.drop pre.length (pre ++ (List.replicate k false ++ true :: tail) ++ post)
      = List.replicate k false ++ true :: (tail ++ post) := by
    rw [List.append_assoc, List.drop_left']
    · simp
    · rfl
  rw [hd, countZeros_replicate]
  simp only
  by_cases hk0 : k = 0
  · subst hk0
    have : tail = [] := List.eq_nil_of_length_eq_zero hlen
    subst this; simp
  · have hkpos : k > 0 := Nat.pos_of_ne_zero hk0
    rw [if_pos hkpos, if_neg (by simp; omega), drop_code, List.take_left' hlen]
    congr 2; omega

theorem readUE_ok_struct (b : Bits) (p v p' : Nat) (h : readUE b p = .ok (v, p')) :
    ∃ k tail post, b.drop p = List.replicate k false ++ true :: tail ++ post ∧ tail.length = k
      ∧ v = 2 ^ k - 1 + bitsToNat tail ∧ p' = p + (2 * k + 1) := by
  unfold readUE at h
  split at h
  · cases h
  · rename_i lz hcz
    obtain ⟨rest, hrest⟩ := countZeros_some _ _ hcz
    have hl := congrArg List.length hrest
    simp only [List.length_drop, List.length_append, List.length_replicate, List.length_cons] at hl
    have hdrop : b.drop (p + lz + 1) = rest := by
      rw [show p + lz + 1 = p + (lz + 1) by omega, ← List.drop_drop, hrest]
      rw [show List.replicate lz false ++ true :: rest = (List.replicate lz false ++ [true]) ++ rest by simp]
      exact List.drop_left' (by simp)
    simp only at h
    split at h
    · split at h
      · cases h
      · rename_i hlt
        simp only [Except.ok.injEq, Prod.mk.injEq] at h
        refine ⟨lz, rest.take lz, rest.drop lz, ?_, ?_, ?_, ?_⟩
        · rw [hrest]; simp
        · simp; omega
        · rw [← h.1, hdrop]
        · omega
    · simp only [Except.ok.injEq, Prod.mk.injEq] at h
      have : lz = 0 := by omega
      subst this
      exact ⟨0, [], rest, by simpa using hrest, rfl, by simp [← h.1], by omega⟩


theorem log2_bounds (n : Nat) :
    2 ^ Nat.log2 (n + 1) ≤ n + 1 ∧ n + 1 < 2 ^ Nat.log2 (n + 1) * 2 := by
  have h1 : 2 ^ Nat.log2 (n + 1) ≤ n + 1 := Nat.log2_self_le (by omega)
  have h2 : n + 1 < 2 ^ (Nat.log2 (n + 1) + 1) := Nat.lt_log2_self
  rw [Nat.pow_succ] at h2
  exact ⟨h1, h2⟩

theorem ueEncodeNat_length (n : Nat) : (ueEncodeNat n).length = 2 * Nat.log2 (n + 1) + 1 := by
  rw [ueEncodeNat_eq]; simp; omega

/-- Every well-formed `k zeros, 1, k bits` pattern is the codeword of the value it reads as. -/
theorem ueEncodeNat_of_struct (k : Nat) (tail : Bits) (hlen : tail.length = k) :
    ueEncodeNat (2 ^ k - 1 + bitsToNat tail) = List.replicate k false ++ true :: tail := by
  have hlt := bitsToNat_lt tail
  rw [hlen] at hlt
  have hpos : 0 < 2 ^ k := Nat.pow_pos (by omega)
  have hv : 2 ^ k - 1 + bitsToNat tail + 1 = 2 ^ k + bitsToNat tail := by omega
  have hlog : Nat.log2 (2 ^ k - 1 + bitsToNat tail + 1) = k := by
    rw [Nat.log2_eq_iff (by omega), Nat.pow_succ]; omega
  rw [ueEncodeNat_eq, hlog, hv, Nat.add_sub_cancel_left]
  subst hlen
  rw [natToBits_bitsToNat]

theorem readUE_encode' (pre post : Bits) (n : Nat) :
    readUE (pre ++ ueEncodeNat n ++ post) pre.length
      = .ok (n, pre.length + (ueEncodeNat n).length) := by
  rw [ueEncodeNat_length, ueEncodeNat_eq, readUE_struct _ _ _ _ (natToBits_length _ _)]
  obtain ⟨h1, h2⟩ := log2_bounds n
  rw [bitsToNat_natToBits _ _ (by omega)]
  congr 2; omega

theorem take_code (k q : Nat) (tail : Bits) (hq : q < 2 * k + 1) :
    (q ≤ k ∧ (List.replicate k false ++ true :: tail).take q = List.replicate q false) ∨
    (∃ j, j < k ∧ q = k + 1 + j ∧
      (List.replicate k false ++ true :: tail).take q = List.replicate k false ++ true :: tail.take j) := by
  by_cases h : q ≤ k
  · left; refine ⟨h, ?_⟩
    rw [List.take_append_of_le_length (by simpa using h), List.take_replicate, Nat.min_eq_left h]
  · right
    refine ⟨q - (k + 1), by omega, by omega, ?_⟩
    rw [List.take_append, List.take_of_length_le (by simp; omega)]
    simp only [List.length_replicate]
    rw [show q - k = (q - (k + 1)) + 1 by omega, List.take_succ_cons]

theorem readUE_truncated_struct (pre tail : Bits) (k q : Nat) (hlen : tail.length = k)
    (hq : q < 2 * k + 1) :
    readUE (pre ++ (List.replicate k false ++ true :: tail).take q) pre.length = .error .read := by
  unfold readUE
  rw [List.drop_left' rfl]
  rcases take_code k q tail hq with ⟨_, h⟩ | ⟨j, hj, hqj, h⟩
  · rw [h, countZeros_replicate_none]
  · rw [h, countZeros_replicate]
    simp only
    rw [if_pos (by omega), if_pos]
    simp; omega

/-! signed mapping -/

def seDecode (c : Nat) : Int := if c % 2 = 1 then (((c + 1) / 2 : Nat) : Int) else -(((c + 1) / 2 : Nat) : Int)

theorem seDecode_seMap (i : Int) : seDecode (seMap i) = i := by
  unfold seDecode seMap; split <;> split <;> omega

theorem seMap_seDecode (c : Nat) : seMap (seDecode c) = c := by
  unfold seDecode seMap; split <;> split <;> omega

theorem readSE_eq (b : Bits) (p : Nat) :
    readSE b p = match readUE b p with
      | .error e => .error e
      | .ok (c, p') => .ok (seDecode c, p') := by
  unfold readSE seDecode; rfl

/-! streams -/

theorem decodeAll_roundtrip {α} (rd : Bits → Nat → Except Err (α × Nat)) (enc : α → Bits)
    (h : ∀ pre post a, rd (pre ++ enc a ++ post) pre.length = .ok (a, pre.length + (enc a).length))
    (pre post : Bits) (xs : List α) :
    decodeAll rd xs.length (pre ++ xs.flatMap enc ++ post) pre.length
      = .ok (xs, pre.length + (xs.flatMap enc).length) := by
  induction xs generalizing pre with
  | nil => simp [decodeAll]
  | cons x xs ih =>
    simp only [List.length_cons, List.flatMap_cons, decodeAll]
    have h1 := h pre (xs.flatMap enc ++ post) x
    rw [show pre ++ enc x ++ (xs.flatMap enc ++ post) = pre ++ (enc x ++ xs.flatMap enc) ++ post by simp] at h1
    rw [h1]
    simp only
    have h2 := ih (pre ++ enc x)
    rw [show pre ++ enc x ++ xs.flatMap enc ++ post = pre ++ (enc x ++ xs.flatMap enc) ++ post by simp,
      List.length_append] at h2
    rw [h2]
    simp [Nat.add_assoc]

end BM.C10
